module verif/harness

go 1.23.0

toolchain go1.23.7

require (
	github.com/davecgh/go-spew v1.1.2-0.20180830191138-d8f796af33cc
	github.com/go-logr/logr v1.4.2
	github.com/jcmoraisjr/haproxy-ingress v0.0.0
	k8s.io/api v0.32.3
	k8s.io/apimachinery v0.32.3
	k8s.io/client-go v0.32.3
	k8s.io/utils v0.0.0-20241210054802-24370beab758
	sigs.k8s.io/controller-runtime v0.20.3
	sigs.k8s.io/gateway-api v1.0.0
)

require (
	dario.cat/mergo v1.0.1 // indirect
	github.com/Masterminds/goutils v1.1.1 // indirect
	github.com/Masterminds/semver/v3 v3.3.1 // indirect
	github.com/Masterminds/sprig/v3 v3.3.0 // indirect
	github.com/beorn7/perks v1.0.1 // indirect
	github.com/blang/semver/v4 v4.0.0 // indirect
	github.com/cespare/xxhash/v2 v2.3.0 // indirect
	github.com/emicklei/go-restful/v3 v3.12.2 // indirect
	github.com/evanphx/json-patch/v5 v5.9.11 // indirect
	github.com/fsnotify/fsnotify v1.8.0 // indirect
	github.com/fxamacker/cbor/v2 v2.7.0 // indirect
	github.com/go-logr/zapr v1.3.0 // indirect
	github.com/go-openapi/jsonpointer v0.21.0 // indirect
	github.com/go-openapi/jsonreference v0.21.0 // indirect
	github.com/go-openapi/swag v0.23.0 // indirect
	github.com/gogo/protobuf v1.3.2 // indirect
	github.com/golang/protobuf v1.5.4 // indirect
	github.com/google/btree v1.1.3 // indirect
	github.com/google/gnostic-models v0.6.9 // indirect
	github.com/google/go-cmp v0.7.0 // indirect
	github.com/google/gofuzz v1.2.0 // indirect
	github.com/google/uuid v1.6.0 // indirect
	github.com/huandu/xstrings v1.5.0 // indirect
	github.com/jinzhu/copier v0.4.0 // indirect
	github.com/josharian/intern v1.0.0 // indirect
	github.com/json-iterator/go v1.1.12 // indirect
	github.com/klauspost/compress v1.18.0 // indirect
	github.com/kylelemons/godebug v1.1.0 // indirect
	github.com/mailru/easyjson v0.9.0 // indirect
	github.com/mitchellh/copystructure v1.2.0 // indirect
	github.com/mitchellh/mapstructure v1.5.0 // indirect
	github.com/mitchellh/reflectwalk v1.0.2 // indirect
	github.com/modern-go/concurrent v0.0.0-20180306012644-bacd9c7ef1dd // indirect
	github.com/modern-go/reflect2 v1.0.2 // indirect
	github.com/munnerz/goautoneg v0.0.0-20191010083416-a7dc8b61c822 // indirect
	github.com/pkg/errors v0.9.1 // indirect
	github.com/prometheus/client_golang v1.21.1 // indirect
	github.com/prometheus/client_model v0.6.1 // indirect
	github.com/prometheus/common v0.62.0 // indirect
	github.com/prometheus/procfs v0.15.1 // indirect
	github.com/shopspring/decimal v1.4.0 // indirect
	github.com/spf13/cast v1.7.1 // indirect
	github.com/spf13/cobra v1.9.1 // indirect
	github.com/spf13/pflag v1.0.6 // indirect
	github.com/x448/float16 v0.8.4 // indirect
	go.opentelemetry.io/otel v1.34.0 // indirect
	go.opentelemetry.io/otel/trace v1.34.0 // indirect
	go.uber.org/multierr v1.11.0 // indirect
	go.uber.org/zap v1.27.0 // indirect
	golang.org/x/crypto v0.36.0 // indirect
	golang.org/x/net v0.36.0 // indirect
	golang.org/x/oauth2 v0.27.0 // indirect
	golang.org/x/sync v0.12.0 // indirect
	golang.org/x/sys v0.31.0 // indirect
	golang.org/x/term v0.30.0 // indirect
	golang.org/x/text v0.23.0 // indirect
	golang.org/x/time v0.10.0 // indirect
	gomodules.xyz/jsonpatch/v2 v2.4.0 // indirect
	google.golang.org/protobuf v1.36.5 // indirect
	gopkg.in/evanphx/json-patch.v4 v4.12.0 // indirect
	gopkg.in/go-playground/pool.v3 v3.1.1 // indirect
	gopkg.in/inf.v0 v0.9.1 // indirect
	gopkg.in/yaml.v2 v2.4.0 // indirect
	gopkg.in/yaml.v3 v3.0.1 // indirect
	k8s.io/apiextensions-apiserver v0.32.3 // indirect
	k8s.io/apiserver v0.32.3 // indirect
	k8s.io/component-base v0.32.3 // indirect
	k8s.io/klog/v2 v2.130.1 // indirect
	k8s.io/kube-openapi v0.0.0-20241212222426-2c72e554b1e7 // indirect
	sigs.k8s.io/json v0.0.0-20241014173422-cfa47c3a1cc8 // indirect
	sigs.k8s.io/structured-merge-diff/v4 v4.5.0 // indirect
	sigs.k8s.io/yaml v1.4.0 // indirect
)

replace github.com/jcmoraisjr/haproxy-ingress => /repo
