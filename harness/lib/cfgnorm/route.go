package cfgnorm

import (
	"fmt"
	"regexp"
	"strings"
)

// ---------------------------------------------------------------- HAProxy pattern matching

func isDelim(c byte) bool { return c == '/' || c == '?' }

// MatchDir is HAProxy's pat_match_dir = match_word with delimiters '/' and '?':
// leading and trailing delimiters of the pattern are stripped; the pattern must occur in
// the sample starting at the beginning or right after a delimiter, and be followed by a
// delimiter or the end. (Transcribed from src/pattern.c; icase not used by the maps.)
func MatchDir(sample, pattern string) bool {
	ps := pattern
	for len(ps) > 0 && isDelim(ps[0]) {
		ps = ps[1:]
	}
	for len(ps) > 0 && isDelim(ps[len(ps)-1]) {
		ps = ps[:len(ps)-1]
	}
	pl := len(ps)
	if pl > len(sample) {
		return false
	}
	mayMatch := true
	end := len(sample) - pl
	for c := 0; c <= end; c++ {
		if c < len(sample) && isDelim(sample[c]) {
			mayMatch = true
			continue
		}
		if !mayMatch {
			continue
		}
		if pl > 0 && c < len(sample) && sample[c] == ps[0] && sample[c:c+pl] == ps &&
			(c == end || isDelim(sample[c+pl])) {
			return true
		}
		mayMatch = false
	}
	return false
}

// MatchMethod applies one HAProxy string match method.
func MatchMethod(method, sample, pattern string) bool {
	switch method {
	case "str":
		return sample == pattern
	case "beg":
		return strings.HasPrefix(sample, pattern)
	case "end":
		return strings.HasSuffix(sample, pattern)
	case "sub":
		return strings.Contains(sample, pattern)
	case "dir":
		return MatchDir(sample, pattern)
	case "reg":
		re, err := regexp.Compile(pattern)
		if err != nil {
			return false
		}
		return re.MatchString(sample)
	}
	return false
}

// LookupMap returns the value of the first entry (file order) whose key matches.
// For `beg` HAProxy (>= 2.x) indexes prefixes in a tree and answers the LONGEST matching
// prefix; LookupMapLongest implements that reading. With the order the controller emits
// (longer paths first within a host) both agree; Route reports when they do not.
func LookupMap(method string, entries []KV, sample string) (string, bool) {
	for _, e := range entries {
		if MatchMethod(method, sample, e.Key) {
			return e.Value, true
		}
	}
	return "", false
}

// LookupMapLongest is LookupMap for `beg` under longest-prefix semantics (first among equal keys).
func LookupMapLongest(entries []KV, sample string) (string, bool) {
	best, found := -1, false
	var val string
	for _, e := range entries {
		if strings.HasPrefix(sample, e.Key) && len(e.Key) > best {
			best, val, found = len(e.Key), e.Value, true
		}
	}
	return val, found
}

// ---------------------------------------------------------------- evaluator

// Request is one HTTP(S) request as far as routing is concerned.
type Request struct {
	Scheme string // "http" | "https"
	Host   string // Host header (may carry :port, any case)
	Path   string
}

// RouteResult is what the written configuration does with a request.
type RouteResult struct {
	Frontend string            `json:"frontend"`
	Backend  string            `json:"backend,omitempty"`
	Via      string            `json:"via,omitempty"` // which statement chose the backend: "use_backend <target>" or "default_backend"
	Verdict  string            `json:"verdict"`       // "backend" | "redirect" | "deny" | "404" | "nobackend" | "unknown"
	Detail   string            `json:"detail,omitempty"`
	Servers  []Server          `json:"servers,omitempty"` // enabled servers of the backend (weight 0 = draining), when Verdict == "backend"
	Vars     map[string]string `json:"vars,omitempty"`
	Notes    []string          `json:"notes,omitempty"` // constructs the evaluator does not interpret (then Verdict may be optimistic)
}

// ServerKeys renders the servers as sorted "ip:port[:w0]" strings (w0 = weight 0).
func (r RouteResult) ServerKeys() []string {
	var out []string
	for _, s := range r.Servers {
		k := fmt.Sprintf("%s:%d", s.IP, s.Port)
		if s.Weight == 0 {
			k += ":w0"
		}
		out = append(out, k)
	}
	return out
}

type tri int

const (
	tFalse tri = iota
	tTrue
	tUnknown
)

type evalCtx struct {
	req   Request
	host  string // field(1,:),lower
	vars  map[string]string
	notes []string
	acls  map[string]string // acl name -> expression (verbatim)
}

func (c *evalCtx) note(s string) { c.notes = append(c.notes, s) }

// sample evaluates the source expressions the template emits.
func (c *evalCtx) sample(src string) (string, bool) {
	switch src {
	case "var(req.base)":
		v, ok := c.vars["req.base"]
		return v, ok
	case "var(req.host)":
		v, ok := c.vars["req.host"]
		return v, ok
	case `str(<default>\#),concat(,req.path)`:
		return "<default>#" + c.vars["req.path"], true
	case "req.ssl_sni", "ssl_fc_sni":
		return c.host, true
	case "path":
		return c.req.Path, true
	}
	if strings.HasPrefix(src, "var(") && strings.HasSuffix(src, ")") {
		v, ok := c.vars[src[4:len(src)-1]]
		return v, ok
	}
	c.note("unsupported sample " + src)
	return "", false
}

// splitCond splits a condition into its terms: `{ ... }`, `!{ ... }`, names, `!name`, `||`.
func splitCond(s string) []string {
	var out []string
	s = strings.TrimSpace(s)
	for len(s) > 0 {
		neg := ""
		if strings.HasPrefix(s, "!") {
			neg = "!"
			s = strings.TrimSpace(s[1:])
		}
		if strings.HasPrefix(s, "{") {
			depth, i := 0, 0
			for ; i < len(s); i++ {
				if s[i] == '{' {
					depth++
				} else if s[i] == '}' {
					depth--
					if depth == 0 {
						break
					}
				}
			}
			if i >= len(s) {
				out = append(out, neg+s)
				return out
			}
			out = append(out, neg+s[:i+1])
			s = strings.TrimSpace(s[i+1:])
			continue
		}
		i := strings.IndexAny(s, " \t")
		if i < 0 {
			i = len(s)
		}
		out = append(out, neg+s[:i])
		s = strings.TrimSpace(s[i:])
	}
	return out
}

func unquote(s string) string {
	if len(s) >= 2 && (s[0] == '\'' && s[len(s)-1] == '\'' || s[0] == '"' && s[len(s)-1] == '"') {
		return s[1 : len(s)-1]
	}
	return s
}

// evalExpr evaluates the inside of an anonymous acl `{ ... }`.
func (c *evalCtx) evalExpr(e string) tri {
	w := strings.Fields(e)
	if len(w) == 0 {
		return tUnknown
	}
	switch {
	case w[0] == "ssl_fc" && len(w) == 1:
		if c.req.Scheme == "https" {
			return tTrue
		}
		return tFalse
	case w[0] == "path" && len(w) >= 2 && !strings.HasPrefix(w[1], "-"):
		for _, p := range w[1:] {
			if c.req.Path == unquote(p) {
				return tTrue
			}
		}
		return tFalse
	case w[0] == "path_beg" && len(w) >= 2 && !strings.HasPrefix(w[1], "-"):
		for _, p := range w[1:] {
			if strings.HasPrefix(c.req.Path, unquote(p)) {
				return tTrue
			}
		}
		return tFalse
	case strings.HasPrefix(w[0], "var(") && strings.HasSuffix(w[0], ")"):
		name := w[0][4 : len(w[0])-1]
		v, ok := c.vars[name]
		if len(w) == 3 && w[1] == "-m" && w[2] == "found" {
			if ok {
				return tTrue
			}
			return tFalse
		}
		if len(w) >= 4 && w[1] == "-m" && !strings.HasPrefix(w[3], "-") {
			if !ok {
				return tFalse
			}
			for _, p := range w[3:] {
				if MatchMethod(w[2], v, unquote(p)) {
					return tTrue
				}
			}
			return tFalse
		}
		if len(w) == 3 && w[1] == "-m" && w[2] == "bool" {
			return tUnknown
		}
	}
	return tUnknown
}

func (c *evalCtx) evalTerm(t string) tri {
	neg := false
	if strings.HasPrefix(t, "!") {
		neg = true
		t = t[1:]
	}
	var r tri
	if strings.HasPrefix(t, "{") && strings.HasSuffix(t, "}") {
		r = c.evalExpr(strings.TrimSpace(t[1 : len(t)-1]))
	} else if expr, ok := c.acls[t]; ok {
		r = c.evalExpr(expr)
	} else {
		r = tUnknown
	}
	if r == tUnknown {
		c.note("cannot evaluate condition term: " + t)
		return tUnknown
	}
	if neg {
		if r == tTrue {
			return tFalse
		}
		return tTrue
	}
	return r
}

// evalCond evaluates "if a b || c" / "unless ...". Empty condition = true.
func (c *evalCtx) evalCond(cond string) tri {
	cond = strings.TrimSpace(cond)
	if cond == "" {
		return tTrue
	}
	unless := false
	switch {
	case strings.HasPrefix(cond, "if "):
		cond = cond[3:]
	case strings.HasPrefix(cond, "unless "):
		cond = cond[7:]
		unless = true
	}
	res := tFalse
	and := tTrue
	flush := func() {
		if and == tTrue {
			res = tTrue
		} else if and == tUnknown && res != tTrue {
			res = tUnknown
		}
		and = tTrue
	}
	for _, t := range splitCond(cond) {
		if t == "||" || t == "or" {
			flush()
			continue
		}
		if and == tFalse {
			continue
		}
		switch c.evalTerm(t) {
		case tFalse:
			and = tFalse
		case tUnknown:
			and = tUnknown
		}
	}
	flush()
	if unless {
		switch res {
		case tTrue:
			return tFalse
		case tFalse:
			return tTrue
		}
	}
	return res
}

func (c *evalCtx) runLookup(lk Lookup, entries []KV) {
	if c.evalCond(lk.Cond) != tTrue {
		return
	}
	s, ok := c.sample(lk.Source)
	if !ok {
		return
	}
	if lk.Lower {
		s = strings.ToLower(s)
	}
	v, found := LookupMap(lk.Method, entries, s)
	if lk.Method == "beg" {
		if v2, f2 := LookupMapLongest(entries, s); f2 != found || v2 != v {
			c.note(fmt.Sprintf("map_beg(%s): first match %q differs from longest match %q for %q", lk.File, v, v2, s))
		}
	}
	if found {
		c.vars[lk.Var] = v
	} else if lk.Default != "" {
		c.vars[lk.Var] = lk.Default
	}
	// no match and no default: the expression fails, set-var is not performed
}

var dynTargetRe = regexp.MustCompile(`^%\[var\(([^)]+)\)\]$`)

// action classifies a rule line: terminal verdicts of http-request rules.
func ruleAction(line string) (kind, action, cond string) {
	w := strings.Fields(line)
	if len(w) < 2 {
		return "", "", ""
	}
	if w[0] == "acl" {
		return "acl", "", ""
	}
	if w[0] != "http-request" {
		return "", "", ""
	}
	rest := strings.Join(w[2:], " ")
	cond = ""
	if i := strings.Index(" "+rest+" ", " if "); i >= 0 {
		cond = "if " + strings.TrimSpace((" " + rest + " ")[i+4:])
	} else if i := strings.Index(" "+rest+" ", " unless "); i >= 0 {
		cond = "unless " + strings.TrimSpace((" " + rest + " ")[i+8:])
	}
	return "http-request", w[1], cond
}

// runRules walks the ordered statements of a section. It returns a terminal verdict
// ("redirect", "deny", "404", ...) or "".
func (c *evalCtx) runRules(seq []string, lookups []Lookup, entries [][]KV, stopAtUse bool) (verdict, detail string) {
	for _, st := range seq {
		if strings.HasPrefix(st, "@lookup ") {
			var i int
			fmt.Sscanf(st, "@lookup %d", &i)
			e := lookups[i].Entries
			if entries != nil && entries[i] != nil {
				e = entries[i]
			}
			c.runLookup(lookups[i], e)
			continue
		}
		if strings.HasPrefix(st, "@use ") {
			continue
		}
		w := strings.Fields(st)
		if len(w) >= 3 && w[0] == "acl" {
			c.acls[w[1]] = strings.Join(w[2:], " ")
			continue
		}
		// plain set-var without map
		if m := setVarRe.FindStringSubmatch(st); m != nil && m[1] == "http-request" {
			if c.evalCond(strings.TrimSpace(m[4]+" "+m[5])) == tTrue {
				switch {
				case m[3] == "path":
					c.vars[m[2]] = c.req.Path
				case m[3] == "hdr(host),field(1,:),lower":
					c.vars[m[2]] = c.host
				case m[3] == `var(req.host),concat(\#,req.path)`:
					c.vars[m[2]] = c.vars["req.host"] + "#" + c.vars["req.path"]
				case strings.HasPrefix(m[3], "str(") && strings.HasSuffix(m[3], ")") && !strings.Contains(m[3], ","):
					c.vars[m[2]] = m[3][4 : len(m[3])-1]
				case strings.HasPrefix(m[3], "var(") && strings.HasSuffix(m[3], ")") && !strings.Contains(m[3], ","):
					if v, ok := c.vars[m[3][4:len(m[3])-1]]; ok {
						c.vars[m[2]] = v
					}
				default:
					c.note("unsupported set-var expression: " + m[3])
				}
			}
			continue
		}
		kind, action, cond := ruleAction(st)
		if kind != "http-request" {
			continue
		}
		switch action {
		case "redirect", "deny", "tarpit", "reject", "use-service", "auth", "return", "lua.auth-intercept":
			r := c.evalCond(cond)
			if r == tFalse {
				continue
			}
			if r == tUnknown {
				c.note("undecided rule: " + st)
				continue
			}
			switch action {
			case "use-service":
				if strings.Contains(st, "lua.send-404") {
					return "404", st
				}
				return "service", st
			case "lua.auth-intercept":
				c.note("external auth in the way: " + st)
				continue
			case "auth":
				return "auth", st
			}
			return action, st
		}
	}
	return "", ""
}

// Route evaluates what the written configuration does with a request: the frontend's
// ordered lookups (host map, then the default-host map), the frontend's terminal rules
// (redirects ...), the use_backend / default_backend chain and then the chosen backend's
// own terminal rules (ssl redirect, deny ...). scheme "http" uses the frontend bound to
// :80 (`_front_http`), "https" the HTTPS frontend (`_front_https`; a `_front__tls`
// ssl-passthrough listener, when present, is consulted first with the host as SNI).
func Route(nf *NF, req Request) RouteResult {
	host := req.Host
	if i := strings.Index(host, ":"); i >= 0 {
		host = host[:i]
	}
	host = strings.ToLower(host)
	c := &evalCtx{req: req, host: host, vars: map[string]string{}, acls: map[string]string{}}
	res := RouteResult{}
	fname := "_front_http"
	if req.Scheme == "https" {
		fname = "_front_https"
		if tls := nf.Frontend("_front__tls"); tls != nil {
			c.runRules(tls.Seq, tls.Lookups, nil, false)
			if b, via := c.chooseBackend(nf, tls); b != nil && b.Name != "_front__tls" {
				res.Frontend = tls.Name
				res.Backend, res.Via, res.Verdict = b.Name, via, "backend"
				res.Detail = "ssl-passthrough"
				res.Servers = enabled(b.Servers)
				res.Vars, res.Notes = c.vars, c.notes
				return res
			}
			c.vars = map[string]string{}
		}
	}
	f := nf.Frontend(fname)
	res.Frontend = fname
	if f == nil {
		res.Verdict = "nobackend"
		res.Detail = "no frontend " + fname
		return res
	}
	verdict, detail := c.runRules(f.Seq, f.Lookups, nil, false)
	if verdict != "" {
		res.Verdict, res.Detail = verdict, detail
		res.Vars, res.Notes = c.vars, c.notes
		return res
	}
	b, via := c.chooseBackend(nf, f)
	res.Via = via
	if b == nil {
		res.Verdict = "nobackend"
		res.Vars, res.Notes = c.vars, c.notes
		return res
	}
	res.Backend = b.Name
	verdict, detail = c.runRules(b.Seq, b.Lookups, b.idEntries, false)
	if verdict != "" {
		res.Verdict, res.Detail = verdict, detail
	} else {
		res.Verdict = "backend"
		res.Servers = enabled(b.Servers)
	}
	res.Vars, res.Notes = c.vars, c.notes
	return res
}

func enabled(ss []Server) []Server {
	var out []Server
	for _, s := range ss {
		if !s.Disabled {
			out = append(out, s)
		}
	}
	return out
}

// chooseBackend walks use_backend rules in order, then default_backend. A dynamic
// target that is unset or names no backend is skipped, as HAProxy does.
func (c *evalCtx) chooseBackend(nf *NF, f *Frontend) (*Backend, string) {
	for _, u := range f.UseBackends {
		r := c.evalCond(u.Cond)
		if r == tUnknown {
			c.note("undecided use_backend: " + u.Target + " " + u.Cond)
		}
		if r != tTrue {
			continue
		}
		name := u.Target
		if m := dynTargetRe.FindStringSubmatch(u.Target); m != nil {
			v, ok := c.vars[m[1]]
			if !ok {
				continue
			}
			name = v
		}
		if b := nf.Backend(name); b != nil {
			return b, "use_backend " + u.Target
		}
	}
	if f.DefaultBackend != "" {
		if b := nf.Backend(f.DefaultBackend); b != nil {
			return b, "default_backend"
		}
	}
	return nil, ""
}
