package cfgnorm_test

import (
	"fmt"
	"os"
	"reflect"
	"testing"

	networking "k8s.io/api/networking/v1"
	"k8s.io/apimachinery/pkg/util/intstr"
	"sigs.k8s.io/controller-runtime/pkg/client"

	"verif/harness/lib/cfgnorm"
	"verif/harness/lib/pipeline"
	"verif/harness/lib/world"
)

func scratch(t *testing.T, name string) string {
	d := fmt.Sprintf("/verif/.work/cfgnorm-test/%d-%s", os.Getpid(), name)
	os.RemoveAll(d)
	t.Cleanup(func() { os.RemoveAll(d) })
	return d
}

func cluster(ips ...string) []client.Object {
	svc1 := world.Service("ns1", "svc1", world.SvcPort{Name: "http", Port: 80, TargetPort: intstr.FromInt(8080)})
	ep1 := world.Endpoints("ns1", "svc1", world.EpPort{Name: "http", Port: 8080, Ready: ips, NotReady: []string{"10.0.0.9"}})
	svc2 := world.Service("ns1", "svc2", world.SvcPort{Name: "http", Port: 80, TargetPort: intstr.FromInt(8080)})
	ep2 := world.Endpoints("ns1", "svc2", world.EpPort{Name: "http", Port: 8080, Ready: []string{"10.0.1.1"}})
	svc3 := world.Service("ns1", "svc3", world.SvcPort{Name: "http", Port: 80, TargetPort: intstr.FromInt(8080)})
	ep3 := world.Endpoints("ns1", "svc3", world.EpPort{Name: "http", Port: 8080, Ready: []string{"10.0.2.1"}})
	ing1 := world.Ingress("ns1", "ing1", 10,
		world.IngRule{Host: "a.example", Paths: []world.IngPath{
			{Path: "/app", Type: "Prefix", Service: "svc1", PortNum: 80},
			{Path: "/app/exact", Type: "Exact", Service: "svc2", PortName: "http"},
			{Path: "/", Type: "ImplementationSpecific", Service: "svc2", PortNum: 80},
		}},
		world.IngRule{Host: "", Paths: []world.IngPath{{Path: "/", Type: "Prefix", Service: "svc3", PortNum: 80}}},
	)
	ing2 := world.Ingress("ns1", "ing2", 11,
		world.IngRule{Host: "t.example", Paths: []world.IngPath{{Path: "/", Type: "Prefix", Service: "svc1", PortNum: 80}}})
	ing2.Spec.TLS = []networking.IngressTLS{{Hosts: []string{"t.example"}, SecretName: "tls-valid"}}
	sec := world.TLSSecret("ns1", "tls-valid", "t.example", 0)
	return []client.Object{svc1, ep1, svc2, ep2, svc3, ep3, sec, ing1, ing2}
}

func run(t *testing.T, name string, objs []client.Object) (*pipeline.Pipeline, *cfgnorm.NF) {
	p := pipeline.New(pipeline.Options{Dir: scratch(t, name), WatchWithoutClass: true})
	t.Cleanup(p.Close)
	if err := p.Seed(objs...); err != nil {
		t.Fatal(err)
	}
	nf, err := cfgnorm.Load(p.Dir(), p.Prefix())
	if err != nil {
		t.Fatal(err)
	}
	if len(nf.Problems) > 0 {
		t.Fatalf("problems: %v", nf.Problems)
	}
	return p, nf
}

func TestParse(t *testing.T) {
	p, nf := run(t, "parse", cluster("10.0.0.2", "10.0.0.1"))
	if p.Reloads() != 1 {
		t.Errorf("reloads = %d", p.Reloads())
	}
	f := nf.Frontend("_front_http")
	if f == nil || f.Mode != "http" || len(f.Binds) != 1 || f.Binds[0].Addr != ":80" {
		t.Fatalf("bad http frontend: %+v", f)
	}
	if f.DefaultBackend != "_error404" {
		t.Errorf("default_backend = %q", f.DefaultBackend)
	}
	var methods []string
	for _, l := range f.Lookups {
		methods = append(methods, l.Var+":"+l.Method)
	}
	// /app (prefix) overlaps / (begin) on a.example: it gets a priority file of its own
	want := []string{"req.backend:str", "req.backend:dir", "req.backend:dir", "req.backend:beg", "req.defaultbackend:dir"}
	if !reflect.DeepEqual(methods, want) {
		t.Errorf("lookup chain = %v, want %v", methods, want)
	}
	if f.Lookups[0].Entries[0] != (cfgnorm.KV{Key: "a.example#/app/exact", Value: "ns1_svc2_8080"}) {
		t.Errorf("exact map = %v", f.Lookups[0].Entries)
	}
	if !f.Lookups[3].Lower || f.Lookups[1].Lower || f.Lookups[3].Cond != "if !{ var(req.backend) -m found }" {
		t.Errorf("lower flags wrong")
	}
	h := nf.Frontend("_front_https")
	if h == nil || len(h.Binds) != 1 || len(h.Binds[0].CrtList) != 2 {
		t.Fatalf("bad https frontend / crt-list: %+v", h)
	}
	if h.Binds[0].CrtList[0].Cert != "fake-default" || h.Binds[0].CrtList[0].Filters[0] != "!*" {
		t.Errorf("default crt entry = %+v", h.Binds[0].CrtList[0])
	}
	if c := h.Binds[0].CrtList[1]; len(c.Cert) != 16 || c.Filters[0] != "t.example" {
		t.Errorf("host crt entry = %+v", c)
	}
	b := nf.Backend("ns1_svc1_8080")
	if b == nil || b.Mode != "http" {
		t.Fatalf("no backend")
	}
	if len(b.Servers) != 2 || b.Servers[0].IP != "10.0.0.1" || b.Servers[1].IP != "10.0.0.2" || b.Servers[0].Port != 8080 || b.Servers[0].Weight != 1 {
		t.Errorf("servers = %+v (placeholders must be erased, order canonical)", b.Servers)
	}
	if b.Slots <= 2 {
		t.Errorf("slots = %d, expected placeholders to have been counted", b.Slots)
	}
	if nf.Backend("_error404") == nil {
		t.Errorf("no _error404")
	}
}

func TestRoute(t *testing.T) {
	_, nf := run(t, "route", cluster("10.0.0.1", "10.0.0.2"))
	type tc struct {
		scheme, host, path string
		verdict, backend   string
		servers            []string
	}
	for _, c := range []tc{
		{"http", "a.example", "/app", "backend", "ns1_svc1_8080", []string{"10.0.0.1:8080", "10.0.0.2:8080"}},
		{"http", "a.example", "/app/x", "backend", "ns1_svc1_8080", []string{"10.0.0.1:8080", "10.0.0.2:8080"}},
		{"http", "a.example", "/appx", "backend", "ns1_svc2_8080", []string{"10.0.1.1:8080"}}, // prefix is per path element; falls to "/" begin
		{"http", "a.example", "/app/exact", "backend", "ns1_svc2_8080", []string{"10.0.1.1:8080"}},
		{"http", "A.Example:8080", "/app/exact/", "backend", "ns1_svc1_8080", []string{"10.0.0.1:8080", "10.0.0.2:8080"}},
		{"http", "a.example", "/other", "backend", "ns1_svc2_8080", []string{"10.0.1.1:8080"}},
		{"http", "zzz.example", "/any", "backend", "ns1_svc3_8080", []string{"10.0.2.1:8080"}}, // default host
		{"https", "a.example", "/app", "backend", "ns1_svc3_8080", []string{"10.0.2.1:8080"}},  // no TLS on a.example: https falls to the default host
		{"https", "t.example", "/x", "backend", "ns1_svc1_8080", []string{"10.0.0.1:8080", "10.0.0.2:8080"}},
		{"http", "t.example", "/x", "redirect", "ns1_svc1_8080", nil}, // ssl-redirect of a TLS host
	} {
		r := cfgnorm.Route(nf, cfgnorm.Request{Scheme: c.scheme, Host: c.host, Path: c.path})
		if r.Verdict != c.verdict || r.Backend != c.backend || !reflect.DeepEqual(r.ServerKeys(), c.servers) || len(r.Notes) > 0 {
			t.Errorf("%s %s%s: got %s %s %v notes=%v, want %s %s %v", c.scheme, c.host, c.path, r.Verdict, r.Backend, r.ServerKeys(), r.Notes, c.verdict, c.backend, c.servers)
		}
	}
}

func TestRoute404AndDefaultBackend(t *testing.T) {
	objs := cluster("10.0.0.1")
	// drop the default-host rule
	ing1 := objs[7].(*networking.Ingress)
	ing1.Spec.Rules = ing1.Spec.Rules[:1]
	_, nf := run(t, "r404", objs)
	r := cfgnorm.Route(nf, cfgnorm.Request{Scheme: "http", Host: "zzz.example", Path: "/any"})
	if r.Verdict != "404" || r.Backend != "_error404" {
		t.Errorf("got %+v", r)
	}
	p := pipeline.New(pipeline.Options{Dir: scratch(t, "defback"), WatchWithoutClass: true, DefaultService: "ns1/svc3"})
	defer p.Close()
	if err := p.Seed(objs...); err != nil {
		t.Fatal(err)
	}
	nf2, _ := cfgnorm.Load(p.Dir(), p.Prefix())
	r = cfgnorm.Route(nf2, cfgnorm.Request{Scheme: "http", Host: "zzz.example", Path: "/any"})
	if r.Verdict != "backend" || r.Backend != "ns1_svc3_8080" || r.Via != "default_backend" {
		t.Errorf("got %+v", r)
	}
}

func TestNFEquality(t *testing.T) {
	_, a := run(t, "eq-a", cluster("10.0.0.1", "10.0.0.2"))
	_, b := run(t, "eq-b", cluster("10.0.0.2", "10.0.0.1")) // same multiset, other order: other slot assignment possible
	if !cfgnorm.Equal(a, b) {
		t.Errorf("NF differs for the same cluster:\n%v", cfgnorm.Diff(a, b, 20))
	}
	_, c := run(t, "eq-c", cluster("10.0.0.1", "10.0.0.3"))
	if cfgnorm.Equal(a, c) {
		t.Errorf("NF equal although an endpoint differs")
	}
}

func TestDrain(t *testing.T) {
	p := pipeline.New(pipeline.Options{Dir: scratch(t, "drain"), WatchWithoutClass: true})
	defer p.Close()
	objs := append(cluster("10.0.0.1"), p.GlobalConfigMap(map[string]string{"drain-support": "true"}))
	if err := p.Seed(objs...); err != nil {
		t.Fatal(err)
	}
	nf, _ := cfgnorm.Load(p.Dir(), p.Prefix())
	r := cfgnorm.Route(nf, cfgnorm.Request{Scheme: "http", Host: "a.example", Path: "/app"})
	if !reflect.DeepEqual(r.ServerKeys(), []string{"10.0.0.1:8080", "10.0.0.9:8080:w0"}) {
		t.Errorf("drain: %v", r.ServerKeys())
	}
}

func TestMatchDir(t *testing.T) {
	for _, c := range []struct {
		sample, pat string
		want        bool
	}{
		{"a.example#/app", "a.example#/app", true},
		{"a.example#/app/", "a.example#/app", true},
		{"a.example#/app/x", "a.example#/app", true},
		{"a.example#/appx", "a.example#/app", false},
		{"a.example#/app?x=1", "a.example#/app", true},
		{"a.example#/app/x", "a.example#/app/", true},
		{"<default>#/app", "<default>#/", true},
		{"b.example#/x/a.example#/app", "a.example#/app", true}, // match_word matches after any delimiter
		{"a.example#/App", "a.example#/app", false},
	} {
		if got := cfgnorm.MatchDir(c.sample, c.pat); got != c.want {
			t.Errorf("MatchDir(%q,%q)=%v want %v", c.sample, c.pat, got, c.want)
		}
	}
}
