// Package cfgnorm parses what the controller wrote (haproxy.cfg + every *.cfg of the
// cfg dir, the map / list files they reference, the crt-list, userlists) into a
// semantic normal form (NF) with a deterministic JSON / text rendering, and provides
// Route, a small evaluator of the directive subset the template emits for the HTTP and
// HTTPS frontends.
//
// What NF erases (so that behaviour-equal configurations have equal NF):
//   - comments, blank lines, the --local-filesystem-prefix in file names;
//   - server slot names, disabled placeholder slots (127.0.0.1:1023), the order of the
//     servers (a backend holds the sorted MULTISET of its enabled/disabled real servers);
//   - path ids (pathNN) inside a backend: resolved through the backend's id maps to the
//     "method:key" they stand for; runs of ids are sorted;
//   - the numbering of auth-proxy helper backends (_auth_NNNN, 127.0.0.1:NNNN, socket id):
//     renamed after the backend they point to;
//   - certificate file names: replaced by the content hash ("fake-default" for the
//     auto-generated default certificate, whose content differs per controller start).
//
// What NF keeps: every other line verbatim and in order; names of map files (they are a
// deterministic function of the model) with their ordered (key,value) content.
package cfgnorm

import (
	"bufio"
	"crypto/sha256"
	"encoding/hex"
	"encoding/json"
	"fmt"
	"os"
	"path/filepath"
	"regexp"
	"sort"
	"strconv"
	"strings"
)

// KV is one line of a map / list file.
type KV struct {
	Key   string `json:"k"`
	Value string `json:"v,omitempty"`
}

// Lookup is one `set-var(<Var>) <Source>[,lower],map_<Method>(<File>[,<Default>]) [if <Cond>]`.
type Lookup struct {
	Var     string `json:"var"`
	Source  string `json:"source"` // e.g. "var(req.base)", "str(<default>\#),concat(,req.path)", "var(req.host)", "req.ssl_sni"
	Lower   bool   `json:"lower,omitempty"`
	Method  string `json:"method"` // str | beg | dir | reg | end | sub ...
	File    string `json:"file"`
	Default string `json:"default,omitempty"`
	Cond    string `json:"cond,omitempty"` // verbatim condition after "if"/"unless" (with the keyword)
	Entries []KV   `json:"entries"`
	Missing bool   `json:"missing,omitempty"` // the file does not exist
}

// UseBackend is one use_backend rule.
type UseBackend struct {
	Target string `json:"target"` // literal name or %[var(x)]
	Cond   string `json:"cond,omitempty"`
}

// CrtEntry is one crt-list line.
type CrtEntry struct {
	Cert    string   `json:"cert"`              // content hash, "fake-default" or "missing:<name>"
	Options string   `json:"options,omitempty"` // the [...] part, file names normalised
	Filters []string `json:"filters"`           // sni filters
}

// Bind is one bind line.
type Bind struct {
	Addr    string     `json:"addr"`
	Options string     `json:"options,omitempty"`
	CrtList []CrtEntry `json:"crt_list,omitempty"`
}

// Frontend is a frontend or listen section.
type Frontend struct {
	Kind           string       `json:"kind"`
	Name           string       `json:"name"`
	Mode           string       `json:"mode,omitempty"`
	Binds          []Bind       `json:"binds"`
	Lookups        []Lookup     `json:"lookups,omitempty"`
	UseBackends    []UseBackend `json:"use_backends,omitempty"`
	DefaultBackend string       `json:"default_backend,omitempty"`
	Rules          []string     `json:"rules,omitempty"`   // every other line, in order
	Servers        []Server     `json:"servers,omitempty"` // listen sections
	// Seq is the full ordered statement list (lookups as "@lookup i", use_backend as "@use i")
	// so that relative order of rules and lookups is part of NF and available to Route.
	Seq []string `json:"seq"`
}

// Server is one real server of a backend (slot name erased).
type Server struct {
	IP       string `json:"ip"`
	Port     int    `json:"port"`
	Weight   int    `json:"weight"`
	Disabled bool   `json:"disabled,omitempty"`
	Options  string `json:"options,omitempty"`
}

// Drain tells whether the server takes no new traffic (weight 0).
func (s Server) Drain() bool { return s.Weight == 0 }

// Backend is a backend section.
type Backend struct {
	Name    string   `json:"name"`
	Mode    string   `json:"mode,omitempty"`
	Servers []Server `json:"servers"`
	Slots   int      `json:"-"`                 // number of server lines incl. placeholders (not part of NF)
	Lookups []Lookup `json:"lookups,omitempty"` // path id maps
	Rules   []string `json:"rules,omitempty"`   // all other lines, in order, path ids resolved
	Seq     []string `json:"-"`                 // raw ordered statements for Route ("@lookup i" or the raw rule)

	idEntries [][]KV // raw entries of the lookups (real path ids), for Route
}

// Userlist is a userlist section.
type Userlist struct {
	Name  string   `json:"name"`
	Users []string `json:"users"`
}

// Section is any other section, verbatim.
type Section struct {
	Header string   `json:"header"`
	Lines  []string `json:"lines"`
}

// NF is the semantic normal form of a written configuration.
type NF struct {
	Global    []string        `json:"global"`
	Defaults  []string        `json:"defaults"`
	Frontends []*Frontend     `json:"frontends"`
	Backends  []*Backend      `json:"backends"`
	Userlists []*Userlist     `json:"userlists,omitempty"`
	Others    []Section       `json:"others,omitempty"`
	Files     map[string][]KV `json:"files,omitempty"` // referenced .map/.list files other than the lookups' (acl -f ...)
	Problems  []string        `json:"problems,omitempty"`
	byName    map[string]*Backend
	frontBy   map[string]*Frontend
}

// Backend returns a backend by name.
func (nf *NF) Backend(name string) *Backend { return nf.byName[name] }

// Frontend returns a frontend / listen section by name.
func (nf *NF) Frontend(name string) *Frontend { return nf.frontBy[name] }

// JSON is the deterministic rendering.
func (nf *NF) JSON() string {
	b, err := json.MarshalIndent(nf, "", " ")
	if err != nil {
		panic(err)
	}
	return string(b)
}

// Equal compares two normal forms.
func Equal(a, b *NF) bool { return a.JSON() == b.JSON() }

// Diff returns up to max differing lines of the two renderings ("-a" / "+b").
func Diff(a, b *NF, max int) []string {
	al := strings.Split(a.JSON(), "\n")
	bl := strings.Split(b.JSON(), "\n")
	am, bm := map[string]int{}, map[string]int{}
	for _, l := range al {
		am[l]++
	}
	for _, l := range bl {
		bm[l]++
	}
	var out []string
	for _, l := range al {
		if bm[l] > 0 {
			bm[l]--
		} else if len(out) < max {
			out = append(out, "- "+strings.TrimSpace(l))
		}
	}
	for _, l := range bl {
		if am[l] > 0 {
			am[l]--
		} else if len(out) < 2*max {
			out = append(out, "+ "+strings.TrimSpace(l))
		}
	}
	return out
}

// Text is a compact human readable rendering (lookup chains, backends, servers).
func (nf *NF) Text() string {
	var sb strings.Builder
	for _, f := range nf.Frontends {
		fmt.Fprintf(&sb, "%s %s mode=%s\n", f.Kind, f.Name, f.Mode)
		for _, b := range f.Binds {
			fmt.Fprintf(&sb, "  bind %s %s\n", b.Addr, b.Options)
			for _, c := range b.CrtList {
				fmt.Fprintf(&sb, "    crt %s %s %v\n", c.Cert, c.Options, c.Filters)
			}
		}
		for _, l := range f.Lookups {
			fmt.Fprintf(&sb, "  %s <- %s lower=%v map_%s(%s) %s\n", l.Var, l.Source, l.Lower, l.Method, filepath.Base(l.File), l.Cond)
			for _, e := range l.Entries {
				fmt.Fprintf(&sb, "      %s -> %s\n", e.Key, e.Value)
			}
		}
		for _, u := range f.UseBackends {
			fmt.Fprintf(&sb, "  use_backend %s %s\n", u.Target, u.Cond)
		}
		if f.DefaultBackend != "" {
			fmt.Fprintf(&sb, "  default_backend %s\n", f.DefaultBackend)
		}
	}
	for _, b := range nf.Backends {
		fmt.Fprintf(&sb, "backend %s mode=%s\n", b.Name, b.Mode)
		for _, s := range b.Servers {
			fmt.Fprintf(&sb, "  server %s:%d weight=%d disabled=%v %s\n", s.IP, s.Port, s.Weight, s.Disabled, s.Options)
		}
		for _, r := range b.Rules {
			fmt.Fprintf(&sb, "  | %s\n", r)
		}
	}
	for _, u := range nf.Userlists {
		fmt.Fprintf(&sb, "userlist %s %v\n", u.Name, u.Users)
	}
	return sb.String()
}

// ---------------------------------------------------------------- loading

type loader struct {
	dir    string // real LocalFS dir
	prefix string // prefix written in the files
	nf     *NF
	pems   map[string]string
}

// Load parses the configuration written under dir (the pipeline's Dir(): it contains
// etc/haproxy/haproxy.cfg). prefix is the --local-filesystem-prefix as written inside the
// files (the pipeline's Prefix()); it is stripped from every file name.
func Load(dir, prefix string) (*NF, error) {
	ld := &loader{dir: dir, prefix: prefix, pems: map[string]string{}}
	ld.nf = &NF{Files: map[string][]KV{}, byName: map[string]*Backend{}, frontBy: map[string]*Frontend{}}
	cfgdir := filepath.Join(dir, "etc/haproxy")
	names, err := filepath.Glob(filepath.Join(cfgdir, "*.cfg"))
	if err != nil {
		return nil, err
	}
	sort.Strings(names)
	if len(names) == 0 {
		return nil, fmt.Errorf("no *.cfg under %s", cfgdir)
	}
	var lines []string
	for _, n := range names {
		f, err := os.Open(n)
		if err != nil {
			return nil, err
		}
		sc := bufio.NewScanner(f)
		sc.Buffer(make([]byte, 1<<20), 1<<26)
		for sc.Scan() {
			lines = append(lines, sc.Text())
		}
		f.Close()
	}
	ld.parse(lines)
	return ld.nf, nil
}

// real path of a (prefix-stripped) name
func (ld *loader) real(name string) string { return filepath.Join(ld.dir, name) }

func (ld *loader) strip(s string) string {
	if ld.prefix == "" {
		return s
	}
	return strings.ReplaceAll(s, ld.prefix, "")
}

var pathRe = regexp.MustCompile(`(/etc/haproxy|/var/lib/haproxy|/var/run/haproxy)/[^\s,()\[\]]+`)

// normFiles replaces certificate file names by their content hash and records the
// content of referenced map/list files (names kept).
func (ld *loader) normFiles(line string) string {
	return pathRe.ReplaceAllStringFunc(line, func(p string) string {
		switch {
		case strings.HasSuffix(p, ".pem"):
			return "<pem:" + ld.pem(p) + ">"
		case strings.HasSuffix(p, ".map") || strings.HasSuffix(p, ".list"):
			if _, ok := ld.nf.Files[p]; !ok {
				if kv, err := readKV(ld.real(p)); err == nil {
					ld.nf.Files[p] = kv
				} else {
					ld.nf.Files[p] = nil
					ld.nf.Problems = append(ld.nf.Problems, "missing file "+p)
				}
			}
		}
		return p
	})
}

func (ld *loader) pem(p string) string {
	if h, ok := ld.pems[p]; ok {
		return h
	}
	var h string
	base := filepath.Base(p)
	if base == "_fake-default.pem" || base == "ca__fake-default.pem" {
		h = "fake-default"
	} else if b, err := os.ReadFile(ld.real(p)); err == nil {
		s := sha256.Sum256(b)
		h = hex.EncodeToString(s[:8])
	} else {
		h = "missing:" + base
	}
	ld.pems[p] = h
	return h
}

func readKV(file string) ([]KV, error) {
	b, err := os.ReadFile(file)
	if err != nil {
		return nil, err
	}
	out := []KV{}
	for _, l := range strings.Split(string(b), "\n") {
		l = strings.TrimSpace(l)
		if l == "" || strings.HasPrefix(l, "#") {
			continue
		}
		k, v, _ := strings.Cut(l, " ")
		out = append(out, KV{Key: k, Value: strings.TrimSpace(v)})
	}
	return out, nil
}

var sectionWords = map[string]bool{"global": true, "defaults": true, "frontend": true, "backend": true, "listen": true,
	"userlist": true, "resolvers": true, "peers": true, "cache": true, "ring": true, "mailers": true, "program": true,
	"http-errors": true, "fcgi-app": true}

type rawSection struct {
	kind, name string
	lines      []string
}

func (ld *loader) parse(lines []string) {
	var secs []*rawSection
	var cur *rawSection
	for _, l := range lines {
		t := strings.TrimSpace(l)
		if t == "" || strings.HasPrefix(t, "#") {
			continue
		}
		t = ld.strip(t)
		if l[0] != ' ' && l[0] != '\t' {
			w := strings.Fields(t)
			if sectionWords[w[0]] {
				cur = &rawSection{kind: w[0]}
				if len(w) > 1 {
					cur.name = strings.Join(w[1:], " ")
				}
				secs = append(secs, cur)
				continue
			}
		}
		if cur == nil {
			ld.nf.Problems = append(ld.nf.Problems, "line outside any section: "+t)
			continue
		}
		cur.lines = append(cur.lines, t)
	}
	// auth proxy renaming: _auth_<port> -> target backend
	ren := authRenames(secs)
	for _, s := range secs {
		for i, l := range s.lines {
			s.lines[i] = ren(l)
		}
		s.name = ren(s.name)
	}
	for _, s := range secs {
		switch s.kind {
		case "global":
			for _, l := range s.lines {
				ld.nf.Global = append(ld.nf.Global, ld.normFiles(l))
			}
		case "defaults":
			for _, l := range s.lines {
				ld.nf.Defaults = append(ld.nf.Defaults, ld.normFiles(l))
			}
		case "frontend", "listen":
			f := ld.frontend(s)
			ld.nf.Frontends = append(ld.nf.Frontends, f)
			ld.nf.frontBy[f.Name] = f
			if s.kind == "listen" {
				// a listen section is also addressable as a backend
				b := &Backend{Name: f.Name, Mode: f.Mode, Servers: f.Servers}
				if _, dup := ld.nf.byName[b.Name]; !dup {
					ld.nf.byName[b.Name] = b
				}
			}
		case "backend":
			b := ld.backend(s)
			if _, dup := ld.nf.byName[b.Name]; dup {
				ld.nf.Problems = append(ld.nf.Problems, "duplicated backend "+b.Name)
			}
			ld.nf.Backends = append(ld.nf.Backends, b)
			ld.nf.byName[b.Name] = b
		case "userlist":
			u := &Userlist{Name: s.name}
			for _, l := range s.lines {
				u.Users = append(u.Users, l)
			}
			sort.Strings(u.Users)
			ld.nf.Userlists = append(ld.nf.Userlists, u)
		default:
			o := Section{Header: strings.TrimSpace(s.kind + " " + s.name)}
			for _, l := range s.lines {
				o.Lines = append(o.Lines, ld.normFiles(l))
			}
			ld.nf.Others = append(ld.nf.Others, o)
		}
	}
	sort.SliceStable(ld.nf.Backends, func(i, j int) bool { return ld.nf.Backends[i].Name < ld.nf.Backends[j].Name })
	sort.SliceStable(ld.nf.Frontends, func(i, j int) bool { return ld.nf.Frontends[i].Name < ld.nf.Frontends[j].Name })
	sort.SliceStable(ld.nf.Userlists, func(i, j int) bool { return ld.nf.Userlists[i].Name < ld.nf.Userlists[j].Name })
	// lookups' files are inlined; drop them from Files unless also referenced otherwise
}

var authNameRe = regexp.MustCompile(`^_auth_(\d+)$`)

// authRenames finds the helper backends `_auth_<port>` and the backend each one
// proxies to (frontend _front__auth: `use_backend <target> [if { so_id <id> }]` in bind
// order) and returns a function renaming port-derived tokens after the target.
func authRenames(secs []*rawSection) func(string) string {
	type bindInfo struct{ port, id string }
	target := map[string]string{} // port -> target backend
	for _, s := range secs {
		if s.kind != "frontend" || !strings.HasPrefix(s.name, "_front__auth") {
			continue
		}
		var binds []bindInfo
		byID := map[string]string{}
		var uses [][2]string // target, so_id
		for _, l := range s.lines {
			w := strings.Fields(l)
			if w[0] == "bind" && len(w) > 1 && strings.HasPrefix(w[1], "127.0.0.1:") {
				bi := bindInfo{port: strings.TrimPrefix(w[1], "127.0.0.1:")}
				for i := 2; i+1 < len(w); i++ {
					if w[i] == "id" {
						bi.id = w[i+1]
					}
				}
				binds = append(binds, bi)
				if bi.id != "" {
					byID[bi.id] = bi.port
				}
			}
			if w[0] == "use_backend" && len(w) > 1 {
				id := ""
				for i := 2; i+1 < len(w); i++ {
					if w[i] == "so_id" {
						id = w[i+1]
					}
				}
				uses = append(uses, [2]string{w[1], id})
			}
		}
		for i, u := range uses {
			if u[1] != "" {
				if p, ok := byID[u[1]]; ok {
					target[p] = u[0]
				}
			} else if i < len(binds) {
				target[binds[i].port] = u[0]
			}
		}
	}
	if len(target) == 0 {
		return func(s string) string { return s }
	}
	ports := make([]string, 0, len(target))
	for p := range target {
		ports = append(ports, p)
	}
	sort.Slice(ports, func(i, j int) bool {
		return len(ports[i]) > len(ports[j]) || (len(ports[i]) == len(ports[j]) && ports[i] < ports[j])
	})
	var pairs []string
	for _, p := range ports {
		t := target[p]
		pairs = append(pairs, "_auth_"+p, "_auth{"+t+"}", "127.0.0.1:"+p, "127.0.0.1:{authport "+t+"}")
		if n, err := strconv.Atoi(p); err == nil {
			pairs = append(pairs, "so_id "+strconv.Itoa(10000+n), "so_id {authid "+t+"}", " id "+strconv.Itoa(10000+n), " id {authid "+t+"}")
		}
	}
	r := strings.NewReplacer(pairs...)
	return func(s string) string { return r.Replace(s) }
}

var setVarRe = regexp.MustCompile(`^(http-request|tcp-request content|http-response|tcp-request session|http-after-response) set-var\(([^)]+)\) (\S+)(?: (if|unless) (.*))?$`)
var mapConvRe = regexp.MustCompile(`^map_([a-z]+)\((.*)\)$`)

// splitTop splits at commas that are not inside parentheses.
func splitTop(s string) []string {
	var out []string
	depth, start := 0, 0
	for i := 0; i < len(s); i++ {
		switch s[i] {
		case '(':
			depth++
		case ')':
			depth--
		case ',':
			if depth == 0 {
				out = append(out, s[start:i])
				start = i + 1
			}
		}
	}
	return append(out, s[start:])
}

// parseLookup recognises a set-var whose expression ends in a map_xxx converter.
func (ld *loader) parseLookup(line string) (Lookup, bool) {
	m := setVarRe.FindStringSubmatch(line)
	if m == nil {
		return Lookup{}, false
	}
	convs := splitTop(m[3])
	last := convs[len(convs)-1]
	mm := mapConvRe.FindStringSubmatch(last)
	if mm == nil {
		return Lookup{}, false
	}
	lk := Lookup{Var: m[2], Method: mm[1]}
	args := strings.SplitN(mm[2], ",", 2)
	lk.File = args[0]
	if len(args) > 1 {
		lk.Default = args[1]
	}
	var src []string
	for _, c := range convs[:len(convs)-1] {
		if c == "lower" {
			lk.Lower = true
			continue
		}
		src = append(src, c)
	}
	lk.Source = strings.Join(src, ",")
	if m[4] != "" {
		lk.Cond = m[4] + " " + m[5]
	}
	kv, err := readKV(ld.real(lk.File))
	if err != nil {
		lk.Missing = true
		ld.nf.Problems = append(ld.nf.Problems, "missing map file "+lk.File)
		kv = []KV{}
	}
	lk.Entries = kv
	return lk, true
}

func (ld *loader) crtList(file string) []CrtEntry {
	b, err := os.ReadFile(ld.real(file))
	if err != nil {
		ld.nf.Problems = append(ld.nf.Problems, "missing crt-list "+file)
		return nil
	}
	var out []CrtEntry
	for _, l := range strings.Split(string(b), "\n") {
		l = strings.TrimSpace(ld.strip(l))
		if l == "" || strings.HasPrefix(l, "#") {
			continue
		}
		e := CrtEntry{Filters: []string{}}
		rest := l
		if i := strings.Index(rest, " ["); i >= 0 {
			if j := strings.Index(rest[i:], "]"); j >= 0 {
				e.Options = strings.TrimSpace(ld.normFiles(rest[i+2 : i+j]))
				rest = rest[:i] + rest[i+j+1:]
			}
		}
		w := strings.Fields(rest)
		if len(w) == 0 {
			continue
		}
		e.Cert = ld.pem(w[0])
		e.Filters = append(e.Filters, w[1:]...)
		sort.Strings(e.Filters)
		out = append(out, e)
	}
	// order of crt-list lines matters only between overlapping filters; keep file order
	return out
}

func (ld *loader) parseServer(w []string) (Server, bool) {
	// server NAME ADDR [opts]
	if len(w) < 3 {
		return Server{}, false
	}
	name, addr := w[1], w[2]
	s := Server{Weight: 1}
	if i := strings.LastIndex(addr, ":"); i >= 0 {
		s.IP = addr[:i]
		s.Port, _ = strconv.Atoi(addr[i+1:])
	} else {
		s.IP = addr
	}
	var opts []string
	for i := 3; i < len(w); i++ {
		switch {
		case w[i] == "weight" && i+1 < len(w):
			s.Weight, _ = strconv.Atoi(w[i+1])
			i++
		case w[i] == "disabled":
			s.Disabled = true
		default:
			o := w[i]
			if o == name {
				o = "<slot>"
			}
			opts = append(opts, o)
		}
	}
	s.Options = ld.normFiles(strings.Join(opts, " "))
	return s, true
}

func sortServers(ss []Server) {
	sort.SliceStable(ss, func(i, j int) bool {
		a, b := ss[i], ss[j]
		if a.IP != b.IP {
			return a.IP < b.IP
		}
		if a.Port != b.Port {
			return a.Port < b.Port
		}
		if a.Weight != b.Weight {
			return a.Weight < b.Weight
		}
		if a.Disabled != b.Disabled {
			return !a.Disabled
		}
		return a.Options < b.Options
	})
}

func (ld *loader) frontend(s *rawSection) *Frontend {
	f := &Frontend{Kind: s.kind, Name: s.name, Binds: []Bind{}, Seq: []string{}}
	for _, l := range s.lines {
		w := strings.Fields(l)
		switch {
		case w[0] == "mode" && len(w) == 2:
			f.Mode = w[1]
			f.Seq = append(f.Seq, l)
		case w[0] == "bind" && len(w) >= 2:
			b := Bind{Addr: w[1]}
			var opts []string
			for i := 2; i < len(w); i++ {
				if w[i] == "crt-list" && i+1 < len(w) {
					b.CrtList = ld.crtList(w[i+1])
					opts = append(opts, "crt-list", "<crt-list>")
					i++
					continue
				}
				opts = append(opts, w[i])
			}
			b.Options = ld.normFiles(strings.Join(opts, " "))
			f.Binds = append(f.Binds, b)
			f.Seq = append(f.Seq, "bind "+b.Addr+" "+b.Options)
		case w[0] == "use_backend" && len(w) >= 2:
			u := UseBackend{Target: w[1]}
			if len(w) > 2 {
				u.Cond = strings.Join(w[2:], " ")
			}
			f.Seq = append(f.Seq, fmt.Sprintf("@use %d", len(f.UseBackends)))
			f.UseBackends = append(f.UseBackends, u)
		case w[0] == "default_backend" && len(w) == 2:
			f.DefaultBackend = w[1]
			f.Seq = append(f.Seq, l)
		case w[0] == "server" && s.kind == "listen":
			if sv, ok := ld.parseServer(w); ok {
				f.Servers = append(f.Servers, sv)
			}
		default:
			if lk, ok := ld.parseLookup(l); ok {
				f.Seq = append(f.Seq, fmt.Sprintf("@lookup %d", len(f.Lookups)))
				f.Lookups = append(f.Lookups, lk)
			} else {
				n := ld.normFiles(l)
				f.Rules = append(f.Rules, n)
				f.Seq = append(f.Seq, n)
			}
		}
	}
	sortServers(f.Servers)
	return f
}

var pathIDRe = regexp.MustCompile(`\bpath\d+\b`)

func (ld *loader) backend(s *rawSection) *Backend {
	b := &Backend{Name: s.name, Servers: []Server{}}
	var rawRules []string
	for _, l := range s.lines {
		w := strings.Fields(l)
		switch {
		case w[0] == "mode" && len(w) == 2:
			b.Mode = w[1]
		case w[0] == "server":
			b.Slots++
			sv, ok := ld.parseServer(w)
			if !ok {
				rawRules = append(rawRules, l)
				continue
			}
			if sv.Disabled && sv.IP == "127.0.0.1" && sv.Port == 1023 {
				continue // empty slot
			}
			b.Servers = append(b.Servers, sv)
		default:
			if lk, ok := ld.parseLookup(l); ok {
				b.Seq = append(b.Seq, fmt.Sprintf("@lookup %d", len(b.Lookups)))
				b.Lookups = append(b.Lookups, lk)
			} else {
				rawRules = append(rawRules, l)
				b.Seq = append(b.Seq, l)
			}
		}
	}
	sortServers(b.Servers)
	// path ids -> what they stand for
	ids := map[string][]string{}
	for _, lk := range b.Lookups {
		if !strings.Contains(lk.Var, "pathID") {
			continue
		}
		for _, e := range lk.Entries {
			ids[e.Value] = append(ids[e.Value], lk.Method+":"+e.Key)
		}
	}
	resolve := func(id string) string {
		if ks, ok := ids[id]; ok {
			ks = append([]string{}, ks...)
			sort.Strings(ks)
			return "{" + strings.Join(ks, "|") + "}"
		}
		return id
	}
	for _, l := range rawRules {
		w := strings.Fields(ld.normFiles(l))
		// resolve and sort runs of consecutive path ids
		for i := 0; i < len(w); {
			if !pathIDRe.MatchString(w[i]) || pathIDRe.FindString(w[i]) != w[i] {
				i++
				continue
			}
			j := i
			for j < len(w) && pathIDRe.FindString(w[j]) == w[j] {
				w[j] = resolve(w[j])
				j++
			}
			sort.Strings(w[i:j])
			i = j
		}
		b.Rules = append(b.Rules, strings.Join(w, " "))
	}
	// in NF the id maps themselves are rendered with resolved values
	for li := range b.Lookups {
		lk := &b.Lookups[li]
		if !strings.Contains(lk.Var, "pathID") {
			continue
		}
		ne := make([]KV, len(lk.Entries))
		for i, e := range lk.Entries {
			ne[i] = KV{Key: e.Key, Value: "<id>"}
		}
		lk.Entries = ne
	}
	// keep the raw id entries for Route
	b.rawIDs(ld)
	return b
}

// rawIDs re-reads the id maps so that Route can evaluate txn.pathID with the real ids.
func (b *Backend) rawIDs(ld *loader) {
	b.idEntries = make([][]KV, len(b.Lookups))
	for i, lk := range b.Lookups {
		kv, err := readKV(ld.real(lk.File))
		if err == nil {
			b.idEntries[i] = kv
		}
	}
}
