// Package pipeline runs the REAL haproxy-ingress controller pipeline offline, in
// process, in "files mode":
//
//	cluster objects  ->  controller-runtime fake client (backed by a client-go ObjectTracker)
//	events           ->  the real watchers (reconciler.VerifNewWatchers: predicates + handlers)
//	                     -> a real *convtypes.ChangedObjects per reconciliation (Swap)
//	cache            ->  the real cache facade (services.VerifNewCache = createCacheFacade)
//	tracker          ->  the real tracker.NewTracker()
//	conversion       ->  the real converters.NewConverter(timer, instance.Config(), changed, opts).Sync()
//	rendering        ->  the real haproxy.CreateInstance + ParseTemplates with the real templates
//	                     of /repo/rootfs/etc/templates, then AcmeUpdate() (if Leader) and
//	                     HAProxyUpdate(timer), exactly the three calls of Services.ReconcileIngress.
//
// ConverterOptions / InstanceOptions are filled field by field the way Services.setup
// does it (pkg/controller/services/services.go).  What is NOT the real thing (trusted
// glue): this file; the fake client standing in for the informer cache; ReloadQueue is
// a counting stub (a reload that HAProxyUpdate asks for is recorded, nothing is
// executed); Metrics is helper_test.NewMetricsMock(); RootFSPrefix is the absolute
// /repo/rootfs (the real code uses the relative "rootfs"); no leader elector (Leader is
// an option).  The admin/master sockets point into the scratch dir and do not exist,
// so every dynamic update attempt fails over to "reload needed" unless the caller
// serves them (socket mode: set Options.MasterSocket / AdminSocket).
//
// Every Pipeline owns its scratch directory (Options.Dir = LocalFSPrefix); there are no
// package globals, so many pipelines can live in one process (also concurrently).
//
// See README.md for the API and a usage example.
package pipeline

import (
	"context"
	"fmt"
	"os"
	"path/filepath"
	"reflect"
	"sort"
	"strconv"
	"strings"
	"sync"
	"time"

	"github.com/go-logr/logr"
	api "k8s.io/api/core/v1"
	networking "k8s.io/api/networking/v1"
	"k8s.io/apimachinery/pkg/api/meta"
	metav1 "k8s.io/apimachinery/pkg/apis/meta/v1"
	"k8s.io/apimachinery/pkg/runtime"
	"k8s.io/apimachinery/pkg/runtime/serializer"
	k8stypes "k8s.io/apimachinery/pkg/types"
	utilruntime "k8s.io/apimachinery/pkg/util/runtime"
	clientgoscheme "k8s.io/client-go/kubernetes/scheme"
	k8stesting "k8s.io/client-go/testing"
	"sigs.k8s.io/controller-runtime/pkg/client"
	"sigs.k8s.io/controller-runtime/pkg/client/apiutil"
	"sigs.k8s.io/controller-runtime/pkg/client/fake"
	gatewayv1 "sigs.k8s.io/gateway-api/apis/v1"
	gatewayv1alpha2 "sigs.k8s.io/gateway-api/apis/v1alpha2"
	gatewayv1beta1 "sigs.k8s.io/gateway-api/apis/v1beta1"

	"github.com/jcmoraisjr/haproxy-ingress/pkg/acme"
	"github.com/jcmoraisjr/haproxy-ingress/pkg/controller/config"
	"github.com/jcmoraisjr/haproxy-ingress/pkg/controller/reconciler"
	"github.com/jcmoraisjr/haproxy-ingress/pkg/controller/services"
	"github.com/jcmoraisjr/haproxy-ingress/pkg/converters"
	"github.com/jcmoraisjr/haproxy-ingress/pkg/converters/tracker"
	convtypes "github.com/jcmoraisjr/haproxy-ingress/pkg/converters/types"
	"github.com/jcmoraisjr/haproxy-ingress/pkg/haproxy"
	"github.com/jcmoraisjr/haproxy-ingress/pkg/types"
	types_helper "github.com/jcmoraisjr/haproxy-ingress/pkg/types/helper_test"
	"github.com/jcmoraisjr/haproxy-ingress/pkg/utils"
)

// RepoRootFS is where the real templates live.
var RepoRootFS = repoRoot() + "/rootfs"

// repoRoot is /repo, or the scratch copy named by VERIF_REPO when the checks are tried
// against a copy of the repository.
func repoRoot() string {
	if r := os.Getenv("VERIF_REPO"); r != "" {
		return r
	}
	return "/repo"
}

// Op is the kind of a cluster change.
type Op int

// The three operations.
const (
	Create Op = iota
	Update
	Delete
)

func (o Op) String() string {
	switch o {
	case Create:
		return "create"
	case Update:
		return "update"
	default:
		return "delete"
	}
}

// Change is one cluster change: the object after the change (for Delete only
// kind/namespace/name are used; the stored object is the one handed to the watchers).
type Change struct {
	Op  Op
	Obj client.Object
}

// Options configure a pipeline. The zero value of every field is a sensible default.
type Options struct {
	// Dir is the scratch directory of this pipeline (it becomes --local-filesystem-prefix).
	// Mandatory; created if missing. Must live under /verif/.work/... for checks.
	Dir string

	// command line options of the controller (config.Config)
	BackendShards         int      // --backend-shards
	IngressClass          string   // --ingress-class, default "haproxy"
	ControllerName        string   // default "haproxy-ingress.github.io/controller"
	WatchWithoutClass     bool     // --watch-ingress-without-class
	ClassPrecedence       bool     // --ingress-class-precedence
	AllowCrossNamespace   bool     // --allow-cross-namespace
	DefaultService        string   // --default-backend-service "ns/name"
	DefaultSSLCertificate string   // --default-ssl-certificate "ns/name"
	DisableKeywords       []string // --disable-config-keywords
	ConfigMapName         string   // --configmap "ns/name", default "ingress-controller/haproxy-ingress"
	TCPConfigMapName      string   // --tcp-services-configmap
	PodNamespace          string   // POD_NAMESPACE (ElectionNamespace), default "ingress-controller"
	AnnPrefix             []string // --annotations-prefix, default the two standard prefixes
	SortEndpointsBy       string   // default "endpoint"
	AcmeTrackTLSAnn       bool
	ExternalNameLookup    bool // false (default) = --disable-external-name (no DNS offline)
	PublishService        string
	EnableEndpointSlices  bool
	HasGatewayA2          bool
	HasGatewayB1          bool
	HasGatewayV1          bool
	HasTCPRouteA2         bool
	MaxOldConfigFiles     int
	TrackOldInstances     bool

	// socket mode: the caller serves these unix sockets (fakehaproxy). Empty = files mode.
	MasterSocket string // sets IsExternal, as --master-socket does
	AdminSocket  string // default <Dir>/var/run/haproxy/admin.sock (absent => no dynamic update)

	// acme (optional, as Services.setup wires them when --acme-server)
	AcmeSigner    acme.Signer
	AcmeQueue     utils.QueueFacade
	LeaderElector types.LeaderElector
	// Leader: call Instance.AcmeUpdate() on each reconciliation (svcleader.isLeader()).
	Leader bool

	// ReloadInline: leave InstanceOptions.ReloadQueue nil, so HAProxyUpdate calls
	// Instance.Reload itself (only meaningful in socket mode, --reload-interval=0).
	ReloadInline bool

	// NoAutoMeta: do not fill creationTimestamp / generation / resourceVersion / uid.
	NoAutoMeta bool

	// Client: use this client instead of the built-in fake one (Apply then only fires the
	// events; the caller keeps the client's content in step). Rarely needed.
	Client client.Client
}

// ReloadStub is the counting stub set as InstanceOptions.ReloadQueue.
type ReloadStub struct {
	mu    sync.Mutex
	count int
}

// Add records one requested reload.
func (r *ReloadStub) Add(item interface{}) { r.mu.Lock(); r.count++; r.mu.Unlock() }

// AddAfter records one requested reload.
func (r *ReloadStub) AddAfter(item interface{}, d time.Duration) { r.Add(item) }

// Remove does nothing.
func (r *ReloadStub) Remove(item interface{}) {}

// Start does nothing.
func (r *ReloadStub) Start(context.Context) error { return nil }

// Count is the number of reloads asked for so far.
func (r *ReloadStub) Count() int { r.mu.Lock(); defer r.mu.Unlock(); return r.count }

// Logger records what the converter / instance log (types.Logger).
type Logger struct {
	mu    sync.Mutex
	Lines []string // "W ...", "E ...", "I ..." (info only when Verbose)
	// Verbose keeps Info/InfoV lines too.
	Verbose bool
}

func (l *Logger) add(level, msg string, args []interface{}) {
	if len(args) > 0 {
		msg = fmt.Sprintf(msg, args...)
	}
	l.mu.Lock()
	if len(l.Lines) < 20000 {
		l.Lines = append(l.Lines, level+" "+msg)
	}
	l.mu.Unlock()
}

// InfoV ...
func (l *Logger) InfoV(v int, msg string, args ...interface{}) {
	if l.Verbose {
		l.add("I", msg, args)
	}
}

// Info ...
func (l *Logger) Info(msg string, args ...interface{}) {
	if l.Verbose {
		l.add("I", msg, args)
	}
}

// Warn ...
func (l *Logger) Warn(msg string, args ...interface{}) { l.add("W", msg, args) }

// Error ...
func (l *Logger) Error(msg string, args ...interface{}) { l.add("E", msg, args) }

// Fatal ...
func (l *Logger) Fatal(msg string, args ...interface{}) { l.add("F", msg, args) }

// Take returns and clears the recorded lines.
func (l *Logger) Take() []string {
	l.mu.Lock()
	defer l.mu.Unlock()
	out := l.Lines
	l.Lines = nil
	return out
}

// Reconciliation describes one run of the replica of Services.ReconcileIngress.
type Reconciliation struct {
	FullSyncRequested bool                      // rparam.fullsync of the queue item
	Changed           *convtypes.ChangedObjects // what the watchers handed over (after NeedFullSync was overwritten, as Reconcile does)
	Err               error                     // what HAProxyUpdate returned
	ReloadsBefore     int
	ReloadsAfter      int
}

// Last describes what the last Apply / Reconcile did.
type Last struct {
	// Accepted[i] = number of watcher handlers that accepted change i of the batch
	// (0 = filtered by the predicates, the controller never saw it).
	Accepted []int
	// Skipped[i] = change i was a no-op (delete of a missing object).
	Skipped []bool
	// Notifications are the rparam.fullsync values the handlers put on the work queue.
	Notifications []bool
	// Woken = the real controller would have run at least one reconciliation.
	Woken bool
	// Runs are the reconciliations run (one per distinct queue item; one forced
	// partial run when nothing was notified).
	Runs []Reconciliation
}

// Pipeline is one offline controller.
type Pipeline struct {
	Opt      Options
	Ctx      context.Context
	Scheme   *runtime.Scheme
	Client   client.Client
	Store    k8stesting.ObjectTracker // backing store of the fake client (nil with Options.Client)
	Cfg      *config.Config
	Tracker  convtypes.Tracker
	Cache    services.VerifCache
	Watchers *reconciler.VerifWatchers
	Instance haproxy.Instance
	ConvOpt  *convtypes.ConverterOptions
	InstOpt  haproxy.InstanceOptions
	Dyn      *convtypes.DynamicConfig
	Reload   *ReloadStub
	Metrics  *types_helper.MetricsMock
	ConvLog  *Logger
	HALog    *Logger
	FakeCrt  convtypes.CrtFile
	FakeCA   convtypes.CrtFile
	Last     Last

	prefix  string
	dirFD   *os.File
	mu      sync.Mutex
	seq     int64
	objects map[string]client.Object // our own index of what is in the store: "Kind|ns|name"
	updates int
}

// NewScheme returns a scheme with the client-go and gateway API types.
func NewScheme() *runtime.Scheme {
	scheme := runtime.NewScheme()
	utilruntime.Must(clientgoscheme.AddToScheme(scheme))
	utilruntime.Must(gatewayv1alpha2.AddToScheme(scheme))
	utilruntime.Must(gatewayv1beta1.AddToScheme(scheme))
	utilruntime.Must(gatewayv1.AddToScheme(scheme))
	return scheme
}

// New creates a pipeline. It panics on setup errors (missing templates, unwritable dir):
// those are harness bugs, not observations.
func New(opt Options) *Pipeline {
	p, err := NewE(opt)
	if err != nil {
		panic(fmt.Sprintf("pipeline.New: %v", err))
	}
	return p
}

// NewE is New returning the error.
func NewE(opt Options) (*Pipeline, error) {
	if opt.Dir == "" {
		return nil, fmt.Errorf("Options.Dir is mandatory")
	}
	abs, err := filepath.Abs(opt.Dir)
	if err != nil {
		return nil, err
	}
	opt.Dir = abs
	if err := os.MkdirAll(abs, 0o755); err != nil {
		return nil, err
	}
	// The real code derives map file names with strings.Replace(basename, ".", suffix+".", 1)
	// on the FULL path (pkg/haproxy/types/maps.go rebuildMatchFiles), so a "." anywhere in
	// --local-filesystem-prefix breaks the names. Scratch space must be under /verif/.work,
	// hence the prefix handed to the controller is a dot-free alias of Dir:
	// /proc/self/fd/<n> of the opened directory (per pipeline, no chdir, no stray files).
	prefix := abs
	var dirFD *os.File
	if strings.Contains(abs, ".") {
		f, err := os.Open(abs)
		if err != nil {
			return nil, err
		}
		dirFD = f
		prefix = fmt.Sprintf("/proc/self/fd/%d", f.Fd())
	}
	if opt.IngressClass == "" {
		opt.IngressClass = "haproxy"
	}
	if opt.ControllerName == "" {
		opt.ControllerName = "haproxy-ingress.github.io/controller"
	}
	if opt.ConfigMapName == "" {
		opt.ConfigMapName = "ingress-controller/haproxy-ingress"
	}
	if opt.PodNamespace == "" {
		opt.PodNamespace = "ingress-controller"
	}
	if len(opt.AnnPrefix) == 0 {
		opt.AnnPrefix = []string{"haproxy-ingress.github.io", "ingress.kubernetes.io"}
	}
	if opt.SortEndpointsBy == "" {
		opt.SortEndpointsBy = "endpoint"
	}

	// directories, as config.CreateWithConfig creates them (LocalFSPrefix + default dirs)
	cfg := &config.Config{
		AcmeTrackTLSAnn:          opt.AcmeTrackTLSAnn,
		AllowCrossNamespace:      opt.AllowCrossNamespace,
		AnnPrefix:                opt.AnnPrefix,
		BackendShards:            opt.BackendShards,
		ConfigMapName:            opt.ConfigMapName,
		ControllerName:           opt.ControllerName,
		DefaultDirCerts:          prefix + "/var/lib/haproxy/crt",
		DefaultDirCACerts:        prefix + "/var/lib/haproxy/cacerts",
		DefaultDirCrl:            prefix + "/var/lib/haproxy/crl",
		DefaultDirDHParam:        prefix + "/var/lib/haproxy/dhparam",
		DefaultDirVarRun:         prefix + "/var/run/haproxy",
		DefaultDirMaps:           prefix + "/etc/haproxy/maps",
		DefaultService:           opt.DefaultService,
		DefaultSSLCertificate:    opt.DefaultSSLCertificate,
		DisableExternalName:      !opt.ExternalNameLookup,
		DisableKeywords:          opt.DisableKeywords,
		ElectionNamespace:        opt.PodNamespace,
		PodNamespace:             opt.PodNamespace,
		EnableEndpointSliceAPI:   opt.EnableEndpointSlices,
		HasGatewayA2:             opt.HasGatewayA2,
		HasGatewayB1:             opt.HasGatewayB1,
		HasGatewayV1:             opt.HasGatewayV1,
		HasTCPRouteA2:            opt.HasTCPRouteA2,
		IngressClass:             opt.IngressClass,
		IngressClassPrecedence:   opt.ClassPrecedence,
		LocalFSPrefix:            prefix,
		MasterSocket:             opt.MasterSocket,
		MaxOldConfigFiles:        opt.MaxOldConfigFiles,
		PublishService:           opt.PublishService,
		ReloadRetry:              time.Second,
		ReloadStrategy:           "reusesocket",
		SortEndpointsBy:          opt.SortEndpointsBy,
		TCPConfigMapName:         opt.TCPConfigMapName,
		TrackOldInstances:        opt.TrackOldInstances,
		WatchIngressWithoutClass: opt.WatchWithoutClass,
	}
	for _, d := range []string{cfg.DefaultDirCerts, cfg.DefaultDirCACerts, cfg.DefaultDirCrl, cfg.DefaultDirDHParam,
		cfg.DefaultDirVarRun, cfg.DefaultDirMaps,
		prefix + "/etc/haproxy/errorfiles", prefix + "/etc/haproxy/lua"} {
		if err := os.MkdirAll(d, 0o755); err != nil {
			return nil, err
		}
	}

	p := &Pipeline{Opt: opt, Cfg: cfg, objects: map[string]client.Object{}, prefix: prefix, dirFD: dirFD}
	p.Ctx = logr.NewContext(context.Background(), logr.Discard())
	p.Scheme = NewScheme()
	cfg.Scheme = p.Scheme
	cfg.RootContext = p.Ctx
	if opt.Client != nil {
		p.Client = opt.Client
	} else {
		codecs := serializer.NewCodecFactory(p.Scheme)
		p.Store = k8stesting.NewObjectTracker(p.Scheme, codecs.UniversalDecoder())
		p.Client = fake.NewClientBuilder().WithScheme(p.Scheme).WithObjectTracker(p.Store).Build()
	}

	// ---- what Services.setup does ----
	dynConfig := &convtypes.DynamicConfig{
		StaticCrossNamespaceSecrets: cfg.AllowCrossNamespace,
	}
	p.Dyn = dynConfig
	acmeSocket := cfg.DefaultDirVarRun + "/acme.sock"
	adminSocket := cfg.DefaultDirVarRun + "/admin.sock"
	if opt.AdminSocket != "" {
		adminSocket = opt.AdminSocket
	}
	masterSocket := cfg.MasterSocket
	p.Tracker = tracker.NewTracker()
	p.Metrics = types_helper.NewMetricsMock()
	cache, fakeCrt, fakeCA, err := services.VerifNewCache(p.Ctx, p.Client, cfg, p.Tracker, dynConfig)
	if err != nil {
		return nil, fmt.Errorf("error generating self signed fake certificate and certificate authority: %w", err)
	}
	p.Cache, p.FakeCrt, p.FakeCA = cache, fakeCrt, fakeCA
	p.Reload = &ReloadStub{}
	var reloadQueue utils.QueueFacade
	if !opt.ReloadInline {
		reloadQueue = p.Reload
	}
	p.ConvLog = &Logger{}
	p.HALog = &Logger{}
	p.InstOpt = haproxy.InstanceOptions{
		RootFSPrefix:      RepoRootFS,
		LocalFSPrefix:     cfg.LocalFSPrefix,
		HAProxyCfgDir:     cfg.LocalFSPrefix + "/etc/haproxy",
		HAProxyMapsDir:    cfg.DefaultDirMaps,
		IsMasterWorker:    cfg.MasterWorker,
		IsExternal:        cfg.MasterSocket != "",
		MasterSocket:      masterSocket,
		AdminSocket:       adminSocket,
		AcmeSocket:        acmeSocket,
		BackendShards:     cfg.BackendShards,
		Metrics:           p.Metrics,
		ReloadQueue:       reloadQueue,
		ReloadStrategy:    cfg.ReloadStrategy,
		MaxOldConfigFiles: cfg.MaxOldConfigFiles,
		SortEndpointsBy:   cfg.SortEndpointsBy,
		StopCh:            p.Ctx.Done(),
		TrackInstances:    cfg.TrackOldInstances,
		ValidateConfig:    cfg.ValidateConfig,
		AcmeSigner:        opt.AcmeSigner,
		AcmeQueue:         opt.AcmeQueue,
		LeaderElector:     opt.LeaderElector,
	}
	p.ConvOpt = &convtypes.ConverterOptions{
		Logger:           p.ConvLog,
		Cache:            cache,
		Tracker:          p.Tracker,
		DynamicConfig:    dynConfig,
		LocalFSPrefix:    cfg.LocalFSPrefix,
		IsExternal:       p.InstOpt.IsExternal,
		MasterSocket:     p.InstOpt.MasterSocket,
		AdminSocket:      p.InstOpt.AdminSocket,
		AcmeSocket:       p.InstOpt.AcmeSocket,
		AnnotationPrefix: cfg.AnnPrefix,
		DefaultBackend:   cfg.DefaultService,
		DefaultCrtSecret: cfg.DefaultSSLCertificate,
		FakeCrtFile:      fakeCrt,
		FakeCAFile:       fakeCA,
		DisableKeywords:  cfg.DisableKeywords,
		AcmeTrackTLSAnn:  cfg.AcmeTrackTLSAnn,
		TrackInstances:   cfg.TrackOldInstances,
		HasGatewayA2:     cfg.HasGatewayA2,
		HasGatewayB1:     cfg.HasGatewayB1,
		HasGatewayV1:     cfg.HasGatewayV1,
		HasTCPRouteA2:    cfg.HasTCPRouteA2,
		EnableEPSlices:   cfg.EnableEndpointSliceAPI,
	}
	p.Instance = haproxy.CreateInstance(p.HALog, p.InstOpt)
	if err := p.Instance.ParseTemplates(); err != nil {
		return nil, fmt.Errorf("error creating HAProxy instance: %w", err)
	}
	// ---- what IngressReconciler.SetupWithManager does ----
	p.Watchers = reconciler.VerifNewWatchers(p.Ctx, cfg, cache)
	return p, nil
}

// Dir is the real path of the scratch directory.
func (p *Pipeline) Dir() string { return p.Opt.Dir }

// Prefix is the --local-filesystem-prefix the controller was given: Dir itself, or a
// dot-free alias of it (/proc/self/fd/N) when Dir contains a "." (see NewE). File names
// inside the generated configuration start with Prefix; RealPath translates them.
func (p *Pipeline) Prefix() string { return p.prefix }

// RealPath maps a file name as written in the configuration to a path under Dir.
func (p *Pipeline) RealPath(name string) string {
	if p.prefix != p.Opt.Dir && strings.HasPrefix(name, p.prefix+"/") {
		return p.Opt.Dir + name[len(p.prefix):]
	}
	return name
}

// CfgDir is where haproxy.cfg, the backend shards, crt-lists etc. are written.
func (p *Pipeline) CfgDir() string { return p.Opt.Dir + "/etc/haproxy" }

// MapsDir is where the map files are written.
func (p *Pipeline) MapsDir() string { return p.Opt.Dir + "/etc/haproxy/maps" }

// Config is the instance's current haproxy model (white-box access).
func (p *Pipeline) Config() haproxy.Config { return p.Instance.Config() }

// Reloads is the number of reloads HAProxyUpdate asked for so far.
func (p *Pipeline) Reloads() int { return p.Reload.Count() }

// Updates is the number of reconciliations run so far.
func (p *Pipeline) Updates() int { return p.updates }

// Close removes the scratch directory.
func (p *Pipeline) Close() {
	if p.dirFD != nil {
		_ = p.dirFD.Close()
		p.dirFD = nil
	}
	_ = os.RemoveAll(p.Opt.Dir)
}

// ---------------------------------------------------------------- store

func (p *Pipeline) kindOf(obj client.Object) string {
	gvk, err := apiutil.GVKForObject(obj, p.Scheme)
	if err != nil {
		return reflect.TypeOf(obj).Elem().Name()
	}
	return gvk.Kind
}

// Key is the index key of an object: "Kind|namespace|name".
func (p *Pipeline) Key(obj client.Object) string {
	return p.kindOf(obj) + "|" + obj.GetNamespace() + "|" + obj.GetName()
}

// Get returns (a copy of) the stored object with the kind/namespace/name of obj, or nil.
func (p *Pipeline) Get(obj client.Object) client.Object {
	p.mu.Lock()
	defer p.mu.Unlock()
	if o, ok := p.objects[p.Key(obj)]; ok {
		return o.DeepCopyObject().(client.Object)
	}
	return nil
}

// Objects returns copies of everything in the store, ordered by kind, namespace, name.
func (p *Pipeline) Objects() []client.Object {
	p.mu.Lock()
	defer p.mu.Unlock()
	keys := make([]string, 0, len(p.objects))
	for k := range p.objects {
		keys = append(keys, k)
	}
	sort.Strings(keys)
	out := make([]client.Object, 0, len(keys))
	for _, k := range keys {
		out = append(out, p.objects[k].DeepCopyObject().(client.Object))
	}
	return out
}

func (p *Pipeline) storePut(obj client.Object, exists bool) error {
	if p.Store == nil {
		return nil
	}
	// The bare ObjectTracker has no admission-like validations
	// (so deletionTimestamp, generation, resourceVersion are what the caller says).
	if !exists {
		return p.Store.Add(obj.DeepCopyObject())
	}
	gvk, err := apiutil.GVKForObject(obj, p.Scheme)
	if err != nil {
		return err
	}
	gvr, _ := meta.UnsafeGuessKindToResource(gvk)
	return p.Store.Update(gvr, obj.DeepCopyObject(), obj.GetNamespace())
}

func (p *Pipeline) storeDel(obj client.Object) error {
	if p.Store == nil {
		return nil
	}
	gvk, err := apiutil.GVKForObject(obj, p.Scheme)
	if err != nil {
		return err
	}
	gvr, _ := meta.UnsafeGuessKindToResource(gvk)
	return p.Store.Delete(gvr, obj.GetNamespace(), obj.GetName())
}

func specOf(obj client.Object) (interface{}, bool) {
	v := reflect.ValueOf(obj)
	if v.Kind() != reflect.Ptr || v.Elem().Kind() != reflect.Struct {
		return nil, false
	}
	f := v.Elem().FieldByName("Spec")
	if !f.IsValid() {
		return nil, false
	}
	return f.Interface(), true
}

var baseTime = time.Date(2024, 1, 1, 0, 0, 0, 0, time.UTC)

func (p *Pipeline) autoMeta(old, cur client.Object) {
	if p.Opt.NoAutoMeta {
		return
	}
	p.seq++
	if old == nil {
		if ts := cur.GetCreationTimestamp(); ts.IsZero() {
			cur.SetCreationTimestamp(metav1.NewTime(baseTime.Add(time.Duration(p.seq) * time.Second)))
		}
		if cur.GetGeneration() == 0 {
			cur.SetGeneration(1)
		}
		if cur.GetUID() == "" {
			cur.SetUID(k8sUID(p.seq))
		}
	} else {
		if ts := cur.GetCreationTimestamp(); ts.IsZero() {
			cur.SetCreationTimestamp(old.GetCreationTimestamp())
		}
		if cur.GetUID() == "" {
			cur.SetUID(old.GetUID())
		}
		if cur.GetGeneration() == 0 || cur.GetGeneration() == old.GetGeneration() {
			gen := old.GetGeneration()
			so, ok1 := specOf(old)
			sc, ok2 := specOf(cur)
			if ok1 && ok2 && !reflect.DeepEqual(so, sc) {
				gen++ // the API server bumps metadata.generation when the spec changes
			}
			cur.SetGeneration(gen)
		}
	}
	cur.SetResourceVersion(strconv.FormatInt(1000+p.seq, 10))
}

// Deliver applies each change to the store and then fires the matching watcher
// event, one change after the other (so validity is evaluated against the store as it
// is at that moment, as with an informer). Normalisation, so that any subsequence of
// a valid change list is valid: Create of an existing object is delivered as Update,
// Update of a missing object as Create, Delete of a missing object is skipped.
// It does not reconcile.
func (p *Pipeline) Deliver(batch []Change) {
	p.mu.Lock()
	defer p.mu.Unlock()
	for _, ch := range batch {
		cur := ch.Obj.DeepCopyObject().(client.Object)
		key := p.Key(cur)
		old, exists := p.objects[key]
		accepted, skipped := 0, false
		switch ch.Op {
		case Create, Update:
			if exists {
				p.autoMeta(old, cur)
				if err := p.storePut(cur, true); err != nil {
					panic(fmt.Sprintf("pipeline: store update %s: %v", key, err))
				}
				cur = p.readBack(cur)
				p.objects[key] = cur
				accepted = p.Watchers.FireUpdate(old.DeepCopyObject().(client.Object), cur.DeepCopyObject().(client.Object))
			} else {
				p.autoMeta(nil, cur)
				if err := p.storePut(cur, false); err != nil {
					panic(fmt.Sprintf("pipeline: store create %s: %v", key, err))
				}
				cur = p.readBack(cur)
				p.objects[key] = cur
				accepted = p.Watchers.FireCreate(cur.DeepCopyObject().(client.Object))
			}
		case Delete:
			if !exists {
				skipped = true
				break
			}
			if err := p.storeDel(old); err != nil {
				panic(fmt.Sprintf("pipeline: store delete %s: %v", key, err))
			}
			delete(p.objects, key)
			accepted = p.Watchers.FireDelete(old.DeepCopyObject().(client.Object))
		}
		p.Last.Accepted = append(p.Last.Accepted, accepted)
		p.Last.Skipped = append(p.Last.Skipped, skipped)
	}
}

// readBack returns the object the way the client hands it out (what an informer would
// deliver in an event): e.g. timestamps in the decoded representation, so that values
// of event objects and of objects read from the cache compare equal with ==.
func (p *Pipeline) readBack(obj client.Object) client.Object {
	if p.Store == nil {
		return obj
	}
	out := obj.DeepCopyObject().(client.Object)
	if err := p.Client.Get(p.Ctx, client.ObjectKeyFromObject(obj), out); err != nil {
		return obj
	}
	return out
}

// Resync fires a Generic event for obj (what an informer resync does).
func (p *Pipeline) Resync(obj client.Object) int {
	return p.Watchers.FireGeneric(obj)
}

// Apply = Deliver(batch) + Reconcile().
func (p *Pipeline) Apply(batch []Change) error {
	p.Last = Last{}
	p.Deliver(batch)
	return p.reconcileQueued()
}

// Reconcile runs the reconciliation(s) for everything delivered since the last one.
func (p *Pipeline) Reconcile() error {
	acc, sk := p.Last.Accepted, p.Last.Skipped
	p.Last = Last{Accepted: acc, Skipped: sk}
	return p.reconcileQueued()
}

// reconcileQueued does what the controller's work queue + IngressReconciler.Reconcile
// do: the handlers added rparam{fullsync} items; the queue de-duplicates equal items;
// each distinct item triggers one Reconcile which swaps the changed objects and sets
// changed.NeedFullSync = item.fullsync. When nothing was queued the real controller
// would not wake up; one partial reconciliation is run anyway (Last.Woken = false).
func (p *Pipeline) reconcileQueued() error {
	notes := p.Watchers.Notifications()
	p.Last.Notifications = notes
	p.Last.Woken = len(notes) > 0
	var items []bool
	seen := map[bool]bool{}
	for _, n := range notes {
		if !seen[n] {
			seen[n] = true
			items = append(items, n)
		}
	}
	if len(items) == 0 {
		items = []bool{false}
	}
	var first error
	for _, it := range items {
		if err := p.ReconcileOnce(it); err != nil && first == nil {
			first = err
		}
	}
	return first
}

// FullSync runs one reconciliation with rparam{fullsync: true} (what leaderChanged
// enqueues), taking along whatever was delivered and not yet reconciled.
func (p *Pipeline) FullSync() error {
	_ = p.Watchers.Notifications()
	return p.ReconcileOnce(true)
}

// Retry runs one more reconciliation with the same rparam as the last one, which is
// what IngressReconciler.Reconcile's `RequeueAfter: ReloadRetry` leads to.
func (p *Pipeline) Retry() error {
	full := false
	if n := len(p.Last.Runs); n > 0 {
		full = p.Last.Runs[n-1].FullSyncRequested
	}
	return p.ReconcileOnce(full)
}

// ReconcileOnce is IngressReconciler.Reconcile(req) + Services.ReconcileIngress:
//
//	changed := watchers.getChangedObjects(); changed.NeedFullSync = req.fullsync
//	converters.NewConverter(timer, instance.Config(), changed, converterOpt).Sync()
//	if leader { instance.AcmeUpdate() }
//	err := instance.HAProxyUpdate(timer)
func (p *Pipeline) ReconcileOnce(fullsync bool) error {
	changed := p.Watchers.Swap()
	changed.NeedFullSync = fullsync
	run := Reconciliation{FullSyncRequested: fullsync, Changed: changed, ReloadsBefore: p.Reload.Count()}
	p.updates++
	timer := utils.NewTimer(p.Metrics.ControllerProcTime)
	converters.NewConverter(timer, p.Instance.Config(), changed, p.ConvOpt).Sync()
	if p.Opt.Leader {
		p.Instance.AcmeUpdate()
	}
	err := p.Instance.HAProxyUpdate(timer)
	run.Err = err
	run.ReloadsAfter = p.Reload.Count()
	p.Last.Runs = append(p.Last.Runs, run)
	return err
}

// ---------------------------------------------------------------- helpers

func k8sUID(n int64) k8stypes.UID {
	return k8stypes.UID(fmt.Sprintf("00000000-0000-4000-8000-%012d", n))
}

// Seed is Apply with one Create per object.
func (p *Pipeline) Seed(objs ...client.Object) error {
	batch := make([]Change, len(objs))
	for i, o := range objs {
		batch[i] = Change{Op: Create, Obj: o}
	}
	return p.Apply(batch)
}

// Fresh creates a new pipeline with the same options (Dir replaced) and feeds it the
// current cluster content of p in one batch of creates (a from-scratch controller).
func (p *Pipeline) Fresh(dir string) (*Pipeline, error) {
	opt := p.Opt
	opt.Dir = dir
	opt.Client = nil
	q, err := NewE(opt)
	if err != nil {
		return nil, err
	}
	// keep metadata as it is in p: creation stamps decide ingress order
	q.Opt.NoAutoMeta = true
	err = q.Seed(p.Objects()...)
	q.Opt.NoAutoMeta = opt.NoAutoMeta
	return q, err
}

// GlobalConfigMap builds the global ConfigMap object for this pipeline's --configmap.
func (p *Pipeline) GlobalConfigMap(data map[string]string) *api.ConfigMap {
	ns, name, _ := strings.Cut(p.Opt.ConfigMapName, "/")
	cm := &api.ConfigMap{}
	cm.Namespace, cm.Name = ns, name
	cm.Data = data
	return cm
}

// IsValidIngress asks the real cache facade.
func (p *Pipeline) IsValidIngress(ing *networking.Ingress) bool { return p.Cache.IsValidIngress(ing) }
