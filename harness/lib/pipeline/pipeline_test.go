package pipeline_test

import (
	"fmt"
	"os"
	"strings"
	"sync"
	"testing"

	api "k8s.io/api/core/v1"
	networking "k8s.io/api/networking/v1"
	"k8s.io/apimachinery/pkg/util/intstr"

	"verif/harness/lib/pipeline"
)

func scratch(t *testing.T, name string) string {
	d := fmt.Sprintf("/verif/.work/pipeline-test/%d-%s", os.Getpid(), name)
	os.RemoveAll(d)
	t.Cleanup(func() { os.RemoveAll(d) })
	return d
}

func svc(ns, name string) (*api.Service, *api.Endpoints) {
	s := &api.Service{}
	s.Namespace, s.Name = ns, name
	s.Spec.Ports = []api.ServicePort{{Name: "http", Port: 80, TargetPort: intstr.FromInt(8080)}}
	e := &api.Endpoints{}
	e.Namespace, e.Name = ns, name
	e.Subsets = []api.EndpointSubset{{Addresses: []api.EndpointAddress{{IP: "10.0.0.1"}},
		Ports: []api.EndpointPort{{Name: "http", Port: 8080, Protocol: api.ProtocolTCP}}}}
	return s, e
}

func ing(ns, name, host, svc string) *networking.Ingress {
	i := &networking.Ingress{}
	i.Namespace, i.Name = ns, name
	pt := networking.PathTypePrefix
	i.Spec.Rules = []networking.IngressRule{{Host: host, IngressRuleValue: networking.IngressRuleValue{HTTP: &networking.HTTPIngressRuleValue{
		Paths: []networking.HTTPIngressPath{{Path: "/", PathType: &pt, Backend: networking.IngressBackend{Service: &networking.IngressServiceBackend{Name: svc, Port: networking.ServiceBackendPort{Number: 80}}}}}}}}}
	return i
}

func cfg(t *testing.T, p *pipeline.Pipeline) string {
	b, err := os.ReadFile(p.CfgDir() + "/haproxy.cfg")
	if err != nil {
		t.Fatal(err)
	}
	return string(b)
}

func TestBasicFlow(t *testing.T) {
	p := pipeline.New(pipeline.Options{Dir: scratch(t, "basic"), WatchWithoutClass: true})
	defer p.Close()
	s, e := svc("ns1", "s1")
	if err := p.Seed(s, e, ing("ns1", "i1", "a.example", "s1")); err != nil {
		t.Fatal(err)
	}
	if p.Reloads() != 1 || !p.Last.Woken || len(p.Last.Runs) != 1 || p.Last.Runs[0].FullSyncRequested {
		t.Errorf("first apply: reloads=%d last=%+v", p.Reloads(), p.Last)
	}
	if !strings.Contains(cfg(t, p), "backend ns1_s1_8080") || !strings.Contains(cfg(t, p), "10.0.0.1:8080") {
		t.Errorf("backend not rendered")
	}
	// an update that changes nothing the predicates look at is filtered
	i1 := p.Get(ing("ns1", "i1", "", "")).(*networking.Ingress)
	i1.Labels = map[string]string{"x": "y"}
	if err := p.Apply([]pipeline.Change{{Op: pipeline.Update, Obj: i1}}); err != nil {
		t.Fatal(err)
	}
	if p.Last.Accepted[0] != 0 || p.Last.Woken {
		t.Errorf("label-only update should be filtered: %+v", p.Last)
	}
	// a spec change bumps the generation and is accepted; a second ingress is a partial sync
	if err := p.Apply([]pipeline.Change{{Op: pipeline.Create, Obj: ing("ns1", "i2", "b.example", "s1")}}); err != nil {
		t.Fatal(err)
	}
	if p.Last.Accepted[0] != 1 || len(p.Last.Runs[0].Changed.IngressesAdd) != 1 || p.Reloads() != 2 {
		t.Errorf("second ingress: %+v reloads=%d", p.Last, p.Reloads())
	}
	// the global ConfigMap flows through the watchers
	if err := p.Apply([]pipeline.Change{{Op: pipeline.Create, Obj: p.GlobalConfigMap(map[string]string{"max-connections": "1234"})}}); err != nil {
		t.Fatal(err)
	}
	if p.Last.Runs[0].Changed.GlobalConfigMapDataNew["max-connections"] != "1234" || !strings.Contains(cfg(t, p), "maxconn 1234") {
		t.Errorf("configmap not applied")
	}
	if err := p.Apply(nil); err != nil {
		t.Fatal(err)
	}
	if got := p.Last.Runs[0].Changed; got.GlobalConfigMapDataCur["max-connections"] != "1234" || got.GlobalConfigMapDataNew != nil {
		t.Errorf("configmap cur/new rotation wrong: %+v", got)
	}
	r := p.Reloads()
	if err := p.Apply(nil); err != nil || p.Reloads() != r {
		t.Errorf("empty batch reloaded: %v %d -> %d", err, r, p.Reloads())
	}
	// delete
	if err := p.Apply([]pipeline.Change{{Op: pipeline.Delete, Obj: ing("ns1", "i2", "", "")}, {Op: pipeline.Delete, Obj: ing("ns1", "nosuch", "", "")}}); err != nil {
		t.Fatal(err)
	}
	if strings.Contains(cfg(t, p), "b.example") || !p.Last.Skipped[1] || len(p.Objects()) != 4 {
		t.Errorf("delete failed: skipped=%v objects=%d", p.Last.Skipped, len(p.Objects()))
	}
	if err := p.FullSync(); err != nil || !p.Last.Runs[len(p.Last.Runs)-1].FullSyncRequested {
		t.Errorf("full sync: %v", err)
	}
}

func TestClassFiltering(t *testing.T) {
	p := pipeline.New(pipeline.Options{Dir: scratch(t, "class")})
	defer p.Close()
	s, e := svc("ns1", "s1")
	i := ing("ns1", "i1", "a.example", "s1")
	if err := p.Seed(s, e, i); err != nil {
		t.Fatal(err)
	}
	if p.Last.Accepted[2] != 0 || strings.Contains(cfg(t, p), "ns1_s1_8080") {
		t.Errorf("classless ingress accepted without --watch-ingress-without-class")
	}
	i.Annotations = map[string]string{"kubernetes.io/ingress.class": "haproxy"}
	if err := p.Apply([]pipeline.Change{{Op: pipeline.Update, Obj: i}}); err != nil {
		t.Fatal(err)
	}
	if len(p.Last.Runs[0].Changed.IngressesAdd) != 1 || !strings.Contains(cfg(t, p), "ns1_s1_8080") {
		t.Errorf("becoming valid must be an add: %+v", p.Last.Runs[0].Changed)
	}
}

func TestManyConcurrent(t *testing.T) {
	var wg sync.WaitGroup
	for k := 0; k < 12; k++ {
		wg.Add(1)
		go func(k int) {
			defer wg.Done()
			p := pipeline.New(pipeline.Options{Dir: scratch(t, fmt.Sprintf("c%d", k)), WatchWithoutClass: true, BackendShards: k % 3})
			defer p.Close()
			s, e := svc("ns1", fmt.Sprintf("s%d", k))
			if err := p.Seed(s, e, ing("ns1", "i1", "a.example", s.Name)); err != nil {
				t.Error(err)
				return
			}
			all := ""
			files, _ := os.ReadDir(p.CfgDir())
			for _, f := range files {
				if strings.HasSuffix(f.Name(), ".cfg") {
					b, _ := os.ReadFile(p.CfgDir() + "/" + f.Name())
					all += string(b)
				}
			}
			if !strings.Contains(all, fmt.Sprintf("backend ns1_s%d_8080", k)) {
				t.Errorf("pipeline %d: backend missing", k)
			}
		}(k)
	}
	wg.Wait()
}
