package world

// Gateway API objects (v1) for histories: one GatewayClass of this controller (sometimes a
// foreign one), Gateways in ns1 with an HTTP listener and sometimes an HTTPS listener whose
// certificateRefs name the SAME secrets the ingresses use, HTTPRoutes in two namespaces
// whose backendRefs name the SAME services the ingresses use — so that ingress, service,
// endpoints and secret events reach gateway hosts through shared objects.

import (
	"fmt"
	"math/rand"

	metav1 "k8s.io/apimachinery/pkg/apis/meta/v1"
	"sigs.k8s.io/controller-runtime/pkg/client"
	gatewayv1 "sigs.k8s.io/gateway-api/apis/v1"

	"verif/harness/lib/pipeline"
)

// GatewayClassName is the class of this controller in generated clusters.
const GatewayClassName = "haproxy-gw"

// GatewayHosts are the hostnames of generated routes (disjoint from and overlapping with Hosts).
var GatewayHosts = []string{"g1.gw.example", "g2.gw.example", "a.example", "b.example"}

// GatewayNames / RouteNames are the pools of gateway object names.
var (
	GatewayNames = []string{"gw1", "gw2"}
	RouteNames   = []string{"route1", "route2", "route3", "route4"}
)

// GenGatewayClass builds the GatewayClass (ours unless foreign).
func GenGatewayClass(foreign bool) *gatewayv1.GatewayClass {
	ctl := ControllerOurs
	if foreign {
		ctl = ControllerForeign
	}
	return &gatewayv1.GatewayClass{ObjectMeta: metav1.ObjectMeta{Name: GatewayClassName},
		Spec: gatewayv1.GatewayClassSpec{ControllerName: gatewayv1.GatewayController(ctl)}}
}

// GenGateway builds gateway number gi of ns1.
func GenGateway(rng *rand.Rand, gi int) *gatewayv1.Gateway {
	from := gatewayv1.NamespacesFromAll
	gw := &gatewayv1.Gateway{ObjectMeta: metav1.ObjectMeta{Namespace: "ns1", Name: GatewayNames[gi]},
		Spec: gatewayv1.GatewaySpec{GatewayClassName: GatewayClassName}}
	gw.CreationTimestamp = Stamp(5 + gi)
	gw.Spec.Listeners = append(gw.Spec.Listeners, gatewayv1.Listener{Name: "http", Port: 80, Protocol: gatewayv1.HTTPProtocolType,
		AllowedRoutes: &gatewayv1.AllowedRoutes{Namespaces: &gatewayv1.RouteNamespaces{From: &from}}})
	if rng.Intn(2) == 0 {
		mode := gatewayv1.TLSModeTerminate
		li := gatewayv1.Listener{Name: "https", Port: 443, Protocol: gatewayv1.HTTPSProtocolType,
			AllowedRoutes: &gatewayv1.AllowedRoutes{Namespaces: &gatewayv1.RouteNamespaces{From: &from}},
			TLS: &gatewayv1.GatewayTLSConfig{Mode: &mode, CertificateRefs: []gatewayv1.SecretObjectReference{
				{Name: gatewayv1.ObjectName(SecretNames[rng.Intn(2)])}}}}
		gw.Spec.Listeners = append(gw.Spec.Listeners, li)
	}
	return gw
}

// GenHTTPRoute builds route number ri.
func GenHTTPRoute(rng *rand.Rand, ri int) *gatewayv1.HTTPRoute {
	ns := Namespaces[rng.Intn(2)]
	rt := &gatewayv1.HTTPRoute{ObjectMeta: metav1.ObjectMeta{Namespace: ns, Name: RouteNames[ri]}}
	rt.CreationTimestamp = Stamp([]int{10, 15, 15, 20}[rng.Intn(4)])
	gwns := gatewayv1.Namespace("ns1")
	for p, m := 0, 1+rng.Intn(2); p < m; p++ {
		rt.Spec.ParentRefs = append(rt.Spec.ParentRefs, gatewayv1.ParentReference{Namespace: &gwns,
			Name: gatewayv1.ObjectName(GatewayNames[(p+ri)%len(GatewayNames)])})
	}
	for h, m := 0, 1+rng.Intn(2); h < m; h++ {
		rt.Spec.Hostnames = append(rt.Spec.Hostnames, gatewayv1.Hostname(pick(rng, GatewayHosts)))
	}
	paths := []string{"/", "/app", "/api"}
	for k, m := 0, 1+rng.Intn(2); k < m; k++ {
		rule := gatewayv1.HTTPRouteRule{}
		t := []gatewayv1.PathMatchType{gatewayv1.PathMatchPathPrefix, gatewayv1.PathMatchExact}[rng.Intn(2)]
		v := paths[rng.Intn(len(paths))]
		rule.Matches = append(rule.Matches, gatewayv1.HTTPRouteMatch{Path: &gatewayv1.HTTPPathMatch{Type: &t, Value: &v}})
		for q, mm := 0, 1+rng.Intn(2); q < mm; q++ {
			port := gatewayv1.PortNumber(80)
			w := int32(1 + rng.Intn(3))
			rule.BackendRefs = append(rule.BackendRefs, gatewayv1.HTTPBackendRef{BackendRef: gatewayv1.BackendRef{
				BackendObjectReference: gatewayv1.BackendObjectReference{Name: gatewayv1.ObjectName(ServiceNames[rng.Intn(2)]), Port: &port},
				Weight:                 &w}})
		}
		rt.Spec.Rules = append(rt.Spec.Rules, rule)
	}
	return rt
}

// GenGatewayObjects generates the gateway part of a cluster.
func GenGatewayObjects(rng *rand.Rand) []client.Object {
	var objs []client.Object
	objs = append(objs, GenGatewayClass(rng.Intn(8) == 0))
	for g, n := 0, 1+rng.Intn(2); g < n; g++ {
		objs = append(objs, GenGateway(rng, g))
	}
	perm := rng.Perm(len(RouteNames))
	for r, n := 0, 1+rng.Intn(3); r < n; r++ {
		objs = append(objs, GenHTTPRoute(rng, perm[r]))
	}
	return objs
}

// HasGatewayObjects tells whether a history uses Gateway API kinds.
func HasGatewayObjects(h [][]pipeline.Change) bool {
	for _, b := range h {
		for _, c := range b {
			switch c.Obj.(type) {
			case *gatewayv1.GatewayClass, *gatewayv1.Gateway, *gatewayv1.HTTPRoute:
				return true
			}
		}
	}
	return false
}

// genGatewayChange generates one change of a gateway object against the state (nil = none).
func genGatewayChange(rng *rand.Rand, s *State) *pipeline.Change {
	put := func(o client.Object) *pipeline.Change {
		if old, ok := s.objs[Key(o)]; ok {
			o.SetCreationTimestamp(old.GetCreationTimestamp())
			if rng.Intn(3) == 0 {
				return &pipeline.Change{Op: pipeline.Delete, Obj: o}
			}
			return &pipeline.Change{Op: pipeline.Update, Obj: o}
		}
		return &pipeline.Change{Op: pipeline.Create, Obj: o}
	}
	switch k := rng.Intn(10); {
	case k < 6:
		rt := GenHTTPRoute(rng, rng.Intn(len(RouteNames)))
		// keep the namespace of an existing route of that name if there is one
		for _, ns := range Namespaces {
			if _, ok := s.objs[fmt.Sprintf("HTTPRoute|%s|%s", ns, rt.Name)]; ok {
				rt.Namespace = ns
			}
		}
		return put(rt)
	case k < 9:
		return put(GenGateway(rng, rng.Intn(len(GatewayNames))))
	default:
		return put(GenGatewayClass(rng.Intn(3) == 0))
	}
}
