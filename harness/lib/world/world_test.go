package world_test

import (
	"encoding/json"
	"math/rand"
	"reflect"
	"testing"

	"verif/harness/lib/pipeline"
	"verif/harness/lib/world"
)

func TestDeterministicAndRoundTrip(t *testing.T) {
	cfg := world.Full()
	cfg.TLS = false // certificates are generated from crypto/rand
	h1 := world.EncodeHistory(world.GenHistory(rand.New(rand.NewSource(3)), cfg, 5, 4))
	h2 := world.EncodeHistory(world.GenHistory(rand.New(rand.NewSource(3)), cfg, 5, 4))
	b1, _ := json.Marshal(h1)
	b2, _ := json.Marshal(h2)
	if string(b1) != string(b2) {
		t.Fatal("same seed, different history")
	}
	var back [][]world.ChangeJSON
	if err := json.Unmarshal(b1, &back); err != nil {
		t.Fatal(err)
	}
	b3, _ := json.Marshal(world.EncodeHistory(world.DecodeHistory(back)))
	if string(b3) != string(b1) {
		t.Fatal("JSON round trip changed the history")
	}
}

func TestShrink(t *testing.T) {
	h := world.GenHistory(rand.New(rand.NewSource(5)), world.Full(), 6, 4)
	// "fails" iff the history still creates ingress X and later touches service Y
	var ingKey, svcKey string
	for _, c := range h[0] {
		if world.KindOf(c.Obj) == "Ingress" && ingKey == "" {
			ingKey = world.Key(c.Obj)
		}
		if world.KindOf(c.Obj) == "Service" {
			svcKey = world.Key(c.Obj)
		}
	}
	fails := func(x [][]pipeline.Change) bool {
		a, b := false, false
		for _, batch := range x {
			for _, c := range batch {
				if world.Key(c.Obj) == ingKey {
					a = true
				}
				if world.Key(c.Obj) == svcKey && a {
					b = true
				}
			}
		}
		return a && b
	}
	if !fails(h) {
		t.Skip("generator did not produce the pattern")
	}
	s := world.Shrink(h, fails, 500)
	n := 0
	for _, b := range s {
		n += len(b)
	}
	if !fails(s) || n != 2 {
		t.Errorf("shrunk to %d changes, fails=%v", n, fails(s))
	}
	_ = reflect.DeepEqual
}
