// Package world holds the seeded generators shared by the cluster-level harnesses:
// small pools (3 namespaces, 5 hostnames incl. one wildcard and the empty host, a
// prefix-closed path alphabet with case / trailing-slash variants, 4 services x 2 ports
// (named + numeric, one service with a targetPort/port number clash), endpoints
// ready / not-ready, 3 secrets valid / malformed / absent with real ECDSA self-signed
// PEM generated offline, 2 IngressClasses ours / foreign, <= 7 ingresses with rules,
// tls, default backend and annotations from a whitelist), so that sharing of hosts,
// backends, secrets and classes is the common case; generators of batches of changes
// (add / update / delete over all watched kinds, several events for one object in one
// batch); a JSON form of objects and changes for replays; and a delta-debugging
// shrinker over change sequences.
//
// Everything random comes from the *rand.Rand handed in.
package world

import (
	"crypto/ecdsa"
	"crypto/elliptic"
	crand "crypto/rand"
	"crypto/x509"
	"crypto/x509/pkix"
	"encoding/json"
	"encoding/pem"
	"fmt"
	"math/big"
	"math/rand"
	"sort"
	"sync"
	"time"

	api "k8s.io/api/core/v1"
	networking "k8s.io/api/networking/v1"
	metav1 "k8s.io/apimachinery/pkg/apis/meta/v1"
	"k8s.io/apimachinery/pkg/util/intstr"
	"sigs.k8s.io/controller-runtime/pkg/client"
	gatewayv1 "sigs.k8s.io/gateway-api/apis/v1"

	"verif/harness/lib/pipeline"
)

// Pools.
var (
	Namespaces = []string{"ns1", "ns2", "ns3"}
	// Hosts: the empty host is the default host ("<default>").
	Hosts = []string{"a.example", "b.example", "sub.a.example", "*.wild.example", ""}
	// Paths: prefix-closed, with case and trailing-slash variants.
	Paths = []string{"/", "/app", "/app/", "/App", "/app/sub", "/app/sub/", "/app/sub/deep", "/api", "/apix"}
	// ServiceNames exist (possibly) in every namespace.
	ServiceNames = []string{"svc1", "svc2", "svc3", "svc4"}
	SecretNames  = []string{"tls-valid", "tls-bad", "tls-absent"}
	// ClassOurs / ClassForeign are the two IngressClass names.
	ClassOurs    = "haproxy"
	ClassForeign = "other"
	IngressNames = []string{"ing1", "ing2", "ing3", "ing4", "ing5", "ing6", "ing7"}
	// ControllerOurs is what the pipeline's default ControllerName is.
	ControllerOurs    = "haproxy-ingress.github.io/controller"
	ControllerForeign = "example.com/other-controller"
	// AnnPrefix used for generated annotations.
	AnnPrefix = "haproxy-ingress.github.io/"
)

// AnnWhitelist are the annotations (key -> candidate values) used when Config.Annotations.
var AnnWhitelist = [][]string{
	{"ssl-redirect", "false", "true"},
	{"path-type", "begin", "prefix", "exact"},
	{"balance-algorithm", "leastconn", "roundrobin"},
	{"app-root", "/app"},
	{"hsts", "false"},
	{"cors-enable", "true"},
	{"initial-weight", "10", "100"},
	{"backend-server-naming", "ip", "sequence"},
	{"server-alias", "alias.example"},
	{"config-backend", "http-request deny if { path /deny }"},
	{"maxconn-server", "50"},
	{"timeout-server", "30s"},
}

// Config says which features the generators may use.
type Config struct {
	MaxIngresses   int  // default 7
	Annotations    bool // annotations from AnnWhitelist on ingresses / services
	Classes        bool // IngressClass objects, class annotations, spec.ingressClassName (else: no class at all)
	TLS            bool // tls blocks and secrets
	DefaultBackend bool // spec.defaultBackend
	NotReady       bool // not-ready addresses in endpoints
	Pods           bool // pods (some terminating) selected by the services
	ConfigMap      bool // the global ConfigMap (name given by GlobalConfigMap)
	PortClash      bool // svc4 declares ports so that a number is both a port and another port's targetPort
	EqualStamps    bool // some ingresses share the creation timestamp
	PathTypes      bool // Exact / Prefix / ImplementationSpecific / nil (else always Prefix... see genPath)
	GlobalKeys     [][]string
	// TCP turns some ingresses into TCP services (tcp-service-port and the port-level
	// tcp-service-* keys; several ingresses may share a port). Not in Full().
	TCP bool
	// Gateway adds Gateway API objects (GatewayClass, Gateway, HTTPRoute v1) sharing services
	// and secrets with the ingresses; the pipeline needs Options.HasGatewayV1. Not in Full().
	Gateway bool
	// HostPool / PathPool / PortClashAll override the pools (nil = the package pools).
	HostPool []string
	PathPool []string
	// GlobalConfigMap is "ns/name" of the global ConfigMap (pipeline default when empty).
	GlobalConfigMap string
}

// Full enables everything.
func Full() Config {
	return Config{MaxIngresses: 7, Annotations: true, Classes: true, TLS: true, DefaultBackend: true,
		NotReady: true, Pods: true, ConfigMap: true, PortClash: true, EqualStamps: true, PathTypes: true}
}

var baseTime = time.Date(2024, 1, 1, 0, 0, 0, 0, time.UTC)

// Stamp returns the creation timestamp number n (seconds after a fixed base).
func Stamp(n int) metav1.Time { return metav1.NewTime(baseTime.Add(time.Duration(n) * time.Second)) }

// ---------------------------------------------------------------- certificates

var (
	certMu    sync.Mutex
	certCache = map[string][2][]byte{}
)

// Cert returns a real self-signed ECDSA certificate and key (PEM) for cn/dns,
// generated offline and cached per process.
func Cert(cn string, dns ...string) (crt, key []byte) {
	certMu.Lock()
	defer certMu.Unlock()
	k := cn + fmt.Sprint(dns)
	if c, ok := certCache[k]; ok {
		return c[0], c[1]
	}
	priv, err := ecdsa.GenerateKey(elliptic.P256(), crand.Reader)
	if err != nil {
		panic(err)
	}
	tmpl := x509.Certificate{
		SerialNumber:          big.NewInt(int64(len(certCache) + 2)),
		Subject:               pkix.Name{CommonName: cn, Organization: []string{"verif"}},
		NotBefore:             baseTime,
		NotAfter:              baseTime.Add(20 * 365 * 24 * time.Hour),
		KeyUsage:              x509.KeyUsageKeyEncipherment | x509.KeyUsageDigitalSignature,
		ExtKeyUsage:           []x509.ExtKeyUsage{x509.ExtKeyUsageServerAuth},
		BasicConstraintsValid: true,
		DNSNames:              dns,
	}
	der, err := x509.CreateCertificate(crand.Reader, &tmpl, &tmpl, &priv.PublicKey, priv)
	if err != nil {
		panic(err)
	}
	dk, err := x509.MarshalECPrivateKey(priv)
	if err != nil {
		panic(err)
	}
	crt = pem.EncodeToMemory(&pem.Block{Type: "CERTIFICATE", Bytes: der})
	key = pem.EncodeToMemory(&pem.Block{Type: "EC PRIVATE KEY", Bytes: dk})
	certCache[k] = [2][]byte{crt, key}
	return crt, key
}

// TLSSecret builds a kubernetes.io/tls secret. variant: 0 valid (certificate `cn`),
// 1 malformed (garbage in tls.crt), 2 missing keys.
func TLSSecret(ns, name, cn string, variant int) *api.Secret {
	s := &api.Secret{}
	s.Namespace, s.Name = ns, name
	s.Type = api.SecretTypeTLS
	switch variant {
	case 0:
		crt, key := Cert(cn, cn)
		s.Data = map[string][]byte{api.TLSCertKey: crt, api.TLSPrivateKeyKey: key}
	case 1:
		s.Data = map[string][]byte{api.TLSCertKey: []byte("-----BEGIN CERTIFICATE-----\nnot base64 at all\n-----END CERTIFICATE-----\n"), api.TLSPrivateKeyKey: []byte("garbage")}
	default:
		s.Data = map[string][]byte{"other": []byte("x")}
	}
	return s
}

// ---------------------------------------------------------------- object builders

// SvcPort describes one service port.
type SvcPort struct {
	Name       string
	Port       int
	TargetPort intstr.IntOrString
}

// Service builds a ClusterIP service selecting app=<name>.
func Service(ns, name string, ports ...SvcPort) *api.Service {
	s := &api.Service{}
	s.Namespace, s.Name = ns, name
	s.Spec.Type = api.ServiceTypeClusterIP
	s.Spec.ClusterIP = "10.96.0.1"
	s.Spec.Selector = map[string]string{"app": name}
	for _, p := range ports {
		s.Spec.Ports = append(s.Spec.Ports, api.ServicePort{Name: p.Name, Port: int32(p.Port), TargetPort: p.TargetPort, Protocol: api.ProtocolTCP})
	}
	return s
}

// EpPort is one endpoints subset: a named port number with ready / not-ready IPs.
type EpPort struct {
	Name     string
	Port     int
	Ready    []string
	NotReady []string
}

// Endpoints builds an Endpoints object, one subset per EpPort.
func Endpoints(ns, name string, ports ...EpPort) *api.Endpoints {
	e := &api.Endpoints{}
	e.Namespace, e.Name = ns, name
	for _, p := range ports {
		ss := api.EndpointSubset{Ports: []api.EndpointPort{{Name: p.Name, Port: int32(p.Port), Protocol: api.ProtocolTCP}}}
		for _, ip := range p.Ready {
			ss.Addresses = append(ss.Addresses, api.EndpointAddress{IP: ip})
		}
		for _, ip := range p.NotReady {
			ss.NotReadyAddresses = append(ss.NotReadyAddresses, api.EndpointAddress{IP: ip})
		}
		e.Subsets = append(e.Subsets, ss)
	}
	return e
}

// IngPath is one path of a rule.
type IngPath struct {
	Path     string
	Type     string // "", "Exact", "Prefix", "ImplementationSpecific"
	Service  string
	PortName string
	PortNum  int
	// Resource makes the backend a `resource` (TypedLocalObjectReference) instead of a
	// service: valid networking.k8s.io/v1, skipped by the controller.
	Resource bool
}

// IngRule is one rule.
type IngRule struct {
	Host  string
	Paths []IngPath
}

// Backend builds an IngressBackend.
func Backend(svc, portName string, portNum int) networking.IngressBackend {
	return networking.IngressBackend{Service: &networking.IngressServiceBackend{Name: svc,
		Port: networking.ServiceBackendPort{Name: portName, Number: int32(portNum)}}}
}

// Ingress builds an ingress (no class, no tls; set those on the result).
func Ingress(ns, name string, stamp int, rules ...IngRule) *networking.Ingress {
	ing := &networking.Ingress{}
	ing.Namespace, ing.Name = ns, name
	ing.CreationTimestamp = Stamp(stamp)
	for _, r := range rules {
		rule := networking.IngressRule{Host: r.Host}
		http := &networking.HTTPIngressRuleValue{}
		for _, p := range r.Paths {
			hp := networking.HTTPIngressPath{Path: p.Path, Backend: Backend(p.Service, p.PortName, p.PortNum)}
			if p.Resource {
				grp := "storage.example"
				hp.Backend = networking.IngressBackend{Resource: &api.TypedLocalObjectReference{APIGroup: &grp, Kind: "Bucket", Name: p.Service}}
			}
			if p.Type != "" {
				t := networking.PathType(p.Type)
				hp.PathType = &t
			}
			http.Paths = append(http.Paths, hp)
		}
		rule.HTTP = http
		ing.Spec.Rules = append(ing.Spec.Rules, rule)
	}
	return ing
}

// IngressClass builds an IngressClass.
func IngressClass(name, controller string) *networking.IngressClass {
	c := &networking.IngressClass{}
	c.Name = name
	c.Spec.Controller = controller
	return c
}

// Pod builds a pod of service app=<app>; terminating sets a deletionTimestamp.
func Pod(ns, name, app, ip string, port int, terminating bool) *api.Pod {
	p := &api.Pod{}
	p.Namespace, p.Name = ns, name
	p.Labels = map[string]string{"app": app}
	p.Status.PodIP = ip
	p.Spec.Containers = []api.Container{{Name: "c", Ports: []api.ContainerPort{{Name: "web", ContainerPort: int32(port), Protocol: api.ProtocolTCP}}}}
	if terminating {
		t := Stamp(100000)
		p.DeletionTimestamp = &t
		p.Finalizers = []string{"verif/hold"}
	}
	return p
}

// ---------------------------------------------------------------- cluster generator

func pick[T any](rng *rand.Rand, xs []T) T { return xs[rng.Intn(len(xs))] }

func (cfg Config) hosts() []string {
	if cfg.HostPool != nil {
		return cfg.HostPool
	}
	return Hosts
}

func (cfg Config) paths() []string {
	if cfg.PathPool != nil {
		return cfg.PathPool
	}
	return Paths
}

func ip(ns, svc, port, i int) string { return fmt.Sprintf("10.%d.%d.%d", ns+1, svc*10+port, i+1) }

// GenService generates service number si (0..3) of namespace number ni with its endpoints.
func GenService(rng *rand.Rand, cfg Config, ni, si int) (*api.Service, *api.Endpoints) {
	ns, name := Namespaces[ni], ServiceNames[si]
	var ports []SvcPort
	switch {
	case si == 3 && cfg.PortClash:
		// "8080" is the number of port p1 and the targetPort of port p2
		ports = []SvcPort{{"p1", 8080, intstr.FromInt(9090)}, {"p2", 80, intstr.FromInt(8080)}}
		if rng.Intn(2) == 0 {
			ports[0], ports[1] = ports[1], ports[0]
		}
	case si == 2:
		// unnamed single port, named targetPort
		ports = []SvcPort{{"", 80, intstr.FromString("web")}}
	default:
		ports = []SvcPort{{"http", 80, intstr.FromInt(8080)}, {"admin", 9000 + si, intstr.FromInt(9100 + si)}}
	}
	svc := Service(ns, name, ports...)
	var eps []EpPort
	for pi, p := range ports {
		tp := p.TargetPort.IntValue()
		if tp == 0 {
			tp = 8000 + si
		}
		e := EpPort{Name: p.Name, Port: tp}
		n := rng.Intn(4) // 0..3 ready
		for i := 0; i < n; i++ {
			e.Ready = append(e.Ready, ip(ni, si, pi, i))
		}
		if cfg.NotReady && rng.Intn(3) == 0 {
			e.NotReady = append(e.NotReady, ip(ni, si, pi, 7))
		}
		if len(e.Ready)+len(e.NotReady) > 0 {
			eps = append(eps, e)
		}
	}
	return svc, Endpoints(ns, name, eps...)
}

// GenPath generates one path.
func GenPath(rng *rand.Rand, cfg Config) IngPath {
	p := IngPath{Path: pick(rng, cfg.paths()), Service: pick(rng, ServiceNames)}
	if cfg.PathTypes {
		p.Type = pick(rng, []string{"", "Exact", "Prefix", "Prefix", "ImplementationSpecific"})
	} else {
		p.Type = "Prefix"
	}
	if rng.Intn(12) == 0 {
		p.Path = "" // empty path = "/"
	}
	switch rng.Intn(10) {
	case 0, 1, 2:
		p.PortName = pick(rng, []string{"http", "http", "admin", "p1", "p2", "nosuch"})
	case 3:
		p.PortNum = pick(rng, []int{8080, 9090, 9000, 9001, 81})
	case 4:
		p.PortNum = 8080
	default:
		p.PortNum = 80
	}
	if cfg.Annotations && rng.Intn(25) == 0 {
		p.Resource = true
	}
	return p
}

// GenIngress generates ingress number k.
func GenIngress(rng *rand.Rand, cfg Config, k int) *networking.Ingress {
	ns := pick(rng, Namespaces)
	if rng.Intn(3) > 0 {
		ns = Namespaces[0] // sharing a namespace is the common case
	}
	stamp := 10 + rng.Intn(20)
	if cfg.EqualStamps && rng.Intn(3) == 0 {
		stamp = 15
	}
	var rules []IngRule
	// one ingress in eight declares only host-less rules: it touches nothing but the
	// default host, so no other host of the same ingress hides what happens to it
	onlyDefault := rng.Intn(8) == 0
	if onlyDefault {
		onlyDefault = false
		for _, h := range cfg.hosts() {
			if h == "" {
				onlyDefault = true
			}
		}
	}
	for i, n := 0, rng.Intn(4); i < n; i++ {
		r := IngRule{Host: pick(rng, cfg.hosts())}
		if onlyDefault {
			r.Host = ""
		}
		for j, m := 0, 1+rng.Intn(3); j < m; j++ {
			r.Paths = append(r.Paths, GenPath(rng, cfg))
		}
		rules = append(rules, r)
	}
	ing := Ingress(ns, IngressNames[k%len(IngressNames)], stamp, rules...)
	if cfg.DefaultBackend && rng.Intn(4) == 0 {
		p := GenPath(rng, cfg)
		b := Backend(p.Service, p.PortName, p.PortNum)
		ing.Spec.DefaultBackend = &b
	}
	if cfg.TLS && rng.Intn(2) == 0 {
		for i, n := 0, 1+rng.Intn(2); i < n; i++ {
			t := networking.IngressTLS{}
			for j, m := 0, rng.Intn(3); j < m; j++ {
				h := pick(rng, cfg.hosts())
				if h != "" {
					t.Hosts = append(t.Hosts, h)
				}
			}
			if rng.Intn(5) > 0 {
				t.SecretName = pick(rng, SecretNames)
			}
			ing.Spec.TLS = append(ing.Spec.TLS, t)
		}
	}
	if cfg.Classes {
		switch rng.Intn(8) {
		case 0:
			ing.Annotations = map[string]string{"kubernetes.io/ingress.class": ClassForeign}
		case 1, 2:
			ing.Annotations = map[string]string{"kubernetes.io/ingress.class": ClassOurs}
		case 3, 4:
			c := ClassOurs
			ing.Spec.IngressClassName = &c
		case 5:
			c := ClassForeign
			ing.Spec.IngressClassName = &c
		}
	}
	if cfg.Annotations {
		for i, n := 0, rng.Intn(3); i < n; i++ {
			a := pick(rng, AnnWhitelist)
			if ing.Annotations == nil {
				ing.Annotations = map[string]string{}
			}
			ing.Annotations[AnnPrefix+a[0]] = a[1+rng.Intn(len(a)-1)]
		}
	}
	if cfg.TCP && rng.Intn(3) == 0 {
		if ing.Annotations == nil {
			ing.Annotations = map[string]string{}
		}
		ing.Annotations[AnnPrefix+"tcp-service-port"] = pick(rng, []string{"7000", "7000", "7001"})
		for i, n := 0, rng.Intn(3); i < n; i++ {
			a := pick(rng, TCPAnnWhitelist)
			ing.Annotations[AnnPrefix+a[0]] = a[1+rng.Intn(len(a)-1)]
		}
	}
	return ing
}

// TCPAnnWhitelist are the port-level keys of TCP services.
var TCPAnnWhitelist = [][]string{
	{"tcp-service-proxy-protocol", "true", "false"},
	{"tcp-service-log-format", "%ci:%cp [%t] %ft", "%ci %b"},
	{"config-tcp-service", "tcp-request content reject if { src 10.9.9.9 }", "tcp-request content accept"},
	{"proxy-protocol", "v1", "v2"},
}

// GenCluster generates a whole cluster: services + endpoints in every namespace (each
// present with probability 3/4), secrets, classes, pods, ingresses.
func GenCluster(rng *rand.Rand, cfg Config) []client.Object {
	if cfg.MaxIngresses == 0 {
		cfg.MaxIngresses = 7
	}
	var objs []client.Object
	for ni := range Namespaces {
		for si := range ServiceNames {
			if ni > 0 && rng.Intn(4) == 0 {
				continue
			}
			svc, ep := GenService(rng, cfg, ni, si)
			objs = append(objs, svc)
			if rng.Intn(10) > 0 {
				objs = append(objs, ep)
			}
			if cfg.Pods && rng.Intn(3) == 0 {
				objs = append(objs, Pod(Namespaces[ni], fmt.Sprintf("%s-pod1", ServiceNames[si]), ServiceNames[si], ip(ni, si, 0, 8), 8080, rng.Intn(2) == 0))
			}
		}
		if cfg.TLS {
			objs = append(objs, TLSSecret(Namespaces[ni], SecretNames[0], "a.example", 0))
			objs = append(objs, TLSSecret(Namespaces[ni], SecretNames[1], "b.example", 1))
		}
	}
	if cfg.Classes {
		if rng.Intn(5) > 0 {
			objs = append(objs, IngressClass(ClassOurs, ControllerOurs))
		}
		if rng.Intn(2) == 0 {
			objs = append(objs, IngressClass(ClassForeign, ControllerForeign))
		}
	}
	if cfg.ConfigMap && rng.Intn(2) == 0 {
		objs = append(objs, GenConfigMap(rng, cfg))
	}
	n := 1 + rng.Intn(cfg.MaxIngresses)
	perm := rng.Perm(len(IngressNames))
	for k := 0; k < n && k < len(perm); k++ {
		objs = append(objs, GenIngress(rng, cfg, perm[k]))
	}
	if cfg.Gateway {
		objs = append(objs, GenGatewayObjects(rng)...)
	}
	return objs
}

// GlobalKeys are the candidate keys of the global ConfigMap.
var GlobalKeys = [][]string{
	{"drain-support", "true", "false"},
	{"ssl-redirect", "false", "true"},
	{"max-connections", "3000"},
	{"path-type-order", "exact,prefix,begin,regex", "exact,begin,prefix,regex"},
	{"timeout-client", "40s"},
	{"backend-server-slots-increment", "4", "1"},
}

// GenConfigMap generates the global ConfigMap.
func GenConfigMap(rng *rand.Rand, cfg Config) *api.ConfigMap {
	name := cfg.GlobalConfigMap
	if name == "" {
		name = "ingress-controller/haproxy-ingress"
	}
	cm := &api.ConfigMap{}
	for i := 0; i < len(name); i++ {
		if name[i] == '/' {
			cm.Namespace, cm.Name = name[:i], name[i+1:]
		}
	}
	cm.Data = map[string]string{}
	keys := GlobalKeys
	if cfg.GlobalKeys != nil {
		keys = cfg.GlobalKeys
	}
	for i, n := 0, rng.Intn(3); i < n; i++ {
		a := pick(rng, keys)
		cm.Data[a[0]] = a[1+rng.Intn(len(a)-1)]
	}
	if cfg.GlobalKeys == nil && cfg.NotReady && rng.Intn(3) == 0 {
		// not-ready and terminating endpoints are only rendered (weight 0) with this key
		cm.Data["drain-support"] = "true"
	}
	return cm
}

// ---------------------------------------------------------------- state and batches

// State is the generator's view of the cluster (what exists now).
type State struct {
	objs map[string]client.Object
}

// NewState builds a state from objects.
func NewState(objs []client.Object) *State {
	s := &State{objs: map[string]client.Object{}}
	for _, o := range objs {
		s.objs[Key(o)] = o.DeepCopyObject().(client.Object)
	}
	return s
}

// Key is "Kind|ns|name" (same as pipeline.Key for typed core objects).
func Key(o client.Object) string {
	return KindOf(o) + "|" + o.GetNamespace() + "|" + o.GetName()
}

// KindOf names the kind of a typed object.
func KindOf(o client.Object) string {
	switch o.(type) {
	case *networking.Ingress:
		return "Ingress"
	case *networking.IngressClass:
		return "IngressClass"
	case *api.Service:
		return "Service"
	case *api.Endpoints:
		return "Endpoints"
	case *api.Secret:
		return "Secret"
	case *api.ConfigMap:
		return "ConfigMap"
	case *api.Pod:
		return "Pod"
	case *gatewayv1.GatewayClass:
		return "GatewayClass"
	case *gatewayv1.Gateway:
		return "Gateway"
	case *gatewayv1.HTTPRoute:
		return "HTTPRoute"
	}
	return fmt.Sprintf("%T", o)
}

// Objects returns copies of the current objects in key order.
func (s *State) Objects() []client.Object {
	keys := make([]string, 0, len(s.objs))
	for k := range s.objs {
		keys = append(keys, k)
	}
	sort.Strings(keys)
	out := make([]client.Object, 0, len(keys))
	for _, k := range keys {
		out = append(out, s.objs[k].DeepCopyObject().(client.Object))
	}
	return out
}

// Apply records the changes (same normalisation as pipeline.Deliver).
func (s *State) Apply(batch []pipeline.Change) {
	for _, ch := range batch {
		k := Key(ch.Obj)
		if ch.Op == pipeline.Delete {
			delete(s.objs, k)
		} else {
			s.objs[k] = ch.Obj.DeepCopyObject().(client.Object)
		}
	}
}

func (s *State) ofKind(kind string) []client.Object {
	var out []client.Object
	for _, o := range s.Objects() {
		if KindOf(o) == kind {
			out = append(out, o)
		}
	}
	return out
}

// GenChange generates one change against the current state (and records it).
func GenChange(rng *rand.Rand, cfg Config, s *State) pipeline.Change {
	for try := 0; try < 50; try++ {
		var ch *pipeline.Change
		if cfg.Gateway && rng.Intn(5) == 0 {
			if ch = genGatewayChange(rng, s); ch != nil {
				s.Apply([]pipeline.Change{*ch})
				return *ch
			}
		}
		switch k := rng.Intn(20); {
		case k < 6: // ingress add / replace
			ing := GenIngress(rng, cfg, rng.Intn(len(IngressNames)))
			if cfg.MaxIngresses > 0 && len(s.ofKind("Ingress")) >= cfg.MaxIngresses {
				// replace an existing one instead of adding
				if old := s.ofKind("Ingress"); len(old) > 0 {
					o := pick(rng, old)
					ing.Namespace, ing.Name = o.GetNamespace(), o.GetName()
				}
			}
			if old, ok := s.objs[Key(ing)]; ok {
				ing.CreationTimestamp = old.GetCreationTimestamp()
				ch = &pipeline.Change{Op: pipeline.Update, Obj: ing}
			} else {
				ch = &pipeline.Change{Op: pipeline.Create, Obj: ing}
			}
		case k < 8: // ingress small edit: one path's backend, or annotations
			if old := s.ofKind("Ingress"); len(old) > 0 {
				ing := pick(rng, old).(*networking.Ingress)
				if len(ing.Spec.Rules) > 0 && rng.Intn(2) == 0 {
					r := &ing.Spec.Rules[rng.Intn(len(ing.Spec.Rules))]
					if r.HTTP != nil && len(r.HTTP.Paths) > 0 {
						p := GenPath(rng, cfg)
						r.HTTP.Paths[rng.Intn(len(r.HTTP.Paths))].Backend = Backend(p.Service, p.PortName, p.PortNum)
					}
				} else if cfg.Annotations {
					a := pick(rng, AnnWhitelist)
					if ing.Annotations == nil {
						ing.Annotations = map[string]string{}
					}
					if _, ok := ing.Annotations[AnnPrefix+a[0]]; ok && rng.Intn(2) == 0 {
						delete(ing.Annotations, AnnPrefix+a[0])
					} else {
						ing.Annotations[AnnPrefix+a[0]] = a[1+rng.Intn(len(a)-1)]
					}
				} else {
					continue
				}
				ch = &pipeline.Change{Op: pipeline.Update, Obj: ing}
			}
		case k < 10: // ingress delete
			if old := s.ofKind("Ingress"); len(old) > 0 {
				ch = &pipeline.Change{Op: pipeline.Delete, Obj: pick(rng, old)}
			}
		case k < 14: // endpoints change / delete
			ni, si := rng.Intn(len(Namespaces)), rng.Intn(len(ServiceNames))
			svc, ok := s.objs["Service|"+Namespaces[ni]+"|"+ServiceNames[si]]
			if !ok {
				continue
			}
			_, ep := regenEndpoints(rng, cfg, ni, si, svc.(*api.Service))
			if old, ok := s.objs[Key(ep)]; ok && cfg.NotReady && rng.Intn(3) == 0 {
				// readiness flip: the same address set, one address moves between
				// addresses and notReadyAddresses (only per-endpoint attributes change)
				if fl := flipReadiness(rng, old.(*api.Endpoints)); fl != nil {
					ch = &pipeline.Change{Op: pipeline.Update, Obj: fl}
					break
				}
			}
			if _, ok := s.objs[Key(ep)]; ok && rng.Intn(6) == 0 {
				ch = &pipeline.Change{Op: pipeline.Delete, Obj: ep}
			} else if ok {
				ch = &pipeline.Change{Op: pipeline.Update, Obj: ep}
			} else {
				ch = &pipeline.Change{Op: pipeline.Create, Obj: ep}
			}
		case k < 16: // service add / change / delete
			ni, si := rng.Intn(len(Namespaces)), rng.Intn(len(ServiceNames))
			svc, _ := GenService(rng, cfg, ni, si)
			if _, ok := s.objs[Key(svc)]; ok {
				if rng.Intn(3) == 0 {
					ch = &pipeline.Change{Op: pipeline.Delete, Obj: svc}
				} else {
					// change: swap port order or retarget
					if len(svc.Spec.Ports) > 1 && rng.Intn(2) == 0 {
						svc.Spec.Ports[0], svc.Spec.Ports[1] = svc.Spec.Ports[1], svc.Spec.Ports[0]
					} else if cfg.Annotations {
						svc.Annotations = map[string]string{AnnPrefix + "balance-algorithm": pick(rng, []string{"leastconn", "first"})}
					}
					ch = &pipeline.Change{Op: pipeline.Update, Obj: svc}
				}
			} else {
				ch = &pipeline.Change{Op: pipeline.Create, Obj: svc}
			}
		case k < 17: // secret
			if !cfg.TLS {
				continue
			}
			ns := pick(rng, Namespaces)
			name := pick(rng, SecretNames)
			sec := TLSSecret(ns, name, pick(rng, []string{"a.example", "b.example", "c.example"}), rng.Intn(3))
			if _, ok := s.objs[Key(sec)]; ok {
				if rng.Intn(3) == 0 {
					ch = &pipeline.Change{Op: pipeline.Delete, Obj: sec}
				} else {
					ch = &pipeline.Change{Op: pipeline.Update, Obj: sec}
				}
			} else {
				ch = &pipeline.Change{Op: pipeline.Create, Obj: sec}
			}
		case k < 18: // ingress class
			if !cfg.Classes {
				continue
			}
			name := pick(rng, []string{ClassOurs, ClassForeign})
			ctl := ControllerOurs
			if (name == ClassForeign) != (rng.Intn(6) == 0) {
				ctl = ControllerForeign
			}
			c := IngressClass(name, ctl)
			if _, ok := s.objs[Key(c)]; ok {
				if rng.Intn(2) == 0 {
					ch = &pipeline.Change{Op: pipeline.Delete, Obj: c}
				} else {
					ch = &pipeline.Change{Op: pipeline.Update, Obj: c}
				}
			} else {
				ch = &pipeline.Change{Op: pipeline.Create, Obj: c}
			}
		case k < 19: // global configmap
			if !cfg.ConfigMap {
				continue
			}
			cm := GenConfigMap(rng, cfg)
			if _, ok := s.objs[Key(cm)]; ok {
				ch = &pipeline.Change{Op: pipeline.Update, Obj: cm}
			} else {
				ch = &pipeline.Change{Op: pipeline.Create, Obj: cm}
			}
		default: // pod
			if !cfg.Pods {
				continue
			}
			ni, si := rng.Intn(len(Namespaces)), rng.Intn(len(ServiceNames))
			pod := Pod(Namespaces[ni], fmt.Sprintf("%s-pod1", ServiceNames[si]), ServiceNames[si], ip(ni, si, 0, 8), 8080, rng.Intn(2) == 0)
			if old, ok := s.objs[Key(pod)]; ok {
				if rng.Intn(3) == 0 {
					ch = &pipeline.Change{Op: pipeline.Delete, Obj: pod}
				} else {
					// an update may also change a pod that stays terminating: it stops being
					// a pod to drain (node lost, address gone, labels no longer selected)
					if old.GetDeletionTimestamp() != nil && pod.DeletionTimestamp != nil {
						switch rng.Intn(4) {
						case 0:
							pod.Status.Reason = "NodeLost"
						case 1:
							pod.Status.PodIP = ""
						case 2:
							pod.Labels = map[string]string{"app": "other"}
						}
					}
					ch = &pipeline.Change{Op: pipeline.Update, Obj: pod}
				}
			} else {
				ch = &pipeline.Change{Op: pipeline.Create, Obj: pod}
			}
		}
		if ch != nil {
			s.Apply([]pipeline.Change{*ch})
			return *ch
		}
	}
	// fall back: an endpoints refresh of svc1
	svc, ep := GenService(rng, cfg, 0, 0)
	_ = svc
	c := pipeline.Change{Op: pipeline.Update, Obj: ep}
	s.Apply([]pipeline.Change{c})
	return c
}

// flipReadiness moves one address of one subset between Addresses and NotReadyAddresses;
// nil if the object has no address at all.
func flipReadiness(rng *rand.Rand, old *api.Endpoints) *api.Endpoints {
	ep := old.DeepCopy()
	var idx []int
	for i, ss := range ep.Subsets {
		if len(ss.Addresses)+len(ss.NotReadyAddresses) > 0 {
			idx = append(idx, i)
		}
	}
	if len(idx) == 0 {
		return nil
	}
	ss := &ep.Subsets[idx[rng.Intn(len(idx))]]
	toNotReady := len(ss.Addresses) > 0 && (len(ss.NotReadyAddresses) == 0 || rng.Intn(2) == 0)
	if toNotReady {
		i := rng.Intn(len(ss.Addresses))
		a := ss.Addresses[i]
		ss.Addresses = append(ss.Addresses[:i:i], ss.Addresses[i+1:]...)
		ss.NotReadyAddresses = append(ss.NotReadyAddresses, a)
	} else {
		i := rng.Intn(len(ss.NotReadyAddresses))
		a := ss.NotReadyAddresses[i]
		ss.NotReadyAddresses = append(ss.NotReadyAddresses[:i:i], ss.NotReadyAddresses[i+1:]...)
		ss.Addresses = append(ss.Addresses, a)
	}
	return ep
}

func regenEndpoints(rng *rand.Rand, cfg Config, ni, si int, svc *api.Service) (*api.Service, *api.Endpoints) {
	var eps []EpPort
	for pi, p := range svc.Spec.Ports {
		tp := p.TargetPort.IntValue()
		if tp == 0 {
			tp = 8000 + si
		}
		e := EpPort{Name: p.Name, Port: tp}
		for i, n := 0, rng.Intn(4); i < n; i++ {
			e.Ready = append(e.Ready, ip(ni, si, pi, i))
		}
		if cfg.NotReady && rng.Intn(3) == 0 {
			e.NotReady = append(e.NotReady, ip(ni, si, pi, 7))
		}
		if len(e.Ready)+len(e.NotReady) > 0 {
			eps = append(eps, e)
		}
	}
	return svc, Endpoints(svc.Namespace, svc.Name, eps...)
}

// GenBatch generates a batch of 1..max changes; with probability 1/3 one object gets
// several events in the batch (e.g. update+update, delete+create, create+delete).
func GenBatch(rng *rand.Rand, cfg Config, s *State, max int) []pipeline.Change {
	n := 1 + rng.Intn(max)
	var batch []pipeline.Change
	for i := 0; i < n; i++ {
		batch = append(batch, GenChange(rng, cfg, s))
	}
	if rng.Intn(3) == 0 && len(batch) > 0 {
		// a second event for an object of this batch
		c := batch[rng.Intn(len(batch))]
		var again pipeline.Change
		switch c.Op {
		case pipeline.Delete:
			again = pipeline.Change{Op: pipeline.Create, Obj: c.Obj.DeepCopyObject().(client.Object)}
		default:
			if rng.Intn(2) == 0 {
				again = pipeline.Change{Op: pipeline.Delete, Obj: c.Obj.DeepCopyObject().(client.Object)}
			} else {
				o := c.Obj.DeepCopyObject().(client.Object)
				l := o.GetLabels()
				if l == nil {
					l = map[string]string{}
				}
				l["touched"] = fmt.Sprint(rng.Intn(1000))
				o.SetLabels(l)
				again = pipeline.Change{Op: pipeline.Update, Obj: o}
			}
		}
		batch = append(batch, again)
		s.Apply([]pipeline.Change{again})
	}
	return batch
}

// GenHistory generates an initial cluster (as one batch of creates) followed by n batches.
func GenHistory(rng *rand.Rand, cfg Config, n, maxBatch int) [][]pipeline.Change {
	objs := GenCluster(rng, cfg)
	s := NewState(objs)
	first := make([]pipeline.Change, len(objs))
	for i, o := range objs {
		first[i] = pipeline.Change{Op: pipeline.Create, Obj: o}
	}
	out := [][]pipeline.Change{first}
	for i := 0; i < n; i++ {
		out = append(out, GenBatch(rng, cfg, s, maxBatch))
	}
	return out
}

// Final returns the cluster content after the history.
func Final(history [][]pipeline.Change) []client.Object {
	s := NewState(nil)
	for _, b := range history {
		s.Apply(b)
	}
	return s.Objects()
}

// ---------------------------------------------------------------- JSON form

// ObjJSON is the serialisable form of an object.
type ObjJSON struct {
	Kind string          `json:"kind"`
	Obj  json.RawMessage `json:"obj"`
}

// ChangeJSON is the serialisable form of a change.
type ChangeJSON struct {
	Op   string          `json:"op"`
	Kind string          `json:"kind"`
	Obj  json.RawMessage `json:"obj"`
}

// NewOfKind returns an empty typed object of a kind name.
func NewOfKind(kind string) client.Object {
	switch kind {
	case "Ingress":
		return &networking.Ingress{}
	case "IngressClass":
		return &networking.IngressClass{}
	case "Service":
		return &api.Service{}
	case "Endpoints":
		return &api.Endpoints{}
	case "Secret":
		return &api.Secret{}
	case "ConfigMap":
		return &api.ConfigMap{}
	case "Pod":
		return &api.Pod{}
	case "GatewayClass":
		return &gatewayv1.GatewayClass{}
	case "Gateway":
		return &gatewayv1.Gateway{}
	case "HTTPRoute":
		return &gatewayv1.HTTPRoute{}
	}
	panic("world: unknown kind " + kind)
}

// EncodeObj serialises an object.
func EncodeObj(o client.Object) ObjJSON {
	b, err := json.Marshal(o)
	if err != nil {
		panic(err)
	}
	return ObjJSON{Kind: KindOf(o), Obj: b}
}

// DecodeObj is the inverse of EncodeObj.
func DecodeObj(j ObjJSON) client.Object {
	o := NewOfKind(j.Kind)
	if err := json.Unmarshal(j.Obj, o); err != nil {
		panic(err)
	}
	return o
}

// EncodeObjs serialises objects.
func EncodeObjs(objs []client.Object) []ObjJSON {
	out := make([]ObjJSON, len(objs))
	for i, o := range objs {
		out[i] = EncodeObj(o)
	}
	return out
}

// DecodeObjs is the inverse of EncodeObjs.
func DecodeObjs(js []ObjJSON) []client.Object {
	out := make([]client.Object, len(js))
	for i, j := range js {
		out[i] = DecodeObj(j)
	}
	return out
}

// EncodeHistory serialises a history.
func EncodeHistory(h [][]pipeline.Change) [][]ChangeJSON {
	out := make([][]ChangeJSON, len(h))
	for i, b := range h {
		out[i] = make([]ChangeJSON, len(b))
		for j, c := range b {
			e := EncodeObj(c.Obj)
			out[i][j] = ChangeJSON{Op: c.Op.String(), Kind: e.Kind, Obj: e.Obj}
		}
	}
	return out
}

// DecodeHistory is the inverse of EncodeHistory.
func DecodeHistory(js [][]ChangeJSON) [][]pipeline.Change {
	out := make([][]pipeline.Change, len(js))
	for i, b := range js {
		out[i] = make([]pipeline.Change, len(b))
		for j, c := range b {
			op := pipeline.Create
			switch c.Op {
			case "update":
				op = pipeline.Update
			case "delete":
				op = pipeline.Delete
			}
			out[i][j] = pipeline.Change{Op: op, Obj: DecodeObj(ObjJSON{Kind: c.Kind, Obj: c.Obj})}
		}
	}
	return out
}

// ---------------------------------------------------------------- shrinker

// Shrink is delta debugging (ddmin) over a history: it returns a history on which
// `fails` still answers true, 1-minimal with respect to removing single changes
// (empty batches are dropped, batch boundaries of the remaining changes are kept).
// `fails` must be deterministic enough; budget bounds the number of calls.
func Shrink(history [][]pipeline.Change, fails func([][]pipeline.Change) bool, budget int) [][]pipeline.Change {
	type item struct{ b, i int }
	var items []item
	for b := range history {
		for i := range history[b] {
			items = append(items, item{b, i})
		}
	}
	build := func(keep []item) [][]pipeline.Change {
		var out [][]pipeline.Change
		last := -1
		for _, it := range keep {
			if it.b != last {
				out = append(out, nil)
				last = it.b
			}
			out[len(out)-1] = append(out[len(out)-1], history[it.b][it.i])
		}
		return out
	}
	calls := 0
	test := func(keep []item) bool {
		if calls >= budget {
			return false
		}
		calls++
		return fails(build(keep))
	}
	n := 2
	for len(items) >= 2 && calls < budget {
		chunk := (len(items) + n - 1) / n
		reduced := false
		// try each complement
		for start := 0; start < len(items); start += chunk {
			end := start + chunk
			if end > len(items) {
				end = len(items)
			}
			comp := append(append([]item{}, items[:start]...), items[end:]...)
			if len(comp) > 0 && test(comp) {
				items = comp
				if n > 2 {
					n--
				}
				reduced = true
				break
			}
		}
		if !reduced {
			if n >= len(items) {
				break
			}
			n *= 2
			if n > len(items) {
				n = len(items)
			}
		}
	}
	// final pass: try merging all batches into fewer (drop boundaries) is NOT done:
	// boundaries are part of the input.
	return build(items)
}

// ShrinkObjs is ddmin over a set of objects (a cluster).
func ShrinkObjs(objs []client.Object, fails func([]client.Object) bool, budget int) []client.Object {
	h := [][]pipeline.Change{nil}
	for _, o := range objs {
		h[0] = append(h[0], pipeline.Change{Op: pipeline.Create, Obj: o})
	}
	res := Shrink(h, func(x [][]pipeline.Change) bool {
		var os []client.Object
		for _, b := range x {
			for _, c := range b {
				os = append(os, c.Obj)
			}
		}
		return fails(os)
	}, budget)
	var out []client.Object
	for _, b := range res {
		for _, c := range b {
			out = append(out, c.Obj)
		}
	}
	return out
}
