// Package c0809 holds what the C08 and C09 harness binaries share: the real cache
// facade of pkg/controller/services over a controller-runtime fake client, the real
// watchers, the real ingress converter over a real haproxy model, and small helpers
// to build Kubernetes objects and certificates offline.
package c0809

import (
	"context"
	"crypto/ecdsa"
	"crypto/elliptic"
	"crypto/rand"
	"crypto/x509"
	"crypto/x509/pkix"
	"encoding/pem"
	"fmt"
	"math/big"
	"os"
	"path/filepath"
	"sort"
	"strings"
	"sync"
	"time"

	api "k8s.io/api/core/v1"
	networking "k8s.io/api/networking/v1"
	metav1 "k8s.io/apimachinery/pkg/apis/meta/v1"
	"k8s.io/apimachinery/pkg/api/meta"
	"k8s.io/apimachinery/pkg/runtime"
	clientgoscheme "k8s.io/client-go/kubernetes/scheme"
	"sigs.k8s.io/controller-runtime/pkg/client"
	"sigs.k8s.io/controller-runtime/pkg/client/apiutil"
	"sigs.k8s.io/controller-runtime/pkg/client/fake"
	"sigs.k8s.io/controller-runtime/pkg/client/interceptor"
	gatewayv1 "sigs.k8s.io/gateway-api/apis/v1"
	gatewayv1alpha2 "sigs.k8s.io/gateway-api/apis/v1alpha2"

	"github.com/jcmoraisjr/haproxy-ingress/pkg/controller/config"
	"github.com/jcmoraisjr/haproxy-ingress/pkg/controller/services"
	convtypes "github.com/jcmoraisjr/haproxy-ingress/pkg/converters/types"
	"github.com/jcmoraisjr/haproxy-ingress/pkg/converters/tracker"
)

// CfgIn are the command-line options that matter to C08/C09.
type CfgIn struct {
	IngressClass   string `json:"ingress_class"`
	ControllerName string `json:"controller_name"`
	Watch          bool   `json:"watch_ingress_without_class"`
	Prec           bool   `json:"ingress_class_precedence"`
	AllowCrossNs   bool   `json:"allow_cross_namespace"`
	// Gateway enables the Gateway API v1 and TCPRoute v1alpha2 (types in the scheme, cache and converters)
	Gateway bool `json:"gateway,omitempty"`
}

// Env is one running controller core: fake cluster + real cache facade.
type Env struct {
	Ctx     context.Context
	Dir     string
	Client  client.WithWatch
	Cfg     *config.Config
	Tracker convtypes.Tracker
	Dyn     *convtypes.DynamicConfig
	Cache   services.VerifCache
	FakeCrt convtypes.CrtFile
	FakeCA  convtypes.CrtFile
	// Reads records every Get the code under test makes on the cluster: "Kind namespace/name"
	Reads *ReadLog
}

// ReadLog is the recording layer between the cache facade and the fake cluster.
type ReadLog struct {
	mu   sync.Mutex
	gets []string
}

func (r *ReadLog) add(obj client.Object, key client.ObjectKey) {
	r.mu.Lock()
	defer r.mu.Unlock()
	t := fmt.Sprintf("%T", obj)
	if i := strings.LastIndex(t, "."); i >= 0 {
		t = t[i+1:]
	}
	r.gets = append(r.gets, t+" "+key.Namespace+"/"+key.Name)
}

// Reset forgets what was read so far.
func (r *ReadLog) Reset() {
	r.mu.Lock()
	defer r.mu.Unlock()
	r.gets = nil
}

// Of returns the recorded reads of namespace/name (any kind), sorted and deduplicated.
func (r *ReadLog) Of(nsname string) []string {
	r.mu.Lock()
	defer r.mu.Unlock()
	seen := map[string]bool{}
	var out []string
	for _, g := range r.gets {
		if strings.HasSuffix(g, " "+nsname) && !seen[g] {
			seen[g] = true
			out = append(out, g)
		}
	}
	sort.Strings(out)
	return out
}

func recording(log *ReadLog, inner interceptor.Funcs) interceptor.Funcs {
	get := inner.Get
	inner.Get = func(ctx context.Context, c client.WithWatch, key client.ObjectKey, obj client.Object, opts ...client.GetOption) error {
		log.add(obj, key)
		if get != nil {
			return get(ctx, c, key, obj, opts...)
		}
		return c.Get(ctx, key, obj, opts...)
	}
	return inner
}

var schemeOnce sync.Once
var scheme *runtime.Scheme

// Scheme returns the scheme with the core and networking types.
func Scheme() *runtime.Scheme {
	schemeOnce.Do(func() {
		scheme = runtime.NewScheme()
		if err := clientgoscheme.AddToScheme(scheme); err != nil {
			panic(err)
		}
	})
	return scheme
}

var gwSchemeOnce sync.Once
var gwScheme *runtime.Scheme

// GatewayScheme is Scheme plus the Gateway API v1 and v1alpha2 types.
func GatewayScheme() *runtime.Scheme {
	gwSchemeOnce.Do(func() {
		gwScheme = runtime.NewScheme()
		Must(clientgoscheme.AddToScheme(gwScheme))
		Must(gatewayv1.Install(gwScheme))
		Must(gatewayv1alpha2.Install(gwScheme))
	})
	return gwScheme
}

// stamp makes the fake client fill TypeMeta on Get and List results the way
// controller-runtime's informer cache does (the gateway converter reads the Kind of a route).
func stamp(scheme *runtime.Scheme) interceptor.Funcs {
	return interceptor.Funcs{
		Get: func(ctx context.Context, c client.WithWatch, key client.ObjectKey, obj client.Object, opts ...client.GetOption) error {
			if err := c.Get(ctx, key, obj, opts...); err != nil {
				return err
			}
			if gvk, err := apiutil.GVKForObject(obj, scheme); err == nil {
				obj.GetObjectKind().SetGroupVersionKind(gvk)
			}
			return nil
		},
		List: func(ctx context.Context, c client.WithWatch, list client.ObjectList, opts ...client.ListOption) error {
			if err := c.List(ctx, list, opts...); err != nil {
				return err
			}
			if gvk, err := apiutil.GVKForObject(list, scheme); err == nil {
				gvk.Kind = strings.TrimSuffix(gvk.Kind, "List")
				items, _ := meta.ExtractList(list)
				for _, it := range items {
					it.GetObjectKind().SetGroupVersionKind(gvk)
				}
				_ = meta.SetList(list, items)
			}
			return nil
		},
	}
}

// NewEnv builds the real cache facade over a fake client holding objs. dir is a
// scratch directory (certificates are written below it).
func NewEnv(dir string, in CfgIn, objs ...client.Object) *Env {
	for _, d := range []string{"ssl", "cacerts", "crl", "dhparam", "maps", "run"} {
		if err := os.MkdirAll(filepath.Join(dir, d), 0o755); err != nil {
			panic(err)
		}
	}
	cfg := &config.Config{
		IngressClass:             in.IngressClass,
		ControllerName:           in.ControllerName,
		WatchIngressWithoutClass: in.Watch,
		IngressClassPrecedence:   in.Prec,
		AllowCrossNamespace:      in.AllowCrossNs,
		DefaultDirCerts:          filepath.Join(dir, "ssl"),
		DefaultDirCACerts:        filepath.Join(dir, "cacerts"),
		DefaultDirCrl:            filepath.Join(dir, "crl"),
		DefaultDirDHParam:        filepath.Join(dir, "dhparam"),
		DefaultDirMaps:           filepath.Join(dir, "maps"),
		DefaultDirVarRun:         filepath.Join(dir, "run"),
		AnnPrefix:                []string{"haproxy-ingress.github.io", "ingress.kubernetes.io"},
		ElectionNamespace:        "ingress-controller",
		ConfigMapName:            GlobalConfigMap,
		BackendShards:            0,
	}
	ctx := context.Background()
	var cli client.WithWatch
	reads := &ReadLog{}
	if in.Gateway {
		cfg.HasGatewayV1 = true
		cfg.HasTCPRouteA2 = true
		cli = fake.NewClientBuilder().WithScheme(GatewayScheme()).WithInterceptorFuncs(recording(reads, stamp(GatewayScheme()))).WithObjects(objs...).Build()
	} else {
		cli = fake.NewClientBuilder().WithScheme(Scheme()).WithInterceptorFuncs(recording(reads, interceptor.Funcs{})).WithObjects(objs...).Build()
	}
	tr := tracker.NewTracker()
	// the same initialisation as Services.setup
	dyn := &convtypes.DynamicConfig{StaticCrossNamespaceSecrets: cfg.AllowCrossNamespace}
	cache, fakeCrt, fakeCA, err := services.VerifNewCache(ctx, cli, cfg, tr, dyn)
	if err != nil {
		panic(err)
	}
	return &Env{Ctx: ctx, Dir: dir, Client: cli, Cfg: cfg, Tracker: tr, Dyn: dyn, Cache: cache, FakeCrt: fakeCrt, FakeCA: fakeCA, Reads: reads}
}

// ---- object builders ----

// GlobalConfigMap is the namespace/name of the global ConfigMap (--configmap).
const GlobalConfigMap = "ingress-controller/haproxy-ingress"

// ConfigMap builds the global ConfigMap with the given data.
func ConfigMap(data map[string]string) *api.ConfigMap {
	return &api.ConfigMap{ObjectMeta: metav1.ObjectMeta{Namespace: "ingress-controller", Name: "haproxy-ingress"}, Data: data}
}

// ClassAnn is the class annotation key.
const ClassAnn = "kubernetes.io/ingress.class"

// IngressClass builds an IngressClass.
func IngressClass(name, controller string, params bool) *networking.IngressClass {
	c := &networking.IngressClass{ObjectMeta: metav1.ObjectMeta{Name: name, Generation: 1}}
	c.Spec.Controller = controller
	if params {
		kind := "ConfigMap"
		c.Spec.Parameters = &networking.IngressClassParametersReference{Kind: kind, Name: "params-" + name}
	}
	return c
}

// Ingress builds an Ingress with one rule host -> svc:port.
func Ingress(ns, name string, ann map[string]string, class *string, host, svc string, port int32) *networking.Ingress {
	pt := networking.PathTypePrefix
	ing := &networking.Ingress{ObjectMeta: metav1.ObjectMeta{Namespace: ns, Name: name, Generation: 1, Annotations: ann}}
	ing.Spec.IngressClassName = class
	if host != "" || svc != "" {
		ing.Spec.Rules = []networking.IngressRule{{
			Host: host,
			IngressRuleValue: networking.IngressRuleValue{HTTP: &networking.HTTPIngressRuleValue{
				Paths: []networking.HTTPIngressPath{{Path: "/", PathType: &pt,
					Backend: networking.IngressBackend{Service: &networking.IngressServiceBackend{Name: svc, Port: networking.ServiceBackendPort{Number: port}}}}},
			}},
		}}
	}
	return ing
}

// Service builds a ClusterIP service with one TCP port, and its Endpoints.
func Service(ns, name string, port int32, ip string, ann map[string]string) (*api.Service, *api.Endpoints) {
	svc := &api.Service{ObjectMeta: metav1.ObjectMeta{Namespace: ns, Name: name, Annotations: ann, Generation: 1}}
	svc.Spec.Ports = []api.ServicePort{{Port: port, Protocol: api.ProtocolTCP}}
	svc.Spec.Ports[0].TargetPort.IntVal = port
	svc.Spec.ClusterIP = "10.96.0.1"
	ep := &api.Endpoints{ObjectMeta: metav1.ObjectMeta{Namespace: ns, Name: name}}
	ep.Subsets = []api.EndpointSubset{{
		Addresses: []api.EndpointAddress{{IP: ip}},
		Ports:     []api.EndpointPort{{Port: port, Protocol: api.ProtocolTCP}},
	}}
	return svc, ep
}

// Secret builds a secret.
func Secret(ns, name string, data map[string][]byte) *api.Secret {
	return &api.Secret{ObjectMeta: metav1.ObjectMeta{Namespace: ns, Name: name}, Data: data}
}

// SelfSigned creates an ECDSA self-signed certificate (PEM crt, PEM key), offline.
func SelfSigned(cn string, isCA bool) (crt, key []byte) {
	priv, err := ecdsa.GenerateKey(elliptic.P256(), rand.Reader)
	if err != nil {
		panic(err)
	}
	serial, _ := rand.Int(rand.Reader, big.NewInt(1<<62))
	tmpl := x509.Certificate{
		SerialNumber:          serial,
		Subject:               pkix.Name{CommonName: cn},
		NotBefore:             time.Now().Add(-time.Hour),
		NotAfter:              time.Now().Add(24 * time.Hour),
		KeyUsage:              x509.KeyUsageDigitalSignature | x509.KeyUsageCertSign,
		ExtKeyUsage:           []x509.ExtKeyUsage{x509.ExtKeyUsageServerAuth, x509.ExtKeyUsageClientAuth},
		BasicConstraintsValid: true,
		IsCA:                  isCA,
		DNSNames:              []string{cn},
	}
	der, err := x509.CreateCertificate(rand.Reader, &tmpl, &tmpl, &priv.PublicKey, priv)
	if err != nil {
		panic(err)
	}
	dkey, err := x509.MarshalECPrivateKey(priv)
	if err != nil {
		panic(err)
	}
	crt = pem.EncodeToMemory(&pem.Block{Type: "CERTIFICATE", Bytes: der})
	key = pem.EncodeToMemory(&pem.Block{Type: "EC PRIVATE KEY", Bytes: dkey})
	return crt, key
}

// Must panics on error.
func Must(err error) {
	if err != nil {
		panic(fmt.Sprintf("%v", err))
	}
}
