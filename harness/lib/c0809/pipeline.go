package c0809

import (
	"fmt"
	"sort"
	"sync"
	"time"

	"github.com/jcmoraisjr/haproxy-ingress/pkg/controller/reconciler"
	"github.com/jcmoraisjr/haproxy-ingress/pkg/converters"
	convtypes "github.com/jcmoraisjr/haproxy-ingress/pkg/converters/types"
	"github.com/jcmoraisjr/haproxy-ingress/pkg/haproxy"
	hatypes "github.com/jcmoraisjr/haproxy-ingress/pkg/haproxy/types"
	"github.com/jcmoraisjr/haproxy-ingress/pkg/utils"
)

// Logger keeps the messages of the converter (never compared, only shown in failures).
type Logger struct {
	mu   sync.Mutex
	Msgs []string
}

func (l *Logger) add(level, msg string, args ...interface{}) {
	l.mu.Lock()
	defer l.mu.Unlock()
	if len(l.Msgs) < 200 {
		l.Msgs = append(l.Msgs, level+" "+fmt.Sprintf(msg, args...))
	}
}
func (l *Logger) InfoV(v int, msg string, args ...interface{}) {}
func (l *Logger) Info(msg string, args ...interface{})         {}
func (l *Logger) Warn(msg string, args ...interface{})         { l.add("WARN", msg, args...) }
func (l *Logger) Error(msg string, args ...interface{})        { l.add("ERROR", msg, args...) }
func (l *Logger) Fatal(msg string, args ...interface{})        { l.add("FATAL", msg, args...) }

// Take returns and clears the messages.
func (l *Logger) Take() []string {
	l.mu.Lock()
	defer l.mu.Unlock()
	m := l.Msgs
	l.Msgs = nil
	return m
}

type metrics struct{}

func (metrics) HAProxyShowInfoResponseTime(time.Duration)            {}
func (metrics) HAProxySetServerResponseTime(time.Duration)           {}
func (metrics) HAProxySetSSLCertResponseTime(time.Duration)          {}
func (metrics) ControllerProcTime(string, time.Duration)             {}
func (metrics) AddIdleFactor(int)                                    {}
func (metrics) IncUpdateNoop()                                       {}
func (metrics) IncUpdateDynamic()                                    {}
func (metrics) IncUpdateFull()                                       {}
func (metrics) UpdateSuccessful(bool)                                {}
func (metrics) SetCertExpireDate(string, string, *time.Time)         {}
func (metrics) ClearCertExpire()                                     {}
func (metrics) IncCertSigningMissing(string, bool)                   {}
func (metrics) IncCertSigningExpiring(string, bool)                  {}
func (metrics) IncCertSigningOutdated(string, bool)                  {}

// Pipeline is the converter side of Services.setup: the real converters over the
// real haproxy model (no files are written, no process is started).
type Pipeline struct {
	Env      *Env
	Log      *Logger
	HAProxy  haproxy.Config
	Opt      *convtypes.ConverterOptions
	Watchers *reconciler.VerifWatchers
}

// NewPipeline wires the converter options the way Services.setup does.
func NewPipeline(env *Env) *Pipeline {
	log := &Logger{}
	inst := haproxy.CreateInstance(log, haproxy.InstanceOptions{
		HAProxyCfgDir:  env.Dir + "/etc",
		HAProxyMapsDir: env.Cfg.DefaultDirMaps,
		BackendShards:  env.Cfg.BackendShards,
		Metrics:        metrics{},
	})
	opt := &convtypes.ConverterOptions{
		Logger:           log,
		Cache:            env.Cache,
		Tracker:          env.Tracker,
		DynamicConfig:    env.Dyn,
		AnnotationPrefix: env.Cfg.AnnPrefix,
		DefaultBackend:   env.Cfg.DefaultService,
		DefaultCrtSecret: env.Cfg.DefaultSSLCertificate,
		FakeCrtFile:      env.FakeCrt,
		FakeCAFile:       env.FakeCA,
		HasGatewayV1:     env.Cfg.HasGatewayV1,
		HasTCPRouteA2:    env.Cfg.HasTCPRouteA2,
	}
	return &Pipeline{Env: env, Log: log, HAProxy: inst.Config(), Opt: opt,
		Watchers: reconciler.VerifNewWatchers(env.Ctx, env.Cfg, env.Cache)}
}

// Reconcile is IngressReconciler.Reconcile + the converter part of
// Services.ReconcileIngress: take the batch, run the converters, commit the model.
// observe runs after the conversion and before the commit.
func (p *Pipeline) Reconcile(changed *convtypes.ChangedObjects, observe func()) {
	timer := utils.NewTimer(func(string, time.Duration) {})
	converters.NewConverter(timer, p.HAProxy, changed, p.Opt).Sync()
	if observe != nil {
		observe()
	}
	p.HAProxy.Commit()
}

// Hostnames lists the hosts of the haproxy model, sorted.
func (p *Pipeline) Hostnames() []string {
	var out []string
	for _, h := range p.HAProxy.Hosts().BuildSortedItems() {
		out = append(out, h.Hostname)
	}
	sort.Strings(out)
	return out
}

// Backends lists the backends of the haproxy model, sorted by id.
func (p *Pipeline) Backends() []*hatypes.Backend {
	return p.HAProxy.Backends().BuildSortedItems()
}
