package c0809

import (
	"encoding/pem"
	"fmt"
	"sort"
	"strings"

	hatypes "github.com/jcmoraisjr/haproxy-ingress/pkg/haproxy/types"
)

// Material holds PEM material generated once per process (certificates are real
// ECDSA self-signed ones, created offline).
type Material struct {
	Crt, Key []byte
	CA       []byte
	CRL      []byte
	DH       []byte
}

var material *Material

// GetMaterial returns the shared PEM material.
func GetMaterial() *Material {
	if material == nil {
		crt, key := SelfSigned("tls.local", false)
		ca, _ := SelfSigned("ca.local", true)
		material = &Material{Crt: crt, Key: key, CA: ca,
			// only the PEM type of these two is checked by the controller
			CRL: pem.EncodeToMemory(&pem.Block{Type: "X509 CRL", Bytes: []byte("not a real crl")}),
			DH:  pem.EncodeToMemory(&pem.Block{Type: "DH PARAMETERS", Bytes: []byte("not real dh parameters")}),
		}
	}
	return material
}

var material2 *Material

// SecretDataV is SecretData with a choice of content: variant 2 holds another
// certificate / CA / password than variant 1 (same kind, same keys).
func SecretDataV(kind, ns, name string, variant int) map[string][]byte {
	if variant != 2 {
		return SecretData(kind, ns, name)
	}
	if material2 == nil {
		crt, key := SelfSigned("tls.local", false)
		ca, _ := SelfSigned("ca.local", true)
		material2 = &Material{Crt: crt, Key: key, CA: ca}
	}
	switch kind {
	case "tls":
		return map[string][]byte{"tls.crt": material2.Crt, "tls.key": material2.Key}
	case "ca", "cacrl":
		return map[string][]byte{"ca.crt": material2.CA}
	case "auth":
		return map[string][]byte{"auth": []byte(fmt.Sprintf("user-%s-%s:{PLAIN}other-password\nuser2-%s-%s:{PLAIN}pw2\n", ns, name, ns, name))}
	}
	return SecretData(kind, ns, name)
}

// SecretData builds the data of a secret of the given kind:
// tls | ca | cacrl | auth | dh | empty.
func SecretData(kind, ns, name string) map[string][]byte {
	m := GetMaterial()
	switch kind {
	case "tls":
		return map[string][]byte{"tls.crt": m.Crt, "tls.key": m.Key}
	case "ca":
		return map[string][]byte{"ca.crt": m.CA}
	case "cacrl":
		return map[string][]byte{"ca.crt": m.CA, "ca.crl": m.CRL}
	case "auth":
		return map[string][]byte{"auth": []byte(fmt.Sprintf("user-%s-%s:{PLAIN}pw-%s-%s\n", ns, name, ns, name))}
	case "dh":
		return map[string][]byte{"dhparam.pem": m.DH}
	}
	return map[string][]byte{"other": []byte("x")}
}

// Canon replaces the scratch directory and the per-process fake certificate hashes
// by fixed tokens, so that two runs in different directories can be compared.
func (p *Pipeline) Canon(s string) string {
	if s == "" {
		return s
	}
	s = strings.ReplaceAll(s, p.Env.Dir, "<dir>")
	if p.Env.FakeCrt.SHA1Hash != "" {
		s = strings.ReplaceAll(s, p.Env.FakeCrt.SHA1Hash, "<fake-crt-hash>")
	}
	if p.Env.FakeCA.SHA1Hash != "" {
		s = strings.ReplaceAll(s, p.Env.FakeCA.SHA1Hash, "<fake-ca-hash>")
	}
	return s
}

// NsView is what the haproxy model holds for one namespace's hosts and backends,
// projected to everything a Secret or Service reference can influence.
type NsView struct {
	Hosts    []string `json:"hosts"`
	Backends []string `json:"backends"`
}

// ViewOf projects the haproxy model to the hosts in hostnames and to the backends of
// namespace ns. Auth backends are resolved to the service they point to and userlists
// to their content: numbering and names of shared objects are not compared.
func (p *Pipeline) ViewOf(ns string, hostnames map[string]bool) NsView {
	return p.view(ns, hostnames, false)
}

// ViewAll is ViewOf for the whole haproxy model: every host, every backend (the ones named
// after objects of other namespaces included), every TCP service, plus the userlists.
func (p *Pipeline) ViewAll() NsView {
	v := p.view("", nil, true)
	for _, u := range p.HAProxy.Userlists().BuildSortedItems() {
		var us []string
		for _, x := range u.Users {
			us = append(us, fmt.Sprintf("%s:%s:%v", x.Name, x.Passwd, x.Encrypted))
		}
		v.Hosts = append(v.Hosts, fmt.Sprintf("userlist %s [%s]", u.Name, strings.Join(us, ",")))
	}
	sort.Strings(v.Hosts)
	return v
}

func (p *Pipeline) view(ns string, hostnames map[string]bool, all bool) NsView {
	var v NsView
	for _, h := range p.HAProxy.Hosts().BuildSortedItems() {
		if !all && !hostnames[h.Hostname] {
			continue
		}
		t := h.TLS
		s := fmt.Sprintf("host %s tls=%s/%s ca=%s/%s crl=%s/%s verify=%v", h.Hostname,
			p.Canon(t.TLSFilename), p.Canon(t.TLSHash), p.Canon(t.CAFilename), p.Canon(t.CAHash), p.Canon(t.CRLFilename), p.Canon(t.CRLHash), t.CAVerify)
		for _, hp := range h.Paths {
			s += fmt.Sprintf(" path %s->%s", hp.Path(), hp.Backend.ID)
			if hp.AuthExt != nil {
				s += " " + p.authExt(hp.AuthExt)
			}
		}
		v.Hosts = append(v.Hosts, s)
	}
	users := map[string]string{}
	for _, u := range p.HAProxy.Userlists().BuildSortedItems() {
		var us []string
		for _, x := range u.Users {
			us = append(us, fmt.Sprintf("%s:%s:%v", x.Name, x.Passwd, x.Encrypted))
		}
		users[u.Name] = strings.Join(us, ",")
	}
	for _, b := range p.Backends() {
		if !all && b.Namespace != ns {
			continue
		}
		sv := b.Server
		var eps []string
		for _, ep := range b.Endpoints {
			eps = append(eps, fmt.Sprintf("%s:%d", ep.IP, ep.Port))
		}
		sort.Strings(eps)
		s := fmt.Sprintf("backend %s tcp=%v secure=%v crt=%s/%s ca=%s/%s crl=%s/%s eps=%v", b.ID, b.ModeTCP, sv.Secure,
			p.Canon(sv.CrtFilename), p.Canon(sv.CrtHash), p.Canon(sv.CAFilename), p.Canon(sv.CAHash), p.Canon(sv.CRLFilename), p.Canon(sv.CRLHash), eps)
		var ps []string
		for _, bp := range b.Paths {
			x := fmt.Sprintf(" path %s", bp.Link.Key())
			if bp.AuthHTTP.UserlistName != "" {
				x += fmt.Sprintf(" basic-auth{users=[%s] realm=%s}", users[bp.AuthHTTP.UserlistName], bp.AuthHTTP.Realm)
			}
			x += " " + p.authExt(&bp.AuthExternal)
			ps = append(ps, x)
		}
		sort.Strings(ps)
		v.Backends = append(v.Backends, s+strings.Join(ps, ""))
	}
	// TCP services that point to a backend of the namespace
	for port, tp := range p.HAProxy.TCPServices().Items() {
		if dh := tp.DefaultHost(); dh != nil && !dh.Backend.IsEmpty() && (all || dh.Backend.Namespace == ns) {
			v.Hosts = append(v.Hosts, fmt.Sprintf("tcp %d->%s", port, dh.Backend.String()))
		}
		for _, h := range tp.Hosts() {
			if !h.Backend.IsEmpty() && (all || h.Backend.Namespace == ns) {
				v.Hosts = append(v.Hosts, fmt.Sprintf("tcp %d host->%s", port, h.Backend.String()))
			}
		}
	}
	sort.Strings(v.Hosts)
	sort.Strings(v.Backends)
	return v
}

func (p *Pipeline) authExt(a *hatypes.AuthExternal) string {
	if a.AuthBackendName == "" && !a.AlwaysDeny {
		return "ext-auth{}"
	}
	target := ""
	for _, bind := range p.HAProxy.Frontend().AuthProxy.BindList {
		if bind.AuthBackendName == a.AuthBackendName {
			target = bind.Backend.String()
		}
	}
	return fmt.Sprintf("ext-auth{deny=%v target=%s path=%s}", a.AlwaysDeny, target, a.AuthPath)
}
