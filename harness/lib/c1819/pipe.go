// Package c1819 is shared by the C18 and C19 harness binaries: a types.Logger
// that only collects messages, and a Pipe that drives the REAL chain
// Ingress/Service objects -> converters.NewConverter(...).Sync() -> haproxy
// instance (real templates from /repo/rootfs) -> haproxy.cfg in a scratch dir.
package c1819

import (
	"context"
	"fmt"
	"os"
	"path/filepath"
	"sort"
	"strings"
	"time"

	api "k8s.io/api/core/v1"
	networking "k8s.io/api/networking/v1"
	metav1 "k8s.io/apimachinery/pkg/apis/meta/v1"
	"k8s.io/apimachinery/pkg/util/intstr"

	"github.com/jcmoraisjr/haproxy-ingress/pkg/converters"
	conv_helper "github.com/jcmoraisjr/haproxy-ingress/pkg/converters/helper_test"
	"github.com/jcmoraisjr/haproxy-ingress/pkg/converters/tracker"
	convtypes "github.com/jcmoraisjr/haproxy-ingress/pkg/converters/types"
	"github.com/jcmoraisjr/haproxy-ingress/pkg/haproxy"
	types_helper "github.com/jcmoraisjr/haproxy-ingress/pkg/types/helper_test"
	"github.com/jcmoraisjr/haproxy-ingress/pkg/utils"
)

// RepoRoot is where the implementation lives (module replace target); the templates are
// read from its rootfs.  VERIF_REPO_ROOT only serves the mutation experiments, which run on
// a private copy of the tree.
var RepoRoot = func() string {
	if v := os.Getenv("VERIF_REPO"); v != "" {
		return v
	}
	if v := os.Getenv("VERIF_REPO_ROOT"); v != "" {
		return v
	}
	return "/repo"
}()

// AnnPrefix is the annotation prefix used by every generated object.
const AnnPrefix = "haproxy-ingress.github.io"

// Logger implements types.Logger; it never fails a test, it only remembers.
type Logger struct{ Msgs []string }

func (l *Logger) add(level, msg string, args ...interface{}) {
	if len(l.Msgs) < 200 {
		l.Msgs = append(l.Msgs, level+" "+fmt.Sprintf(msg, args...))
	}
}

// InfoV ...
func (l *Logger) InfoV(v int, msg string, args ...interface{}) {}

// Info ...
func (l *Logger) Info(msg string, args ...interface{}) {}

// Warn ...
func (l *Logger) Warn(msg string, args ...interface{}) { l.add("WARN", msg, args...) }

// Error ...
func (l *Logger) Error(msg string, args ...interface{}) { l.add("ERROR", msg, args...) }

// Fatal ...
func (l *Logger) Fatal(msg string, args ...interface{}) { l.add("FATAL", msg, args...) }

// Pipe is one controller "process": cache, tracker, converter options, instance.
type Pipe struct {
	Dir      string
	Log      *Logger
	Cache    *conv_helper.CacheMock
	Instance haproxy.Instance
	Options  *convtypes.ConverterOptions
	global   map[string]string
}

// PipeOptions configures a Pipe.
type PipeOptions struct {
	Dir             string            // scratch dir (created, emptied)
	DisableKeywords []string          // --disable-config-keywords, already split
	Global          map[string]string // global ConfigMap data
	Render          bool              // parse the real templates so that Write() works
	IsExternal      bool              // --master-socket style external haproxy (needs external-has-lua)
}

// NewPipe builds a fresh controller state.
func NewPipe(po PipeOptions) (*Pipe, error) {
	p := &Pipe{Dir: po.Dir, Log: &Logger{}}
	trk := tracker.NewTracker()
	p.Cache = conv_helper.NewCacheMock(trk)
	iopt := haproxy.InstanceOptions{
		Metrics:     types_helper.NewMetricsMock(),
		ReloadQueue: reloadStub{},
		IsExternal:  po.IsExternal,
	}
	if po.Render {
		// the implementation derives map file names with strings.Replace(path, ".", ..., 1):
		// a dot anywhere in the directory (as in /verif/.work) corrupts them, so the
		// process works from inside the scratch dir with dot-free relative paths
		_ = os.RemoveAll(po.Dir)
		if err := os.MkdirAll(po.Dir, 0o755); err != nil {
			return nil, err
		}
		if err := os.Chdir(po.Dir); err != nil {
			return nil, err
		}
		for _, d := range []string{"etc/haproxy", "etc/haproxy/errorfiles", "etc/haproxy/lua", "etc/haproxy/maps"} {
			if err := os.MkdirAll(d, 0o755); err != nil {
				return nil, err
			}
		}
		iopt.RootFSPrefix = RepoRoot + "/rootfs"
		iopt.HAProxyCfgDir = "etc/haproxy" // the layout lib/cfgnorm.Load reads
		iopt.HAProxyMapsDir = "etc/haproxy/maps"
	}
	p.Instance = haproxy.CreateInstance(p.Log, iopt)
	if po.Render {
		if err := p.Instance.ParseTemplates(); err != nil {
			return nil, err
		}
	}
	p.Options = &convtypes.ConverterOptions{
		Logger:           p.Log,
		Cache:            p.Cache,
		Tracker:          trk,
		DynamicConfig:    &convtypes.DynamicConfig{},
		AnnotationPrefix: []string{AnnPrefix},
		DefaultBackend:   "system/default",
		DefaultCrtSecret: "system/ingress-default",
		DisableKeywords:  po.DisableKeywords,
		IsExternal:       po.IsExternal,
		FakeCAFile:       convtypes.CrtFile{Filename: "/var/haproxy/ssl/fake-ca.crt", SHA1Hash: "1"},
	}
	global := map[string]string{}
	for k, v := range po.Global {
		global[k] = v
	}
	p.Cache.Changed.GlobalConfigMapDataNew = global
	p.global = global
	p.AddService("system/default", "8080", "172.17.0.99", nil)
	return p, nil
}

// AddService registers a service with one port and its endpoints.
func (p *Pipe) AddService(name, port, endpoints string, ann map[string]string) {
	svc, ep, _ := conv_helper.CreateService(name, port, endpoints)
	if svc == nil {
		panic("cannot create service " + name)
	}
	if ann != nil {
		svc.SetAnnotations(ann)
	}
	p.Cache.SvcList = append(p.Cache.SvcList, svc)
	p.Cache.EpList[name] = ep
}

// AddServicePorts registers a service "ns/name" exposing several numeric ports (named
// p<port>, targetPort = port) with one endpoint address.
func (p *Pipe) AddServicePorts(name string, ports []int, ip string) {
	f := strings.SplitN(name, "/", 2)
	svc := &api.Service{ObjectMeta: metav1.ObjectMeta{Namespace: f[0], Name: f[1]}}
	ep := &api.Endpoints{ObjectMeta: metav1.ObjectMeta{Namespace: f[0], Name: f[1]}}
	sub := api.EndpointSubset{Addresses: []api.EndpointAddress{{IP: ip,
		TargetRef: &api.ObjectReference{Kind: "Pod", Name: f[1] + "-xxxxx", Namespace: f[0]}}}}
	for _, pn := range ports {
		n := fmt.Sprintf("p%d", pn)
		svc.Spec.Ports = append(svc.Spec.Ports, api.ServicePort{Name: n, Port: int32(pn), TargetPort: intstr.FromInt(pn)})
		sub.Ports = append(sub.Ports, api.EndpointPort{Name: n, Port: int32(pn), Protocol: api.ProtocolTCP})
	}
	ep.Subsets = []api.EndpointSubset{sub}
	p.Cache.SvcList = append(p.Cache.SvcList, svc)
	p.Cache.EpList[name] = ep
}

// Rule is one host+path -> service:port of an Ingress.
type Rule struct {
	Host, Path, Service string
	Port                int
}

// AddIngress registers an Ingress (class taken from the annotation-less default:
// the mock cache accepts every Ingress it lists).
func (p *Pipe) AddIngress(namespace, name string, ann map[string]string, rules []Rule) {
	p.AddIngressPT(namespace, name, ann, rules, "Prefix")
}

// AddIngressPT is AddIngress with the pathType of every path (Prefix, Exact or
// ImplementationSpecific).
func (p *Pipe) AddIngressPT(namespace, name string, ann map[string]string, rules []Rule, pathType string) {
	p.Cache.IngList = append(p.Cache.IngList, buildIngress(namespace, name, ann, rules, pathType))
}

// AddIngressLater registers an Ingress as an `added` notification: the next Sync is a
// partial one that parses it on top of the current state.
func (p *Pipe) AddIngressLater(namespace, name string, ann map[string]string, rules []Rule, pathType string) {
	p.Cache.Changed.IngressesAdd = append(p.Cache.Changed.IngressesAdd, buildIngress(namespace, name, ann, rules, pathType))
}

func buildIngress(namespace, name string, ann map[string]string, rules []Rule, pathType string) *networking.Ingress {
	ing := &networking.Ingress{
		ObjectMeta: metav1.ObjectMeta{Namespace: namespace, Name: name, Annotations: ann},
	}
	pt := networking.PathType(pathType)
	byHost := map[string]int{}
	for _, r := range rules {
		idx, ok := byHost[r.Host]
		if !ok {
			idx = len(ing.Spec.Rules)
			byHost[r.Host] = idx
			ing.Spec.Rules = append(ing.Spec.Rules, networking.IngressRule{
				Host:             r.Host,
				IngressRuleValue: networking.IngressRuleValue{HTTP: &networking.HTTPIngressRuleValue{}},
			})
		}
		h := ing.Spec.Rules[idx].HTTP
		h.Paths = append(h.Paths, networking.HTTPIngressPath{
			Path: r.Path, PathType: &pt,
			Backend: networking.IngressBackend{Service: &networking.IngressServiceBackend{
				Name: r.Service, Port: networking.ServiceBackendPort{Number: int32(r.Port)}}},
		})
	}
	return ing
}

// Sync runs the real converters (full sync on the first call).
func (p *Pipe) Sync() {
	// the mock cache forgets the current global ConfigMap after its second swap (it only
	// copies `New` into `Cur`); the real cache keeps it: restore it for the later syncs
	if ch := p.Cache.Changed; ch.GlobalConfigMapDataNew == nil && ch.GlobalConfigMapDataCur == nil {
		ch.GlobalConfigMapDataCur = p.global
	}
	timer := utils.NewTimer(nil)
	converters.NewConverter(timer, p.Instance.Config(), nil, p.Options).Sync()
}

// Write runs the real instance update (maps, templates) and returns haproxy.cfg.
func (p *Pipe) Write() (string, error) {
	timer := utils.NewTimer(nil)
	p.Instance.AcmeUpdate()
	if err := p.Instance.HAProxyUpdate(timer); err != nil {
		return "", err
	}
	b, err := os.ReadFile(filepath.Join(p.Dir, "etc", "haproxy", "haproxy.cfg"))
	return string(b), err
}

type reloadStub struct{}

func (reloadStub) Add(item interface{})                       {}
func (reloadStub) AddAfter(item interface{}, _ time.Duration) {}
func (reloadStub) Remove(item interface{})                    {}
func (reloadStub) Start(context.Context) error                { return nil }

// Section is one proxy section of a rendered haproxy.cfg.
type Section struct {
	Kind, Name string
	Lines      []string // raw lines below the header (blank lines dropped)
}

// Sections splits a rendered configuration into its sections.
func Sections(cfg string) []*Section {
	var out []*Section
	var cur *Section
	for _, ln := range strings.Split(cfg, "\n") {
		t := strings.TrimSpace(ln)
		if t == "" {
			continue
		}
		if strings.HasPrefix(t, "#") {
			// a comment never starts a section; kept because a snippet line may be one
			if cur != nil {
				cur.Lines = append(cur.Lines, ln)
			}
			continue
		}
		if ln[0] != ' ' && ln[0] != '\t' {
			f := strings.Fields(ln)
			cur = &Section{Kind: f[0]}
			if len(f) > 1 {
				cur.Name = f[1]
			}
			out = append(out, cur)
			continue
		}
		if cur != nil {
			cur.Lines = append(cur.Lines, ln)
		}
	}
	return out
}

// SortedCopy returns a sorted copy.
func SortedCopy(in []string) []string {
	out := append([]string{}, in...)
	sort.Strings(out)
	return out
}

// CorpusFiles lists the stored inputs of past failures (/verif/corpus/<name>/*.json,
// replay format), sorted; they run before anything generated.
func CorpusFiles(name string) []string {
	exe, err := os.Executable()
	dirs := []string{filepath.Join("..", "corpus", name)}
	if err == nil {
		// .work/bin/<harness> -> /verif/corpus/<name>
		dirs = append(dirs, filepath.Join(filepath.Dir(exe), "..", "..", "corpus", name))
	}
	for _, d := range dirs {
		files, _ := filepath.Glob(filepath.Join(d, "*.json"))
		if len(files) > 0 {
			sort.Strings(files)
			for i := range files {
				if abs, err := filepath.Abs(files[i]); err == nil {
					files[i] = abs
				}
			}
			return files
		}
	}
	return nil
}
