package c1819

import (
	"regexp"
	"strings"
)

// Cond is one `{ ... }` / `!{ ... }` / named-acl term of an `if` clause.
type Cond struct {
	Neg    bool
	Kind   string // pathid | base | authok | pathbeg | meth | varfound | unknown
	Method string // str beg dir reg bool ...
	ICase  bool
	Pats   []string
	Raw    string
}

// AuthRule is one http-request rule that takes part in external authentication.
type AuthRule struct {
	Act   string // deny | intercept | guard-deny | guard-redirect | service | setvar | setheader
	Name  string // auth backend name of an intercept
	Args  []string
	Conds []Cond
	Raw   string
}

// tokens splits a configuration line on blanks, keeping '...' together (quotes removed).
func tokens(line string) []string {
	var out []string
	var cur strings.Builder
	in, has := false, false
	for i := 0; i < len(line); i++ {
		c := line[i]
		switch {
		case c == '\'':
			in = !in
			has = true
		case !in && (c == ' ' || c == '\t'):
			if has || cur.Len() > 0 {
				out = append(out, cur.String())
				cur.Reset()
				has = false
			}
		default:
			cur.WriteByte(c)
		}
	}
	if has || cur.Len() > 0 {
		out = append(out, cur.String())
	}
	return out
}

func parseConds(toks []string) []Cond {
	var conds []Cond
	for i := 0; i < len(toks); i++ {
		t := toks[i]
		if t == "{" || t == "!{" {
			j := i + 1
			for j < len(toks) && toks[j] != "}" {
				j++
			}
			c := parseACL(toks[i+1 : j])
			c.Neg = t == "!{"
			c.Raw = strings.Join(toks[i:min(j+1, len(toks))], " ")
			conds = append(conds, c)
			i = j
			continue
		}
		neg := strings.HasPrefix(t, "!")
		if ms, ok := methACL[strings.TrimPrefix(t, "!")]; ok {
			// predefined ACLs of HAProxy on the request method
			conds = append(conds, Cond{Neg: neg, Kind: "meth", Method: "str", Pats: ms, Raw: t})
			continue
		}
		conds = append(conds, Cond{Neg: neg, Kind: "unknown", Raw: t})
	}
	return conds
}

var methACL = map[string][]string{
	"METH_CONNECT": {"CONNECT"}, "METH_DELETE": {"DELETE"}, "METH_GET": {"GET", "HEAD"}, "METH_HEAD": {"HEAD"},
	"METH_OPTIONS": {"OPTIONS"}, "METH_POST": {"POST"}, "METH_PUT": {"PUT"}, "METH_TRACE": {"TRACE"},
}

func parseACL(t []string) Cond {
	c := Cond{Kind: "unknown", Method: ""}
	if len(t) == 0 {
		return c
	}
	switch t[0] {
	case "var(txn.pathID)":
		c.Kind = "pathid"
	case "var(req.base)":
		c.Kind = "base"
	case "var(txn.auth_response_successful)":
		c.Kind = "authok"
	case "path_beg":
		c.Kind, c.Method = "pathbeg", "beg"
	case "method":
		c.Kind, c.Method = "meth", "str"
	default:
		if strings.HasPrefix(t[0], "var(") && len(t) == 3 && t[1] == "-m" && t[2] == "found" {
			c.Kind, c.Method = "varfound", "found"
		}
		return c
	}
	i := 1
	for i < len(t) {
		switch {
		case t[i] == "-i":
			c.ICase = true
			i++
		case t[i] == "-m" && i+1 < len(t):
			c.Method = t[i+1]
			i += 2
		case t[i] == "--":
			i++
			c.Pats = append(c.Pats, t[i:]...)
			return c
		case strings.HasPrefix(t[i], "-") && len(c.Pats) == 0 && (t[i] == "-n" || t[i] == "-u"):
			i++
		default:
			c.Pats = append(c.Pats, t[i:]...)
			return c
		}
	}
	return c
}

// ParseAuthRules extracts the authentication rules of a section, in order.
func ParseAuthRules(lines []string) []AuthRule {
	var out []AuthRule
	for _, ln := range lines {
		t := tokens(ln)
		if len(t) < 2 || t[0] != "http-request" {
			continue
		}
		ifAt := len(t)
		for i, x := range t {
			if x == "if" || x == "unless" {
				ifAt = i
				break
			}
		}
		var conds []Cond
		if ifAt < len(t) {
			if t[ifAt] == "unless" {
				continue // never emitted by the template for these rules
			}
			conds = parseConds(t[ifAt+1:])
		}
		guard := false
		for _, c := range conds {
			if c.Kind == "authok" && c.Neg {
				guard = true
			}
		}
		r := AuthRule{Conds: conds, Raw: strings.TrimSpace(ln)}
		switch {
		case t[1] == "deny" && guard:
			r.Act = "guard-deny"
		case t[1] == "deny":
			r.Act = "deny"
		case t[1] == "redirect" && guard:
			r.Act = "guard-redirect"
		case strings.HasPrefix(t[1], "set-var("):
			r.Act, r.Args = "setvar", t[1:ifAt]
		case t[1] == "set-header":
			r.Act, r.Args = "setheader", t[1:ifAt]
		case t[1] == "use-service":
			// answered by a service of the proxy (cors preflight ...): never reaches the servers
			r.Act, r.Args = "service", t[2:ifAt]
		case t[1] == "lua.auth-intercept" && ifAt >= 3:
			r.Act, r.Name, r.Args = "intercept", t[2], t[3:ifAt]
		default:
			continue
		}
		out = append(out, r)
	}
	return out
}

// Request is a probe.
type Request struct {
	Base   string // lower(host) + "#" + path
	Path   string
	PathID string // txn.pathID once the backend was selected
	Method string // GET when empty
}

func matchWord(s, pat string, delims string) bool {
	isDelim := func(c byte) bool { return strings.IndexByte(delims, c) >= 0 }
	for len(pat) > 0 && isDelim(pat[0]) {
		pat = pat[1:]
	}
	for len(pat) > 0 && isDelim(pat[len(pat)-1]) {
		pat = pat[:len(pat)-1]
	}
	if pat == "" {
		return true
	}
	for i := 0; i+len(pat) <= len(s); i++ {
		if i > 0 && !isDelim(s[i-1]) {
			continue
		}
		if s[i:i+len(pat)] == pat && (i+len(pat) == len(s) || isDelim(s[i+len(pat)])) {
			return true
		}
	}
	return false
}

func matchOne(method string, icase bool, s, pat string) (bool, bool) {
	if icase {
		s, pat = strings.ToLower(s), strings.ToLower(pat)
	}
	switch method {
	case "str", "":
		return s == pat, true
	case "beg":
		return strings.HasPrefix(s, pat), true
	case "end":
		return strings.HasSuffix(s, pat), true
	case "sub":
		return strings.Contains(s, pat), true
	case "dir":
		return matchWord(s, pat, "/?"), true
	case "dom":
		return matchWord(s, pat, "/?.:"), true
	case "reg":
		re, err := regexp.Compile(pat)
		if err != nil {
			return false, false
		}
		return re.MatchString(s), true
	}
	return false, false
}

// eval returns (value, known).  authOK is the current txn.auth_response_successful.
func (c Cond) eval(q Request, authOK bool) (bool, bool) {
	var v, known bool
	switch c.Kind {
	case "authok":
		v, known = authOK, true
	case "pathid", "base", "pathbeg", "meth":
		s := q.PathID
		if c.Kind == "base" {
			s = q.Base
		} else if c.Kind == "pathbeg" {
			s = q.Path
		} else if c.Kind == "meth" {
			s = q.Method
			if s == "" {
				s = "GET"
			}
		}
		known = true
		for _, p := range c.Pats {
			m, k := matchOne(c.Method, c.ICase, s, p)
			if !k {
				known = false
			}
			if m {
				v = true
			}
		}
	default:
		return false, false
	}
	if c.Neg {
		v = !v
	}
	return v, known
}

// Verdict of RunAuth.
type Verdict struct {
	Served   bool
	Proxy    bool     // stopped by a use-service: answered by the proxy itself
	By       string   // raw text of the rule that stopped the request
	Checked  []string // names of the intercepts that ran, in order
	Unknowns int      // conditions that could not be evaluated (taken as true)
}

// RunAuth walks the rules as HAProxy would for a client the authentication services
// answer according to ok(name).  A condition the evaluator does not know is taken
// as true (all rules here only ever restrict).
func RunAuth(rules []AuthRule, q Request, ok func(name string) bool) Verdict {
	var v Verdict
	authOK := false
	for _, r := range rules {
		applies := true
		for _, c := range r.Conds {
			val, known := c.eval(q, authOK)
			if !known {
				v.Unknowns++
				continue
			}
			if !val {
				applies = false
				break
			}
		}
		if !applies {
			continue
		}
		switch r.Act {
		case "deny", "guard-deny", "guard-redirect", "service":
			v.By = r.Raw
			v.Proxy = r.Act == "service"
			return v
		case "intercept":
			authOK = ok(r.Name)
			v.Checked = append(v.Checked, r.Name)
		}
	}
	v.Served = true
	return v
}
