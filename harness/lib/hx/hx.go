// Package hx holds what every per-property harness binary shares: flags, the
// single seeded PRNG, the Coq term printer, the cases-file writer and the
// result.json writer read by bin/verif.
package hx

import (
	"encoding/json"
	"flag"
	"fmt"
	"math/rand"
	"os"
	"path/filepath"
	"sort"
	"strings"
)

// Opts are the command line options common to all harness binaries.
type Opts struct {
	Seed   int64
	Tier   string
	N      int
	Out    string
	Replay string
	Search bool
}

// Parse reads the common flags.
func Parse() *Opts {
	o := &Opts{}
	flag.Int64Var(&o.Seed, "seed", 1, "seed of the single PRNG")
	flag.StringVar(&o.Tier, "tier", "quick", "quick|thorough")
	flag.IntVar(&o.N, "n", 0, "number of generated cases (0 = tier default)")
	flag.StringVar(&o.Out, "out", "", "output directory")
	flag.StringVar(&o.Replay, "replay", "", "replay file: run only the input stored in it")
	flag.BoolVar(&o.Search, "search", false, "search mode: oracle only, wider exploration")
	flag.Parse()
	if o.Out == "" {
		fmt.Fprintln(os.Stderr, "missing --out")
		os.Exit(2)
	}
	if err := os.MkdirAll(o.Out, 0o755); err != nil {
		panic(err)
	}
	return o
}

// Rng returns the single PRNG of a run.
func (o *Opts) Rng() *rand.Rand { return rand.New(rand.NewSource(o.Seed)) }

// Thorough tells whether the thorough tier was asked for.
func (o *Opts) Thorough() bool { return o.Tier == "thorough" }

// Count picks the case count for the tier unless -n overrides it.
func (o *Opts) Count(quick, thorough int) int {
	if o.N > 0 {
		return o.N
	}
	if o.Thorough() {
		return thorough
	}
	return quick
}

// Failure is a violation of the property observed directly on the
// implementation (no model involved).
type Failure struct {
	// Key classifies the failure (call site / cause); it is what
	// known_findings.json is matched against.
	Key   string      `json:"key"`
	What  string      `json:"what"`
	Input interface{} `json:"input"`
	// Observed / Expected are free-form.
	Observed interface{} `json:"observed,omitempty"`
	Expected interface{} `json:"expected,omitempty"`
}

// Result is what a harness binary reports back to bin/verif.
type Result struct {
	Property           string                 `json:"property"`
	Evaluations        int                    `json:"evaluations"`
	DistinctNontrivial int                    `json:"distinct_nontrivial"`
	Rule               string                 `json:"rule"`
	Samples            []interface{}          `json:"samples"`
	Distribution       map[string]int         `json:"distribution"`
	OracleChecks       int                    `json:"oracle_checks"`
	OracleFailures     []Failure              `json:"oracle_failures"`
	CaseFiles          []string               `json:"case_files"`
	CaseInputs         map[string]interface{} `json:"case_inputs"`
	Extra              map[string]interface{} `json:"extra,omitempty"`
	distinct           map[string]bool
}

// NewResult creates an empty result.
func NewResult(prop, rule string) *Result {
	return &Result{Property: prop, Rule: rule, Distribution: map[string]int{},
		CaseInputs: map[string]interface{}{}, Extra: map[string]interface{}{}, distinct: map[string]bool{}}
}

// Count adds one to a distribution bucket.
func (r *Result) Count(bucket string) { r.Distribution[bucket]++ }

// Seen records one evaluated case; canon is its canonical text, nontrivial
// says whether it counts as non-trivial by the rule.
func (r *Result) Seen(canon string, nontrivial bool) {
	r.Evaluations++
	if nontrivial && !r.distinct[canon] {
		r.distinct[canon] = true
		r.DistinctNontrivial++
	}
}

// Sample keeps up to max samples.
func (r *Result) Sample(max int, s interface{}) {
	if len(r.Samples) < max {
		r.Samples = append(r.Samples, s)
	}
}

// Fail records an oracle failure (at most 50 are kept in full).
func (r *Result) Fail(f Failure) {
	if len(r.OracleFailures) < 50 {
		r.OracleFailures = append(r.OracleFailures, f)
	}
}

// Write stores result.json in the output directory.
func (r *Result) Write(o *Opts) {
	if r.OracleFailures == nil {
		r.OracleFailures = []Failure{}
	}
	if r.Samples == nil {
		r.Samples = []interface{}{}
	}
	if r.CaseFiles == nil {
		r.CaseFiles = []string{}
	}
	b, err := json.MarshalIndent(r, "", " ")
	if err != nil {
		panic(err)
	}
	if err := os.WriteFile(filepath.Join(o.Out, "result.json"), b, 0o644); err != nil {
		panic(err)
	}
}

// CaseWriter shards Coq case terms into cases_NNN.v files.
type CaseWriter struct {
	o       *Opts
	r       *Result
	imports string // e.g. "From HI Require Import Corr.Corr_C16."
	listTy  string // Coq type of one case
	shard   int
	per     int
	cur     []string
	next    int
}

// NewCaseWriter creates a writer; per is the number of cases per shard.
func NewCaseWriter(o *Opts, r *Result, imports, caseType string, per int) *CaseWriter {
	return &CaseWriter{o: o, r: r, imports: imports, listTy: caseType, per: per}
}

// Add appends one case; term is a Coq term of the case type which must carry
// the id returned here (a positive N literal) wherever the Corr file expects it.
// input is kept in result.json so bin/verif can map a mismatch id back.
func (w *CaseWriter) Add(mk func(id int) string, input interface{}) int {
	id := w.next
	w.next++
	w.cur = append(w.cur, mk(id))
	w.r.CaseInputs[fmt.Sprint(id)] = input
	if len(w.cur) >= w.per {
		w.Flush()
	}
	return id
}

// Flush writes the current shard.
func (w *CaseWriter) Flush() {
	if len(w.cur) == 0 {
		return
	}
	name := fmt.Sprintf("cases_%03d.v", w.shard)
	w.shard++
	var sb strings.Builder
	sb.WriteString("(* generated by the harness: inputs and what the implementation did *)\n")
	sb.WriteString(w.imports + "\n")
	sb.WriteString("Definition cases : list (" + w.listTy + ") := [\n")
	sb.WriteString(strings.Join(w.cur, ";\n"))
	sb.WriteString("\n].\n")
	sb.WriteString("Definition M := Eval vm_compute in mismatches cases.\nPrint M.\n")
	if err := os.WriteFile(filepath.Join(w.o.Out, name), []byte(sb.String()), 0o644); err != nil {
		panic(err)
	}
	w.r.CaseFiles = append(w.r.CaseFiles, name)
	w.cur = nil
}

// ---- Coq term printing ----

// Z prints an integer as a Z literal.
func Z(i int64) string { return fmt.Sprintf("(%d)%%Z", i) }

// N prints a natural as an N literal.
func N(i int) string { return fmt.Sprintf("%d%%N", i) }

// Nat prints a small natural as a nat literal (keep below a few thousand).
func Nat(i int) string { return fmt.Sprintf("%d%%nat", i) }

// Bool prints a bool.
func Bool(b bool) string {
	if b {
		return "true"
	}
	return "false"
}

// Str prints a Coq string literal (bytes outside printable ASCII are written
// with String/Ascii constructors through the helper `sb`).
func Str(s string) string {
	plain := true
	for i := 0; i < len(s); i++ {
		c := s[i]
		if c < 32 || c > 126 {
			plain = false
			break
		}
	}
	if plain {
		return "\"" + strings.ReplaceAll(s, "\"", "\"\"") + "\"%string"
	}
	// list of byte codes, decoded in Coq by Lib.Strs.of_codes
	var parts []string
	for i := 0; i < len(s); i++ {
		parts = append(parts, fmt.Sprintf("%d", s[i]))
	}
	return "(of_codes [" + strings.Join(parts, ";") + "]%N)"
}

// List prints a Coq list.
func List(items []string) string { return "[" + strings.Join(items, "; ") + "]" }

// Opt prints an option.
func Opt(present bool, v string) string {
	if present {
		return "(Some " + v + ")"
	}
	return "None"
}

// Tuple prints a tuple.
func Tuple(items ...string) string { return "(" + strings.Join(items, ", ") + ")" }

// SortedKeys returns the sorted keys of a string-keyed map.
func SortedKeys[V any](m map[string]V) []string {
	ks := make([]string, 0, len(m))
	for k := range m {
		ks = append(ks, k)
	}
	sort.Strings(ks)
	return ks
}

// ReadReplay loads the "input" member of a replay file into v.
func ReadReplay(path string, v interface{}) {
	b, err := os.ReadFile(path)
	if err != nil {
		panic(err)
	}
	var doc struct {
		Input json.RawMessage `json:"input"`
	}
	if err := json.Unmarshal(b, &doc); err != nil {
		panic(err)
	}
	if err := json.Unmarshal(doc.Input, v); err != nil {
		panic(err)
	}
}
