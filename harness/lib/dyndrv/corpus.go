package dyndrv

import "fmt"

func seqBack(minfree, block int, cookie string, preserve bool, ips ...string) []BackSpec {
	b := BackSpec{NS: "d", Name: "app", Port: "8080", Dyn: true, MinFree: minfree, Block: block, InitW: 1, Cookie: cookie, Preserve: preserve}
	for _, ip := range ips {
		b.Eps = append(b.Eps, EpSpec{IP: ip, Port: 80, Weight: 1})
	}
	return []BackSpec{b}
}

// CorpusC02 holds the minimal inputs of past failures; they run first forever.
func CorpusC02() []*Input {
	in := []*Input{
		// preserved cookie: scale 2 -> 1 -> 2 left `cookie srv002` in the file of a server running with cookie srv003
		{Steps: []Step{{Backs: seqBack(1, 1, "SRV", true, "10.0.0.1", "10.0.0.2")}, {Backs: seqBack(1, 1, "SRV", true, "10.0.0.1")},
			{Backs: seqBack(1, 1, "SRV", true, "10.0.0.1", "10.0.0.9")}}},
		// two endpoints with one target (Gateway API: two backendRefs reaching the same pod), then a change: index out of range
		{Steps: []Step{{Backs: seqBack(0, 1, "", false, "10.0.0.1", "10.0.0.1")}, {Backs: seqBack(0, 1, "", false, "10.0.0.1", "10.0.0.2")}}},
		// the same with free slots: one server name written twice, running HAProxy keeps the other one
		{Steps: []Step{{Backs: seqBack(6, 1, "", false, "10.0.0.1", "10.0.0.1", "10.0.0.2")}, {Backs: seqBack(6, 1, "", false, "10.0.0.1", "10.0.0.1", "10.0.0.3")}}},
	}
	in = append(in, corpusWeights()...)
	in = append(in, corpusStaticReorder()...)
	in = append(in, corpusShards()...)
	in = append(in, corpusGenerations()...)
	in = append(in, corpusLinked()...)
	return append(in, corpusCerts()...)
}

func weighted(ws ...int) []BackSpec {
	b := BackSpec{NS: "d", Name: "app", Port: "8080", Dyn: true, MinFree: 2, Block: 1, InitW: 1}
	for i, w := range ws {
		b.Eps = append(b.Eps, EpSpec{IP: fmt.Sprintf("10.0.0.%d", i+1), Port: 80, Weight: w})
	}
	return []BackSpec{b}
}

// corpusWeights: enabled endpoints reaching weight 0 through a dynamic update (drain, blue/green
// 50/50 -> 100/0) and leaving it again: the written server line must load as what is running.
func corpusWeights() []*Input {
	return []*Input{
		{Steps: []Step{{Backs: weighted(1, 1)}, {Backs: weighted(1, 0)}, {Backs: weighted(1, 0, 1)}, {Backs: weighted(1, 1, 1)}}},
		{Steps: []Step{{Backs: weighted(128, 128)}, {Backs: weighted(256, 0)}, {Backs: weighted(0, 256)}, {Backs: weighted(0, 256, 0)}}},
	}
}

// corpusGenerations: a dynamic update, then an update that reloads (a new backend), then dynamic
// updates again (endpoint drained, certificate renewed, scale down): the commands must reach the
// process that listens after the reload, whether the former one lingers (soft stop) or exits.
func corpusGenerations() []*Input {
	var out []*Input
	for _, exits := range []bool{false, true} {
		h := tlsHost("g.local", "gen", "gen-v1")
		h2 := tlsHost("g.local", "gen", "gen-v2")
		nb := BackSpec{NS: "d", Name: "other", Port: "8080", Dyn: true, MinFree: 1, Block: 1, InitW: 1, Eps: []EpSpec{{IP: "10.0.5.1", Port: 80, Weight: 1}}}
		out = append(out, &Input{OldExits: exits, Steps: []Step{
			{Backs: weighted(1, 1), Hosts: []HostSpec{h}},
			{Backs: weighted(1, 1, 1)},
			{Backs: []BackSpec{nb}},
			{Backs: weighted(1, 0, 1)},
			{Hosts: []HostSpec{h2}},
			{Backs: weighted(1, 1)},
		}})
	}
	return out
}

// corpusStaticReorder (seeded/C02-nondynamic-reorder-no-reload): a backend with dynamic scaling
// off is re-notified with its two endpoints in the other order and nothing else (the sequence
// names follow the order: this must reload); then another backend is updated dynamically (the
// files are rewritten); then the first one is switched to dynamic scaling with one endpoint
// drained.
func corpusStaticReorder() []*Input {
	st := func(dyn bool, ws []int, ips ...string) BackSpec {
		b := BackSpec{NS: "d", Name: "static", Port: "8080", Dyn: dyn, MinFree: 0, Block: 1, InitW: 1}
		for i, ip := range ips {
			b.Eps = append(b.Eps, EpSpec{IP: ip, Port: 80, Weight: ws[i]})
		}
		return b
	}
	other := func(ips ...string) BackSpec { return seqBack(2, 1, "", false, ips...)[0] }
	var out []*Input
	for _, naming := range []int{0, 1} {
		a, b := "10.0.3.1", "10.0.3.2"
		mk := func(x BackSpec) BackSpec { x.Naming = naming; return x }
		out = append(out, &Input{Steps: []Step{
			{Backs: []BackSpec{mk(st(false, []int{1, 1}, a, b)), other("10.0.0.1")}},
			{Backs: []BackSpec{mk(st(false, []int{1, 1}, b, a))}},
			{Backs: []BackSpec{other("10.0.0.1", "10.0.0.2")}},
			{Backs: []BackSpec{mk(st(true, []int{1, 0}, b, a))}},
		}})
	}
	return out
}

func tlsHost(name, crt, content string) HostSpec {
	return HostSpec{Name: name, Crt: crt, Content: content}
}

// corpusCerts: certificates renewed over the admin socket, every file must get its commands.
func corpusCerts() []*Input {
	b := seqBack(1, 1, "", false, "10.0.0.1")
	return []*Input{
		// one wildcard certificate replicated in two secrets (two files, byte-identical content,
		// so one TLSHash), renewed in both in one update
		{Steps: []Step{{Backs: b, Hosts: []HostSpec{tlsHost("a.ns1.local", "twin1", "wild-v1"), tlsHost("a.ns2.local", "twin2", "wild-v1")}},
			{Hosts: []HostSpec{tlsHost("a.ns1.local", "twin1", "wild-v2"), tlsHost("a.ns2.local", "twin2", "wild-v2")}}}},
		// the same, only one of the two renewed, then the other one catches up
		{Steps: []Step{{Backs: b, Hosts: []HostSpec{tlsHost("a.ns1.local", "twin1", "wild-v1"), tlsHost("a.ns2.local", "twin2", "wild-v1")}},
			{Hosts: []HostSpec{tlsHost("a.ns1.local", "twin1", "wild-v2")}},
			{Hosts: []HostSpec{tlsHost("a.ns2.local", "twin2", "wild-v2")}}}},
		// both renewed to different contents; three hosts on one file plus a twin of its content
		{Steps: []Step{{Backs: b, Hosts: []HostSpec{tlsHost("h1.local", "shared", "s-v1"), tlsHost("h2.local", "shared", "s-v1"), tlsHost("h3.local", "shared", "s-v1"), tlsHost("h4.local", "twin4", "s-v1")}},
			{Hosts: []HostSpec{tlsHost("h1.local", "shared", "s-v2"), tlsHost("h2.local", "shared", "s-v2"), tlsHost("h3.local", "shared", "s-v2"), tlsHost("h4.local", "twin4", "s-v2")}},
			{Hosts: []HostSpec{tlsHost("h1.local", "shared", "s-v3"), tlsHost("h2.local", "shared", "s-v3"), tlsHost("h3.local", "shared", "s-v3"), tlsHost("h4.local", "twin4", "t-v3")}}}},
	}
}

// linked builds the history of seeded/C11-shrink-before-syncconfig: one host routing to one backend
// (min-free 2, increment 4), loaded, re-notified twice without change (remove + re-acquire of host
// and backend), then a third endpoint that fits in the empty slots.
func linked(h HostSpec, strict bool) *Input {
	mk := func(ips ...string) []BackSpec {
		b := seqBack(2, 4, "", false, ips...)
		b[0].ModeTCP = h.Passthrough
		return b
	}
	h.Backend = "d_app_8080"
	return &Input{StrictHost: strict, Steps: []Step{
		{Backs: mk("10.0.0.1", "10.0.0.2"), Hosts: []HostSpec{h}, DefBack: "d_app_8080"},
		{Backs: mk("10.0.0.1", "10.0.0.2"), Hosts: []HostSpec{h}},
		{Hosts: []HostSpec{h}},
		{Backs: mk("10.0.0.1", "10.0.0.2", "10.0.0.3")},
		{Backs: mk("10.0.0.1", "10.0.0.3")},
	}}
}

// corpusShards: backend shards (seeded/C11-shrink-stale-shard-copy): backend app is loaded, then
// re-notified without change while nothing else of its shard changes, then another backend of
// the same shard is added (reload: the shard file is rewritten), then app gets an endpoint that
// fits: it must still be in the slots the reload left, and those must honour min-free / increment.
func corpusShards() []*Input {
	var out []*Input
	for _, shards := range []int{1, 3, 8} {
		mk := func(ips ...string) []BackSpec { return seqBack(2, 4, "", false, ips...) }
		var others []BackSpec
		for i := 1; i <= 4; i++ {
			others = append(others, BackSpec{NS: "d", Name: fmt.Sprintf("b%d", i), Port: "8080", Dyn: true, MinFree: 1, Block: 2, InitW: 1,
				Eps: []EpSpec{{IP: fmt.Sprintf("10.0.7.%d", i), Port: 80, Weight: 1}}})
		}
		out = append(out, &Input{Shards: shards, Steps: []Step{
			{Backs: mk("10.0.0.1", "10.0.0.2")},
			{Backs: mk("10.0.0.1", "10.0.0.2")},
			{Backs: others},
			{Backs: mk("10.0.0.1", "10.0.0.2", "10.0.0.3")},
			{Backs: mk("10.0.0.1", "10.0.0.2", "10.0.0.3")},
			{Backs: others[:2]},
			{Backs: mk("10.0.0.1", "10.0.0.3")},
		}})
	}
	return out
}

// linkedTwo: like linked, two hosts on the backend.
func linkedTwo(h1, h2 HostSpec) *Input {
	in := linked(h1, false)
	h2.Backend = "d_app_8080"
	in.Steps[0].Hosts = append(in.Steps[0].Hosts, h2)
	return in
}

func corpusLinked() []*Input {
	return []*Input{
		// paths of one backend with different per path configurations (path ACLs, id maps): two hosts,
		// and one host with two paths
		linkedTwo(HostSpec{Name: "a.local", Crt: "a", Content: "a-v1", PathCfg: "sslredir"}, HostSpec{Name: "b.local"}),
		linkedTwo(HostSpec{Name: "c.local", PathCfg: "hsts", Path2Cfg: "body"}, HostSpec{Name: "d.local", PathCfg: "allow"}),
		linked(HostSpec{Name: "secure.local", Crt: "sec", Content: "sec-v1", AuthTLS: "ca-v1"}, false),
		linked(HostSpec{Name: "plain.local"}, false),
		linked(HostSpec{Name: "pass.local", Passthrough: true}, false),
		linked(HostSpec{Name: "app.local", Path: "/app", Crt: "app", Content: "app-v1"}, true),
		linked(HostSpec{Name: "both.local", Path: "/app", AuthTLS: "ca-v1"}, true),
	}
}

// CorpusC11 holds fixed histories for C11.
func CorpusC11() []*Input {
	return append(append(corpusShards(), corpusLinked()...), []*Input{
		{Steps: []Step{{Backs: seqBack(2, 4, "", false, "10.0.0.1", "10.0.0.2")}, {Backs: seqBack(2, 4, "", false, "10.0.0.1", "10.0.0.2")},
			{Backs: seqBack(2, 4, "", false, "10.0.0.1", "10.0.0.3", "10.0.0.4")}, {Backs: seqBack(2, 4, "", false, "10.0.0.4")}}},
	}...)
}
