package dyndrv

func seqBack(minfree, block int, cookie string, preserve bool, ips ...string) []BackSpec {
	b := BackSpec{NS: "d", Name: "app", Port: "8080", Dyn: true, MinFree: minfree, Block: block, InitW: 1, Cookie: cookie, Preserve: preserve}
	for _, ip := range ips {
		b.Eps = append(b.Eps, EpSpec{IP: ip, Port: 80, Weight: 1})
	}
	return []BackSpec{b}
}

// CorpusC02 holds the minimal inputs of past failures; they run first forever.
func CorpusC02() []*Input {
	return []*Input{
		// preserved cookie: scale 2 -> 1 -> 2 left `cookie srv002` in the file of a server running with cookie srv003
		{Steps: []Step{{Backs: seqBack(1, 1, "SRV", true, "10.0.0.1", "10.0.0.2")}, {Backs: seqBack(1, 1, "SRV", true, "10.0.0.1")},
			{Backs: seqBack(1, 1, "SRV", true, "10.0.0.1", "10.0.0.9")}}},
		// two endpoints with one target (Gateway API: two backendRefs reaching the same pod), then a change: index out of range
		{Steps: []Step{{Backs: seqBack(0, 1, "", false, "10.0.0.1", "10.0.0.1")}, {Backs: seqBack(0, 1, "", false, "10.0.0.1", "10.0.0.2")}}},
		// the same with free slots: one server name written twice, running HAProxy keeps the other one
		{Steps: []Step{{Backs: seqBack(6, 1, "", false, "10.0.0.1", "10.0.0.1", "10.0.0.2")}, {Backs: seqBack(6, 1, "", false, "10.0.0.1", "10.0.0.1", "10.0.0.3")}}},
	}
}

// CorpusC11 holds fixed histories for C11.
func CorpusC11() []*Input {
	return []*Input{
		{Steps: []Step{{Backs: seqBack(2, 4, "", false, "10.0.0.1", "10.0.0.2")}, {Backs: seqBack(2, 4, "", false, "10.0.0.1", "10.0.0.2")},
			{Backs: seqBack(2, 4, "", false, "10.0.0.1", "10.0.0.3", "10.0.0.4")}, {Backs: seqBack(2, 4, "", false, "10.0.0.4")}}},
	}
}
