package dyndrv

import (
	"fmt"
	"math/rand"
	"path/filepath"
	"sort"

	"verif/harness/lib/hx"
)

// StepResult is what RunHistory hands to the caller for every step.
type StepResult struct {
	Index    int
	Step     *Step
	Obs      *StepObs
	Findings []Finding
	Buckets  []string
}

// RunHistory drives one history on a fresh instance; stops after a panic or an error.
func RunHistory(dir string, in *Input, c02, c11 bool, each func(r *StepResult)) error {
	w, err := NewWorld(dir, in)
	if err != nil {
		return err
	}
	defer w.Close()
	or := NewOracle()
	or.StrictHost = in.StrictHost
	or.SortBy = in.SortBy
	for i := range in.Steps {
		obs := w.Apply(&in.Steps[i])
		f := or.Check(&in.Steps[i], obs, c02, c11)
		each(&StepResult{Index: i, Step: &in.Steps[i], Obs: obs, Findings: f, Buckets: or.Buckets})
		if obs.Panic != "" || obs.Err != "" {
			break
		}
	}
	return nil
}

// Truncate returns the history cut after step i (the replayable failing input).
func Truncate(in *Input, i int) *Input {
	c := *in
	c.Steps = append([]Step(nil), in.Steps[:i+1]...)
	return &c
}

// Main is the body shared by cmd/c02 and cmd/c11.
func Main(prop string, c02, c11 bool, corpus []*Input, prof func(o *hx.Opts) Profile, quick, thorough int, caseImport string) {
	o := hx.Parse()
	if err := CheckModelFields(); err != nil {
		panic(err)
	}
	rng := o.Rng()
	res := hx.NewResult(prop, "histories of 2..7 reconciliations on the real Instance (1-3 backends, 0-2 TLS hosts; endpoint add/remove/replace/readiness/weight/reorder/no-op, naming modes, slots-min-free, slots-increment, cookies, blue/green labels, resolver, non-endpoint changes, full syncs, scripted socket faults), each step is one evaluation; non-trivial = the step re-created an existing backend or host; distinct by canonical text of the history prefix")
	cw := hx.NewCaseWriter(o, res, caseImport, "step_case", 100)
	var inputs []*Input
	if o.Replay != "" {
		in := &Input{}
		hx.ReadReplay(o.Replay, in)
		inputs = append(inputs, in)
	} else {
		inputs = append(inputs, corpus...)
		// minimised past failures kept as files (corpus/<property>/*.json, same format as a replay)
		files, _ := filepath.Glob(filepath.Join("..", "corpus", prop, "*.json"))
		sort.Strings(files)
		for _, f := range files {
			in := &Input{}
			hx.ReadReplay(f, in)
			inputs = append(inputs, in)
		}
		p := prof(o)
		n := o.Count(quick, thorough)
		for i := 0; i < n; i++ {
			in, _ := Gen(rng, p)
			inputs = append(inputs, in)
		}
	}
	_ = rand.Int
	dir := o.Out + "/world"
	seenFail := map[string]int{}
	for hi, in := range inputs {
		in := in
		err := RunHistory(dir, in, c02, c11, func(r *StepResult) {
			prefix := Truncate(in, r.Index)
			canon := fmt.Sprintf("%+v", *prefix)
			nontrivial := false
			for _, b := range r.Obs.Backs {
				if !b.New {
					nontrivial = true
				}
			}
			for _, h := range r.Obs.Hosts {
				if !h.New {
					nontrivial = true
				}
			}
			res.Seen(canon, nontrivial)
			for _, b := range r.Buckets {
				res.Count(b)
			}
			res.Count(fmt.Sprintf("backends_recreated=%d", len(r.Obs.Backs)))
			if r.Index > 0 {
				res.Sample(5, map[string]interface{}{"history": hi, "step": r.Index, "input_step": r.Step, "reloads": r.Obs.Reloads,
					"metric": r.Obs.Metric, "commands": r.Obs.Commands, "diff": r.Obs.Diff})
			}
			res.OracleChecks++
			if o.Replay != "" {
				// replay: show what happened step by step
				fmt.Printf("step %d: reloads=%d metric=%q commands=%d lost=%d written=%v panic=%q err=%q\n   diff(running vs files)=%q\n",
					r.Index, r.Obs.Reloads, r.Obs.Metric, r.Obs.Commands, r.Obs.Lost, r.Obs.Written, r.Obs.Panic, r.Obs.Err, r.Obs.Diff)
				for _, b := range r.Obs.Backs {
					fmt.Printf("   backend %s new=%v shrunk=%v cfgdiff=%v\n", b.ID, b.New, b.Shrunk, b.CfgDiff)
					for _, e := range b.Res {
						fmt.Printf("      slot %-22s %s:%d enabled=%v weight=%d cookie=%q label=%q\n", e.Name, e.IP, e.Port, e.Enabled, e.Weight, e.Cookie, e.Label)
					}
					for _, e := range b.Exch {
						fmt.Printf("      > %s => %q %s\n", e.Cmd, e.Answer, e.Fault)
					}
				}
				for _, h := range r.Obs.Hosts {
					fmt.Printf("   host %s new=%v shrunk=%v cfgdiff=%v file=%s\n", h.Name, h.New, h.Shrunk, h.CfgDiff, h.File)
				}
				for t, ex := range r.Obs.CertExch {
					for _, e := range ex {
						fmt.Printf("      > [%s] %s => %q %s\n", t, e.Cmd, e.Answer, e.Fault)
					}
				}
				for _, f := range r.Findings {
					fmt.Printf("   FAIL %s: %s\n", f.Key, f.What)
				}
			}
			for _, f := range r.Findings {
				res.Count("oracle_fail_" + f.Key)
				seenFail[f.Key]++
				if seenFail[f.Key] <= 3 {
					res.Fail(hx.Failure{Key: f.Key, What: f.What, Input: prefix, Observed: r.Obs})
				}
			}
			if !o.Search {
				step, obs, idx := r.Step, r.Obs, r.Index
				cw.Add(func(id int) string { return CoqStep(id, in, step, obs) }, map[string]interface{}{"history": prefix, "step": idx})
			}
		})
		if err != nil {
			panic(err)
		}
	}
	cw.Flush()
	res.Extra["driver"] = "real haproxy.Instance end to end over unix sockets (IsExternal, MasterSocket, AdminSocket) against lib/fakehaproxy; no hook in /repo"
	res.Write(o)
}
