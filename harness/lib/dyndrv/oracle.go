package dyndrv

import (
	"fmt"
	"reflect"
	"strings"

	"verif/harness/lib/fakehaproxy"
)

// Finding is one violation of C02 / C11 seen directly on the implementation.
type Finding struct {
	Key  string
	What string
}

// Oracle follows one history and checks every step, without any model.
type Oracle struct {
	lastBack map[string]BackSpec
	lastHost map[string]HostSpec
	tainted  bool     // some backend of this history carried two endpoints with one target
	Buckets  []string // classification of the last step (for the input distribution)
	// StrictHost: the history runs with the global strict-host option
	StrictHost bool
	// SortBy: sort-endpoints-by of the history
	SortBy string
}

// NewOracle creates the per-history state.
func NewOracle() *Oracle {
	return &Oracle{lastBack: map[string]BackSpec{}, lastHost: map[string]HostSpec{}}
}

func dupTargets(eps []EpSpec) bool {
	seen := map[string]bool{}
	for _, e := range eps {
		k := fmt.Sprintf("%s:%d", e.IP, e.Port)
		if seen[k] {
			return true
		}
		seen[k] = true
	}
	return false
}

// validWeights: HAProxy takes weights 0..256, in the files and in `set server … weight`.
func validWeights(eps []EpSpec) bool {
	for _, e := range eps {
		if e.Weight < 0 || e.Weight > 256 {
			return false
		}
	}
	return true
}

func hasLabel(eps []EpSpec) bool {
	for _, e := range eps {
		if e.Label != "" {
			return true
		}
	}
	return false
}

func sameButEps(a, b BackSpec) bool {
	a.Eps, b.Eps = nil, nil
	return reflect.DeepEqual(a, b)
}

func minus(names []string, drop ...string) []string {
	var out []string
	for _, n := range names {
		keep := true
		for _, d := range drop {
			if n == d {
				keep = false
			}
		}
		if keep {
			out = append(out, n)
		}
	}
	return out
}

func blankCookies(st *fakehaproxy.State) *fakehaproxy.State {
	c := st.Clone()
	for _, b := range c.Backends {
		for _, s := range b.Servers {
			s.Cookie = ""
		}
	}
	return c
}

// Check examines one step. c02 / c11 select which property's oracles run.
func (o *Oracle) Check(st *Step, obs *StepObs, c02, c11 bool) []Finding {
	var out []Finding
	o.Buckets = nil
	add := func(key, what string, args ...interface{}) {
		out = append(out, Finding{Key: key, What: fmt.Sprintf(what, args...)})
	}
	bucket := func(b string) { o.Buckets = append(o.Buckets, b) }

	// ---- classification of the step from the specs (inputs), not from the code's decisions
	anyDup := false
	noop := !obs.First && !st.Full && st.MaxConn == 0 && !obs.DefaultDiff && len(st.DelBacks) == 0 && len(st.DelHosts) == 0 &&
		len(st.Faults) == 0 && (len(st.Backs) > 0 || len(st.Hosts) > 0)
	inCapacity := noop
	changedEps := false
	for _, b := range st.Backs {
		last, had := o.lastBack[b.ID()]
		if dupTargets(b.Eps) || (had && dupTargets(last.Eps)) {
			anyDup = true
		}
		if !had || !reflect.DeepEqual(b, last) {
			noop = false
		}
		if !had {
			inCapacity = false
			continue
		}
		if reflect.DeepEqual(b, last) {
			continue
		}
		changedEps = true
		slots := len(obs.BeforeBacks[b.ID()])
		if !sameButEps(b, last) || !b.Dyn || b.Preserve || b.Resolver != "" || hasLabel(b.Eps) || hasLabel(last.Eps) ||
			len(b.Eps) > slots || dupTargets(b.Eps) || dupTargets(last.Eps) || !validWeights(b.Eps) {
			inCapacity = false
		}
	}
	for _, h := range st.Hosts {
		last, had := o.lastHost[h.Name]
		if !had || !reflect.DeepEqual(h, last) {
			noop = false
			inCapacity = false
		}
	}
	inCapacity = inCapacity && changedEps
	if anyDup {
		o.tainted = true
	}
	anyDup = o.tainted
	expectReload := ""
	switch {
	case obs.First:
		expectReload = "first update"
	case st.Full:
		expectReload = "full sync"
	case obs.GlobalDiff:
		expectReload = "global changed"
	case obs.DefaultDiff:
		expectReload = "default backend changed"
	case obs.AddedBack:
		expectReload = "backend added"
	case obs.HostSet:
		expectReload = "host added or removed"
	case obs.BackRemoved:
		expectReload = "backend removed"
	}
	for _, b := range obs.Backs {
		d := minus(b.CfgDiff, "ID", "Dynamic", "Endpoints")
		if b.Shrunk {
			// the re-created object was dropped in favour of the old one: its lazily built
			// caches were never filled
			d = minus(d, "pathConfig", "PathsMap")
		}
		if len(d) > 0 && expectReload == "" {
			expectReload = fmt.Sprintf("backend %s differs in %v", b.ID, d)
		}
	}
	for _, h := range obs.Hosts {
		if d := minus(h.CfgDiff, "TLS.TLSCommonName", "TLS.TLSHash", "TLS.TLSNotAfter"); len(d) > 0 && expectReload == "" {
			expectReload = fmt.Sprintf("host %s differs in %v", h.Name, d)
		}
	}
	switch {
	case obs.First:
		bucket("step=first")
	case noop:
		bucket("step=noop")
	case inCapacity:
		bucket("step=in-capacity")
	case expectReload != "":
		bucket("step=non-runtime")
	default:
		bucket("step=other")
	}
	if obs.Reloads > 0 {
		bucket("outcome=reload")
	} else if obs.Commands > 0 {
		bucket("outcome=dynamic")
	} else {
		bucket("outcome=noop")
	}
	if obs.FaultsHit > 0 {
		bucket("fault-hit")
	}
	if obs.Reloads == 0 && obs.Commands > 0 {
		zero := false
		for _, b := range obs.Backs {
			for _, e := range b.Res {
				if e.Enabled && e.Weight == 0 {
					zero = true
				}
			}
		}
		if zero {
			bucket("dynamic-with-enabled-weight-0")
		}
	}
	// certificates renewed in this step: files, and files whose new content is the same
	renewedFiles := map[string]string{}
	for _, h := range obs.Hosts {
		if !h.New && h.HasTLS && h.OldFile == h.File && h.OldHash != h.Hash {
			renewedFiles[h.File] = h.Hash
		}
	}
	if len(renewedFiles) > 0 {
		bucket(fmt.Sprintf("cert-files-renewed=%d", len(renewedFiles)))
		byHash := map[string]int{}
		for _, hsh := range renewedFiles {
			byHash[hsh]++
		}
		for _, n := range byHash {
			if n > 1 {
				bucket("cert-distinct-files-same-content-renewed")
				break
			}
		}
		if len(renewedFiles) > 1 && len(byHash) == len(renewedFiles) {
			bucket("cert-files-renewed-distinct-contents")
		}
		hostsPerFile := map[string]int{}
		for _, h := range obs.Hosts {
			hostsPerFile[h.File]++
		}
		for f := range renewedFiles {
			if hostsPerFile[f] > 1 {
				bucket("cert-file-shared-by-hosts-renewed")
				break
			}
		}
	}
	if anyDup {
		bucket("duplicate-target")
	}
	dupSfx := ""
	if anyDup {
		dupSfx = "-duplicate-target"
	}

	// ---- C02
	if c02 {
		if obs.Panic != "" {
			add("C02/panic"+dupSfx, "HAProxyUpdate panicked: %s", obs.Panic)
		}
		if obs.Err != "" {
			add("C02/update-error", "HAProxyUpdate returned %s", obs.Err)
		}
		if obs.Panic == "" && obs.Err == "" {
			if obs.Diff != "" {
				key := "C02/diverged" + dupSfx
				if !anyDup && obs.Running != nil && obs.Loaded != nil &&
					fakehaproxy.Diff(blankCookies(obs.Running), blankCookies(obs.Loaded)) == "" {
					key = "C02/diverged-preserved-cookie"
				}
				add(key, "running HAProxy differs from the files on disk after an update with %d reload(s), %d command(s): %s", obs.Reloads, obs.Commands, obs.Diff)
			}
			if obs.Stale > 0 {
				add("C02/command-to-old-process", "%d runtime command(s) were sent on a connection of a HAProxy process that stopped listening at an earlier reload: answered, but the process serving the traffic did not change", obs.Stale)
			}
			if obs.FaultsHit > 0 && obs.Reloads == 0 {
				add("C02/fault-no-reload", "%d runtime command(s) failed or were answered unexpectedly and no reload followed", obs.FaultsHit)
			}
			if expectReload != "" && obs.Reloads == 0 {
				add("C02/nonruntime-no-reload", "no reload although %s", expectReload)
			}
			if (obs.Reloads > 0) != strings.Contains(obs.Metric, "full") || obs.Reloads > 1 {
				add("C02/reload-accounting", "reload commands at the master socket: %d, update accounted as %q", obs.Reloads, obs.Metric)
			}
		}
	}

	// ---- C11
	if c11 && obs.Panic == "" && obs.Err == "" {
		// cause, for the key: with strict-host, the "/" paths SyncConfig adds on behalf of hosts that
		// are not part of this update are missing on a re-created backend (field Paths differs)
		sfx := ""
		if o.StrictHost {
			for _, b := range obs.Backs {
				for _, f := range b.CfgDiff {
					if f == "Paths" && !b.Shrunk {
						sfx = "-strict-host-paths"
					}
				}
			}
		}
		// cause, for the key: dynamic scaling off compares the endpoint lists as they are, the loaded
		// one was sorted (sort-endpoints-by) and the re-created one is not; Shrink would have dropped
		// the pair, but it never matches a backend with path ACLs (PathsDefaultHostMap)
		if noop && sfx == "" && o.SortBy != "" {
			for _, b := range obs.Backs {
				if !b.Flags.Dyn && b.NeedACL && !b.Shrunk && !b.New {
					sfx = "-static-sorted-endpoints-path-acls"
				}
			}
		}
		if noop && obs.Reloads > 0 {
			add("C11/noop-reload"+sfx, "re-created objects equal to the previous ones, yet HAProxy was reloaded")
		}
		if inCapacity && obs.Reloads > 0 {
			add("C11/in-capacity-reload"+sfx, "an endpoints-only change that fits in the existing slots reloaded HAProxy")
		}
		if (noop || inCapacity) && obs.Reloads == 0 {
			for _, b := range obs.Backs {
				if len(b.Res) != len(obs.BeforeBacks[b.ID]) {
					add("C11/slot-count-changed", "backend %s had %d slots, has %d after a dynamic update", b.ID, len(obs.BeforeBacks[b.ID]), len(b.Res))
				}
			}
		}
		if obs.Reloads > 0 {
			for id, eps := range obs.AllBacks {
				fl := obs.AllFlags[id]
				if !fl.Dyn {
					continue
				}
				free := 0
				for _, e := range eps {
					if e.IP == "127.0.0.1" {
						free++
					}
				}
				block := fl.Block
				if block < 1 {
					block = 1
				}
				if free < fl.MinFree || len(eps)%block != 0 {
					add("C11/slots-after-reload", "backend %s after a reload: %d slots, %d free; slots-min-free %d, slots-increment %d", id, len(eps), free, fl.MinFree, fl.Block)
				}
				// the same on what HAProxy loaded
				if obs.Loaded != nil {
					if lb := obs.Loaded.Backends[id]; lb != nil && fl.Resolver == "" {
						dis := 0
						for _, s := range lb.Servers {
							if s.Admin == fakehaproxy.Maint {
								dis++
							}
						}
						if dis < fl.MinFree || len(lb.Servers)%block != 0 {
							add("C11/slots-after-reload", "backend %s as loaded from the files: %d server lines, %d disabled; slots-min-free %d, slots-increment %d", id, len(lb.Servers), dis, fl.MinFree, fl.Block)
						}
					}
				}
			}
		}
	}

	// ---- remember the desired state
	if st.Full {
		o.lastBack = map[string]BackSpec{}
		o.lastHost = map[string]HostSpec{}
	}
	for _, id := range st.DelBacks {
		delete(o.lastBack, id)
	}
	for _, n := range st.DelHosts {
		delete(o.lastHost, n)
	}
	for _, b := range st.Backs {
		o.lastBack[b.ID()] = b
	}
	for _, h := range st.Hosts {
		o.lastHost[h.Name] = h
	}
	return out
}
