package dyndrv

import (
	"fmt"
	"reflect"
	"sort"
	"strings"

	"verif/harness/lib/fakehaproxy"
	"verif/harness/lib/hx"
)

// The field lists the Coq model was written against (Model/Dyn.v backend_fields / host_fields).
var modelBackendFields = []string{"hash64", "shard", "ID", "Namespace", "Name", "Port", "DNSPort", "SourceIPs", "Endpoints", "EpNaming",
	"Paths", "PathsMap", "PathsDefaultHostMap", "pathConfig",
	"AgentCheck", "AllowedIPTCP", "BalanceAlgorithm", "BlueGreen", "Cookie", "CustomConfig", "DeniedIPTCP",
	"Dynamic", "EpCookieStrategy", "Headers", "HealthCheck", "Limit", "ModeTCP", "Resolver", "Server",
	"Timeout", "TLS"}

var modelHostFields = []string{"Hostname", "Paths", "Alias", "Redirect", "HTTPPassthroughBackend", "RootRedirect",
	"TLS.ALPN", "TLS.CAFilename", "TLS.CAHash", "TLS.CAVerify", "TLS.Ciphers", "TLS.CipherSuites",
	"TLS.CRLFilename", "TLS.CRLHash", "TLS.Options", "TLS.TLSCommonName", "TLS.TLSFilename", "TLS.TLSHash",
	"TLS.TLSNotAfter", "TLS.CAErrorPage", "TLS.UseDefaultCrt", "TLS.FollowRedirect",
	"VarNamespace", "sslPassthrough"}

// CheckModelFields fails when the Go structs no longer have the fields the model lists:
// the model has to be revisited then.
func CheckModelFields() error {
	if !reflect.DeepEqual(BackendFieldNames(), modelBackendFields) {
		return fmt.Errorf("hatypes.Backend fields changed: %v (model: %v)", BackendFieldNames(), modelBackendFields)
	}
	if !reflect.DeepEqual(HostFieldNames(), modelHostFields) {
		return fmt.Errorf("hatypes.Host fields changed: %v (model: %v)", HostFieldNames(), modelHostFields)
	}
	return nil
}

func coqEp(e EpDump) string {
	return fmt.Sprintf("E %s %s %s %s %s %s %s %s %s %s %s", hx.Str(e.Name), hx.Str(e.IP), hx.Z(int64(e.Port)), hx.Str(e.Target),
		hx.Bool(e.Enabled), hx.Z(int64(e.Weight)), hx.Str(e.Cookie), hx.Str(e.Label), hx.Str(e.Ref), hx.Z(int64(e.PUID)), hx.Str(e.SrcIP))
}

func coqEps(eps []EpDump) string {
	items := make([]string, len(eps))
	for i, e := range eps {
		items[i] = coqEp(e)
	}
	return hx.List(items)
}

func coqCfg(ids []int) string {
	items := make([]string, len(ids))
	for i, v := range ids {
		items[i] = hx.N(v)
	}
	return hx.List(items)
}

func coqBackend(fl BackFlags, cfg []int, eps []EpDump) string {
	return fmt.Sprintf("(mkB %s %s %s %s %s %s %s %s %s)", hx.Str(fl.ID), coqCfg(cfg), hx.Bool(fl.Dyn), hx.Z(int64(fl.MinFree)),
		hx.Z(int64(fl.Block)), hx.Bool(fl.Preserve), hx.Str(fl.Resolver), hx.Z(int64(fl.InitW)), coqEps(eps))
}

// digest lists -> small numbers: equal digests of one field get equal numbers
func cfgIDs(old, cur []string) ([]int, []int) {
	o := make([]int, len(cur))
	c := make([]int, len(cur))
	for i := range cur {
		if i < len(old) && old[i] != cur[i] {
			c[i] = 1
		}
	}
	return o, c
}

func oneLine(s string) string { return strings.ReplaceAll(s, "\n", " ") }

func coqAnswers(ex []fakehaproxy.Exchange) (string, string, string) {
	var ans, exe, cmds []string
	for _, e := range ex {
		if e.Lost {
			ans = append(ans, "AIOErr")
		} else {
			ans = append(ans, "AText "+hx.Str(oneLine(e.Answer)))
		}
		// executed = by the listening process: a command a former generation executed does not count
		exe = append(exe, hx.Bool(!e.Lost && !e.Stale && e.Fault != fakehaproxy.FaultRefuse))
		cmds = append(cmds, hx.Str(e.Cmd))
	}
	return hx.List(ans), hx.List(exe), hx.List(cmds)
}

func coqServers(b *fakehaproxy.Backend) string {
	if b == nil {
		return "[]"
	}
	var items []string
	for _, s := range b.Servers {
		adm := map[string]string{fakehaproxy.Ready: "Ready", fakehaproxy.Drain: "Drain", fakehaproxy.Maint: "Maint"}[s.Admin]
		items = append(items, fmt.Sprintf("S_ %s %s %s %s %s %s", hx.Str(s.Name), hx.Str(s.Addr), hx.Z(int64(s.Port)), hx.Z(int64(s.Weight)), adm, hx.Str(s.Cookie)))
	}
	return hx.List(items)
}

func backendOf(st *fakehaproxy.State, id string) *fakehaproxy.Backend {
	if st == nil {
		return nil
	}
	return st.Backends[id]
}

// certBody extracts the body between the PEM markers of a `set ssl cert` exchange; the
// observed command is rendered as "<first line><body>".
func certCmds(ex []fakehaproxy.Exchange) []fakehaproxy.Exchange {
	out := make([]fakehaproxy.Exchange, len(ex))
	copy(out, ex)
	return out
}

// CoqStep prints one observed step as a `step_case` term.
func CoqStep(id int, in *Input, st *Step, obs *StepObs) string {
	committed := !obs.First && !st.Full
	var hs []string
	for _, h := range obs.Hosts {
		oldIDs, curIDs := cfgIDs(h.OldCfg, h.CurCfg)
		cur := fmt.Sprintf("(mkH %s %s %s %s (Some %s))", hx.Str(h.Name), coqCfg(curIDs), hx.Str(h.File), hx.Str(h.Hash), hx.Str(h.Body))
		old := "None"
		if !h.New {
			old = fmt.Sprintf("(Some (mkH %s %s %s %s None))", hx.Str(h.Name), coqCfg(oldIDs), hx.Str(h.OldFile), hx.Str(h.OldHash))
		}
		ans, _, cmds := coqAnswers(obs.CertExch["cert:"+h.File])
		hs = append(hs, fmt.Sprintf("mkHC %s %s %s %s %s", old, cur, ans, hx.Bool(h.Shrunk), cmds))
	}
	var bs []string
	recreated := map[string]bool{}
	for _, b := range obs.Backs {
		recreated[b.ID] = true
		oldIDs, curIDs := cfgIDs(b.OldCfg, b.CurCfg)
		old := "None"
		if !b.New {
			old = "(Some " + coqBackend(b.OldFlags, oldIDs, b.Old) + ")"
		}
		cur := coqBackend(b.Flags, curIDs, b.Cur)
		_, earlyIDs := cfgIDs(b.OldCfg, b.EarlyCfg)
		ans, exe, cmds := coqAnswers(b.Exch)
		bs = append(bs, fmt.Sprintf("mkBC %s %s %s %s %s %s %s %s %s %s %s %s", old, cur, coqCfg(earlyIDs), hx.Bool(b.Flags.Affinity), ans, exe,
			hx.Bool(b.Shrunk), cmds, coqEps(b.Res), coqServers(backendOf(obs.Before, b.ID)), coqServers(backendOf(obs.Running, b.ID)),
			coqServers(backendOf(obs.Loaded, b.ID))))
	}
	var os []string
	var ids []string
	for bid := range obs.AllBacks {
		ids = append(ids, bid)
	}
	sort.Strings(ids)
	for _, bid := range ids {
		if recreated[bid] {
			continue
		}
		before, ok := obs.BeforeBacks[bid]
		if !ok {
			continue
		}
		os = append(os, fmt.Sprintf("mkOC %s %s", coqBackend(obs.BeforeFlags[bid], nil, before), coqEps(obs.AllBacks[bid])))
	}
	return fmt.Sprintf("mkSC %s %s %s %s %s\n  %s\n  %s\n  %s\n  %s %s %s %s", hx.N(id), hx.Bool(committed), hx.Bool(obs.GlobalDiff || obs.DefaultDiff), hx.Bool(obs.HostRemoved), hx.Bool(obs.BackRemoved),
		hx.List(hs), hx.List(bs), hx.List(os), hx.Bool(in.SortBy != ""), hx.Bool(obs.Written), hx.Bool(obs.Reloads > 0), hx.Bool(obs.Panic != ""))
}
