package dyndrv

import (
	"fmt"
	"math/rand"

	"verif/harness/lib/fakehaproxy"
)

// Profile steers the generator.
type Profile struct {
	Faults      int // percent of steps with a scripted socket fault
	NonEndpoint int // percent of steps with a change outside endpoints / certificate content
	Dups        int // percent of backends allowed to carry two endpoints with one target
	Special     int // percent of backends with label / preserved cookie / resolver / dynamic-scaling off
	Hosts       bool
	MaxSteps    int
	Wide        bool // search mode: longer histories, bigger backends
}

var minFreePool = []int{0, 0, 1, 2, 3, 6, 6, -1}
var blockPool = []int{0, 1, 1, 1, 2, 3, 4, 5, 8, -2}
var weightPool = []int{1, 1, 1, 1, 0, 2, 50, 100, 128, 256}

type gen struct {
	rng   *rand.Rand
	p     Profile
	backs []BackSpec
	hosts []HostSpec
	dupOK map[string]bool
	uid   map[string]bool // cookie value = pod uid
	next  int
	certv int
	// twinSolo: twin hosts whose secret was renewed on its own (content differs from the others)
	twinSolo map[string]bool
}

func (g *gen) pct(p int) bool { return g.rng.Intn(100) < p }

func (g *gen) newEp(b *BackSpec) EpSpec {
	g.next++
	n := 1 + g.rng.Intn(40)
	ip := fmt.Sprintf("10.0.%d.%d", n/20, 1+n%20)
	port := 8080
	if g.rng.Intn(8) == 0 {
		port = 8081
	}
	e := EpSpec{IP: ip, Port: port, Weight: b.InitW}
	if b.Naming == 2 || g.rng.Intn(3) == 0 {
		e.Ref = fmt.Sprintf("default/pod-%d-%d", n, port)
	}
	if g.uid[b.ID()] {
		e.Cookie = fmt.Sprintf("uid-%d-%d", n, port)
	}
	if b.BGHeader != "" && g.rng.Intn(2) == 0 {
		e.Label = []string{"blue", "green"}[g.rng.Intn(2)]
	}
	if g.rng.Intn(40) == 0 {
		e.PUID = int32(1000 + n)
	}
	return e
}

func hasTarget(eps []EpSpec, e EpSpec) bool {
	for _, x := range eps {
		if x.IP == e.IP && x.Port == e.Port {
			return true
		}
	}
	return false
}

func (g *gen) addEps(b *BackSpec, k int) {
	for i := 0; i < k; i++ {
		for try := 0; try < 20; try++ {
			e := g.newEp(b)
			if hasTarget(b.Eps, e) && !(g.dupOK[b.ID()] && g.rng.Intn(3) == 0) {
				continue
			}
			b.Eps = append(b.Eps, e)
			break
		}
	}
}

func (g *gen) newBack(i int) BackSpec {
	b := BackSpec{NS: "d", Name: fmt.Sprintf("app%d", i), Port: "8080", Dyn: true, InitW: 1}
	b.Naming = []int{0, 0, 1, 2}[g.rng.Intn(4)]
	b.MinFree = minFreePool[g.rng.Intn(len(minFreePool))]
	b.Block = blockPool[g.rng.Intn(len(blockPool))]
	if g.rng.Intn(3) == 0 {
		b.Cookie = "SRV"
		if g.rng.Intn(4) == 0 {
			g.uid[b.ID()] = true
		}
	}
	if g.rng.Intn(5) == 0 {
		b.InitW = weightPool[g.rng.Intn(len(weightPool))]
	}
	if g.pct(g.p.Special) {
		switch g.rng.Intn(4) {
		case 0:
			b.Cookie = "SRV"
			b.Preserve = true
		case 1:
			b.Resolver = "kubernetes"
		case 2:
			b.Dyn = false
		case 3:
			b.BGHeader = "X-Env"
		}
	}
	if b.Resolver == "" && g.rng.Intn(10) == 0 {
		b.Dyn = false // dynamic scaling off: endpoint lists are compared as they are
	}
	if g.pct(g.p.Dups) {
		g.dupOK[b.ID()] = true
	}
	b.Acquire = g.rng.Intn(2) == 0 && !g.dupOK[b.ID()]
	max := 5
	if g.p.Wide {
		max = 9
	}
	g.addEps(&b, g.rng.Intn(max))
	if g.dupOK[b.ID()] && len(b.Eps) > 0 && g.rng.Intn(2) == 0 {
		b.Eps = append(b.Eps, b.Eps[g.rng.Intn(len(b.Eps))])
	}
	return b
}

func cloneBack(b BackSpec) BackSpec {
	c := b
	c.Eps = append([]EpSpec(nil), b.Eps...)
	return c
}

// churn changes the endpoints of a backend spec.
func (g *gen) churn(b *BackSpec) string {
	n := len(b.Eps)
	if !b.Dyn && n > 1 && g.rng.Intn(3) == 0 {
		// dynamic scaling off: the pure reordering of the same endpoints, which has to reload
		// (sequence names follow the order)
		g.rng.Shuffle(n, func(i, j int) { b.Eps[i], b.Eps[j] = b.Eps[j], b.Eps[i] })
		return "reorder-static"
	}
	switch op := g.rng.Intn(10); {
	case op == 0: // no-op resync
		return "noop"
	case op <= 2:
		g.addEps(b, 1+g.rng.Intn(3))
		return "add"
	case op == 3 && n > 0:
		k := 1 + g.rng.Intn(2)
		for i := 0; i < k && len(b.Eps) > 0; i++ {
			j := g.rng.Intn(len(b.Eps))
			b.Eps = append(b.Eps[:j], b.Eps[j+1:]...)
		}
		return "remove"
	case op == 4 && n > 0:
		k := 1 + g.rng.Intn(2)
		for i := 0; i < k && len(b.Eps) > 0; i++ {
			j := g.rng.Intn(len(b.Eps))
			b.Eps = append(b.Eps[:j], b.Eps[j+1:]...)
		}
		g.addEps(b, k)
		return "replace"
	case op == 5 && n > 0: // readiness (drain-support: not ready = weight 0)
		j := g.rng.Intn(n)
		if b.Eps[j].Weight == 0 {
			b.Eps[j].Weight = b.InitW
		} else {
			b.Eps[j].Weight = 0
		}
		return "readiness"
	case op == 6 && n > 0: // weights (blue/green rebalance)
		w := weightPool[g.rng.Intn(len(weightPool))]
		for j := range b.Eps {
			if g.rng.Intn(2) == 0 {
				b.Eps[j].Weight = w
			}
		}
		return "weight"
	case op == 7 && n > 1:
		g.rng.Shuffle(n, func(i, j int) { b.Eps[i], b.Eps[j] = b.Eps[j], b.Eps[i] })
		return "reorder"
	case op == 8:
		if n > 0 && g.rng.Intn(2) == 0 {
			b.Eps = nil
			return "scale-to-zero"
		}
		g.addEps(b, 2+g.rng.Intn(6))
		return "scale-up"
	default:
		g.addEps(b, 1)
		if len(b.Eps) > 1 {
			j := g.rng.Intn(len(b.Eps) - 1)
			b.Eps = append(b.Eps[:j], b.Eps[j+1:]...)
		}
		return "rolling"
	}
}

var backMuts []string

// nonEndpoint alters something outside the endpoints.
func (g *gen) nonEndpoint(b *BackSpec) string {
	if backMuts == nil {
		backMuts = MutableBackendFields()
	}
	switch g.rng.Intn(9) {
	case 0:
		b.Balance += "x"
		return "balance"
	case 1:
		b.MinFree = minFreePool[g.rng.Intn(len(minFreePool))]
		b.Block = blockPool[g.rng.Intn(len(blockPool))]
		return "dynamic-cfg"
	case 2:
		b.InitW++
		if b.InitW > 256 {
			b.InitW = 1 // HAProxy takes weights 0..256
		}
		return "initial-weight"
	case 3:
		b.Dyn = !b.Dyn
		return "dyn-toggle"
	case 4:
		if b.Cookie == "" {
			b.Cookie = "SRV"
		} else {
			b.Preserve = !b.Preserve
		}
		return "cookie"
	case 5:
		if b.Resolver == "" {
			b.Resolver = "kubernetes"
		} else {
			b.Resolver = ""
		}
		return "resolver"
	case 6:
		b.Naming = (b.Naming + 1) % 3
		return "naming"
	default:
		b.Mut = backMuts[g.rng.Intn(len(backMuts))]
		return "field:" + b.Mut
	}
}

func (g *gen) newHost(i int) HostSpec {
	h := HostSpec{Name: fmt.Sprintf("h%d.local", i)}
	// most hosts route to a backend, as an ingress rule does
	if len(g.backs) > 0 && g.rng.Intn(5) != 0 {
		bi := g.rng.Intn(len(g.backs))
		h.Backend = g.backs[bi].ID()
		switch g.rng.Intn(8) {
		case 0, 1:
			// auth-tls: SyncConfig flags the backend (TLS.HasTLSAuth)
			g.certv++
			h.AuthTLS = fmt.Sprintf("ca-v%d", g.certv)
		case 2:
			// ssl-passthrough: tcp backend, SyncConfig lays the frontends out differently
			if g.backs[bi].Cookie == "" && g.backs[bi].BGHeader == "" {
				h.Passthrough = true
				g.backs[bi].ModeTCP = true
			}
		}
		if g.rng.Intn(6) == 0 {
			h.Path = "/app" // "/" is left to strict-host
		}
		// per path configuration: differing ones on the paths of a backend need path ACLs
		if !h.Passthrough && g.rng.Intn(2) == 0 {
			h.PathCfg = PathCfgKinds[g.rng.Intn(len(PathCfgKinds))]
			if g.rng.Intn(2) == 0 {
				h.Path2Cfg = PathCfgKinds[g.rng.Intn(len(PathCfgKinds))]
			}
		} else if !h.Passthrough && g.rng.Intn(4) == 0 {
			h.Path2Cfg = PathCfgKinds[g.rng.Intn(len(PathCfgKinds))]
		}
	}
	if g.rng.Intn(4) != 0 {
		h.Crt = fmt.Sprintf("crt%d", i)
		g.certv++
		h.Content = fmt.Sprintf("%s-v%d", h.Crt, g.certv)
		switch g.rng.Intn(4) {
		case 0:
			// several hosts on one certificate file
			h.Crt = "shared"
			h.Content = fmt.Sprintf("shared-v%d", g.certv)
			for _, x := range g.hosts {
				if x.Crt == "shared" {
					h.Content = x.Content // one file, one content
				}
			}
		case 1:
			// one certificate replicated in several secrets: distinct files, identical content
			// (so identical TLSHash)
			h.Crt = fmt.Sprintf("twin%d", i)
			h.Content = g.twinContent()
		}
	}
	return h
}

// Gen builds one history.
func Gen(rng *rand.Rand, p Profile) (*Input, []string) {
	g := &gen{rng: rng, p: p, dupOK: map[string]bool{}, uid: map[string]bool{}, twinSolo: map[string]bool{}}
	in := &Input{}
	if rng.Intn(5) < 2 {
		// --backend-shards: backends are written in per shard files; one shard puts them all together
		in.Shards = []int{1, 1, 3, 8}[rng.Intn(4)]
	}
	in.StrictHost = rng.Intn(5) == 0
	in.OldExits = rng.Intn(3) == 0
	if rng.Intn(4) == 0 {
		in.SortBy = []string{"name", "ip", "random"}[rng.Intn(3)]
	}
	nb := 1 + rng.Intn(3)
	for i := 1; i <= nb; i++ {
		g.backs = append(g.backs, g.newBack(i))
	}
	if p.Hosts {
		nh := rng.Intn(4)
		for i := 1; i <= nh; i++ {
			g.hosts = append(g.hosts, g.newHost(i))
		}
		// hosts sharing one certificate file carry the same content
		g.syncShared()
	}
	first := Step{MaxConn: 1}
	if len(g.backs) > 0 && rng.Intn(3) == 0 {
		first.DefBack = g.backs[rng.Intn(len(g.backs))].ID()
	}
	for _, b := range g.backs {
		first.Backs = append(first.Backs, cloneBack(b))
	}
	first.Hosts = append(first.Hosts, g.hosts...)
	in.Steps = append(in.Steps, first)
	var ops []string
	ops = append(ops, "init")
	ns := 1 + rng.Intn(p.MaxSteps)
	for s := 0; s < ns; s++ {
		st, op := g.step()
		in.Steps = append(in.Steps, st)
		ops = append(ops, op)
	}
	return in, ops
}

func isTwin(h HostSpec) bool { return len(h.Crt) > 4 && h.Crt[:4] == "twin" }

// twinContent is the content the replicated certificate has now.
func (g *gen) twinContent() string {
	for _, h := range g.hosts {
		if isTwin(h) && !g.twinSolo[h.Name] {
			return h.Content
		}
	}
	g.certv++
	return fmt.Sprintf("twin-v%d", g.certv)
}

func (g *gen) syncShared() {
	content := ""
	for _, h := range g.hosts {
		if h.Crt == "shared" {
			content = h.Content
		}
	}
	for i := range g.hosts {
		if g.hosts[i].Crt == "shared" {
			g.hosts[i].Content = content
		}
	}
}

func (g *gen) step() (Step, string) {
	var st Step
	op := ""
	rng := g.rng
	// which backends are dirty
	k := 1
	if len(g.backs) > 1 && rng.Intn(3) == 0 {
		k = 1 + rng.Intn(len(g.backs))
	}
	perm := rng.Perm(len(g.backs))
	nonEp := g.pct(g.p.NonEndpoint)
	kind := -1
	if nonEp {
		kind = rng.Intn(9)
	}
	if kind == 0 {
		// full sync
		st.Full = true
		op += "full "
	}
	if len(g.backs) == 0 {
		k = 0
	}
	for _, i := range perm[:k] {
		b := &g.backs[i]
		b.Mut = ""
		op += g.churn(b) + " "
		if kind == 1 || kind == 2 {
			op += g.nonEndpoint(b) + " "
			kind = -2
		}
		st.Backs = append(st.Backs, cloneBack(*b))
	}
	switch kind {
	case 3:
		if len(g.backs) > 0 && rng.Intn(2) == 0 {
			// the default backend moves to another (existing) backend, or goes away
			if rng.Intn(4) == 0 {
				st.DefBack = "-"
			} else {
				st.DefBack = g.backs[rng.Intn(len(g.backs))].ID()
			}
			op += "default-backend "
		} else {
			st.MaxConn = 2 + rng.Intn(1000)
			op += "global "
		}
	case 4:
		// a new backend
		nb := g.newBack(len(g.backs) + 1 + rng.Intn(3)*10)
		dup := false
		for _, x := range g.backs {
			if x.ID() == nb.ID() {
				dup = true
			}
		}
		if !dup {
			g.backs = append(g.backs, nb)
			st.Backs = append(st.Backs, cloneBack(nb))
			op += "new-backend "
		}
	case 5:
		// a backend goes away, alone or together with a host change
		if len(g.backs) > 1 && rng.Intn(2) == 0 {
			j := rng.Intn(len(g.backs))
			id := g.backs[j].ID()
			g.backs = append(g.backs[:j], g.backs[j+1:]...)
			var keep []BackSpec
			for _, b := range st.Backs {
				if b.ID() != id {
					keep = append(keep, b)
				}
			}
			st.Backs = keep
			st.DelBacks = append(st.DelBacks, id)
			op += "del-backend-only "
		} else if len(g.backs) > 1 && g.p.Hosts {
			j := rng.Intn(len(g.backs))
			id := g.backs[j].ID()
			g.backs = append(g.backs[:j], g.backs[j+1:]...)
			var keep []BackSpec
			for _, b := range st.Backs {
				if b.ID() != id {
					keep = append(keep, b)
				}
			}
			st.Backs = keep
			st.DelBacks = append(st.DelBacks, id)
			nh := g.newHost(len(g.hosts) + 1 + rng.Intn(3)*10)
			dup := false
			for _, x := range g.hosts {
				if x.Name == nh.Name {
					dup = true
				}
			}
			if !dup {
				g.hosts = append(g.hosts, nh)
				g.syncShared()
				st.Hosts = append(st.Hosts, g.hosts[len(g.hosts)-1])
			} else {
				st.MaxConn = 2 + rng.Intn(1000)
			}
			op += "del-backend "
		}
	}
	if g.p.Hosts && len(g.hosts) > 0 && (rng.Intn(4) == 0 || kind >= 6) {
		j := rng.Intn(len(g.hosts))
		h := &g.hosts[j]
		h.Mut = ""
		switch {
		case kind == 6 && h.AuthTLS != "" && rng.Intn(2) == 0:
			g.certv++
			h.AuthTLS = fmt.Sprintf("ca-v%d", g.certv)
			op += "host-ca-content "
		case kind == 6 && h.Backend != "" && !h.Passthrough && rng.Intn(2) == 0:
			h.PathCfg = PathCfgKinds[rng.Intn(len(PathCfgKinds))]
			if rng.Intn(2) == 0 {
				h.PathCfg = ""
			}
			op += "path-config "
		case kind == 6:
			h.Extra += "/x"
			op += "host-field "
		case kind == 7:
			ms := MutableHostFields()
			h.Mut = ms[rng.Intn(len(ms))]
			op += "host-field:" + h.Mut + " "
		case kind == 8:
			if rng.Intn(2) == 0 && len(g.hosts) > 0 {
				name := h.Name
				g.hosts = append(g.hosts[:j], g.hosts[j+1:]...)
				st.DelHosts = append(st.DelHosts, name)
				op += "del-host "
				h = nil
			} else {
				// the certificate moves to another file
				h.Crt = fmt.Sprintf("moved%d-%s", rng.Intn(3), h.Name)
				g.certv++
				h.Content = fmt.Sprintf("%s-v%d", h.Crt, g.certv)
				op += "crt-file "
			}
		default:
			if isTwin(*h) && rng.Intn(4) != 0 {
				// the replicated certificate is renewed: in every secret at once with one
				// content, in every secret with its own content, or in this secret only
				g.certv++
				mode := rng.Intn(3)
				for i := range g.hosts {
					x := &g.hosts[i]
					if !isTwin(*x) {
						continue
					}
					switch {
					case mode == 0:
						x.Content = fmt.Sprintf("twin-v%d", g.certv)
						g.twinSolo[x.Name] = false
					case mode == 1:
						x.Content = fmt.Sprintf("twin-v%d-%s", g.certv, x.Crt)
						g.twinSolo[x.Name] = true
					case x.Name == h.Name:
						x.Content = fmt.Sprintf("twin-v%d-solo", g.certv)
						g.twinSolo[x.Name] = true
					default:
						continue
					}
					if x.Name != h.Name {
						st.Hosts = append(st.Hosts, *x)
					}
				}
				op += []string{"twin-renew-all-same ", "twin-renew-all-distinct ", "twin-renew-one "}[mode]
			} else if h.Crt != "" && rng.Intn(4) != 0 {
				g.certv++
				h.Content = fmt.Sprintf("%s-v%d", h.Crt, g.certv)
				op += "crt-content "
			} else {
				op += "host-noop "
			}
		}
		if h != nil {
			g.syncShared()
			shared := h.Crt == "shared"
			for _, x := range g.hosts {
				if x.Name == h.Name || (shared && x.Crt == "shared") {
					st.Hosts = append(st.Hosts, x)
				}
			}
		}
	}
	// one entry per host and per backend in a step: the last one wins
	st.Hosts = dedupHosts(st.Hosts)
	st.Backs = dedupBacks(st.Backs)
	if st.Full {
		// a full sync re-creates everything: Backs/Hosts of the step only update the desired state
		st.Backs = nil
		for _, b := range g.backs {
			st.Backs = append(st.Backs, cloneBack(b))
		}
		st.Hosts = append([]HostSpec(nil), g.hosts...)
	}
	if g.pct(g.p.Faults) {
		nf := 1 + rng.Intn(2)
		for i := 0; i < nf; i++ {
			f := fakehaproxy.Fault{Index: rng.Intn(10)}
			if rng.Intn(4) == 0 {
				f.Index = rng.Intn(3)
			}
			f.Kind = []string{fakehaproxy.FaultIOError, fakehaproxy.FaultRefuse, fakehaproxy.FaultNoise}[rng.Intn(3)]
			if len(st.Hosts) > 0 && rng.Intn(3) == 0 {
				h := st.Hosts[rng.Intn(len(st.Hosts))]
				if h.Crt == "" || h.Crt == "shared" {
					// hosts sharing one certificate file send the same two commands in an order
					// Go's map iteration picks: a fault on "the k-th command for the file" could
					// not be attributed to one of them
					continue
				}
				f.Target = "cert:" + h.Crt
				f.Index = rng.Intn(2)
				if f.Kind == fakehaproxy.FaultNoise {
					// the answer to `set ssl cert` is not validated by the code (only the one to
					// `commit ssl cert` is, and any text containing "Success" is accepted): an
					// executed command with a noisy answer is not a fault for these two
					f.Kind = fakehaproxy.FaultRefuse
				}
			} else if len(st.Backs) > 0 {
				f.Target = st.Backs[rng.Intn(len(st.Backs))].ID()
			} else {
				continue
			}
			st.Faults = append(st.Faults, f)
			op += "fault:" + f.Kind + " "
		}
	}
	return st, op
}

func dedupHosts(hs []HostSpec) []HostSpec {
	last := map[string]int{}
	for i, h := range hs {
		last[h.Name] = i
	}
	var out []HostSpec
	for i, h := range hs {
		if last[h.Name] == i {
			out = append(out, h)
		}
	}
	return out
}

func dedupBacks(bs []BackSpec) []BackSpec {
	last := map[string]int{}
	for i, b := range bs {
		last[b.ID()] = i
	}
	var out []BackSpec
	for i, b := range bs {
		if last[b.ID()] == i {
			out = append(out, b)
		}
	}
	return out
}
