// Package dyndrv drives the real haproxy.Instance (public API: CreateInstance,
// ParseTemplates, Config, HAProxyUpdate) end to end against the simulated HAProxy
// of lib/fakehaproxy over real unix sockets (InstanceOptions IsExternal +
// MasterSocket + AdminSocket), the way the controller does: build the model,
// HAProxyUpdate; RemoveAll the dirty backends/hosts, re-create them, HAProxyUpdate.
// It records what C02/C11 compare: the real endpoint lists before/after, the
// commands received by the fake with its answers, reloads at the master socket,
// the state parsed from the files the real templates wrote.
package dyndrv

import (
	"crypto/sha1"
	"fmt"
	"os"
	"path/filepath"
	"reflect"
	"sort"
	"strings"
	"time"
	"unsafe"

	"github.com/davecgh/go-spew/spew"

	"github.com/jcmoraisjr/haproxy-ingress/pkg/haproxy"
	hatypes "github.com/jcmoraisjr/haproxy-ingress/pkg/haproxy/types"
	"github.com/jcmoraisjr/haproxy-ingress/pkg/utils"

	"verif/harness/lib/fakehaproxy"
)

// ---------------------------------------------------------------- input

// EpSpec is one endpoint as the converters create it.
type EpSpec struct {
	IP     string `json:"ip"`
	Port   int    `json:"port"`
	Ref    string `json:"ref,omitempty"`    // targetRef (namespace/pod)
	Weight int    `json:"weight"`           // set after creation (initial-weight, blue/green, drain)
	Label  string `json:"label,omitempty"`  // blue/green label
	Cookie string `json:"cookie,omitempty"` // "" = server-name strategy (the name AddEndpoint gave)
	PUID   int32  `json:"puid,omitempty"`
}

// BackSpec is one backend.
type BackSpec struct {
	NS     string `json:"ns"`
	Name   string `json:"name"`
	Port   string `json:"port"`
	Naming int    `json:"naming"` // 0 sequence, 1 ip:port, 2 target ref (pod name)
	Dyn    bool   `json:"dyn"`
	// MinFree / Block: slots-min-free and backend-server-slots-increment
	MinFree  int      `json:"min_free"`
	Block    int      `json:"block"`
	Cookie   string   `json:"cookie,omitempty"` // cookie name: affinity on when not empty
	Preserve bool     `json:"preserve,omitempty"`
	InitW    int      `json:"init_w"`
	Resolver string   `json:"resolver,omitempty"`
	BGHeader string   `json:"bg_header,omitempty"`
	ModeTCP  bool     `json:"mode_tcp,omitempty"` // backend of ssl-passthrough hosts
	Balance  string   `json:"balance,omitempty"`
	Mut      string   `json:"mut,omitempty"` // name of another Backend field to alter (reflection), see Mutate
	Acquire  bool     `json:"acquire,omitempty"`
	Eps      []EpSpec `json:"eps"`
}

// ID is the backend id.
func (b *BackSpec) ID() string { return b.NS + "_" + b.Name + "_" + b.Port }

// HostSpec is one host with a certificate.
type HostSpec struct {
	Name    string `json:"name"`
	Crt     string `json:"crt,omitempty"`     // base name of the certificate file ("" = no TLS of its own)
	Content string `json:"content,omitempty"` // certificate body (identifies the version)
	Extra   string `json:"extra,omitempty"`   // RootRedirect: a change outside the certificate
	Mut     string `json:"mut,omitempty"`
	// Backend: id of the backend the host routes to (Host.AddPath(backend, ...), which also adds the
	// backend path); "" = a path without backend. The converters re-create a host together with
	// the backends it routes to and the other way round: so does Apply.
	Backend string `json:"backend,omitempty"`
	Path    string `json:"path,omitempty"` // "" = "/"; another path leaves "/" to strict-host
	// PathCfg / Path2Cfg: per path configuration of the backend path(s) of this host (what the
	// annotations set on hatypes.BackendPath): "" default, "sslredir", "hsts", "body", "allow".
	// Path2Cfg != "" adds a second path /p2 to the same backend with that configuration. Paths of
	// one backend with different configurations make Backend.NeedACL() true: path id maps are
	// written and the template renders the per path ACLs.
	PathCfg  string `json:"path_cfg,omitempty"`
	Path2Cfg string `json:"path2_cfg,omitempty"`
	// AuthTLS: auth-tls-secret, TLS.CAFilename / CAHash set; SyncConfig derives Backend.TLS.HasTLSAuth
	AuthTLS string `json:"auth_tls,omitempty"` // content version of the CA bundle, "" = none
	// Passthrough: ssl-passthrough host; SyncConfig derives the frontend layout from it
	Passthrough bool `json:"passthrough,omitempty"`
}

// Step is one reconciliation.
type Step struct {
	Full     bool       `json:"full,omitempty"` // full sync: Config().Clear(), everything re-created
	Backs    []BackSpec `json:"backs,omitempty"`
	DelBacks []string   `json:"del_backs,omitempty"`
	Hosts    []HostSpec `json:"hosts,omitempty"`
	DelHosts []string   `json:"del_hosts,omitempty"`
	MaxConn  int        `json:"maxconn,omitempty"` // != 0: global change
	// DefBack: "" keeps the default backend, "-" unsets it, else the id of the backend that becomes
	// the default one (Backends().DefaultBackend, what syncDefaultBackend does)
	DefBack string              `json:"def_back,omitempty"`
	Faults  []fakehaproxy.Fault `json:"faults,omitempty"`
}

// Input is a whole history; Steps[0] builds the initial configuration.
type Input struct {
	Shards int `json:"shards,omitempty"`
	// OldExits: a reloaded HAProxy process exits at once; default is what HAProxy does, a soft stop
	// in which the old process keeps serving the connections it had accepted
	OldExits bool `json:"old_exits,omitempty"`
	// StrictHost: global strict-host; SyncConfig adds a "/" path to hosts that have none
	StrictHost bool   `json:"strict_host,omitempty"`
	SortBy     string `json:"sort_by,omitempty"`
	Steps      []Step `json:"steps"`
}

// ---------------------------------------------------------------- observations

// EpDump is every field of a real hatypes.Endpoint.
type EpDump struct {
	Name    string `json:"name"`
	IP      string `json:"ip"`
	Port    int    `json:"port"`
	Target  string `json:"target"`
	Enabled bool   `json:"enabled"`
	Weight  int    `json:"weight"`
	Cookie  string `json:"cookie"`
	Label   string `json:"label"`
	Ref     string `json:"ref"`
	PUID    int32  `json:"puid"`
	SrcIP   string `json:"srcip"`
}

// DumpEps copies the endpoints of a real backend.
func DumpEps(b *hatypes.Backend) []EpDump {
	out := make([]EpDump, 0, len(b.Endpoints))
	for _, e := range b.Endpoints {
		out = append(out, EpDump{Name: e.Name, IP: e.IP, Port: e.Port, Target: e.Target, Enabled: e.Enabled,
			Weight: e.Weight, Cookie: e.CookieValue, Label: e.Label, Ref: e.TargetRef, PUID: e.PUID, SrcIP: e.SourceIP})
	}
	return out
}

// BackFlags are the fields of the real backend that steer checkBackendPair / alignSlots.
type BackFlags struct {
	ID       string `json:"id"`
	Dyn      bool   `json:"dyn"`
	MinFree  int    `json:"min_free"`
	Block    int    `json:"block"`
	Preserve bool   `json:"preserve"`
	Resolver string `json:"resolver"`
	InitW    int    `json:"init_w"`
	Affinity bool   `json:"affinity"`
}

// FlagsOf reads them from the real object.
func FlagsOf(b *hatypes.Backend) BackFlags {
	return BackFlags{ID: b.ID, Dyn: b.Dynamic.DynUpdate, MinFree: b.Dynamic.MinFreeSlots, Block: b.Dynamic.BlockSize,
		Preserve: b.Cookie.Preserve, Resolver: b.Resolver, InitW: b.Server.InitialWeight, Affinity: b.CookieAffinity()}
}

// BackObs is what happened to one re-created backend in one step.
type BackObs struct {
	ID       string    `json:"id"`
	OldFlags BackFlags `json:"old_flags"`
	New      bool      `json:"new,omitempty"`    // no old object with this id
	Shrunk   bool      `json:"shrunk,omitempty"` // Shrink kept the old object
	Old      []EpDump  `json:"old,omitempty"`
	Cur      []EpDump  `json:"cur"`
	OldCfg   []string  `json:"-"`
	CurCfg   []string  `json:"-"`
	CfgDiff  []string  `json:"cfg_diff,omitempty"` // names of differing Backend fields (all of them)
	// PreCfg: digests of the re-created backend before HAProxyUpdate. Backends.Shrink runs before
	// WriteBackendMaps assigns PathsMap / PathsDefaultHostMap and builds pathConfig: for these
	// fields it sees the values of the fresh object (EarlyCfg = CurCfg with them taken from PreCfg)
	PreCfg   []string `json:"-"`
	EarlyCfg []string `json:"-"`
	NeedACL  bool     `json:"need_acl,omitempty"` // paths with different per path configurations
	Flags    BackFlags
	Res      []EpDump               `json:"res"` // endpoints of the backend kept in Items() after the update
	Exch     []fakehaproxy.Exchange `json:"exch,omitempty"`
}

// HostObs is what happened to one re-created host.
type HostObs struct {
	Name    string                 `json:"name"`
	New     bool                   `json:"new,omitempty"`
	Shrunk  bool                   `json:"shrunk,omitempty"`
	OldCfg  []string               `json:"-"`
	CurCfg  []string               `json:"-"`
	CfgDiff []string               `json:"cfg_diff,omitempty"`
	HasTLS  bool                   `json:"has_tls"`
	File    string                 `json:"file"`
	Hash    string                 `json:"hash"`
	OldFile string                 `json:"old_file"`
	OldHash string                 `json:"old_hash"`
	Body    string                 `json:"body"` // certificate body of the file on disk (what readFile returns, between the PEM markers)
	Exch    []fakehaproxy.Exchange `json:"exch,omitempty"`
}

// StepObs is what one HAProxyUpdate did.
type StepObs struct {
	Err         string    `json:"err,omitempty"`
	Panic       string    `json:"panic,omitempty"`
	Reloads     int       `json:"reloads"`
	Metric      string    `json:"metric"` // noop | dynamic | full (which IncUpdate* was called)
	Committed   bool      `json:"committed"`
	Backs       []BackObs `json:"backs,omitempty"`
	Hosts       []HostObs `json:"hosts,omitempty"`
	GlobalDiff  bool      `json:"global_diff,omitempty"`
	DefaultDiff bool      `json:"default_diff,omitempty"` // the default backend is not the one of the last commit
	AddedBack   bool      `json:"added_back,omitempty"`
	HostSet     bool      `json:"host_set,omitempty"` // a host was added or removed
	Commands    int       `json:"commands"`
	Lost        int       `json:"lost"`
	Stale       int       `json:"stale"` // commands executed by a process that no longer listens
	FaultsHit   int       `json:"faults_hit"`
	// Diff: running process vs files on disk after the step ("" = equal)
	Diff string `json:"diff,omitempty"`
	// AllBacks: every backend of Items() after the step (for the slot invariants of C11)
	AllBacks map[string][]EpDump  `json:"-"`
	AllFlags map[string]BackFlags `json:"-"`
	Loaded   *fakehaproxy.State   `json:"-"` // parse of the files on disk after the step
	Running  *fakehaproxy.State   `json:"-"`
	Before   *fakehaproxy.State   `json:"-"` // running process before the step
	// BeforeBacks / BeforeFlags: every backend of Items() before the step
	BeforeBacks map[string][]EpDump               `json:"-"`
	BeforeFlags map[string]BackFlags              `json:"-"`
	Written     bool                              `json:"written"` // some *.cfg was rewritten
	First       bool                              `json:"first,omitempty"`
	HostRemoved bool                              `json:"host_removed,omitempty"`
	BackRemoved bool                              `json:"back_removed,omitempty"`
	CertExch    map[string][]fakehaproxy.Exchange `json:"-"`
}

// ---------------------------------------------------------------- plumbing

type nullLogger struct{}

func (nullLogger) InfoV(v int, msg string, args ...interface{}) {}
func (nullLogger) Info(msg string, args ...interface{})         {}
func (nullLogger) Warn(msg string, args ...interface{})         {}
func (nullLogger) Error(msg string, args ...interface{})        {}
func (nullLogger) Fatal(msg string, args ...interface{})        {}

type metrics struct{ last string }

func (m *metrics) HAProxyShowInfoResponseTime(time.Duration)                {}
func (m *metrics) HAProxySetServerResponseTime(time.Duration)               {}
func (m *metrics) HAProxySetSSLCertResponseTime(time.Duration)              {}
func (m *metrics) ControllerProcTime(string, time.Duration)                 {}
func (m *metrics) AddIdleFactor(int)                                        {}
func (m *metrics) IncUpdateNoop()                                           { m.last += "noop " }
func (m *metrics) IncUpdateDynamic()                                        { m.last += "dynamic " }
func (m *metrics) IncUpdateFull()                                           { m.last += "full " }
func (m *metrics) UpdateSuccessful(bool)                                    {}
func (m *metrics) SetCertExpireDate(domain, cn string, notAfter *time.Time) {}
func (m *metrics) ClearCertExpire()                                         {}
func (m *metrics) IncCertSigningMissing(domains string, success bool)       {}
func (m *metrics) IncCertSigningExpiring(domains string, success bool)      {}
func (m *metrics) IncCertSigningOutdated(domains string, success bool)      {}

// World is one running instance + fake.
type World struct {
	Dir        string
	Inst       haproxy.Instance
	Fake       *fakehaproxy.Fake
	socks      *fakehaproxy.Sockets
	met        *metrics
	backs      map[string]BackSpec
	hosts      map[string]HostSpec
	maxconn    int
	strictHost bool
	defBack    string // desired default backend id
	defLast    string // default backend id at the last commit
	nstep      int
	dumper     spew.ConfigState
}

var worldSeq int

// NewWorld creates the instance with its files under dir (wiped).
func NewWorld(dir string, in *Input) (*World, error) {
	_ = os.RemoveAll(dir)
	for _, d := range []string{"", "errorfiles", "lua", "maps", "ssl"} {
		if err := os.MkdirAll(filepath.Join(dir, d), 0o755); err != nil {
			return nil, err
		}
	}
	worldSeq++
	w := &World{Dir: dir, met: &metrics{}, backs: map[string]BackSpec{}, hosts: map[string]HostSpec{}, strictHost: in.StrictHost}
	w.dumper = spew.ConfigState{Indent: " ", DisablePointerAddresses: true, DisableCapacities: true, DisableMethods: true, SortKeys: true, MaxDepth: 8}
	w.Fake = fakehaproxy.New(dir)
	w.Fake.OldExits = in.OldExits
	// unix socket paths are limited to ~100 bytes: keep them short
	admin := filepath.Join(dir, "a.sock")
	master := filepath.Join(dir, "m.sock")
	if len(admin) > 100 {
		return nil, fmt.Errorf("socket path too long: %s", admin)
	}
	socks, err := fakehaproxy.Serve(w.Fake, admin, master)
	if err != nil {
		return nil, err
	}
	w.socks = socks
	w.Inst = haproxy.CreateInstance(nullLogger{}, haproxy.InstanceOptions{
		RootFSPrefix:    repoRoot() + "/rootfs",
		HAProxyCfgDir:   dir,
		HAProxyMapsDir:  filepath.Join(dir, "maps"),
		BackendShards:   in.Shards,
		IsExternal:      true,
		MasterSocket:    master,
		AdminSocket:     admin,
		Metrics:         w.met,
		SortEndpointsBy: in.SortBy,
	})
	if err := w.Inst.ParseTemplates(); err != nil {
		return nil, err
	}
	cfg := w.Inst.Config()
	w.initGlobal(cfg)
	return w, nil
}

func (w *World) initGlobal(cfg haproxy.Config) {
	def := filepath.Join(w.Dir, "ssl", "default.pem")
	_ = os.WriteFile(def, []byte(pem("default-1")), 0o644)
	cfg.Frontend().DefaultCrtFile = def
	cfg.Frontend().DefaultCrtHash = hash(pem("default-1"))
	g := cfg.Global()
	g.Bind.HTTPBind = ":80"
	g.Bind.HTTPSBind = ":443"
	g.MaxConn = 2000 + w.maxconn
	g.StrictHost = w.strictHost
}

// Close releases the sockets.
func (w *World) Close() {
	w.socks.Close()
}

func pem(body string) string {
	return "-----BEGIN CERTIFICATE-----\n" + body + "\n-----END CERTIFICATE-----\n"
}

func hash(s string) string { return fmt.Sprintf("%x", sha1.Sum([]byte(s))) }

// CrtPath is where the certificate of a host spec lives.
func (w *World) CrtPath(base string) string { return filepath.Join(w.Dir, "ssl", base+".pem") }

func (w *World) buildBackend(cfg haproxy.Config, s *BackSpec) *hatypes.Backend {
	b := cfg.Backends().AcquireBackend(s.NS, s.Name, s.Port)
	b.EpNaming = hatypes.EndpointNaming(s.Naming)
	b.Dynamic = hatypes.DynBackendConfig{DynUpdate: s.Dyn, MinFreeSlots: s.MinFree, BlockSize: s.Block}
	b.Cookie.Name = s.Cookie
	b.Cookie.Preserve = s.Preserve
	if s.Cookie != "" {
		b.Cookie.Strategy = "insert"
	}
	b.Server.InitialWeight = s.InitW
	b.Resolver = s.Resolver
	b.BlueGreen.HeaderName = s.BGHeader
	b.ModeTCP = s.ModeTCP
	b.BalanceAlgorithm = s.Balance
	if s.Mut != "" {
		Mutate(b, s.Mut)
	}
	for _, e := range s.Eps {
		var ep *hatypes.Endpoint
		if s.Acquire {
			ep = b.AcquireEndpoint(e.IP, e.Port, e.Ref)
		} else {
			ep = b.AddEndpoint(e.IP, e.Port, e.Ref)
		}
		ep.Weight = e.Weight
		ep.Label = e.Label
		ep.PUID = e.PUID
		if b.CookieAffinity() {
			// syncBackendEndpointCookies: server-name strategy, or pod uid
			if e.Cookie != "" {
				ep.CookieValue = e.Cookie
			} else {
				ep.CookieValue = ep.Name
			}
		}
	}
	return b
}

func (w *World) buildHost(cfg haproxy.Config, s *HostSpec) *hatypes.Host {
	h := cfg.Hosts().AcquireHost(s.Name)
	path := s.Path
	if path == "" {
		path = "/"
	}
	// nil when the host has no backend (or it is gone): a path to _error404
	back := cfg.Backends().Items()[s.Backend]
	applyPathCfg(back, h.AddPath(back, path, hatypes.MatchBegin), s.PathCfg)
	if s.Path2Cfg != "" && back != nil {
		applyPathCfg(back, h.AddPath(back, "/p2", hatypes.MatchBegin), s.Path2Cfg)
	}
	h.RootRedirect = s.Extra
	if s.Passthrough {
		h.SetSSLPassthrough(true)
	}
	if s.AuthTLS != "" {
		p := w.CrtPath("ca-" + s.Name)
		_ = os.WriteFile(p, []byte(pem(s.AuthTLS)), 0o644)
		h.TLS.CAFilename = p
		h.TLS.CAHash = hash(pem(s.AuthTLS))
	}
	if s.Crt != "" {
		p := w.CrtPath(s.Crt)
		_ = os.WriteFile(p, []byte(pem(s.Content)), 0o644)
		h.TLS.TLSFilename = p
		h.TLS.TLSHash = hash(pem(s.Content))
		h.TLS.TLSCommonName = s.Name
		h.TLS.TLSNotAfter = time.Unix(int64(2000000000+len(s.Content)), 0).UTC()
	}
	if s.Mut != "" {
		Mutate(h, s.Mut)
	}
	return h
}

// PathCfgKinds are the per path configurations the driver knows ("" = the default one).
var PathCfgKinds = []string{"sslredir", "hsts", "body", "allow"}

// applyPathCfg sets the per path configuration on the backend path of a host path, the way the
// annotation updater does after the converter linked host and backend.
func applyPathCfg(back *hatypes.Backend, hp *hatypes.HostPath, kind string) {
	if back == nil || hp == nil || kind == "" {
		return
	}
	bp := back.FindBackendPath(hp.Link)
	if bp == nil {
		return
	}
	switch kind {
	case "sslredir":
		bp.SSLRedirect = true
	case "hsts":
		bp.HSTS.Enabled = true
		bp.HSTS.MaxAge = 15768000
	case "body":
		bp.MaxBodySize = 1048576
	case "allow":
		bp.AllowedIPHTTP.Rule = []string{"10.0.0.0/8"}
	}
}

// Mutate alters the named field of a struct (pointer) so that it differs from a
// freshly created one: strings get "verif", ints 7, bools are flipped, slices get
// one zero element, structs get their first settable leaf mutated.
func Mutate(obj interface{}, field string) bool {
	v := reflect.ValueOf(obj).Elem()
	f := v.FieldByName(field)
	if !f.IsValid() || !f.CanSet() {
		return false
	}
	return mutateValue(f)
}

func mutateValue(f reflect.Value) bool {
	switch f.Kind() {
	case reflect.String:
		f.SetString(f.String() + "verif")
	case reflect.Int, reflect.Int32, reflect.Int64:
		f.SetInt(f.Int() + 7)
	case reflect.Bool:
		f.SetBool(!f.Bool())
	case reflect.Slice:
		et := f.Type().Elem()
		if et.Kind() == reflect.Ptr {
			f.Set(reflect.Append(f, reflect.New(et.Elem())))
		} else {
			f.Set(reflect.Append(f, reflect.Zero(et)))
		}
	case reflect.Struct:
		for i := 0; i < f.NumField(); i++ {
			if f.Field(i).CanSet() && mutateValue(f.Field(i)) {
				return true
			}
		}
		return false
	default:
		return false
	}
	return true
}

// MutableBackendFields lists the exported Backend fields Mutate can alter, other
// than those checkBackendPair blanks or the harness sets itself.
func MutableBackendFields() []string {
	var out []string
	t := reflect.TypeOf(hatypes.Backend{})
	skip := map[string]bool{"ID": true, "Namespace": true, "Name": true, "Port": true, "Endpoints": true, "Dynamic": true,
		"EpNaming": true, "Resolver": true, "Paths": true, "PathsMap": true, "PathsDefaultHostMap": true, "SourceIPs": true}
	for i := 0; i < t.NumField(); i++ {
		f := t.Field(i)
		if f.PkgPath != "" || skip[f.Name] {
			continue
		}
		z := reflect.New(f.Type).Elem()
		if mutateValue(z) {
			out = append(out, f.Name)
		}
	}
	return out
}

// MutableHostFields lists the exported Host fields Mutate can alter.
func MutableHostFields() []string {
	return []string{"Alias", "Redirect", "HTTPPassthroughBackend", "VarNamespace"}
}

// BackendFieldNames are the fields of hatypes.Backend in declaration order.
func BackendFieldNames() []string {
	var out []string
	t := reflect.TypeOf(hatypes.Backend{})
	for i := 0; i < t.NumField(); i++ {
		out = append(out, t.Field(i).Name)
	}
	return out
}

// HostFieldNames are the fields of hatypes.Host, TLS expanded, hosts back-pointer left out.
func HostFieldNames() []string {
	var out []string
	t := reflect.TypeOf(hatypes.Host{})
	for i := 0; i < t.NumField(); i++ {
		n := t.Field(i).Name
		switch n {
		case "hosts":
		case "TLS":
			tt := reflect.TypeOf(hatypes.TLSConfig{})
			for j := 0; j < tt.NumField(); j++ {
				out = append(out, "TLS."+tt.Field(j).Name)
			}
			out = append(out, "TLS.CAErrorPage", "TLS.UseDefaultCrt", "TLS.FollowRedirect")
		default:
			out = append(out, n)
		}
	}
	return out
}

func (w *World) digest(v reflect.Value) string {
	// fields come from an addressable struct: read them (unexported ones too) through their address
	if !v.CanAddr() {
		panic("digest: field not addressable")
	}
	x := reflect.NewAt(v.Type(), unsafe.Pointer(v.UnsafeAddr())).Elem().Interface()
	s := w.dumper.Sdump(x)
	return fmt.Sprintf("%x", sha1.Sum([]byte(s)))[:12]
}

// BackendCfg returns one digest per field of the real Backend (declaration order).
func (w *World) BackendCfg(b *hatypes.Backend) []string {
	v := reflect.ValueOf(b).Elem()
	out := make([]string, v.NumField())
	for i := 0; i < v.NumField(); i++ {
		if v.Type().Field(i).Name == "Endpoints" {
			out[i] = "-"
			continue
		}
		out[i] = w.digest(v.Field(i))
	}
	return out
}

// HostCfg returns one digest per name of HostFieldNames.
func (w *World) HostCfg(h *hatypes.Host) []string {
	v := reflect.ValueOf(h).Elem()
	var out []string
	for i := 0; i < v.NumField(); i++ {
		n := v.Type().Field(i).Name
		switch n {
		case "hosts":
		case "TLS":
			tv := v.Field(i).FieldByName("TLSConfig")
			for j := 0; j < tv.NumField(); j++ {
				out = append(out, w.digest(tv.Field(j)))
			}
			out = append(out, w.digest(v.Field(i).FieldByName("CAErrorPage")), w.digest(v.Field(i).FieldByName("UseDefaultCrt")),
				w.digest(v.Field(i).FieldByName("FollowRedirect")))
		default:
			out = append(out, w.digest(v.Field(i)))
		}
	}
	return out
}

func diffNames(names, a, b []string) []string {
	var out []string
	for i := range names {
		if i < len(a) && i < len(b) && a[i] != b[i] {
			out = append(out, names[i])
		}
	}
	return out
}

// ---------------------------------------------------------------- one step

type backTrack struct {
	id  string
	old *hatypes.Backend
	cur *hatypes.Backend
	obs BackObs
}

type hostTrack struct {
	name string
	old  *hatypes.Host
	cur  *hatypes.Host
	obs  HostObs
}

// Apply runs one step on the real instance and returns what was observed.
func (w *World) Apply(st *Step) (obs *StepObs) {
	obs = &StepObs{}
	// a replayed input may list an object twice: the last entry is the desired state
	st.Hosts = dedupHosts(st.Hosts)
	st.Backs = dedupBacks(st.Backs)
	w.expandDirty(st)
	if st.Full {
		w.syncCertFiles(st)
	}
	cfg := w.Inst.Config()
	first := w.nstep == 0
	obs.First = first
	w.nstep++
	obs.BeforeBacks = map[string][]EpDump{}
	obs.BeforeFlags = map[string]BackFlags{}
	for id, b := range cfg.Backends().Items() {
		obs.BeforeBacks[id] = DumpEps(b)
		obs.BeforeFlags[id] = FlagsOf(b)
	}
	// certificate faults are scripted on the base name of the file
	faults := append([]fakehaproxy.Fault(nil), st.Faults...)
	for i := range faults {
		if strings.HasPrefix(faults[i].Target, "cert:") && !strings.HasPrefix(faults[i].Target, "cert:/") {
			faults[i].Target = "cert:" + w.CrtPath(strings.TrimPrefix(faults[i].Target, "cert:"))
		}
	}

	// desired state
	if st.MaxConn != 0 {
		w.maxconn = st.MaxConn
		obs.GlobalDiff = !first
	}
	var btr []*backTrack
	var htr []*hostTrack
	if st.Full {
		for _, b := range st.Backs {
			w.backs[b.ID()] = b
		}
		for _, id := range st.DelBacks {
			delete(w.backs, id)
		}
		for _, h := range st.Hosts {
			w.hosts[h.Name] = h
		}
		for _, n := range st.DelHosts {
			delete(w.hosts, n)
		}
		oldB := map[string]*hatypes.Backend{}
		for id, b := range cfg.Backends().Items() {
			oldB[id] = b
		}
		cfg.Clear()
		cfg = w.Inst.Config()
		w.initGlobal(cfg)
		for _, id := range sortedKeys(w.backs) {
			s := w.backs[id]
			cur := w.buildBackend(cfg, &s)
			btr = append(btr, &backTrack{id: id, old: oldB[id], cur: cur})
		}
		for _, n := range sortedKeys(w.hosts) {
			s := w.hosts[n]
			cur := w.buildHost(cfg, &s)
			htr = append(htr, &hostTrack{name: n, cur: cur})
		}
	} else {
		cfg.Global().MaxConn = 2000 + w.maxconn
		// partial sync: RemoveAll the dirty objects, then re-create them
		var dirtyB, dirtyH []string
		for _, b := range st.Backs {
			dirtyB = append(dirtyB, b.ID())
		}
		dirtyB = append(dirtyB, st.DelBacks...)
		for _, h := range st.Hosts {
			dirtyH = append(dirtyH, h.Name)
		}
		dirtyH = append(dirtyH, st.DelHosts...)
		oldB := map[string]*hatypes.Backend{}
		for _, id := range dirtyB {
			if b := cfg.Backends().Items()[id]; b != nil {
				oldB[id] = b
			}
		}
		oldH := map[string]*hatypes.Host{}
		for _, n := range dirtyH {
			if h := cfg.Hosts().Items()[n]; h != nil {
				oldH[n] = h
			}
		}
		cfg.Hosts().RemoveAll(dirtyH)
		cfg.Backends().RemoveAll(dirtyB)
		for _, id := range st.DelBacks {
			if _, ok := oldB[id]; ok {
				obs.BackRemoved = true
			}
			delete(w.backs, id)
		}
		for _, n := range st.DelHosts {
			if _, ok := w.hosts[n]; ok {
				obs.HostSet = true
				obs.HostRemoved = true
			}
			delete(w.hosts, n)
		}
		for i := range st.Backs {
			s := st.Backs[i]
			w.backs[s.ID()] = s
			cur := w.buildBackend(cfg, &s)
			btr = append(btr, &backTrack{id: s.ID(), old: oldB[s.ID()], cur: cur})
			if oldB[s.ID()] == nil {
				obs.AddedBack = true
			}
		}
		for i := range st.Hosts {
			s := st.Hosts[i]
			w.hosts[s.Name] = s
			cur := w.buildHost(cfg, &s)
			htr = append(htr, &hostTrack{name: s.Name, old: oldH[s.Name], cur: cur})
			if oldH[s.Name] == nil {
				obs.HostSet = true
			}
		}
	}
	// the default backend (the converter sets it again whenever that backend is re-created)
	if st.DefBack == "-" {
		w.defBack = ""
	} else if st.DefBack != "" {
		w.defBack = st.DefBack
	}
	cfg.Backends().DefaultBackend = cfg.Backends().Items()[w.defBack]
	cur := ""
	if cfg.Backends().DefaultBackend != nil {
		cur = w.defBack
	}
	obs.DefaultDiff = !first && cur != w.defLast
	w.defLast = cur
	for _, t := range btr {
		t.obs.ID = t.id
		t.obs.New = t.old == nil
		if t.old != nil {
			t.obs.Old = DumpEps(t.old)
			t.obs.OldFlags = FlagsOf(t.old)
		}
		t.obs.Cur = DumpEps(t.cur)
		t.obs.PreCfg = w.BackendCfg(t.cur)
	}
	sigBefore := w.cfgSignature()
	obs.Before = w.Fake.St.Clone()

	// the real update
	tA := time.Now()
	w.Fake.Begin(faults)
	w.met.last = ""
	func() {
		defer func() {
			if r := recover(); r != nil {
				obs.Panic = fmt.Sprint(r)
				// the deferred Commit of HAProxyUpdate ran during the unwinding
			}
		}()
		if err := w.Inst.HAProxyUpdate(utils.NewTimer(nil)); err != nil {
			obs.Err = err.Error()
		}
	}()
	exch, reloads := w.Fake.Snapshot()
	_ = tA
	obs.Reloads = reloads
	obs.Written = w.cfgSignature() != sigBefore
	obs.CertExch = map[string][]fakehaproxy.Exchange{}
	for _, e := range exch {
		if strings.HasPrefix(e.Target, "cert:") {
			obs.CertExch[e.Target] = append(obs.CertExch[e.Target], e)
		}
	}
	obs.Metric = strings.TrimSpace(w.met.last)
	obs.Commands = len(exch)
	for _, e := range exch {
		if e.Lost {
			obs.Lost++
		}
		if e.Stale {
			obs.Stale++
		}
		if e.Fault != "" {
			obs.FaultsHit++
		}
	}

	// what is kept
	cfg = w.Inst.Config()
	bnames := BackendFieldNames()
	for _, t := range btr {
		kept := cfg.Backends().Items()[t.id]
		t.obs.Shrunk = t.old != nil && kept == t.old
		t.obs.Flags = FlagsOf(t.cur)
		t.obs.CurCfg = w.BackendCfg(t.cur)
		t.obs.EarlyCfg = append([]string(nil), t.obs.CurCfg...)
		for i, n := range bnames {
			if n == "PathsMap" || n == "PathsDefaultHostMap" || n == "pathConfig" {
				t.obs.EarlyCfg[i] = t.obs.PreCfg[i]
			}
		}
		t.obs.NeedACL = t.cur.NeedACL()
		if t.old != nil {
			t.obs.OldCfg = w.BackendCfg(t.old)
			t.obs.CfgDiff = diffNames(bnames, t.obs.OldCfg, t.obs.CurCfg)
		}
		if kept != nil {
			t.obs.Res = DumpEps(kept)
		}
		for _, e := range exch {
			if e.Target == t.id {
				t.obs.Exch = append(t.obs.Exch, e)
			}
		}
		obs.Backs = append(obs.Backs, t.obs)
	}
	hnames := HostFieldNames()
	for _, t := range htr {
		kept := cfg.Hosts().Items()[t.name]
		t.obs.Name = t.name
		t.obs.New = t.old == nil
		t.obs.Shrunk = t.old != nil && kept == t.old
		t.obs.CurCfg = w.HostCfg(t.cur)
		t.obs.HasTLS = t.cur.TLS.HasTLS()
		t.obs.File = t.cur.TLS.TLSFilename
		t.obs.Hash = t.cur.TLS.TLSHash
		t.obs.Body = w.hosts[t.name].Content
		if t.old != nil {
			t.obs.OldFile = t.old.TLS.TLSFilename
			t.obs.OldHash = t.old.TLS.TLSHash
			t.obs.OldCfg = w.HostCfg(t.old)
			t.obs.CfgDiff = diffNames(hnames, t.obs.OldCfg, t.obs.CurCfg)
		}
		for _, e := range exch {
			if t.obs.File != "" && e.Target == "cert:"+t.obs.File {
				t.obs.Exch = append(t.obs.Exch, e)
			}
		}
		obs.Hosts = append(obs.Hosts, t.obs)
	}
	obs.AllBacks = map[string][]EpDump{}
	obs.AllFlags = map[string]BackFlags{}
	for id, b := range cfg.Backends().Items() {
		obs.AllBacks[id] = DumpEps(b)
		obs.AllFlags[id] = FlagsOf(b)
	}

	// the property's oracle: running process vs the files on disk
	loaded, err := fakehaproxy.LoadDir(w.Dir)
	if err != nil {
		obs.Diff = "files do not load: " + err.Error()
	} else {
		obs.Loaded = loaded
		obs.Running = w.Fake.St.Clone()
		obs.Diff = fakehaproxy.Diff(w.Fake.St, loaded)
	}
	return obs
}

// expandDirty makes a partial step re-create what the converters would: the tracker links an
// ingress to its hosts and backends, so a dirty backend comes with the hosts routing to it and a
// dirty host with its backend. Objects the step does not list are re-created with their last
// spec (Hosts().RemoveAll / Backends().RemoveAll, then Acquire* with identical content).
func (w *World) expandDirty(st *Step) {
	if st.Full {
		return
	}
	for changed := true; changed; {
		changed = false
		backs := map[string]bool{}
		for _, b := range st.Backs {
			backs[b.ID()] = true
		}
		for _, id := range st.DelBacks {
			backs[id] = true
		}
		hosts := map[string]bool{}
		for _, h := range st.Hosts {
			hosts[h.Name] = true
		}
		for _, n := range st.DelHosts {
			hosts[n] = true
		}
		// the state the step leads to
		spec := func(n string) (HostSpec, bool) {
			for _, h := range st.Hosts {
				if h.Name == n {
					return h, true
				}
			}
			h, ok := w.hosts[n]
			return h, ok
		}
		for _, n := range sortedKeys(w.hosts) {
			h, _ := spec(n)
			old := w.hosts[n]
			if !hosts[n] && (backs[h.Backend] || backs[old.Backend]) && h.Backend != "" {
				st.Hosts = append(st.Hosts, h)
				hosts[n] = true
				changed = true
			}
		}
		for _, n := range sortedKeys(hosts) {
			for _, id := range []string{func() string { h, _ := spec(n); return h.Backend }(), w.hosts[n].Backend} {
				if id == "" || backs[id] {
					continue
				}
				if b, ok := w.backs[id]; ok {
					st.Backs = append(st.Backs, b)
					backs[id] = true
					changed = true
				}
			}
		}
	}
	w.syncCertFiles(st)
	sort.SliceStable(st.Hosts, func(i, j int) bool { return st.Hosts[i].Name < st.Hosts[j].Name })
}

// syncCertFiles keeps one content per certificate file: a file is one Secret, so a new content
// reaches every host that uses it (the tracker marks all of them dirty). The content of the last
// host of the step that names the file wins; hosts of the world on that file join the step.
func (w *World) syncCertFiles(st *Step) {
	content := map[string]string{}
	for _, h := range st.Hosts {
		if h.Crt != "" {
			content[h.Crt] = h.Content
		}
	}
	inStep := map[string]bool{}
	for i := range st.Hosts {
		h := &st.Hosts[i]
		inStep[h.Name] = true
		if h.Crt != "" {
			h.Content = content[h.Crt]
		}
	}
	for _, n := range st.DelHosts {
		inStep[n] = true
	}
	for _, n := range sortedKeys(w.hosts) {
		x := w.hosts[n]
		if c, ok := content[x.Crt]; ok && x.Crt != "" && !inStep[n] && x.Content != c {
			x.Content = c
			st.Hosts = append(st.Hosts, x)
		}
	}
}

// cfgSignature identifies the version of the *.cfg files on disk.
func (w *World) cfgSignature() string {
	files, _ := filepath.Glob(filepath.Join(w.Dir, "*.cfg"))
	sort.Strings(files)
	var sb strings.Builder
	for _, f := range files {
		if fi, err := os.Stat(f); err == nil {
			fmt.Fprintf(&sb, "%s:%d:%d;", filepath.Base(f), fi.Size(), fi.ModTime().UnixNano())
		}
	}
	return sb.String()
}

func sortedKeys[V any](m map[string]V) []string {
	ks := make([]string, 0, len(m))
	for k := range m {
		ks = append(ks, k)
	}
	sort.Strings(ks)
	return ks
}

// repoRoot is /repo, or the scratch copy named by VERIF_REPO when the checks are tried
// against a copy of the repository.
func repoRoot() string {
	if r := os.Getenv("VERIF_REPO"); r != "" {
		return r
	}
	return "/repo"
}
