// Package sem reduces a written configuration (cfgnorm.NF) to its *behaviour*: what every
// request of a finite universe is routed to, what every backend contains, which
// certificate every SNI name gets, plus the statements that are not lookups. Map file
// names, the split of entries over map files and their numbering are internal layout and
// are not part of the behaviour: they are replaced by the routing function over the
// universe. This is the observable compared by the C01/C05/C06/C15 oracles.
package sem

import (
	"encoding/json"
	"fmt"
	"regexp"
	"sort"
	"strings"

	"verif/harness/lib/cfgnorm"
)

// Universe is the finite set of requests and SNI names the behaviour is sampled on.
type Universe struct {
	Hosts []string
	Paths []string
	SNI   []string
}

// DefaultUniverse derives a universe from host and path pools: every declared host and path
// plus their neighbours (case variants, port suffix, extra labels, extra segments,
// trailing slash, longer names).
func DefaultUniverse(hosts, paths []string) Universe {
	hs := map[string]bool{"unknown.example": true, "": true}
	for _, h := range hosts {
		if h == "" {
			continue
		}
		c := strings.ReplaceAll(h, "*", "x")
		hs[c] = true
		hs[strings.ToUpper(c[:1])+c[1:]] = true
		hs[c+":8080"] = true
		hs["y."+c] = true
		if strings.HasPrefix(h, "*.") {
			hs[h[2:]] = true
			hs["p.q."+h[2:]] = true
		}
	}
	ps := map[string]bool{"/": true, "/zzz": true, "": true}
	for _, p := range paths {
		if p == "" {
			continue
		}
		ps[p] = true
		ps[p+"x"] = true
		ps[strings.TrimSuffix(p, "/")+"/x"] = true
		ps[strings.TrimSuffix(p, "/")+"/"] = true
		ps[strings.ToUpper(p)] = true
		if len(p) > 1 {
			ps[strings.TrimSuffix(p, "/")] = true
			ps[p[:len(p)-1]] = true
		}
	}
	u := Universe{}
	for h := range hs {
		u.Hosts = append(u.Hosts, h)
		u.SNI = append(u.SNI, strings.ToLower(strings.Split(h, ":")[0]))
	}
	for p := range ps {
		u.Paths = append(u.Paths, p)
	}
	sort.Strings(u.Hosts)
	sort.Strings(u.Paths)
	sort.Strings(u.SNI)
	return u
}

// RouteObs is what one request observes.
type RouteObs struct {
	Req     string            `json:"req"`
	Verdict string            `json:"verdict"`
	Backend string            `json:"backend,omitempty"`
	Detail  string            `json:"detail,omitempty"`
	Servers []string          `json:"servers,omitempty"`
	Vars    map[string]string `json:"vars,omitempty"`
}

// BackendObs is what a backend section contains (servers as a sorted multiset).
type BackendObs struct {
	Name    string   `json:"name"`
	Mode    string   `json:"mode"`
	Servers []string `json:"servers"`
	Rules   []string `json:"rules"`
}

// FrontObs is a frontend without its lookups.
type FrontObs struct {
	Name           string   `json:"name"`
	Mode           string   `json:"mode"`
	Binds          []string `json:"binds"`
	Rules          []string `json:"rules"`
	UseBackends    []string `json:"use_backends"`
	DefaultBackend string   `json:"default_backend"`
}

// Behaviour is the comparable observable.
type Behaviour struct {
	Routes    []RouteObs          `json:"routes"`
	Backends  []BackendObs        `json:"backends"`
	Fronts    []FrontObs          `json:"fronts"`
	SNI       map[string]string   `json:"sni"` // sni name -> certificate content hash
	Global    []string            `json:"global"`
	Defaults  []string            `json:"defaults"`
	Userlists []*cfgnorm.Userlist `json:"userlists"`
	Others    []cfgnorm.Section   `json:"others"`
	Problems  []string            `json:"problems"`
}

func serverKeys(ss []cfgnorm.Server) []string {
	var out []string
	for _, s := range ss {
		if s.Disabled {
			continue
		}
		out = append(out, fmt.Sprintf("%s:%d w%d %s", s.IP, s.Port, s.Weight, s.Options))
	}
	sort.Strings(out)
	return out
}

// SNICert evaluates a crt-list the way HAProxy selects a certificate for an SNI name:
// exact filter, then wildcard filter (one label), then the default (first / "!*"-less) entry.
func SNICert(entries []cfgnorm.CrtEntry, sni string) string {
	def := ""
	for i, e := range entries {
		if i == 0 {
			def = e.Cert
		}
		for _, f := range e.Filters {
			if !strings.HasPrefix(f, "!") && strings.EqualFold(f, sni) {
				return e.Cert
			}
		}
	}
	if i := strings.Index(sni, "."); i >= 0 {
		w := "*" + sni[i:]
		for _, e := range entries {
			for _, f := range e.Filters {
				if strings.EqualFold(f, w) {
					return e.Cert
				}
			}
		}
	}
	return def
}

// Of computes the behaviour of a normal form over a universe.
func Of(nf *cfgnorm.NF, u Universe) *Behaviour {
	b := &Behaviour{SNI: map[string]string{}, Global: nf.Global, Defaults: nf.Defaults,
		Userlists: nf.Userlists, Others: nf.Others, Problems: nf.Problems}
	for _, scheme := range []string{"http", "https"} {
		for _, h := range u.Hosts {
			for _, p := range u.Paths {
				r := cfgnorm.Route(nf, cfgnorm.Request{Scheme: scheme, Host: h, Path: p})
				o := RouteObs{Req: scheme + "://" + h + p, Verdict: r.Verdict, Backend: r.Backend, Detail: r.Detail, Vars: r.Vars}
				if r.Verdict == "backend" {
					o.Servers = serverKeys(r.Servers)
				}
				b.Routes = append(b.Routes, o)
			}
		}
	}
	for _, be := range nf.Backends {
		b.Backends = append(b.Backends, BackendObs{Name: be.Name, Mode: be.Mode, Servers: serverKeys(be.Servers), Rules: be.Rules})
	}
	sort.Slice(b.Backends, func(i, j int) bool { return b.Backends[i].Name < b.Backends[j].Name })
	for _, f := range nf.Frontends {
		fo := FrontObs{Name: f.Name, Mode: f.Mode, Rules: f.Rules, DefaultBackend: f.DefaultBackend}
		for _, bd := range f.Binds {
			fo.Binds = append(fo.Binds, bd.Addr+" "+bd.Options)
			for _, s := range u.SNI {
				if len(bd.CrtList) > 0 {
					b.SNI[f.Name+"|"+bd.Addr+"|"+s] = SNICert(bd.CrtList, s)
				}
			}
		}
		for _, ub := range f.UseBackends {
			fo.UseBackends = append(fo.UseBackends, ub.Target+" "+ub.Cond)
		}
		for _, s := range f.Servers {
			fo.Rules = append(fo.Rules, fmt.Sprintf("server %s:%d w%d", s.IP, s.Port, s.Weight))
		}
		b.Fronts = append(b.Fronts, fo)
	}
	sort.Slice(b.Fronts, func(i, j int) bool { return b.Fronts[i].Name < b.Fronts[j].Name })
	canonicalise(b)
	return b
}

var authBackRe = regexp.MustCompile(`_auth_backend[0-9]+_[0-9]+`)
var pathIDRe = regexp.MustCompile(`\bpath[0-9]+\b`)

// canonicalise erases two kinds of internal numbering that are not behaviour:
// `_auth_backendNNN_port` names (numbered in processing order) are renamed after the
// servers and rules of that backend, and path ids (`pathNN`, numbered in the order the
// paths were added to a backend) are masked in route details and variables (backend rules
// already have them resolved by cfgnorm).
func canonicalise(b *Behaviour) {
	names := map[string]string{}
	for _, be := range b.Backends {
		if authBackRe.FindString(be.Name) == be.Name {
			rules := authBackRe.ReplaceAllString(strings.Join(be.Rules, ";"), "_auth_backend")
			names[be.Name] = "_auth_backend{" + strings.Join(be.Servers, ",") + "|" + rules + "}"
		}
	}
	ren := func(s string) string {
		if len(names) == 0 {
			return s
		}
		return authBackRe.ReplaceAllStringFunc(s, func(x string) string {
			if n, ok := names[x]; ok {
				return n
			}
			return x
		})
	}
	for i := range b.Routes {
		r := &b.Routes[i]
		r.Backend = ren(r.Backend)
		r.Detail = pathIDRe.ReplaceAllString(ren(r.Detail), "path##")
		for k, v := range r.Vars {
			if k == "txn.pathID" {
				r.Vars[k] = "path##"
			} else {
				r.Vars[k] = ren(v)
			}
		}
	}
	for i := range b.Backends {
		be := &b.Backends[i]
		be.Name = ren(be.Name)
		for j := range be.Rules {
			be.Rules[j] = ren(be.Rules[j])
		}
	}
	sort.SliceStable(b.Backends, func(i, j int) bool { return b.Backends[i].Name < b.Backends[j].Name })
	for i := range b.Fronts {
		f := &b.Fronts[i]
		f.DefaultBackend = ren(f.DefaultBackend)
		for j := range f.Rules {
			f.Rules[j] = ren(f.Rules[j])
		}
		for j := range f.UseBackends {
			f.UseBackends[j] = ren(f.UseBackends[j])
		}
	}
}

// JSON renders a behaviour deterministically.
func (b *Behaviour) JSON() string {
	x, err := json.MarshalIndent(b, "", " ")
	if err != nil {
		panic(err)
	}
	return string(x)
}

// Diff lists up to max differences between two behaviours, as readable lines.
func Diff(a, b *Behaviour, max int) []string {
	var out []string
	add := func(s string) {
		if len(out) < max {
			out = append(out, s)
		}
	}
	ra := map[string]RouteObs{}
	for _, r := range a.Routes {
		ra[r.Req] = r
	}
	for _, r := range b.Routes {
		x, _ := json.Marshal(ra[r.Req])
		y, _ := json.Marshal(r)
		if string(x) != string(y) {
			add(fmt.Sprintf("route %s: %s  VS  %s", r.Req, x, y))
		}
	}
	ba := map[string]BackendObs{}
	for _, x := range a.Backends {
		ba[x.Name] = x
	}
	bb := map[string]BackendObs{}
	for _, x := range b.Backends {
		bb[x.Name] = x
		if y, ok := ba[x.Name]; !ok {
			add("backend only in second: " + x.Name)
		} else {
			p, _ := json.Marshal(y)
			q, _ := json.Marshal(x)
			if string(p) != string(q) {
				add(fmt.Sprintf("backend %s: %s  VS  %s", x.Name, p, q))
			}
		}
	}
	for _, x := range a.Backends {
		if _, ok := bb[x.Name]; !ok {
			add("backend only in first: " + x.Name)
		}
	}
	for k, v := range a.SNI {
		if b.SNI[k] != v {
			add(fmt.Sprintf("sni %s: %s VS %s", k, v, b.SNI[k]))
		}
	}
	for k, v := range b.SNI {
		if _, ok := a.SNI[k]; !ok {
			add(fmt.Sprintf("sni %s: (none) VS %s", k, v))
		}
	}
	rest := func(x *Behaviour) string {
		c := *x
		c.Routes, c.Backends, c.SNI = nil, nil, nil
		return c.JSON()
	}
	if ra, rb := rest(a), rest(b); ra != rb {
		la, lb := strings.Split(ra, "\n"), strings.Split(rb, "\n")
		ma := map[string]int{}
		for _, l := range la {
			ma[l]++
		}
		for _, l := range lb {
			if ma[l] > 0 {
				ma[l]--
			} else {
				add("only in second: " + strings.TrimSpace(l))
			}
		}
		mb := map[string]int{}
		for _, l := range lb {
			mb[l]++
		}
		for _, l := range la {
			if mb[l] > 0 {
				mb[l]--
			} else {
				add("only in first: " + strings.TrimSpace(l))
			}
		}
	}
	if len(out) == 0 && a.JSON() != b.JSON() {
		la, lb := strings.Split(a.JSON(), "\n"), strings.Split(b.JSON(), "\n")
		for i := 0; i < len(la) && i < len(lb); i++ {
			if la[i] != lb[i] {
				add(fmt.Sprintf("line %d: %s  VS  %s", i, strings.TrimSpace(la[i]), strings.TrimSpace(lb[i])))
			}
		}
		if len(la) != len(lb) {
			add(fmt.Sprintf("lengths differ: %d VS %d lines", len(la), len(lb)))
		}
	}
	if len(out) > 1 {
		sort.Strings(out)
	}
	return out
}

// Equal compares two behaviours.
func Equal(a, b *Behaviour) bool { return a.JSON() == b.JSON() }
