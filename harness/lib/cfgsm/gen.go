package cfgsm

import (
	"fmt"
	"math/rand"
	"sort"
)

type S = State
type H = HostSpec
type P = PathSpec
type B = BackendSpec
type T = TCPSpec

// pools of the generated worlds
var HostPool = []string{"h0", "h1", "h2", "h3", "h4"}
var BackPool = []string{"b0", "b1", "b2", "b3", "b4", "b5", "b6"}
var TCPBackPool = []string{"tb0", "tb1"}
var PathPool = []string{"/", "/a", "/b"}
var TCPPool = []string{"t0:7001", "t1:7001", "t0:7002"}

// AliasPool / AliasRePool: the server aliases a host of the pool may declare. No two hosts share
// an alias and no alias is a hostname (config.hostAliases() gives a contended alias to one host
// only, which would make the maps of a host depend on every other host).
func AliasPool(h string) []string {
	i := HostIdx(h)
	return []string{fmt.Sprintf("a%d", 2*i), fmt.Sprintf("a%d", 2*i+1)}
}

// UsesAliasRe tells whether some host of the history declares a server alias regex or an alias
// that is not its own. The keys of a regex live
// in map files of their own (<map>__regex.map next to <map>__prefix.map, each written only when
// it has entries), a split the Coq model does not have: those histories are judged by the
// model-free oracle only.
func UsesAliasRe(steps []Step) bool {
	for _, st := range steps {
		for name, h := range st.State.Hosts {
			if h.AliasRe != "" {
				return true
			}
			// an alias that another host may claim as well, or that is a hostname: the host that
			// answers to it depends on every other host (config.hostAliases()), which the model
			// leaves out
			if h.Alias != "" && h.Alias != AliasPool(name)[0] && h.Alias != AliasPool(name)[1] {
				return true
			}
		}
	}
	return false
}

// AliasRePool ...
func AliasRePool(h string) []string {
	i := HostIdx(h)
	return []string{fmt.Sprintf("^r%d$", 2*i), fmt.Sprintf("^r%d$", 2*i+1)}
}

// DefaultName is the backend of --default-backend-service
const DefaultName = "bd"

func pick(rng *rand.Rand, l []string) string { return l[rng.Intn(len(l))] }

func randEps(rng *rand.Rand) []int {
	n := rng.Intn(4)
	seen := map[int]bool{}
	var eps []int
	for len(eps) < n {
		e := rng.Intn(6)
		if !seen[e] {
			seen[e] = true
			eps = append(eps, e)
		}
	}
	sort.Ints(eps)
	return eps
}

func ensureBackend(rng *rand.Rand, s *S, b string) {
	if _, ok := s.Backends[b]; !ok {
		s.Backends[b] = B{Eps: randEps(rng)}
	}
}

func mutate(rng *rand.Rand, s *S, past []S) {
	switch rng.Intn(14) {
	case 12, 13: // only the host side: a server alias (name or regex) is added, renamed or removed
		if ks := sortedKeys(s.Hosts); len(ks) > 0 {
			h := pick(rng, ks)
			hs := s.Hosts[h]
			if rng.Intn(6) == 0 {
				hs.AliasRe = pick(rng, append(AliasRePool(h), ""))
			} else if rng.Intn(8) == 0 {
				// contended: the alias of another host, or a hostname
				o := pick(rng, HostPool)
				hs.Alias = pick(rng, append(AliasPool(o), o))
				var used []string
				for _, k := range ks {
					if k != h && s.Hosts[k].Alias != "" {
						used = append(used, s.Hosts[k].Alias)
					}
				}
				if len(used) > 0 && rng.Intn(2) == 0 {
					hs.Alias = pick(rng, used)
				}
				if hs.Alias == h {
					hs.Alias = ""
				}
			} else {
				hs.Alias = pick(rng, append(AliasPool(h), ""))
			}
			s.Hosts[h] = hs
		}
	case 0, 1: // add / replace a host
		h := pick(rng, HostPool)
		hs := H{TLS: rng.Intn(3) == 0}
		if rng.Intn(3) == 0 {
			hs.Alias = pick(rng, AliasPool(h))
		}
		if rng.Intn(20) == 0 {
			hs.AliasRe = pick(rng, AliasRePool(h))
		}
		perm := rng.Perm(len(PathPool))
		n := 1 + rng.Intn(3)
		for _, i := range perm[:n] {
			b := pick(rng, BackPool)
			if rng.Intn(8) == 0 {
				b = DefaultName
			}
			ensureBackend(rng, s, b)
			hs.Paths = append(hs.Paths, P{Path: PathPool[i], Backend: b, SSLRedirect: rng.Intn(3) == 0})
		}
		sort.Slice(hs.Paths, func(i, j int) bool { return hs.Paths[i].Path < hs.Paths[j].Path })
		s.Hosts[h] = hs
	case 2: // remove a host
		if ks := sortedKeys(s.Hosts); len(ks) > 0 {
			delete(s.Hosts, pick(rng, ks))
		}
	case 3: // endpoints of a backend
		if ks := sortedKeys(s.Backends); len(ks) > 0 {
			b := pick(rng, ks)
			bs := s.Backends[b]
			bs.Eps = randEps(rng)
			s.Backends[b] = bs
		}
	case 4: // another attribute of a backend
		if ks := sortedKeys(s.Backends); len(ks) > 0 {
			b := pick(rng, ks)
			bs := s.Backends[b]
			bs.Mark = rng.Intn(3)
			s.Backends[b] = bs
		}
	case 5: // ssl-redirect of one path
		if ks := sortedKeys(s.Hosts); len(ks) > 0 {
			h := pick(rng, ks)
			hs := s.Hosts[h]
			hs.Paths = append([]P(nil), hs.Paths...)
			i := rng.Intn(len(hs.Paths))
			hs.Paths[i].SSLRedirect = !hs.Paths[i].SSLRedirect
			s.Hosts[h] = hs
		}
	case 6: // tls of a host
		if ks := sortedKeys(s.Hosts); len(ks) > 0 {
			h := pick(rng, ks)
			hs := s.Hosts[h]
			hs.TLS = !hs.TLS
			s.Hosts[h] = hs
		}
	case 7: // tcp service
		t := pick(rng, TCPPool)
		if _, ok := s.TCP[t]; ok && rng.Intn(2) == 0 {
			delete(s.TCP, t)
		} else {
			b := pick(rng, TCPBackPool)
			ensureBackend(rng, s, b)
			s.TCP[t] = T{Backend: b, TLS: rng.Intn(2) == 0}
		}
	case 8: // the default service appears, resolves to another (already existing) backend, or disappears
		var https []string
		for _, b := range sortedKeys(s.Backends) {
			if b != s.Default && b != TCPBackPool[0] && b != TCPBackPool[1] {
				https = append(https, b)
			}
		}
		switch {
		case len(https) > 0 && rng.Intn(2) == 0:
			// nothing else changes: only the default backend is another one
			s.Default = pick(rng, https)
		case s.Default == "":
			ensureBackend(rng, s, DefaultName)
			s.Default = DefaultName
		default:
			if s.Default == DefaultName {
				delete(s.Backends, DefaultName)
			}
			s.Default = ""
		}
	case 9: // remove a backend (and what points to it)
		if ks := sortedKeys(s.Backends); len(ks) > 0 {
			delete(s.Backends, pick(rng, ks))
		}
	case 10: // back to an earlier state
		if len(past) > 0 {
			g, rs := s.Global, s.Resp
			*s = past[rng.Intn(len(past))].Clone()
			s.Global, s.Resp = g, rs
		}
	case 11: // move one path to another backend
		if ks := sortedKeys(s.Hosts); len(ks) > 0 {
			h := pick(rng, ks)
			hs := s.Hosts[h]
			hs.Paths = append([]P(nil), hs.Paths...)
			i := rng.Intn(len(hs.Paths))
			b := pick(rng, BackPool)
			ensureBackend(rng, s, b)
			hs.Paths[i].Backend = b
			s.Hosts[h] = hs
		}
	}
}

// fixDefault drops a default backend that does not exist (any more) and the backends nothing refers to.
func fixDefault(s *S) {
	s.Normalize(false)
}

// Gen draws one history: shard count and steps.
func Gen(rng *rand.Rand, wide bool) (int, []Step) {
	shards := []int{0, 1, 3, 8, 8, 3}[rng.Intn(6)]
	var steps []Step
	n := 3 + rng.Intn(6)
	if wide {
		n = 3 + rng.Intn(12)
	}
	cur := S{}
	cur.Normalize(false)
	var past []S
	for i := 0; i < n; i++ {
		st := Step{Full: i == 0 || rng.Intn(5) == 0}
		k := 1 + rng.Intn(3)
		if i == 0 {
			k = 3 + rng.Intn(4)
		} else if rng.Intn(10) == 0 {
			k = 0
		}
		for j := 0; j < k; j++ {
			mutate(rng, &cur, past)
			fixDefault(&cur)
		}
		if st.Full && rng.Intn(3) == 0 {
			cur.Global++
		}
		if st.Full && rng.Intn(3) == 0 {
			// the custom responses of the global config appear, change or go away
			cur.Resp = rng.Intn(4)
		}
		if !st.Full && rng.Intn(2) == 0 {
			for j := rng.Intn(3); j > 0; j-- {
				switch rng.Intn(3) {
				case 0:
					if ks := sortedKeys(cur.Hosts); len(ks) > 0 {
						st.Dirty = append(st.Dirty, "h:"+pick(rng, ks))
					}
				case 1:
					if ks := sortedKeys(cur.Backends); len(ks) > 0 {
						st.Dirty = append(st.Dirty, "b:"+pick(rng, ks))
					}
				case 2:
					if ks := sortedKeys(cur.TCP); len(ks) > 0 {
						st.Dirty = append(st.Dirty, "t:"+pick(rng, ks))
					}
				}
			}
		}
		st.State = cur.Clone()
		past = append(past, cur.Clone())
		steps = append(steps, st)
	}
	return shards, steps
}
