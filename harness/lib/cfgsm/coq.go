package cfgsm

import (
	"fmt"
	"sort"
	"strings"

	"verif/harness/lib/hx"
)

// ---------------------------------------------------------------- names -> N

// HostIdx numbers a host of the pool ("h3" -> 3).
func HostIdx(h string) int {
	var i int
	fmt.Sscanf(h, "h%d", &i)
	return i
}

// KeyIdx numbers the host part of a map key: a host of the pool, a server alias "a<k>"
// (100+k) or a server alias regex "^r<k>$" (200+k, also as the maps write it: "^r<k>").
func KeyIdx(h string) int {
	var i int
	switch {
	case strings.HasPrefix(h, "a"):
		fmt.Sscanf(h, "a%d", &i)
		return 100 + i
	case strings.HasPrefix(h, "^r"):
		fmt.Sscanf(h, "^r%d", &i)
		return 200 + i
	}
	return HostIdx(h)
}

// keyOwner is the host a key code belongs to: alias a<k> and alias regex r<k> belong to host k/2.
func keyOwner(code int) int {
	if code >= 100 {
		return (code % 100) / 2
	}
	return code
}

// keyPath splits a map key "host#path"; a key of a regex map holds the path as a regex.
func keyPath(k string) (int, int) {
	kk := strings.SplitN(k, "#", 2)
	p := kk[1]
	if strings.HasPrefix(kk[0], "^") {
		p = strings.TrimSuffix(p, "(/.*)?")
	}
	return KeyIdx(kk[0]), PathIdx(p)
}

// BackIdx numbers a backend of the pools: b0..b6 -> 0..6, bd -> 7, tb0.. -> 8..
func BackIdx(b string) int {
	var i int
	switch {
	case b == DefaultName:
		return 7
	case strings.HasPrefix(b, "tb"):
		fmt.Sscanf(b, "tb%d", &i)
		return 8 + i
	default:
		fmt.Sscanf(b, "b%d", &i)
		return i
	}
}

// PathIdx numbers a path of the pool; "/" is 0.
func PathIdx(p string) int {
	for i, q := range PathPool {
		if p == q {
			return i
		}
	}
	panic("path not in the pool: " + p)
}

// TCPIdx numbers a tcp service "t<i>:700<p>" as 10*i + p (the model reads the port as idx mod 10).
func TCPIdx(t string) int {
	var i, p int
	fmt.Sscanf(t, "t%d:700%d", &i, &p)
	return 10*i + p
}

// Universes of the Coq model, ascending.
var (
	UB = []int{0, 1, 2, 3, 4, 5, 6, 7, 8, 9}
	UH = []int{0, 1, 2, 3, 4}
	UT = []int{1, 2, 11}
)

func nlist(l []int) string {
	s := make([]string, len(l))
	for i, v := range l {
		s[i] = hx.N(v)
	}
	return hx.List(s)
}

func n2(a, b int) string { return hx.Tuple(hx.N(a), hx.N(b)) }

func n2list(l [][2]int) string {
	sort.Slice(l, func(i, j int) bool {
		if l[i][0] != l[j][0] {
			return l[i][0] < l[j][0]
		}
		return l[i][1] < l[j][1]
	})
	s := make([]string, len(l))
	for i, v := range l {
		s[i] = n2(v[0], v[1])
	}
	return hx.List(s)
}

// CoqOps prints the calls of one step as a Coq [list op].
func CoqOps(ops []Op) string {
	var out []string
	for _, o := range ops {
		switch o.Kind {
		case "clear":
			out = append(out, "OClear")
		case "global":
			out = append(out, "OGlobal "+hx.N(o.Ver))
		case "trem", "hrem", "brem":
			var l []int
			for _, n := range o.Names {
				switch o.Kind {
				case "trem":
					l = append(l, TCPIdx(n))
				case "hrem":
					l = append(l, HostIdx(n))
				default:
					l = append(l, BackIdx(n))
				}
			}
			out = append(out, map[string]string{"trem": "OTcpRemove ", "hrem": "OHostsRemove ", "brem": "OBacksRemove "}[o.Kind]+nlist(l))
		case "bacq":
			var ps [][2]int
			for _, p := range o.Paths {
				ps = append(ps, [2]int{HostIdx(p[0]), PathIdx(p[1])})
			}
			var rs []int
			for _, h := range o.RSSL {
				rs = append(rs, HostIdx(h))
			}
			sort.Ints(rs)
			out = append(out, fmt.Sprintf("OBackAcquire %s {| bver := %s; bacl := %s; bpaths := %s; brssl := %s |}",
				hx.N(BackIdx(o.Name)), hx.N(o.Ver), hx.Bool(o.ACL), n2list(ps), nlist(rs)))
		case "hacq":
			var ps [][2]int
			for _, p := range o.HPaths {
				ps = append(ps, [2]int{PathIdx(p[0]), BackIdx(p[1])})
			}
			var al []int
			for _, a := range o.HAlias {
				al = append(al, KeyIdx(a))
			}
			out = append(out, fmt.Sprintf("OHostAcquire %s {| hver := %s; htls := %s; hpaths := %s; halias := %s |}",
				hx.N(HostIdx(o.Name)), hx.N(o.Ver), hx.Bool(o.TLS), n2list(ps), nlist(al)))
		case "tacq":
			out = append(out, fmt.Sprintf("OTcpAcquire %s {| tback := %s; ttls := %s |}", hx.N(TCPIdx(o.Name)), hx.N(BackIdx(o.TBack)), hx.Bool(o.TLS)))
		case "default":
			out = append(out, "ODefault "+hx.Opt(o.Name != "", hx.N(BackIdx(o.Name))))
		}
	}
	return hx.List(out)
}

// CoqFaults prints armed faults as a [list fpoint].
func CoqFaults(fs []string) string {
	var out []string
	for _, f := range fs {
		switch {
		case f == "tcpmaps":
			out = append(out, "FTcpMaps")
		case f == "front:crt":
			out = append(out, "FFrontCrt")
		case f == "front:host":
			out = append(out, "FFrontHost")
		case f == "front:rootredir":
			out = append(out, "FFrontRootRedir")
		case f == "front:rootssl":
			out = append(out, "FFrontRootSSL")
		case f == "backmaps":
			out = append(out, "FBackMaps")
		case f == "tcpcrt":
			out = append(out, "FTcpCrt")
		case f == "main" || f == "resp":
			// resp: writeConfig fails at a custom response file, before the main file
			out = append(out, "FMain")
		case strings.HasPrefix(f, "shard:"):
			var j int
			fmt.Sscanf(f[6:], "%d", &j)
			out = append(out, "FShard "+hx.N(j))
		case f == "reload-request":
			out = append(out, "FReloadRequest")
		case f == "reload-result":
			out = append(out, "FReloadResult")
		case f == "reload-reset":
			out = append(out, "FReloadReset")
		case f == "reload-eof" || f == "reload-garbage":
			out = append(out, "FReloadSilent")
		case f == "reload-eof-ok" || f == "reload-garbage-ok":
			// the master reloads: not a fault, only an unusual answer
		}
	}
	return hx.List(out)
}

// CoqObs prints the projection of the directories as a Coq [sobs].
func CoqObs(d Disk, err, reload, runeq, failed bool) string {
	var files []string
	fl := append([]FileObs(nil), d.Files...)
	sort.Slice(fl, func(i, j int) bool { return fl[i].Shard < fl[j].Shard })
	for _, f := range fl {
		var bs [][2]int
		for _, b := range f.Backends {
			bs = append(bs, [2]int{BackIdx(b.Name), b.Ver})
		}
		files = append(files, hx.Tuple(hx.N(f.Shard+1), n2list(bs)))
	}
	def := "None"
	if strings.HasPrefix(d.DefaultBE, "ns_") {
		def = "(Some " + hx.N(BackIdx(strings.TrimSuffix(strings.TrimPrefix(d.DefaultBE, "ns_"), "_8080"))) + ")"
	}
	glob := 0
	for _, l := range strings.Split(d.MainRest, "\n") {
		if strings.HasPrefix(l, "maxconn ") {
			fmt.Sscanf(l, "maxconn %d", &glob)
			glob -= 2000
			break
		}
	}
	var crt []int
	for _, l := range d.CrtList {
		f := strings.Fields(l)
		if len(f) >= 2 && strings.HasPrefix(f[len(f)-1], "h") {
			crt = append(crt, HostIdx(f[len(f)-1]))
		}
	}
	sort.Ints(crt)
	type trip struct{ h, p, b int }
	var hm []trip
	for _, l := range d.HTTPHost {
		f := strings.Fields(l)
		kh, kp := keyPath(f[0])
		hm = append(hm, trip{kh, kp, BackIdx(strings.TrimSuffix(strings.TrimPrefix(f[1], "ns_"), "_8080"))})
	}
	// the order of the model: per host, its name then its aliases, each with the paths of the host
	sort.Slice(hm, func(i, j int) bool {
		if keyOwner(hm[i].h) != keyOwner(hm[j].h) {
			return keyOwner(hm[i].h) < keyOwner(hm[j].h)
		}
		if hm[i].h != hm[j].h {
			return hm[i].h < hm[j].h
		}
		return hm[i].p < hm[j].p
	})
	var hms []string
	for _, t := range hm {
		hms = append(hms, hx.Tuple(hx.N(t.h), n2(t.p, t.b)))
	}
	var rr [][2]int
	for h, v := range d.RootRedir {
		rr = append(rr, [2]int{HostIdx(h), v})
	}
	var rs []int
	for _, h := range d.RootSSL {
		rs = append(rs, HostIdx(h))
	}
	sort.Ints(rs)
	var bms []string
	var bnames []string
	for b := range d.BackMapRef {
		bnames = append(bnames, b)
	}
	sort.Slice(bnames, func(i, j int) bool { return BackIdx(bnames[i]) < BackIdx(bnames[j]) })
	for _, b := range bnames {
		var ks [][2]int
		for _, k := range d.BackMaps[b] {
			kh, kp := keyPath(strings.Fields(k)[0])
			ks = append(ks, [2]int{kh, kp})
		}
		// the order of the model: per (host, path) of the backend, the hostname then the aliases
		sort.Slice(ks, func(i, j int) bool {
			if keyOwner(ks[i][0]) != keyOwner(ks[j][0]) {
				return keyOwner(ks[i][0]) < keyOwner(ks[j][0])
			}
			if ks[i][1] != ks[j][1] {
				return ks[i][1] < ks[j][1]
			}
			return ks[i][0] < ks[j][0]
		})
		kl := make([]string, len(ks))
		for i, v := range ks {
			kl[i] = n2(v[0], v[1])
		}
		bms = append(bms, hx.Tuple(hx.N(BackIdx(b)), hx.List(kl)))
	}
	var tm [][2]int
	for port, lines := range d.TCPMaps {
		for _, l := range lines {
			f := strings.Fields(l)
			tm = append(tm, [2]int{TCPIdx(f[0] + ":" + port), BackIdx(strings.TrimSuffix(strings.TrimPrefix(f[1], "ns_"), "_8080"))})
		}
	}
	var tc []int
	for port, lines := range d.TCPCrt {
		for _, l := range lines {
			f := strings.Fields(l)
			tc = append(tc, TCPIdx(f[len(f)-1]+":"+port))
		}
	}
	sort.Ints(tc)
	return fmt.Sprintf("{| o_err := %s; o_reload := %s; o_runeq := %s; o_failed := %s; o_files := %s; o_def := %s; o_glob := %s; o_crt := %s; o_hostmap := %s; o_rootredir := %s; o_rootssl := %s; o_backmaps := %s; o_tcpmap := %s; o_tcpcrt := %s |}",
		hx.Bool(err), hx.Bool(reload), hx.Bool(runeq), hx.Bool(failed), hx.List(files), def, hx.N(glob), nlist(crt), hx.List(hms), n2list(rr), nlist(rs), hx.List(bms), n2list(tm), nlist(tc))
}

// CoqShardTable prints the shard of every backend of the pools.
func CoqShardTable(shards int) string {
	names := append(append(append([]string{}, BackPool...), DefaultName), TCPBackPool...)
	var l [][2]int
	for _, b := range names {
		l = append(l, [2]int{BackIdx(b), ShardOf(BackendID(b), shards)})
	}
	return n2list(l)
}

// CoqCase prints one [hcase]; steps are already printed [ostep] terms.
func CoqCase(id, shards int, inline bool, steps []string) string {
	return fmt.Sprintf("{| h_id := %s; h_nsh := %s; h_shard := %s; h_ub := %s; h_uh := %s; h_ut := %s; h_inline := %s;\n   h_steps := [\n    %s] |}",
		hx.N(id), hx.N(shards), CoqShardTable(shards), nlist(UB), nlist(UH), nlist(UT), hx.Bool(inline), strings.Join(steps, ";\n    "))
}

// CoqStep prints one [ostep].
func CoqStep(restart bool, ops []Op, faults []string, qfail int, deferReload bool, obs string) string {
	return fmt.Sprintf("{| s_restart := %s; s_ops := %s; s_faults := %s; s_qfail := %s; s_defer := %s; s_obs := %s |}", hx.Bool(restart), CoqOps(ops), CoqFaults(faults), hx.N(qfail), hx.Bool(deferReload), obs)
}
