package cfgsm

import (
	"bufio"
	"fmt"
	"io"
	"net"
	"os"
	"path/filepath"
	"strings"
	"sync"
)

// ---------------------------------------------------------------- file faults

// FaultClasses are the file-write fault points of one update, in the order the update reaches them.
var FaultClasses = []string{"tcpmaps", "front:crt", "front:host", "front:rootredir", "front:rootssl", "backmaps", "tcpcrt", "resp", "main"}

// EffectiveFaults drops the faults that cannot be reached in the state: "resp" (the file of the
// custom response 503, written by writeConfig before the main file) needs custom responses.
// For the model a reached "resp" is the main file fault: writeConfig fails before writing it.
func EffectiveFaults(faults []string, st State) []string {
	var out []string
	for _, f := range faults {
		if f == "resp" && st.Resp%4 == 0 {
			continue
		}
		out = append(out, f)
	}
	return out
}

var matchSuffixes = []string{"__exact", "__prefix", "__begin", "__regex"}

// faultPaths lists every path (existing or not) an update may write for the class.
func (e *Env) faultPaths(class string, backs []string, ports []int) []string {
	var bases []string // map base names without ".map"/".list"
	var out []string
	switch {
	case class == "tcpmaps":
		for _, p := range ports {
			bases = append(bases, fmt.Sprintf("_tcp_sni_%d", p))
		}
	case class == "front:crt":
		out = append(out, filepath.Join(e.MapsDir, "_front_bind_crt.list"))
	case class == "front:host":
		bases = append(bases, "_front_http_host", "_front_https_host")
	case class == "front:rootredir":
		bases = append(bases, "_front_redir_fromroot")
	case class == "front:rootssl":
		bases = append(bases, "_front_redir_root_ssl")
	case class == "backmaps":
		for _, b := range backs {
			bases = append(bases, "_back_"+BackendID(b)+"_idpath", "_back_"+BackendID(b)+"_idpathdef")
		}
	case class == "tcpcrt":
		for _, p := range ports {
			out = append(out, filepath.Join(e.CfgDir, fmt.Sprintf("crtlist_tcp_%d.list", p)))
		}
	case class == "resp":
		out = append(out, filepath.Join(e.CfgDir, "errorfiles", "503.http"))
	case class == "main":
		out = append(out, filepath.Join(e.CfgDir, "haproxy.cfg"))
	case strings.HasPrefix(class, "shard:"):
		var j int
		fmt.Sscanf(class[6:], "%d", &j)
		out = append(out, filepath.Join(e.CfgDir, fmt.Sprintf("haproxy5-backend%03d.cfg", j)))
	}
	for _, b := range bases {
		for _, s := range matchSuffixes {
			out = append(out, filepath.Join(e.MapsDir, b+s+".map"))
		}
	}
	return out
}

// Block makes every file of the classes unwritable (a directory is planted at
// its path; an existing file is moved aside and comes back untouched) and
// returns the function that removes the faults.
func (e *Env) Block(classes []string, backs []string, ports []int) func() {
	type saved struct{ path, bak string }
	var dirs []string
	var moved []saved
	for _, c := range classes {
		for _, p := range e.faultPaths(c, backs, ports) {
			if st, err := os.Lstat(p); err == nil {
				if st.IsDir() {
					continue
				}
				bak := p + ".saved"
				if err := os.Rename(p, bak); err != nil {
					panic(err)
				}
				moved = append(moved, saved{p, bak})
			}
			if err := os.Mkdir(p, 0o755); err != nil {
				panic(err)
			}
			dirs = append(dirs, p)
		}
	}
	return func() {
		for _, d := range dirs {
			_ = os.Remove(d)
		}
		for _, m := range moved {
			if err := os.Rename(m.bak, m.path); err != nil {
				panic(err)
			}
		}
	}
}

// ---------------------------------------------------------------- fake master socket

// Master serves the master socket of an external haproxy: `show proc` and
// `reload`. A successful reload calls OnReload (the harness snapshots what
// haproxy would load).
type Master struct {
	Path       string
	OnReload   func()
	mu         sync.Mutex
	ln         net.Listener
	failResult bool
	reloadMode string
	reloads    int
	received   int
	lastFailed bool
}

// NewMaster starts listening.
func NewMaster(path string) *Master {
	m := &Master{Path: path}
	m.Listen()
	return m
}

// Listen (re)opens the socket.
func (m *Master) Listen() {
	m.mu.Lock()
	defer m.mu.Unlock()
	if m.ln != nil {
		return
	}
	_ = os.Remove(m.Path)
	ln, err := net.Listen("unix", m.Path)
	if err != nil {
		panic(err)
	}
	m.ln = ln
	go m.serve(ln)
}

// Close stops listening and removes the socket: a reload request then fails.
func (m *Master) Close() {
	m.mu.Lock()
	defer m.mu.Unlock()
	if m.ln != nil {
		_ = m.ln.Close()
		m.ln = nil
	}
	_ = os.Remove(m.Path)
}

// FailResult makes the next reloads be reported as failed by `show proc`.
func (m *Master) FailResult(v bool) {
	m.mu.Lock()
	m.failResult = v
	m.mu.Unlock()
}

// ReloadMode says how the next `reload` commands are treated:
//
//	""           answered, haproxy reloads
//	"reset"      the connection is reset by the peer (ECONNRESET on the client), haproxy does NOT reload
//	"eof"        the connection is closed without an answer, haproxy does NOT reload
//	"garbage"    an unexpected answer, haproxy does NOT reload
//	"eof-ok"     closed without an answer (what a master that re-executes itself does), haproxy reloads
//	"garbage-ok" an unexpected answer, haproxy reloads
//
// In every case the master stays alive and answers the following `show proc` normally.
func (m *Master) ReloadMode(mode string) {
	m.mu.Lock()
	m.reloadMode = mode
	m.mu.Unlock()
}

// Reloads is the number of reload commands received.
func (m *Master) Reloads() int {
	m.mu.Lock()
	defer m.mu.Unlock()
	return m.received
}

func (m *Master) serve(ln net.Listener) {
	for {
		c, err := ln.Accept()
		if err != nil {
			return
		}
		func() {
			defer c.Close()
			// the first bytes tell whether this is `reload`: a reset must leave part of the command unread
			head := make([]byte, 6)
			n, err := io.ReadFull(c, head)
			if err != nil && n == 0 {
				return
			}
			cmd := string(head[:n])
			m.mu.Lock()
			mode := m.reloadMode
			m.mu.Unlock()
			if cmd == "reload" && mode == "reset" {
				// closing a unix stream socket that still holds unread data ("\n") resets the peer
				m.mu.Lock()
				m.received++
				m.mu.Unlock()
				return
			}
			if !strings.HasSuffix(cmd, "\n") {
				rest, err := bufio.NewReader(c).ReadString('\n')
				if err != nil {
					return
				}
				cmd += rest
			}
			cmd = strings.TrimSpace(cmd)
			m.mu.Lock()
			defer m.mu.Unlock()
			switch cmd {
			case "reload":
				m.received++
				if mode == "eof" || mode == "garbage" {
					// the command is dropped: nothing is reloaded, the old worker goes on
					if mode == "garbage" {
						_, _ = c.Write([]byte("\x00\x7f?? 0x1f\n\n"))
					}
					return
				}
				m.reloads++
				m.lastFailed = m.failResult
				if !m.failResult && m.OnReload != nil {
					m.OnReload()
				}
				switch mode {
				case "eof-ok":
				case "garbage-ok":
					_, _ = c.Write([]byte("\x00\x7f?? 0x1f\n\n"))
				default:
					_, _ = c.Write([]byte("\n"))
				}
			case "show proc":
				out := "#<PID>          <type>          <relative PID>  <reloads>       <uptime>        <version>\n" +
					fmt.Sprintf("1               master          0               %-15d 0d00h00m08s     2.2.3-0e58a34\n", m.reloads) +
					"# workers\n"
				if !m.lastFailed {
					out += "2               worker          1               0               0d00h00m00s     2.2.3-0e58a34\n"
				}
				out += "# old workers\n# programs\n\n"
				_, _ = c.Write([]byte(out))
			default:
				_, _ = c.Write([]byte("\n"))
			}
		}()
	}
}
