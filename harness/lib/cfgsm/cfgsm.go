// Package cfgsm drives the real haproxy.Instance (public API only) through
// histories of full / partial syncs followed by HAProxyUpdate, the way the
// converters do (converters.go Sync, ingress.go syncFull / syncPartial), and
// projects the files it writes to the observables of C05 / C12.
package cfgsm

import (
	"context"
	"crypto/md5"
	"fmt"
	"os"
	"path/filepath"
	"regexp"
	"sort"
	"strings"
	"time"

	"github.com/jcmoraisjr/haproxy-ingress/pkg/haproxy"
	hatypes "github.com/jcmoraisjr/haproxy-ingress/pkg/haproxy/types"
	types_helper "github.com/jcmoraisjr/haproxy-ingress/pkg/types/helper_test"
	"github.com/jcmoraisjr/haproxy-ingress/pkg/utils"
)

// ---------------------------------------------------------------- world

// PathSpec is one path of a host.
type PathSpec struct {
	Path        string `json:"path"`
	Backend     string `json:"backend"`
	SSLRedirect bool   `json:"ssl_redirect,omitempty"`
}

// HostSpec is the desired content of a host.
type HostSpec struct {
	Paths []PathSpec `json:"paths"`
	TLS   bool       `json:"tls,omitempty"`
	// server-alias / server-alias-regex: other names the host answers to. They are keys of the
	// frontend maps and of the idpath maps of the backends of the host, and part of no backend.
	Alias   string `json:"alias,omitempty"`
	AliasRe string `json:"alias_re,omitempty"`
}

// AliasKeys lists the alias keys of a host, the name first.
func (h HostSpec) AliasKeys() []string {
	var out []string
	if h.Alias != "" {
		out = append(out, h.Alias)
	}
	if h.AliasRe != "" {
		out = append(out, h.AliasRe)
	}
	return out
}

// BackendSpec is the desired own content of a backend (its paths come from
// the hosts and tcp services that reference it).
type BackendSpec struct {
	Eps  []int `json:"eps"`
	Mark int   `json:"mark,omitempty"`
	// dynamic scaling (dynamic-scaling, slots-min-free, backend-server-slots-increment)
	Dyn     bool `json:"dyn,omitempty"`
	MinFree int  `json:"min_free,omitempty"`
	Block   int  `json:"block,omitempty"`
}

// TCPSpec is a tcp service "host:port".
type TCPSpec struct {
	Backend string `json:"backend"`
	TLS     bool   `json:"tls,omitempty"`
}

// State is a complete desired state.
type State struct {
	Hosts    map[string]HostSpec    `json:"hosts"`
	Backends map[string]BackendSpec `json:"backends"`
	TCP      map[string]TCPSpec     `json:"tcp,omitempty"`
	Default  string                 `json:"default,omitempty"`
	Global   int                    `json:"global,omitempty"`
	// Resp: the HAProxy based custom responses of the global config (http-response-<code>, written
	// to <cfgdir>/errorfiles/<code>.http and named by `errorfile` lines of the main file):
	// 0 none, 1 and 2 = 403 and 503 with body version 1 / 2, 3 = 503 only, body version 3.
	// Part of the global config: it only changes at a full sync.
	Resp int `json:"resp,omitempty"`
}

// GlobalVer is the number the global config of a state is known by (maxconn = 2000 + GlobalVer).
func (s State) GlobalVer() int { return s.Global*4 + s.Resp%4 }

// Step is one reconciliation: a sync (full or partial) to State, then an update.
type Step struct {
	Full  bool     `json:"full,omitempty"`
	State State    `json:"state"`
	Dirty []string `json:"dirty,omitempty"` // extra dirty seeds "h:<host>", "b:<backend>", "t:<svc>"
}

// Clone copies a state deeply.
func (s State) Clone() State {
	n := State{Hosts: map[string]HostSpec{}, Backends: map[string]BackendSpec{}, TCP: map[string]TCPSpec{}, Default: s.Default, Global: s.Global, Resp: s.Resp}
	for k, v := range s.Hosts {
		v.Paths = append([]PathSpec(nil), v.Paths...)
		n.Hosts[k] = v
	}
	for k, v := range s.Backends {
		v.Eps = append([]int(nil), v.Eps...)
		n.Backends[k] = v
	}
	for k, v := range s.TCP {
		n.TCP[k] = v
	}
	return n
}

// Normalize drops references to backends that do not exist and backends that
// nothing references (a backend only exists in the model because a host path,
// a tcp service or the default backend asks for it), unless keepOrphans.
func (s *State) Normalize(keepOrphans bool) {
	if s.Hosts == nil {
		s.Hosts = map[string]HostSpec{}
	}
	if s.Backends == nil {
		s.Backends = map[string]BackendSpec{}
	}
	if s.TCP == nil {
		s.TCP = map[string]TCPSpec{}
	}
	used := map[string]bool{}
	tcpBack := map[string]bool{}
	for _, ts := range s.TCP {
		tcpBack[ts.Backend] = true
	}
	for h, hs := range s.Hosts {
		var ps []PathSpec
		seen := map[string]bool{}
		for _, p := range hs.Paths {
			if _, ok := s.Backends[p.Backend]; ok && !seen[p.Path] && !tcpBack[p.Backend] {
				ps = append(ps, p)
				seen[p.Path] = true
				used[p.Backend] = true
			}
		}
		if len(ps) == 0 {
			delete(s.Hosts, h)
			continue
		}
		hs.Paths = ps
		s.Hosts[h] = hs
	}
	for t, ts := range s.TCP {
		if _, ok := s.Backends[ts.Backend]; !ok {
			delete(s.TCP, t)
			continue
		}
		used[ts.Backend] = true
	}
	if _, ok := s.Backends[s.Default]; !ok || tcpBack[s.Default] {
		s.Default = ""
	} else {
		used[s.Default] = true
	}
	if !keepOrphans {
		for b := range s.Backends {
			if !used[b] {
				delete(s.Backends, b)
			}
		}
	}
}

// refs lists, per backend, the canonical text of everything that points to it.
func (s State) refs() map[string][]string {
	r := map[string][]string{}
	for _, h := range sortedKeys(s.Hosts) {
		hs := s.Hosts[h]
		for _, p := range hs.Paths {
			r[p.Backend] = append(r[p.Backend], fmt.Sprintf("H %s %s ssl=%v tls=%v", h, p.Path, p.SSLRedirect, hs.TLS))
		}
	}
	for _, t := range sortedKeys(s.TCP) {
		r[s.TCP[t].Backend] = append(r[s.TCP[t].Backend], "T "+t)
	}
	for k := range r {
		sort.Strings(r[k])
	}
	return r
}

// BackendContent is the canonical text of everything that decides the content of a backend object.
func (s State) BackendContent(b string) string {
	bs := s.Backends[b]
	eps := append([]int(nil), bs.Eps...)
	if bs.Dyn {
		return fmt.Sprintf("%s eps=%v mark=%d refs=%v dyn=%d/%d", b, eps, bs.Mark, s.refs()[b], bs.MinFree, bs.Block)
	}
	return fmt.Sprintf("%s eps=%v mark=%d refs=%v", b, eps, bs.Mark, s.refs()[b])
}

// BackendMarker is the text the version marker of a backend stands for: its content, without
// the endpoints when they can be changed through the runtime api (the marker is part of the
// backend and a dynamic update needs everything but the endpoints to be unchanged).
func (s State) BackendMarker(b string) string {
	bs := s.Backends[b]
	if bs.Dyn {
		return fmt.Sprintf("%s mark=%d refs=%v dyn=%d/%d", b, bs.Mark, s.refs()[b], bs.MinFree, bs.Block)
	}
	return s.BackendContent(b)
}

// BackendPaths lists the (host, path) keys of the http paths pointing to b, sorted.
func (s State) BackendPaths(b string) [][2]string {
	var out [][2]string
	for _, h := range sortedKeys(s.Hosts) {
		for _, p := range s.Hosts[h].Paths {
			if p.Backend == b {
				out = append(out, [2]string{h, p.Path})
			}
		}
	}
	sort.Slice(out, func(i, j int) bool { return out[i][0]+"#"+out[i][1] < out[j][0]+"#"+out[j][1] })
	return out
}

// BackendACL tells whether the paths of b carry more than one distinct configuration.
func (s State) BackendACL(b string) bool {
	var t, f bool
	for _, hs := range s.Hosts {
		for _, p := range hs.Paths {
			if p.Backend == b {
				if p.SSLRedirect {
					t = true
				} else {
					f = true
				}
			}
		}
	}
	return t && f
}

// HostContent is the canonical text of a host.
func (s State) HostContent(h string) string {
	hs := s.Hosts[h]
	var ps []string
	for _, p := range hs.Paths {
		ps = append(ps, p.Path+">"+p.Backend)
	}
	if hs.Alias != "" || hs.AliasRe != "" {
		return fmt.Sprintf("%s tls=%v paths=%v alias=%s/%s", h, hs.TLS, ps, hs.Alias, hs.AliasRe)
	}
	return fmt.Sprintf("%s tls=%v paths=%v", h, hs.TLS, ps)
}

// TCPContent is the canonical text of a tcp service.
func (s State) TCPContent(t string) string {
	return fmt.Sprintf("%s>%s tls=%v", t, s.TCP[t].Backend, s.TCP[t].TLS)
}

func sortedKeys[V any](m map[string]V) []string {
	ks := make([]string, 0, len(m))
	for k := range m {
		ks = append(ks, k)
	}
	sort.Strings(ks)
	return ks
}

// SortedKeys is exported for the commands.
func SortedKeys[V any](m map[string]V) []string { return sortedKeys(m) }

// Interner numbers canonical texts (same text, same number), starting at 1.
type Interner struct {
	ids map[string]int
}

// ID returns the number of a text.
func (i *Interner) ID(s string) int {
	if i.ids == nil {
		i.ids = map[string]int{}
	}
	if v, ok := i.ids[s]; ok {
		return v
	}
	v := len(i.ids) + 1
	i.ids[s] = v
	return v
}

// ShardOf recomputes, independently of the implementation, the shard of a backend id.
func ShardOf(id string, shards int) int {
	if shards <= 0 {
		return 0
	}
	h := md5.Sum([]byte(id))
	var p0, p1 uint64
	for i := 0; i < 8; i++ {
		p0 = p0<<8 | uint64(h[i])
		p1 = p1<<8 | uint64(h[8+i])
	}
	return int((p0 ^ p1) % uint64(shards))
}

// BackendID is the haproxy id of a backend of the world.
func BackendID(name string) string { return "ns_" + name + "_8080" }

// ---------------------------------------------------------------- ops

// Op is one call made on the model of the instance; the same list is what the Coq model is fed.
type Op struct {
	Kind   string   // clear | hrem | brem | trem | hacq | bacq | tacq | default | global
	Names  []string // for *rem
	Name   string
	Ver    int
	ACL    bool
	Paths  [][2]string // bacq: http (host, path) keys pointing to the backend
	RSSL   []string    // bacq: hosts whose root path, served by the backend, has ssl-redirect
	TLS    bool        // hacq / tacq
	HPaths [][2]string // hacq: (path, backend)
	HAlias []string    // hacq: alias keys (server-alias name, server-alias-regex)
	TBack  string      // tacq: backend
}

// Plan computes the calls of one step from the previous desired state: the
// dirty sets follow the tracker (everything connected, through old or new
// references, to something that changed or is listed as dirty).
func Plan(prev State, st Step, in *Interner) []Op {
	cur := st.State
	var ops []Op
	hostsToAdd := map[string]bool{}
	backsToAdd := map[string]bool{}
	tcpToAdd := map[string]bool{}
	if st.Full {
		ops = append(ops, Op{Kind: "clear"})
		for h := range cur.Hosts {
			hostsToAdd[h] = true
		}
		for b := range cur.Backends {
			backsToAdd[b] = true
		}
		for t := range cur.TCP {
			tcpToAdd[t] = true
		}
		ops = append(ops, Op{Kind: "global", Ver: cur.GlobalVer()})
	} else {
		dh, db, dt := map[string]bool{}, map[string]bool{}, map[string]bool{}
		for _, d := range st.Dirty {
			switch {
			case strings.HasPrefix(d, "h:"):
				dh[d[2:]] = true
			case strings.HasPrefix(d, "b:"):
				db[d[2:]] = true
			case strings.HasPrefix(d, "t:"):
				dt[d[2:]] = true
			}
		}
		for h := range prev.Hosts {
			if _, ok := cur.Hosts[h]; !ok || prev.HostContent(h) != cur.HostContent(h) {
				dh[h] = true
			}
		}
		for h := range cur.Hosts {
			if _, ok := prev.Hosts[h]; !ok {
				dh[h] = true
			}
		}
		for b := range prev.Backends {
			if _, ok := cur.Backends[b]; !ok || prev.BackendContent(b) != cur.BackendContent(b) {
				db[b] = true
			}
		}
		for b := range cur.Backends {
			if _, ok := prev.Backends[b]; !ok {
				db[b] = true
			}
		}
		for t := range prev.TCP {
			if _, ok := cur.TCP[t]; !ok || prev.TCPContent(t) != cur.TCPContent(t) {
				dt[t] = true
			}
		}
		for t := range cur.TCP {
			if _, ok := prev.TCP[t]; !ok {
				dt[t] = true
			}
		}
		if prev.Default != cur.Default {
			if prev.Default != "" {
				db[prev.Default] = true
			}
			if cur.Default != "" {
				db[cur.Default] = true
			}
		}
		// closure over references of both states
		for changed := true; changed; {
			changed = false
			for _, s := range []State{prev, cur} {
				for h, hs := range s.Hosts {
					for _, p := range hs.Paths {
						if dh[h] && !db[p.Backend] {
							db[p.Backend] = true
							changed = true
						}
						if db[p.Backend] && !dh[h] {
							dh[h] = true
							changed = true
						}
					}
				}
				for t, ts := range s.TCP {
					if dt[t] && !db[ts.Backend] {
						db[ts.Backend] = true
						changed = true
					}
					if db[ts.Backend] && !dt[t] {
						dt[t] = true
						changed = true
					}
				}
			}
		}
		ops = append(ops, Op{Kind: "trem", Names: sortedKeys(dt)})
		ops = append(ops, Op{Kind: "hrem", Names: sortedKeys(dh)})
		ops = append(ops, Op{Kind: "brem", Names: sortedKeys(db)})
		for h := range dh {
			if _, ok := cur.Hosts[h]; ok {
				hostsToAdd[h] = true
			}
		}
		for b := range db {
			if _, ok := cur.Backends[b]; ok {
				backsToAdd[b] = true
			}
		}
		for t := range dt {
			if _, ok := cur.TCP[t]; ok {
				tcpToAdd[t] = true
			}
		}
	}
	for _, b := range sortedKeys(backsToAdd) {
		var rssl []string
		for _, h := range sortedKeys(cur.Hosts) {
			for _, p := range cur.Hosts[h].Paths {
				if p.Backend == b && p.Path == "/" && p.SSLRedirect {
					rssl = append(rssl, h)
				}
			}
		}
		ops = append(ops, Op{Kind: "bacq", Name: b, Ver: in.ID("B " + cur.BackendMarker(b)), ACL: cur.BackendACL(b), Paths: cur.BackendPaths(b), RSSL: rssl})
	}
	for _, h := range sortedKeys(hostsToAdd) {
		var hp [][2]string
		for _, p := range cur.Hosts[h].Paths {
			hp = append(hp, [2]string{p.Path, p.Backend})
		}
		ops = append(ops, Op{Kind: "hacq", Name: h, Ver: in.ID("H " + cur.HostContent(h)), TLS: cur.Hosts[h].TLS, HPaths: hp, HAlias: cur.Hosts[h].AliasKeys()})
	}
	for _, t := range sortedKeys(tcpToAdd) {
		ops = append(ops, Op{Kind: "tacq", Name: t, Ver: in.ID("T " + cur.TCPContent(t)), TLS: cur.TCP[t].TLS, TBack: cur.TCP[t].Backend})
	}
	if st.Full || prev.Default != cur.Default || backsToAdd[cur.Default] {
		ops = append(ops, Op{Kind: "default", Name: cur.Default})
	}
	return ops
}

// ---------------------------------------------------------------- instance

// Logger keeps the messages (diagnostics only, never compared).
type Logger struct{ Lines []string }

func (l *Logger) add(level, msg string, args ...interface{}) {
	if len(l.Lines) < 4000 {
		l.Lines = append(l.Lines, level+" "+fmt.Sprintf(msg, args...))
	}
}

// InfoV ...
func (l *Logger) InfoV(v int, msg string, args ...interface{}) { l.add("INFO", msg, args...) }

// Info ...
func (l *Logger) Info(msg string, args ...interface{}) { l.add("INFO", msg, args...) }

// Warn ...
func (l *Logger) Warn(msg string, args ...interface{}) { l.add("WARN", msg, args...) }

// Error ...
func (l *Logger) Error(msg string, args ...interface{}) { l.add("ERROR", msg, args...) }

// Fatal ...
func (l *Logger) Fatal(msg string, args ...interface{}) { l.add("FATAL", msg, args...) }

// Queue is the counting stub of the reload queue.
type Queue struct{ Adds int }

// Add ...
func (q *Queue) Add(item interface{}) { q.Adds++ }

// AddAfter ...
func (q *Queue) AddAfter(item interface{}, d time.Duration) { q.Adds++ }

// Remove ...
func (q *Queue) Remove(item interface{}) {}

// Start ...
func (q *Queue) Start(context.Context) error { return nil }

// Env is one real Instance over scratch directories. All paths are relative
// to Root (the process chdir()s there): the map writer derives file names by
// replacing the first '.' of the whole path, so no directory may contain one.
type Env struct {
	Root     string
	CfgDir   string
	MapsDir  string
	Shards   int
	Inst     haproxy.Instance
	Log      *Logger
	Queue    *Queue
	Interner *Interner
	Prev     State
	Timer    *utils.Timer
	Metrics  *types_helper.MetricsMock
}

// Options of NewEnv.
type Options struct {
	Shards       int
	AdminSocket  string // admin socket of the (fake) haproxy: dynamic updates go there
	Keep         bool   // do not wipe the directories: a restarted controller over what the previous one left
	InlineReload bool   // no reload queue: HAProxyUpdate itself reloads (--reload-interval=0, the default)
	MasterSocket string // external haproxy reached through this master socket
}

var envSeq int

// NewEnv creates scratch dirs <base>/<name>/{cfg,maps} and a real Instance over them.
// base must be an absolute directory; the process working directory becomes base.
func NewEnv(base, name string, o Options) *Env {
	if err := os.MkdirAll(base, 0o755); err != nil {
		panic(err)
	}
	if err := os.Chdir(base); err != nil {
		panic(err)
	}
	root := name
	if !o.Keep {
		_ = os.RemoveAll(root)
	}
	cfg := filepath.Join(root, "cfg")
	maps := filepath.Join(root, "maps")
	for _, d := range []string{cfg, maps, filepath.Join(cfg, "errorfiles"), filepath.Join(cfg, "lua")} {
		if err := os.MkdirAll(d, 0o755); err != nil {
			panic(err)
		}
	}
	if strings.Contains(cfg, ".") {
		panic("scratch path with a dot: " + cfg)
	}
	e := &Env{Root: root, CfgDir: cfg, MapsDir: maps, Shards: o.Shards, Log: &Logger{}, Interner: &Interner{}}
	e.Metrics = types_helper.NewMetricsMock()
	opts := haproxy.InstanceOptions{
		HAProxyCfgDir:  cfg,
		HAProxyMapsDir: maps,
		RootFSPrefix:   cfgsmRepoRoot() + "/rootfs",
		LocalFSPrefix:  "",
		BackendShards:  o.Shards,
		Metrics:        e.Metrics,
		AdminSocket:    o.AdminSocket,
	}
	if o.MasterSocket != "" {
		opts.IsExternal = true
		opts.MasterSocket = o.MasterSocket
	}
	if !o.InlineReload {
		e.Queue = &Queue{}
		opts.ReloadQueue = e.Queue
	}
	e.Inst = haproxy.CreateInstance(e.Log, opts)
	if err := e.Inst.ParseTemplates(); err != nil {
		panic(err)
	}
	e.Prev = State{}
	e.Prev.Normalize(false)
	e.Timer = utils.NewTimer(e.Metrics.ControllerProcTime)
	return e
}

func configGlobal(g *hatypes.Global, ver int) {
	g.AdminSocket = "/var/run/haproxy.sock"
	g.Bind.HTTPBind = ":80"
	g.Bind.HTTPSBind = ":443"
	g.Cookie.Key = "Ingress"
	g.DefaultBackendRedirCode = 301
	g.Healthz.Port = 10253
	g.MatchOrder = hatypes.DefaultMatchOrder
	g.MaxConn = 2000 + ver
	g.SSL.ALPN = "h2,http/1.1"
	g.SSL.Ciphers = "ECDHE-RSA-AES128-GCM-SHA256"
	g.SSL.CipherSuites = "TLS_AES_128_GCM_SHA256"
	g.SSL.Options = "no-sslv3"
	g.Stats.Port = 1936
	g.Timeout.Client = "50s"
	g.Timeout.Connect = "5s"
	g.Timeout.Server = "50s"
	g.Timeout.Stop = "15m"
	g.UseHTX = true
	g.CustomHTTPHAResponses = nil
	resp := func(code int, reason string) hatypes.HTTPResponse {
		return hatypes.HTTPResponse{Name: fmt.Sprint(code), StatusCode: code, StatusReason: reason,
			Headers: []hatypes.HTTPHeader{{Name: "content-type", Value: "text/plain"}},
			Body:    []string{fmt.Sprintf("custom response version %d", ver%4)}}
	}
	switch ver % 4 {
	case 1, 2:
		g.CustomHTTPHAResponses = []hatypes.HTTPResponse{resp(403, "Forbidden"), resp(503, "Service Unavailable")}
	case 3:
		g.CustomHTTPHAResponses = []hatypes.HTTPResponse{resp(503, "Service Unavailable")}
	}
}

// DefaultCrtFile is the default certificate of the frontend (a file that exists is only needed
// when something loads the configuration, as lib/fakehaproxy does).
var DefaultCrtFile = "/ssl/default.pem"

// Apply runs the calls of one step on the real Config.
func (e *Env) Apply(cur State, ops []Op) {
	cfg := e.Inst.Config()
	for _, op := range ops {
		switch op.Kind {
		case "clear":
			cfg.Clear()
			cfg.Frontend().DefaultCrtFile = DefaultCrtFile
			cfg.Frontend().DefaultCrtHash = "0"
		case "global":
			configGlobal(cfg.Global(), op.Ver)
		case "trem":
			for _, n := range op.Names {
				// RemoveService keeps the TLS entry of the hostname while the port has other
				// hosts (a matter of the converter's model, not of the files): drop it here
				i := strings.Index(n, ":")
				var port int
				fmt.Sscanf(n[i+1:], "%d", &port)
				if p := cfg.TCPServices().FindTCPPort(port); p != nil {
					delete(p.TLS, n[:i])
				}
			}
			cfg.TCPServices().RemoveAll(op.Names)
		case "hrem":
			cfg.Hosts().RemoveAll(op.Names)
		case "brem":
			ids := make([]string, len(op.Names))
			for i, n := range op.Names {
				ids[i] = BackendID(n)
			}
			cfg.Backends().RemoveAll(ids)
		case "bacq":
			e.acquireBackend(cur, op.Name, op.Ver)
		case "hacq":
			hs := cur.Hosts[op.Name]
			h := cfg.Hosts().AcquireHost(op.Name)
			h.RootRedirect = fmt.Sprintf("/r%d", op.Ver)
			h.Alias.AliasName = hs.Alias
			h.Alias.AliasRegex = hs.AliasRe
			if hs.TLS {
				h.TLS.TLSFilename = "/ssl/" + op.Name + ".pem"
				h.TLS.TLSHash = "1"
			}
			for _, p := range hs.Paths {
				b := cfg.Backends().AcquireBackend("ns", p.Backend, "8080")
				hp := h.AddPath(b, p.Path, hatypes.MatchPrefix)
				bp := b.FindBackendPath(hp.Link)
				bp.SSLRedirect = p.SSLRedirect
			}
		case "tacq":
			ts := cur.TCP[op.Name]
			b := cfg.Backends().AcquireBackend("ns", ts.Backend, "8080")
			port, th := cfg.TCPServices().AcquireTCPService(op.Name)
			hostname := op.Name[:strings.Index(op.Name, ":")]
			b.AddBackendPath(hatypes.CreateHostPathLink(op.Name, "/", hatypes.MatchExact))
			b.ModeTCP = true
			th.Backend = b.BackendID()
			if ts.TLS {
				port.TLS[hostname] = &hatypes.TCPServiceTLSConfig{Hostname: hostname,
					TLSConfig: hatypes.TLSConfig{TLSFilename: "/ssl/" + hostname + ".pem", TLSHash: "1"}}
			} else {
				delete(port.TLS, hostname)
			}
		case "default":
			if op.Name == "" {
				cfg.Backends().DefaultBackend = nil
			} else {
				cfg.Backends().DefaultBackend = cfg.Backends().AcquireBackend("ns", op.Name, "8080")
			}
		}
	}
}

func (e *Env) acquireBackend(cur State, name string, ver int) {
	cfg := e.Inst.Config()
	if cfg.Backends().FindBackend("ns", name, "8080") != nil {
		return
	}
	bs := cur.Backends[name]
	b := cfg.Backends().AcquireBackend("ns", name, "8080")
	b.CustomConfig = []string{fmt.Sprintf("# ver %d", ver)}
	if bs.Dyn {
		b.Dynamic.DynUpdate = true
		b.Dynamic.MinFreeSlots = bs.MinFree
		b.Dynamic.BlockSize = bs.Block
	}
	for _, ep := range bs.Eps {
		b.AcquireEndpoint(fmt.Sprintf("10.0.%d.%d", ep/250, ep%250+1), 8080, "")
	}
}

// Sync plans and applies one step (without the update); returns the calls made.
func (e *Env) Sync(st Step) []Op {
	ops := Plan(e.Prev, st, e.Interner)
	e.Apply(st.State, ops)
	e.Prev = st.State.Clone()
	return ops
}

// LastFailed reads instance.lastFailed (hook).
func (e *Env) LastFailed() bool { return haproxy.VerifLastFailed(e.Inst) }

// Update runs HAProxyUpdate.
func (e *Env) Update() error {
	return e.Inst.HAProxyUpdate(e.Timer)
}

// ---------------------------------------------------------------- observation

// FileObs is what one *.cfg file of the cfg dir holds.
type FileObs struct {
	File     string    // base name
	Shard    int       // -1 = main file, j = haproxy5-backendJJJ.cfg
	Backends []BackRef // `backend ns_*` sections in file order
}

// BackRef is one backend section.
type BackRef struct {
	Name string
	Ver  int    // from the `# ver N` marker, -1 when absent
	Body string // canonical text of the section (server lines sorted, slot names erased)
	// BodyNS is Body without the server lines, Servers the server lines as written
	// ("name ip:port [disabled] weight N"), sorted
	BodyNS  string
	Servers []string
}

// Disk is the projection of everything `haproxy -f <cfgdir>` would load.
type Disk struct {
	Files      []FileObs
	DefaultBE  string              // default_backend of the http frontend ("" = _error404)
	MapRefs    []string            // map / list files referenced from the *.cfg files (sorted, existing or not)
	RootRedir  map[string]int      // host -> marker, from _front_redir_fromroot*.map
	RootSSL    []string            // hosts listed in _front_redir_root_ssl*.map
	HTTPHost   []string            // "host#path backend" lines of _front_http_host*.map, sorted
	CrtList    []string            // lines of _front_bind_crt.list, sorted
	BackMaps   map[string][]string // backend name -> sorted "key pathID" lines of its referenced idpath maps
	BackMapRef map[string]bool     // backend name -> its section references an idpath map
	TCPMaps    map[string][]string // port -> sorted "host backend" lines of referenced _tcp_sni maps
	TCPPorts   []string            // ports with a frontend in the main file
	TCPCrt     map[string][]string // port -> lines of the referenced crt-list
	MapFiles   map[string][]string // every referenced map / list file -> its lines, sorted
	ErrorFiles map[string]string   // code of every `errorfile` line of the main file -> content of <cfgdir>/errorfiles/<code>.http
	Missing    []string            // referenced files that do not exist
	MainRest   string              // main file without backend sections (text, for the fresh comparison)
}

var reSection = regexp.MustCompile(`^(global|defaults|frontend|backend|listen|userlist|resolvers|peers|cache|program|ring|mailers|http-errors)\b`)
var reVer = regexp.MustCompile(`# ver (\d+)`)
var reServer = regexp.MustCompile(`^(\s*server) \S+ `)
var reFileTok = regexp.MustCompile(`[^\s,()]+\.(?:map|list)\b`)

// readFile reads a file; while a fault is planted at its path (a directory, the
// original moved to <path>.saved) it reads the original, which is what a failed
// write leaves behind.
func readFile(path string) ([]byte, error) {
	b, err := os.ReadFile(path)
	if err != nil {
		if s, e2 := os.ReadFile(path + ".saved"); e2 == nil {
			return s, nil
		}
	}
	return b, err
}

func readLines(path string) ([]string, bool) {
	b, err := readFile(path)
	if err != nil {
		return nil, false
	}
	var out []string
	for _, l := range strings.Split(string(b), "\n") {
		l = strings.TrimSpace(l)
		if l != "" && !strings.HasPrefix(l, "#") {
			out = append(out, l)
		}
	}
	return out, true
}

// ReadDisk projects the files under the env's directories.
func (e *Env) ReadDisk() Disk {
	d := Disk{ErrorFiles: map[string]string{}, MapFiles: map[string][]string{}, RootRedir: map[string]int{}, BackMaps: map[string][]string{}, BackMapRef: map[string]bool{}, TCPMaps: map[string][]string{}, TCPCrt: map[string][]string{}}
	names, _ := filepath.Glob(filepath.Join(e.CfgDir, "*.cfg"))
	sort.Strings(names)
	refs := map[string]bool{}
	for _, fn := range names {
		raw, err := readFile(fn)
		if err != nil {
			continue
		}
		base := filepath.Base(fn)
		fo := FileObs{File: base, Shard: -1}
		if strings.HasPrefix(base, "haproxy5-backend") {
			fmt.Sscanf(strings.TrimPrefix(base, "haproxy5-backend"), "%d", &fo.Shard)
		}
		var rest []string
		var cur *BackRef
		var body []string
		var curFront string
		flush := func() {
			if cur != nil {
				var servers, others []string
				for _, l := range body {
					if reServer.MatchString(l) {
						servers = append(servers, reServer.ReplaceAllString(l, "$1 * "))
					} else {
						others = append(others, l)
					}
				}
				sort.Strings(servers)
				cur.BodyNS = strings.Join(others, "\n")
				for _, l := range body {
					if reServer.MatchString(l) {
						cur.Servers = append(cur.Servers, serverKey(l))
					}
				}
				sort.Strings(cur.Servers)
				cur.Body = strings.Join(append(others, servers...), "\n")
				fo.Backends = append(fo.Backends, *cur)
				cur = nil
				body = nil
			}
		}
		for _, line := range strings.Split(strings.ReplaceAll(strings.ReplaceAll(string(raw), e.MapsDir+"/", "MAPS/"), e.CfgDir+"/", "CFG/"), "\n") {
			t := strings.TrimSpace(line)
			if t == "" || (strings.HasPrefix(t, "#") && !reVer.MatchString(t)) {
				continue
			}
			if reSection.MatchString(line) {
				flush()
				curFront = ""
				f := strings.Fields(line)
				if f[0] == "backend" && len(f) > 1 && strings.HasPrefix(f[1], "ns_") {
					name := strings.TrimSuffix(strings.TrimPrefix(f[1], "ns_"), "_8080")
					cur = &BackRef{Name: name, Ver: -1}
					continue
				}
				if (f[0] == "frontend" || f[0] == "listen") && len(f) > 1 {
					curFront = f[1]
					if strings.HasPrefix(f[1], "_front_tcp_") {
						d.TCPPorts = append(d.TCPPorts, strings.TrimPrefix(f[1], "_front_tcp_"))
					}
				}
			}
			for _, tok := range reFileTok.FindAllString(t, -1) {
				refs[tok] = true
				if cur != nil && strings.Contains(tok, "_idpath") {
					d.BackMapRef[cur.Name] = true
				}
			}
			if cur != nil {
				if m := reVer.FindStringSubmatch(t); m != nil {
					fmt.Sscanf(m[1], "%d", &cur.Ver)
				}
				body = append(body, t)
				continue
			}
			if f := strings.Fields(t); fo.Shard < 0 && len(f) == 3 && f[0] == "errorfile" && strings.Contains(f[2], "/errorfiles/") {
				// the template names <LocalFSPrefix>/etc/haproxy/errorfiles, the writer uses the cfg dir
				if b, err := readFile(filepath.Join(e.CfgDir, "errorfiles", filepath.Base(f[2]))); err == nil {
					d.ErrorFiles[f[1]] = string(b)
				} else {
					d.Missing = append(d.Missing, f[2])
				}
			}
			if strings.HasPrefix(t, "default_backend ") && (curFront == "_front_http" || curFront == "_front__http") {
				d.DefaultBE = strings.TrimPrefix(t, "default_backend ")
			}
			if fo.Shard < 0 {
				rest = append(rest, t)
			}
		}
		flush()
		if fo.Shard < 0 {
			d.MainRest = strings.Join(rest, "\n")
		}
		d.Files = append(d.Files, fo)
	}
	d.MapRefs = sortedKeys(refs)
	sort.Strings(d.TCPPorts)
	for _, ref := range d.MapRefs {
		base := filepath.Base(ref)
		path := strings.Replace(strings.Replace(ref, "MAPS/", e.MapsDir+"/", 1), "CFG/", e.CfgDir+"/", 1)
		if strings.HasPrefix(base, "crtlist_tcp_") {
			// the template points to <LocalFSPrefix>/etc/haproxy, the writer uses the cfg dir
			path = filepath.Join(e.CfgDir, base)
		}
		lines, ok := readLines(path)
		if !ok {
			d.Missing = append(d.Missing, ref)
			continue
		}
		all := make([]string, len(lines))
		for i, l := range lines {
			all[i] = strings.ReplaceAll(strings.ReplaceAll(l, e.MapsDir+"/", "MAPS/"), e.CfgDir+"/", "CFG/")
		}
		sort.Strings(all)
		d.MapFiles[ref] = all
		switch {
		case strings.HasPrefix(base, "_front_redir_fromroot"):
			for _, l := range lines {
				f := strings.Fields(l)
				if len(f) == 2 {
					var v int
					fmt.Sscanf(f[1], "/r%d", &v)
					d.RootRedir[f[0]] = v
				}
			}
		case strings.HasPrefix(base, "_front_redir_root_ssl"):
			for _, l := range lines {
				d.RootSSL = append(d.RootSSL, strings.Fields(l)[0])
			}
		case strings.HasPrefix(base, "_front_http_host"):
			d.HTTPHost = append(d.HTTPHost, lines...)
		case base == "_front_bind_crt.list":
			d.CrtList = append(d.CrtList, lines...)
		case strings.HasPrefix(base, "_back_") && strings.Contains(base, "_idpath"):
			name := strings.TrimPrefix(base, "_back_ns_")
			name = name[:strings.Index(name, "_8080")]
			d.BackMaps[name] = append(d.BackMaps[name], lines...)
		case strings.HasPrefix(base, "_tcp_sni_"):
			var port int
			fmt.Sscanf(strings.TrimPrefix(base, "_tcp_sni_"), "%d", &port)
			p := fmt.Sprint(port)
			d.TCPMaps[p] = append(d.TCPMaps[p], lines...)
		case strings.HasPrefix(base, "crtlist_tcp_"):
			var port int
			fmt.Sscanf(strings.TrimPrefix(base, "crtlist_tcp_"), "%d", &port)
			d.TCPCrt[fmt.Sprint(port)] = append(d.TCPCrt[fmt.Sprint(port)], lines...)
		}
	}
	sort.Strings(d.RootSSL)
	sort.Strings(d.HTTPHost)
	sort.Strings(d.CrtList)
	for k := range d.BackMaps {
		sort.Strings(d.BackMaps[k])
	}
	for k := range d.TCPMaps {
		sort.Strings(d.TCPMaps[k])
	}
	return d
}

// serverKey keeps of a server line what the model decides: name, address, disabled, weight.
func serverKey(line string) string {
	f := strings.Fields(line)
	k := f[1] + " " + f[2]
	for i := 3; i < len(f); i++ {
		if f[i] == "disabled" {
			k += " disabled"
		}
		if f[i] == "weight" && i+1 < len(f) {
			k += " weight " + f[i+1]
		}
	}
	return k
}

// ModelServers lists, per backend of the in-memory model, the servers it holds (used and
// empty slots), in the form of serverKey, sorted.
func (e *Env) ModelServers() map[string][]string {
	out := map[string][]string{}
	for id, b := range e.Inst.Config().Backends().Items() {
		name := strings.TrimSuffix(strings.TrimPrefix(id, "ns_"), "_8080")
		var l []string
		for _, ep := range b.Endpoints {
			k := fmt.Sprintf("%s %s:%d", ep.Name, ep.IP, ep.Port)
			if !ep.Enabled {
				k += " disabled"
			}
			k += fmt.Sprintf(" weight %d", ep.Weight)
			l = append(l, k)
		}
		sort.Strings(l)
		out[name] = l
	}
	return out
}

// CanonNS is Canon without the server lines (compared apart, against the in-memory model).
func (d Disk) CanonNS() string {
	c := d
	c.Files = nil
	for _, f := range d.Files {
		g := f
		g.Backends = nil
		for _, b := range f.Backends {
			b.Body = b.BodyNS
			g.Backends = append(g.Backends, b)
		}
		c.Files = append(c.Files, g)
	}
	return c.Canon()
}

// CanonNoResp is Canon without the custom response files (errorfiles/<code>.http), which the
// Coq model does not have.
func (d Disk) CanonNoResp() string {
	c := d
	c.ErrorFiles = nil
	return c.Canon()
}

// Canon is the canonical text of everything a loaded configuration means (used to
// compare an incrementally maintained directory with a freshly written one).
func (d Disk) Canon() string {
	var sb strings.Builder
	type br struct {
		BackRef
		file string
	}
	var all []br
	for _, f := range d.Files {
		for _, b := range f.Backends {
			all = append(all, br{b, f.File})
		}
	}
	sort.SliceStable(all, func(i, j int) bool { return all[i].Name < all[j].Name })
	for _, b := range all {
		fmt.Fprintf(&sb, "backend %s in %s\n%s\n", b.Name, b.file, b.Body)
	}
	fmt.Fprintf(&sb, "default=%s\nmain:\n%s\n", d.DefaultBE, d.MainRest)
	fmt.Fprintf(&sb, "refs=%v\nrootredir=%v\nrootssl=%v\nhttphost=%v\ncrtlist=%v\n", d.MapRefs, sortedMap(d.RootRedir), d.RootSSL, d.HTTPHost, d.CrtList)
	for _, k := range sortedKeys(d.BackMaps) {
		fmt.Fprintf(&sb, "backmap %s=%v\n", k, d.BackMaps[k])
	}
	for _, k := range sortedKeys(d.TCPMaps) {
		fmt.Fprintf(&sb, "tcpmap %s=%v\n", k, d.TCPMaps[k])
	}
	for _, k := range sortedKeys(d.TCPCrt) {
		fmt.Fprintf(&sb, "tcpcrt %s=%v\n", k, d.TCPCrt[k])
	}
	for _, k := range sortedKeys(d.MapFiles) {
		fmt.Fprintf(&sb, "file %s=%v\n", k, d.MapFiles[k])
	}
	for _, k := range sortedKeys(d.ErrorFiles) {
		fmt.Fprintf(&sb, "errorfile %s=%q\n", k, d.ErrorFiles[k])
	}
	fmt.Fprintf(&sb, "missing=%v\n", d.Missing)
	return sb.String()
}

func sortedMap(m map[string]int) []string {
	var out []string
	for _, k := range sortedKeys(m) {
		out = append(out, fmt.Sprintf("%s=%d", k, m[k]))
	}
	return out
}

// Stamp sets an old mtime on every regular file of the env, so that Written can tell what an update wrote.
func (e *Env) Stamp() {
	old := time.Unix(1000000000, 0)
	_ = filepath.Walk(e.Root, func(p string, info os.FileInfo, err error) error {
		if err == nil && info.Mode().IsRegular() {
			_ = os.Chtimes(p, old, old)
		}
		return nil
	})
}

// Written lists the files (relative to Root) written since the last Stamp.
func (e *Env) Written() []string {
	var out []string
	_ = filepath.Walk(e.Root, func(p string, info os.FileInfo, err error) error {
		if err == nil && info.Mode().IsRegular() && info.ModTime().Unix() != 1000000000 {
			r, _ := filepath.Rel(e.Root, p)
			out = append(out, r)
		}
		return nil
	})
	sort.Strings(out)
	return out
}

// cfgsmRepoRoot is /repo, or the scratch copy named by VERIF_REPO when the checks are tried
// against a copy of the repository.
func cfgsmRepoRoot() string {
	if r := os.Getenv("VERIF_REPO"); r != "" {
		return r
	}
	return "/repo"
}
