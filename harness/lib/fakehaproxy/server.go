package fakehaproxy

import (
	"errors"
	"net"
	"os"
	"strings"
	"sync"
	"syscall"
	"time"
)

// Sockets serves the admin and master unix sockets of the fake, speaking the
// part of HAProxy's CLI protocol that pkg/haproxy/socket uses: one command per
// line, `prompt` switches to interactive mode (answers end with "\n> "),
// otherwise the answer is followed by an empty line and the connection is
// closed; `<<` starts a payload that ends with an empty line.
type Sockets struct {
	Fake      *Fake
	AdminPath string
	MastPath  string
	admin     net.Listener
	master    net.Listener
	mu        sync.Mutex
	conns     map[*net.UnixConn]int // admin connections and the generation that accepted them
}

// Serve starts both listeners.
func Serve(f *Fake, adminPath, masterPath string) (*Sockets, error) {
	_ = os.Remove(adminPath)
	_ = os.Remove(masterPath)
	a, err := net.Listen("unix", adminPath)
	if err != nil {
		return nil, err
	}
	m, err := net.Listen("unix", masterPath)
	if err != nil {
		a.Close()
		return nil, err
	}
	s := &Sockets{Fake: f, AdminPath: adminPath, MastPath: masterPath, admin: a, master: m, conns: map[*net.UnixConn]int{}}
	f.onReload = func(oldGen int) {
		if f.OldExits {
			// the former process is gone: its connections with it
			s.closeConns(oldGen)
		}
	}
	go s.accept(a, false)
	go s.accept(m, true)
	return s, nil
}

// Close stops the listeners.
func (s *Sockets) Close() {
	s.admin.Close()
	s.master.Close()
	s.closeConns(-1)
	_ = os.Remove(s.AdminPath)
	_ = os.Remove(s.MastPath)
}

// closeConns closes the admin connections of generations up to gen (-1: all of them).
func (s *Sockets) closeConns(gen int) {
	s.mu.Lock()
	defer s.mu.Unlock()
	for c, g := range s.conns {
		if gen < 0 || g <= gen {
			c.Close()
			delete(s.conns, c)
		}
	}
}

func (s *Sockets) accept(l net.Listener, master bool) {
	for {
		c, err := l.Accept()
		if err != nil {
			return
		}
		go s.serve(c.(*net.UnixConn), master)
	}
}

// peekCommand waits until one whole command (with its payload, if any) is
// pending on the connection and returns it without consuming it.
func peekCommand(c *net.UnixConn) (string, int, error) {
	rc, err := c.SyscallConn()
	if err != nil {
		return "", 0, err
	}
	buf := make([]byte, 1<<20)
	deadline := time.Now().Add(10 * time.Second)
	for {
		var n int
		var rerr error
		err = rc.Read(func(fd uintptr) bool {
			n, _, rerr = syscall.Recvfrom(int(fd), buf, syscall.MSG_PEEK)
			if rerr == syscall.EAGAIN || rerr == syscall.EWOULDBLOCK {
				return false
			}
			return true
		})
		if err != nil {
			return "", 0, err
		}
		if rerr != nil {
			return "", 0, rerr
		}
		if n == 0 {
			return "", 0, errors.New("eof")
		}
		text := string(buf[:n])
		if k := commandLen(text); k > 0 {
			return text[:k], k, nil
		}
		if time.Now().After(deadline) {
			return "", 0, errors.New("incomplete command")
		}
		time.Sleep(50 * time.Microsecond)
	}
}

// commandLen returns the length of the first complete command of text, 0 if incomplete.
func commandLen(text string) int {
	i := strings.Index(text, "\n")
	if i < 0 {
		return 0
	}
	first := strings.TrimSpace(text[:i])
	if !strings.HasSuffix(first, "<<") {
		return i + 1
	}
	// payload: up to and including the first empty line
	pos := i + 1
	for {
		j := strings.Index(text[pos:], "\n")
		if j < 0 {
			return 0
		}
		if j == 0 {
			return pos + 1
		}
		pos += j + 1
	}
}

func (s *Sockets) serve(c *net.UnixConn, master bool) {
	defer c.Close()
	// the connection belongs to the generation that was listening when it was accepted
	proc := s.Fake.Current()
	if !master {
		s.mu.Lock()
		s.conns[c] = proc.Gen
		s.mu.Unlock()
		defer func() {
			s.mu.Lock()
			delete(s.conns, c)
			s.mu.Unlock()
		}()
	}
	interactive := false
	for {
		cmd, n, err := peekCommand(c)
		if err != nil {
			return
		}
		bare := strings.TrimRight(cmd, "\n")
		if !master && s.Fake.NextFault(bare) == FaultIOError {
			// break the connection with the command still unread: the peer's read fails
			// with ECONNRESET (a plain close after reading would look like an empty answer)
			s.Fake.Lose(bare)
			return
		}
		buf := make([]byte, n)
		if _, err := readFull(c, buf); err != nil {
			return
		}
		if !master && s.Fake.NextFault(bare) == FaultEOF {
			s.Fake.Lose(bare)
			return
		}
		var out string
		closeAfter := false
		switch {
		case strings.TrimSpace(bare) == "prompt":
			interactive = true
			if _, err := c.Write([]byte("\n> ")); err != nil {
				return
			}
			continue
		case master:
			out, closeAfter = s.masterCmd(strings.TrimSpace(bare))
		default:
			out = s.Fake.ExecOn(proc, bare)
		}
		if interactive {
			if out != "" {
				out += "\n"
			}
			out += "\n> "
		} else {
			out += "\n\n"
			closeAfter = true
		}
		if _, err := c.Write([]byte(out)); err != nil {
			return
		}
		if closeAfter {
			return
		}
	}
}

func readFull(c net.Conn, buf []byte) (int, error) {
	got := 0
	for got < len(buf) {
		n, err := c.Read(buf[got:])
		got += n
		if err != nil {
			return got, err
		}
	}
	return got, nil
}

func (s *Sockets) masterCmd(cmd string) (string, bool) {
	switch cmd {
	case "reload":
		_ = s.Fake.Reload()
		return "", true
	case "show proc":
		// layout of haproxy 2.5+; a failed reload shows up as `[failed: N]` on the master line
		reloads := "1               "
		s.Fake.mu.Lock()
		if s.Fake.lastReloadFailed {
			reloads = "1 [failed: 1]   "
		}
		s.Fake.mu.Unlock()
		return "#<PID>          <type>          <reloads>       <uptime>        <version>\n" +
			"1               master          " + reloads + "0d00h00m01s     2.8.0-fake\n" +
			"# workers\n" +
			"3               worker          0               0d00h00m00s     2.8.0-fake\n" +
			"# old workers\n" +
			"# programs", true
	}
	return "Unknown command.", true
}
