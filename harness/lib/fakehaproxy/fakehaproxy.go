// Package fakehaproxy is the simulated HAProxy of C02/C11: it loads the files the
// real templates wrote (what `haproxy -f <cfgdir>` would load, reduced to the
// server lines of the backend sections and to the certificates bound to hosts
// through the crt-list) and executes the runtime commands emitted by the real
// code (`set server … addr/port/state/weight`, `set ssl cert`, `commit ssl cert`)
// answering as HAProxy does. Faults can be scripted on the k-th command
// addressed to one backend / certificate file.
//
// The command semantics is the same function as Model/Dyn.v `apply_cmd`; the
// correspondence cases of C02 carry the state the fake reached so that the two
// are kept in lock-step.
package fakehaproxy

import (
	"fmt"
	"os"
	"path/filepath"
	"sort"
	"strconv"
	"strings"
	"sync"
)

// Admin states of a server; mutually exclusive as in HAProxy's `set server state`.
const (
	Ready = "ready"
	Drain = "drain"
	Maint = "maint"
)

// Server is one server line of a backend as HAProxy holds it at run time.
type Server struct {
	Name   string `json:"name"`
	Addr   string `json:"addr"`
	Port   int    `json:"port"`
	Weight int    `json:"weight"`
	Admin  string `json:"admin"`
	Cookie string `json:"cookie,omitempty"`
}

// Backend is a backend section.
type Backend struct {
	Name           string    `json:"name"`
	Servers        []*Server `json:"servers"`
	CookiePreserve bool      `json:"cookie_preserve,omitempty"` // `cookie … preserve` present
	HasCookie      bool      `json:"has_cookie,omitempty"`
	Template       string    `json:"template,omitempty"` // server-template line, verbatim (DNS resolver backends)
	DupNames       []string  `json:"dup_names,omitempty"`
}

// Find returns the first server with that name.
func (b *Backend) Find(name string) *Server {
	for _, s := range b.Servers {
		if s.Name == name {
			return s
		}
	}
	return nil
}

// State is what the running process holds.
type State struct {
	Backends map[string]*Backend `json:"backends"`
	// Certs maps a certificate file name to the content the process holds for it.
	Certs map[string]string `json:"certs"`
	// HostCert maps an SNI host of the crt-list to its certificate file; "" is the default entry.
	HostCert map[string]string `json:"host_cert"`
}

// NewState returns an empty state.
func NewState() *State {
	return &State{Backends: map[string]*Backend{}, Certs: map[string]string{}, HostCert: map[string]string{}}
}

// ---------------------------------------------------------------- loading files

// LoadDir parses what `haproxy -f dir` would load: every *.cfg of the directory
// in lexical order.
func LoadDir(dir string) (*State, error) {
	files, err := filepath.Glob(filepath.Join(dir, "*.cfg"))
	if err != nil {
		return nil, err
	}
	sort.Strings(files)
	st := NewState()
	for _, f := range files {
		b, err := os.ReadFile(f)
		if err != nil {
			return nil, err
		}
		if err := st.parseCfg(string(b)); err != nil {
			return nil, fmt.Errorf("%s: %w", f, err)
		}
	}
	return st, nil
}

func (st *State) parseCfg(text string) error {
	var cur *Backend
	insection := ""
	for _, raw := range strings.Split(text, "\n") {
		line := strings.TrimSpace(raw)
		if line == "" || strings.HasPrefix(line, "#") {
			continue
		}
		f := strings.Fields(line)
		indented := strings.HasPrefix(raw, " ") || strings.HasPrefix(raw, "\t")
		if !indented {
			// a section keyword
			insection = f[0]
			cur = nil
			if f[0] == "backend" && len(f) >= 2 {
				if _, dup := st.Backends[f[1]]; dup {
					return fmt.Errorf("backend %s declared twice", f[1])
				}
				cur = &Backend{Name: f[1]}
				st.Backends[f[1]] = cur
			}
			continue
		}
		switch {
		case insection == "backend" && cur != nil && f[0] == "server" && len(f) >= 3:
			srv, err := parseServer(f)
			if err != nil {
				return fmt.Errorf("backend %s: %w", cur.Name, err)
			}
			if cur.Find(srv.Name) != nil {
				cur.DupNames = append(cur.DupNames, srv.Name)
			}
			cur.Servers = append(cur.Servers, srv)
		case insection == "backend" && cur != nil && f[0] == "server-template":
			cur.Template = line
		case insection == "backend" && cur != nil && f[0] == "cookie":
			cur.HasCookie = true
			for _, w := range f[2:] {
				if w == "preserve" {
					cur.CookiePreserve = true
				}
			}
		case f[0] == "bind":
			for i := 1; i+1 < len(f); i++ {
				if f[i] == "crt-list" {
					if err := st.loadCrtList(f[i+1]); err != nil {
						return err
					}
				}
			}
		}
	}
	return nil
}

func parseServer(f []string) (*Server, error) {
	srv := &Server{Name: f[1], Admin: Ready, Weight: 1}
	i := strings.LastIndex(f[2], ":")
	if i < 0 {
		// unix@… and similar: not a slot of an ingress backend
		srv.Addr = f[2]
	} else {
		srv.Addr = f[2][:i]
		p, err := strconv.Atoi(f[2][i+1:])
		if err != nil {
			return nil, fmt.Errorf("server %s: bad port in %q", f[1], f[2])
		}
		srv.Port = p
	}
	for j := 3; j < len(f); j++ {
		switch f[j] {
		case "disabled":
			srv.Admin = Maint
		case "weight":
			if j+1 < len(f) {
				w, err := strconv.Atoi(f[j+1])
				if err != nil {
					return nil, fmt.Errorf("server %s: bad weight %q", f[1], f[j+1])
				}
				srv.Weight = w
				j++
			}
		case "cookie":
			if j+1 < len(f) {
				srv.Cookie = f[j+1]
				j++
			}
		}
	}
	return srv, nil
}

func (st *State) loadCrtList(path string) error {
	b, err := os.ReadFile(path)
	if err != nil {
		return fmt.Errorf("crt-list %s: %w", path, err)
	}
	for _, line := range strings.Split(string(b), "\n") {
		f := strings.Fields(line)
		if len(f) == 0 || strings.HasPrefix(f[0], "#") {
			continue
		}
		file := f[0]
		rest := f[1:]
		// optional [bind options]
		if len(rest) > 0 && strings.HasPrefix(rest[0], "[") {
			k := 0
			for k < len(rest) && !strings.HasSuffix(rest[k], "]") {
				k++
			}
			if k < len(rest) {
				rest = rest[k+1:]
			} else {
				rest = nil
			}
		}
		if _, ok := st.Certs[file]; !ok {
			c, err := os.ReadFile(file)
			if err != nil {
				return fmt.Errorf("certificate %s: %w", file, err)
			}
			st.Certs[file] = CanonPEM(string(c))
		}
		for _, h := range rest {
			if h == "!*" {
				st.HostCert[""] = file
			} else if _, ok := st.HostCert[h]; !ok {
				st.HostCert[h] = file
			}
		}
	}
	return nil
}

// ---------------------------------------------------------------- observation

// SlotObs is what the property observes of one server slot.
type SlotObs struct {
	Name    string `json:"name"`
	Enabled bool   `json:"enabled"`
	Addr    string `json:"addr,omitempty"`
	Port    int    `json:"port,omitempty"`
	EWeight int    `json:"eweight,omitempty"`
	Drain   bool   `json:"drain,omitempty"`
	Cookie  string `json:"cookie,omitempty"` // only when the backend preserves cookies
}

// EffWeight is the weight used for load balancing.
func (s *Server) EffWeight() int {
	if s.Admin != Ready {
		return 0
	}
	return s.Weight
}

// ObsBackend projects a backend to the observables, sorted by slot name.
func ObsBackend(b *Backend) []SlotObs {
	var out []SlotObs
	for _, s := range b.Servers {
		o := SlotObs{Name: s.Name}
		if s.Admin != Maint {
			o.Enabled = true
			o.Addr = s.Addr
			o.Port = s.Port
			o.EWeight = s.EffWeight()
			o.Drain = o.EWeight == 0
			if b.CookiePreserve {
				o.Cookie = s.Cookie
			}
		}
		out = append(out, o)
	}
	sort.SliceStable(out, func(i, j int) bool { return out[i].Name < out[j].Name })
	return out
}

// Diff compares the observables of two states (running vs loaded from the files)
// and returns a description of the first differences, "" when they agree.
func Diff(running, files *State) string {
	var diffs []string
	names := map[string]bool{}
	for n := range running.Backends {
		names[n] = true
	}
	for n := range files.Backends {
		names[n] = true
	}
	var sorted []string
	for n := range names {
		sorted = append(sorted, n)
	}
	sort.Strings(sorted)
	for _, n := range sorted {
		r, f := running.Backends[n], files.Backends[n]
		if r == nil {
			diffs = append(diffs, fmt.Sprintf("backend %s is in the files but not in the running process", n))
			continue
		}
		if f == nil {
			diffs = append(diffs, fmt.Sprintf("backend %s is in the running process but not in the files", n))
			continue
		}
		if r.Template != f.Template {
			diffs = append(diffs, fmt.Sprintf("backend %s: server-template running %q files %q", n, r.Template, f.Template))
		}
		ro, fo := ObsBackend(r), ObsBackend(f)
		if fmt.Sprint(ro) != fmt.Sprint(fo) {
			diffs = append(diffs, fmt.Sprintf("backend %s: running %+v files %+v", n, ro, fo))
		}
	}
	hosts := map[string]bool{}
	for h := range running.HostCert {
		hosts[h] = true
	}
	for h := range files.HostCert {
		hosts[h] = true
	}
	var hs []string
	for h := range hosts {
		hs = append(hs, h)
	}
	sort.Strings(hs)
	for _, h := range hs {
		rf, rok := running.HostCert[h]
		ff, fok := files.HostCert[h]
		if rok != fok {
			diffs = append(diffs, fmt.Sprintf("host %q: certificate entry running=%v files=%v", h, rok, fok))
			continue
		}
		if running.Certs[rf] != files.Certs[ff] {
			diffs = append(diffs, fmt.Sprintf("host %q: running certificate (%s, %d bytes, %q…) differs from the file (%s, %d bytes, %q…)",
				h, rf, len(running.Certs[rf]), head(running.Certs[rf]), ff, len(files.Certs[ff]), head(files.Certs[ff])))
		}
	}
	if len(diffs) > 4 {
		diffs = append(diffs[:4], fmt.Sprintf("… and %d more", len(diffs)-4))
	}
	return strings.Join(diffs, "; ")
}

func head(s string) string {
	if len(s) > 24 {
		return s[:24]
	}
	return s
}

// ---------------------------------------------------------------- commands

// Fault kinds.
const (
	FaultIOError = "ioerr" // the connection breaks: command not executed, the caller gets an I/O error
	FaultRefuse  = "text"  // HAProxy answers with an unexpected text and does not execute the command
	FaultNoise   = "noise" // HAProxy executes the command but the answer carries an unexpected text
	// FaultEOF: the peer reads the command, does not execute it and closes the connection
	// without a byte of answer. Not produced by the generators (a live HAProxy does not do
	// that); kept for replays: pkg/haproxy/socket reads it as an empty, i.e. accepted, answer.
	FaultEOF = "eof"
)

// Fault is a scripted fault on the Index-th (0-based) command addressed to Target
// (a backend name, or "cert:<file>") since the last Begin.
type Fault struct {
	Target string `json:"target"`
	Index  int    `json:"index"`
	Kind   string `json:"kind"`
}

// Exchange is one command received together with the answer given.
type Exchange struct {
	Target string `json:"target"`
	Cmd    string `json:"cmd"`
	Answer string `json:"answer"`
	Fault  string `json:"fault,omitempty"`
	// Lost is set when the connection was broken instead of executing the command.
	Lost bool `json:"lost,omitempty"`
	// Stale is set when the command was executed by a generation that no longer listens: it did
	// not change the process that serves the traffic.
	Stale bool `json:"stale,omitempty"`
}

// Proc is one generation of the HAProxy worker process: the state it loaded and changed at run
// time, and its pending certificate transactions. A reload starts the next generation, which
// loads the files and is the one new connections on the admin socket reach; the connections the
// former generation had accepted stay with it (soft stop) and keep acting on ITS state.
type Proc struct {
	Gen     int
	St      *State
	pending map[string]string // transactions of `set ssl cert`
}

// Fake is the simulated HAProxy: the listening generation (St is its state), the former ones
// still referenced by their connections, the fault script and the log of what was received.
type Fake struct {
	mu      sync.Mutex
	CfgDir  string
	St      *State
	faults  []Fault
	count   map[string]int
	Log     []Exchange
	Reloads int
	// ReloadFails makes the next reloads fail (the old worker keeps running).
	ReloadFails int
	cur         *Proc // the listening generation; cur.St == St
	LoadErr     error
	// OldExits: a reloaded process exits at once instead of serving its established connections
	// until they end (soft stop): its connections are closed by the reload
	OldExits bool
	// onReload is called (outside the lock) with the generation that stopped listening
	onReload func(oldGen int)
	// lastReloadFailed: the last reload left the old worker running
	lastReloadFailed bool
}

// New creates a fake that loads cfgdir on reload.
func New(cfgdir string) *Fake {
	f := &Fake{CfgDir: cfgdir, St: NewState(), count: map[string]int{}}
	f.cur = &Proc{Gen: 0, St: f.St, pending: map[string]string{}}
	return f
}

// Begin starts a new step: clears the log, the per-target counters and installs the fault script.
func (f *Fake) Begin(faults []Fault) {
	f.mu.Lock()
	defer f.mu.Unlock()
	f.faults = faults
	f.count = map[string]int{}
	f.Log = nil
	f.Reloads = 0
}

// Reload loads the files as a new worker would.
func (f *Fake) Reload() error {
	old, err := f.reload()
	if err == nil && f.onReload != nil {
		f.onReload(old)
	}
	return err
}

// Current returns the listening generation.
func (f *Fake) Current() *Proc {
	f.mu.Lock()
	defer f.mu.Unlock()
	return f.cur
}

func (f *Fake) reload() (int, error) {
	f.mu.Lock()
	defer f.mu.Unlock()
	f.Reloads++
	if f.ReloadFails > 0 {
		f.ReloadFails--
		f.lastReloadFailed = true
		return f.cur.Gen, fmt.Errorf("scripted reload failure")
	}
	st, err := LoadDir(f.CfgDir)
	if err == nil {
		// HAProxy refuses a configuration that names two servers of a backend alike
		for _, b := range st.Backends {
			if len(b.DupNames) > 0 {
				err = fmt.Errorf("backend %s: server name(s) %v declared twice", b.Name, b.DupNames)
			}
		}
	}
	if err != nil {
		f.LoadErr = err
		f.lastReloadFailed = true
		return f.cur.Gen, err
	}
	f.lastReloadFailed = false
	old := f.cur.Gen
	f.cur = &Proc{Gen: old + 1, St: st, pending: map[string]string{}}
	f.St = st
	return old, nil
}

// Snapshot returns what was received since Begin and the number of reloads.
func (f *Fake) Snapshot() ([]Exchange, int) {
	f.mu.Lock()
	defer f.mu.Unlock()
	return append([]Exchange(nil), f.Log...), f.Reloads
}

// TargetOf classifies a command.
func TargetOf(cmd string) string {
	w := strings.Fields(cmd)
	switch {
	case len(w) >= 3 && w[0] == "set" && w[1] == "server":
		if i := strings.Index(w[2], "/"); i >= 0 {
			return w[2][:i]
		}
		return w[2]
	case len(w) >= 4 && w[0] == "set" && w[1] == "ssl" && w[2] == "cert":
		return "cert:" + w[3]
	case len(w) >= 4 && w[0] == "commit" && w[1] == "ssl" && w[2] == "cert":
		return "cert:" + w[3]
	}
	return ""
}

// NextFault tells which fault, if any, is scripted for the command about to be received.
func (f *Fake) NextFault(cmd string) string {
	f.mu.Lock()
	defer f.mu.Unlock()
	return f.nextFault(TargetOf(cmd))
}

func (f *Fake) nextFault(target string) string {
	for _, ft := range f.faults {
		if ft.Target == target && ft.Index == f.count[target] {
			return ft.Kind
		}
	}
	return ""
}

// Lose records that the connection was broken on this command (I/O error at the caller).
func (f *Fake) Lose(cmd string) {
	f.mu.Lock()
	defer f.mu.Unlock()
	t := TargetOf(cmd)
	f.count[t]++
	f.Log = append(f.Log, Exchange{Target: t, Cmd: LogForm(cmd), Fault: FaultIOError, Lost: true})
}

// Exec executes one runtime command and returns HAProxy's answer (without the
// trailing line break). Scripted "text"/"noise" faults are applied here; "ioerr"
// must be handled by the transport (NextFault / Lose).
func (f *Fake) Exec(cmd string) string { return f.ExecOn(nil, cmd) }

// ExecOn executes the command on the generation that accepted the connection (nil = the
// listening one).
func (f *Fake) ExecOn(p *Proc, cmd string) string {
	f.mu.Lock()
	defer f.mu.Unlock()
	if p == nil {
		p = f.cur
	}
	t := TargetOf(cmd)
	if t == "" {
		return f.execOther(cmd)
	}
	kind := f.nextFault(t)
	f.count[t]++
	var ans string
	switch kind {
	case FaultRefuse:
		ans = "Operation refused by the scripted fault."
	case FaultNoise:
		ans = strings.TrimSpace("[warning] scripted noise. " + f.apply(p, cmd))
	default:
		ans = f.apply(p, cmd)
	}
	f.Log = append(f.Log, Exchange{Target: t, Cmd: LogForm(cmd), Answer: ans, Fault: kind, Stale: p != f.cur})
	return ans
}

// CanonPEM is the content of a certificate file as far as HAProxy's PEM parser is
// concerned: empty lines and trailing line breaks do not matter.
func CanonPEM(s string) string {
	for strings.Contains(s, "\n\n") {
		s = strings.ReplaceAll(s, "\n\n", "\n")
	}
	return strings.TrimSpace(s)
}

// LogForm is how a received command is recorded: its first line, followed for a
// payload command by the payload lines that are not PEM markers.
func LogForm(cmd string) string {
	head := firstLine(cmd)
	if !strings.HasSuffix(strings.TrimSpace(head), "<<") {
		return head
	}
	var body []string
	for _, l := range strings.Split(cmd, "\n")[1:] {
		if l == "" || strings.HasPrefix(l, "-----") {
			continue
		}
		body = append(body, l)
	}
	return head + strings.Join(body, "|")
}

func firstLine(s string) string {
	if i := strings.Index(s, "\n"); i >= 0 {
		return s[:i]
	}
	return s
}

func (f *Fake) execOther(cmd string) string {
	w := strings.Fields(cmd)
	if len(w) == 0 {
		return ""
	}
	switch w[0] {
	case "show":
		if len(w) >= 2 && w[1] == "info" {
			return "Name: fakehaproxy\nIdle_pct: 100"
		}
		if len(w) >= 3 && w[1] == "servers" && w[2] == "state" {
			return "1\n# be_id be_name srv_id srv_name"
		}
		if len(w) >= 2 && w[1] == "sess" {
			return ""
		}
	}
	return "Unknown command. Please enter one of the following commands only :"
}

// apply is HAProxy's `set server` / `set ssl cert` / `commit ssl cert`.
func (f *Fake) apply(p *Proc, cmd string) string {
	head := firstLine(cmd)
	w := strings.Fields(head)
	switch {
	case w[0] == "set" && w[1] == "server":
		return f.setServer(p, w)
	case w[0] == "set" && w[1] == "ssl":
		// set ssl cert <file> <<\n<payload>\n
		if len(w) < 5 || w[4] != "<<" {
			return "'set ssl cert' expects a filename and a certificate as a payload"
		}
		file := w[3]
		if _, ok := p.St.Certs[file]; !ok {
			return "Can't replace a certificate which is not referenced by the configuration!"
		}
		payload := ""
		if i := strings.Index(cmd, "\n"); i >= 0 {
			payload = cmd[i+1:]
		}
		if !strings.Contains(payload, "BEGIN") {
			return "Can't load the payload"
		}
		p.pending[file] = CanonPEM(payload)
		return "Transaction created for certificate " + file + "!"
	case w[0] == "commit" && w[1] == "ssl":
		if len(w) < 4 {
			return "'commit ssl cert' expects a filename"
		}
		file := w[3]
		pl, ok := p.pending[file]
		if !ok {
			return "No ongoing transaction! !"
		}
		delete(p.pending, file)
		p.St.Certs[file] = pl
		return "Committing " + file + ".\nSuccess!"
	}
	return "Unknown command."
}

func (f *Fake) setServer(p *Proc, w []string) string {
	// set server <backend>/<server> (addr <ip> [port <p>] | state <s> | weight <w>)
	if len(w) < 5 {
		return "Require 'backend/server'."
	}
	i := strings.Index(w[2], "/")
	if i < 0 {
		return "Require 'backend/server'."
	}
	be := p.St.Backends[w[2][:i]]
	if be == nil {
		return "No such backend."
	}
	srv := be.Find(w[2][i+1:])
	if srv == nil {
		return "No such server."
	}
	switch w[3] {
	case "state":
		switch w[4] {
		case "ready":
			srv.Admin = Ready
		case "drain":
			srv.Admin = Drain
		case "maint":
			srv.Admin = Maint
		default:
			return "'set server <srv> state' expects 'ready', 'drain' and 'maint'."
		}
		return ""
	case "weight":
		n, err := strconv.Atoi(strings.TrimSuffix(w[4], "%"))
		if err != nil || n < 0 || n > 256 {
			return "Invalid weight, expects an integer in 0..256."
		}
		if strings.HasSuffix(w[4], "%") {
			return "Relative weight change not supported by the fake."
		}
		srv.Weight = n
		return ""
	case "addr":
		addr := w[4]
		if !validIP(addr) {
			return "Invalid addr family is invalid"
		}
		port := -1
		if len(w) >= 7 && w[5] == "port" {
			p, err := strconv.Atoi(w[6])
			if err != nil || p < 0 || p > 65535 {
				return "provided port is not an integer"
			}
			port = p
		} else if len(w) != 5 {
			return "'set server <srv> addr' expects <ip> [port <port>]"
		}
		var msg string
		if srv.Addr != addr {
			msg = fmt.Sprintf("IP changed from '%s' to '%s'", srv.Addr, addr)
			srv.Addr = addr
		} else {
			msg = "no need to change the addr"
		}
		if port >= 0 {
			if srv.Port != port {
				msg += fmt.Sprintf(", port changed from '%d' to '%d'", srv.Port, port)
				srv.Port = port
			} else {
				msg += ", no need to change the port"
			}
		}
		return msg + " by 'stats socket command'"
	}
	return "'set server <srv>' only supports 'agent', 'health', 'state', 'weight', 'addr', 'fqdn', 'check-addr', 'check-port' and 'ssl'."
}

func validIP(s string) bool {
	if strings.Contains(s, ":") {
		return true // ipv6, not used by the harness
	}
	p := strings.Split(s, ".")
	if len(p) != 4 {
		return false
	}
	for _, x := range p {
		n, err := strconv.Atoi(x)
		if err != nil || n < 0 || n > 255 {
			return false
		}
	}
	return true
}

// Clone makes a deep copy of a state.
func (st *State) Clone() *State {
	n := NewState()
	for k, b := range st.Backends {
		nb := *b
		nb.Servers = nil
		for _, s := range b.Servers {
			c := *s
			nb.Servers = append(nb.Servers, &c)
		}
		n.Backends[k] = &nb
	}
	for k, v := range st.Certs {
		n.Certs[k] = v
	}
	for k, v := range st.HostCert {
		n.HostCert[k] = v
	}
	return n
}
