package c07

// Endpoint churn histories for the socket-mode stream: backends with dynamic scaling whose
// endpoints are scaled up / down / replaced / flip readiness, so that the dynamic updater
// (pkg/haproxy/dynupdate.go) really renames endpoints after the running servers, reuses
// empty slots and appends the remaining ones, with every combination of slot increments,
// free slots, cookie affinity with and without session-cookie-preserve, cookie value
// strategies, the three naming modes, blue/green and server ids.

import (
	"fmt"
	"math/rand"

	api "k8s.io/api/core/v1"
	k8stypes "k8s.io/apimachinery/pkg/types"
	"sigs.k8s.io/controller-runtime/pkg/client"

	"verif/harness/lib/pipeline"
	"verif/harness/lib/world"
)

var churnPods = []string{"pod-a", "pod-b", "pod-c", "pod-d", "pod-e", "pod-f", "srv002", "srv004"}

func churnPod(ns, svc string, i int) *api.Pod {
	ip := fmt.Sprintf("10.1.%d.%d", svcIndex(svc), i+1)
	p := world.Pod(ns, svc+"-"+churnPods[i], svc, ip, 8080, false)
	p.Labels["group"] = []string{"blue", "green"}[i%2]
	p.UID = k8stypes.UID(fmt.Sprintf("uid-%s-%s-%d", ns, svc, i))
	return p
}

// churnEndpoints builds the endpoints of svc from a selection of pod indexes (order kept).
func churnEndpoints(ns, svc string, sel []int, notReady int, refs bool) *api.Endpoints {
	var ips, pods []string
	for _, i := range sel {
		ips = append(ips, fmt.Sprintf("10.1.%d.%d", svcIndex(svc), i+1))
		if refs {
			pods = append(pods, svc+"-"+churnPods[i])
		} else {
			pods = append(pods, "")
		}
	}
	return EndpointsRef(ns, svc, "http", 8080, ips, pods, notReady)
}

func churnSelection(rng *rand.Rand, prev []int) []int {
	switch rng.Intn(6) {
	case 0: // scale down by one (any position)
		if len(prev) > 0 {
			k := rng.Intn(len(prev))
			return append(append([]int{}, prev[:k]...), prev[k+1:]...)
		}
	case 1, 2: // scale up by one
		for try := 0; try < 10; try++ {
			c := rng.Intn(len(churnPods))
			in := false
			for _, x := range prev {
				in = in || x == c
			}
			if !in {
				out := append([]int{}, prev...)
				k := rng.Intn(len(out) + 1)
				return append(out[:k], append([]int{c}, out[k:]...)...)
			}
		}
	case 3: // replace one
		if len(prev) > 0 {
			out := append([]int{}, prev...)
			for try := 0; try < 10; try++ {
				c := rng.Intn(len(churnPods))
				in := false
				for _, x := range prev {
					in = in || x == c
				}
				if !in {
					out[rng.Intn(len(out))] = c
					return out
				}
			}
		}
	}
	// a fresh selection
	perm := rng.Perm(len(churnPods))
	return append([]int{}, perm[:rng.Intn(6)]...)
}

func churnAnnotations(rng *rand.Rand) map[string]string {
	a := map[string]string{}
	if rng.Intn(5) > 0 {
		a[ann+"affinity"] = "cookie"
		if rng.Intn(3) > 0 {
			a[ann+"session-cookie-preserve"] = pick(rng, []string{"true", "true", "false"})
		}
		if rng.Intn(2) == 0 {
			a[ann+"session-cookie-value-strategy"] = pick(rng, []string{"pod-uid", "server-name"})
		}
		if rng.Intn(6) == 0 {
			a[ann+"session-cookie-dynamic"] = "true"
		}
	}
	if rng.Intn(2) == 0 {
		a[ann+"backend-server-naming"] = pick(rng, []string{"pod", "ip", "sequence"})
	}
	if rng.Intn(2) == 0 {
		a[ann+"backend-server-slots-increment"] = pick(rng, []string{"1", "2", "4"})
	}
	if rng.Intn(3) == 0 {
		a[ann+"slots-min-free"] = pick(rng, []string{"1", "2", "3"})
	}
	if rng.Intn(8) == 0 {
		a[ann+"dynamic-scaling"] = "false"
	}
	if rng.Intn(5) == 0 {
		a[ann+"blue-green-deploy"] = "group=blue=1,group=green=2"
		a[ann+"blue-green-mode"] = pick(rng, []string{"pod", "deploy"})
		if rng.Intn(2) == 0 {
			a[ann+"blue-green-header"] = "x-server:group"
		}
	}
	if rng.Intn(5) == 0 {
		a[ann+"assign-backend-server-id"] = "true"
	}
	if rng.Intn(6) == 0 {
		a[ann+"initial-weight"] = "10"
	}
	return a
}

// GenChurn generates one socket-mode scenario: two services behind one or two ingresses,
// then n batches of endpoint churn (now and then an annotation change in between).
func GenChurn(rng *rand.Rand, n int) (Opt, [][]pipeline.Change) {
	o := Opt{Socket: true}
	ns := "ns1"
	svcs := []string{"svc1", "svc2"}
	var first []client.Object
	if rng.Intn(3) == 0 {
		first = append(first, pglobal(map[string]string{"drain-support": "true"}))
	}
	sel := map[string][]int{}
	refs := map[string]bool{}
	for _, s := range svcs {
		first = append(first, svc(ns, s))
		for i := range churnPods {
			first = append(first, churnPod(ns, s, i))
		}
		refs[s] = rng.Intn(6) > 0
		sel[s] = churnSelection(rng, nil)
		first = append(first, churnEndpoints(ns, s, sel[s], 0, refs[s]))
	}
	anns := map[string]map[string]string{}
	mkIng := func(i int) client.Object {
		name := world.IngressNames[i]
		return ing(ns, name, nil, rule(hosts[i], pth("/", svcs[i])))
	}
	for i := range svcs {
		anns[svcs[i]] = churnAnnotations(rng)
		g := mkIng(i)
		g.SetAnnotations(anns[svcs[i]])
		first = append(first, g)
	}
	h := [][]pipeline.Change{creates(first...)}
	for b := 0; b < n; b++ {
		var batch []pipeline.Change
		for j, m := 0, 1+rng.Intn(2); j < m; j++ {
			i := rng.Intn(len(svcs))
			s := svcs[i]
			if rng.Intn(9) == 0 {
				anns[s] = churnAnnotations(rng)
				g := mkIng(i)
				g.SetAnnotations(anns[s])
				batch = append(batch, pipeline.Change{Op: pipeline.Update, Obj: g})
				continue
			}
			sel[s] = churnSelection(rng, sel[s])
			nr := 0
			if len(sel[s]) > 1 && rng.Intn(4) == 0 {
				nr = 1
			}
			batch = append(batch, pipeline.Change{Op: pipeline.Update, Obj: churnEndpoints(ns, s, sel[s], nr, refs[s])})
		}
		h = append(h, batch)
	}
	return o, h
}
