package c07

import (
	"fmt"
	"strings"

	"verif/harness/lib/hx"
)

func strs(l []string) string {
	out := make([]string, len(l))
	for i, s := range l {
		out[i] = hx.Str(s)
	}
	return hx.List(out)
}

func kindCoq(k string) string {
	switch k {
	case "frontend":
		return "KFront"
	case "backend":
		return "KBack"
	case "listen":
		return "KListen"
	}
	return "KOther"
}

// Coq prints the reference structure as a term of type Model.CfgRefs.cfg (through the
// positional constructors mk_sec / mk_dyn / mk_cfg of Corr/Corr_C07.v).
func (c *Cfg) Coq() string {
	var secs []string
	for _, s := range c.Sections {
		var svs, dyns []string
		for _, sv := range s.Servers {
			svs = append(svs, hx.Tuple(hx.Str(sv.Name), hx.N(sv.ID)))
		}
		for _, d := range s.UseDyn {
			dyns = append(dyns, fmt.Sprintf("(mk_dyn %s %s)", strs(d.Maps), strs(d.Defaults)))
		}
		secs = append(secs, fmt.Sprintf("(mk_sec %s %s %s %s %s %s %s %s %s %s %s %s %s %s)",
			kindCoq(s.Kind), hx.Str(s.Name), hx.List(svs), strs(s.Use), hx.List(dyns), strs(s.Default), strs(s.AuthBack),
			strs(s.Userlists), strs(s.Maps), strs(s.CrtLists), strs(s.Files), strs(s.IDMaps), strs(s.IDsUsed), strs(s.UseServer)))
	}
	var maps, crts, binds, ids, asv []string
	for _, m := range c.Maps {
		var es []string
		for _, e := range m.Entries {
			es = append(es, hx.Tuple(hx.Str(e[0]), hx.Str(e[1])))
		}
		maps = append(maps, hx.Tuple(hx.Str(m.Name), hx.List(es)))
	}
	for _, m := range c.CrtLists {
		crts = append(crts, hx.Tuple(hx.Str(m.Name), strs(m.Files)))
	}
	for _, p := range c.AuthBinds {
		binds = append(binds, hx.N(p))
	}
	for _, p := range c.AuthIDs {
		ids = append(ids, hx.N(p))
	}
	for _, a := range c.AuthServers {
		p := a.Port
		if p < 0 {
			p = 0
		}
		asv = append(asv, hx.Tuple(hx.Str(a.Backend), hx.N(p)))
	}
	return fmt.Sprintf("(mk_cfg\n  %s\n  %s\n  %s\n  %s\n  %s\n  %s %s %s)", hx.List(secs), strs(c.Userlists), hx.List(maps), hx.List(crts),
		strs(c.Files), hx.List(binds), hx.List(ids), hx.List(asv))
}

// Summary is a short text of what the structure holds (for samples).
func (c *Cfg) Summary() string {
	nb, nf, ns, nd, nid := 0, 0, 0, 0, 0
	for _, s := range c.Sections {
		switch s.Kind {
		case "backend", "listen":
			nb++
		case "frontend":
			nf++
		}
		ns += len(s.Servers)
		nd += len(s.UseDyn)
		nid += len(s.IDsUsed)
	}
	var names []string
	for _, s := range c.Sections {
		if s.Kind != "other" {
			names = append(names, s.Name)
		}
	}
	return fmt.Sprintf("%d backends/listen, %d frontends, %d servers, %d dynamic use_backend, %d path ids used, %d userlists, %d maps, %d files, auth ports %v: %s",
		nb, nf, ns, nd, nid, len(c.Userlists), len(c.Maps), len(c.Files), c.AuthBinds, strings.Join(names, " "))
}
