package c07

// Drivers of the three generators of names / ids / ports on the REAL types
// (pkg/haproxy/types), their op generators, direct oracles and Coq printers.

import (
	"fmt"
	"math/rand"
	"sort"
	"strconv"
	"strings"

	hatypes "github.com/jcmoraisjr/haproxy-ingress/pkg/haproxy/types"

	"verif/harness/lib/hx"
)

// ---------------------------------------------------------------- server names

// EpOp is AddEndpoint(IP, Port, TargetRef) or, when Empty, AddEmptyEndpoint().
type EpOp struct {
	Empty     bool   `json:"empty,omitempty"`
	IP        string `json:"ip,omitempty"`
	Port      int    `json:"port,omitempty"`
	TargetRef string `json:"target_ref,omitempty"`
}

// NamesInput is one case of the naming generator.
type NamesInput struct {
	Mode string `json:"mode"` // sequence | ip | pod
	Ops  []EpOp `json:"ops"`
}

var (
	unitIPs  = []string{"10.0.0.1", "10.0.0.2", "10.0.0.3", "127.0.0.1", "fa00::1"}
	unitRefs = []string{"", "", "ns1/pod-a", "ns1/pod-b", "ns2/pod-a", "ns1/srv001", "ns1/srv002", "ns1/srv003", "ns1/srv004", "ns2/srv002",
		"pod-a", "a/b/srv002", "ns1/pod-a__2", "ns1/", "ns1/srv002__2", "ns1/srv1", "ns1/srv0010"}
)

// GenNames generates one case.
func GenNames(rng *rand.Rand) NamesInput {
	in := NamesInput{Mode: pick(rng, []string{"sequence", "ip", "pod", "pod"})}
	for i, n := 0, rng.Intn(13); i < n; i++ {
		if rng.Intn(4) == 0 {
			in.Ops = append(in.Ops, EpOp{Empty: true})
		} else {
			in.Ops = append(in.Ops, EpOp{IP: pick(rng, unitIPs), Port: pick(rng, []int{80, 8080, 1023}), TargetRef: pick(rng, unitRefs)})
		}
	}
	return in
}

// RunNames runs the ops on a real backend and returns the server names in order.
func RunNames(in NamesInput) []string {
	b := &hatypes.Backend{}
	switch in.Mode {
	case "ip":
		b.EpNaming = hatypes.EpIPPort
	case "pod":
		b.EpNaming = hatypes.EpTargetRef
	default:
		b.EpNaming = hatypes.EpSequence
	}
	for _, op := range in.Ops {
		if op.Empty {
			b.AddEmptyEndpoint()
		} else {
			b.AddEndpoint(op.IP, op.Port, op.TargetRef)
		}
	}
	out := []string{}
	for _, ep := range b.Endpoints {
		out = append(out, ep.Name)
	}
	return out
}

func firstDup(l []string) string {
	seen := map[string]bool{}
	for _, x := range l {
		if seen[x] {
			return x
		}
		seen[x] = true
	}
	return ""
}

// CoqNames prints the case.
func CoqNames(id int, in NamesInput, obs []string) string {
	m := map[string]string{"sequence": "NSeq", "ip": "NIp", "pod": "NPod"}[in.Mode]
	var ops []string
	for _, op := range in.Ops {
		if op.Empty {
			ops = append(ops, "AddEmptyEndpoint")
		} else {
			ops = append(ops, fmt.Sprintf("(AddEndpoint %s %s %s)", hx.Str(op.IP), hx.N(op.Port), hx.Str(op.TargetRef)))
		}
	}
	return fmt.Sprintf("(CNames %s %s %s %s)", hx.N(id), m, hx.List(ops), strs(obs))
}

// ---------------------------------------------------------------- path ids

// PathOp is AddBackendPath(CreateHostPathLink(Host, Path, Match)).
type PathOp struct {
	Host  string `json:"host"`
	Path  string `json:"path"`
	Match string `json:"match"`
}

// PathsInput is one case of the path id generator.
type PathsInput struct {
	Ops []PathOp `json:"ops"`
}

// GenPaths generates one case (now and then more than 99 paths: path100 follows path99).
func GenPaths(rng *rand.Rand) PathsInput {
	in := PathsInput{}
	n := rng.Intn(16)
	big := rng.Intn(40) == 0
	if big {
		n = 100 + rng.Intn(12)
	}
	for i := 0; i < n; i++ {
		op := PathOp{Host: pick(rng, []string{"a.example", "b.example", "<default>", "*.wild.example"}),
			Path: pick(rng, []string{"/", "/app", "/app/", "/api", "/App"}), Match: pick(rng, []string{"begin", "prefix", "exact", "regex"})}
		if big {
			op.Path = fmt.Sprintf("/p%d", rng.Intn(120))
		}
		in.Ops = append(in.Ops, op)
	}
	return in
}

func linkKey(l *hatypes.PathLink) string { return strings.ReplaceAll(string(l.Hash()), "\n", "|") }

// RunPaths runs the ops on a real backend; it returns the keys of the links of the ops and
// the (link key, id) pairs of b.Paths ordered by numeric id.
func RunPaths(in PathsInput) (keys []string, obs [][2]string) {
	b := &hatypes.Backend{}
	for _, op := range in.Ops {
		l := hatypes.CreateHostPathLink(op.Host, op.Path, hatypes.MatchType(op.Match))
		keys = append(keys, linkKey(l))
		b.AddBackendPath(l)
	}
	for _, p := range b.Paths {
		obs = append(obs, [2]string{linkKey(p.Link), p.ID})
	}
	num := func(id string) int { n, _ := strconv.Atoi(strings.TrimPrefix(id, "path")); return n }
	sort.SliceStable(obs, func(i, j int) bool { return num(obs[i][1]) < num(obs[j][1]) })
	return keys, obs
}

// CoqPaths prints the case.
func CoqPaths(id int, keys []string, obs [][2]string) string {
	var o []string
	for _, p := range obs {
		o = append(o, hx.Tuple(hx.Str(p[0]), hx.Str(p[1])))
	}
	return fmt.Sprintf("(CPaths %s %s %s)", hx.N(id), strs(keys), hx.List(o))
}

// ---------------------------------------------------------------- auth proxy ports

// AuthOp is one call on the frontend's auth proxy.
type AuthOp struct {
	Kind       string   `json:"kind"` // acquire | except | bytarget
	RangeStart int      `json:"range_start,omitempty"`
	RangeEnd   int      `json:"range_end,omitempty"`
	Backend    string   `json:"backend,omitempty"`  // service name of the BackendID (namespace ns1, port 8080)
	Used       []int    `json:"used,omitempty"`     // ports whose helper backend names are in the `used` set
	Backends   []string `json:"backends,omitempty"` // service names
}

// AuthInput is one case.
type AuthInput struct {
	Ops []AuthOp `json:"ops"`
}

// AuthObs is what one call returned and the bind list after it.
type AuthObs struct {
	Port  int      `json:"port"` // -1 = error / nothing returned
	Binds []string `json:"binds"`
	binds [][2]interface{}
}

var authBackends = []string{"a", "b", "c", "d", "e"}

func backendID(name string) hatypes.BackendID {
	return hatypes.BackendID{Namespace: "ns1", Name: name, Port: "8080"}
}

// GenAuth generates one case: small ranges (so that they fill up), range changes, removals.
func GenAuth(rng *rand.Rand) AuthInput {
	in := AuthInput{}
	ranges := [][2]int{{14415, 14416}, {14415, 14416}, {14415, 14418}, {14417, 14418}, {0, -1}, {14415, 14415}, {14410, 14499}}
	r := pick(rng, ranges)
	for i, n := 0, rng.Intn(14); i < n; i++ {
		if rng.Intn(6) == 0 {
			r = pick(rng, ranges)
		}
		switch k := rng.Intn(10); {
		case k < 7:
			in.Ops = append(in.Ops, AuthOp{Kind: "acquire", RangeStart: r[0], RangeEnd: r[1], Backend: pick(rng, authBackends)})
		case k < 8:
			var used []int
			for p := 14410; p <= 14420; p++ {
				if rng.Intn(2) == 0 {
					used = append(used, p)
				}
			}
			in.Ops = append(in.Ops, AuthOp{Kind: "except", Used: used})
		default:
			var bs []string
			for _, b := range authBackends {
				if rng.Intn(3) == 0 {
					bs = append(bs, b)
				}
			}
			in.Ops = append(in.Ops, AuthOp{Kind: "bytarget", Backends: bs})
		}
	}
	return in
}

// RunAuth runs the ops on a real frontend. problems lists violations of the property seen
// directly on the real results (a port handed out while held by another backend, a port
// outside the range, an error although a port of the range is free, a duplicated port).
func RunAuth(in AuthInput) (obs []AuthObs, problems []string) {
	f := &hatypes.Frontend{}
	for i, op := range in.Ops {
		before := map[int]string{}
		for _, b := range f.AuthProxy.BindList {
			before[b.LocalPort] = b.Backend.String()
		}
		o := AuthObs{Port: -1}
		switch op.Kind {
		case "acquire":
			f.AuthProxy.RangeStart, f.AuthProxy.RangeEnd = op.RangeStart, op.RangeEnd
			id := backendID(op.Backend)
			name, err := f.AcquireAuthBackendName(id)
			held := false
			for _, b := range before {
				if b == id.String() {
					held = true
				}
			}
			if err == nil {
				p, perr := strconv.Atoi(strings.TrimPrefix(name, "_auth_"))
				if perr != nil {
					problems = append(problems, fmt.Sprintf("op %d: unparsable helper backend name %q", i, name))
				}
				o.Port = p
				if !held {
					if owner, taken := before[p]; taken {
						problems = append(problems, fmt.Sprintf("op %d: port %d handed out to %s while held by %s", i, p, op.Backend, owner))
					}
					if p < op.RangeStart || p > op.RangeEnd {
						problems = append(problems, fmt.Sprintf("op %d: port %d outside the range %d-%d", i, p, op.RangeStart, op.RangeEnd))
					}
				}
			} else if !held {
				for p := op.RangeStart; p <= op.RangeEnd; p++ {
					if _, taken := before[p]; !taken {
						problems = append(problems, fmt.Sprintf("op %d: error %q although port %d of the range is free", i, err, p))
						break
					}
				}
			} else {
				problems = append(problems, fmt.Sprintf("op %d: error %q for a backend that holds a port", i, err))
			}
		case "except":
			used := map[string]bool{}
			for _, p := range op.Used {
				used[fmt.Sprintf("_auth_%d", p)] = true
			}
			f.RemoveAuthBackendExcept(used)
		case "bytarget":
			var bs []string
			for _, b := range op.Backends {
				bs = append(bs, backendID(b).String())
			}
			f.RemoveAuthBackendByTarget(bs)
		}
		seen := map[int]bool{}
		for _, b := range f.AuthProxy.BindList {
			if seen[b.LocalPort] {
				problems = append(problems, fmt.Sprintf("op %d: port %d bound twice", i, b.LocalPort))
			}
			seen[b.LocalPort] = true
			if b.AuthBackendName != fmt.Sprintf("_auth_%d", b.LocalPort) || b.SocketID != 10000+b.LocalPort {
				problems = append(problems, fmt.Sprintf("op %d: bind %+v: name / socket id not derived from the port", i, *b))
			}
			o.Binds = append(o.Binds, fmt.Sprintf("%s:%d", b.Backend.String(), b.LocalPort))
			o.binds = append(o.binds, [2]interface{}{b.Backend.String(), b.LocalPort})
		}
		obs = append(obs, o)
	}
	return obs, problems
}

// CoqAuth prints the case.
func CoqAuth(id int, in AuthInput, obs []AuthObs) string {
	var ops, os []string
	for _, op := range in.Ops {
		switch op.Kind {
		case "acquire":
			ops = append(ops, fmt.Sprintf("(Acquire %s %s %s)", hx.Z(int64(op.RangeStart)), hx.Z(int64(op.RangeEnd)), hx.Str(backendID(op.Backend).String())))
		case "except":
			var us []string
			for _, p := range op.Used {
				us = append(us, hx.Z(int64(p)))
			}
			ops = append(ops, "(RemoveExcept "+hx.List(us)+")")
		default:
			var bs []string
			for _, b := range op.Backends {
				bs = append(bs, backendID(b).String())
			}
			ops = append(ops, "(RemoveByTarget "+strs(bs)+")")
		}
	}
	for _, o := range obs {
		var bs []string
		for _, b := range o.binds {
			bs = append(bs, hx.Tuple(hx.Str(b[0].(string)), hx.Z(int64(b[1].(int)))))
		}
		os = append(os, hx.Tuple(hx.Opt(o.Port >= 0, hx.Z(int64(o.Port))), hx.List(bs)))
	}
	return fmt.Sprintf("(CAuth %s %s %s)", hx.N(id), hx.List(ops), hx.List(os))
}

// FirstDup exposes firstDup.
func FirstDup(l []string) string { return firstDup(l) }
