// Package c07 holds what the C07 harness needs on top of lib/pipeline:
//
//   - Scan: a RAW scanner of what the controller wrote (every *.cfg of the cfg dir, the map
//     / list files, crt-lists, the files on disk) into the reference structure Cfg — the
//     same structure as coq/Model/CfgRefs.v `cfg`;
//   - Check: the reference analysis of property C07 in Go (the direct oracle, no model),
//     one Finding with a specific Key per kind of dangling / duplicated reference;
//   - Coq: the printer of a Cfg as a Gallina term;
//   - gen.go: the dedicated cluster / history generator (auth, tcp, passthrough, ...).
//
// Unlike lib/cfgnorm nothing is normalised away: server names, ids, helper backend
// numbering and file names are kept as written (only the --local-filesystem-prefix is
// stripped from file names).
package c07

import (
	"bufio"
	"os"
	"path/filepath"
	"regexp"
	"sort"
	"strconv"
	"strings"
)

// Server is one `server <name> <addr> ... [id <n>]` line.
type Server struct {
	Name string `json:"name"`
	ID   int    `json:"id,omitempty"` // 0 = no id keyword
	Addr string `json:"addr,omitempty"`
}

// Dyn is one `use_backend %[var(<Var>)]`: the map files feeding the variable in that
// section (`set-var(<Var>) ...,map_xxx(<file>[,<default>])`) and the literal defaults.
type Dyn struct {
	Var      string   `json:"var"`
	Maps     []string `json:"maps"`
	Defaults []string `json:"defaults,omitempty"`
}

// Section is a global / defaults / frontend / backend / listen section.
type Section struct {
	Kind          string   `json:"kind"` // frontend | backend | listen | other
	Name          string   `json:"name"`
	Servers       []Server `json:"servers,omitempty"`
	Use           []string `json:"use,omitempty"`      // literal use_backend targets
	UseDyn        []Dyn    `json:"use_dyn,omitempty"`  // dynamic use_backend targets
	Default       []string `json:"default,omitempty"`  // default_backend
	AuthBack      []string `json:"authback,omitempty"` // lua.auth-intercept <backend>
	Userlists     []string `json:"userlists,omitempty"`
	Maps          []string `json:"maps,omitempty"`     // every map / list file referenced
	CrtLists      []string `json:"crtlists,omitempty"` // crt-list <file>
	Files         []string `json:"files,omitempty"`    // crt / ca-file / crl-file / config <file>
	IDMaps        []string `json:"idmaps,omitempty"`   // maps feeding txn.pathID
	IDsUsed       []string `json:"ids_used,omitempty"` // var(txn.pathID) -m str <ids>
	UseServer     []string `json:"use_server,omitempty"`
	Templates     int      `json:"server_templates,omitempty"`
	ResolversUsed []string `json:"resolvers_used,omitempty"` // `resolvers <name>` on server lines
	Binds         []string `json:"binds,omitempty"`          // bind addresses
	BindIDs       []int    `json:"bind_ids,omitempty"`

	feeders []feeder
}

// MapFile is the parsed content of a referenced map / list file that exists.
type MapFile struct {
	Name    string      `json:"name"`
	Entries [][2]string `json:"entries"`
}

// CrtList is the parsed content of a referenced crt-list that exists: the files it names
// (certificate, ca-file, crl-file).
type CrtList struct {
	Name  string   `json:"name"`
	Files []string `json:"files"`
}

// AuthServer is the server line of an auth-proxy helper backend `_auth_<n>`.
type AuthServer struct {
	Backend string `json:"backend"`
	Port    int    `json:"port"`
}

// Cfg is the reference structure of one written configuration.
type Cfg struct {
	Sections    []Section    `json:"sections"`
	Userlists   []string     `json:"userlists,omitempty"` // names of the userlist sections
	Resolvers   []string     `json:"resolvers,omitempty"` // names of the resolvers sections
	Maps        []MapFile    `json:"maps,omitempty"`
	CrtLists    []CrtList    `json:"crtlists,omitempty"`
	Files       []string     `json:"files"`                // files present on disk
	AuthBinds   []int        `json:"auth_binds,omitempty"` // ports bound by the auth-proxy frontend
	AuthIDs     []int        `json:"auth_ids,omitempty"`   // socket ids of those binds
	AuthServers []AuthServer `json:"auth_servers,omitempty"`
	Outside     []string     `json:"outside,omitempty"` // lines outside any section
}

var sectionWords = map[string]bool{"global": true, "defaults": true, "frontend": true, "backend": true, "listen": true,
	"userlist": true, "resolvers": true, "peers": true, "cache": true, "ring": true, "mailers": true, "program": true,
	"http-errors": true, "fcgi-app": true}

var (
	mapConvRe  = regexp.MustCompile(`\bmap(?:_[a-z]+)?\(([^,()\s]+)(?:,([^()]*))?\)`)
	setVarRe   = regexp.MustCompile(`\bset-var\(([^)]+)\)`)
	httpAuthRe = regexp.MustCompile(`\bhttp_auth(?:_group)?\(([^)\s]+)\)`)
	dynUseRe   = regexp.MustCompile(`^%\[var\(([^)]+)\)\]$`)
	authNameRe = regexp.MustCompile(`^_auth_\d+$`)
	loopbackRe = regexp.MustCompile(`^127\.0\.0\.1:(\d+)$`)
)

type scanner struct {
	dir, prefix string
	cfg         *Cfg
	maps        map[string]bool
	crtlists    map[string]bool
}

func (sc *scanner) strip(s string) string {
	if sc.prefix == "" {
		return s
	}
	return strings.ReplaceAll(s, sc.prefix, "")
}

func appendUniq(l []string, s string) []string {
	for _, x := range l {
		if x == s {
			return l
		}
	}
	return append(l, s)
}

// Scan reads the configuration written under dir (the pipeline's Dir()); prefix is the
// --local-filesystem-prefix as written inside the files.
func Scan(dir, prefix string) (*Cfg, error) {
	sc := &scanner{dir: dir, prefix: prefix, cfg: &Cfg{}, maps: map[string]bool{}, crtlists: map[string]bool{}}
	cfgdir := filepath.Join(dir, "etc/haproxy")
	names, err := filepath.Glob(filepath.Join(cfgdir, "*.cfg"))
	if err != nil {
		return nil, err
	}
	sort.Strings(names)
	var cur *Section
	inUserlist := false
	for _, n := range names {
		f, err := os.Open(n)
		if err != nil {
			return nil, err
		}
		s := bufio.NewScanner(f)
		s.Buffer(make([]byte, 1<<20), 1<<26)
		for s.Scan() {
			l := s.Text()
			t := strings.TrimSpace(l)
			if t == "" || strings.HasPrefix(t, "#") {
				continue
			}
			t = sc.strip(t)
			w := strings.Fields(t)
			if l[0] != ' ' && l[0] != '\t' && sectionWords[w[0]] {
				inUserlist = false
				name := ""
				if len(w) > 1 {
					name = w[1]
				}
				switch w[0] {
				case "userlist":
					sc.cfg.Userlists = append(sc.cfg.Userlists, name)
					inUserlist = true
					cur = nil
				case "resolvers":
					sc.cfg.Resolvers = append(sc.cfg.Resolvers, name)
					sc.cfg.Sections = append(sc.cfg.Sections, Section{Kind: "other", Name: strings.Join(w, " ")})
					cur = &sc.cfg.Sections[len(sc.cfg.Sections)-1]
				case "frontend", "backend", "listen":
					sc.cfg.Sections = append(sc.cfg.Sections, Section{Kind: w[0], Name: name})
					cur = &sc.cfg.Sections[len(sc.cfg.Sections)-1]
				default:
					sc.cfg.Sections = append(sc.cfg.Sections, Section{Kind: "other", Name: strings.Join(w, " ")})
					cur = &sc.cfg.Sections[len(sc.cfg.Sections)-1]
				}
				continue
			}
			if inUserlist {
				continue
			}
			if cur == nil {
				sc.cfg.Outside = append(sc.cfg.Outside, t)
				continue
			}
			sc.line(cur, w, t)
		}
		f.Close()
	}
	// dynamic use_backend: resolve the feeding maps
	sc.finish()
	return sc.cfg, nil
}

type feeder struct {
	v, file, def string
}

func (sc *scanner) line(s *Section, w []string, t string) {
	// server lines
	switch w[0] {
	case "server":
		if len(w) >= 3 {
			sv := Server{Name: w[1], Addr: w[2]}
			for i := 3; i+1 < len(w); i++ {
				if w[i] == "id" {
					sv.ID, _ = strconv.Atoi(w[i+1])
				}
			}
			s.Servers = append(s.Servers, sv)
		}
	case "server-template":
		s.Templates++
	case "use_backend":
		if len(w) < 2 {
			// `use_backend` without a name: haproxy refuses it; kept as a reference to ""
			s.Use = append(s.Use, "")
		}
		if len(w) >= 2 {
			if m := dynUseRe.FindStringSubmatch(w[1]); m != nil {
				s.UseDyn = append(s.UseDyn, Dyn{Var: m[1]})
			} else {
				s.Use = append(s.Use, w[1])
			}
		}
	case "default_backend":
		if len(w) < 2 {
			s.Default = append(s.Default, "")
		}
		if len(w) >= 2 {
			s.Default = append(s.Default, w[1])
		}
	case "use-server":
		if len(w) >= 2 {
			s.UseServer = append(s.UseServer, w[1])
		}
	case "bind":
		if len(w) >= 2 {
			s.Binds = append(s.Binds, w[1])
			id := 0
			for i := 2; i+1 < len(w); i++ {
				if w[i] == "id" {
					id, _ = strconv.Atoi(w[i+1])
				}
			}
			s.BindIDs = append(s.BindIDs, id)
		}
	case "lua-load", "lua-prepend-path", "errorfile", "stats", "server-state-base":
		// static parts of the image, not written by the controller: not analysed
		return
	}
	// keyword <file> pairs
	for i := 0; i+1 < len(w); i++ {
		switch w[i] {
		case "crt-list":
			s.CrtLists = appendUniq(s.CrtLists, w[i+1])
			sc.crtlists[w[i+1]] = true
		case "crt", "ca-file", "crl-file", "ssl-dh-param-file":
			if w[0] == "server" || w[0] == "bind" || w[0] == "ssl-dh-param-file" || w[0] == "default-server" {
				s.Files = appendUniq(s.Files, w[i+1])
			}
		case "config":
			if w[0] == "filter" {
				s.Files = appendUniq(s.Files, w[i+1])
			}
		case "resolvers":
			if w[0] == "server" || w[0] == "server-template" || w[0] == "default-server" {
				s.ResolversUsed = appendUniq(s.ResolversUsed, w[i+1])
			}
		case "-f":
			s.Maps = appendUniq(s.Maps, w[i+1])
			sc.maps[w[i+1]] = true
		case "lua.auth-intercept":
			s.AuthBack = append(s.AuthBack, w[i+1])
		}
	}
	// map converters
	setvar := ""
	if m := setVarRe.FindStringSubmatch(t); m != nil {
		setvar = m[1]
	}
	for _, m := range mapConvRe.FindAllStringSubmatch(t, -1) {
		s.Maps = appendUniq(s.Maps, m[1])
		sc.maps[m[1]] = true
		if setvar != "" {
			s.feeders = append(s.feeders, feeder{setvar, m[1], m[2]})
			if setvar == "txn.pathID" {
				s.IDMaps = appendUniq(s.IDMaps, m[1])
			}
		}
	}
	for _, m := range httpAuthRe.FindAllStringSubmatch(t, -1) {
		s.Userlists = append(s.Userlists, m[1])
	}
	// path ids used in ACLs
	for i := 0; i+3 < len(w); i++ {
		if w[i] == "var(txn.pathID)" && w[i+1] == "-m" && w[i+2] == "str" {
			for j := i + 3; j < len(w) && w[j] != "}"; j++ {
				s.IDsUsed = appendUniq(s.IDsUsed, w[j])
			}
		}
	}
}

func (sc *scanner) finish() {
	c := sc.cfg
	for i := range c.Sections {
		s := &c.Sections[i]
		for j := range s.UseDyn {
			d := &s.UseDyn[j]
			d.Maps = []string{}
			for _, f := range s.feeders {
				if f.v == d.Var {
					d.Maps = appendUniq(d.Maps, f.file)
					if f.def != "" {
						d.Defaults = appendUniq(d.Defaults, f.def)
					}
				}
			}
		}
		s.feeders = nil
		// auth proxy: frontends bound to loopback ports, helper backends _auth_<n>
		if s.Kind == "frontend" {
			for k, b := range s.Binds {
				if m := loopbackRe.FindStringSubmatch(b); m != nil {
					p, _ := strconv.Atoi(m[1])
					c.AuthBinds = append(c.AuthBinds, p)
					c.AuthIDs = append(c.AuthIDs, s.BindIDs[k])
				}
			}
		}
		if s.Kind == "backend" && authNameRe.MatchString(s.Name) {
			for _, sv := range s.Servers {
				p := -1
				if m := loopbackRe.FindStringSubmatch(sv.Addr); m != nil {
					p, _ = strconv.Atoi(m[1])
				}
				c.AuthServers = append(c.AuthServers, AuthServer{Backend: s.Name, Port: p})
			}
		}
	}
	// referenced map / list files that exist
	var ms []string
	for m := range sc.maps {
		ms = append(ms, m)
	}
	sort.Strings(ms)
	for _, m := range ms {
		b, err := os.ReadFile(filepath.Join(sc.dir, m))
		if err != nil {
			continue
		}
		mf := MapFile{Name: m, Entries: [][2]string{}}
		for _, l := range strings.Split(string(b), "\n") {
			l = strings.TrimSpace(l)
			if l == "" || strings.HasPrefix(l, "#") {
				continue
			}
			k, v, _ := strings.Cut(l, " ")
			mf.Entries = append(mf.Entries, [2]string{k, strings.TrimSpace(v)})
		}
		c.Maps = append(c.Maps, mf)
	}
	// referenced crt-lists that exist
	var cs []string
	for m := range sc.crtlists {
		cs = append(cs, m)
	}
	sort.Strings(cs)
	for _, m := range cs {
		b, err := os.ReadFile(filepath.Join(sc.dir, m))
		if err != nil {
			continue
		}
		cl := CrtList{Name: m, Files: []string{}}
		for _, l := range strings.Split(string(b), "\n") {
			l = strings.TrimSpace(sc.strip(l))
			if l == "" || strings.HasPrefix(l, "#") {
				continue
			}
			w := strings.Fields(l)
			cl.Files = appendUniq(cl.Files, w[0])
			// options between [ ]
			in := false
			for i := 1; i < len(w); i++ {
				tok := w[i]
				if strings.HasPrefix(tok, "[") {
					in = true
					tok = strings.TrimPrefix(tok, "[")
				}
				if in && (tok == "ca-file" || tok == "crl-file") && i+1 < len(w) {
					cl.Files = appendUniq(cl.Files, strings.TrimSuffix(w[i+1], "]"))
				}
				if strings.HasSuffix(w[i], "]") {
					in = false
				}
			}
		}
		c.CrtLists = append(c.CrtLists, cl)
	}
	// files on disk
	_ = filepath.Walk(sc.dir, func(p string, info os.FileInfo, err error) error {
		if err != nil || info.IsDir() {
			return nil
		}
		if info.Mode()&os.ModeSocket != 0 {
			return nil
		}
		c.Files = append(c.Files, strings.TrimPrefix(p, sc.dir))
		return nil
	})
	sort.Strings(c.Files)
}
