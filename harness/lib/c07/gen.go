package c07

// Dedicated generator of C07: clusters and histories exercising every kind of reference the
// template emits — services without endpoints, missing services / secrets, ssl-passthrough
// hosts, basic auth (valid / missing / malformed secret), external auth (IP literal,
// unresolvable, svc:// forms, frontend / backend placement) and oauth, TCP services (ingress
// annotation and the tcp-services ConfigMap), strict-host, absent / missing / deleted
// default backend, backend-server-naming pod / ip (with pods literally named like empty
// slots), blue/green, server ids, per-path ACL features, secure backends, client certs,
// a tiny auth-proxy port range, backend shards.
//
// It shares the names of lib/world (ns1..ns3, svc1..svc4, ing1..ing7) so that
// world.GenChange can be interleaved with the dedicated mutations on one world.State.

import (
	"fmt"
	"math/rand"
	"sort"

	api "k8s.io/api/core/v1"
	networking "k8s.io/api/networking/v1"
	k8stypes "k8s.io/apimachinery/pkg/types"
	"k8s.io/apimachinery/pkg/util/intstr"
	"sigs.k8s.io/controller-runtime/pkg/client"

	"verif/harness/lib/pipeline"
	"verif/harness/lib/world"
)

// Opt is the serialisable subset of pipeline.Options a scenario uses.
type Opt struct {
	DefaultService string `json:"default_service,omitempty"`
	BackendShards  int    `json:"backend_shards,omitempty"`
	TCPConfigMap   bool   `json:"tcp_configmap,omitempty"` // --tcp-services-configmap=ingress-controller/tcp-services
	NoWatchNoClass bool   `json:"no_watch_without_class,omitempty"`
	// Socket: socket mode — the caller serves the admin / master sockets (lib/fakehaproxy),
	// so dynamic updates are really applied (pkg/haproxy/dynupdate.go) and reloads are loaded.
	Socket bool `json:"socket_mode,omitempty"`
}

// TCPConfigMapName is the name used when Opt.TCPConfigMap.
const TCPConfigMapName = "ingress-controller/tcp-services"

// Pipeline converts Opt to pipeline options.
func (o Opt) Pipeline(dir string) pipeline.Options {
	po := pipeline.Options{Dir: dir, WatchWithoutClass: !o.NoWatchNoClass, DefaultService: o.DefaultService, BackendShards: o.BackendShards}
	if o.TCPConfigMap {
		po.TCPConfigMapName = TCPConfigMapName
	}
	return po
}

// Scenario is one replayable input: controller options and a history of batches.
type Scenario struct {
	Opt     Opt                  `json:"options"`
	History [][]world.ChangeJSON `json:"history"`
	Origin  string               `json:"origin,omitempty"`
}

const ann = "haproxy-ingress.github.io/"

func pick[T any](rng *rand.Rand, xs []T) T { return xs[rng.Intn(len(xs))] }

// pod names: one is literally an empty-slot name
var podNames = []string{"pod-a", "pod-b", "srv001", "srv002", "srv003", "pod-c"}

var (
	hosts     = []string{"a.example", "b.example", "sub.a.example", "*.wild.example", ""}
	paths     = []string{"/", "/app", "/api", "/oauth2", "/app/sub"}
	svcNames  = []string{"svc1", "svc2", "svc3", "svc4", "authsvc", "oauth2-proxy", "nosuch"}
	authURLs  = []string{"http://10.0.0.9:8000/auth", "https://10.0.0.9/auth", "http://10.0.0.10,10.0.0.11:8080/auth", "http://unresolvable.invalid/auth", "svc://authsvc:8000/auth", "svc://ns2/svc1:80", "svc://nosuch:80", "svc://authsvc", "ftp://10.0.0.9/x", "svc://svc2:80/check"}
	basicSecs = []string{"basic-ok", "basic-ok", "basic-bad", "basic-nokey", "basic-missing", "ns2/basic-ok", "basic-ok2"}
)

// EndpointsRef builds an Endpoints object whose addresses carry pod target refs.
func EndpointsRef(ns, name, portName string, port int, ips []string, pods []string, notReady int) *api.Endpoints {
	e := &api.Endpoints{}
	e.Namespace, e.Name = ns, name
	ss := api.EndpointSubset{Ports: []api.EndpointPort{{Name: portName, Port: int32(port), Protocol: api.ProtocolTCP}}}
	for i, ip := range ips {
		a := api.EndpointAddress{IP: ip}
		if i < len(pods) && pods[i] != "" {
			a.TargetRef = &api.ObjectReference{Kind: "Pod", Namespace: ns, Name: pods[i]}
		}
		if i < notReady {
			ss.NotReadyAddresses = append(ss.NotReadyAddresses, a)
		} else {
			ss.Addresses = append(ss.Addresses, a)
		}
	}
	if len(ips) > 0 {
		e.Subsets = append(e.Subsets, ss)
	}
	return e
}

func svcIndex(name string) int {
	for i, n := range svcNames {
		if n == name {
			return i
		}
	}
	return 9
}

func genSvc(rng *rand.Rand, ni int, name string) (*api.Service, *api.Endpoints, []client.Object) {
	ns := world.Namespaces[ni]
	var svc *api.Service
	port, tport := 80, 8080
	switch name {
	case "authsvc":
		port, tport = 8000, 8000
	case "oauth2-proxy":
		port, tport = 4180, 4180
	}
	svc = world.Service(ns, name, world.SvcPort{Name: "http", Port: port, TargetPort: intstr.FromInt(tport)})
	n := rng.Intn(4)
	if rng.Intn(4) == 0 {
		n = 0 // service without endpoints
	}
	var ips, pods []string
	var extra []client.Object
	perm := rng.Perm(len(podNames))
	for i := 0; i < n; i++ {
		ip := fmt.Sprintf("10.%d.%d.%d", ni+1, svcIndex(name), i+1)
		ips = append(ips, ip)
		pn := ""
		if rng.Intn(5) > 0 {
			pn = podNames[perm[i]]
			pod := world.Pod(ns, pn, name, ip, tport, false)
			pod.Labels["group"] = pick(rng, []string{"blue", "green", "green", "red"})
			pod.UID = k8stypes.UID("uid-" + ns + "-" + pn)
			extra = append(extra, pod)
		}
		pods = append(pods, pn)
	}
	nr := 0
	if n > 1 && rng.Intn(4) == 0 {
		nr = 1
	}
	return svc, EndpointsRef(ns, name, "http", tport, ips, pods, nr), extra
}

// BasicSecret builds the secret of basic authentication. variant 0 valid, 1 malformed
// lines, 2 without the `auth` key.
func BasicSecret(ns, name string, variant int) *api.Secret {
	s := &api.Secret{}
	s.Namespace, s.Name = ns, name
	s.Type = api.SecretTypeOpaque
	switch variant {
	case 0:
		s.Data = map[string][]byte{"auth": []byte("usr1:$apr1$Tgyw9KJ7$cDM8vVAW0iXrzS7PqBVh51\nusr2::clear2\n")}
	case 1:
		s.Data = map[string][]byte{"auth": []byte("nopasswd\n:nouser\nusr3:\nusr4::\n")}
	default:
		s.Data = map[string][]byte{"other": []byte("x")}
	}
	return s
}

// CASecret builds a secret with ca.crt (variant 0) or without it.
func CASecret(ns, name string, variant int) *api.Secret {
	s := &api.Secret{}
	s.Namespace, s.Name = ns, name
	s.Type = api.SecretTypeOpaque
	crt, _ := world.Cert("verif-ca")
	if variant == 0 {
		s.Data = map[string][]byte{"ca.crt": crt}
	} else {
		s.Data = map[string][]byte{"tls.crt": crt}
	}
	return s
}

// feature bundles of annotations
var bundles = []func(rng *rand.Rand, a map[string]string){
	func(rng *rand.Rand, a map[string]string) { // ssl-passthrough
		a[ann+"ssl-passthrough"] = "true"
		if rng.Intn(2) == 0 {
			a[ann+"ssl-passthrough-http-port"] = pick(rng, []string{"80", "8080", "http", "9999"})
		}
	},
	func(rng *rand.Rand, a map[string]string) { // basic auth
		a[ann+"auth-type"] = "basic"
		a[ann+"auth-secret"] = pick(rng, basicSecs)
		if rng.Intn(3) == 0 {
			a[ann+"auth-realm"] = pick(rng, []string{"my realm", "with\"quote"})
		}
	},
	func(rng *rand.Rand, a map[string]string) { // external auth
		a[ann+"auth-url"] = pick(rng, authURLs)
		switch rng.Intn(5) {
		case 0:
			a[ann+"auth-external-placement"] = "frontend"
		case 1:
			a[ann+"auth-external-placement"] = "backend"
		case 2:
			a[ann+"auth-external-placement"] = "bogus"
		}
		if rng.Intn(4) == 0 {
			a[ann+"auth-signin"] = "http://login.example/start"
		}
	},
	func(rng *rand.Rand, a map[string]string) { // oauth
		a[ann+"oauth"] = pick(rng, []string{"oauth2_proxy", "oauth2_proxy", "other"})
		if rng.Intn(4) == 0 {
			a[ann+"oauth-uri-prefix"] = "/app"
		}
	},
	func(rng *rand.Rand, a map[string]string) { // tcp service
		a[ann+"tcp-service-port"] = pick(rng, []string{"7000", "7000", "7001", "0", "x"})
		if rng.Intn(3) == 0 {
			a[ann+"tcp-service-proxy-protocol"] = "true"
		}
	},
	func(rng *rand.Rand, a map[string]string) { // naming
		a[ann+"backend-server-naming"] = pick(rng, []string{"pod", "pod", "ip", "sequence"})
	},
	func(rng *rand.Rand, a map[string]string) { // blue/green
		a[ann+"blue-green-deploy"] = pick(rng, []string{"group=blue=1,group=green=3", "group=blue=0,group=green=1", "group=red=1"})
		a[ann+"blue-green-mode"] = pick(rng, []string{"pod", "deploy"})
		switch rng.Intn(3) {
		case 0:
			a[ann+"blue-green-header"] = "x-server:group"
		case 1:
			a[ann+"blue-green-cookie"] = "ServerName:group"
		}
	},
	func(rng *rand.Rand, a map[string]string) { a[ann+"assign-backend-server-id"] = "true" },
	func(rng *rand.Rand, a map[string]string) { // cookie affinity: names of the running servers matter
		a[ann+"affinity"] = "cookie"
		a[ann+"session-cookie-preserve"] = pick(rng, []string{"true", "true", "false"})
		if rng.Intn(2) == 0 {
			a[ann+"session-cookie-value-strategy"] = pick(rng, []string{"pod-uid", "server-name"})
		}
	},
	func(rng *rand.Rand, a map[string]string) { // per-path ACL features
		for i, n := 0, 1+rng.Intn(2); i < n; i++ {
			kv := pick(rng, [][2]string{{"whitelist-source-range", "10.0.0.0/8"}, {"cors-enable", "true"}, {"hsts", "false"},
				{"rewrite-target", "/new"}, {"proxy-body-size", "1m"}, {"waf", "modsecurity"}, {"ssl-redirect", "false"},
				{"denylist-source-range", "192.168.0.0/16"}, {"limit-rps", "10"}, {"app-root", "/app"}, {"redirect-from", "old.example"},
				{"server-alias", "alias.example"}, {"redirect-to", "http://other.example/x"}, {"var-namespace", "true"},
				{"affinity", "cookie"}, {"slots-min-free", "2"}, {"dynamic-scaling", "false"}, {"service-upstream", "true"},
				{"use-resolver", "kube"}, {"use-resolver", "nosuch"}})
			a[ann+kv[0]] = kv[1]
		}
	},
	func(rng *rand.Rand, a map[string]string) { // secure backends
		a[ann+"secure-backends"] = "true"
		if rng.Intn(2) == 0 {
			a[ann+"secure-crt-secret"] = pick(rng, []string{"tls-valid", "tls-bad", "tls-absent"})
		}
		if rng.Intn(2) == 0 {
			a[ann+"secure-verify-ca-secret"] = pick(rng, []string{"ca-valid", "ca-nokey", "ca-missing"})
		}
	},
	func(rng *rand.Rand, a map[string]string) { // client certificates
		a[ann+"auth-tls-secret"] = pick(rng, []string{"ca-valid", "ca-valid", "ca-nokey", "ca-missing"})
		if rng.Intn(2) == 0 {
			a[ann+"auth-tls-error-page"] = "http://err.example/"
		}
		if rng.Intn(3) == 0 {
			a[ann+"auth-tls-verify-client"] = pick(rng, []string{"optional", "off"})
		}
	},
}

// GenIngress generates ingress number k of the dedicated generator.
func GenIngress(rng *rand.Rand, k int) *networking.Ingress {
	ns := world.Namespaces[0]
	if rng.Intn(4) == 0 {
		ns = world.Namespaces[1]
	}
	var rules []world.IngRule
	for i, n := 0, 1+rng.Intn(2); i < n; i++ {
		r := world.IngRule{Host: pick(rng, hosts)}
		for j, m := 0, 1+rng.Intn(3); j < m; j++ {
			p := world.IngPath{Path: pick(rng, paths), Type: pick(rng, []string{"Prefix", "Prefix", "Exact", "ImplementationSpecific"}), Service: pick(rng, svcNames)}
			switch p.Service {
			case "authsvc":
				p.PortNum = 8000
			case "oauth2-proxy":
				p.PortNum = 4180
				p.Path = "/oauth2"
			default:
				p.PortNum = 80
				if rng.Intn(8) == 0 {
					p.PortNum = 81 // no such port
				}
			}
			r.Paths = append(r.Paths, p)
		}
		rules = append(rules, r)
	}
	if rng.Intn(8) == 0 {
		rules = nil
	}
	ing := world.Ingress(ns, world.IngressNames[k%len(world.IngressNames)], 10+rng.Intn(20), rules...)
	for i := range ing.Spec.Rules {
		for j := range ing.Spec.Rules[i].HTTP.Paths {
			if rng.Intn(12) == 0 {
				ing.Spec.Rules[i].HTTP.Paths[j].Backend = ResourceBackend()
			}
		}
	}
	if rng.Intn(5) == 0 || rules == nil {
		b := world.Backend(pick(rng, svcNames), "", 80)
		ing.Spec.DefaultBackend = &b
	}
	if rng.Intn(3) == 0 {
		t := networking.IngressTLS{SecretName: pick(rng, []string{"tls-valid", "tls-bad", "tls-absent", ""})}
		for _, r := range rules {
			if r.Host != "" && rng.Intn(2) == 0 {
				t.Hosts = append(t.Hosts, r.Host)
			}
		}
		ing.Spec.TLS = append(ing.Spec.TLS, t)
	}
	ing.Annotations = map[string]string{}
	for i, n := 0, rng.Intn(4); i < n; i++ {
		pick(rng, bundles)(rng, ing.Annotations)
	}
	return ing
}

// ResourceBackend is a backend of kind `resource` (TypedLocalObjectReference): valid
// networking.k8s.io/v1, not supported by the controller ("resource backend is not supported yet").
func ResourceBackend() networking.IngressBackend {
	group := "k8s.example.com"
	return networking.IngressBackend{Resource: &api.TypedLocalObjectReference{APIGroup: &group, Kind: "StorageBucket", Name: "static-assets"}}
}

// GenTCPIngress generates an ingress of a TCP service port: the backend, only the TLS block
// (the documented way of splitting the TLS of a TCP service into its own ingress), or both;
// several ingresses share the ports.
func GenTCPIngress(rng *rand.Rand, k int) *networking.Ingress {
	ns := world.Namespaces[0]
	var rules []world.IngRule
	kind := rng.Intn(3)    // 0 backend, 1 tls only, 2 both
	var resources [][2]int // rule, path whose backend becomes a `resource`
	if kind != 1 {
		for i, n := 0, 1+rng.Intn(2); i < n; i++ {
			h := pick(rng, []string{"", "", "a.example", "b.example", "a.example"})
			r := world.IngRule{Host: h}
			for j, m := 0, 1+rng.Intn(2); j < m; j++ {
				// existing / missing service, existing / missing port, a second declaration of the host
				p := world.IngPath{Path: pick(rng, []string{"/", "", "/app"}), Type: "Prefix", Service: pick(rng, svcNames), PortNum: pick(rng, []int{80, 80, 80, 81})}
				if rng.Intn(4) == 0 {
					resources = append(resources, [2]int{i, j})
				}
				r.Paths = append(r.Paths, p)
			}
			rules = append(rules, r)
		}
	}
	ing := world.Ingress(ns, world.IngressNames[k%len(world.IngressNames)], 10+rng.Intn(20), rules...)
	for _, rp := range resources {
		ing.Spec.Rules[rp[0]].HTTP.Paths[rp[1]].Backend = ResourceBackend()
	}
	if kind != 1 && rng.Intn(6) == 0 {
		b := ResourceBackend()
		if rng.Intn(2) == 0 {
			b = world.Backend(pick(rng, svcNames), "", 80)
		}
		ing.Spec.DefaultBackend = &b
	}
	ing.Annotations = map[string]string{ann + "tcp-service-port": pick(rng, []string{"7000", "7000", "7001"})}
	if kind != 0 {
		t := networking.IngressTLS{SecretName: pick(rng, []string{"tls-valid", "tls-valid", "tls-bad", "tls-absent", ""})}
		if rng.Intn(2) == 0 {
			t.Hosts = []string{pick(rng, []string{"a.example", "b.example"})}
		}
		ing.Spec.TLS = append(ing.Spec.TLS, t)
	}
	if rng.Intn(3) == 0 {
		a := pick(rng, world.TCPAnnWhitelist)
		ing.Annotations[ann+a[0]] = a[1+rng.Intn(len(a)-1)]
	}
	if rng.Intn(6) == 0 {
		ing.Annotations[ann+"auth-tls-secret"] = pick(rng, []string{"ca-valid", "ca-missing"})
	}
	return ing
}

var globalKeys = [][]string{
	{"strict-host", "true", "false"},
	{"backend-server-slots-increment", "4", "1", "2"},
	{"drain-support", "true"},
	{"auth-proxy", "_front__auth:14415-14416", "_front__auth:14415-14415", "bogus"},
	{"modsecurity-endpoints", "10.0.0.50:12345"},
	{"default-backend-redirect", "http://fallback.example/"},
	{"backend-server-naming", "pod", "ip"},
	{"acme-emails", "a@example.com"},
	{"acme-endpoint", "v2-staging"},
	{"acme-terms-agreed", "true"},
	{"auth-url", "http://10.0.0.20/global-auth"},
	{"ssl-redirect", "false"},
	{"path-type-order", "exact,prefix,begin,regex"},
	{"cross-namespace-services", "allow"},
	{"cross-namespace-secrets-passwd", "allow"},
	{"tls-alpn", "h2"},
	{"oauth", "oauth2_proxy"},
	{"dns-resolvers", "kube=10.96.0.10:53", "kube=10.96.0.10:53\nother=10.96.0.11"},
	{"prometheus-port", "9101"},
}

func genGlobalEmpty() *api.ConfigMap {
	cm := &api.ConfigMap{}
	cm.Namespace, cm.Name = "ingress-controller", "haproxy-ingress"
	cm.Data = map[string]string{}
	return cm
}

func genGlobal(rng *rand.Rand) *api.ConfigMap {
	cm := genGlobalEmpty()
	for i, n := 0, rng.Intn(4); i < n; i++ {
		a := pick(rng, globalKeys)
		cm.Data[a[0]] = a[1+rng.Intn(len(a)-1)]
	}
	return cm
}

var tcpValues = []string{"ns1/svc1:80", "ns1/svc2:80", "ns1/nosuch:80", "ns1/svc1:81", "ns2/svc1:80:PROXY:PROXY-V1", "ns1/svc3:80:::ns1/tls-valid",
	"ns1/svc3:80:::ns1/tls-absent", "ns1/svc1:80:::ns1/tls-valid:5s:ns1/ca-valid", "ns1/svc1:80:::ns1/tls-valid::ns1/ca-missing", "", "ns1/svc4:http"}

func genTCP(rng *rand.Rand) *api.ConfigMap {
	cm := &api.ConfigMap{}
	cm.Namespace, cm.Name = "ingress-controller", "tcp-services"
	cm.Data = map[string]string{}
	for i, n := 0, rng.Intn(4); i < n; i++ {
		cm.Data[pick(rng, []string{"5432", "5433", "7000", "x"})] = pick(rng, tcpValues)
	}
	return cm
}

func genSecret(rng *rand.Rand, ns, name string) *api.Secret {
	switch name {
	case "basic-ok", "basic-ok2":
		return BasicSecret(ns, name, 0)
	case "basic-bad":
		return BasicSecret(ns, name, 1)
	case "basic-nokey":
		return BasicSecret(ns, name, 2)
	case "ca-valid":
		return CASecret(ns, name, 0)
	case "ca-nokey":
		return CASecret(ns, name, 1)
	case "tls-valid":
		return world.TLSSecret(ns, name, "a.example", 0)
	case "tls-bad":
		return world.TLSSecret(ns, name, "b.example", 1)
	}
	return BasicSecret(ns, name, rng.Intn(3))
}

var secretPool = []string{"basic-ok", "basic-ok2", "basic-bad", "basic-nokey", "ca-valid", "ca-nokey", "tls-valid", "tls-bad"}

// GenOpt generates controller options.
func GenOpt(rng *rand.Rand) Opt {
	o := Opt{}
	switch rng.Intn(5) {
	case 0, 1:
		o.DefaultService = "ns1/svc1"
	case 2:
		o.DefaultService = "ns1/nosuch"
	}
	if rng.Intn(4) == 0 {
		o.BackendShards = 3
	}
	o.TCPConfigMap = rng.Intn(2) == 0
	return o
}

// GenCluster generates the initial cluster of the dedicated generator.
func GenCluster(rng *rand.Rand, o Opt) []client.Object {
	var objs []client.Object
	for ni := 0; ni < 2; ni++ {
		for _, name := range svcNames[:6] {
			if ni == 1 && name != "svc1" && name != "svc2" {
				continue
			}
			if rng.Intn(7) == 0 {
				continue // missing service
			}
			svc, ep, extra := genSvc(rng, ni, name)
			objs = append(objs, svc)
			if rng.Intn(8) > 0 {
				objs = append(objs, ep)
			}
			objs = append(objs, extra...)
		}
		for _, s := range secretPool {
			if rng.Intn(6) > 0 {
				objs = append(objs, genSecret(rng, world.Namespaces[ni], s))
			}
		}
	}
	if rng.Intn(3) > 0 {
		objs = append(objs, genGlobal(rng))
	}
	if o.TCPConfigMap && rng.Intn(4) > 0 {
		objs = append(objs, genTCP(rng))
	}
	n := 1 + rng.Intn(5)
	perm := rng.Perm(len(world.IngressNames))
	for k := 0; k < n; k++ {
		if rng.Intn(6) == 0 {
			objs = append(objs, GenTCPIngress(rng, perm[k]))
		} else {
			objs = append(objs, GenIngress(rng, perm[k]))
		}
	}
	// several objects may carry the same key (pods of two services): keep the last
	seen := map[string]int{}
	var out []client.Object
	for _, ob := range objs {
		k := world.Key(ob)
		if i, ok := seen[k]; ok {
			out[i] = ob
			continue
		}
		seen[k] = len(out)
		out = append(out, ob)
	}
	return out
}

func ofKind(s *world.State, kind string) []client.Object {
	var out []client.Object
	for _, ob := range s.Objects() {
		if world.KindOf(ob) == kind {
			out = append(out, ob)
		}
	}
	return out
}

func exists(s *world.State, ob client.Object) bool {
	k := world.Key(ob)
	for _, x := range s.Objects() {
		if world.Key(x) == k {
			return true
		}
	}
	return false
}

func upsert(s *world.State, ob client.Object) pipeline.Change {
	if exists(s, ob) {
		return pipeline.Change{Op: pipeline.Update, Obj: ob}
	}
	return pipeline.Change{Op: pipeline.Create, Obj: ob}
}

// GenChange generates one dedicated change against the state (and records it).
func GenChange(rng *rand.Rand, o Opt, s *world.State) []pipeline.Change {
	var out []pipeline.Change
	for try := 0; try < 30 && len(out) == 0; try++ {
		switch k := rng.Intn(24); {
		case k < 5: // ingress add / replace
			ing := GenIngress(rng, rng.Intn(len(world.IngressNames)))
			if rng.Intn(4) == 0 {
				ing = GenTCPIngress(rng, rng.Intn(len(world.IngressNames)))
			}
			if old := ofKind(s, "Ingress"); len(old) >= 6 {
				ob := pick(rng, old)
				ing.Namespace, ing.Name = ob.GetNamespace(), ob.GetName()
			}
			for _, ob := range ofKind(s, "Ingress") {
				if world.Key(ob) == world.Key(ing) {
					ing.CreationTimestamp = ob.GetCreationTimestamp()
				}
			}
			out = append(out, upsert(s, ing))
		case k < 9: // toggle a feature bundle on an ingress
			if old := ofKind(s, "Ingress"); len(old) > 0 {
				ing := pick(rng, old).(*networking.Ingress)
				if ing.Annotations == nil {
					ing.Annotations = map[string]string{}
				}
				if len(ing.Annotations) > 0 && rng.Intn(2) == 0 {
					keys := make([]string, 0, len(ing.Annotations))
					for k := range ing.Annotations {
						keys = append(keys, k)
					}
					sort.Strings(keys)
					delete(ing.Annotations, pick(rng, keys))
				} else {
					pick(rng, bundles)(rng, ing.Annotations)
				}
				out = append(out, pipeline.Change{Op: pipeline.Update, Obj: ing})
			}
		case k < 11: // ingress delete
			if old := ofKind(s, "Ingress"); len(old) > 0 {
				out = append(out, pipeline.Change{Op: pipeline.Delete, Obj: pick(rng, old)})
			}
		case k < 15: // service + endpoints: delete / create / rescale (pods come along)
			ni := rng.Intn(2)
			name := pick(rng, svcNames[:6])
			svc, ep, extra := genSvc(rng, ni, name)
			switch {
			case exists(s, svc) && rng.Intn(3) == 0:
				out = append(out, pipeline.Change{Op: pipeline.Delete, Obj: svc})
				if rng.Intn(2) == 0 && exists(s, ep) {
					out = append(out, pipeline.Change{Op: pipeline.Delete, Obj: ep})
				}
			case exists(s, svc):
				if rng.Intn(6) == 0 && exists(s, ep) {
					out = append(out, pipeline.Change{Op: pipeline.Delete, Obj: ep})
				} else {
					for _, p := range extra {
						out = append(out, upsert(s, p))
					}
					out = append(out, upsert(s, ep))
				}
			default:
				out = append(out, pipeline.Change{Op: pipeline.Create, Obj: svc})
				for _, p := range extra {
					out = append(out, upsert(s, p))
				}
				out = append(out, upsert(s, ep))
			}
		case k < 18: // secret create / change kind / delete
			ns := world.Namespaces[rng.Intn(2)]
			name := pick(rng, secretPool)
			sec := genSecret(rng, ns, name)
			switch {
			case exists(s, sec) && rng.Intn(2) == 0:
				out = append(out, pipeline.Change{Op: pipeline.Delete, Obj: sec})
			case exists(s, sec):
				// same name, other content (valid <-> malformed)
				alt := BasicSecret(ns, name, rng.Intn(3))
				if name == "tls-valid" || name == "tls-bad" {
					alt = world.TLSSecret(ns, name, "c.example", rng.Intn(3))
				}
				if name == "ca-valid" || name == "ca-nokey" {
					alt = CASecret(ns, name, rng.Intn(2))
				}
				out = append(out, pipeline.Change{Op: pipeline.Update, Obj: alt})
			default:
				out = append(out, pipeline.Change{Op: pipeline.Create, Obj: sec})
			}
		case k < 20: // global configmap
			cm := genGlobal(rng)
			if exists(s, cm) && rng.Intn(5) == 0 {
				out = append(out, pipeline.Change{Op: pipeline.Delete, Obj: cm})
			} else {
				out = append(out, upsert(s, cm))
			}
		case k < 22: // tcp configmap
			if !o.TCPConfigMap {
				continue
			}
			cm := genTCP(rng)
			if exists(s, cm) && rng.Intn(5) == 0 {
				out = append(out, pipeline.Change{Op: pipeline.Delete, Obj: cm})
			} else {
				out = append(out, upsert(s, cm))
			}
		default: // a pod goes away / terminates
			if old := ofKind(s, "Pod"); len(old) > 0 {
				p := pick(rng, old).(*api.Pod)
				if rng.Intn(2) == 0 {
					out = append(out, pipeline.Change{Op: pipeline.Delete, Obj: p})
				} else {
					t := world.Stamp(100000)
					p.DeletionTimestamp = &t
					p.Finalizers = []string{"verif/hold"}
					out = append(out, pipeline.Change{Op: pipeline.Update, Obj: p})
				}
			}
		}
	}
	s.Apply(out)
	return out
}

// GenHistory generates a dedicated scenario: options, an initial cluster and n batches;
// each batch mixes dedicated changes and changes of the shared generator (world.Full()).
func GenHistory(rng *rand.Rand, n int) (Opt, [][]pipeline.Change) {
	o := GenOpt(rng)
	objs := GenCluster(rng, o)
	s := world.NewState(objs)
	first := make([]pipeline.Change, len(objs))
	for i, ob := range objs {
		first[i] = pipeline.Change{Op: pipeline.Create, Obj: ob}
	}
	h := [][]pipeline.Change{first}
	wcfg := world.Full()
	wcfg.TCP = true
	for i := 0; i < n; i++ {
		var b []pipeline.Change
		for j, m := 0, 1+rng.Intn(2); j < m; j++ {
			if rng.Intn(4) == 0 {
				b = append(b, world.GenChange(rng, wcfg, s))
			} else {
				b = append(b, GenChange(rng, o, s)...)
			}
		}
		if len(b) > 0 {
			h = append(h, b)
		}
	}
	return o, h
}

// GenSplitTLS generates the history "the TLS of a TCP service arrives through a separate
// ingress after the port exists, then unrelated changes": a port with one or two backend
// ingresses, http ingresses next to them, then the tls-only ingress (secret valid, missing,
// created later), then changes that rewrite haproxy.cfg or not (new http host, endpoints,
// global key, the tls ingress updated or deleted, the backend ingress touched).
func GenSplitTLS(rng *rand.Rand) (Opt, [][]pipeline.Change) {
	o := Opt{}
	if rng.Intn(4) == 0 {
		o.BackendShards = 3
	}
	if rng.Intn(3) == 0 {
		o.DefaultService = "ns1/svc1"
	}
	port := pick(rng, []string{"7000", "7001", "9000"})
	var first []client.Object
	for _, s := range []string{"svc1", "svc2", "svc3"} {
		sv, ep, extra := genSvc(rng, 0, s)
		first = append(first, sv, ep)
		first = append(first, extra...)
	}
	if rng.Intn(3) > 0 {
		first = append(first, world.TLSSecret("ns1", "tls-valid", "a.example", 0))
	}
	back := ing("ns1", "ing1", map[string]string{"tcp-service-port": port}, rule(pick(rng, []string{"", "", "a.example"}), pth("/", "svc1")))
	first = append(first, back)
	if rng.Intn(3) == 0 {
		first = append(first, ing("ns1", "ing5", map[string]string{"tcp-service-port": port}, rule("b.example", pth("/", "svc2"))))
	}
	first = append(first, ing("ns1", "ing3", nil, rule("a.example", pth("/", "svc2"))))
	s := world.NewState(first)
	h := [][]pipeline.Change{creates(first...)}
	tlsIng := func() *networking.Ingress {
		var hosts []string
		if rng.Intn(3) == 0 {
			hosts = []string{pick(rng, []string{"a.example", "b.example"})}
		}
		i := ingTLS(ing("ns1", "ing2", map[string]string{"tcp-service-port": port}), pick(rng, []string{"tls-valid", "tls-valid", "tls-absent", ""}), hosts...)
		i.CreationTimestamp = world.Stamp(5 + rng.Intn(20))
		return i
	}
	apply := func(b []pipeline.Change) {
		s.Apply(b)
		h = append(h, b)
	}
	if rng.Intn(4) == 0 {
		apply([]pipeline.Change{{Op: pipeline.Update, Obj: churnEndpoints("ns1", "svc2", []int{0, 1}, 0, false)}})
	}
	apply(creates(tlsIng()))
	wcfg := world.Full()
	for i, n := 0, 1+rng.Intn(4); i < n; i++ {
		switch rng.Intn(8) {
		case 0, 1:
			apply(creates(ing("ns1", world.IngressNames[5+i%2], nil, rule(pick(rng, []string{"b.example", "sub.a.example"}), pth(pick(rng, []string{"/", "/app"}), "svc2")))))
		case 2:
			apply([]pipeline.Change{{Op: pipeline.Update, Obj: churnEndpoints("ns1", pick(rng, []string{"svc1", "svc2"}), []int{rng.Intn(4), 4 + rng.Intn(3)}, 0, false)}})
		case 3:
			apply([]pipeline.Change{upsert(s, genGlobal(rng))})
		case 4:
			apply([]pipeline.Change{{Op: pipeline.Update, Obj: tlsIng()}})
		case 5:
			apply([]pipeline.Change{{Op: pipeline.Delete, Obj: tlsIng()}})
			if rng.Intn(2) == 0 {
				apply(creates(tlsIng()))
			}
		case 6:
			b := back.DeepCopy()
			b.Annotations[ann+"tcp-service-proxy-protocol"] = pick(rng, []string{"true", "false"})
			apply([]pipeline.Change{{Op: pipeline.Update, Obj: b}})
		default:
			apply([]pipeline.Change{world.GenChange(rng, wcfg, s)})
		}
	}
	return o, h
}
