package c07

import (
	networking "k8s.io/api/networking/v1"
	"k8s.io/apimachinery/pkg/util/intstr"
	"sigs.k8s.io/controller-runtime/pkg/client"

	"verif/harness/lib/pipeline"
	"verif/harness/lib/world"
)

// CorpusScenario is a hand-written minimal history kept in /verif/corpus/C07.
type CorpusScenario struct {
	Name string
	Opt  Opt
	H    [][]pipeline.Change
}

func creates(objs ...client.Object) []pipeline.Change {
	var out []pipeline.Change
	for _, o := range objs {
		out = append(out, pipeline.Change{Op: pipeline.Create, Obj: o})
	}
	return out
}

func svc(ns, name string) client.Object {
	return world.Service(ns, name, world.SvcPort{Name: "http", Port: 80, TargetPort: intstr.FromInt(8080)})
}

func ing(ns, name string, annotations map[string]string, rules ...world.IngRule) *networking.Ingress {
	i := world.Ingress(ns, name, 10, rules...)
	if annotations != nil {
		i.Annotations = map[string]string{}
		for k, v := range annotations {
			i.Annotations[ann+k] = v
		}
	}
	return i
}

func rule(host string, paths ...world.IngPath) world.IngRule {
	return world.IngRule{Host: host, Paths: paths}
}
func pth(path, service string) world.IngPath {
	return world.IngPath{Path: path, Type: "Prefix", Service: service, PortNum: 80}
}

// Corpus returns the minimal histories of past failures (each was a dangling or duplicated
// reference in a written configuration) and a few fixed scenarios of the hard corners.
func Corpus() []CorpusScenario {
	return []CorpusScenario{
		{
			// fixed in /repo 0dcf616: deleting the --default-backend-service left
			// `default_backend ns1_svc1_8080` without such a section
			Name: "01-default-backend-service-deleted",
			Opt:  Opt{DefaultService: "ns1/svc1"},
			H: [][]pipeline.Change{
				creates(svc("ns1", "svc1"), EndpointsRef("ns1", "svc1", "http", 8080, []string{"10.1.0.1"}, nil, 0),
					svc("ns3", "svc3"), EndpointsRef("ns3", "svc3", "http", 8080, []string{"10.3.2.1"}, nil, 0),
					ing("ns3", "ing1", nil, rule("", pth("/", "svc3")))),
				{{Op: pipeline.Update, Obj: EndpointsRef("ns3", "svc3", "http", 8080, []string{"10.3.2.1", "10.3.2.2"}, nil, 0)}},
				{{Op: pipeline.Delete, Obj: svc("ns1", "svc1")}},
			},
		},
		{
			// same, on backend shards (fixed in f296c05)
			Name: "02-default-backend-service-deleted-shards",
			Opt:  Opt{DefaultService: "ns1/svc1", BackendShards: 3},
			H: [][]pipeline.Change{
				creates(svc("ns1", "svc1"), EndpointsRef("ns1", "svc1", "http", 8080, []string{"10.1.0.1"}, nil, 0),
					svc("ns1", "svc2"), EndpointsRef("ns1", "svc2", "http", 8080, []string{"10.1.1.1"}, nil, 0),
					ing("ns1", "ing1", nil, rule("a.example", pth("/", "svc2")))),
				{{Op: pipeline.Delete, Obj: svc("ns1", "svc1")}},
				creates(svc("ns1", "svc1")),
			},
		},
		{
			// C07/duplicate-server-name-like-empty-slot, fixed: a pod literally named like an
			// empty slot with backend-server-naming=pod
			Name: "03-pod-named-like-empty-slot",
			Opt:  Opt{},
			H: [][]pipeline.Change{
				creates(svc("ns1", "svc1"), EndpointsRef("ns1", "svc1", "http", 8080, []string{"10.1.0.1"}, []string{"srv003"}, 0),
					ing("ns1", "ing1", map[string]string{"backend-server-naming": "pod"}, rule("a.example", pth("/", "svc1")))),
				{{Op: pipeline.Update, Obj: EndpointsRef("ns1", "svc1", "http", 8080, []string{"10.1.0.1", "10.1.0.2", "10.1.0.3"}, []string{"srv003", "srv002", ""}, 0)}},
			},
		},
		{
			// C07/dangling-map-backend:_front_defaulthost:empty-value, fixed: redirect-to on a
			// path of the default host wrote a map line without a backend
			Name: "04-default-host-redirect-to",
			Opt:  Opt{},
			H: [][]pipeline.Change{
				creates(svc("ns1", "svc1"), EndpointsRef("ns1", "svc1", "http", 8080, []string{"10.1.0.1"}, nil, 0),
					ing("ns1", "ing1", nil, rule("", pth("/", "svc1"))),
					ing("ns1", "ing2", map[string]string{"redirect-to": "http://other.example/x"}, rule("", pth("/oauth2", "svc1")))),
			},
		},
		{
			// the auth proxy range is full: the third auth-url cannot get a port
			Name: "05-auth-proxy-range-full",
			Opt:  Opt{},
			H: [][]pipeline.Change{
				creates(pglobal(map[string]string{"auth-proxy": "_front__auth:14415-14416"}),
					svc("ns1", "svc1"), EndpointsRef("ns1", "svc1", "http", 8080, []string{"10.1.0.1"}, nil, 0),
					svc("ns1", "svc2"), EndpointsRef("ns1", "svc2", "http", 8080, []string{"10.1.1.1"}, nil, 0),
					svc("ns1", "svc3"), EndpointsRef("ns1", "svc3", "http", 8080, []string{"10.1.2.1"}, nil, 0),
					ing("ns1", "ing1", map[string]string{"auth-url": "http://10.0.0.9:8000/auth"}, rule("a.example", pth("/", "svc1"))),
					ing("ns1", "ing2", map[string]string{"auth-url": "http://10.0.0.10:8000/auth"}, rule("b.example", pth("/", "svc2"))),
					ing("ns1", "ing3", map[string]string{"auth-url": "http://10.0.0.11:8000/auth"}, rule("sub.a.example", pth("/", "svc3")))),
				{{Op: pipeline.Delete, Obj: ing("ns1", "ing1", nil)}},
				creates(ing("ns1", "ing4", map[string]string{"auth-url": "http://10.0.0.12:8000/auth", "auth-external-placement": "frontend"}, rule("a.example", pth("/", "svc1")))),
			},
		},
		{
			// basic auth: two backends share one userlist; the first user goes away, the secret changes
			Name: "06-shared-userlist",
			Opt:  Opt{},
			H: [][]pipeline.Change{
				creates(BasicSecret("ns1", "basic-ok", 0),
					svc("ns1", "svc1"), EndpointsRef("ns1", "svc1", "http", 8080, []string{"10.1.0.1"}, nil, 0),
					svc("ns1", "svc2"), EndpointsRef("ns1", "svc2", "http", 8080, []string{"10.1.1.1"}, nil, 0),
					ing("ns1", "ing1", map[string]string{"auth-type": "basic", "auth-secret": "basic-ok"}, rule("a.example", pth("/", "svc1"))),
					ing("ns1", "ing2", map[string]string{"auth-type": "basic", "auth-secret": "basic-ok"}, rule("b.example", pth("/", "svc2")))),
				{{Op: pipeline.Delete, Obj: ing("ns1", "ing1", nil)}},
				{{Op: pipeline.Update, Obj: BasicSecret("ns1", "basic-ok", 1)}},
				{{Op: pipeline.Delete, Obj: BasicSecret("ns1", "basic-ok", 0)}},
			},
		},
		{
			// auth-url svc:// reaching the backend of another ingress, which then goes away
			Name: "07-auth-url-svc-target-removed",
			Opt:  Opt{},
			H: [][]pipeline.Change{
				creates(svc("ns1", "svc1"), EndpointsRef("ns1", "svc1", "http", 8080, []string{"10.1.0.1"}, nil, 0),
					authSvc(), EndpointsRef("ns1", "authsvc", "http", 8000, []string{"10.1.4.1"}, nil, 0),
					ing("ns1", "ing1", map[string]string{"auth-url": "svc://authsvc:8000/check"}, rule("a.example", pth("/", "svc1"))),
					ing("ns1", "ing2", nil, rule("b.example", world.IngPath{Path: "/", Type: "Prefix", Service: "authsvc", PortNum: 8000}))),
				{{Op: pipeline.Delete, Obj: ing("ns1", "ing2", nil)}},
				creates(ing("ns1", "ing2", nil, rule("b.example", world.IngPath{Path: "/", Type: "Prefix", Service: "authsvc", PortNum: 8000}))),
				{{Op: pipeline.Delete, Obj: authSvc()}},
			},
		},
		{
			// the same with the rules placed in the frontend
			Name: "08-auth-url-svc-frontend-placement-target-removed",
			Opt:  Opt{},
			H: [][]pipeline.Change{
				creates(svc("ns1", "svc1"), EndpointsRef("ns1", "svc1", "http", 8080, []string{"10.1.0.1"}, nil, 0),
					authSvc(), EndpointsRef("ns1", "authsvc", "http", 8000, []string{"10.1.4.1"}, nil, 0),
					ing("ns1", "ing1", map[string]string{"auth-url": "svc://authsvc:8000/check", "auth-external-placement": "frontend"}, rule("a.example", pth("/", "svc1"))),
					ing("ns1", "ing2", nil, rule("b.example", world.IngPath{Path: "/", Type: "Prefix", Service: "authsvc", PortNum: 8000}))),
				{{Op: pipeline.Delete, Obj: ing("ns1", "ing2", nil)}},
				creates(ing("ns1", "ing2", nil, rule("b.example", world.IngPath{Path: "/", Type: "Prefix", Service: "authsvc", PortNum: 8000}))),
			},
		},
		{
			// oauth2_proxy found on the /oauth2 path of another ingress, which then goes away
			Name: "09-oauth-backend-of-other-ingress-removed",
			Opt:  Opt{},
			H: [][]pipeline.Change{
				creates(svc("ns1", "svc1"), EndpointsRef("ns1", "svc1", "http", 8080, []string{"10.1.0.1"}, nil, 0),
					svc("ns1", "svc2"), EndpointsRef("ns1", "svc2", "http", 8080, []string{"10.1.1.1"}, nil, 0),
					ing("ns1", "ing1", map[string]string{"oauth": "oauth2_proxy"}, rule("a.example", pth("/", "svc1"))),
					ing("ns1", "ing2", nil, rule("b.example", pth("/oauth2", "svc2")))),
				{{Op: pipeline.Delete, Obj: ing("ns1", "ing2", nil)}},
			},
		},
		{
			// strict-host: a host without root path borrows _error404, then the default backend appears
			Name: "10-strict-host-error404-then-default-backend",
			Opt:  Opt{DefaultService: "ns1/svc1"},
			H: [][]pipeline.Change{
				creates(pglobal(map[string]string{"strict-host": "true"}),
					svc("ns1", "svc2"), EndpointsRef("ns1", "svc2", "http", 8080, []string{"10.1.1.1"}, nil, 0),
					ing("ns1", "ing1", nil, rule("b.example", pth("/app", "svc2")))),
				creates(svc("ns1", "svc1"), EndpointsRef("ns1", "svc1", "http", 8080, []string{"10.1.0.1"}, nil, 0)),
				{{Op: pipeline.Delete, Obj: svc("ns1", "svc1")}},
			},
		},
		{
			// strict-host: a host without root path borrows the root backend of the default host,
			// whose service is then deleted (C07/dangling-map-backend-strict-host-borrowed-root-backend-removed,
			// fixed in /repo 423708d)
			Name: "11-strict-host-default-host-backend-removed",
			Opt:  Opt{},
			H: [][]pipeline.Change{
				creates(pglobal(map[string]string{"strict-host": "true"}),
					svc("ns1", "svc2"), EndpointsRef("ns1", "svc2", "http", 8080, []string{"10.1.1.1"}, nil, 0),
					svc("ns1", "svc3"), EndpointsRef("ns1", "svc3", "http", 8080, []string{"10.1.2.1"}, nil, 0),
					ing("ns1", "ing1", nil, rule("b.example", pth("/app", "svc3"))),
					ing("ns1", "ing2", nil, rule("", pth("/", "svc2")))),
				{{Op: pipeline.Delete, Obj: svc("ns1", "svc2")}},
				{{Op: pipeline.Delete, Obj: ing("ns1", "ing2", nil)}},
			},
		},
		{
			// TCP services by annotation (with and without a hostname / TLS) and by the ConfigMap,
			// an ssl-passthrough host with an HTTP port, acme, modsecurity: every support section
			Name: "12-tcp-passthrough-support-sections",
			Opt:  Opt{TCPConfigMap: true, DefaultService: "ns1/svc1"},
			H: [][]pipeline.Change{
				creates(pglobal(map[string]string{"acme-emails": "a@example.com", "acme-endpoint": "v2-staging", "acme-terms-agreed": "true", "modsecurity-endpoints": "10.0.0.50:12345"}),
					ptcp(map[string]string{"5432": "ns1/svc1:80", "5433": "ns1/svc2:80:PROXY:PROXY-V1:ns1/tls-valid", "5434": "ns1/nosuch:80"}),
					world.TLSSecret("ns1", "tls-valid", "a.example", 0),
					svc("ns1", "svc1"), EndpointsRef("ns1", "svc1", "http", 8080, []string{"10.1.0.1", "10.1.0.2"}, nil, 0),
					svc("ns1", "svc2"), EndpointsRef("ns1", "svc2", "http", 8080, []string{"10.1.1.1"}, nil, 0),
					svc("ns1", "svc3"),
					ing("ns1", "ing1", map[string]string{"tcp-service-port": "7000"}, rule("a.example", pth("/", "svc1")), rule("", pth("/", "svc2"))),
					ingTLS(ing("ns1", "ing2", map[string]string{"tcp-service-port": "7001"}, rule("b.example", pth("/", "svc2"))), "tls-valid", "b.example"),
					ing("ns1", "ing3", map[string]string{"ssl-passthrough": "true", "ssl-passthrough-http-port": "80"}, rule("sub.a.example", pth("/", "svc3"))),
					ing("ns1", "ing4", map[string]string{"waf": "modsecurity", "ssl-passthrough": "true"}, rule("b.example", pth("/", "svc1")))),
				{{Op: pipeline.Delete, Obj: svc("ns1", "svc2")}},
				{{Op: pipeline.Update, Obj: ptcp(map[string]string{"5433": "ns1/svc1:80"})}},
				{{Op: pipeline.Delete, Obj: ptcp(nil)}},
			},
		},
		{
			// socket mode: pods a,b,c = srv001..srv003 + empty slots; a is removed dynamically
			// (b=srv002, c=srv003, srv001 empty); d is added and must take over an empty slot's
			// name also when session-cookie-preserve postpones its activation to the reload
			Name: "13-churn-cookie-preserve-socket-mode",
			Opt:  Opt{Socket: true},
			H: [][]pipeline.Change{
				creates(svc("ns1", "svc1"), churnPod("ns1", "svc1", 0), churnPod("ns1", "svc1", 1), churnPod("ns1", "svc1", 2), churnPod("ns1", "svc1", 3),
					churnEndpoints("ns1", "svc1", []int{0, 1, 2}, 0, true),
					ing("ns1", "ing1", map[string]string{"affinity": "cookie", "session-cookie-preserve": "true", "session-cookie-value-strategy": "pod-uid", "backend-server-slots-increment": "4"},
						rule("a.example", pth("/", "svc1")))),
				{{Op: pipeline.Update, Obj: churnEndpoints("ns1", "svc1", []int{1, 2}, 0, true)}},
				{{Op: pipeline.Update, Obj: churnEndpoints("ns1", "svc1", []int{1, 2, 3}, 0, true)}},
				{{Op: pipeline.Update, Obj: churnEndpoints("ns1", "svc1", []int{3, 2, 0, 1}, 0, true)}},
			},
		},
		{
			// DNS resolvers (resolvers section + server-template ... resolvers <name>), prometheus
			// frontend; then the resolver declaration goes away
			Name: "14-dns-resolver-prometheus",
			Opt:  Opt{},
			H: [][]pipeline.Change{
				creates(pglobal(map[string]string{"dns-resolvers": "kube=10.96.0.10:53", "prometheus-port": "9101"}),
					svc("ns1", "svc1"), EndpointsRef("ns1", "svc1", "http", 8080, []string{"10.1.0.1", "10.1.0.2"}, nil, 0),
					svc("ns1", "svc2"), EndpointsRef("ns1", "svc2", "http", 8080, []string{"10.1.1.1"}, nil, 0),
					ing("ns1", "ing1", map[string]string{"use-resolver": "kube"}, rule("a.example", pth("/", "svc1"))),
					ing("ns1", "ing2", map[string]string{"use-resolver": "nosuch"}, rule("b.example", pth("/", "svc2")))),
				{{Op: pipeline.Update, Obj: EndpointsRef("ns1", "svc1", "http", 8080, []string{"10.1.0.1"}, nil, 0)}},
				{{Op: pipeline.Update, Obj: pglobal(map[string]string{"prometheus-port": "9101"})}},
			},
		},
		{
			// the TLS of a TCP service arrives through a separate ingress (only a spec.tls block)
			// after the port exists; then an unrelated change rewrites haproxy.cfg: the bind of
			// _front_tcp_7000 names crtlist_tcp_7000.list, which must have been written
			Name: "15-tcp-service-tls-from-separate-ingress",
			Opt:  Opt{},
			H: [][]pipeline.Change{
				creates(world.TLSSecret("ns1", "tls-valid", "a.example", 0),
					svc("ns1", "svc1"), EndpointsRef("ns1", "svc1", "http", 8080, []string{"10.1.0.1"}, nil, 0),
					svc("ns1", "svc2"), EndpointsRef("ns1", "svc2", "http", 8080, []string{"10.1.1.1"}, nil, 0),
					ing("ns1", "ing1", map[string]string{"tcp-service-port": "7000"}, rule("", pth("/", "svc1"))),
					ing("ns1", "ing3", nil, rule("a.example", pth("/", "svc2")))),
				creates(ingTLS(ing("ns1", "ing2", map[string]string{"tcp-service-port": "7000"}), "tls-valid")),
				creates(ing("ns1", "ing4", nil, rule("b.example", pth("/", "svc2")))),
				{{Op: pipeline.Update, Obj: EndpointsRef("ns1", "svc1", "http", 8080, []string{"10.1.0.1", "10.1.0.2"}, nil, 0)}},
			},
		},
		{
			// auth-url svc:// on an ingress that only has spec.defaultBackend: the backend of the
			// authentication service was not pre-built for it (only for the paths of the rules),
			// so it existed just because another ingress routed to it; that ingress goes away
			Name: "16-auth-url-svc-on-default-backend-target-removed",
			Opt:  Opt{},
			H: [][]pipeline.Change{
				creates(svc("ns1", "svc1"), EndpointsRef("ns1", "svc1", "http", 8080, []string{"10.1.0.1"}, nil, 0),
					authSvc(), EndpointsRef("ns1", "authsvc", "http", 8000, []string{"10.1.4.1"}, nil, 0),
					ingDefault(ing("ns1", "ing1", map[string]string{"auth-url": "svc://authsvc:8000/auth"}), "svc1"),
					ing("ns1", "ing2", nil, rule("b.example", world.IngPath{Path: "/", Type: "Prefix", Service: "authsvc", PortNum: 8000}))),
				{{Op: pipeline.Delete, Obj: ing("ns1", "ing2", nil)}},
				creates(ing("ns1", "ing2", nil, rule("b.example", world.IngPath{Path: "/", Type: "Prefix", Service: "authsvc", PortNum: 8000}))),
			},
		},
		{
			// the default host with ssl-passthrough whose root path has no backend (redirect-to):
			// `use_backend` of listen _front__tls was written without a name
			Name: "17-default-host-passthrough-root-without-backend",
			Opt:  Opt{},
			H: [][]pipeline.Change{
				creates(svc("ns1", "svc1"), EndpointsRef("ns1", "svc1", "http", 8080, []string{"10.1.0.1"}, nil, 0),
					ing("ns1", "ing1", map[string]string{"ssl-passthrough": "true", "redirect-to": "http://other.example/x"}, rule("", pth("/", "svc1"))),
					ing("ns1", "ing2", nil, rule("a.example", pth("/", "svc1")))),
			},
		},
		{
			// strict-host: a host added later borrows the root backend of the default host, a
			// backend that is not built again; its new path has another per path config, so the
			// backend now needs path ids and their maps (the update failed with a nil PathsMap)
			Name: "18-strict-host-borrowed-path-needs-path-ids",
			Opt:  Opt{},
			H: [][]pipeline.Change{
				creates(pglobal(map[string]string{"strict-host": "true"}),
					svc("ns1", "svc2"), EndpointsRef("ns1", "svc2", "http", 8080, []string{"10.1.1.1"}, nil, 0),
					svc("ns1", "svc3"), EndpointsRef("ns1", "svc3", "http", 8080, []string{"10.1.2.1"}, nil, 0),
					ingDefault(ing("ns1", "ing1", map[string]string{"whitelist-source-range": "10.0.0.0/8"}), "svc2")),
				creates(ing("ns1", "ing2", nil, rule("b.example", pth("/app", "svc3")))),
				creates(ing("ns1", "ing3", nil, rule("a.example", pth("/app", "svc3")))),
				{{Op: pipeline.Delete, Obj: ing("ns1", "ing2", nil)}},
			},
		},
		{
			// a TCP service whose rule has a hostname (SNI) and a backend of kind `resource`: the
			// host must not stay behind with an empty backend (`bucket.local __` in the sni map);
			// the same with a missing service and with a second declaration of the host
			Name: "19-tcp-service-host-without-backend",
			Opt:  Opt{},
			H: [][]pipeline.Change{
				creates(svc("ns1", "svc1"), EndpointsRef("ns1", "svc1", "http", 8080, []string{"10.1.0.1"}, nil, 0),
					ing("ns1", "ing1", map[string]string{"tcp-service-port": "7000"}, rule("a.example", pth("/", "svc1"))),
					ingResource(ing("ns1", "ing2", map[string]string{"tcp-service-port": "7000"}, rule("bucket.local", pth("/", "svc1")))),
					ing("ns1", "ing3", map[string]string{"tcp-service-port": "7000"}, rule("b.example", pth("/", "nosuch")), rule("a.example", pth("/", "svc1")))),
				creates(ingResource(ing("ns1", "ing4", map[string]string{"tcp-service-port": "7001"}, rule("bucket.local", pth("/", "svc1")))),
					ingResource(ing("ns1", "ing5", map[string]string{"tcp-service-port": "7001"}, rule("", pth("/", "svc1"))))),
				{{Op: pipeline.Delete, Obj: ing("ns1", "ing1", nil)}},
			},
		},
		{
			// backend shards: one update re-creates a backend identical (the ingress is parsed again)
			// and adds brand-new backends in other shards: their shard files must be written
			Name: "20-shards-identical-recreation-plus-new-backend",
			Opt:  Opt{BackendShards: 3},
			H: [][]pipeline.Change{
				creates(svc("ns1", "svc1"), EndpointsRef("ns1", "svc1", "http", 8080, []string{"10.1.0.1"}, nil, 0),
					svc("ns1", "svc2"), EndpointsRef("ns1", "svc2", "http", 8080, []string{"10.1.1.1"}, nil, 0),
					svc("ns1", "svc3"), EndpointsRef("ns1", "svc3", "http", 8080, []string{"10.1.2.1"}, nil, 0),
					svc("ns1", "svc4"), EndpointsRef("ns1", "svc4", "http", 8080, []string{"10.1.3.1"}, nil, 0),
					ing("ns1", "ing1", map[string]string{"dynamic-scaling": "false"}, rule("d1.local", pth("/", "svc1")))),
				{{Op: pipeline.Update, Obj: ing("ns1", "ing1", map[string]string{"dynamic-scaling": "false"}, rule("d1.local", pth("/", "svc1"), pth("/app2", "svc2")))}},
				{{Op: pipeline.Update, Obj: ing("ns1", "ing1", map[string]string{"dynamic-scaling": "false", "server-alias": "alias.example"}, rule("d1.local", pth("/", "svc1"), pth("/app2", "svc2")))},
					{Op: pipeline.Create, Obj: ing("ns1", "ing2", map[string]string{"dynamic-scaling": "false"}, rule("b.example", pth("/", "svc3")))}},
				{{Op: pipeline.Update, Obj: ing("ns1", "ing1", map[string]string{"dynamic-scaling": "false", "server-alias": "alias2.example"}, rule("d1.local", pth("/", "svc1"), pth("/app2", "svc2")))},
					{Op: pipeline.Create, Obj: ing("ns1", "ing3", map[string]string{"dynamic-scaling": "false"}, rule("a.example", pth("/", "svc4")))}},
				{{Op: pipeline.Update, Obj: EndpointsRef("ns1", "svc1", "http", 8080, []string{"10.1.0.1", "10.1.0.2"}, nil, 0)}},
			},
		},
		{
			// (dynamic-scaling=false: otherwise the empty slots added to a new backend flag its shard again)
			// backend shards: one update re-creates a backend identical (the ingress is parsed again)
			// and adds brand-new backends in other shards: their shard files must be written
			Name: "21-shards8-identical-recreation-plus-new-backend",
			Opt:  Opt{BackendShards: 8},
			H: [][]pipeline.Change{
				creates(svc("ns1", "svc1"), EndpointsRef("ns1", "svc1", "http", 8080, []string{"10.1.0.1"}, nil, 0),
					svc("ns1", "svc2"), EndpointsRef("ns1", "svc2", "http", 8080, []string{"10.1.1.1"}, nil, 0),
					svc("ns1", "svc3"), EndpointsRef("ns1", "svc3", "http", 8080, []string{"10.1.2.1"}, nil, 0),
					svc("ns1", "svc4"), EndpointsRef("ns1", "svc4", "http", 8080, []string{"10.1.3.1"}, nil, 0),
					ing("ns1", "ing1", map[string]string{"dynamic-scaling": "false"}, rule("d1.local", pth("/", "svc1")))),
				{{Op: pipeline.Update, Obj: ing("ns1", "ing1", map[string]string{"dynamic-scaling": "false"}, rule("d1.local", pth("/", "svc1"), pth("/app2", "svc2")))}},
				{{Op: pipeline.Update, Obj: ing("ns1", "ing1", map[string]string{"dynamic-scaling": "false", "server-alias": "alias.example"}, rule("d1.local", pth("/", "svc1"), pth("/app2", "svc2")))},
					{Op: pipeline.Create, Obj: ing("ns1", "ing2", map[string]string{"dynamic-scaling": "false"}, rule("b.example", pth("/", "svc3")))}},
				{{Op: pipeline.Update, Obj: ing("ns1", "ing1", map[string]string{"dynamic-scaling": "false", "server-alias": "alias2.example"}, rule("d1.local", pth("/", "svc1"), pth("/app2", "svc2")))},
					{Op: pipeline.Create, Obj: ing("ns1", "ing3", map[string]string{"dynamic-scaling": "false"}, rule("a.example", pth("/", "svc4")))}},
				{{Op: pipeline.Update, Obj: EndpointsRef("ns1", "svc1", "http", 8080, []string{"10.1.0.1", "10.1.0.2"}, nil, 0)}},
			},
		},
	}
}

// ingResource turns the backend of every path into a `resource`.
func ingResource(i *networking.Ingress) *networking.Ingress {
	for r := range i.Spec.Rules {
		for p := range i.Spec.Rules[r].HTTP.Paths {
			i.Spec.Rules[r].HTTP.Paths[p].Backend = ResourceBackend()
		}
	}
	return i
}

func authSvc() client.Object {
	return world.Service("ns1", "authsvc", world.SvcPort{Name: "http", Port: 8000, TargetPort: intstr.FromInt(8000)})
}

func ingDefault(i *networking.Ingress, service string) *networking.Ingress {
	b := world.Backend(service, "", 80)
	i.Spec.DefaultBackend = &b
	return i
}

func ptcp(data map[string]string) client.Object {
	cm := genGlobalEmpty()
	cm.Name = "tcp-services"
	cm.Data = data
	return cm
}

func ingTLS(i *networking.Ingress, secret string, hosts ...string) *networking.Ingress {
	i.Spec.TLS = append(i.Spec.TLS, networking.IngressTLS{Hosts: hosts, SecretName: secret})
	return i
}

func pglobal(data map[string]string) client.Object {
	cm := genGlobalEmpty()
	cm.Data = data
	return cm
}
