package c07

// The generative side of C07 (coq/Model/TmplRefs.v): the haproxy model state the real
// instance holds, restricted to what decides which sections the template emits and which
// sections it refers to, read from the real Config() objects — and the same two lists as
// PARSED from the files the real template and map writers produced.

import (
	"fmt"
	"sort"
	"strings"

	"github.com/jcmoraisjr/haproxy-ingress/pkg/haproxy"
	hatypes "github.com/jcmoraisjr/haproxy-ingress/pkg/haproxy/types"

	"verif/harness/lib/hx"
)

func coqPath(p *hatypes.HostPath) string {
	auth := "None"
	if p.AuthExt != nil {
		auth = fmt.Sprintf("(Some (%s, %s))", hx.Bool(p.AuthExt.AlwaysDeny), hx.Str(p.AuthExt.AuthBackendName))
	}
	return fmt.Sprintf("(mk_tpath %s %s %s)", hx.Str(p.Path()), hx.Str(p.Backend.ID), auth)
}

func coqHost(h *hatypes.Host) string {
	var ps []string
	for _, p := range h.Paths {
		ps = append(ps, coqPath(p))
	}
	return fmt.Sprintf("(mk_thost %s %s %s %s %s)", hx.Str(h.Hostname), hx.Bool(h.SSLPassthrough()), hx.Str(h.HTTPPassthroughBackend), hx.Bool(h.HasTLS()), hx.List(ps))
}

// TmplHosts prints the hosts part of the model state ("<hosts> <default host>").
func TmplHosts(c haproxy.Config) string {
	var hosts []string
	def := "None"
	names := make([]string, 0)
	for n := range c.Hosts().Items() {
		names = append(names, n)
	}
	sort.Strings(names)
	for _, n := range names {
		h := c.Hosts().Items()[n]
		if n == hatypes.DefaultHost {
			def = "(Some " + coqHost(h) + ")"
		} else {
			hosts = append(hosts, coqHost(h))
		}
	}
	return hx.List(hosts) + " " + def
}

// TmplState prints the observed model state as a Coq term of type Model.TmplRefs.tstate;
// hosts is the hosts part (TmplHosts of this state, or of the state the frontend maps were
// last built from), prefix the --local-filesystem-prefix to strip from file names.
func TmplState(c haproxy.Config, hosts, prefix string) string {
	var backs []string
	ids := make([]string, 0)
	for id := range c.Backends().Items() {
		ids = append(ids, id)
	}
	sort.Strings(ids)
	for _, id := range ids {
		b := c.Backends().Items()[id]
		var uls, auths []string
		seenU, seenA := map[string]bool{}, map[string]bool{}
		for _, p := range b.Paths {
			if u := p.AuthHTTP.UserlistName; u != "" && !seenU[u] {
				seenU[u] = true
				uls = append(uls, hx.Str(u))
			}
			a := hx.Tuple(hx.Bool(p.AuthExternal.AlwaysDeny), hx.Str(p.AuthExternal.AuthBackendName))
			if !seenA[a] {
				seenA[a] = true
				auths = append(auths, a)
			}
		}
		backs = append(backs, fmt.Sprintf("(mk_tback %s %s %s %s %s)", hx.Str(b.ID), hx.Bool(b.ModeTCP), hx.List(uls), hx.List(auths), hx.Str(b.Resolver)))
	}
	defb := "None"
	if d := c.Backends().DefaultBackend; d != nil {
		defb = "(Some " + hx.Str(d.ID) + ")"
	}
	var uls, res, tcpb, tcps, binds []string
	for _, u := range c.Userlists().BuildSortedItems() {
		uls = append(uls, hx.Str(u.Name))
	}
	for _, r := range c.Global().DNS.Resolvers {
		res = append(res, hx.Str(r.Name))
	}
	for _, b := range c.TCPBackends().BuildSortedItems() {
		tcpb = append(tcpb, hx.Tuple(hx.Str(b.Name), hx.N(b.Port)))
	}
	for _, t := range c.TCPServices().BuildSortedItems() {
		var hs []string
		for _, h := range t.BuildSortedItems() {
			hs = append(hs, hx.Tuple(hx.Str(h.Hostname()), hx.Str(h.Backend.String())))
		}
		d := "None"
		if dh := t.DefaultHost(); dh != nil && !dh.Backend.IsEmpty() {
			d = "(Some " + hx.Str(dh.Backend.String()) + ")"
		}
		tcps = append(tcps, fmt.Sprintf("(mk_ttcp %s %s %s %s)", hx.N(t.Port()), hx.List(hs), d, hx.Bool(t.HasTLS())))
	}
	f := c.Frontend()
	for _, b := range f.AuthProxy.BindList {
		binds = append(binds, fmt.Sprintf("(mk_tbind %s %s)", hx.Str(b.AuthBackendName), hx.Str(b.Backend.String())))
	}
	g := c.Global()
	return fmt.Sprintf("(mk_tstate %s %s\n   %s %s %s %s %s %s\n   %s %s %s %s %s %s %s %s)",
		hosts, hx.Bool(c.Hosts().HasSSLPassthrough()),
		hx.List(backs), defb, hx.List(uls), hx.List(res), hx.List(tcpb), hx.List(tcps),
		hx.Str(f.AuthProxy.Name), hx.List(binds), hx.Bool(f.Maps != nil), hx.Str(f.Name), hx.Str(strings.ReplaceAll(f.CrtListFile, prefix, "")),
		hx.Bool(g.Acme.Enabled), hx.Bool(len(g.ModSecurity.Endpoints) > 0), hx.Bool(g.Prometheus.Port != 0))
}

func sidCoq(kind, name string) string {
	c := map[string]string{"backend": "SBack", "frontend": "SFront", "listen": "SListen", "userlist": "SUserlist", "resolvers": "SResolvers"}[kind]
	return "(" + c + " " + hx.Str(name) + ")"
}

// ParsedSections prints the sections of the written files as a list of Model.TmplRefs.sid.
func (c *Cfg) ParsedSections() string {
	var out []string
	for _, r := range c.Resolvers {
		out = append(out, sidCoq("resolvers", r))
	}
	for _, u := range c.Userlists {
		out = append(out, sidCoq("userlist", u))
	}
	for _, s := range c.Sections {
		if s.Kind == "frontend" || s.Kind == "backend" || s.Kind == "listen" {
			out = append(out, sidCoq(s.Kind, s.Name))
		}
	}
	return hx.List(out)
}

// ParsedRefs prints the references to sections found in the written files: per section,
// the backends named by use_backend / default_backend / lua.auth-intercept and by the
// values (and defaults) of the maps feeding its dynamic use_backend rules, the userlists
// of http_auth(), the resolvers of its server lines.
func (c *Cfg) ParsedRefs() string {
	vals := map[string][][2]string{}
	for _, m := range c.Maps {
		vals[m.Name] = m.Entries
	}
	seen := map[string]bool{}
	var out []string
	add := func(site, kind, name string) {
		t := hx.Tuple(hx.Str(site), sidCoq(kind, name))
		if !seen[t] {
			seen[t] = true
			out = append(out, t)
		}
	}
	for _, s := range c.Sections {
		for _, l := range [][]string{s.Use, s.Default, s.AuthBack} {
			for _, n := range l {
				add(s.Name, "backend", n)
			}
		}
		for _, d := range s.UseDyn {
			for _, n := range d.Defaults {
				add(s.Name, "backend", n)
			}
			for _, m := range d.Maps {
				for _, e := range vals[m] {
					add(s.Name, "backend", e[1])
				}
			}
		}
		for _, u := range s.Userlists {
			add(s.Name, "userlist", u)
		}
		for _, r := range s.ResolversUsed {
			add(s.Name, "resolvers", r)
		}
	}
	sort.Strings(out)
	return hx.List(out)
}

// ParsedCrtLists prints the crt-list references of the binds: (section, file).
func (c *Cfg) ParsedCrtLists() string {
	var out []string
	for _, s := range c.Sections {
		for _, f := range s.CrtLists {
			out = append(out, hx.Tuple(hx.Str(s.Name), hx.Str(f)))
		}
	}
	return hx.List(out)
}

// TmplCase prints one observed state of the CTmpl correspondence case.
func TmplCase(model string, c *Cfg, ok bool) string {
	return "(" + strings.Join([]string{model, c.ParsedSections(), c.ParsedRefs(), c.ParsedCrtLists(), strs(c.Files), hx.Bool(ok)}, ",\n   ") + ")"
}
