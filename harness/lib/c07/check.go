package c07

import (
	"fmt"
	"path/filepath"
	"regexp"
	"sort"
	"strings"
)

// Finding is one violation of C07 found in a written configuration.
type Finding struct {
	Kind string // classifies the kind of broken reference
	What string
}

func count(l []string, x string) int {
	n := 0
	for _, y := range l {
		if y == x {
			n++
		}
	}
	return n
}

func has(l []string, x string) bool { return count(l, x) > 0 }

var slotNameRe = regexp.MustCompile(`^srv\d{3,}$`)

// mapKind erases the variable parts of a generated map file name
// (_back_ns1_svc1_8080_idpath__prefix.map -> _back_*_idpath__prefix.map).
func mapKind(name string) string {
	b := filepath.Base(name)
	if strings.HasPrefix(b, "_back_") {
		if i := strings.Index(b, "_idpath"); i >= 0 {
			return "_back_*" + b[i:]
		}
	}
	return b
}

// Check is the reference analysis of C07 on the raw structure (direct oracle on the
// implementation's output, no model). It returns every finding, sorted.
func Check(c *Cfg) []Finding {
	var out []Finding
	add := func(kind, f string, args ...interface{}) {
		out = append(out, Finding{Kind: kind, What: fmt.Sprintf(f, args...)})
	}
	var backNames []string
	for _, s := range c.Sections {
		if s.Kind == "backend" || s.Kind == "listen" {
			backNames = append(backNames, s.Name)
		}
	}
	files := map[string]bool{}
	for _, f := range c.Files {
		files[f] = true
	}
	maps := map[string][][2]string{}
	for _, m := range c.Maps {
		maps[m.Name] = m.Entries
	}
	crtlists := map[string][]string{}
	for _, m := range c.CrtLists {
		crtlists[m.Name] = m.Files
	}
	one := func(kind, where, name string) {
		switch n := count(backNames, name); {
		case n == 0:
			add("dangling-"+kind, "%s names backend %q but no such section exists", where, name)
		case n > 1:
			add("duplicate-backend-section", "%s names backend %q which exists %d times", where, name, n)
		}
	}
	for _, s := range c.Sections {
		where := s.Kind + " " + s.Name
		for _, n := range s.Use {
			one("use-backend", where+": use_backend", n)
		}
		for _, n := range s.Default {
			one("default-backend", where+": default_backend", n)
		}
		for _, n := range s.AuthBack {
			one("auth-backend", where+": lua.auth-intercept", n)
		}
		for _, d := range s.UseDyn {
			for _, v := range d.Defaults {
				one("map-backend", where+": default of the map feeding "+d.Var, v)
			}
			for _, f := range d.Maps {
				es, ok := maps[f]
				if !ok {
					add("missing-map-file", "%s: map %s feeding %s does not exist", where, f, d.Var)
					continue
				}
				for _, e := range es {
					one("map-backend", where+": "+filepath.Base(f)+" key "+e[0], e[1])
				}
			}
		}
		for _, u := range s.Userlists {
			switch n := count(c.Userlists, u); {
			case n == 0:
				add("missing-userlist", "%s: http_auth(%s) but no such userlist", where, u)
			case n > 1:
				add("duplicate-userlist", "%s: userlist %s defined %d times", where, u, n)
			}
		}
		for _, f := range s.Maps {
			if !files[f] {
				add("missing-map-file", "%s: map/list file %s does not exist", where, f)
			}
		}
		for _, f := range s.CrtLists {
			fs, ok := crtlists[f]
			if !ok || !files[f] {
				add("missing-crt-list", "%s: crt-list %s does not exist", where, f)
				continue
			}
			for _, x := range fs {
				if !files[x] {
					add("missing-cert-file", "%s: %s names %s which does not exist", where, filepath.Base(f), x)
				}
			}
		}
		for _, f := range s.Files {
			if !files[f] {
				add("missing-cert-file", "%s: file %s does not exist", where, f)
			}
		}
		// servers
		var names []string
		var ids []string
		for _, sv := range s.Servers {
			names = append(names, sv.Name)
			if sv.ID != 0 {
				ids = append(ids, fmt.Sprint(sv.ID))
			}
		}
		seen := map[string]bool{}
		for _, n := range names {
			if count(names, n) > 1 && !seen[n] {
				seen[n] = true
				kind := "duplicate-server-name"
				if slotNameRe.MatchString(n) {
					kind = "duplicate-server-name-like-empty-slot"
				}
				add(kind, "%s: server name %s used %d times", where, n, count(names, n))
			}
		}
		seen = map[string]bool{}
		for _, n := range ids {
			if count(ids, n) > 1 && !seen[n] {
				seen[n] = true
				add("duplicate-server-id", "%s: server id %s used %d times", where, n, count(ids, n))
			}
		}
		for _, n := range s.UseServer {
			if !has(names, n) {
				add("dangling-use-server", "%s: use-server %s but no such server", where, n)
			}
		}
		// path ids
		var idvals []string
		for _, f := range s.IDMaps {
			for _, e := range maps[f] {
				idvals = append(idvals, e[1])
			}
		}
		for _, id := range s.IDsUsed {
			if !has(idvals, id) {
				add("unknown-path-id", "%s: ACL uses %s which is no value of %v", where, id, mapKinds(s.IDMaps))
			}
		}
	}
	// auth proxy
	seenP := map[int]bool{}
	for _, p := range c.AuthBinds {
		if seenP[p] {
			add("duplicate-auth-port", "auth proxy binds 127.0.0.1:%d twice", p)
		}
		seenP[p] = true
	}
	seenI := map[int]bool{}
	for _, p := range c.AuthIDs {
		if p != 0 && seenI[p] {
			add("duplicate-auth-port", "auth proxy socket id %d used twice", p)
		}
		seenI[p] = true
	}
	for _, a := range c.AuthServers {
		if !seenP[a.Port] {
			add("dangling-auth-port", "helper backend %s points to 127.0.0.1:%d which the auth proxy does not bind", a.Backend, a.Port)
		}
	}
	for _, l := range c.Outside {
		add("line-outside-section", "%s", l)
	}
	sort.Slice(out, func(i, j int) bool {
		if out[i].Kind != out[j].Kind {
			return out[i].Kind < out[j].Kind
		}
		return out[i].What < out[j].What
	})
	return out
}

func mapKinds(l []string) []string {
	var out []string
	for _, m := range l {
		out = append(out, mapKind(m))
	}
	return out
}

// Kinds returns the sorted distinct kinds of the findings.
func Kinds(fs []Finding) []string {
	m := map[string]bool{}
	for _, f := range fs {
		m[f.Kind] = true
	}
	var out []string
	for k := range m {
		out = append(out, k)
	}
	sort.Strings(out)
	return out
}
