// Package c06 holds what the C06 harness (order independence) needs on top of
// lib/pipeline, lib/world and lib/sem:
//
//   - Stamp: deterministic metadata (creationTimestamp, uid, generation, resourceVersion)
//     derived from the object key, so that the same cluster can be fed to independent
//     pipelines in any order without the pipeline's sequence-derived metadata differing;
//   - ShuffleClient: a controller-runtime client whose List answers are permuted by a PRNG
//     (the fake client's tracker sorts its answers by namespace/name);
//   - Runner: feeds a cluster (and optionally one more batch) to a fresh real pipeline in a
//     given event order, with or without shuffled List answers;
//   - Spice: conflict-prone annotations on top of a world cluster (same key from two
//     annotation prefixes, same host-wide key on two ingresses of one host, same
//     redirect-from / alias on two hosts, external authentication, oauth, basic auth, tcp);
//   - Canon: the behaviour (lib/sem) as text with the remaining internal numbering
//     (`_auth_backendNNN_port`, the value of txn.pathID) renamed / erased.
package c06

import (
	"context"
	"fmt"
	"hash/fnv"
	"math/rand"
	"regexp"
	"sort"
	"strings"
	"sync"

	api "k8s.io/api/core/v1"
	networking "k8s.io/api/networking/v1"
	"k8s.io/apimachinery/pkg/api/meta"
	"k8s.io/apimachinery/pkg/runtime"
	"k8s.io/apimachinery/pkg/runtime/serializer"
	k8stypes "k8s.io/apimachinery/pkg/types"
	"k8s.io/apimachinery/pkg/util/intstr"
	k8stesting "k8s.io/client-go/testing"
	"sigs.k8s.io/controller-runtime/pkg/client"
	"sigs.k8s.io/controller-runtime/pkg/client/apiutil"
	"sigs.k8s.io/controller-runtime/pkg/client/fake"

	"verif/harness/lib/cfgnorm"
	"verif/harness/lib/pipeline"
	"verif/harness/lib/sem"
	"verif/harness/lib/world"
)

// ---------------------------------------------------------------- metadata

func keyHash(k string) uint32 {
	h := fnv.New32a()
	h.Write([]byte(k))
	return h.Sum32()
}

// Stamp returns copies of the objects with metadata that only depends on the object:
// a creationTimestamp (kept if present), uid, generation 1 and a resourceVersion.
func Stamp(objs []client.Object) []client.Object {
	out := make([]client.Object, len(objs))
	for i, o := range objs {
		c := o.DeepCopyObject().(client.Object)
		k := world.Key(c)
		h := keyHash(k)
		if ts := c.GetCreationTimestamp(); ts.IsZero() {
			c.SetCreationTimestamp(world.Stamp(1000 + int(h%5000)))
		}
		if c.GetUID() == "" {
			c.SetUID(k8stypes.UID(fmt.Sprintf("00000000-0000-4000-8000-%012d", h)))
		}
		if c.GetGeneration() == 0 {
			c.SetGeneration(1)
		}
		if c.GetResourceVersion() == "" {
			c.SetResourceVersion(fmt.Sprint(1000 + h%100000))
		}
		out[i] = c
	}
	return out
}

// ---------------------------------------------------------------- shuffling client

// ShuffleClient permutes the items of every List answer.
type ShuffleClient struct {
	client.Client
	mu    sync.Mutex
	rng   *rand.Rand
	Lists int // number of List calls answered
}

// NewShuffleClient wraps inner.
func NewShuffleClient(inner client.Client, seed int64) *ShuffleClient {
	return &ShuffleClient{Client: inner, rng: rand.New(rand.NewSource(seed))}
}

// List answers as the wrapped client does, with the items in a random order.
func (c *ShuffleClient) List(ctx context.Context, list client.ObjectList, opts ...client.ListOption) error {
	if err := c.Client.List(ctx, list, opts...); err != nil {
		return err
	}
	items, err := meta.ExtractList(list)
	if err != nil {
		return err
	}
	c.mu.Lock()
	c.Lists++
	c.rng.Shuffle(len(items), func(i, j int) { items[i], items[j] = items[j], items[i] })
	c.mu.Unlock()
	return meta.SetList(list, items)
}

// ---------------------------------------------------------------- runner

// Opts are the pipeline options a C06 input carries.
type Opts struct {
	WatchWithoutClass bool   `json:"watch_without_class"`
	DefaultService    string `json:"default_service,omitempty"`
	BackendShards     int    `json:"backend_shards,omitempty"`
	GatewayV1         bool   `json:"gateway_v1,omitempty"`
	TCPConfigMap      string `json:"tcp_configmap,omitempty"` // --tcp-services-configmap "ns/name"
	TCPRouteA2        bool   `json:"tcproute_a2,omitempty"`
	EndpointSlices    bool   `json:"endpoint_slices,omitempty"` // --enable-endpointslices-api
}

// Run describes how one fresh pipeline is fed.
type Run struct {
	Dir          string
	Opts         Opts
	Objs         []client.Object   // stamped cluster, fed as the first batch
	Order        []int             // event order of the first batch (nil = as given)
	Batch        []pipeline.Change // optional second batch (partial sync)
	BatchOrder   []int             // event order of the second batch (nil = as given)
	ShuffleLists bool              // answer List calls in a random order
	Seed         int64             // seed of the List shuffling
}

// store is the harness side of a pipeline running over an external client.
type store struct {
	scheme  *runtime.Scheme
	tracker k8stesting.ObjectTracker
	inner   client.Client
	exists  map[string]bool
}

func (s *store) put(o client.Object) (client.Object, error) {
	k := world.Key(o)
	if !s.exists[k] {
		if err := s.tracker.Add(o.DeepCopyObject()); err != nil {
			return nil, err
		}
		s.exists[k] = true
	} else {
		gvk, err := apiutil.GVKForObject(o, s.scheme)
		if err != nil {
			return nil, err
		}
		gvr, _ := meta.UnsafeGuessKindToResource(gvk)
		if err := s.tracker.Update(gvr, o.DeepCopyObject(), o.GetNamespace()); err != nil {
			return nil, err
		}
	}
	out := o.DeepCopyObject().(client.Object)
	if err := s.inner.Get(context.Background(), client.ObjectKeyFromObject(o), out); err != nil {
		return nil, err
	}
	return out, nil
}

func (s *store) del(o client.Object) error {
	k := world.Key(o)
	if !s.exists[k] {
		return nil
	}
	gvk, err := apiutil.GVKForObject(o, s.scheme)
	if err != nil {
		return err
	}
	gvr, _ := meta.UnsafeGuessKindToResource(gvk)
	delete(s.exists, k)
	return s.tracker.Delete(gvr, o.GetNamespace(), o.GetName())
}

func ordered[T any](xs []T, order []int) []T {
	if order == nil {
		return xs
	}
	out := make([]T, 0, len(xs))
	for _, i := range order {
		out = append(out, xs[i])
	}
	return out
}

// Result is what one run produced.
type Result struct {
	Behaviour       *sem.Behaviour
	Canon           string
	Lists           int
	Reconciliations int
	ConvLog         []string
	Pipeline        *pipeline.Pipeline // closed unless keep
}

// Exec creates a fresh real pipeline, feeds it as r says and returns the behaviour of the
// files it wrote.  keep leaves the pipeline open (the caller closes it).
func Exec(r Run, u sem.Universe, keep bool) (*Result, error) {
	popt := pipeline.Options{Dir: r.Dir, WatchWithoutClass: r.Opts.WatchWithoutClass,
		DefaultService: r.Opts.DefaultService, BackendShards: r.Opts.BackendShards, NoAutoMeta: true,
		HasGatewayV1: r.Opts.GatewayV1, TCPConfigMapName: r.Opts.TCPConfigMap, HasTCPRouteA2: r.Opts.TCPRouteA2,
		EnableEndpointSlices: r.Opts.EndpointSlices}
	var st *store
	var sc *ShuffleClient
	if r.ShuffleLists {
		scheme := pipeline.NewScheme()
		codecs := serializer.NewCodecFactory(scheme)
		tr := k8stesting.NewObjectTracker(scheme, codecs.UniversalDecoder())
		inner := fake.NewClientBuilder().WithScheme(scheme).WithObjectTracker(tr).Build()
		st = &store{scheme: scheme, tracker: tr, inner: inner, exists: map[string]bool{}}
		sc = NewShuffleClient(inner, r.Seed)
		popt.Client = sc
	}
	p, err := pipeline.NewE(popt)
	if err != nil {
		return nil, err
	}
	if r.Opts.EndpointSlices {
		sc := &sliceCache{Cache: p.ConvOpt.Cache, cli: p.Client}
		if r.Seed != 0 {
			sc.rng = rand.New(rand.NewSource(r.Seed * 31))
		}
		p.ConvOpt.Cache = sc
	}
	res := &Result{}
	apply := func(batch []pipeline.Change) error {
		if st == nil {
			return p.Apply(batch)
		}
		// the pipeline only fires the events; the store is kept in step here, one change
		// after the other, as pipeline.Deliver does with its own store
		p.Last = pipeline.Last{}
		for _, ch := range batch {
			switch ch.Op {
			case pipeline.Delete:
				if err := st.del(ch.Obj); err != nil {
					return err
				}
				p.Deliver([]pipeline.Change{ch})
			default:
				o, err := st.put(ch.Obj)
				if err != nil {
					return err
				}
				p.Deliver([]pipeline.Change{{Op: ch.Op, Obj: o}})
			}
		}
		return p.Reconcile()
	}
	count := func() { res.Reconciliations += len(p.Last.Runs) }
	first := make([]pipeline.Change, 0, len(r.Objs))
	for _, o := range ordered(r.Objs, r.Order) {
		first = append(first, pipeline.Change{Op: pipeline.Create, Obj: o})
	}
	if err := apply(first); err != nil {
		p.Close()
		return nil, fmt.Errorf("first batch: %v", err)
	}
	count()
	if len(r.Batch) > 0 {
		if err := apply(ordered(r.Batch, r.BatchOrder)); err != nil {
			p.Close()
			return nil, fmt.Errorf("second batch: %v", err)
		}
		count()
	}
	nf, err := cfgnorm.Load(p.Dir(), p.Prefix())
	if err != nil {
		p.Close()
		return nil, err
	}
	res.Behaviour = sem.Of(nf, u)
	res.Canon = Canon(res.Behaviour)
	res.ConvLog = p.ConvLog.Take()
	if sc != nil {
		res.Lists = sc.Lists
	}
	if keep {
		res.Pipeline = p
	} else {
		p.Close()
	}
	return res, nil
}

// PermKeepingKeys returns a random order of the changes of a batch in which the events of
// one object keep their relative order (permuting those changes the final cluster).
func PermKeepingKeys(rng *rand.Rand, batch []pipeline.Change) []int {
	n := len(batch)
	perm := rng.Perm(n)
	// positions taken by each key, in increasing order, receive that key's events in
	// their original order
	pos := map[string][]int{}
	for at, i := range perm {
		k := world.Key(batch[i].Obj)
		pos[k] = append(pos[k], at)
	}
	out := make([]int, n)
	next := map[string]int{}
	for i := 0; i < n; i++ {
		k := world.Key(batch[i].Obj)
		out[pos[k][next[k]]] = i
		next[k]++
	}
	return out
}

// ---------------------------------------------------------------- canonical text

var authBackRe = regexp.MustCompile(`_auth_backend\d+_\d+`)

// the number of a path inside its backend (txn.pathID) follows the order in which the
// paths were added; the rules that read it are compared with the ids resolved (cfgnorm)
var pathIDVarRe = regexp.MustCompile(`"txn\.pathID": "path\d+"`)

// Canon renders a behaviour with `_auth_backendNNN_port` (numbered in processing order)
// renamed after the servers and rules of that backend.
func Canon(b *sem.Behaviour) string {
	return pathIDVarRe.ReplaceAllString(canonAuth(b), `"txn.pathID": "<id>"`)
}

func canonAuth(b *sem.Behaviour) string {
	text := b.JSON()
	names := map[string]string{}
	for _, be := range b.Backends {
		if authBackRe.FindString(be.Name) == be.Name {
			rules := authBackRe.ReplaceAllString(strings.Join(be.Rules, ";"), "_auth_backend")
			names[be.Name] = "_auth_backend{" + strings.Join(be.Servers, ",") + "|" + rules + "}"
		}
	}
	if len(names) == 0 {
		return text
	}
	text = authBackRe.ReplaceAllStringFunc(text, func(s string) string {
		if n, ok := names[s]; ok {
			return n
		}
		return s
	})
	// the list of backends is sorted by name: sort it again under the new names
	var c sem.Behaviour = *b
	c.Backends = append([]sem.BackendObs{}, b.Backends...)
	sort.SliceStable(c.Backends, func(i, j int) bool {
		ni, nj := c.Backends[i].Name, c.Backends[j].Name
		if n, ok := names[ni]; ok {
			ni = n
		}
		if n, ok := names[nj]; ok {
			nj = n
		}
		return ni < nj
	})
	text = c.JSON()
	return authBackRe.ReplaceAllStringFunc(text, func(s string) string {
		if n, ok := names[s]; ok {
			return n
		}
		return s
	})
}

// DiffCanon lists up to max differing lines of two canonical texts.
func DiffCanon(a, b string, max int) []string {
	la, lb := strings.Split(a, "\n"), strings.Split(b, "\n")
	ma := map[string]int{}
	for _, l := range la {
		ma[l]++
	}
	mb := map[string]int{}
	for _, l := range lb {
		mb[l]++
	}
	var out []string
	for _, l := range la {
		if mb[l] > 0 {
			mb[l]--
		} else if len(out) < max {
			out = append(out, "first:  "+strings.TrimSpace(l))
		}
	}
	for _, l := range lb {
		if ma[l] > 0 {
			ma[l]--
		} else if len(out) < 2*max {
			out = append(out, "second: "+strings.TrimSpace(l))
		}
	}
	return out
}

// ---------------------------------------------------------------- conflict-prone input

// Hosts / Paths are the pools of the C06 clusters (world pools plus the names the spice uses).
var (
	Hosts = append(append([]string{}, world.Hosts...), "alias.example", "redir.example", "redir2.example", "gw.example")
	Paths = append(append([]string{}, world.Paths...), "/oauth2", "/deny")
)

// Prefixes are the two annotation prefixes the pipeline is configured with, in option order.
var Prefixes = []string{"haproxy-ingress.github.io/", "ingress.kubernetes.io/"}

// SpiceHost are host wide keys (first ingress of a host wins; some are also unique across hosts).
var SpiceHost = [][]string{
	{"redirect-from", "redir.example", "redir.example", "redir2.example"},
	{"redirect-from-regex", `^re[0-9]+\.example$`},
	{"server-alias", "alias.example"},
	{"server-alias-regex", `^al[0-9]+\.example$`},
	{"app-root", "/app", "/api"},
	{"ssl-always-add-https", "true"},
	{"var-namespace", "true"},
	{"auth-tls-secret", "ca", "ns2/ca"},
	{"auth-tls-verify-client", "optional", "on"},
	{"ssl-passthrough", "true"},
	{"ssl-passthrough-http-port", "9000", "http"},
	{"cert-signer", "acme"},
	{"tls-alpn", "h2", "http/1.1"},
}

// SpiceBack are backend / path scoped keys.
var SpiceBack = [][]string{
	{"auth-url", "http://10.9.9.1:8000/auth", "http://10.9.9.2:8000/auth", "http://10.9.9.3:8000/auth", "http://10.9.9.4/auth"},
	{"auth-external-placement", "backend", "frontend"},
	{"auth-secret", "basic", "basic2", "ns2/basic"},
	{"auth-realm", "one", "two"},
	{"oauth", "oauth2_proxy"},
	{"whitelist-source-range", "10.0.0.0/8", "192.168.0.0/16"},
	{"rewrite-target", "/", "/new"},
	{"ssl-redirect", "false", "true"},
	{"limit-rps", "5", "10"},
	{"affinity", "cookie"},
	{"session-cookie-name", "S1", "S2"},
	{"blue-green-deploy", "app=svc1=1,app=svc2=3"},
	{"balance-algorithm", "leastconn", "first"},
	{"proxy-body-size", "1m", "2m"},
	{"cors-enable", "true"},
	{"cors-allow-origin", "https://a.example", "https://b.example"},
	{"hsts", "true", "false"},
	{"hsts-max-age", "100", "200"},
	{"secure-backends", "true"},
	{"backend-protocol", "h2", "h1-ssl"},
	{"timeout-server", "30s", "5s"},
	{"redirect-to", "https://elsewhere.example"},
	{"oauth-uri-prefix", "/oauth2", "/deny"},
	{"auth-url", "svc://svc2:80/auth", "svc://ns2/svc1:80"},
	{"http-header-match", "X-A: 1", "X-B: 2"},
	{"service-upstream", "true"},
	{"backend-server-naming", "pod", "ip"},
	{"assign-backend-server-id", "true"},
	{"session-cookie-strategy", "insert"},
	{"session-cookie-value-strategy", "pod-uid", "server-name"},
	{"agent-check-port", "9999"},
	{"health-check-uri", "/hz"},
	{"use-resolver", "kube"},
	{"waf", "modsecurity"},
	{"denylist-source-range", "10.1.0.0/16"},
	{"allowlist-source-range", "10.2.0.0/16"},
}

// SpiceGlobal are extra keys of the global ConfigMap.
var SpiceGlobal = [][]string{
	{"auth-proxy", "_front__auth:14415-14416", "_front__auth:14415-14415"},
	{"cross-namespace-secrets-passwd", "allow"},
	{"strict-host", "true"},
	{"cross-namespace-services", "allow"},
}

func pick[T any](rng *rand.Rand, xs []T) T { return xs[rng.Intn(len(xs))] }

// PasswdSecret builds an Opaque secret with an `auth` key.
func PasswdSecret(ns, name, users string) *api.Secret {
	s := &api.Secret{}
	s.Namespace, s.Name = ns, name
	s.Type = api.SecretTypeOpaque
	s.Data = map[string][]byte{"auth": []byte(users)}
	return s
}

// GenCluster generates a world cluster and spices it.  level 0 = world only.
func GenCluster(rng *rand.Rand, cfg world.Config, level int) []client.Object {
	if level > 0 {
		cfg.HostPool = Hosts
		cfg.PathPool = Paths
	}
	if level >= 3 {
		// dense: few hosts and paths, every ingress heavily annotated
		cfg.HostPool = []string{"a.example", "b.example", "alias.example", ""}
		cfg.PathPool = []string{"/", "/app", "/app/sub", "/oauth2", "/apix"}
	}
	objs := world.GenCluster(rng, cfg)
	if level == 0 {
		return objs
	}
	// password secrets of basic authentication (distinct users per namespace)
	for i, ns := range world.Namespaces {
		if i < 2 {
			crt, _ := world.Cert("ca-"+ns, "ca-"+ns)
			ca := &api.Secret{}
			ca.Namespace, ca.Name = ns, "ca"
			ca.Data = map[string][]byte{"ca.crt": crt}
			objs = append(objs, ca)
		}
		objs = append(objs, PasswdSecret(ns, "basic", fmt.Sprintf("u%d::pw%d\n", i, i)))
		if rng.Intn(2) == 0 {
			objs = append(objs, PasswdSecret(ns, "basic2", fmt.Sprintf("v%d::pw%d\n", i, i)))
		}
	}
	setAnn := func(o client.Object, k, v string) {
		a := o.GetAnnotations()
		if a == nil {
			a = map[string]string{}
		}
		a[k] = v
		o.SetAnnotations(a)
	}
	for _, o := range objs {
		switch x := o.(type) {
		case *networking.Ingress:
			n := rng.Intn(2 + level)
			if level >= 3 {
				n = 2 + rng.Intn(5)
			}
			for i := 0; i < n; i++ {
				pool := SpiceBack
				if rng.Intn(3) == 0 {
					pool = SpiceHost
				}
				a := pick(rng, pool)
				v := a[1+rng.Intn(len(a)-1)]
				switch rng.Intn(6) {
				case 0: // the second prefix only
					setAnn(x, Prefixes[1]+a[0], v)
				case 1: // both prefixes, possibly distinct values
					setAnn(x, Prefixes[0]+a[0], v)
					setAnn(x, Prefixes[1]+a[0], a[1+rng.Intn(len(a)-1)])
				default:
					setAnn(x, Prefixes[0]+a[0], v)
				}
			}
			if rng.Intn(14) == 0 {
				setAnn(x, Prefixes[0]+"tcp-service-port", pick(rng, []string{"7000", "7001"}))
			}
			if rng.Intn(12) == 0 {
				setAnn(x, Prefixes[0]+"ssl-passthrough", "true")
			}
		case *api.Service:
			if rng.Intn(4) == 0 {
				a := pick(rng, SpiceBack)
				setAnn(x, pick(rng, Prefixes)+a[0], a[1+rng.Intn(len(a)-1)])
			}
		case *api.ConfigMap:
			if rng.Intn(3) == 0 && x.Data != nil {
				a := pick(rng, SpiceGlobal)
				x.Data[a[0]] = a[1+rng.Intn(len(a)-1)]
			}
		}
	}
	// annotation names that collide with a known one under a normalisation the code does
	// not apply (annotation names are case sensitive, "_" is not "-"): another value under
	// such a name must be ignored, not picked by map iteration
	for _, o := range objs {
		switch o.(type) {
		case *networking.Ingress, *api.Service:
			AddNameVariants(rng, o, 3)
		}
	}
	return objs
}

// NameVariants are the names that a normalising reader would identify with prefix+key.
func NameVariants(prefix, key string) []string {
	up := strings.ToUpper(key)
	title := strings.ToUpper(key[:1]) + key[1:]
	parts := strings.Split(key, "-")
	for i := range parts {
		if parts[i] != "" {
			parts[i] = strings.ToUpper(parts[i][:1]) + parts[i][1:]
		}
	}
	camel := strings.Join(parts, "-")
	host := strings.TrimSuffix(prefix, "/")
	return []string{prefix + up, prefix + title, prefix + camel, prefix + strings.ReplaceAll(key, "-", "_"),
		strings.ToUpper(host[:1]) + host[1:] + "/" + key}
}

// AddNameVariants adds, for up to n of the haproxy-ingress annotations of the object (or of
// the usual backend keys when it has none), variant names carrying ANOTHER value.
func AddNameVariants(rng *rand.Rand, o client.Object, oneIn int) {
	a := o.GetAnnotations()
	if oneIn > 1 && rng.Intn(oneIn) != 0 {
		return
	}
	if a == nil {
		a = map[string]string{}
	}
	var names []string
	for k := range a {
		for _, p := range Prefixes {
			if strings.HasPrefix(k, p) && len(k) > len(p) && strings.ToLower(k) == k {
				names = append(names, k)
			}
		}
	}
	sort.Strings(names)
	if len(names) == 0 {
		kv := pick(rng, [][]string{{"balance-algorithm", "leastconn"}, {"maxconn-server", "50"}, {"timeout-server", "30s"}})
		a[Prefixes[0]+kv[0]] = kv[1]
		names = []string{Prefixes[0] + kv[0]}
	}
	for _, name := range names {
		for _, p := range Prefixes {
			if !strings.HasPrefix(name, p) {
				continue
			}
			key := strings.TrimPrefix(name, p)
			other := a[name] + "0"
			for _, pool := range [][][]string{SpiceBack, SpiceHost, world.AnnWhitelist} {
				for _, e := range pool {
					if e[0] == key {
						for _, v := range e[1:] {
							if v != a[name] {
								other = v
							}
						}
					}
				}
			}
			vs := NameVariants(p, key)
			for i, n := 0, 1+rng.Intn(2); i < n; i++ {
				a[vs[rng.Intn(len(vs))]] = other
			}
		}
	}
	o.SetAnnotations(a)
}

// Universe is the request universe of the C06 behaviours.
func Universe() sem.Universe { return sem.DefaultUniverse(Hosts, Paths) }

// AdvIdentities are namespace/name pairs that stress the tie-break key of sortIngress,
// namespace + "/" + name, when the creation stamps are equal: concatenations that collide
// with different splits (a/bc and ab/c, abc/c and ab/cc, a/bcc), one namespace a prefix of
// another, differences only around the separator, names sorting opposite to namespaces.
var AdvIdentities = [][2]string{
	{"a", "bc"}, {"ab", "c"}, {"abc", "c"}, {"ab", "cc"}, {"a", "bcc"}, {"a", "z"}, {"ab", "a"},
	{"a-b", "c"}, {"a", "b-c"}, {"a", "b"},
}

// GenAdversarial generates n ingresses with those identities and one creation stamp, all
// declaring the same host and path with a service of their own namespace, the same host
// with a TLS secret of their own namespace (a distinct certificate per namespace), and an
// app-root of their own; plus the services, endpoints and secrets they use.
func GenAdversarial(rng *rand.Rand, n int) []client.Object {
	var objs []client.Object
	nss := []string{"a", "ab", "abc", "a-b"}
	for i, ns := range nss {
		objs = append(objs, world.Service(ns, "svc1", world.SvcPort{Name: "http", Port: 80, TargetPort: intstr.FromInt(8080)}))
		objs = append(objs, world.Endpoints(ns, "svc1", world.EpPort{Name: "http", Port: 8080, Ready: []string{fmt.Sprintf("10.7.%d.1", i)}}))
		objs = append(objs, world.TLSSecret(ns, "tls-valid", "adv-"+ns+".example", 0))
	}
	perm := rng.Perm(len(AdvIdentities))
	if rng.Intn(2) == 0 {
		// make sure a colliding pair is there
		pairs := [][2]int{{0, 1}, {2, 3}, {2, 4}, {3, 4}}
		pr := pairs[rng.Intn(len(pairs))]
		perm = append([]int{pr[0], pr[1]}, perm...)
	}
	seen := map[int]bool{}
	host := []string{"a.example", "b.example"}[rng.Intn(2)]
	for _, k := range perm {
		if seen[k] || len(seen) >= n {
			continue
		}
		seen[k] = true
		id := AdvIdentities[k]
		ing := world.Ingress(id[0], id[1], 15,
			world.IngRule{Host: host, Paths: []world.IngPath{{Path: "/", Type: "Prefix", Service: "svc1", PortNum: 80}}})
		ing.Spec.TLS = []networking.IngressTLS{{Hosts: []string{host}, SecretName: "tls-valid"}}
		ing.Annotations = map[string]string{Prefixes[0] + "app-root": "/" + id[0] + "_" + id[1]}
		objs = append(objs, ing)
	}
	return objs
}
