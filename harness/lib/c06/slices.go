package c06

// EndpointSlices (discovery.k8s.io/v1) as the source of the endpoints of a service
// (--enable-endpointslices-api).  The cache facade of the new controller does not implement
// GetEndpointSlices (it answers nil: "only exists in legacy controller"), so the harness
// wraps the real cache with the legacy controller's implementation over the same client:
// the slices of the namespace labelled kubernetes.io/service-name=<service>, in the order
// the client lists them -- shuffled in every run but the first.  Everything downstream
// (convutils.CreateEndpoints / createEndpointSlices, the converters, the instance) is real.

import (
	"context"
	"fmt"
	"math/rand"
	"sync"

	api "k8s.io/api/core/v1"
	discoveryv1 "k8s.io/api/discovery/v1"
	metav1 "k8s.io/apimachinery/pkg/apis/meta/v1"
	"sigs.k8s.io/controller-runtime/pkg/client"

	convtypes "github.com/jcmoraisjr/haproxy-ingress/pkg/converters/types"

	"verif/harness/lib/world"
)

type sliceCache struct {
	convtypes.Cache
	cli     client.Client
	mu      sync.Mutex
	rng     *rand.Rand // nil: keep the order of the client
	Queries int
}

// GetEndpointSlices is legacy/cache.go GetEndpointSlices over a controller-runtime client.
func (c *sliceCache) GetEndpointSlices(service *api.Service) ([]*discoveryv1.EndpointSlice, error) {
	var list discoveryv1.EndpointSliceList
	if err := c.cli.List(context.Background(), &list, client.InNamespace(service.Namespace),
		client.MatchingLabels{"kubernetes.io/service-name": service.Name}); err != nil {
		return nil, err
	}
	out := make([]*discoveryv1.EndpointSlice, len(list.Items))
	for i := range list.Items {
		out[i] = &list.Items[i]
	}
	c.mu.Lock()
	c.Queries++
	if c.rng != nil {
		c.rng.Shuffle(len(out), func(i, j int) { out[i], out[j] = out[j], out[i] })
	}
	c.mu.Unlock()
	return out, nil
}

// GenSlices generates 1..3 EndpointSlices for every service of the cluster: the ports of the
// service (several per slice, sometimes only some of them), addresses of a small pool per
// service so that slices overlap, with equal and with different ready / serving /
// terminating conditions, names that sort opposite to the creation order.
func GenSlices(rng *rand.Rand, objs []client.Object) []client.Object {
	var out []client.Object
	tcp := api.ProtocolTCP
	pb := func(v int) *bool {
		switch v {
		case 0:
			return nil
		case 1:
			t := true
			return &t
		}
		f := false
		return &f
	}
	si := 0
	for _, o := range objs {
		svc, ok := o.(*api.Service)
		if !ok {
			continue
		}
		si++
		n := 1 + rng.Intn(3)
		for k := 0; k < n; k++ {
			sl := &discoveryv1.EndpointSlice{ObjectMeta: metav1.ObjectMeta{Namespace: svc.Namespace,
				Name:   fmt.Sprintf("%s-%c", svc.Name, 'z'-byte(k)), // later slices sort first
				Labels: map[string]string{"kubernetes.io/service-name": svc.Name}}}
			sl.AddressType = discoveryv1.AddressTypeIPv4
			sl.CreationTimestamp = world.Stamp(30 + k)
			for _, sp := range svc.Spec.Ports {
				if len(svc.Spec.Ports) > 1 && rng.Intn(5) == 0 {
					continue // this slice does not carry every port
				}
				name := sp.Name
				port := int32(sp.TargetPort.IntValue())
				if port == 0 {
					port = 8000
				}
				sl.Ports = append(sl.Ports, discoveryv1.EndpointPort{Name: &name, Port: &port, Protocol: &tcp})
			}
			for e, m := 0, 1+rng.Intn(3); e < m; e++ {
				ip := fmt.Sprintf("10.20.%d.%d", si%200, 1+rng.Intn(4))
				ready := rng.Intn(3)
				ep := discoveryv1.Endpoint{Addresses: []string{ip},
					Conditions: discoveryv1.EndpointConditions{Ready: pb(ready), Serving: pb(rng.Intn(3)), Terminating: pb(rng.Intn(3))}}
				sl.Endpoints = append(sl.Endpoints, ep)
			}
			out = append(out, sl)
		}
	}
	return out
}
