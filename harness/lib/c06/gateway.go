package c06

// Gateway API objects (v1) for the C06 oracle: one GatewayClass of this controller, one or
// two Gateways with an HTTP listener open to all namespaces, HTTPRoutes of two namespaces
// sharing hostnames and paths (conflicts are resolved by creation time then name:
// gateway.go sortHTTPRoutes), equal creation stamps included.

import (
	"encoding/json"
	"fmt"
	"math/rand"

	discoveryv1 "k8s.io/api/discovery/v1"
	metav1 "k8s.io/apimachinery/pkg/apis/meta/v1"
	"k8s.io/apimachinery/pkg/util/intstr"
	"sigs.k8s.io/controller-runtime/pkg/client"
	gatewayv1 "sigs.k8s.io/gateway-api/apis/v1"
	gatewayv1alpha2 "sigs.k8s.io/gateway-api/apis/v1alpha2"

	"verif/harness/lib/world"
)

// GatewayControllerName is what the pipeline's controller answers to.
const GatewayControllerName = "haproxy-ingress.github.io/controller"

// GenGateways generates the gateway objects for a cluster whose services come from world.
func GenGateways(rng *rand.Rand) []client.Object {
	var objs []client.Object
	objs = append(objs, &gatewayv1.GatewayClass{ObjectMeta: metav1.ObjectMeta{Name: "haproxy-gw"},
		Spec: gatewayv1.GatewayClassSpec{ControllerName: gatewayv1.GatewayController(GatewayControllerName)}})
	from := gatewayv1.NamespacesFromAll
	ngw := 1 + rng.Intn(2)
	for g := 0; g < ngw; g++ {
		gw := &gatewayv1.Gateway{ObjectMeta: metav1.ObjectMeta{Namespace: "ns1", Name: fmt.Sprintf("gw%d", g+1)},
			Spec: gatewayv1.GatewaySpec{GatewayClassName: "haproxy-gw"}}
		gw.CreationTimestamp = world.Stamp([]int{5, 6, 6}[rng.Intn(3)])
		li := gatewayv1.Listener{Name: "http", Port: 80, Protocol: gatewayv1.HTTPProtocolType,
			AllowedRoutes: &gatewayv1.AllowedRoutes{Namespaces: &gatewayv1.RouteNamespaces{From: &from}}}
		if rng.Intn(4) == 0 {
			h := gatewayv1.Hostname("*.example")
			li.Hostname = &h
		}
		gw.Spec.Listeners = append(gw.Spec.Listeners, li)
		objs = append(objs, gw)
	}
	hosts := []string{"a.example", "b.example", "sub.a.example", "gw.example"}
	paths := []string{"/", "/app", "/app/sub", "/api"}
	for r, n := 0, 1+rng.Intn(5); r < n; r++ {
		ns := world.Namespaces[rng.Intn(2)]
		rt := &gatewayv1.HTTPRoute{ObjectMeta: metav1.ObjectMeta{Namespace: ns, Name: fmt.Sprintf("route%d", r+1)}}
		rt.CreationTimestamp = world.Stamp([]int{10, 15, 15, 15, 20}[rng.Intn(5)])
		gwns := gatewayv1.Namespace("ns1")
		for p, m := 0, 1+rng.Intn(ngw); p < m; p++ {
			rt.Spec.ParentRefs = append(rt.Spec.ParentRefs, gatewayv1.ParentReference{Namespace: &gwns,
				Name: gatewayv1.ObjectName(fmt.Sprintf("gw%d", 1+(p+r)%ngw))})
		}
		for h, m := 0, rng.Intn(3); h < m; h++ {
			rt.Spec.Hostnames = append(rt.Spec.Hostnames, gatewayv1.Hostname(hosts[rng.Intn(len(hosts))]))
		}
		for k, m := 0, 1+rng.Intn(2); k < m; k++ {
			rule := gatewayv1.HTTPRouteRule{}
			for q, mm := 0, 1+rng.Intn(2); q < mm; q++ {
				t := []gatewayv1.PathMatchType{gatewayv1.PathMatchPathPrefix, gatewayv1.PathMatchPathPrefix, gatewayv1.PathMatchExact}[rng.Intn(3)]
				v := paths[rng.Intn(len(paths))]
				rule.Matches = append(rule.Matches, gatewayv1.HTTPRouteMatch{Path: &gatewayv1.HTTPPathMatch{Type: &t, Value: &v}})
			}
			for q, mm := 0, 1+rng.Intn(2); q < mm; q++ {
				port := gatewayv1.PortNumber(80)
				w := int32(1 + rng.Intn(3))
				rule.BackendRefs = append(rule.BackendRefs, gatewayv1.HTTPBackendRef{BackendRef: gatewayv1.BackendRef{
					BackendObjectReference: gatewayv1.BackendObjectReference{Name: gatewayv1.ObjectName(world.ServiceNames[rng.Intn(3)]), Port: &port},
					Weight:                 &w}})
			}
			rt.Spec.Rules = append(rt.Spec.Rules, rule)
		}
		objs = append(objs, rt)
	}
	return objs
}

// EncodeObjs / DecodeObjs: world's JSON form plus the gateway kinds.
func EncodeObjs(objs []client.Object) []world.ObjJSON {
	out := make([]world.ObjJSON, len(objs))
	for i, o := range objs {
		kind := ""
		switch o.(type) {
		case *gatewayv1.GatewayClass:
			kind = "GatewayClass"
		case *gatewayv1.Gateway:
			kind = "Gateway"
		case *gatewayv1.HTTPRoute:
			kind = "HTTPRoute"
		case *gatewayv1alpha2.TCPRoute:
			kind = "TCPRoute"
		case *discoveryv1.EndpointSlice:
			kind = "EndpointSlice"
		}
		if kind == "" {
			out[i] = world.EncodeObj(o)
			continue
		}
		b, err := json.Marshal(o)
		if err != nil {
			panic(err)
		}
		out[i] = world.ObjJSON{Kind: kind, Obj: b}
	}
	return out
}

// DecodeObjs is the inverse of EncodeObjs.
func DecodeObjs(js []world.ObjJSON) []client.Object {
	out := make([]client.Object, len(js))
	for i, j := range js {
		var o client.Object
		switch j.Kind {
		case "GatewayClass":
			o = &gatewayv1.GatewayClass{}
		case "Gateway":
			o = &gatewayv1.Gateway{}
		case "HTTPRoute":
			o = &gatewayv1.HTTPRoute{}
		case "TCPRoute":
			o = &gatewayv1alpha2.TCPRoute{}
		case "EndpointSlice":
			o = &discoveryv1.EndpointSlice{}
		default:
			out[i] = world.DecodeObj(j)
			continue
		}
		if err := json.Unmarshal(j.Obj, o); err != nil {
			panic(err)
		}
		out[i] = o
	}
	return out
}

// HasGateway tells whether a cluster has gateway objects.
func HasGateway(objs []client.Object) bool {
	for _, o := range objs {
		switch o.(type) {
		case *gatewayv1.GatewayClass, *gatewayv1.Gateway, *gatewayv1.HTTPRoute, *gatewayv1alpha2.TCPRoute:
			return true
		}
	}
	return false
}

// RouteIdentities are groups of namespace/name pairs for routes created in the same second:
// namespace order opposite to name order (apps/web, billing/api), concatenations colliding
// with different splits, one namespace a prefix of another, differences around the separator.
var RouteIdentities = [][][2]string{
	{{"apps", "web"}, {"billing", "api"}},
	{{"a", "bc"}, {"ab", "c"}},
	{{"a", "z"}, {"ab", "a"}},
	{{"a", "b"}, {"b", "a"}},
	{{"a-b", "c"}, {"a", "b-c"}},
	{{"abc", "c"}, {"ab", "cc"}, {"a", "bcc"}},
	{{"apps", "web"}, {"billing", "api"}, {"a", "z"}, {"b", "a"}},
}

// RouteNamespaces are the namespaces of RouteIdentities.
var RouteNamespaces = []string{"apps", "billing", "a", "ab", "abc", "a-b", "b"}

// GenGatewaysAdversarial generates a GatewayClass, two Gateways (namespace infra; an HTTP and
// a TCP listener, routes from all namespaces), the services of the route namespaces, and
// groups of HTTPRoutes and TCPRoutes with one creation stamp and adversarial identities:
// every route of a group claims the same hostname + path + match (or the same TCP listener)
// with the service of its own namespace, through one or both gateways.
func GenGatewaysAdversarial(rng *rand.Rand, groups int) []client.Object {
	var objs []client.Object
	objs = append(objs, &gatewayv1.GatewayClass{ObjectMeta: metav1.ObjectMeta{Name: "haproxy-gw"},
		Spec: gatewayv1.GatewayClassSpec{ControllerName: gatewayv1.GatewayController(GatewayControllerName)}})
	from := gatewayv1.NamespacesFromAll
	for g, name := range []string{"gw1", "gw2"} {
		gw := &gatewayv1.Gateway{ObjectMeta: metav1.ObjectMeta{Namespace: "infra", Name: name},
			Spec: gatewayv1.GatewaySpec{GatewayClassName: "haproxy-gw"}}
		gw.CreationTimestamp = world.Stamp(5)
		allowed := &gatewayv1.AllowedRoutes{Namespaces: &gatewayv1.RouteNamespaces{From: &from}}
		gw.Spec.Listeners = []gatewayv1.Listener{
			{Name: "http", Port: 80, Protocol: gatewayv1.HTTPProtocolType, AllowedRoutes: allowed},
			{Name: "tcp", Port: gatewayv1.PortNumber(7100 + g), Protocol: gatewayv1.TCPProtocolType, AllowedRoutes: allowed},
		}
		objs = append(objs, gw)
	}
	for i, ns := range RouteNamespaces {
		objs = append(objs, world.Service(ns, "svc1", world.SvcPort{Name: "http", Port: 80, TargetPort: intstr.FromInt(8080)}))
		objs = append(objs, world.Endpoints(ns, "svc1", world.EpPort{Name: "http", Port: 8080, Ready: []string{fmt.Sprintf("10.8.%d.1", i)}}))
	}
	gwns := gatewayv1.Namespace("infra")
	parents := func(section string) []gatewayv1.ParentReference {
		sec := gatewayv1.SectionName(section)
		refs := []gatewayv1.ParentReference{{Namespace: &gwns, Name: "gw1", SectionName: &sec}}
		switch rng.Intn(3) {
		case 0:
			refs = append(refs, gatewayv1.ParentReference{Namespace: &gwns, Name: "gw2", SectionName: &sec})
		case 1:
			refs = []gatewayv1.ParentReference{{Namespace: &gwns, Name: "gw2", SectionName: &sec}, refs[0]}
		}
		return refs
	}
	port := gatewayv1.PortNumber(80)
	used := map[string]bool{}
	hosts := []string{"a.example", "b.example", "gw.example"}
	for g := 0; g < groups; g++ {
		ids := RouteIdentities[rng.Intn(len(RouteIdentities))]
		host := hosts[g%len(hosts)]
		path := []string{"/", "/app"}[rng.Intn(2)]
		mt := []gatewayv1.PathMatchType{gatewayv1.PathMatchPathPrefix, gatewayv1.PathMatchExact}[rng.Intn(2)]
		tcp := rng.Intn(3) == 0
		for _, id := range ids {
			key := fmt.Sprint(tcp, id)
			if used[key] {
				continue
			}
			used[key] = true
			ref := gatewayv1.BackendRef{BackendObjectReference: gatewayv1.BackendObjectReference{Name: "svc1", Port: &port}}
			if tcp {
				rt := &gatewayv1alpha2.TCPRoute{ObjectMeta: metav1.ObjectMeta{Namespace: id[0], Name: id[1]}}
				rt.CreationTimestamp = world.Stamp(15)
				rt.Spec.ParentRefs = parents("tcp")
				rt.Spec.Rules = []gatewayv1alpha2.TCPRouteRule{{BackendRefs: []gatewayv1.BackendRef{ref}}}
				objs = append(objs, rt)
				continue
			}
			rt := &gatewayv1.HTTPRoute{ObjectMeta: metav1.ObjectMeta{Namespace: id[0], Name: id[1]}}
			rt.CreationTimestamp = world.Stamp(15)
			rt.Spec.ParentRefs = parents("http")
			rt.Spec.Hostnames = []gatewayv1.Hostname{gatewayv1.Hostname(host)}
			p, t := path, mt
			rt.Spec.Rules = []gatewayv1.HTTPRouteRule{{
				Matches:     []gatewayv1.HTTPRouteMatch{{Path: &gatewayv1.HTTPPathMatch{Type: &t, Value: &p}}},
				BackendRefs: []gatewayv1.HTTPBackendRef{{BackendRef: ref}}}}
			objs = append(objs, rt)
		}
	}
	return objs
}
