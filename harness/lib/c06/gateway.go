package c06

// Gateway API objects (v1) for the C06 oracle: one GatewayClass of this controller, one or
// two Gateways with an HTTP listener open to all namespaces, HTTPRoutes of two namespaces
// sharing hostnames and paths (conflicts are resolved by creation time then name:
// gateway.go sortHTTPRoutes), equal creation stamps included.

import (
	"encoding/json"
	"fmt"
	"math/rand"

	metav1 "k8s.io/apimachinery/pkg/apis/meta/v1"
	"sigs.k8s.io/controller-runtime/pkg/client"
	gatewayv1 "sigs.k8s.io/gateway-api/apis/v1"

	"verif/harness/lib/world"
)

// GatewayControllerName is what the pipeline's controller answers to.
const GatewayControllerName = "haproxy-ingress.github.io/controller"

// GenGateways generates the gateway objects for a cluster whose services come from world.
func GenGateways(rng *rand.Rand) []client.Object {
	var objs []client.Object
	objs = append(objs, &gatewayv1.GatewayClass{ObjectMeta: metav1.ObjectMeta{Name: "haproxy-gw"},
		Spec: gatewayv1.GatewayClassSpec{ControllerName: gatewayv1.GatewayController(GatewayControllerName)}})
	from := gatewayv1.NamespacesFromAll
	ngw := 1 + rng.Intn(2)
	for g := 0; g < ngw; g++ {
		gw := &gatewayv1.Gateway{ObjectMeta: metav1.ObjectMeta{Namespace: "ns1", Name: fmt.Sprintf("gw%d", g+1)},
			Spec: gatewayv1.GatewaySpec{GatewayClassName: "haproxy-gw"}}
		gw.CreationTimestamp = world.Stamp([]int{5, 6, 6}[rng.Intn(3)])
		li := gatewayv1.Listener{Name: "http", Port: 80, Protocol: gatewayv1.HTTPProtocolType,
			AllowedRoutes: &gatewayv1.AllowedRoutes{Namespaces: &gatewayv1.RouteNamespaces{From: &from}}}
		if rng.Intn(4) == 0 {
			h := gatewayv1.Hostname("*.example")
			li.Hostname = &h
		}
		gw.Spec.Listeners = append(gw.Spec.Listeners, li)
		objs = append(objs, gw)
	}
	hosts := []string{"a.example", "b.example", "sub.a.example", "gw.example"}
	paths := []string{"/", "/app", "/app/sub", "/api"}
	for r, n := 0, 1+rng.Intn(5); r < n; r++ {
		ns := world.Namespaces[rng.Intn(2)]
		rt := &gatewayv1.HTTPRoute{ObjectMeta: metav1.ObjectMeta{Namespace: ns, Name: fmt.Sprintf("route%d", r+1)}}
		rt.CreationTimestamp = world.Stamp([]int{10, 15, 15, 15, 20}[rng.Intn(5)])
		gwns := gatewayv1.Namespace("ns1")
		for p, m := 0, 1+rng.Intn(ngw); p < m; p++ {
			rt.Spec.ParentRefs = append(rt.Spec.ParentRefs, gatewayv1.ParentReference{Namespace: &gwns,
				Name: gatewayv1.ObjectName(fmt.Sprintf("gw%d", 1+(p+r)%ngw))})
		}
		for h, m := 0, rng.Intn(3); h < m; h++ {
			rt.Spec.Hostnames = append(rt.Spec.Hostnames, gatewayv1.Hostname(hosts[rng.Intn(len(hosts))]))
		}
		for k, m := 0, 1+rng.Intn(2); k < m; k++ {
			rule := gatewayv1.HTTPRouteRule{}
			for q, mm := 0, 1+rng.Intn(2); q < mm; q++ {
				t := []gatewayv1.PathMatchType{gatewayv1.PathMatchPathPrefix, gatewayv1.PathMatchPathPrefix, gatewayv1.PathMatchExact}[rng.Intn(3)]
				v := paths[rng.Intn(len(paths))]
				rule.Matches = append(rule.Matches, gatewayv1.HTTPRouteMatch{Path: &gatewayv1.HTTPPathMatch{Type: &t, Value: &v}})
			}
			for q, mm := 0, 1+rng.Intn(2); q < mm; q++ {
				port := gatewayv1.PortNumber(80)
				w := int32(1 + rng.Intn(3))
				rule.BackendRefs = append(rule.BackendRefs, gatewayv1.HTTPBackendRef{BackendRef: gatewayv1.BackendRef{
					BackendObjectReference: gatewayv1.BackendObjectReference{Name: gatewayv1.ObjectName(world.ServiceNames[rng.Intn(3)]), Port: &port},
					Weight:                 &w}})
			}
			rt.Spec.Rules = append(rt.Spec.Rules, rule)
		}
		objs = append(objs, rt)
	}
	return objs
}

// EncodeObjs / DecodeObjs: world's JSON form plus the gateway kinds.
func EncodeObjs(objs []client.Object) []world.ObjJSON {
	out := make([]world.ObjJSON, len(objs))
	for i, o := range objs {
		kind := ""
		switch o.(type) {
		case *gatewayv1.GatewayClass:
			kind = "GatewayClass"
		case *gatewayv1.Gateway:
			kind = "Gateway"
		case *gatewayv1.HTTPRoute:
			kind = "HTTPRoute"
		}
		if kind == "" {
			out[i] = world.EncodeObj(o)
			continue
		}
		b, err := json.Marshal(o)
		if err != nil {
			panic(err)
		}
		out[i] = world.ObjJSON{Kind: kind, Obj: b}
	}
	return out
}

// DecodeObjs is the inverse of EncodeObjs.
func DecodeObjs(js []world.ObjJSON) []client.Object {
	out := make([]client.Object, len(js))
	for i, j := range js {
		var o client.Object
		switch j.Kind {
		case "GatewayClass":
			o = &gatewayv1.GatewayClass{}
		case "Gateway":
			o = &gatewayv1.Gateway{}
		case "HTTPRoute":
			o = &gatewayv1.HTTPRoute{}
		default:
			out[i] = world.DecodeObj(j)
			continue
		}
		if err := json.Unmarshal(j.Obj, o); err != nil {
			panic(err)
		}
		out[i] = o
	}
	return out
}

// HasGateway tells whether a cluster has gateway objects.
func HasGateway(objs []client.Object) bool {
	for _, o := range objs {
		switch o.(type) {
		case *gatewayv1.GatewayClass, *gatewayv1.Gateway, *gatewayv1.HTTPRoute:
			return true
		}
	}
	return false
}
