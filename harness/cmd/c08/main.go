// c08: correspondence and oracle for C08 (only Ingresses classified for this
// controller are ever configured).
//
// Three kinds of inputs, all run on the real code of /repo:
//   - decide: a cluster of IngressClasses and Ingresses; observes IsValidIngress,
//     GetIngress and GetIngressList of the real cache facade (fake client);
//   - events: a raw stream of create/update/delete events (also incoherent ones) given
//     to the real watchers; observes the batch (add/upd/del lists, links, notifications);
//   - watch: client operations (put/delete/reconcile) applied to the fake cluster, the
//     matching events delivered to the real watchers, every reconcile runs the real
//     converters (partial sync) over the real haproxy model; observes each batch and
//     which ingresses have their host configured;
//   - classev (oracle only): as watch, plus IngressClass create/update/delete.
//
// The oracle re-implements the documented rule and compares it with the real decision
// and with the set of configured hosts; no model is involved.
package main

import (
	"encoding/json"
	"flag"
	"fmt"
	"math/rand"
	"os"
	"path/filepath"
	"sort"
	"strings"

	networking "k8s.io/api/networking/v1"
	"k8s.io/apimachinery/pkg/types"
	"sigs.k8s.io/controller-runtime/pkg/client"

	"github.com/jcmoraisjr/haproxy-ingress/pkg/common/ingress/controller"
	"github.com/jcmoraisjr/haproxy-ingress/pkg/controller/legacy"
	convtypes "github.com/jcmoraisjr/haproxy-ingress/pkg/converters/types"

	"verif/harness/lib/c0809"
	"verif/harness/lib/hx"
)

const oursCtrl = "haproxy-ingress.github.io/controller"

type classIn struct {
	Name       string `json:"name"`
	Controller string `json:"controller"`
	Params     bool   `json:"params,omitempty"`
	Meta       int    `json:"meta,omitempty"` // 1 = annotated ingressclass.kubernetes.io/is-default-class: "true" (metadata only)
}

func mkClass(c classIn) *networking.IngressClass {
	obj := c0809.IngressClass(c.Name, c.Controller, c.Params)
	if c.Meta > 0 {
		obj.Annotations = map[string]string{"ingressclass.kubernetes.io/is-default-class": "true"}
	}
	return obj
}

func coqIClass(c classIn, gen int) string {
	params := 0
	if c.Params {
		params = 1
	}
	return fmt.Sprintf("{| k_name := %s; k_ctrl := %s; k_params := %s; k_meta := %s; k_gen := %s |}", hx.Str(c.Name), hx.Str(c.Controller), hx.N(params), hx.N(c.Meta), hx.N(gen))
}

type ingIn struct {
	Name  string  `json:"name"` // namespace/name
	Ann   *string `json:"ann"`
	Class *string `json:"class"`
	OAnn  int     `json:"oann,omitempty"`
	Spec  int     `json:"spec,omitempty"`
	Gen   int     `json:"gen,omitempty"` // only used by raw events
	// Shape of the ingress: "" = http rule; tcp-rule = tcp-service-port annotation, backend in a rule
	// with the root path; tcp-default = tcp-service-port, backend only in spec.defaultBackend;
	// tcp-default-tls = the same plus a tls block
	Shape string `json:"shape,omitempty"`
}

var tcpPorts = map[string]int{"a/i1": 7001, "a/i2": 7002, "b/i3": 7003}

func shapeIdx(s string) int {
	return map[string]int{"": 0, "tcp-rule": 1, "tcp-default": 2, "tcp-default-tls": 3}[s]
}

// what the model sees of the other annotations and of the rest of the spec
func effOAnn(i ingIn) int {
	if i.Shape != "" {
		return i.OAnn + 10
	}
	return i.OAnn
}
func effSpec(i ingIn) int { return i.Spec + 10*shapeIdx(i.Shape) }

func svcOf(n string) string { _, name := splitName(n); return "svc-" + name }

type opIn struct {
	Op    string   `json:"op"` // put | del | swap | putclass | delclass | create | update | delete
	Ing   *ingIn   `json:"ing,omitempty"`
	Old   *ingIn   `json:"old,omitempty"`
	Name  string   `json:"name,omitempty"`
	Class *classIn `json:"class,omitempty"`
}

type input struct {
	Kind    string       `json:"kind"`
	Cfg     c0809.CfgIn  `json:"cfg"`
	Classes []classIn    `json:"classes"`
	Ings    []ingIn      `json:"ings,omitempty"`
	Ops     []opIn       `json:"ops,omitempty"`
}

func sp(s string) *string { return &s }

// ---------- the documented rule, in Go (the oracle) ----------

func docSelected(cfg c0809.CfgIn, classes []classIn, ann, class *string) bool {
	annSel := ann != nil && *ann == cfg.IngressClass
	clsSel := false
	if class != nil {
		for _, c := range classes {
			if c.Name == *class && c.Controller == cfg.ControllerName {
				clsSel = true
			}
		}
	}
	switch {
	case ann == nil && class == nil:
		return cfg.Watch
	case ann != nil && class == nil:
		return annSel
	case ann == nil && class != nil:
		return clsSel
	default:
		if annSel == clsSel {
			return annSel
		}
		if cfg.Prec {
			return clsSel
		}
		return annSel
	}
}

// an ingressClassName the API server would admit (DNS subdomain): no '/'
func reachableClassName(class *string) bool {
	return class == nil || !strings.Contains(*class, "/")
}

// ---------- building objects ----------

func splitName(n string) (string, string) {
	p := strings.SplitN(n, "/", 2)
	return p[0], p[1]
}

func hostOf(n string) string { return strings.Replace(n, "/", "-", 1) + ".local" }

func mkIngress(in ingIn, gen int64) *networking.Ingress {
	ns, name := splitName(in.Name)
	ann := map[string]string{}
	if in.Ann != nil {
		ann[c0809.ClassAnn] = *in.Ann
	}
	if in.OAnn > 0 {
		ann["example.com/other"] = fmt.Sprint(in.OAnn)
	}
	if len(ann) == 0 && in.OAnn%2 == 0 {
		ann = nil // nil and empty maps are equal for the predicate
	}
	if in.Shape != "" {
		if ann == nil {
			ann = map[string]string{}
		}
		ann["haproxy-ingress.github.io/tcp-service-port"] = fmt.Sprint(tcpPorts[in.Name])
	}
	host := hostOf(in.Name)
	if in.Shape != "" {
		host = ""
	}
	ing := c0809.Ingress(ns, name, ann, in.Class, host, svcOf(in.Name), 8080)
	switch in.Shape {
	case "":
		if in.Spec > 0 {
			ing.Spec.Rules[0].HTTP.Paths[0].Path = fmt.Sprintf("/s%d", in.Spec)
		}
	case "tcp-rule":
		if in.Spec > 0 {
			ing.Labels = nil
			ing.Spec.Rules[0].HTTP.Paths[0].Path = ""
		}
	default:
		ing.Spec.Rules = nil
		ing.Spec.DefaultBackend = &networking.IngressBackend{Service: &networking.IngressServiceBackend{Name: svcOf(in.Name), Port: networking.ServiceBackendPort{Number: 8080}}}
		if in.Shape == "tcp-default-tls" {
			ing.Spec.TLS = []networking.IngressTLS{{}}
		}
	}
	ing.Generation = gen
	return ing
}

func baseObjects(classes []classIn) []client.Object {
	var objs []client.Object
	for _, c := range classes {
		objs = append(objs, mkClass(c))
	}
	// one service per ingress name: ingresses share neither hosts nor backends, so what the tracker
	// reaches from an IngressClass name are the ingresses linked to it and nothing else
	for _, n := range []string{"a/i1", "a/i2", "b/i3"} {
		ns, _ := splitName(n)
		svc, ep := c0809.Service(ns, svcOf(n), 8080, "172.17.0.11", nil)
		objs = append(objs, svc, ep)
	}
	for _, ns := range []string{"a", "b"} {
		svc, ep := c0809.Service(ns, "svc", 8080, "172.17.0.12", nil)
		objs = append(objs, svc, ep)
	}
	return objs
}

// ---------- Coq printing ----------

func coqOptStr(s *string) string {
	if s == nil {
		return "None"
	}
	return "(Some " + hx.Str(*s) + ")"
}

func coqCfg(c c0809.CfgIn) string {
	return fmt.Sprintf("{| c_class := %s; c_controller := %s; c_watch := %s; c_prec := %s |}",
		hx.Str(c.IngressClass), hx.Str(c.ControllerName), hx.Bool(c.Watch), hx.Bool(c.Prec))
}

func coqClasses(cs []classIn) string {
	var l []string
	for _, c := range cs {
		l = append(l, hx.Tuple(hx.Str(c.Name), hx.Str(c.Controller)))
	}
	return hx.List(l)
}

func coqIng(in ingIn, gen, rv int) string {
	return fmt.Sprintf("{| i_name := %s; i_ann := %s; i_cls := %s; i_oann := %s; i_spec := %s; i_gen := %s; i_rv := %s |}",
		hx.Str(in.Name), coqOptStr(in.Ann), coqOptStr(in.Class), hx.N(effOAnn(in)), hx.N(effSpec(in)), hx.N(gen), hx.N(rv))
}

type obsBatch struct {
	Add, Upd, Del []string // "name@rv"
	Links         []string
	CLinks        []string // Links[IngressClass]
	Notes         int
}

func coqNameRv(l []string) string {
	var out []string
	for _, s := range l {
		p := strings.Split(s, "@")
		var rv int
		fmt.Sscan(p[1], &rv)
		out = append(out, hx.Tuple(hx.Str(p[0]), hx.N(rv)))
	}
	return hx.List(out)
}

func coqStrs(l []string) string {
	var out []string
	for _, s := range l {
		out = append(out, hx.Str(s))
	}
	return hx.List(out)
}

func coqBatch(b obsBatch) string {
	return fmt.Sprintf("{| ob_add := %s; ob_upd := %s; ob_del := %s; ob_links := %s; ob_notes := %s |}",
		coqNameRv(b.Add), coqNameRv(b.Upd), coqNameRv(b.Del), coqStrs(b.Links), hx.N(b.Notes))
}

// ---------- runners ----------

var workDir string
var envSeq int

func newEnv(cfg c0809.CfgIn, classes []classIn) *c0809.Env {
	envSeq++
	// a handful of scratch directories are reused: only the fake certificate lives there
	return c0809.NewEnv(filepath.Join(workDir, fmt.Sprintf("env%d", envSeq%8)), cfg, baseObjects(classes)...)
}

type decideObs struct {
	Valid []bool   `json:"valid"`
	Get   []bool   `json:"get"`
	List  []string `json:"list"`
	// the same three observations on the legacy controller's cache
	LValid []bool   `json:"legacy_valid"`
	LGet   []bool   `json:"legacy_get"`
	LList  []string `json:"legacy_list"`
}

func runDecide(in input) decideObs {
	env := newEnv(in.Cfg, in.Classes)
	var obs decideObs
	var objs []*networking.Ingress
	for _, i := range in.Ings {
		o := mkIngress(i, 1)
		objs = append(objs, o)
		c0809.Must(env.Client.Create(env.Ctx, o.DeepCopy()))
	}
	for k, i := range in.Ings {
		obs.Valid = append(obs.Valid, env.Cache.IsValidIngress(objs[k]))
		got, err := env.Cache.GetIngress(i.Name)
		obs.Get = append(obs.Get, err == nil && got != nil)
	}
	list, err := env.Cache.GetIngressList()
	c0809.Must(err)
	for _, l := range list {
		obs.List = append(obs.List, l.Namespace+"/"+l.Name)
	}
	sort.Strings(obs.List)

	// legacy controller: its own copy of the decision behind client-go listers
	var lclasses []*networking.IngressClass
	for _, c := range in.Classes {
		lclasses = append(lclasses, c0809.IngressClass(c.Name, c.Controller, c.Params))
	}
	lc := legacy.VerifNewLegacyCache(&c0809.Logger{}, &controller.Configuration{
		IngressClass:             in.Cfg.IngressClass,
		ControllerName:           in.Cfg.ControllerName,
		WatchIngressWithoutClass: in.Cfg.Watch,
		IngressClassPrecedence:   in.Cfg.Prec,
	}, &convtypes.DynamicConfig{}, lclasses, objs)
	for k, i := range in.Ings {
		obs.LValid = append(obs.LValid, lc.IsValidIngress(objs[k]))
		got, err := lc.GetIngress(i.Name)
		obs.LGet = append(obs.LGet, err == nil && got != nil)
	}
	llist, err := lc.GetIngressList()
	c0809.Must(err)
	for _, l := range llist {
		obs.LList = append(obs.LList, l.Namespace+"/"+l.Name)
	}
	sort.Strings(obs.LList)
	return obs
}

type tracked struct {
	rv  map[*networking.Ingress]int
	gen map[*networking.Ingress]int
}

func (t *tracked) ids(l []*networking.Ingress) []string {
	var out []string
	for _, i := range l {
		out = append(out, fmt.Sprintf("%s/%s@%d", i.Namespace, i.Name, t.rv[i]))
	}
	return out
}

func takeBatch(p *c0809.Pipeline, t *tracked) (obsBatch, *convtypes.ChangedObjects) {
	notes := len(p.Watchers.Notifications())
	ch := p.Watchers.Swap()
	b := obsBatch{Add: t.ids(ch.IngressesAdd), Upd: t.ids(ch.IngressesUpd), Del: t.ids(ch.IngressesDel), Notes: notes}
	b.Links = append(b.Links, ch.Links["Ingress"]...)
	b.CLinks = append(b.CLinks, ch.Links["IngressClass"]...)
	return b, ch
}

// raw events through the real watchers, one batch
func runEvents(in input) (obsBatch, []string) {
	env := newEnv(in.Cfg, in.Classes)
	p := c0809.NewPipeline(env)
	t := &tracked{rv: map[*networking.Ingress]int{}}
	var terms []string
	rv := 0
	mk := func(i *ingIn) (*networking.Ingress, string) {
		rv++
		o := mkIngress(*i, int64(i.Gen))
		t.rv[o] = rv
		return o, coqIng(*i, i.Gen, rv)
	}
	for _, op := range in.Ops {
		switch op.Op {
		case "create":
			o, s := mk(op.Ing)
			p.Watchers.FireCreate(o)
			terms = append(terms, "WCreate "+s)
		case "update":
			oo, so := mk(op.Old)
			on, sn := mk(op.Ing)
			p.Watchers.FireUpdate(oo, on)
			terms = append(terms, "WUpdate "+so+" "+sn)
		case "delete":
			o, s := mk(op.Ing)
			p.Watchers.FireDelete(o)
			terms = append(terms, "WDelete "+s)
		}
	}
	b, _ := takeBatch(p, t)
	return b, terms
}

type watchStep struct {
	Batch obsBatch `json:"batch"`
	View  []string `json:"view"`
	// configured ingresses with an ingressClassName that the tracker reaches from that IngressClass name
	Linked []string `json:"linked"`
	Log    []string `json:"log,omitempty"` // converter warnings, never compared
	// names selected by the documented rule at this point (oracle side)
	Want []string `json:"want"`
}

// client operations + reconciliations through the real watchers and converters
func runWatch(in input) (steps []watchStep, terms []string, terms2 []string) {
	classes := append([]classIn{}, in.Classes...)
	env := newEnv(in.Cfg, classes)
	p := c0809.NewPipeline(env)
	t := &tracked{rv: map[*networking.Ingress]int{}}
	cur := map[string]*networking.Ingress{}
	curIn := map[string]ingIn{}
	rv := 1
	for _, op := range in.Ops {
		switch op.Op {
		case "put":
			i := *op.Ing
			terms2 = append(terms2, "IPut "+coqIng(i, 0, 0))
			old := cur[i.Name]
			if old == nil {
				o := mkIngress(i, 1)
				t.rv[o] = rv
				rv++
				c0809.Must(env.Client.Create(env.Ctx, o.DeepCopy()))
				cur[i.Name], curIn[i.Name] = o, i
				p.Watchers.FireCreate(o)
			} else {
				// the API server increments metadata.generation when the spec changes
				oi := curIn[i.Name]
				gen := old.Generation
				sameClass := (oi.Class == nil) == (i.Class == nil) && (i.Class == nil || *oi.Class == *i.Class)
				if !sameClass || effSpec(oi) != effSpec(i) {
					gen++
				}
				o := mkIngress(i, gen)
				t.rv[o] = rv
				rv++
				stored := &networking.Ingress{}
				c0809.Must(env.Client.Get(env.Ctx, types.NamespacedName{Namespace: o.Namespace, Name: o.Name}, stored))
				upd := o.DeepCopy()
				upd.ResourceVersion = stored.ResourceVersion
				c0809.Must(env.Client.Update(env.Ctx, upd))
				cur[i.Name], curIn[i.Name] = o, i
				p.Watchers.FireUpdate(old, o)
			}
			terms = append(terms, "OPut "+coqIng(i, 0, 0))
		case "del":
			if old := cur[op.Name]; old != nil {
				c0809.Must(env.Client.Delete(env.Ctx, old.DeepCopy()))
				delete(cur, op.Name)
				delete(curIn, op.Name)
				p.Watchers.FireDelete(old)
			}
			terms = append(terms, "ODelete "+hx.Str(op.Name))
			terms2 = append(terms2, "IDelete "+hx.Str(op.Name))
		case "putclass":
			c := *op.Class
			terms2 = append(terms2, "KPut "+coqIClass(c, 0))
			obj := mkClass(c)
			idx := -1
			for k := range classes {
				if classes[k].Name == c.Name {
					idx = k
				}
			}
			if idx < 0 {
				c0809.Must(env.Client.Create(env.Ctx, obj.DeepCopy()))
				classes = append(classes, c)
				p.Watchers.FireCreate(obj)
			} else {
				stored := &networking.IngressClass{}
				c0809.Must(env.Client.Get(env.Ctx, types.NamespacedName{Name: c.Name}, stored))
				old := stored.DeepCopy()
				upd := obj.DeepCopy()
				upd.ResourceVersion = stored.ResourceVersion
				// the API server increments metadata.generation when the spec changes
				upd.Generation = stored.Generation
				if classes[idx].Controller != c.Controller || classes[idx].Params != c.Params {
					upd.Generation++
				}
				c0809.Must(env.Client.Update(env.Ctx, upd))
				classes[idx] = c
				p.Watchers.FireUpdate(old, upd)
			}
		case "delclass":
			terms2 = append(terms2, "KDel "+hx.Str(op.Name))
			for k := range classes {
				if classes[k].Name == op.Name {
					stored := &networking.IngressClass{}
					c0809.Must(env.Client.Get(env.Ctx, types.NamespacedName{Name: op.Name}, stored))
					c0809.Must(env.Client.Delete(env.Ctx, stored.DeepCopy()))
					classes = append(classes[:k:k], classes[k+1:]...)
					p.Watchers.FireDelete(stored)
					break
				}
			}
		case "swap":
			b, ch := takeBatch(p, t)
			var view []string
			p.Reconcile(ch, func() {
				for _, h := range p.Hostnames() {
					for n := range cur {
						if hostOf(n) == h {
							view = append(view, n)
						}
					}
					// hosts of ingresses that do not exist any more
					if !knownHost(cur, h) {
						view = append(view, strings.Replace(strings.TrimSuffix(h, ".local"), "-", "/", 1))
					}
				}
				// tcp services: a port with a backend is the configuration of the ingress that owns the port
				for port, tp := range p.HAProxy.TCPServices().Items() {
					used := false
					if dh := tp.DefaultHost(); dh != nil && !dh.Backend.IsEmpty() {
						used = true
					}
					for _, th := range tp.Hosts() {
						if !th.Backend.IsEmpty() {
							used = true
						}
					}
					if used {
						for n, pn := range tcpPorts {
							if pn == port {
								view = append(view, n)
							}
						}
					}
				}
			})
			// the premise of the model: every converted ingress that names an IngressClass is linked to it
			var linked []string
			for _, n := range view {
				if i, ok := curIn[n]; ok && i.Class != nil {
					reach := env.Tracker.QueryLinks(convtypes.TrackingLinks{convtypes.ResourceIngressClass: []string{*i.Class}}, false)
					for _, x := range reach[convtypes.ResourceIngress] {
						if x == n {
							linked = append(linked, n)
						}
					}
				}
			}
			sort.Strings(linked)
			sort.Strings(view)
			var want []string
			for n, i := range curIn {
				if docSelected(in.Cfg, classes, i.Ann, i.Class) {
					want = append(want, n)
				}
			}
			sort.Strings(want)
			steps = append(steps, watchStep{Batch: b, View: view, Linked: linked, Want: want, Log: p.Log.Take()})
			terms = append(terms, "OSwap")
			terms2 = append(terms2, "ISwap []")
		}
	}
	return steps, terms, terms2
}


func knownHost(cur map[string]*networking.Ingress, h string) bool {
	for n := range cur {
		if hostOf(n) == h {
			return true
		}
	}
	return false
}

// ---------- generators ----------

var annPool = []*string{nil, nil, sp("haproxy"), sp("haproxy"), sp("nginx"), sp(""), sp("HAProxy"), sp("haproxy "), sp("hap"), sp("custom")}
var classPoolNames = []*string{nil, nil, sp("hap"), sp("hap-params"), sp("other"), sp("other-case"), sp("staging"), sp("empty-ctrl"),
	sp("missing"), sp(""), sp("HAP"), sp("a/hap"), sp("/hap"), sp("hap/"), sp("a/b/c"), sp("hap ")}
var reachableClassPool = []*string{nil, nil, sp("hap"), sp("hap-params"), sp("other"), sp("staging"), sp("missing"), sp("late")}
var cfgClassPool = []string{"haproxy", "haproxy", "haproxy", "custom", ""}
var ctrlPool = []string{oursCtrl, oursCtrl, oursCtrl + "/staging"}

func allClasses() []classIn {
	return []classIn{
		{Name: "hap", Controller: oursCtrl},
		{Name: "hap-params", Controller: oursCtrl, Params: true},
		{Name: "other", Controller: "example.com/ingress"},
		{Name: "other-case", Controller: "HAProxy-Ingress.github.io/controller"},
		{Name: "staging", Controller: oursCtrl + "/staging"},
		{Name: "empty-ctrl", Controller: ""},
	}
}

func genClasses(rng *rand.Rand) []classIn {
	var out []classIn
	for _, c := range allClasses() {
		if rng.Intn(4) != 0 {
			out = append(out, c)
		}
	}
	return out
}

func genCfg(rng *rand.Rand) c0809.CfgIn {
	return c0809.CfgIn{
		IngressClass:   cfgClassPool[rng.Intn(len(cfgClassPool))],
		ControllerName: ctrlPool[rng.Intn(len(ctrlPool))],
		Watch:          rng.Intn(2) == 0,
		Prec:           rng.Intn(2) == 0,
	}
}

var namePool = []string{"a/i1", "a/i2", "b/i3"}

func genIng(rng *rand.Rand, name string, classPool []*string) ingIn {
	i := ingIn{Name: name, Ann: annPool[rng.Intn(len(annPool))], Class: classPool[rng.Intn(len(classPool))]}
	if rng.Intn(3) == 0 {
		i.OAnn = rng.Intn(3)
	}
	if rng.Intn(3) == 0 {
		i.Spec = rng.Intn(3)
	}
	if _, ok := tcpPorts[name]; ok && rng.Intn(5) < 2 {
		i.Shape = []string{"tcp-rule", "tcp-default", "tcp-default", "tcp-default-tls"}[rng.Intn(4)]
	}
	return i
}

// the 3 x 4 x 2 x 2 rows, each with several spellings, on the default names
func gridDecide() []input {
	var out []input
	anns := [][]*string{{nil}, {sp("haproxy")}, {sp("nginx"), sp(""), sp("HAPROXY"), sp("haproxy ")}}
	clss := [][]*string{{nil}, {sp("hap"), sp("hap-params")}, {sp("other"), sp("other-case"), sp("staging"), sp("empty-ctrl")},
		{sp("missing"), sp(""), sp("HAP"), sp("a/hap"), sp("a/b/c"), sp("hap/"), sp("/hap")}}
	for _, w := range []bool{false, true} {
		for _, pr := range []bool{false, true} {
			for _, as := range anns {
				for _, cs := range clss {
					in := input{Kind: "decide", Cfg: c0809.CfgIn{IngressClass: "haproxy", ControllerName: oursCtrl, Watch: w, Prec: pr}, Classes: allClasses()}
					k := 0
					for _, a := range as {
						for _, c := range cs {
							k++
							in.Ings = append(in.Ings, ingIn{Name: fmt.Sprintf("a/g%02d", k), Ann: a, Class: c})
						}
					}
					out = append(out, in)
				}
			}
		}
	}
	return out
}

func genDecide(rng *rand.Rand) input {
	in := input{Kind: "decide", Cfg: genCfg(rng), Classes: genClasses(rng)}
	n := 1 + rng.Intn(6)
	for k := 0; k < n; k++ {
		ns := "a"
		if rng.Intn(3) == 0 {
			ns = "b"
		}
		in.Ings = append(in.Ings, genIng(rng, fmt.Sprintf("%s/r%d", ns, k), classPoolNames))
	}
	return in
}

func genEvents(rng *rand.Rand) input {
	in := input{Kind: "events", Cfg: genCfg(rng), Classes: genClasses(rng)}
	n := 1 + rng.Intn(7)
	for k := 0; k < n; k++ {
		name := namePool[rng.Intn(len(namePool))]
		a := genIng(rng, name, classPoolNames)
		a.Gen = 1 + rng.Intn(3)
		switch rng.Intn(4) {
		case 0:
			in.Ops = append(in.Ops, opIn{Op: "create", Ing: &a})
		case 1:
			in.Ops = append(in.Ops, opIn{Op: "delete", Ing: &a})
		default:
			b := genIng(rng, name, classPoolNames)
			b.Gen = a.Gen
			switch rng.Intn(4) {
			case 0: // nothing the predicates look at changes
				b = a
			case 1: // incoherent: the spec may change without a new generation
			default:
				b.Gen = a.Gen + rng.Intn(2)
			}
			in.Ops = append(in.Ops, opIn{Op: "update", Old: &a, Ing: &b})
		}
	}
	return in
}

func genWatch(rng *rand.Rand, classEvents bool, swapEvery int) input {
	in := input{Kind: "watch", Cfg: genCfg(rng), Classes: genClasses(rng)}
	if classEvents {
		in.Kind = "classev"
	}
	n := 2 + rng.Intn(10)
	for k := 0; k < n; k++ {
		name := namePool[rng.Intn(len(namePool))]
		r := rng.Intn(10)
		switch {
		case classEvents && r < 3:
			cs := append(allClasses(), classIn{Name: "late", Controller: oursCtrl}, classIn{Name: "hap", Controller: "example.com/changed"}, classIn{Name: "other", Controller: oursCtrl})
			c := cs[rng.Intn(len(cs))]
			if rng.Intn(4) == 0 {
				c.Meta = 1
			}
			if rng.Intn(4) == 0 {
				c.Params = !c.Params
			}
			if rng.Intn(3) == 0 {
				in.Ops = append(in.Ops, opIn{Op: "delclass", Name: c.Name})
			} else {
				in.Ops = append(in.Ops, opIn{Op: "putclass", Class: &c})
			}
		case r < 8:
			i := genIng(rng, name, reachableClassPool)
			in.Ops = append(in.Ops, opIn{Op: "put", Ing: &i})
		default:
			in.Ops = append(in.Ops, opIn{Op: "del", Name: name})
		}
		if swapEvery == 1 || rng.Intn(swapEvery) == 0 {
			in.Ops = append(in.Ops, opIn{Op: "swap"})
		}
	}
	in.Ops = append(in.Ops, opIn{Op: "swap"})
	return in
}

// corpus: inputs that failed in the past run first, forever
func corpus() []input {
	cfg := c0809.CfgIn{IngressClass: "haproxy", ControllerName: oursCtrl}
	cls := allClasses()
	return []input{
		// created valid and made invalid before the first reconciliation
		{Kind: "watch", Cfg: cfg, Classes: cls, Ops: []opIn{
			{Op: "swap"},
			{Op: "put", Ing: &ingIn{Name: "a/i1", Ann: sp("haproxy")}},
			{Op: "put", Ing: &ingIn{Name: "a/i1", Ann: sp("nginx")}},
			{Op: "swap"}}},
		// created valid and deleted before the first reconciliation
		{Kind: "watch", Cfg: cfg, Classes: cls, Ops: []opIn{
			{Op: "swap"},
			{Op: "put", Ing: &ingIn{Name: "a/i1", Ann: sp("haproxy")}},
			{Op: "del", Name: "a/i1"},
			{Op: "swap"}}},
		// an IngressClass created after the Ingress that names it
		{Kind: "classev", Cfg: cfg, Classes: cls, Ops: []opIn{
			{Op: "swap"},
			{Op: "put", Ing: &ingIn{Name: "a/i1", Class: sp("late")}},
			{Op: "swap"},
			{Op: "putclass", Class: &classIn{Name: "late", Controller: oursCtrl}},
			{Op: "swap"}}},
		// created unclassified (watch-without-class) and given a class of ours before the
		// first reconciliation: the stale added object was converted, the class link was
		// never tracked and the later removal of the IngressClass went unnoticed
		{Kind: "classev", Cfg: c0809.CfgIn{IngressClass: "haproxy", ControllerName: oursCtrl, Watch: true, Prec: true}, Classes: cls, Ops: []opIn{
			{Op: "swap"},
			{Op: "put", Ing: &ingIn{Name: "b/i3"}},
			{Op: "put", Ing: &ingIn{Name: "b/i3", Ann: sp("hap"), Class: sp("hap-params"), Spec: 1}},
			{Op: "swap"},
			{Op: "delclass", Name: "hap-params"},
			{Op: "swap"}}},
		// valid through an IngressClass that is removed later in the same batch
		{Kind: "classev", Cfg: cfg, Classes: cls, Ops: []opIn{
			{Op: "swap"},
			{Op: "put", Ing: &ingIn{Name: "a/i1", Class: sp("hap")}},
			{Op: "delclass", Name: "hap"},
			{Op: "swap"}}},
		// an IngressClass of another controller changed to this controller
		{Kind: "classev", Cfg: cfg, Classes: cls, Ops: []opIn{
			{Op: "swap"},
			{Op: "put", Ing: &ingIn{Name: "a/i1", Class: sp("other")}},
			{Op: "swap"},
			{Op: "putclass", Class: &classIn{Name: "other", Controller: oursCtrl}},
			{Op: "swap"}}},
		// removed (valid -> not valid), made valid again by an IngressClass event, then updated, in one batch
		{Kind: "classev", Cfg: c0809.CfgIn{IngressClass: "haproxy", ControllerName: oursCtrl, Prec: true}, Classes: cls, Ops: []opIn{
			{Op: "swap"},
			{Op: "put", Ing: &ingIn{Name: "a/i1", Ann: sp("haproxy"), Class: sp("hap")}},
			{Op: "swap"},
			{Op: "put", Ing: &ingIn{Name: "a/i1", Ann: sp("haproxy"), Class: sp("other")}},
			{Op: "putclass", Class: &classIn{Name: "other", Controller: oursCtrl}},
			{Op: "put", Ing: &ingIn{Name: "a/i1", Ann: sp("haproxy"), Class: sp("hap")}},
			{Op: "swap"}}},
		// tcp-service-port ingresses, backend in a rule / only in spec.defaultBackend (+ tls), selected only
		// through ingressClassName: the IngressClass is deleted without any event on the ingresses
		{Kind: "classev", Cfg: cfg, Classes: cls, Ops: []opIn{
			{Op: "swap"},
			{Op: "put", Ing: &ingIn{Name: "a/i1", Class: sp("hap"), Shape: "tcp-default"}},
			{Op: "put", Ing: &ingIn{Name: "a/i2", Class: sp("hap"), Shape: "tcp-rule"}},
			{Op: "put", Ing: &ingIn{Name: "b/i3", Class: sp("hap"), Shape: "tcp-default-tls"}},
			{Op: "swap"},
			{Op: "delclass", Name: "hap"},
			{Op: "swap"},
			{Op: "putclass", Class: &classIn{Name: "hap", Controller: oursCtrl}},
			{Op: "swap"}}},
		// an IngressClass deleted and re-created (also with another controller in between)
		{Kind: "classev", Cfg: cfg, Classes: cls, Ops: []opIn{
			{Op: "swap"},
			{Op: "put", Ing: &ingIn{Name: "a/i1", Class: sp("hap")}},
			{Op: "put", Ing: &ingIn{Name: "a/i2", Ann: sp("haproxy")}},
			{Op: "swap"},
			{Op: "delclass", Name: "hap"},
			{Op: "swap"},
			{Op: "putclass", Class: &classIn{Name: "hap", Controller: "example.com/changed"}},
			{Op: "swap"},
			{Op: "putclass", Class: &classIn{Name: "hap", Controller: oursCtrl, Meta: 1}},
			{Op: "swap"},
			{Op: "putclass", Class: &classIn{Name: "hap", Controller: oursCtrl, Params: true}},
			{Op: "putclass", Class: &classIn{Name: "hap", Controller: oursCtrl, Params: true, Meta: 1}},
			{Op: "swap"}}},
		// an IngressClass deleted under a configured Ingress
		{Kind: "classev", Cfg: cfg, Classes: cls, Ops: []opIn{
			{Op: "swap"},
			{Op: "put", Ing: &ingIn{Name: "a/i1", Class: sp("hap")}},
			{Op: "swap"},
			{Op: "delclass", Name: "hap"},
			{Op: "swap"}}},
	}
}

// ---------- main ----------

func boolsCoq(l []bool) string {
	var out []string
	for _, b := range l {
		out = append(out, hx.Bool(b))
	}
	return hx.List(out)
}

var dumpCorpus = flag.String("dump-corpus", "", "write the built-in corpus as replay files into this directory and exit")

func main() {
	o := hx.Parse()
	if *dumpCorpus != "" {
		c0809.Must(os.MkdirAll(*dumpCorpus, 0o755))
		for i, in := range corpus() {
			b, _ := json.MarshalIndent(map[string]interface{}{"property": "C08", "input": in}, "", " ")
			c0809.Must(os.WriteFile(filepath.Join(*dumpCorpus, fmt.Sprintf("corpus_%02d.json", i)), b, 0o644))
		}
		return
	}
	rng := o.Rng()
	workDir = filepath.Join(o.Out, "scratch")
	c0809.Must(os.MkdirAll(workDir, 0o755))
	res := hx.NewResult("C08", "class-selection inputs: the 48 rows x spellings grid, random clusters of IngressClasses/Ingresses (decide), raw watcher event streams incl. incoherent ones (events), client operation histories with reconciliations through the real watchers and converters (watch), and histories with IngressClass events (classev, oracle only); non-trivial = at least one classified ingress (annotation or ingressClassName present) or, for histories, at least one accepted event; distinct by canonical text of the input")
	cw := hx.NewCaseWriter(o, res, "From HI Require Import Corr.Corr_C08.", "ccase", 300)

	var inputs []input
	if o.Replay != "" {
		var in input
		hx.ReadReplay(o.Replay, &in)
		inputs = append(inputs, in)
	} else {
		inputs = append(inputs, corpus()...)
		inputs = append(inputs, gridDecide()...)
		nd, ne, nw, nc := o.Count(700, 20000), o.Count(600, 20000), o.Count(500, 10000), o.Count(300, 10000)
		if o.Search {
			nd, ne, nw, nc = nd/4, 0, nw*2, nc*2
		}
		for i := 0; i < nd; i++ {
			inputs = append(inputs, genDecide(rng))
		}
		for i := 0; i < ne; i++ {
			inputs = append(inputs, genEvents(rng))
		}
		for i := 0; i < nw; i++ {
			inputs = append(inputs, genWatch(rng, false, 1+rng.Intn(4)))
		}
		for i := 0; i < nc; i++ {
			inputs = append(inputs, genWatch(rng, true, 1+rng.Intn(3)))
		}
	}

	for _, in := range inputs {
		in := in
		canon := fmt.Sprintf("%+v", toCanon(in))
		res.Count("kind=" + in.Kind)
		switch in.Kind {
		case "decide":
			obs := runDecide(in)
			nontrivial := false
			for k, i := range in.Ings {
				if i.Ann != nil || i.Class != nil {
					nontrivial = true
				}
				res.Count(fmt.Sprintf("row=%s/%s/watch=%v/prec=%v", annKind(in, i), clsKind(in, i), in.Cfg.Watch, in.Cfg.Prec))
				res.OracleChecks++
				if !reachableClassName(i.Class) {
					res.Count("oracle_skipped_unreachable_classname")
					continue
				}
				want := docSelected(in.Cfg, in.Classes, i.Ann, i.Class)
				inList := false
				for _, n := range obs.List {
					if n == i.Name {
						inList = true
					}
				}
				inLList := false
				for _, n := range obs.LList {
					if n == i.Name {
						inLList = true
					}
				}
				if obs.LValid[k] != want || obs.LGet[k] != want || inLList != want {
					res.Fail(hx.Failure{Key: "C08/decision-legacy", What: fmt.Sprintf("ingress %s: documented rule says selected=%v, legacy IsValidIngress=%v GetIngress=%v in GetIngressList=%v", i.Name, want, obs.LValid[k], obs.LGet[k], inLList),
						Input: in, Observed: obs, Expected: want})
				}
				if obs.Valid[k] != want || obs.Get[k] != want || inList != want {
					res.Fail(hx.Failure{Key: "C08/decision", What: fmt.Sprintf("ingress %s: documented rule says selected=%v, IsValidIngress=%v GetIngress=%v in GetIngressList=%v", i.Name, want, obs.Valid[k], obs.Get[k], inList),
						Input: in, Observed: obs, Expected: want})
				}
			}
			res.Seen(canon, nontrivial)
			res.Sample(2, map[string]interface{}{"input": in, "observed": obs})
			if !o.Search {
				var ings []string
				sorted := append([]ingIn{}, in.Ings...)
				idx := make([]int, len(sorted))
				for k := range idx {
					idx[k] = k
				}
				sort.Slice(idx, func(x, y int) bool { return sorted[idx[x]].Name < sorted[idx[y]].Name })
				var valid, get, lvalid, lget []bool
				for _, k := range idx {
					ings = append(ings, coqIng(sorted[k], 1, 0))
					valid = append(valid, obs.Valid[k])
					get = append(get, obs.Get[k])
					lvalid = append(lvalid, obs.LValid[k])
					lget = append(lget, obs.LGet[k])
				}
				cw.Add(func(id int) string {
					return fmt.Sprintf("CDecide %s %s %s %s %s %s %s %s %s %s", hx.N(id), coqCfg(in.Cfg), coqClasses(in.Classes), hx.List(ings),
						boolsCoq(valid), boolsCoq(get), coqStrs(obs.List), boolsCoq(lvalid), boolsCoq(lget), coqStrs(obs.LList))
				}, in)
			}
		case "events":
			b, terms := runEvents(in)
			res.Seen(canon, b.Notes > 0)
			res.Count(fmt.Sprintf("events_accepted=%d", min(b.Notes, 4)))
			res.Sample(3, map[string]interface{}{"input": in, "batch": b})
			if !o.Search {
				cw.Add(func(id int) string {
					return fmt.Sprintf("CEvents %s %s %s %s %s", hx.N(id), coqCfg(in.Cfg), coqClasses(in.Classes), hx.List(terms), coqBatch(b))
				}, in)
			}
		case "watch", "classev":
			steps, terms, terms2 := runWatch(in)
			accepted := 0
			for si, st := range steps {
				accepted += st.Batch.Notes
				res.OracleChecks++
				if strings.Join(st.View, ",") != strings.Join(st.Want, ",") {
					key := "C08/configured-set"
					both := false
					for _, a := range st.Batch.Add {
						for _, d := range st.Batch.Del {
							if strings.Split(a, "@")[0] == strings.Split(d, "@")[0] {
								both = true
							}
						}
					}
					if both {
						key = "C08/add-and-del-in-one-batch"
					} else if in.Kind == "classev" {
						key = "C08/ingressclass-event"
					}
					res.Count("oracle_fail_" + key)
					res.Fail(hx.Failure{Key: key, What: fmt.Sprintf("after reconciliation %d the hosts of %v are configured, the documented class rule selects %v", si+1, st.View, st.Want),
						Input: in, Observed: steps, Expected: st.Want})
					break
				}
			}
			res.Seen(canon, accepted > 0)
			res.Count(fmt.Sprintf("reconciliations=%d", min(len(steps), 6)))
			res.Sample(5, map[string]interface{}{"input": in, "steps": steps})
			if !o.Search && in.Kind == "watch" {
				var obs []string
				for _, st := range steps {
					obs = append(obs, hx.Tuple(coqBatch(st.Batch), coqStrs(st.View)))
				}
				cw.Add(func(id int) string {
					return fmt.Sprintf("CWatch %s %s %s %s %s", hx.N(id), coqCfg(in.Cfg), coqClasses(in.Classes), hx.List(terms), hx.List(obs))
				}, in)
			}
			if !o.Search {
				// the same history (IngressClass events included) on the model with a changing class table
				var obs, ks []string
				for _, st := range steps {
					obs = append(obs, hx.Tuple(coqBatch(st.Batch), coqStrs(st.Batch.CLinks), coqStrs(st.View), coqStrs(st.Linked)))
				}
				for _, c := range in.Classes {
					ks = append(ks, coqIClass(c, 1))
				}
				cw.Add(func(id int) string {
					return fmt.Sprintf("CWatchIC %s %s %s %s %s", hx.N(id), coqCfg(in.Cfg), hx.List(ks), hx.List(terms2), hx.List(obs))
				}, in)
			}
		}
	}
	cw.Flush()
	res.Write(o)
}

func min(a, b int) int {
	if a < b {
		return a
	}
	return b
}

func derefs(s *string) string {
	if s == nil {
		return "<nil>"
	}
	return fmt.Sprintf("%q", *s)
}

func toCanon(in input) string {
	var sb strings.Builder
	fmt.Fprintf(&sb, "%s %+v %+v|", in.Kind, in.Cfg, in.Classes)
	for _, i := range in.Ings {
		fmt.Fprintf(&sb, "%s %s %s %d %d;", i.Name, derefs(i.Ann), derefs(i.Class), i.OAnn, i.Spec)
	}
	for _, op := range in.Ops {
		fmt.Fprintf(&sb, "%s %s", op.Op, op.Name)
		for _, i := range []*ingIn{op.Old, op.Ing} {
			if i != nil {
				fmt.Fprintf(&sb, " %s %s %s %d %d %d", i.Name, derefs(i.Ann), derefs(i.Class), i.OAnn, i.Spec, i.Gen)
			}
		}
		if op.Class != nil {
			fmt.Fprintf(&sb, " %+v", *op.Class)
		}
		sb.WriteString(";")
	}
	return sb.String()
}

func annKind(in input, i ingIn) string {
	switch {
	case i.Ann == nil:
		return "ann-absent"
	case *i.Ann == in.Cfg.IngressClass:
		return "ann-ours"
	}
	return "ann-foreign"
}

func clsKind(in input, i ingIn) string {
	if i.Class == nil {
		return "cls-absent"
	}
	for _, c := range in.Classes {
		if c.Name == *i.Class {
			if c.Controller == in.Cfg.ControllerName {
				return "cls-ours"
			}
			return "cls-foreign"
		}
	}
	return "cls-dangling"
}
