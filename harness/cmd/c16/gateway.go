package main

// Weighted Gateway backendRefs through the real pipeline (lib/pipeline with the Gateway
// API v1 enabled): one HTTPRoute rule with several backendRefs (weight, replicas); the
// weights written on the servers of the route's backend are read back from the real
// haproxy model and compared with the model of RebalanceWeight with base 128.

import (
	"fmt"
	"os"

	metav1 "k8s.io/apimachinery/pkg/apis/meta/v1"
	"k8s.io/apimachinery/pkg/util/intstr"
	"sigs.k8s.io/controller-runtime/pkg/client"
	gatewayv1 "sigs.k8s.io/gateway-api/apis/v1"

	"verif/harness/lib/pipeline"
	"verif/harness/lib/world"
)

// runGateway returns the per-group server weight (-1 when the group has no server, or
// when its servers do not all carry the same weight) and whether the route was attached.
func runGateway(dir string, in input) ([]int, bool) {
	os.RemoveAll(dir)
	p, err := pipeline.NewE(pipeline.Options{Dir: dir, HasGatewayV1: true, WatchWithoutClass: true})
	if err != nil {
		panic(err)
	}
	defer p.Close()
	var batch []pipeline.Change
	objs := []client.Object{
		&gatewayv1.GatewayClass{ObjectMeta: metav1.ObjectMeta{Name: "gwc"}, Spec: gatewayv1.GatewayClassSpec{ControllerName: "haproxy-ingress.github.io/controller"}},
	}
	from := gatewayv1.NamespacesFromSame
	objs = append(objs, &gatewayv1.Gateway{ObjectMeta: metav1.ObjectMeta{Namespace: "ns1", Name: "gw"},
		Spec: gatewayv1.GatewaySpec{GatewayClassName: "gwc", Listeners: []gatewayv1.Listener{{Name: "http", Port: 80, Protocol: gatewayv1.HTTPProtocolType,
			AllowedRoutes: &gatewayv1.AllowedRoutes{Namespaces: &gatewayv1.RouteNamespaces{From: &from}}}}}})
	var refs []gatewayv1.HTTPBackendRef
	for i, c := range in.Clusters {
		name := fmt.Sprintf("g%d", i)
		objs = append(objs, world.Service("ns1", name, world.SvcPort{Name: "http", Port: 8080, TargetPort: intstr.FromInt(8080)}))
		var ips []string
		for r := 0; r < c[1]; r++ {
			ips = append(ips, fmt.Sprintf("10.%d.%d.%d", i+1, r/200, r%200+1))
		}
		objs = append(objs, world.Endpoints("ns1", name, world.EpPort{Name: "http", Port: 8080, Ready: ips}))
		w := int32(c[0])
		port := gatewayv1.PortNumber(8080)
		refs = append(refs, gatewayv1.HTTPBackendRef{BackendRef: gatewayv1.BackendRef{
			BackendObjectReference: gatewayv1.BackendObjectReference{Name: gatewayv1.ObjectName(name), Port: &port}, Weight: &w}})
	}
	objs = append(objs, &gatewayv1.HTTPRoute{ObjectMeta: metav1.ObjectMeta{Namespace: "ns1", Name: "rt"},
		Spec: gatewayv1.HTTPRouteSpec{
			CommonRouteSpec: gatewayv1.CommonRouteSpec{ParentRefs: []gatewayv1.ParentReference{{Name: "gw"}}},
			Hostnames:       []gatewayv1.Hostname{"w.example"},
			Rules:           []gatewayv1.HTTPRouteRule{{BackendRefs: refs}},
		}})
	for _, o := range objs {
		batch = append(batch, pipeline.Change{Op: pipeline.Create, Obj: o})
	}
	if err := p.Apply(batch); err != nil {
		panic(err)
	}
	out := make([]int, len(in.Clusters))
	for i := range out {
		out[i] = -1
	}
	// the weights as rendered in the files written through the real template
	ws, attached := renderedWeights(p, "ns1_rt_")
	seen := map[int]map[int]bool{}
	for ip, w := range ws {
		var g, a, b int
		if _, err := fmt.Sscanf(ip, "10.%d.%d.%d", &g, &a, &b); err != nil {
			continue
		}
		if seen[g-1] == nil {
			seen[g-1] = map[int]bool{}
		}
		seen[g-1][w] = true
	}
	for g, wset := range seen {
		if len(wset) == 1 {
			for w := range wset {
				out[g] = w
			}
		} else {
			out[g] = -2 // servers of one group with different weights
		}
	}
	return out, attached
}
