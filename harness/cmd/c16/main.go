// c16: correspondence and oracle for C16 (weights).
package main

import (
	"encoding/json"
	"fmt"
	"math/big"
	"math/rand"
	"os"

	convutils "github.com/jcmoraisjr/haproxy-ingress/pkg/converters/utils"

	"verif/harness/lib/hx"
)

type input struct {
	IW       int      `json:"initial_weight"`
	Clusters [][2]int `json:"clusters"` // weight, replicas
}

var weightPool = []int{0, 0, 1, 1, 2, 3, 5, 7, 10, 13, 50, 64, 100, 127, 128, 200, 255, 256}
var lenPool = []int{0, 1, 1, 2, 3, 4, 5, 6, 7, 8, 9, 10, 11, 12, 13, 16, 30}
var iwPool = []int{1, 1, 1, 2, 3, 5, 10, 64, 100, 128, 128, 255, 256}

func gen(rng *rand.Rand) input {
	n := 1 + rng.Intn(5)
	in := input{}
	if rng.Intn(4) == 0 {
		in.IW = 1 + rng.Intn(256)
	} else {
		in.IW = iwPool[rng.Intn(len(iwPool))]
	}
	for i := 0; i < n; i++ {
		var w, l int
		if rng.Intn(3) == 0 {
			w = rng.Intn(257)
		} else {
			w = weightPool[rng.Intn(len(weightPool))]
		}
		if rng.Intn(4) == 0 {
			l = rng.Intn(40)
		} else {
			l = lenPool[rng.Intn(len(lenPool))]
		}
		in.Clusters = append(in.Clusters, [2]int{w, l})
	}
	return in
}

func run(in input) []int {
	cls := make([]*convutils.WeightCluster, len(in.Clusters))
	for i, c := range in.Clusters {
		cls[i] = &convutils.WeightCluster{Weight: c[0], Length: c[1]}
	}
	convutils.RebalanceWeight(cls, in.IW)
	out := make([]int, len(cls))
	for i := range cls {
		out[i] = cls[i].Weight
	}
	return out
}

// oracle checks the property directly on the observed weights, without the model.
// Only groups with replicas are looked at (no server receives the others).
func oracle(in input, out []int) (string, string) {
	type g struct{ w, l, o int }
	var gs []g
	for i, c := range in.Clusters {
		if c[1] > 0 {
			gs = append(gs, g{c[0], c[1], out[i]})
		}
	}
	for _, x := range gs {
		if x.o < 0 || x.o > 256 {
			return "range", fmt.Sprintf("weight %d outside 0..256", x.o)
		}
		if (x.o == 0) != (x.w == 0) {
			return "zero-iff", fmt.Sprintf("configured weight %d with %d replicas got server weight %d", x.w, x.l, x.o)
		}
	}
	for _, x := range gs {
		for _, y := range gs {
			if x.w*y.l <= y.w*x.l && x.o > y.o {
				return "order", fmt.Sprintf("%d/%d <= %d/%d but server weights %d > %d", x.w, x.l, y.w, y.l, x.o, y.o)
			}
		}
	}
	// proportions up to integer rounding: there is a common factor K > 0 with
	// out_i = floor(K * w_i/l_i), or out_i = 1 where K*w_i/l_i < 1.
	// K in [o*l/w, (o+1)*l/w) for every group with w > 0.
	var lo, hi *big.Rat
	for _, x := range gs {
		if x.w == 0 {
			continue
		}
		l := big.NewRat(int64(x.o*x.l), int64(x.w))
		h := big.NewRat(int64((x.o+1)*x.l), int64(x.w))
		if x.o == 1 {
			l = big.NewRat(0, 1) // may have been raised to 1
		}
		if lo == nil || l.Cmp(lo) > 0 {
			lo = l
		}
		if hi == nil || h.Cmp(hi) < 0 {
			hi = h
		}
	}
	if lo != nil && lo.Cmp(hi) >= 0 {
		return "share", fmt.Sprintf("no common factor: need K >= %s and K < %s", lo.FloatString(4), hi.FloatString(4))
	}
	return "", ""
}

func main() {
	o := hx.Parse()
	rng := o.Rng()
	res := hx.NewResult("C16", "random and pooled (weight, replicas) vectors of 1..5 groups, weights 0..256, replicas 0..40, initial-weight 1..256; non-trivial = at least two groups with replicas and a non-zero weight; distinct by canonical text of the input")
	cw := hx.NewCaseWriter(o, res, "From HI Require Import Corr.Corr_C16.", "anycase", 500)
	var inputs []input
	// a replay is one stored input of any of the streams, told apart by its fields
	var replayBG *bgInput
	var replayHist *struct {
		First    bgInput `json:"first"`
		Then     bgInput `json:"then"`
		Selector bool    `json:"selector"`
	}
	if o.Replay != "" {
		var probe map[string]json.RawMessage
		hx.ReadReplay(o.Replay, &probe)
		switch {
		case probe["first"] != nil:
			replayHist = new(struct {
				First    bgInput `json:"first"`
				Then     bgInput `json:"then"`
				Selector bool    `json:"selector"`
			})
			hx.ReadReplay(o.Replay, replayHist)
		case probe["endpoints"] != nil:
			replayBG = &bgInput{}
			hx.ReadReplay(o.Replay, replayBG)
		default:
			var in input
			hx.ReadReplay(o.Replay, &in)
			inputs = append(inputs, in)
		}
	} else {
		// corpus first: the historical float32 witness
		inputs = append(inputs, input{IW: 1, Clusters: [][2]int{{5, 8}, {7, 11}}})
		inputs = append(inputs, input{IW: 128, Clusters: [][2]int{{1, 1}, {256, 1}}})
		n := o.Count(3000, 200000)
		for i := 0; i < n; i++ {
			inputs = append(inputs, gen(rng))
		}
	}
	for _, in := range inputs {
		out := run(in)
		active := 0
		for _, c := range in.Clusters {
			if c[0] > 0 && c[1] > 0 {
				active++
			}
		}
		canon := fmt.Sprint(in)
		res.Seen(canon, active >= 2)
		res.Count(fmt.Sprintf("groups=%d", len(in.Clusters)))
		res.Count(fmt.Sprintf("active=%d", active))
		res.Sample(5, map[string]interface{}{"input": in, "weights": out})
		res.OracleChecks++
		if k, what := oracle(in, out); k != "" {
			res.Count("oracle_fail_" + k)
			res.Fail(hx.Failure{Key: "C16/" + k, What: what, Input: in, Observed: out})
		}
		if !o.Search {
			var cls, obs []string
			for i, c := range in.Clusters {
				cls = append(cls, hx.Tuple(hx.Z(int64(c[0])), hx.Z(int64(c[1]))))
				obs = append(obs, hx.Z(int64(out[i])))
			}
			in := in
			cw.Add(func(id int) string {
				return fmt.Sprintf("R {| rid := %s; riw := %s; rcls := %s; robs := %s |}", hx.N(id), hx.Z(int64(in.IW)), hx.List(cls), hx.List(obs))
			}, in)
		}
	}
	// ---- gateway backendRefs through the real pipeline (base 128) ----
	if o.Replay == "" {
		ng := o.Count(150, 3000)
		gwdir := o.Out + "/gw"
		gws := []input{{IW: 128, Clusters: [][2]int{{255, 1}, {1, 1}}}, {IW: 128, Clusters: [][2]int{{1, 1}, {256, 3}, {256, 5}}}}
		for i := 0; i < ng; i++ {
			g := gen(rng)
			g.IW = 128
			for j := range g.Clusters {
				if g.Clusters[j][1] > 12 {
					g.Clusters[j][1] %= 13
				}
			}
			gws = append(gws, g)
		}
		for _, in := range gws {
			obs, attached := runGateway(gwdir, in)
			if !attached {
				res.Count("gw_not_attached")
				continue
			}
			// what the model is asked: groups without servers keep their configured weight
			full := make([]int, len(obs))
			mixed := false
			for i, w := range obs {
				switch {
				case w == -2:
					mixed = true
				case w == -1:
					full[i] = in.Clusters[i][0]
				default:
					full[i] = w
				}
			}
			res.Seen("gw:"+fmt.Sprint(in), len(in.Clusters) >= 2)
			res.Count(fmt.Sprintf("gw_groups=%d", len(in.Clusters)))
			res.OracleChecks++
			if mixed {
				res.Fail(hx.Failure{Key: "C16/gw-mixed-weights", What: "servers of one backendRef carry different weights", Input: in, Observed: obs})
				continue
			}
			if k, what := oracle(in, full); k != "" {
				res.Count("oracle_fail_gw_" + k)
				res.Fail(hx.Failure{Key: "C16/gw-" + k, What: "gateway backendRefs: " + what, Input: in, Observed: obs})
			}
			if !o.Search {
				var cls, ob []string
				for i, c := range in.Clusters {
					cls = append(cls, hx.Tuple(hx.Z(int64(c[0])), hx.Z(int64(c[1]))))
					ob = append(ob, hx.Z(int64(full[i])))
				}
				in := in
				cw.Add(func(id int) string {
					return fmt.Sprintf("R {| rid := %s; riw := %s; rcls := %s; robs := %s |}", hx.N(id), hx.Z(128), hx.List(cls), hx.List(ob))
				}, in)
			}
		}
		os.RemoveAll(gwdir)
	}

	// ---- blue/green as rendered by the real template (whole pipeline) ----
	if o.Replay == "" {
		nr := o.Count(60, 2000)
		rdir := o.Out + "/bgr"
		for i := 0; i < nr; i++ {
			in := genBG(rng)
			for j := range in.Endpoints {
				in.Endpoints[j].NoPod = false // every endpoint has a pod here
			}
			in.deriveGroups()
			selector := i%2 == 0
			// every other case is a two-step history: the same endpoints, then ONLY
			// weights / labels / readiness / mode change (an incremental update);
			// the weights of the second step are judged as well
			var next *bgInput
			if i%4 >= 2 {
				n := genBG(rng)
				n.Endpoints = append([]bgEndpoint(nil), n.Endpoints...)
				for len(n.Endpoints) < len(in.Endpoints) {
					n.Endpoints = append(n.Endpoints, bgEndpoint{Groups: []int{0}})
				}
				n.Endpoints = n.Endpoints[:len(in.Endpoints)]
				for j := range n.Endpoints {
					n.Endpoints[j].NoPod = false
					for k, g := range n.Endpoints[j].Groups {
						if g >= len(n.Weights) {
							n.Endpoints[j].Groups[k] = 0
						}
					}
				}
				n.deriveGroups()
				next = &n
			}
			out, out2, ok := runBGRenderedHist(rdir, in, next, selector)
			if !ok {
				res.Count("bgr_skipped")
				continue
			}
			if next != nil && out2 != nil {
				res.Count("bg_rendered_second_step")
				res.OracleChecks++
				if k, what := oracleBG(*next, out2); k != "" {
					res.Count("oracle_fail_rendered_step2_" + k)
					res.Fail(hx.Failure{Key: "C16/rendered-after-update-" + k, What: "weights in the written haproxy.cfg after an incremental update that keeps the endpoint addresses: " + what,
						Input: map[string]interface{}{"first": in, "then": *next, "selector": selector}, Observed: out2})
				}
				if !o.Search {
					n2, o2 := *next, out2
					cw.Add(func(id int) string { return coqBG(id, n2, o2) }, n2)
				}
			}
			res.Seen(fmt.Sprintf("bgr:%v:%v", in, selector), len(in.Endpoints) >= 2)
			res.Count("bg_rendered")
			if selector {
				res.Count("bg_rendered_with_selector")
			}
			res.OracleChecks++
			if k, what := oracleBG(in, out); k != "" {
				res.Count("oracle_fail_rendered_" + k)
				res.Fail(hx.Failure{Key: "C16/rendered-" + k, What: "weights in the written haproxy.cfg: " + what, Input: in, Observed: out})
			}
			if !o.Search {
				in, out := in, out
				cw.Add(func(id int) string { return coqBG(id, in, out) }, in)
			}
		}
		os.RemoveAll(rdir)
	}

	if replayHist != nil {
		rdir := o.Out + "/bgr"
		_, out2, ok := runBGRenderedHist(rdir, replayHist.First, &replayHist.Then, replayHist.Selector)
		res.OracleChecks++
		if ok && out2 != nil {
			if k, what := oracleBG(replayHist.Then, out2); k != "" {
				res.Fail(hx.Failure{Key: "C16/rendered-after-update-" + k, What: "weights in the written haproxy.cfg after an incremental update that keeps the endpoint addresses: " + what, Input: replayHist, Observed: out2})
			}
		}
		os.RemoveAll(rdir)
	}
	if replayBG != nil {
		rdir := o.Out + "/bgr"
		hasPods := true
		for _, e := range replayBG.Endpoints {
			hasPods = hasPods && !e.NoPod
		}
		if hasPods {
			for _, selector := range []bool{false, true} {
				if out, ok := runBGRendered(rdir, *replayBG, selector); ok {
					res.OracleChecks++
					if k, what := oracleBG(*replayBG, out); k != "" {
						res.Fail(hx.Failure{Key: "C16/rendered-" + k, What: "weights in the written haproxy.cfg: " + what, Input: *replayBG, Observed: out})
					}
				}
			}
		}
		os.RemoveAll(rdir)
	}

	// ---- blue/green through the real updater ----
	var bgs []bgInput
	if replayBG != nil {
		bgs = append(bgs, *replayBG)
	}
	if o.Replay == "" {
		bgs = append(bgs, bgInput{IW: 100, Weights: []int{90, 10, 0}, Endpoints: []bgEndpoint{{Groups: []int{0}}, {Groups: []int{1}}, {Groups: []int{2}}}})
		// a group with an empty label value and a pod that lacks the key altogether
		for _, pod := range []bool{false, true} {
			bgs = append(bgs, bgInput{IW: 100, Pod: pod, Weights: []int{75, 25}, Labels: [][2]string{{"track", ""}, {"track", "canary"}},
				Endpoints: []bgEndpoint{{PodLabels: map[string]string{"track": ""}}, {PodLabels: map[string]string{"track": "canary"}},
					{PodLabels: map[string]string{"role": "web"}}, {PodLabels: map[string]string{}}}})
		}
		nb := o.Count(1500, 60000)
		for i := 0; i < nb; i++ {
			bgs = append(bgs, genBG(rng))
		}
	}
	for _, in := range bgs {
		in.deriveGroups()
		out := runBG(in)
		live := 0
		for _, e := range in.Endpoints {
			if !e.Draining && !e.NoPod && len(e.Groups) > 0 {
				live++
			}
		}
		res.Seen("bg:"+fmt.Sprint(in), live >= 2)
		res.Count(fmt.Sprintf("bg_groups=%d", len(in.Weights)))
		if in.Pod {
			res.Count("bg_mode_pod")
		} else {
			res.Count("bg_mode_deploy")
		}
		res.OracleChecks++
		if k, what := oracleBG(in, out); k != "" {
			res.Count("oracle_fail_" + k)
			res.Fail(hx.Failure{Key: "C16/" + k, What: what, Input: in, Observed: out})
		}
		if !o.Search {
			in, out := in, out
			cw.Add(func(id int) string { return coqBG(id, in, out) }, in)
		}
	}
	cw.Flush()
	res.Write(o)
}
