package main

// Blue/green and gateway weights as RENDERED: the real pipeline writes haproxy.cfg through
// the real template; the `server … weight N` lines are read back with lib/cfgnorm, so a
// change in the template (not only in RebalanceWeight or its callers) is seen.

import (
	"fmt"
	"os"
	"reflect"
	"strings"

	api "k8s.io/api/core/v1"
	networking "k8s.io/api/networking/v1"
	metav1 "k8s.io/apimachinery/pkg/apis/meta/v1"
	"k8s.io/apimachinery/pkg/util/intstr"
	"sigs.k8s.io/controller-runtime/pkg/client"

	"verif/harness/lib/cfgnorm"
	"verif/harness/lib/pipeline"
	"verif/harness/lib/world"
)

const annPrefix = "haproxy-ingress.github.io/"

// renderedWeights reads the weight of every server (by ip) of a backend from the files.
func renderedWeights(p *pipeline.Pipeline, backendPrefix string) (map[string]int, bool) {
	nf, err := cfgnorm.Load(p.Dir(), p.Prefix())
	if err != nil {
		panic(err)
	}
	out := map[string]int{}
	found := false
	for _, b := range nf.Backends {
		if !strings.HasPrefix(b.Name, backendPrefix) {
			continue
		}
		found = true
		for _, s := range b.Servers {
			if s.Disabled {
				continue
			}
			out[s.IP] = s.Weight
		}
	}
	return out, found
}

// runBGRendered drives blue/green through the whole pipeline: pods with labels, endpoints
// that reference them, an ingress with the blue/green annotations (with or without a
// header selector, which labels the servers). It returns the rendered weight per endpoint.
func runBGRendered(dir string, in bgInput, selector bool) ([]int, bool) {
	out, _, ok := runBGRenderedHist(dir, in, nil, selector)
	return out, ok
}

// bgObjects builds the cluster of a blue/green input: service, pods with labels, endpoints
// that reference them, the ingress with the blue/green annotations, drain-support on.
func bgObjects(p *pipeline.Pipeline, in bgInput, selector bool) []client.Object {
	in.deriveGroups()
	var objs []client.Object
	objs = append(objs, world.Service("ns1", "app", world.SvcPort{Name: "http", Port: 8080, TargetPort: intstr.FromInt(8080)}))
	ep := &api.Endpoints{ObjectMeta: metav1.ObjectMeta{Namespace: "ns1", Name: "app"}}
	ss := api.EndpointSubset{Ports: []api.EndpointPort{{Name: "http", Port: 8080, Protocol: api.ProtocolTCP}}}
	for i, e := range in.Endpoints {
		ip := fmt.Sprintf("10.9.0.%d", i+1)
		addr := api.EndpointAddress{IP: ip}
		if !e.NoPod {
			name := fmt.Sprintf("pod-%d", i)
			labels := map[string]string{"app": "app"}
			for _, g := range e.Groups {
				labels[fmt.Sprintf("g%d", g)] = "y"
			}
			if len(in.Labels) > 0 {
				labels = map[string]string{"app": "app"}
				for k, v := range e.PodLabels {
					labels[k] = v
				}
			}
			labels["sel"] = fmt.Sprintf("s%d", i)
			objs = append(objs, &api.Pod{ObjectMeta: metav1.ObjectMeta{Namespace: "ns1", Name: name, Labels: labels},
				Status: api.PodStatus{PodIP: ip}})
			addr.TargetRef = &api.ObjectReference{Kind: "Pod", Namespace: "ns1", Name: name}
		}
		if e.Draining {
			ss.NotReadyAddresses = append(ss.NotReadyAddresses, addr)
		} else {
			ss.Addresses = append(ss.Addresses, addr)
		}
	}
	ep.Subsets = []api.EndpointSubset{ss}
	objs = append(objs, ep)
	objs = append(objs, p.GlobalConfigMap(map[string]string{"drain-support": "true"}))
	var parts []string
	for i, w := range in.Weights {
		if len(in.Labels) > 0 {
			parts = append(parts, fmt.Sprintf("%s=%s=%d", in.Labels[i][0], in.Labels[i][1], w))
		} else {
			parts = append(parts, fmt.Sprintf("g%d=y=%d", i, w))
		}
	}
	mode := "deploy"
	if in.Pod {
		mode = "pod"
	}
	ann := map[string]string{
		annPrefix + "blue-green-balance": strings.Join(parts, ","),
		annPrefix + "blue-green-mode":    mode,
		annPrefix + "initial-weight":     fmt.Sprint(in.IW),
	}
	if selector {
		ann[annPrefix+"blue-green-header"] = "X-Server:sel"
	}
	pt := networking.PathTypePrefix
	ing := &networking.Ingress{ObjectMeta: metav1.ObjectMeta{Namespace: "ns1", Name: "bg", Annotations: ann},
		Spec: networking.IngressSpec{Rules: []networking.IngressRule{{Host: "bg.example", IngressRuleValue: networking.IngressRuleValue{
			HTTP: &networking.HTTPIngressRuleValue{Paths: []networking.HTTPIngressPath{{Path: "/", PathType: &pt,
				Backend: networking.IngressBackend{Service: &networking.IngressServiceBackend{Name: "app", Port: networking.ServiceBackendPort{Number: 8080}}}}}}}}}}}
	objs = append(objs, ing)
	return objs
}

func bgReadWeights(p *pipeline.Pipeline, in bgInput) ([]int, bool) {
	ws, found := renderedWeights(p, "ns1_app_")
	if !found {
		return nil, false
	}
	out := make([]int, len(in.Endpoints))
	for i := range in.Endpoints {
		w, ok := ws[fmt.Sprintf("10.9.0.%d", i+1)]
		if !ok {
			return nil, false
		}
		out[i] = w
	}
	return out, true
}

// runBGRenderedHist renders `in`, then (when next != nil) delivers, as ONE incremental
// batch, the objects of `next` that differ (same endpoint addresses: only weights, labels,
// readiness or the annotation change), and reads the rendered weights after each step.
func runBGRenderedHist(dir string, in bgInput, next *bgInput, selector bool) ([]int, []int, bool) {
	os.RemoveAll(dir)
	p, err := pipeline.NewE(pipeline.Options{Dir: dir, WatchWithoutClass: true})
	if err != nil {
		panic(err)
	}
	defer p.Close()
	objs := bgObjects(p, in, selector)
	var batch []pipeline.Change
	for _, o := range objs {
		batch = append(batch, pipeline.Change{Op: pipeline.Create, Obj: o})
	}
	if err := p.Apply(batch); err != nil {
		panic(err)
	}
	out1, ok := bgReadWeights(p, in)
	if !ok || next == nil {
		return out1, nil, ok
	}
	old := map[string]client.Object{}
	for _, o := range objs {
		old[world.Key(o)] = o
	}
	var upd []pipeline.Change
	for _, o := range bgObjects(p, *next, selector) {
		prev, had := old[world.Key(o)]
		switch {
		case !had:
			upd = append(upd, pipeline.Change{Op: pipeline.Create, Obj: o})
		case !reflect.DeepEqual(prev, o):
			upd = append(upd, pipeline.Change{Op: pipeline.Update, Obj: o})
		}
	}
	if len(upd) == 0 {
		return out1, nil, true
	}
	if err := p.Apply(upd); err != nil {
		panic(err)
	}
	out2, ok := bgReadWeights(p, *next)
	return out1, out2, ok
}
