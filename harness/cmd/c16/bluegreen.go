package main

// Blue/green through the real annotations updater (annotations.NewUpdater +
// UpdateBackendConfig): configured weights incl. out-of-range numbers, both modes,
// endpoints that are draining, unmatched, or carry the labels of several groups.

import (
	"fmt"
	"math/rand"
	"strconv"
	"strings"

	api "k8s.io/api/core/v1"
	metav1 "k8s.io/apimachinery/pkg/apis/meta/v1"

	conv_helper "github.com/jcmoraisjr/haproxy-ingress/pkg/converters/helper_test"
	"github.com/jcmoraisjr/haproxy-ingress/pkg/converters/ingress"
	"github.com/jcmoraisjr/haproxy-ingress/pkg/converters/ingress/annotations"
	ingtypes "github.com/jcmoraisjr/haproxy-ingress/pkg/converters/ingress/types"
	"github.com/jcmoraisjr/haproxy-ingress/pkg/converters/tracker"
	convtypes "github.com/jcmoraisjr/haproxy-ingress/pkg/converters/types"
	"github.com/jcmoraisjr/haproxy-ingress/pkg/haproxy"
	hatypes "github.com/jcmoraisjr/haproxy-ingress/pkg/haproxy/types"

	"verif/harness/lib/hx"
)

type nullLogger struct{}

func (nullLogger) InfoV(int, string, ...interface{}) {}
func (nullLogger) Info(string, ...interface{})       {}
func (nullLogger) Warn(string, ...interface{})       {}
func (nullLogger) Error(string, ...interface{})      {}
func (nullLogger) Fatal(string, ...interface{})      {}

type bgEndpoint struct {
	Draining bool  `json:"draining"`
	Groups   []int `json:"groups"` // indices of the groups whose label the pod carries (sorted)
	NoPod    bool  `json:"no_pod"` // the endpoint references no pod / an unknown pod
	// PodLabels, when the input declares Labels, are the pod's concrete labels; Groups is
	// then derived from them by the documented rule (the pod HAS the key and the value is
	// equal), never read from the code under test.
	PodLabels map[string]string `json:"pod_labels,omitempty"`
}

type bgInput struct {
	IW        int          `json:"initial_weight"`
	Pod       bool         `json:"mode_pod"`
	Weights   []int        `json:"weights"` // as written in the annotation, may be out of 0..256
	Endpoints []bgEndpoint `json:"endpoints"`
	// Labels[i] = {name, value} of group i (value may be empty, names may be shared by
	// groups); empty = the abstract scheme: group i is the label g<i>=y.
	Labels [][2]string `json:"labels,omitempty"`
}

var bgLabelNames = []string{"track", "role", "tier"}
var bgLabelValues = []string{"", "stable", "canary", "v1", "y"}

// deriveGroups computes the membership of every endpoint from the concrete labels.
func (in *bgInput) deriveGroups() {
	if len(in.Labels) == 0 {
		return
	}
	for i := range in.Endpoints {
		e := &in.Endpoints[i]
		e.Groups = nil
		if e.NoPod {
			continue
		}
		for g, l := range in.Labels {
			if v, found := e.PodLabels[l[0]]; found && v == l[1] {
				e.Groups = append(e.Groups, g)
			}
		}
	}
}

func genBG(rng *rand.Rand) bgInput {
	in := bgInput{IW: iwPool[rng.Intn(len(iwPool))], Pod: rng.Intn(4) == 0}
	n := 1 + rng.Intn(4)
	for i := 0; i < n; i++ {
		w := weightPool[rng.Intn(len(weightPool))]
		switch rng.Intn(12) {
		case 0:
			w = -1 - rng.Intn(5)
		case 1:
			w = 257 + rng.Intn(500)
		case 2:
			w = rng.Intn(257)
		}
		in.Weights = append(in.Weights, w)
	}
	m := rng.Intn(9)
	for i := 0; i < m; i++ {
		e := bgEndpoint{Draining: rng.Intn(8) == 0}
		switch rng.Intn(10) {
		case 0:
			e.NoPod = true
		case 1: // no label
		case 2: // two groups
			a, b := rng.Intn(n), rng.Intn(n)
			if a > b {
				a, b = b, a
			}
			if a == b {
				e.Groups = []int{a}
			} else {
				e.Groups = []int{a, b}
			}
		default:
			e.Groups = []int{rng.Intn(n)}
		}
		in.Endpoints = append(in.Endpoints, e)
	}
	if rng.Intn(2) == 0 {
		// concrete labels: shared names, empty values, pods lacking the key
		for i := 0; i < n; i++ {
			in.Labels = append(in.Labels, [2]string{bgLabelNames[rng.Intn(len(bgLabelNames))], bgLabelValues[rng.Intn(len(bgLabelValues))]})
		}
		for i := range in.Endpoints {
			e := &in.Endpoints[i]
			e.PodLabels = map[string]string{}
			for _, name := range bgLabelNames {
				switch rng.Intn(5) {
				case 0, 1: // the pod lacks the key
				case 2: // the value of one of the groups using this name, if any
					for _, l := range in.Labels {
						if l[0] == name {
							e.PodLabels[name] = l[1]
							break
						}
					}
				default:
					e.PodLabels[name] = bgLabelValues[rng.Intn(len(bgLabelValues))]
				}
			}
		}
		in.deriveGroups()
	}
	return in
}

// runBG drives the real updater; group i is the label "g<i>=y".
func runBG(in bgInput) []int {
	in.deriveGroups()
	logger := nullLogger{}
	trk := tracker.NewTracker()
	cache := conv_helper.NewCacheMock(trk)
	cache.PodList = map[string]*api.Pod{}
	cfg := haproxy.CreateInstance(logger, haproxy.InstanceOptions{}).Config()
	backend := cfg.Backends().AcquireBackend("default", "app", "8080")
	for i, e := range in.Endpoints {
		ref := fmt.Sprintf("default/pod-%d", i)
		if !e.NoPod {
			labels := map[string]string{}
			for _, g := range e.Groups {
				labels[fmt.Sprintf("g%d", g)] = "y"
			}
			if len(in.Labels) > 0 {
				labels = map[string]string{}
				for k, v := range e.PodLabels {
					labels[k] = v
				}
			}
			cache.PodList[ref] = &api.Pod{ObjectMeta: metav1.ObjectMeta{Namespace: "default", Name: fmt.Sprintf("pod-%d", i), Labels: labels}}
		}
		if e.NoPod && i%2 == 0 {
			ref = ""
		}
		ep := backend.AcquireEndpoint(fmt.Sprintf("10.0.0.%d", i+1), 8080, ref)
		ep.Weight = 100
		if e.Draining {
			ep.Weight = 0
		}
	}
	var parts []string
	for i, w := range in.Weights {
		if len(in.Labels) > 0 {
			parts = append(parts, fmt.Sprintf("%s=%s=%d", in.Labels[i][0], in.Labels[i][1], w))
		} else {
			parts = append(parts, fmt.Sprintf("g%d=y=%d", i, w))
		}
	}
	ann := map[string]string{
		ingtypes.BackBlueGreenBalance: strings.Join(parts, ","),
		ingtypes.BackInitialWeight:    strconv.Itoa(in.IW),
	}
	if in.Pod {
		ann[ingtypes.BackBlueGreenMode] = "pod"
	} else {
		ann[ingtypes.BackBlueGreenMode] = "deploy"
	}
	options := &convtypes.ConverterOptions{Logger: logger, Cache: cache, Tracker: trk, DynamicConfig: &convtypes.DynamicConfig{}}
	// NewIngressConverter installs the real defaults (createDefaults) in the options
	_ = ingress.NewIngressConverter(options, cfg, &convtypes.ChangedObjects{})
	mapper := annotations.NewMapBuilder(logger, options.DefaultConfig()).NewMapper()
	source := &annotations.Source{Namespace: "default", Name: "ing", Type: convtypes.ResourceIngress}
	link := hatypes.CreateHostPathLink("d.local", "/", hatypes.MatchBegin)
	backend.AddBackendPath(link)
	mapper.AddAnnotations(source, link, ann)
	annotations.NewUpdater(cfg, options).UpdateBackendConfig(backend, mapper)
	out := make([]int, len(backend.Endpoints))
	for i, ep := range backend.Endpoints {
		out[i] = ep.Weight
	}
	return out
}

func clamp(w int) int {
	if w < 0 {
		return 0
	}
	if w > 256 {
		return 256
	}
	return w
}

// oracleBG: the property on the written weights, no model.
func oracleBG(in bgInput, out []int) (string, string) {
	type grp struct{ w, l int }
	groups := make([]grp, len(in.Weights))
	for i, w := range in.Weights {
		groups[i].w = clamp(w)
	}
	last := func(e bgEndpoint) int {
		if e.NoPod || len(e.Groups) == 0 {
			return -1
		}
		return e.Groups[len(e.Groups)-1]
	}
	for _, e := range in.Endpoints {
		if !e.Draining && !e.NoPod {
			for _, g := range e.Groups {
				groups[g].l++
			}
		}
	}
	if len(out) != len(in.Endpoints) {
		return "bg-shape", "number of endpoints changed"
	}
	for i, e := range in.Endpoints {
		w := out[i]
		if w < 0 || w > 256 {
			return "bg-range", fmt.Sprintf("endpoint %d got weight %d", i, w)
		}
		g := last(e)
		if e.Draining || g < 0 {
			if w != 0 {
				return "bg-unmatched-nonzero", fmt.Sprintf("draining/unmatched endpoint %d got weight %d", i, w)
			}
			continue
		}
		if (w == 0) != (groups[g].w == 0) {
			return "bg-zero-iff", fmt.Sprintf("endpoint %d of group %d (configured %d) got weight %d", i, g, in.Weights[g], w)
		}
		if in.Pod && w != groups[g].w {
			return "bg-pod-value", fmt.Sprintf("mode pod: endpoint %d of group %d (configured %d) got weight %d", i, g, in.Weights[g], w)
		}
	}
	if !in.Pod {
		// order: per-server weight follows configured weight / replicas
		for i, e := range in.Endpoints {
			for j, f := range in.Endpoints {
				gi, gj := last(e), last(f)
				if e.Draining || f.Draining || gi < 0 || gj < 0 {
					continue
				}
				if groups[gi].w*groups[gj].l <= groups[gj].w*groups[gi].l && out[i] > out[j] {
					return "bg-order", fmt.Sprintf("group %d (%d/%d) <= group %d (%d/%d) but weights %d > %d", gi, groups[gi].w, groups[gi].l, gj, groups[gj].w, groups[gj].l, out[i], out[j])
				}
			}
		}
	}
	return "", ""
}

func coqBG(id int, in bgInput, out []int) string {
	var ws, eps, obs []string
	for _, w := range in.Weights {
		ws = append(ws, hx.Z(int64(w)))
	}
	for _, e := range in.Endpoints {
		var gs []string
		if !e.NoPod {
			for _, g := range e.Groups {
				gs = append(gs, hx.Nat(g))
			}
		}
		eps = append(eps, hx.Tuple(hx.Bool(e.Draining), hx.List(gs)))
	}
	for _, w := range out {
		obs = append(obs, hx.Z(int64(w)))
	}
	return fmt.Sprintf("B {| bid := %s; biw := %s; bpod := %s; bws := %s; beps := %s; bobs := %s |}",
		hx.N(id), hx.Z(int64(in.IW)), hx.Bool(in.Pod), hx.List(ws), hx.List(eps), hx.List(obs))
}
