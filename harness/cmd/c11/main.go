// c11: correspondence and oracle for C11 (no needless reloads; slots after a reload).
package main

import (
	"verif/harness/lib/dyndrv"
	"verif/harness/lib/hx"
)

func main() {
	dyndrv.Main("C11", false, true, dyndrv.CorpusC11(), func(o *hx.Opts) dyndrv.Profile {
		p := dyndrv.Profile{Faults: 0, NonEndpoint: 12, Dups: 0, Special: 10, Hosts: true, MaxSteps: 6}
		if o.Search {
			p.Wide = true
			p.MaxSteps = 12
		}
		return p
	}, 220, 4000, "From HI Require Import Corr.Corr_C11.")
}
