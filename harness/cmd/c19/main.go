// c19: correspondence and oracle for C19 (disabled snippet keywords).
//
// Two kinds of cases, both on the REAL code of /repo:
//
//   - "updater": annotations.NewUpdater(cfg, {DisableKeywords}).UpdateBackendConfig on a new
//     backend whose mapper received a sequence of config-backend annotations (arbitrary
//     bytes), plus the real UpdateGlobalConfig (through the converter) on global-scope
//     snippet keys.  Observed: backend.CustomConfig, Global().Custom*.  These are the
//     correspondence cases (Corr_C19.v) and are also checked by the oracle.
//   - "pipeline": Ingress and Service objects with snippets through the real converters and
//     the real templates; the oracle reads the rendered haproxy.cfg.  Every generated
//     snippet line ends with a `#A<snippet>_<line>` comment so that it can be found again.
//
// The oracle never uses the model: it recomputes "first token" with its own splitter.
package main

import (
	"encoding/base64"
	"encoding/json"
	"fmt"
	"math/rand"
	"os"
	"path/filepath"
	"regexp"
	"sort"
	"strings"
	"unicode/utf8"

	"github.com/jcmoraisjr/haproxy-ingress/pkg/converters/ingress/annotations"
	convtypes "github.com/jcmoraisjr/haproxy-ingress/pkg/converters/types"
	hatypes "github.com/jcmoraisjr/haproxy-ingress/pkg/haproxy/types"

	"verif/harness/lib/c1819"
	"verif/harness/lib/hx"
)

// B is a byte string that survives JSON (invalid UTF-8 is stored as base64).
type B string

// MarshalJSON ...
func (b B) MarshalJSON() ([]byte, error) {
	if utf8.ValidString(string(b)) {
		return json.Marshal(string(b))
	}
	return json.Marshal(map[string]string{"b64": base64.StdEncoding.EncodeToString([]byte(b))})
}

// UnmarshalJSON ...
func (b *B) UnmarshalJSON(data []byte) error {
	var s string
	if err := json.Unmarshal(data, &s); err == nil {
		*b = B(s)
		return nil
	}
	var m map[string]string
	if err := json.Unmarshal(data, &m); err != nil {
		return err
	}
	raw, err := base64.StdEncoding.DecodeString(m["b64"])
	*b = B(raw)
	return err
}

type add struct {
	Path  int `json:"path"`
	Value B   `json:"value"`
	// Src is the resource the annotation comes from, "<Type>/<name>" in namespace default
	// ("" = Ingress/app): an Ingress and a Service may carry the same namespace/name
	Src string `json:"src,omitempty"`
}

func (a add) source() *annotations.Source {
	typ, name := "Ingress", "app"
	if f := strings.SplitN(a.Src, "/", 2); len(f) == 2 {
		typ, name = f[0], f[1]
	}
	return &annotations.Source{Namespace: "default", Name: name, Type: convtypes.ResourceType(typ)}
}

type svcObj struct {
	Name    string `json:"name"`
	Snippet *B     `json:"snippet,omitempty"`
}

type ingObj struct {
	Name    string       `json:"name"`
	Snippet *B           `json:"snippet,omitempty"`
	TCPPort int          `json:"tcp_port,omitempty"`
	TCPSnip *B           `json:"tcp_snippet,omitempty"`
	Rules   []c1819.Rule `json:"rules"`
}

type input struct {
	Kind     string `json:"kind"` // updater | pipeline
	Keywords []B    `json:"keywords"`
	Adds     []add  `json:"adds,omitempty"`
	Default  *B     `json:"default,omitempty"` // config-backend in the global ConfigMap
	// More: further backends configured by the SAME updater in the same reconciliation,
	// before (negative order) or after the first one; each is a list of annotations
	More      [][]add      `json:"more_backends,omitempty"`
	MoreFirst bool         `json:"more_first,omitempty"`  // the further backends are processed first
	TCPAdds   []add        `json:"tcp_adds,omitempty"`    // config-tcp-service annotations (updater)
	TCPDflt   *B           `json:"tcp_default,omitempty"` // config-tcp-service in the global ConfigMap
	Global    map[string]B `json:"global,omitempty"`      // global-scope snippet keys
	Written   bool         `json:"written,omitempty"`     // updater: also write the files and read the snippet block back
	Services  []svcObj     `json:"services,omitempty"`
	Ingress   []ingObj     `json:"ingresses,omitempty"`
}

const cfgBackend = "config-backend"

var globalKeys = []string{"config-global", "config-defaults", "config-frontend-early", "config-frontend", "config-frontend-late", "config-sections", "config-tcp"}

// ---------------------------------------------------------------- oracle helpers

func isSpace(c byte) bool {
	return c == ' ' || c == '\t' || c == '\n' || c == '\v' || c == '\f' || c == '\r'
}

// firstTok: the first maximal run of non-blank bytes ("" when there is none).
// Written independently of the implementation's two loops.
func firstTok(line string) string {
	f := strings.FieldsFunc(line, func(r rune) bool { return r < 128 && isSpace(byte(r)) })
	if len(f) == 0 {
		return ""
	}
	return f[0]
}

// haproxyWord: the first word as HAProxy cuts a configuration line (space and tab)
func haproxyWord(line string) string {
	// an unquoted CR ends the statement like LF does (parse_line of HAProxy stops at \n
	// and \r): what follows it on the physical line is not read
	if i := strings.IndexByte(line, '\r'); i >= 0 {
		line = line[:i]
	}
	f := strings.FieldsFunc(line, func(r rune) bool { return r == ' ' || r == '\t' })
	if len(f) == 0 {
		return ""
	}
	return f[0]
}

func listed(kws []B) (star bool, set map[string]bool) {
	set = map[string]bool{}
	for _, k := range kws {
		if k == "" {
			continue
		}
		if k == "*" {
			star = true
		}
		set[string(k)] = true
	}
	return
}

func strs(bs []B) []string {
	out := make([]string, len(bs))
	for i, b := range bs {
		out[i] = string(b)
	}
	return out
}

// ---------------------------------------------------------------- generator

var kwPool = []string{"server", "acl", "http-request", "http-response", "use-server", "mode", "option",
	"tcp-request", "timeout", "stick-table", "default-server", "http", "Server", "use_backend", "bind"}
var tokPool = []string{"server", "acl", "http-request", "http-response", "use-server", "mode", "option",
	"tcp-request", "timeout", "stick-table", "default-server", "serv", "servers", "SERVER", "Server",
	"http-req", "\"server\"", "server#", "server,", "no", "#", "http-request-x", "http", "use_backend", "*"}

// blanks put in front of a token: the six ASCII ones, and what only Unicode calls white
// space or does not show at all (NBSP, NEL, ideographic space, BOM, zero width space),
// alone or after ASCII blanks -- annotation values are arbitrary UTF-8
var wsPool = []string{"", "", " ", "  ", "\t", " \t ", "\v", "\f", "\r", "    ", "\t\t", " \v\f\r\t",
	"\u00a0", "\u0085", "\u3000", " \u00a0", "\t\u3000 ", "\ufeff", "\u200b", "  \u0085\u00a0", "\u2028"}
var sepPool = []string{" ", " ", "  ", "\t", "\v", "\f", "\r"}
var restPool = []string{"srv001 127.0.0.1:8080", "x path /", "deny if x", "set-header x-id 1 if { path / }",
	"tcp", "httplog", "server 1s", "check", "if !{ src 10.0.0.0/8 }", ""}

func pick(rng *rand.Rand, p []string) string { return p[rng.Intn(len(p))] }

func genLine(rng *rand.Rand) string {
	switch rng.Intn(12) {
	case 0:
		return ""
	case 1:
		return pick(rng, wsPool)
	}
	tok := pick(rng, tokPool)
	if rng.Intn(6) == 0 {
		return pick(rng, wsPool) + tok
	}
	l := pick(rng, wsPool) + tok + pick(rng, sepPool) + pick(rng, restPool)
	return l + genCRTail(rng)
}

// genCRTail: a lone CR inside the line followed by what would be a statement of its own if
// the CR ended a line, or a CR at the end (CRLF files)
func genCRTail(rng *rand.Rand) string {
	switch rng.Intn(8) {
	case 0:
		return "\r" + pick(rng, []string{"", " ", "\t", "  "}) + pick(rng, tokPool) + pick(rng, sepPool) + pick(rng, restPool)
	case 1:
		return "\r"
	}
	return ""
}

// hintLines: where a first token could be looked for, by any reading of line ends
func hintLines(v string) []string {
	return strings.FieldsFunc(v, func(r rune) bool { return r == '\n' || r == '\r' })
}

func genSnippet(rng *rand.Rand) string {
	n := 1 + rng.Intn(4)
	var lines []string
	for i := 0; i < n; i++ {
		lines = append(lines, genLine(rng))
	}
	sep := "\n"
	if rng.Intn(10) == 0 {
		sep = "\r\n"
	}
	s := strings.Join(lines, sep)
	if rng.Intn(3) == 0 {
		s = "\n" + s
	}
	s += strings.Repeat("\n", rng.Intn(3))
	return s
}

var junkAlphabet = []byte(" \t\n\v\f\r*servacl-\"#,\x00\x80\xa0\xc2\x85\xff")

func genJunk(rng *rand.Rand) string {
	n := rng.Intn(24)
	b := make([]byte, n)
	for i := range b {
		b[i] = junkAlphabet[rng.Intn(len(junkAlphabet))]
	}
	return string(b)
}

func genValue(rng *rand.Rand) B {
	if rng.Intn(6) == 0 {
		return B(genJunk(rng))
	}
	return B(genSnippet(rng))
}

func genKeywords(rng *rand.Rand, hint []string) []B {
	var kws []B
	n := rng.Intn(4)
	if rng.Intn(8) == 0 {
		n = 0
	}
	for i := 0; i < n; i++ {
		switch r := rng.Intn(20); {
		case r == 0:
			kws = append(kws, "*")
		case r == 1:
			kws = append(kws, "")
		case r == 2:
			kws = append(kws, B(genJunk(rng)))
		case r < 9 && len(hint) > 0:
			// a token that does occur somewhere in the snippets
			kws = append(kws, B(firstTok(hint[rng.Intn(len(hint))])))
		default:
			kws = append(kws, B(pick(rng, kwPool)))
		}
	}
	return kws
}

func bp(s string) *B { b := B(s); return &b }

func genUpdater(rng *rand.Rand) input {
	in := input{Kind: "updater"}
	n := rng.Intn(4)
	if rng.Intn(3) == 0 {
		n = 1
	}
	var hint []string
	for i := 0; i < n; i++ {
		v := genValue(rng)
		in.Adds = append(in.Adds, add{Path: rng.Intn(3), Value: v})
		hint = append(hint, hintLines(string(v))...)
	}
	if rng.Intn(4) == 0 {
		in.Default = bp(string(genValue(rng)))
		hint = append(hint, hintLines(string(*in.Default))...)
	}
	if rng.Intn(3) == 0 {
		for i := 0; i < rng.Intn(3); i++ {
			v := genValue(rng)
			in.TCPAdds = append(in.TCPAdds, add{Path: rng.Intn(2), Value: v})
			hint = append(hint, hintLines(string(v))...)
		}
		if rng.Intn(3) == 0 {
			in.TCPDflt = bp(string(genValue(rng)))
			hint = append(hint, hintLines(string(*in.TCPDflt))...)
		}
	}
	in.Global = map[string]B{}
	for _, k := range globalKeys {
		if rng.Intn(3) == 0 {
			v := genValue(rng)
			in.Global[k] = v
			hint = append(hint, hintLines(string(v))...)
		}
	}
	// several resources in one reconciliation: an Ingress and a Service of the same
	// namespace/name (and of other names), each with a snippet of its own, on several backends
	if rng.Intn(3) == 0 {
		srcs := []string{"Ingress/app", "Service/app", "Service/app", "Ingress/web", "Service/web"}
		for i := range in.Adds {
			in.Adds[i].Src = pick(rng, srcs)
		}
		for b := 0; b < 1+rng.Intn(2); b++ {
			var adds []add
			for i := 0; i < 1+rng.Intn(2); i++ {
				v := genValue(rng)
				adds = append(adds, add{Path: rng.Intn(3), Value: v, Src: pick(rng, srcs)})
				hint = append(hint, hintLines(string(v))...)
			}
			in.More = append(in.More, adds)
		}
		in.MoreFirst = rng.Intn(2) == 0
	}
	in.Keywords = genKeywords(rng, hint)
	in.Written = len(in.Adds) > 0 && rng.Intn(2) == 0
	return in
}

// marked snippet for the pipeline: every line carries a trailing `#<tag>_<n>` comment
func genMarked(rng *rand.Rand, tag string) string {
	n := 1 + rng.Intn(3)
	var lines []string
	for i := 0; i < n; i++ {
		ws := strings.ReplaceAll(pick(rng, wsPool), "\n", "")
		l := ws + pick(rng, tokPool) + pick(rng, sepPool) + pick(rng, restPool) + genCRTail(rng) + fmt.Sprintf(" #%s_%d", tag, i)
		lines = append(lines, l)
		if rng.Intn(5) == 0 {
			lines = append(lines, "")
		}
	}
	s := strings.Join(lines, "\n")
	if rng.Intn(3) == 0 {
		s = "\n" + s
	}
	return s + strings.Repeat("\n", rng.Intn(2))
}

func genPipeline(rng *rand.Rand) input {
	in := input{Kind: "pipeline", Global: map[string]B{}}
	var hint []string
	note := func(s string) string { hint = append(hint, hintLines(s)...); return s }
	sid := 0
	tag := func(p string) string { sid++; return fmt.Sprintf("%s%d", p, sid) }
	nsvc := 1 + rng.Intn(2)
	for i := 0; i < nsvc; i++ {
		s := svcObj{Name: fmt.Sprintf("svc%d", i+1)}
		if rng.Intn(3) == 0 {
			s.Snippet = bp(note(genMarked(rng, tag("A"))))
		}
		in.Services = append(in.Services, s)
	}
	ning := 1 + rng.Intn(3)
	hosts := []string{"h1.local", "h2.local"}
	paths := []string{"/", "/app", "/api"}
	used := map[string]bool{}
	for i := 0; i < ning; i++ {
		g := ingObj{Name: fmt.Sprintf("ing%d", i+1)}
		if rng.Intn(4) != 0 {
			g.Snippet = bp(note(genMarked(rng, tag("A"))))
		}
		if rng.Intn(5) == 0 {
			g.TCPPort = 7000 + i
			if rng.Intn(4) != 0 {
				g.TCPSnip = bp(note(genMarked(rng, tag("T"))))
			}
			g.Rules = []c1819.Rule{{Host: "", Path: "/", Service: in.Services[rng.Intn(nsvc)].Name, Port: 8080}}
		} else {
			for j := 0; j < 1+rng.Intn(2); j++ {
				h, p := hosts[rng.Intn(2)], paths[rng.Intn(3)]
				if used[h+p] {
					continue
				}
				used[h+p] = true
				g.Rules = append(g.Rules, c1819.Rule{Host: h, Path: p, Service: in.Services[rng.Intn(nsvc)].Name, Port: 8080})
			}
		}
		in.Ingress = append(in.Ingress, g)
	}
	if rng.Intn(6) == 0 {
		in.Default = bp(note(genMarked(rng, tag("D"))))
	}
	for _, k := range []string{"config-global", "config-defaults", "config-frontend-early", "config-frontend", "config-sections", "config-tcp-service"} {
		if rng.Intn(3) == 0 {
			v := note(genMarked(rng, tag("G")))
			if k == "config-sections" {
				v = "# section" + v // never starts a proxy by accident
			}
			in.Global[k] = B(v)
		}
	}
	in.Keywords = genKeywords(rng, hint)
	return in
}

func corpus() []input {
	ing := func(s string) []add { return []add{{Path: 0, Value: B(s)}} }
	k := func(s ...string) []B {
		var o []B
		for _, x := range s {
			o = append(o, B(x))
		}
		return o
	}
	return []input{
		// rows of TestCustomConfig
		{Kind: "updater", Keywords: k("server"), Adds: ing("  server srv001 127.0.0.1:8080")},
		{Kind: "updater", Keywords: k("*"), Default: bp("  server srv001 127.0.0.1:8080")},
		{Kind: "updater", Keywords: k("http-response", "acl"), Adds: ing("\n  acl rootpath path /\n  http-request set-header x-id 1 if rootpath\n")},
		{Kind: "updater", Keywords: k("http"), Adds: ing("  http-request set-header x-id 1 if { path / }")},
		// the v0.10/v0.13 regression: an empty keyword (missing command-line option) and blank lines
		{Kind: "updater", Keywords: k("server", ""), Adds: ing("\n  acl rootpath path /\n\n  http-request set-header x-id 1 if rootpath\n")},
		// every blank the table knows in front of the keyword, keyword at end of line
		{Kind: "updater", Keywords: k("server"), Adds: ing("acl a path /\n \t\v\f\rserver")},
		{Kind: "updater", Keywords: k("server"), Adds: ing("acl a path /\r\nserver\vs1 1.1.1.1:80\r\n")},
		// keyword as a prefix / other case: not the keyword
		{Kind: "updater", Keywords: k("server", "http"), Adds: ing(" servers x\n Server y\n http-request deny")},
		// merge: the first registered annotation wins
		{Kind: "updater", Keywords: k("server"), Adds: []add{{Path: 0, Value: " acl a path /"}, {Path: 1, Value: " server s 1.1.1.1:80"}, {Path: 0, Value: "x"}}, Default: bp("mode tcp")},
		{Kind: "updater", Keywords: k("acl"), Adds: []add{{Path: 0, Value: ""}, {Path: 1, Value: " server s 1.1.1.1:80"}}},
		// global-scope keys with `*`
		{Kind: "updater", Keywords: k("*", "tune.bufsize"), Global: map[string]B{"config-global": "tune.bufsize 32768\n", "config-frontend": " acl x path /", "config-frontend-late": ""}},
		// config-tcp-service: annotation filtered (fix C19-tcp-service-snippet-filter), global default not
		{Kind: "updater", Keywords: k("tcp-request"), TCPAdds: ing("  tcp-request content reject"), TCPDflt: bp(" option tcplog")},
		{Kind: "updater", Keywords: k("*"), TCPDflt: bp(" tcp-request content reject")},
		// a blank only Unicode knows in front of the keyword: not the keyword for the filter, and
		// must not become the keyword in the written configuration either
		{Kind: "pipeline", Keywords: k("server"),
			Services: []svcObj{{Name: "svc1"}},
			Ingress:  []ingObj{{Name: "ing1", Snippet: bp("\u00a0server evil 10.0.0.1:8080 #A1_0\n \u3000server evil2 10.0.0.2:8080 #A1_1"), Rules: []c1819.Rule{{Host: "h1.local", Path: "/", Service: "svc1", Port: 8080}}}}},
		{Kind: "updater", Keywords: k("server"), Adds: ing("\u0085server evil 10.0.0.1:8080\n\t\u00a0 server x")},
		// an Ingress and a Service called default/app in one reconciliation, each with its own
		// snippet: each is judged on its own, whichever comes first
		{Kind: "updater", Keywords: k("server"), Adds: []add{{Path: 0, Value: "  acl ok path /", Src: "Ingress/app"}},
			More: [][]add{{{Path: 0, Value: "\tserver injected 10.0.0.9:80", Src: "Service/app"}}}},
		{Kind: "updater", Keywords: k("server"), Adds: []add{{Path: 0, Value: "\tserver injected 10.0.0.9:80", Src: "Service/app"}},
			More: [][]add{{{Path: 0, Value: "  acl ok path /", Src: "Ingress/app"}}}, MoreFirst: true},
		// a lone CR inside a line: a blank for the filter, and the end of the statement for HAProxy;
		// the written file must keep the line in one piece
		{Kind: "updater", Keywords: k("use-server"), Adds: ing("  acl is_root path /\ruse-server srv001 if is_root\n  http-request deny if is_root\r"), Written: true},
		{Kind: "pipeline", Keywords: k("use-server", "server"),
			Services: []svcObj{{Name: "svc1"}},
			Ingress:  []ingObj{{Name: "ing1", Snippet: bp("  acl is_root path /\ruse-server srv001 if is_root #A1_0\r\n  option httplog\r  server x 1.1.1.1:80 #A1_1"), Rules: []c1819.Rule{{Host: "h1.local", Path: "/", Service: "svc1", Port: 8080}}}}},
		// pipeline: service and ingress snippets on one backend, and a TCP service snippet
		{Kind: "pipeline", Keywords: k("server"),
			Services: []svcObj{{Name: "svc1"}},
			Ingress:  []ingObj{{Name: "ing1", Snippet: bp("\tserver x 1.1.1.1:80 #A1_0"), Rules: []c1819.Rule{{Host: "h1.local", Path: "/", Service: "svc1", Port: 8080}}}}},
		{Kind: "pipeline", Keywords: k("*"),
			Services: []svcObj{{Name: "svc1"}},
			Ingress:  []ingObj{{Name: "ing1", TCPPort: 7000, TCPSnip: bp("  tcp-request content reject #T1_0"), Rules: []c1819.Rule{{Host: "", Path: "/", Service: "svc1", Port: 8080}}}}},
	}
}

// ---------------------------------------------------------------- running the implementation

type globalObs struct {
	Global, Defaults, FeEarly, FeLate, Sections, TCP []string
	Proxy                                            map[string][]string
}

type observed struct {
	Custom   []string   `json:"custom_config"`
	TCP      []string   `json:"tcp_custom_config,omitempty"`
	More     [][]string `json:"more_custom_config,omitempty"`
	Written  *string    `json:"written_block,omitempty"` // bytes of the snippet block in haproxy.cfg
	Global   *globalObs `json:"global,omitempty"`
	GlobalNo *globalObs `json:"-"` // same run without keywords
	Cfg      string     `json:"-"` // rendered haproxy.cfg (pipeline)
	CfgNo    string     `json:"-"` // rendered without keywords
	Warn     []string   `json:"warnings,omitempty"`
}

func globalMap(in input) map[string]string {
	m := map[string]string{}
	for k, v := range in.Global {
		m[k] = string(v)
	}
	if in.Default != nil {
		m[cfgBackend] = string(*in.Default)
	}
	return m
}

func readGlobal(p *c1819.Pipe) *globalObs {
	g := p.Instance.Config().Global()
	return &globalObs{Global: g.CustomConfig, Defaults: g.CustomDefaults, FeEarly: g.CustomFrontendEarly,
		FeLate: g.CustomFrontendLate, Sections: g.CustomSections, TCP: g.CustomTCP, Proxy: g.CustomProxy}
}

func runUpdater(in input, scratch string) observed {
	var obs observed
	for pass := 0; pass < 2; pass++ {
		kws := strs(in.Keywords)
		if pass == 1 {
			kws = nil
		}
		gm := globalMap(in)
		// a line of its own right after the snippets of the backend (config-proxy comes next in
		// the template): the end of the block that is read back from the written file
		gm["config-proxy"] = "default_app_8080\n  # SNIPEND"
		p, err := c1819.NewPipe(c1819.PipeOptions{Dir: scratch, DisableKeywords: kws, Global: gm, Render: in.Written && pass == 0})
		if err != nil {
			panic(err)
		}
		p.Sync() // real converter: UpdateGlobalConfig with the real defaults + this ConfigMap
		if pass == 1 {
			obs.GlobalNo = readGlobal(p)
			break
		}
		obs.Global = readGlobal(p)
		// the updater exactly as the converter creates it
		upd := annotations.NewUpdater(p.Instance.Config(), p.Options)
		dflt := map[string]string{}
		if in.Default != nil {
			dflt[cfgBackend] = string(*in.Default)
		}
		mapper := annotations.NewMapBuilder(p.Log, dflt).NewMapper()
		backend := p.Instance.Config().Backends().AcquireBackend("default", "app", "8080")
		src := &annotations.Source{Namespace: "default", Name: "app", Type: "Ingress"}
		for _, a := range in.Adds {
			link := hatypes.CreateHostPathLink("h.local", fmt.Sprintf("/p%d", a.Path), hatypes.MatchBegin)
			backend.AddBackendPath(link)
			mapper.AddAnnotations(a.source(), link, map[string]string{cfgBackend: string(a.Value)})
		}
		// the further backends of the reconciliation, through the same updater
		runMore := func() {
			for i, adds := range in.More {
				mb := p.Instance.Config().Backends().AcquireBackend("default", fmt.Sprintf("more%d", i), "8080")
				mm := annotations.NewMapBuilder(p.Log, dflt).NewMapper()
				for _, a := range adds {
					link := hatypes.CreateHostPathLink(fmt.Sprintf("m%d.local", i), fmt.Sprintf("/p%d", a.Path), hatypes.MatchBegin)
					mb.AddBackendPath(link)
					mm.AddAnnotations(a.source(), link, map[string]string{cfgBackend: string(a.Value)})
				}
				if len(adds) == 0 {
					mb.AddBackendPath(hatypes.CreateHostPathLink(fmt.Sprintf("m%d.local", i), "/", hatypes.MatchBegin))
				}
				upd.UpdateBackendConfig(mb, mm)
				obs.More = append(obs.More, mb.CustomConfig)
			}
		}
		if in.MoreFirst {
			runMore()
		}
		if len(in.Adds) == 0 {
			backend.AddBackendPath(hatypes.CreateHostPathLink("h.local", "/", hatypes.MatchBegin))
		}
		// the cookie line is what the template writes right before the snippets
		backend.Cookie.Name, backend.Cookie.Strategy = "SNIPSTART", "insert"
		p.Log.Msgs = nil
		upd.UpdateBackendConfig(backend, mapper)
		obs.Custom = backend.CustomConfig
		if !in.MoreFirst {
			runMore()
		}
		if in.Written {
			cfg, err := p.Write()
			if err != nil {
				panic(fmt.Sprintf("updater write: %v", err))
			}
			obs.Written = snippetBlock(cfg)
		}
		// config-tcp-service through the real UpdateTCPPortConfig
		tdflt := map[string]string{}
		if in.TCPDflt != nil {
			tdflt["config-tcp-service"] = string(*in.TCPDflt)
		}
		tmapper := annotations.NewMapBuilder(p.Log, tdflt).NewMapper()
		for _, a := range in.TCPAdds {
			link := hatypes.CreateHostPathLink(fmt.Sprintf("t%d.local", a.Path), "/", hatypes.MatchExact)
			tmapper.AddAnnotations(src, link, map[string]string{"config-tcp-service": string(a.Value)})
		}
		tcp := &hatypes.TCPServicePort{}
		upd.UpdateTCPPortConfig(tcp, tmapper)
		obs.TCP = tcp.CustomConfig
		obs.Warn = p.Log.Msgs
	}
	return obs
}

// snippetBlock returns, byte for byte, what haproxy.cfg holds between the cookie line of
// backend default_app_8080 and the `# SNIPEND` line (nil when the anchors are not found)
func snippetBlock(cfg string) *string {
	i := strings.Index(cfg, "\nbackend default_app_8080\n")
	if i < 0 {
		return nil
	}
	j := strings.Index(cfg[i:], "\n    cookie SNIPSTART insert")
	if j < 0 {
		return nil
	}
	start := i + j + 1
	k := strings.IndexByte(cfg[start:], '\n')
	if k < 0 {
		return nil
	}
	start += k + 1
	e := strings.Index(cfg[start:], "    # SNIPEND\n")
	if e < 0 {
		return nil
	}
	b := cfg[start : start+e]
	return &b
}

func runPipeline(in input, scratch string) observed {
	var obs observed
	for pass := 0; pass < 2; pass++ {
		kws := strs(in.Keywords)
		if pass == 1 {
			kws = nil
		}
		p, err := c1819.NewPipe(c1819.PipeOptions{Dir: scratch, DisableKeywords: kws, Global: globalMap(in), Render: true})
		if err != nil {
			panic(err)
		}
		for _, s := range in.Services {
			var ann map[string]string
			if s.Snippet != nil {
				ann = map[string]string{c1819.AnnPrefix + "/" + cfgBackend: string(*s.Snippet)}
			}
			p.AddService("default/"+s.Name, "8080", "172.17.0.11", ann)
		}
		for _, g := range in.Ingress {
			ann := map[string]string{}
			if g.Snippet != nil {
				ann[c1819.AnnPrefix+"/"+cfgBackend] = string(*g.Snippet)
			}
			if g.TCPPort != 0 {
				ann[c1819.AnnPrefix+"/tcp-service-port"] = fmt.Sprint(g.TCPPort)
			}
			if g.TCPSnip != nil {
				ann[c1819.AnnPrefix+"/config-tcp-service"] = string(*g.TCPSnip)
			}
			p.AddIngress("default", g.Name, ann, g.Rules)
		}
		p.Sync()
		cfg, err := p.Write()
		if err != nil {
			panic(fmt.Sprintf("pipeline write: %v", err))
		}
		if pass == 0 {
			obs.Cfg, obs.Global, obs.Warn = cfg, readGlobal(p), p.Log.Msgs
		} else {
			obs.CfgNo, obs.GlobalNo = cfg, readGlobal(p)
		}
	}
	return obs
}

// ---------------------------------------------------------------- oracle (no model)

var markRe = regexp.MustCompile(`#([ATDG])(\d+)_(\d+)$`)

type fail struct{ key, what string }

func sameGlobal(a, b *globalObs) bool {
	ja, _ := json.Marshal(a)
	jb, _ := json.Marshal(b)
	return string(ja) == string(jb)
}

// snippetBad: by the oracle's own reading, the snippet has to be dropped
func snippetBad(v string, star bool, set map[string]bool) bool {
	if star {
		return true
	}
	for _, l := range strings.Split(v, "\n") {
		if t := firstTok(l); t != "" && set[t] {
			return true
		}
	}
	return false
}

func sameNonBlank(a, b []string) bool {
	f := func(in []string) []string {
		var out []string
		for _, l := range in {
			if t := strings.TrimSpace(l); t != "" {
				out = append(out, t)
			}
		}
		return out
	}
	return eqLines(f(a), f(b))
}

func expectLines(v string) []string {
	if v == "" {
		return nil
	}
	return strings.Split(strings.TrimRight(v, "\n"), "\n")
}

func eqLines(a, b []string) bool {
	if len(a) != len(b) {
		return false
	}
	for i := range a {
		if a[i] != b[i] {
			return false
		}
	}
	return true
}

func oracle(in input, obs observed) []fail {
	var fs []fail
	star, set := listed(in.Keywords)
	// global ConfigMap, global-scope keys: the keyword list changes nothing
	if !sameGlobal(obs.Global, obs.GlobalNo) {
		fs = append(fs, fail{"global-affected", "global-scope snippets differ between the run with and the run without --disable-config-keywords"})
	}
	if in.Kind == "updater" {
		check := func(where string, adds []add, emitted []string) {
			if len(adds) == 0 || len(emitted) == 0 {
				return
			}
			// something of an annotation reached the section
			if star {
				fs = append(fs, fail{where + "-star-emitted", fmt.Sprintf("`*` is listed but the %s got %q", where, emitted)})
			}
			for _, l := range emitted {
				if t := firstTok(l); t != "" && set[t] {
					fs = append(fs, fail{where + "-keyword-emitted", fmt.Sprintf("line %q starts with the disabled keyword %q", l, t)})
					break
				}
			}
			// dropped as a whole: what is emitted comes, line by line, from a snippet that
			// has no line starting with a listed keyword (blank lines and surrounding
			// blanks are not compared: how lines are cut is not part of the property)
			from := false
			for _, a := range adds {
				if snippetBad(string(a.Value), star, set) {
					continue
				}
				have := map[string]bool{}
				for _, l := range strings.Split(string(a.Value), "\n") {
					have[strings.TrimSpace(l)] = true
				}
				all := true
				for _, l := range emitted {
					if t := strings.TrimSpace(l); t != "" && !have[t] {
						all = false
					}
				}
				if all {
					from = true
				}
			}
			if !from {
				fs = append(fs, fail{where + "-partial", fmt.Sprintf("emitted %q does not come from an annotation snippet free of disabled keywords", emitted)})
			}
		}
		check("backend", in.Adds, obs.Custom)
		for i, adds := range in.More {
			if i < len(obs.More) {
				check("backend", adds, obs.More[i])
			}
		}
		if obs.Written != nil && len(in.Adds) > 0 {
			// the WRITTEN bytes, cut in lines as HAProxy reads them (LF ends a line)
			for _, l := range strings.Split(*obs.Written, "\n") {
				if strings.TrimSpace(l) == "" {
					continue
				}
				t, w := firstTok(l), haproxyWord(l)
				if star {
					fs = append(fs, fail{"backend-star-emitted", fmt.Sprintf("`*` is listed but the written backend section has the snippet line %q", l)})
					break
				}
				if (t != "" && set[t]) || (w != "" && set[w]) {
					fs = append(fs, fail{"backend-keyword-emitted", fmt.Sprintf("written line %q starts with a disabled keyword (%q / %q)", l, t, w)})
					break
				}
			}
		} else if in.Written && obs.Written == nil {
			fs = append(fs, fail{"backend-written-block-lost", "the snippet block of backend default_app_8080 cannot be located in the written haproxy.cfg"})
		}
		check("tcp-service", in.TCPAdds, obs.TCP)
		if len(in.TCPAdds) == 0 {
			want := ""
			if in.TCPDflt != nil {
				want = string(*in.TCPDflt)
			}
			if !sameNonBlank(obs.TCP, strings.Split(want, "\n")) {
				fs = append(fs, fail{"global-affected", fmt.Sprintf("config-tcp-service of the global ConfigMap: configured %q, got %q", want, obs.TCP)})
			}
		}
		return fs
	}
	// pipeline: look at the rendered file
	present := map[string]map[string]bool{} // section -> marker -> seen
	var sections []string
	for _, s := range c1819.Sections(obs.Cfg) {
		name := s.Kind + " " + s.Name
		for _, l := range s.Lines {
			m := markRe.FindStringSubmatch(l)
			if m == nil {
				continue
			}
			if present[name] == nil {
				present[name] = map[string]bool{}
				sections = append(sections, name)
			}
			present[name][m[0]] = true
			kind := m[1]
			if kind != "A" && kind != "T" {
				continue
			}
			where := "backend"
			if kind == "T" {
				where = "tcp-service"
			}
			if star {
				fs = append(fs, fail{where + "-star-emitted", fmt.Sprintf("`*` is listed but section %q has the annotation line %q", name, l)})
			} else if t, w := firstTok(l), haproxyWord(l); set[t] || set[w] {
				// the RENDERED line, cut as HAProxy does (space, tab) and with every ASCII blank
				if set[w] {
					t = w
				}
				fs = append(fs, fail{where + "-keyword-emitted", fmt.Sprintf("section %q: line %q starts with the disabled keyword %q", name, l, t)})
			}
		}
	}
	// dropped as a whole: no line of a snippet that has to be dropped is rendered
	bad := map[string]bool{}
	note := func(snip *B) {
		if snip == nil || !snippetBad(string(*snip), star, set) {
			return
		}
		for _, l := range strings.Split(string(*snip), "\n") {
			if m := markRe.FindStringSubmatch(l); m != nil {
				bad[m[1]+m[2]] = true
			}
		}
	}
	for _, s := range in.Services {
		note(s.Snippet)
	}
	for _, g := range in.Ingress {
		note(g.Snippet)
		note(g.TCPSnip)
	}
	for _, name := range sections {
		for mk := range present[name] {
			m := markRe.FindStringSubmatch(mk)
			if (m[1] == "A" || m[1] == "T") && bad[m[1]+m[2]] {
				where := "backend"
				if m[1] == "T" {
					where = "tcp-service"
				}
				fs = append(fs, fail{where + "-partial", fmt.Sprintf("section %q has line %s of snippet %s%s, which has a line starting with a disabled keyword", name, m[3], m[1], m[2])})
			}
		}
	}
	// global-scope lines: exactly those of the rendering without keywords
	gl := func(cfg string) []string {
		var out []string
		for _, l := range strings.Split(cfg, "\n") {
			if m := markRe.FindStringSubmatch(l); m != nil && m[1] == "G" {
				out = append(out, l)
			}
		}
		sort.Strings(out)
		return out
	}
	if a, b := gl(obs.Cfg), gl(obs.CfgNo); !eqLines(a, b) {
		fs = append(fs, fail{"global-affected", fmt.Sprintf("rendered global-scope snippet lines differ: with keywords %q, without %q", a, b)})
	}
	return fs
}

// ---------------------------------------------------------------- Coq printing

func coqStrs(ss []string) string {
	out := make([]string, len(ss))
	for i, s := range ss {
		out[i] = hx.Str(s)
	}
	return hx.List(out)
}

func coqCase(id int, in input, obs observed) string {
	var adds []string
	for _, a := range in.Adds {
		adds = append(adds, hx.Tuple(hx.N(a.Path), hx.Str(string(a.Value))))
	}
	dflt := "None"
	if in.Default != nil {
		dflt = "(Some " + hx.Str(string(*in.Default)) + ")"
	}
	g := func(k string) string { return hx.Str(string(in.Global[k])) }
	glob := fmt.Sprintf("(Some ({| g_global := %s; g_defaults := %s; g_fe_early := %s; g_fe := %s; g_fe_late := %s; g_sections := %s; g_tcp := %s |}, "+
		"{| o_global := %s; o_defaults := %s; o_fe_early := %s; o_fe_late := %s; o_sections := %s; o_tcp := %s |}))",
		g("config-global"), g("config-defaults"), g("config-frontend-early"), g("config-frontend"), g("config-frontend-late"), g("config-sections"), g("config-tcp"),
		coqStrs(obs.Global.Global), coqStrs(obs.Global.Defaults), coqStrs(obs.Global.FeEarly), coqStrs(obs.Global.FeLate), coqStrs(obs.Global.Sections), coqStrs(obs.Global.TCP))
	var tadds []string
	for _, a := range in.TCPAdds {
		tadds = append(tadds, hx.Tuple(hx.N(a.Path), hx.Str(string(a.Value))))
	}
	tdflt := "None"
	if in.TCPDflt != nil {
		tdflt = "(Some " + hx.Str(string(*in.TCPDflt)) + ")"
	}
	var more []string
	for i, madds := range in.More {
		var as []string
		for _, a := range madds {
			as = append(as, hx.Tuple(hx.N(a.Path), hx.Str(string(a.Value))))
		}
		var got []string
		if i < len(obs.More) {
			got = obs.More[i]
		}
		more = append(more, hx.Tuple(hx.List(as), coqStrs(got)))
	}
	written := "None"
	if obs.Written != nil {
		written = "(Some " + hx.Str(*obs.Written) + ")"
	}
	return fmt.Sprintf("{| cid := %s; ckws := %s; cadds := %s; cdflt := %s; cobs := %s; cglob := %s; ctadds := %s; ctdflt := %s; ctobs := %s; cwritten := %s; cmore := %s |}",
		hx.N(id), coqStrs(strs(in.Keywords)), hx.List(adds), dflt, coqStrs(obs.Custom), glob, hx.List(tadds), tdflt, coqStrs(obs.TCP), written, hx.List(more))
}

// ---------------------------------------------------------------- main

func nontrivial(in input) bool {
	_, set := listed(in.Keywords)
	if len(set) == 0 {
		return false
	}
	has := func(b *B) bool { return b != nil && strings.TrimSpace(string(*b)) != "" }
	for _, a := range append(append([]add{}, in.Adds...), in.TCPAdds...) {
		v := a.Value
		if has(&v) {
			return true
		}
	}
	for _, s := range in.Services {
		if has(s.Snippet) {
			return true
		}
	}
	for _, g := range in.Ingress {
		if has(g.Snippet) || has(g.TCPSnip) {
			return true
		}
	}
	return false
}

func main() {
	o := hx.Parse()
	abs, err := filepath.Abs(o.Out)
	if err != nil {
		panic(err)
	}
	o.Out = abs
	scratch := filepath.Join(abs, "scratch")
	rng := o.Rng()
	res := hx.NewResult("C19", "keyword lists (0..3 entries from a pool of HAProxy keywords, `*`, empty, junk, tokens occurring in the snippets) x config-backend annotation sequences (1..3 AddAnnotations calls on 1..3 paths, optional global default; lines = blanks from {space,\\t,\\v,\\f,\\r} + token (keyword, prefix, other case, quoted) + rest; empty lines, CRLF, leading/trailing newlines; 1/6 raw byte junk) through the real updater, plus Ingress/Service/TCP-service objects with marked snippets through the real converter and templates; non-trivial = at least one non-empty keyword and one non-blank annotation snippet; distinct by canonical JSON of the input")
	cw := hx.NewCaseWriter(o, res, "From HI Require Import Corr.Corr_C19.", "ccase", 300)
	var inputs []input
	if o.Replay != "" {
		var in input
		hx.ReadReplay(o.Replay, &in)
		inputs = append(inputs, in)
	} else {
		for _, f := range c1819.CorpusFiles("c19") {
			var in input
			hx.ReadReplay(f, &in)
			inputs = append(inputs, in)
		}
		inputs = append(inputs, corpus()...)
		nu, np := o.Count(1800, 24000), o.Count(300, 3000)
		if o.Search {
			nu, np = 40000, 4000
		}
		for i := 0; i < nu+np; i++ {
			// one PRNG; pipeline cases are interleaved
			if i%(1+nu/np) == 0 && np > 0 {
				inputs = append(inputs, genPipeline(rng))
			} else {
				inputs = append(inputs, genUpdater(rng))
			}
		}
	}
	for _, in := range inputs {
		var obs observed
		if in.Kind == "pipeline" {
			obs = runPipeline(in, scratch)
		} else {
			in.Kind = "updater"
			obs = runUpdater(in, scratch)
		}
		canon, _ := json.Marshal(in)
		res.Seen(string(canon), nontrivial(in))
		res.Count("kind=" + in.Kind)
		res.Count(fmt.Sprintf("keywords=%d", len(in.Keywords)))
		star, set := listed(in.Keywords)
		if star {
			res.Count("star_listed")
		}
		if in.Kind == "updater" {
			res.Count(fmt.Sprintf("adds=%d", len(in.Adds)))
			if obs.Written != nil {
				res.Count("written_block_read_back")
			}
			if len(obs.Custom) > 0 {
				res.Count("backend_emitted")
			} else if len(in.Adds) > 0 && in.Adds[0].Value != "" {
				if len(set) > 0 {
					res.Count("backend_dropped")
				} else {
					res.Count("backend_empty_lines")
				}
			}
			if len(in.TCPAdds) > 0 {
				res.Count("tcp_annotation")
				if len(obs.TCP) > 0 {
					res.Count("tcp_emitted")
				}
			}
			res.Sample(5, map[string]interface{}{"input": in, "custom_config": obs.Custom, "tcp_custom_config": obs.TCP, "warnings": obs.Warn})
		} else {
			if strings.Contains(obs.Cfg, "#A") {
				res.Count("pipeline_emitted")
			}
			if strings.Contains(obs.CfgNo, "#A") && !strings.Contains(obs.Cfg, "#A") {
				res.Count("pipeline_all_dropped")
			}
		}
		res.OracleChecks++
		for _, f := range oracle(in, obs) {
			res.Count("oracle_fail_" + f.key)
			res.Fail(hx.Failure{Key: "C19/" + f.key, What: f.what, Input: in, Observed: map[string]interface{}{"custom_config": obs.Custom, "tcp_custom_config": obs.TCP, "warnings": obs.Warn}})
		}
		if !o.Search && in.Kind == "updater" {
			in, obs := in, obs
			cw.Add(func(id int) string { return coqCase(id, in, obs) }, in)
		}
	}
	cw.Flush()
	_ = os.RemoveAll(scratch)
	res.Write(o)
}
