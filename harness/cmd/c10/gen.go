package main

import (
	"fmt"
	"math/rand"
)

const ourController = "haproxy-ingress.github.io/controller"

func ps(s string) *string { return &s }
func pi(i int) *int       { return &i }

func pickS(rng *rand.Rand, l []string) string { return l[rng.Intn(len(l))] }
func pickI(rng *rand.Rand, l []int) int       { return l[rng.Intn(len(l))] }

// pickP picks a *string from a pool where "\x00" stands for nil.
func pickP(rng *rand.Rand, l []string) *string {
	s := l[rng.Intn(len(l))]
	if s == "\x00" {
		return nil
	}
	return &s
}

const nilS = "\x00"

var nsPool = []string{"a", "b", "c"}
var labelSets = [][][2]string{
	{{"env", "prod"}, {"team", "x"}},
	{{"env", "dev"}, {"team", "x"}},
	{{"env", "prod"}},
	{{"team", "y"}},
	{},
}

func genSelector(rng *rand.Rand, malformed bool) *selectorIn {
	s := &selectorIn{Labels: [][2]string{}, Exprs: []exprIn{}}
	switch rng.Intn(10) {
	case 6, 7, 8, 9: // matchLabels and matchExpressions together: both must hold
		s.Labels = append(s.Labels, [2]string{pickS(rng, []string{"env", "env", "team"}), pickS(rng, []string{"prod", "prod", "dev", "x"})})
		switch rng.Intn(4) {
		case 0:
			s.Exprs = append(s.Exprs, exprIn{Key: pickS(rng, []string{"team", "env"}), Op: "In", Values: []string{pickS(rng, []string{"x", "y", "prod"})}})
		case 1:
			s.Exprs = append(s.Exprs, exprIn{Key: pickS(rng, []string{"team", "env"}), Op: "NotIn", Values: []string{pickS(rng, []string{"x", "y", "prod"})}})
		case 2:
			s.Exprs = append(s.Exprs, exprIn{Key: pickS(rng, []string{"team", "zone"}), Op: "Exists", Values: []string{}})
		default:
			s.Exprs = append(s.Exprs, exprIn{Key: pickS(rng, []string{"team", "zone"}), Op: "DoesNotExist", Values: []string{}})
		}
	case 0: // empty selector: everything
	case 1:
		s.Labels = append(s.Labels, [2]string{"env", pickS(rng, []string{"prod", "dev"})})
	case 2:
		s.Labels = append(s.Labels, [2]string{"env", "prod"}, [2]string{"team", pickS(rng, []string{"x", "y"})})
	case 3:
		s.Exprs = append(s.Exprs, exprIn{Key: "env", Op: pickS(rng, []string{"In", "NotIn"}), Values: []string{pickS(rng, []string{"prod", "dev", "qa"})}})
	case 4:
		s.Exprs = append(s.Exprs, exprIn{Key: pickS(rng, []string{"team", "env", "zone"}), Op: pickS(rng, []string{"Exists", "DoesNotExist"}), Values: []string{}})
	default:
		s.Labels = append(s.Labels, [2]string{"team", "x"})
		s.Exprs = append(s.Exprs, exprIn{Key: "env", Op: "In", Values: []string{"prod", "dev"}})
	}
	if malformed && rng.Intn(3) == 0 {
		switch rng.Intn(3) {
		case 0:
			s.Exprs = append(s.Exprs, exprIn{Key: "env", Op: "In", Values: []string{}})
		case 1:
			s.Exprs = append(s.Exprs, exprIn{Key: "env", Op: "Exists", Values: []string{"prod"}})
		default:
			s.Exprs = append(s.Exprs, exprIn{Key: "env", Op: "Matches", Values: []string{"prod"}})
		}
	}
	return s
}

func genAllowed(rng *rand.Rand, malformed bool) *allowedIn {
	if rng.Intn(20) == 0 {
		return nil
	}
	a := &allowedIn{Kinds: []kindIn{}}
	switch rng.Intn(14) {
	case 0, 1, 2, 9, 10, 11, 12, 13: // no kinds: all
	case 3, 4:
		a.Kinds = []kindIn{{Kind: "HTTPRoute"}}
	case 5:
		a.Kinds = []kindIn{{Kind: "TCPRoute"}}
	case 6:
		a.Kinds = []kindIn{{Group: ps("gateway.networking.k8s.io"), Kind: "HTTPRoute"}, {Kind: "TCPRoute"}}
	case 7:
		a.Kinds = []kindIn{{Group: ps("other.k8s.io"), Kind: "HTTPRoute"}}
	default:
		a.Kinds = []kindIn{{Group: ps(""), Kind: "HTTPRoute"}, {Kind: "GRPCRoute"}}
	}
	if rng.Intn(25) == 0 {
		return a // namespaces nil
	}
	rn := &routeNsIn{}
	switch r := rng.Intn(20); {
	case r < 4:
		rn.From = ps("Same")
	case r < 13:
		rn.From = ps("All")
	case r < 19:
		rn.From = ps("Selector")
		if rng.Intn(15) != 0 {
			rn.Selector = genSelector(rng, malformed)
		}
	default:
		if rng.Intn(2) == 0 {
			rn.From = ps("None")
		}
	}
	if rng.Intn(10) == 0 && rn.Selector == nil {
		rn.Selector = genSelector(rng, false) // selector without From=Selector is ignored
	}
	a.Namespaces = rn
	return a
}

func genCluster(rng *rand.Rand) *clusterIn {
	in := &clusterIn{Controller: ourController, Stamp: rng.Intn(8) != 0, Malformed: rng.Intn(10) == 0}
	in.Classes = []classIn{{Name: "haproxy", Controller: ourController}, {Name: "other", Controller: "example.com/other-controller"}}
	if rng.Intn(25) == 0 {
		in.Classes = in.Classes[1:] // our class is missing
	}
	for i, n := range nsPool {
		if rng.Intn(12) == 0 {
			continue // no Namespace object
		}
		ls := labelSets[rng.Intn(len(labelSets))]
		_ = i
		in.Namespaces = append(in.Namespaces, nsIn{Name: n, Labels: ls})
	}
	if in.Namespaces == nil {
		in.Namespaces = []nsIn{}
	}
	// services
	in.Services = []serviceIn{}
	for _, ns := range nsPool {
		for si := 0; si < 2; si++ {
			if rng.Intn(10) == 0 {
				continue
			}
			s := serviceIn{NS: ns, Name: fmt.Sprintf("s%d", si)}
			if rng.Intn(3) == 0 {
				s.Ports = []svcPortIn{{Name: "http", Port: 80, Target: pi(9090)}, {Name: "adm", Port: 8081, Target: nil}}
			} else {
				s.Ports = []svcPortIn{{Name: pickS(rng, []string{"http", "http", ""}), Port: 8080, Target: pi(8080)}}
			}
			if rng.Intn(15) != 0 {
				n := rng.Intn(4)
				sub := subsetIn{Addrs: []string{}, Ports: []epPortIn{{Name: s.Ports[0].Name, Port: 8080, TCP: true}}}
				if s.Ports[0].Port == 80 {
					sub.Ports[0].Port = 9090
					sub.Ports = append(sub.Ports, epPortIn{Name: "adm", Port: 8081, TCP: true})
				}
				if rng.Intn(12) == 0 {
					sub.Ports = append(sub.Ports, epPortIn{Name: s.Ports[0].Name, Port: 5353, TCP: false})
				}
				for a := 0; a < n; a++ {
					sub.Addrs = append(sub.Addrs, fmt.Sprintf("10.%d.%d.%d", int(ns[0]-'a'), si, a+1))
				}
				subs := []subsetIn{sub}
				if rng.Intn(12) == 0 {
					subs = append(subs, subsetIn{Addrs: []string{fmt.Sprintf("10.%d.%d.99", int(ns[0]-'a'), si)}, Ports: []epPortIn{{Name: s.Ports[0].Name, Port: 8088, TCP: true}}})
				}
				s.Endpoints = &subs
			}
			in.Services = append(in.Services, s)
		}
	}
	// gateways
	in.Gateways = []gatewayIn{}
	ng := 1 + rng.Intn(3)
	usedGw := map[string]bool{}
	var gwNames []string
	for i := 0; i < ng; i++ {
		g := gatewayIn{NS: pickS(rng, []string{"a", "a", "b"}), Name: fmt.Sprintf("gw%d", rng.Intn(2)),
			Class: pickS(rng, []string{"haproxy", "haproxy", "haproxy", "haproxy", "haproxy", "haproxy", "haproxy", "haproxy", "haproxy", "haproxy", "haproxy", "other", "other", "ghost"})}
		if usedGw[g.NS+"/"+g.Name] {
			continue
		}
		usedGw[g.NS+"/"+g.Name] = true
		gwNames = append(gwNames, g.Name)
		nl := 1 + rng.Intn(3)
		for j := 0; j < nl; j++ {
			l := listenerIn{Name: fmt.Sprintf("l%d", j), Port: []int{80, 443, 8080, 6379, 5432}[rng.Intn(5)],
				Protocol: pickS(rng, []string{"HTTP", "HTTP", "HTTP", "HTTPS", "TLS", "TCP", "TCP", "UDP"}),
				Hostname: pickP(rng, []string{nilS, nilS, nilS, nilS, "", "*", "gw.example", "a.example", "*.example", "*.wild.example"})}
			if rng.Intn(25) == 0 {
				l.Protocol = pickS(rng, []string{"", "example.com/custom"})
			}
			// TLS: terminate with a resolvable / dangling certificate, or passthrough
			if l.Protocol == "HTTPS" || l.Protocol == "TLS" || rng.Intn(12) == 0 {
				switch rng.Intn(5) {
				case 0:
					l.TLS = &tlsIn{Mode: ps("Passthrough"), Certs: []string{}}
				case 1:
					l.TLS = &tlsIn{Mode: ps("Terminate"), Certs: []string{"crt0"}}
				case 2:
					l.TLS = &tlsIn{Mode: nil, Certs: []string{pickS(rng, []string{"crt0", "missing"})}}
				case 3:
					l.TLS = &tlsIn{Mode: ps("Terminate"), Certs: []string{}}
				default:
					if rng.Intn(2) == 0 {
						l.TLS = &tlsIn{Mode: ps("Passthrough"), Certs: []string{}}
					}
				}
			}
			if in.Malformed && rng.Intn(4) == 0 && j > 0 {
				l.Name = "l0"
			}
			l.Allowed = genAllowed(rng, in.Malformed)
			g.Listeners = append(g.Listeners, l)
		}
		in.Gateways = append(in.Gateways, g)
	}
	// routes
	in.Routes = []routeIn{}
	nh := 1 + rng.Intn(4)
	nt := rng.Intn(3)
	used := map[string]bool{}
	for i := 0; i < nh+nt; i++ {
		r := routeIn{TCP: i >= nh, NS: pickS(rng, []string{"a", "a", "a", "b", "b", "c"}), Name: fmt.Sprintf("r%d", rng.Intn(4)), TS: []int64{0, 0, 0, 10, 20}[rng.Intn(5)], Hostnames: []string{}}
		k := fmt.Sprint(r.TCP, r.NS, r.Name)
		if used[k] {
			continue
		}
		used[k] = true
		np := 1 + rng.Intn(2)
		if rng.Intn(15) == 0 {
			np = 0
		}
		r.Parents = []parentIn{}
		for j := 0; j < np; j++ {
			// aim at an existing gateway, then perturb each dimension with a small probability
			tg := in.Gateways[rng.Intn(len(in.Gateways))]
			p := parentIn{Name: tg.Name, NS: ps(tg.NS)}
			if tg.NS == r.NS && rng.Intn(2) == 0 {
				p.NS = pickP(rng, []string{nilS, nilS, ""})
			}
			if rng.Intn(8) == 0 {
				p.NS = pickP(rng, []string{nilS, "", "a", "b", "c"})
			}
			if rng.Intn(12) == 0 {
				p.Name = pickS(rng, []string{"gw0", "gw1", "missing"})
			}
			p.Group = pickP(rng, []string{nilS, nilS, nilS, nilS, nilS, nilS, nilS, nilS, nilS, nilS, nilS, nilS, "", "", "gateway.networking.k8s.io", "gateway.networking.k8s.io", "gateway.networking.k8s.io", "other.k8s.io"})
			p.Kind = pickP(rng, []string{nilS, nilS, nilS, nilS, nilS, nilS, nilS, nilS, nilS, nilS, nilS, nilS, "", "", "Gateway", "Gateway", "Gateway", "Service"})
			if rng.Intn(3) == 0 {
				p.Section = ps(tg.Listeners[rng.Intn(len(tg.Listeners))].Name)
				if rng.Intn(5) == 0 {
					p.Section = pickP(rng, []string{"l0", "l1", "l2", "zz"})
				}
			}
			if in.Malformed && rng.Intn(4) == 0 {
				p.Section = ps("")
			}
			r.Parents = append(r.Parents, p)
		}
		if !r.TCP {
			nhn := rng.Intn(3)
			for j := 0; j < nhn; j++ {
				r.Hostnames = append(r.Hostnames, pickS(rng, []string{"a.example", "a.example", "b.example", "gw.example", "x.wild.example", "*.wild.example", "*.example", "*"}))
			}
		}
		nr := 1 + rng.Intn(2)
		if rng.Intn(20) == 0 {
			nr = 0
		}
		r.Rules = []ruleIn{}
		for j := 0; j < nr; j++ {
			ru := ruleIn{Matches: []matchIn{}, Backends: []backendIn{}}
			if !r.TCP {
				nm := rng.Intn(3)
				for k := 0; k < nm; k++ {
					m := matchIn{Headers: []headerIn{}}
					if rng.Intn(5) != 0 {
						m.Path = &pathIn{Type: pickP(rng, []string{nilS, "Exact", "PathPrefix", "PathPrefix", "RegularExpression", "Other"}),
							Value: pickP(rng, []string{nilS, "/", "/app", "/app", "/api/v1", ""})}
					}
					if rng.Intn(5) == 0 {
						m.Headers = append(m.Headers, headerIn{Name: "x-env", Value: pickS(rng, []string{"prod", "dev"}),
							Type: pickP(rng, []string{nilS, "Exact", "RegularExpression"})})
					}
					ru.Matches = append(ru.Matches, m)
				}
			}
			nb := 1 + rng.Intn(2)
			if rng.Intn(15) == 0 {
				nb = 0
			}
			for k := 0; k < nb; k++ {
				b := backendIn{Name: pickS(rng, []string{"s0", "s0", "s0", "s1", "s1", "s1", "nosvc"}), Port: pi(8080)}
				// mostly a port the service has
				for _, s := range in.Services {
					if s.NS == r.NS && s.Name == b.Name {
						b.Port = pi(s.Ports[0].Port)
						if s.Ports[0].Target != nil && rng.Intn(4) == 0 {
							b.Port = pi(*s.Ports[0].Target)
						}
					}
				}
				switch rng.Intn(16) {
				case 0:
					b.Port = nil
				case 1:
					b.Port = pi(1)
				case 2:
					b.Port = pi(pickI(rng, []int{80, 8080, 9090, 8081}))
				}
				switch rng.Intn(9) {
				case 0, 1, 2:
					b.Weight = nil
				case 3:
					b.Weight = pi(0)
				case 4:
					b.Weight = pi(1)
				case 5:
					b.Weight = pi(2)
				case 6:
					b.Weight = pi(5)
				case 7:
					b.Weight = pi(100)
				default:
					b.Weight = pi([]int{256, 1000, 7, 13}[rng.Intn(4)])
				}
				ru.Backends = append(ru.Backends, b)
			}
			r.Rules = append(r.Rules, ru)
		}
		in.Routes = append(in.Routes, r)
	}
	// API versions
	vs := []string{"v1", "v1beta1", "v1alpha2"}
	if rng.Intn(4) != 0 {
		in.Version = vs[rng.Intn(3)]
	} else {
		// mixed: two or three versions enabled, objects spread over them
		in.Version = "v1"
		in.Enabled = []string{"v1", "v1beta1", "v1alpha2"}
		if rng.Intn(2) == 0 {
			drop := rng.Intn(3)
			in.Enabled = append(append([]string{}, in.Enabled[:drop]...), in.Enabled[drop+1:]...)
		}
		pickV := func() string { return in.Enabled[rng.Intn(len(in.Enabled))] }
		var classes []classIn
		for _, c := range in.Classes {
			for _, v := range in.Enabled {
				if rng.Intn(6) != 0 {
					classes = append(classes, classIn{Name: c.Name, Controller: c.Controller, V: v})
				}
			}
		}
		in.Classes = classes
		for i := range in.Gateways {
			in.Gateways[i].V = pickV()
		}
		// the same gateway name declared in another version too, possibly with another class
		if rng.Intn(3) == 0 && len(in.Gateways) > 0 {
			g := in.Gateways[rng.Intn(len(in.Gateways))]
			for _, v := range in.Enabled {
				if v != g.V {
					g2 := g
					g2.V = v
					if rng.Intn(3) == 0 {
						g2.Class = "other"
					}
					in.Gateways = append(in.Gateways, g2)
					break
				}
			}
		}
		for i := range in.Routes {
			if !in.Routes[i].TCP {
				in.Routes[i].V = pickV()
			}
		}
	}
	return in
}
