package main

// The JSON form of one generated cluster; it mirrors coq/Model/Gateway.v.

type classIn struct {
	Name       string `json:"name"`
	Controller string `json:"controller"`
	V          string `json:"v,omitempty"` // API version, "" = the cluster's
}

type exprIn struct {
	Key    string   `json:"key"`
	Op     string   `json:"op"`
	Values []string `json:"values"`
}

type selectorIn struct {
	Labels [][2]string `json:"labels"`
	Exprs  []exprIn    `json:"exprs"`
}

type routeNsIn struct {
	From     *string     `json:"from"`
	Selector *selectorIn `json:"selector"`
}

type kindIn struct {
	Group *string `json:"group"`
	Kind  string  `json:"kind"`
}

type allowedIn struct {
	Kinds      []kindIn   `json:"kinds"`
	Namespaces *routeNsIn `json:"namespaces"`
}

// tlsIn is the listener's tls block: mode (nil-able) and the names of the certificateRefs.
type tlsIn struct {
	Mode  *string  `json:"mode"`
	Certs []string `json:"certs"`
}

type listenerIn struct {
	Name     string     `json:"name"`
	Hostname *string    `json:"hostname"`
	Port     int        `json:"port"`
	Protocol string     `json:"protocol"`
	TLS      *tlsIn     `json:"tls,omitempty"`
	Allowed  *allowedIn `json:"allowed"`
}

type gatewayIn struct {
	NS        string       `json:"ns"`
	Name      string       `json:"name"`
	Class     string       `json:"class"`
	Listeners []listenerIn `json:"listeners"`
	V         string       `json:"v,omitempty"`
}

type parentIn struct {
	Group   *string `json:"group"`
	Kind    *string `json:"kind"`
	NS      *string `json:"ns"`
	Name    string  `json:"name"`
	Section *string `json:"section"`
}

type headerIn struct {
	Name  string  `json:"name"`
	Value string  `json:"value"`
	Type  *string `json:"type"`
}

type pathIn struct {
	Type  *string `json:"type"`
	Value *string `json:"value"`
}

type matchIn struct {
	Path    *pathIn    `json:"path"`
	Headers []headerIn `json:"headers"`
}

type backendIn struct {
	Name   string `json:"name"`
	Port   *int   `json:"port"`
	Weight *int   `json:"weight"`
}

type ruleIn struct {
	Matches  []matchIn   `json:"matches"`
	Backends []backendIn `json:"backends"`
}

type routeIn struct {
	TCP       bool       `json:"tcp"`
	NS        string     `json:"ns"`
	Name      string     `json:"name"`
	TS        int64      `json:"ts"` // creation timestamp, seconds after a fixed epoch
	Parents   []parentIn `json:"parents"`
	Hostnames []string   `json:"hostnames"`
	Rules     []ruleIn   `json:"rules"`
	V         string     `json:"v,omitempty"` // HTTPRoute only; a TCPRoute is always v1alpha2
}

type svcPortIn struct {
	Name   string `json:"name"`
	Port   int    `json:"port"`
	Target *int   `json:"target"` // nil: a named target port
}

type epPortIn struct {
	Name string `json:"name"`
	Port int    `json:"port"`
	TCP  bool   `json:"tcp"`
}

type subsetIn struct {
	Addrs []string   `json:"addrs"`
	Ports []epPortIn `json:"ports"`
}

type serviceIn struct {
	NS        string      `json:"ns"`
	Name      string      `json:"name"`
	Ports     []svcPortIn `json:"ports"`
	Endpoints *[]subsetIn `json:"endpoints"` // nil: no Endpoints object
}

type nsIn struct {
	Name   string      `json:"name"`
	Labels [][2]string `json:"labels"`
}

// clusterIn is one input. Stamp: the client fills TypeMeta like the informer cache of
// controller-runtime does. Malformed: holds values the API server would reject (empty sectionName,
// duplicate listener names, unknown selector operators...): correspondence only, no oracle.
//
// Version: the Gateway API version ("v1", "v1beta1", "v1alpha2"; "" = "v1") in which GatewayClass,
// Gateway and HTTPRoute objects are declared unless they carry their own V. Enabled: the versions
// the controller reads (converters.Sync runs one gateway sync per enabled version, in the order
// v1, v1beta1, v1alpha2); empty = only Version. With the fake client an object exists in its
// declared version only (a real API server serves every object in all versions).
type clusterIn struct {
	Version    string      `json:"version,omitempty"`
	Enabled    []string    `json:"enabled,omitempty"`
	Controller string      `json:"controller"`
	Stamp      bool        `json:"stamp"`
	Malformed  bool        `json:"malformed"`
	Classes    []classIn   `json:"classes"`
	Gateways   []gatewayIn `json:"gateways"`
	Routes     []routeIn   `json:"routes"`
	Services   []serviceIn `json:"services"`
	Namespaces []nsIn      `json:"namespaces"`
}
