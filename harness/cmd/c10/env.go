package main

import (
	"context"
	"crypto/ecdsa"
	"crypto/elliptic"
	"crypto/rand"
	"crypto/x509"
	"crypto/x509/pkix"
	"encoding/pem"
	"math/big"
	"os"
	"path/filepath"
	"sort"
	"strings"
	"time"

	api "k8s.io/api/core/v1"
	"k8s.io/apimachinery/pkg/api/meta"
	metav1 "k8s.io/apimachinery/pkg/apis/meta/v1"
	"k8s.io/apimachinery/pkg/runtime"
	"k8s.io/apimachinery/pkg/util/intstr"
	clientgoscheme "k8s.io/client-go/kubernetes/scheme"
	"sigs.k8s.io/controller-runtime/pkg/client"
	"sigs.k8s.io/controller-runtime/pkg/client/apiutil"
	"sigs.k8s.io/controller-runtime/pkg/client/fake"
	"sigs.k8s.io/controller-runtime/pkg/client/interceptor"
	gatewayv1 "sigs.k8s.io/gateway-api/apis/v1"
	gatewayv1alpha2 "sigs.k8s.io/gateway-api/apis/v1alpha2"
	gatewayv1beta1 "sigs.k8s.io/gateway-api/apis/v1beta1"

	"github.com/jcmoraisjr/haproxy-ingress/pkg/controller/config"
	"github.com/jcmoraisjr/haproxy-ingress/pkg/controller/services"
	"github.com/jcmoraisjr/haproxy-ingress/pkg/converters/gateway"
	"github.com/jcmoraisjr/haproxy-ingress/pkg/converters/tracker"
	convtypes "github.com/jcmoraisjr/haproxy-ingress/pkg/converters/types"
	"github.com/jcmoraisjr/haproxy-ingress/pkg/haproxy"
)

type nopLogger struct{}

func (nopLogger) InfoV(v int, msg string, args ...interface{}) {}
func (nopLogger) Info(msg string, args ...interface{})         {}
func (nopLogger) Warn(msg string, args ...interface{})         {}
func (nopLogger) Error(msg string, args ...interface{})        {}
func (nopLogger) Fatal(msg string, args ...interface{})        {}

// swapClient lets one real cache facade (built once: it generates an RSA key) read a fresh fake
// cluster for every case.
type swapClient struct{ client.Client }

type env struct {
	scheme *runtime.Scheme
	cfg    *config.Config
	swap   *swapClient
	cache  services.VerifCache
	tr     convtypes.Tracker
	dyn    *convtypes.DynamicConfig
}

func newEnv(dir, controller string) *env {
	for _, d := range []string{"ssl", "cacerts", "crl", "dhparam", "maps", "run"} {
		if err := os.MkdirAll(filepath.Join(dir, d), 0o755); err != nil {
			panic(err)
		}
	}
	scheme := runtime.NewScheme()
	if err := clientgoscheme.AddToScheme(scheme); err != nil {
		panic(err)
	}
	if err := gatewayv1.Install(scheme); err != nil {
		panic(err)
	}
	if err := gatewayv1alpha2.Install(scheme); err != nil {
		panic(err)
	}
	if err := gatewayv1beta1.Install(scheme); err != nil {
		panic(err)
	}
	cfg := &config.Config{ControllerName: controller, HasGatewayV1: true, HasGatewayB1: true, HasGatewayA2: true, HasTCPRouteA2: true,
		DefaultDirCerts: filepath.Join(dir, "ssl"), DefaultDirCACerts: filepath.Join(dir, "cacerts"), DefaultDirCrl: filepath.Join(dir, "crl"),
		DefaultDirDHParam: filepath.Join(dir, "dhparam"), DefaultDirMaps: filepath.Join(dir, "maps"), DefaultDirVarRun: filepath.Join(dir, "run")}
	e := &env{scheme: scheme, cfg: cfg, swap: &swapClient{}, tr: tracker.NewTracker(), dyn: &convtypes.DynamicConfig{}}
	e.swap.Client = fake.NewClientBuilder().WithScheme(scheme).Build()
	cache, _, _, err := services.VerifNewCache(context.Background(), e.swap, cfg, e.tr, e.dyn)
	if err != nil {
		panic(err)
	}
	e.cache = cache
	return e
}

// stamp makes the fake client fill TypeMeta on Get and List results the way controller-runtime's
// informer cache does (CacheReader.Get / List call SetGroupVersionKind).
func stamp(scheme *runtime.Scheme) interceptor.Funcs {
	return interceptor.Funcs{
		Get: func(ctx context.Context, c client.WithWatch, key client.ObjectKey, obj client.Object, opts ...client.GetOption) error {
			if err := c.Get(ctx, key, obj, opts...); err != nil {
				return err
			}
			if gvk, err := apiutil.GVKForObject(obj, scheme); err == nil {
				obj.GetObjectKind().SetGroupVersionKind(gvk)
			}
			return nil
		},
		List: func(ctx context.Context, c client.WithWatch, list client.ObjectList, opts ...client.ListOption) error {
			if err := c.List(ctx, list, opts...); err != nil {
				return err
			}
			if gvk, err := apiutil.GVKForObject(list, scheme); err == nil {
				gvk.Kind = strings.TrimSuffix(gvk.Kind, "List")
				items, _ := meta.ExtractList(list)
				for _, it := range items {
					it.GetObjectKind().SetGroupVersionKind(gvk)
				}
				_ = meta.SetList(list, items)
			}
			return nil
		},
	}
}

func sp(s *string) *string { return s }

// versionOf: the API version an object is declared in.
func versionOf(in *clusterIn, v string) string {
	if v != "" {
		return v
	}
	if in.Version != "" {
		return in.Version
	}
	return "v1"
}

// enabledVersions: the versions the controller reads, in the order converters.Sync uses.
func enabledVersions(in *clusterIn) []string {
	en := in.Enabled
	if len(en) == 0 {
		en = []string{versionOf(in, "")}
	}
	var out []string
	for _, v := range []string{"v1", "v1beta1", "v1alpha2"} {
		for _, e := range en {
			if e == v {
				out = append(out, v)
				break
			}
		}
	}
	return out
}

var tlsCrt, tlsKey []byte

func init() {
	k, err := ecdsa.GenerateKey(elliptic.P256(), rand.Reader)
	if err != nil {
		panic(err)
	}
	tmpl := &x509.Certificate{SerialNumber: big.NewInt(10), Subject: pkix.Name{CommonName: "c10"},
		NotBefore: time.Now().Add(-time.Hour), NotAfter: time.Now().Add(24 * time.Hour), DNSNames: []string{"*.example", "gw.example"}}
	der, err := x509.CreateCertificate(rand.Reader, tmpl, tmpl, &k.PublicKey, k)
	if err != nil {
		panic(err)
	}
	kb, err := x509.MarshalECPrivateKey(k)
	if err != nil {
		panic(err)
	}
	tlsCrt = pem.EncodeToMemory(&pem.Block{Type: "CERTIFICATE", Bytes: der})
	tlsKey = pem.EncodeToMemory(&pem.Block{Type: "EC PRIVATE KEY", Bytes: kb})
}

// objects builds the Kubernetes objects of a cluster input.
func objects(in *clusterIn) []client.Object {
	var objs []client.Object
	for _, c := range in.Classes {
		gc := &gatewayv1.GatewayClass{ObjectMeta: metav1.ObjectMeta{Name: c.Name},
			Spec: gatewayv1.GatewayClassSpec{ControllerName: gatewayv1.GatewayController(c.Controller)}}
		switch versionOf(in, c.V) {
		case "v1beta1":
			objs = append(objs, (*gatewayv1beta1.GatewayClass)(gc))
		case "v1alpha2":
			objs = append(objs, (*gatewayv1alpha2.GatewayClass)(gc))
		default:
			objs = append(objs, gc)
		}
	}
	// one real certificate in every namespace, for the listeners that terminate TLS
	for _, ns := range []string{"a", "b", "c"} {
		objs = append(objs, &api.Secret{ObjectMeta: metav1.ObjectMeta{Namespace: ns, Name: "crt0"}, Type: api.SecretTypeTLS,
			Data: map[string][]byte{api.TLSCertKey: tlsCrt, api.TLSPrivateKeyKey: tlsKey}})
	}
	for _, n := range in.Namespaces {
		ls := map[string]string{}
		for _, kv := range n.Labels {
			ls[kv[0]] = kv[1]
		}
		objs = append(objs, &api.Namespace{ObjectMeta: metav1.ObjectMeta{Name: n.Name, Labels: ls}})
	}
	for _, g := range in.Gateways {
		gw := &gatewayv1.Gateway{ObjectMeta: metav1.ObjectMeta{Namespace: g.NS, Name: g.Name}, Spec: gatewayv1.GatewaySpec{GatewayClassName: gatewayv1.ObjectName(g.Class)}}
		for _, l := range g.Listeners {
			li := gatewayv1.Listener{Name: gatewayv1.SectionName(l.Name), Port: gatewayv1.PortNumber(l.Port), Protocol: gatewayv1.ProtocolType(l.Protocol)}
			if l.Hostname != nil {
				h := gatewayv1.Hostname(*l.Hostname)
				li.Hostname = &h
			}
			if l.TLS != nil {
				t := &gatewayv1.GatewayTLSConfig{}
				if l.TLS.Mode != nil {
					m := gatewayv1.TLSModeType(*l.TLS.Mode)
					t.Mode = &m
				}
				for _, c := range l.TLS.Certs {
					t.CertificateRefs = append(t.CertificateRefs, gatewayv1.SecretObjectReference{Name: gatewayv1.ObjectName(c)})
				}
				li.TLS = t
			}
			if l.Allowed != nil {
				ar := &gatewayv1.AllowedRoutes{}
				for _, k := range l.Allowed.Kinds {
					rk := gatewayv1.RouteGroupKind{Kind: gatewayv1.Kind(k.Kind)}
					if k.Group != nil {
						gr := gatewayv1.Group(*k.Group)
						rk.Group = &gr
					}
					ar.Kinds = append(ar.Kinds, rk)
				}
				if l.Allowed.Namespaces != nil {
					rn := &gatewayv1.RouteNamespaces{}
					if l.Allowed.Namespaces.From != nil {
						f := gatewayv1.FromNamespaces(*l.Allowed.Namespaces.From)
						rn.From = &f
					}
					if s := l.Allowed.Namespaces.Selector; s != nil {
						sel := &metav1.LabelSelector{}
						if len(s.Labels) > 0 {
							sel.MatchLabels = map[string]string{}
							for _, kv := range s.Labels {
								sel.MatchLabels[kv[0]] = kv[1]
							}
						}
						for _, e := range s.Exprs {
							sel.MatchExpressions = append(sel.MatchExpressions, metav1.LabelSelectorRequirement{
								Key: e.Key, Operator: metav1.LabelSelectorOperator(e.Op), Values: e.Values})
						}
						rn.Selector = sel
					}
					ar.Namespaces = rn
				}
				li.AllowedRoutes = ar
			}
			gw.Spec.Listeners = append(gw.Spec.Listeners, li)
		}
		switch versionOf(in, g.V) {
		case "v1beta1":
			objs = append(objs, (*gatewayv1beta1.Gateway)(gw))
		case "v1alpha2":
			objs = append(objs, (*gatewayv1alpha2.Gateway)(gw))
		default:
			objs = append(objs, gw)
		}
	}
	parents := func(ps []parentIn) []gatewayv1.ParentReference {
		var out []gatewayv1.ParentReference
		for _, p := range ps {
			pr := gatewayv1.ParentReference{Name: gatewayv1.ObjectName(p.Name)}
			if p.Group != nil {
				g := gatewayv1.Group(*p.Group)
				pr.Group = &g
			}
			if p.Kind != nil {
				k := gatewayv1.Kind(*p.Kind)
				pr.Kind = &k
			}
			if p.NS != nil {
				n := gatewayv1.Namespace(*p.NS)
				pr.Namespace = &n
			}
			if p.Section != nil {
				s := gatewayv1.SectionName(*p.Section)
				pr.SectionName = &s
			}
			out = append(out, pr)
		}
		return out
	}
	backrefs := func(bs []backendIn) []gatewayv1.BackendRef {
		var out []gatewayv1.BackendRef
		for _, b := range bs {
			br := gatewayv1.BackendRef{BackendObjectReference: gatewayv1.BackendObjectReference{Name: gatewayv1.ObjectName(b.Name)}}
			if b.Port != nil {
				p := gatewayv1.PortNumber(*b.Port)
				br.Port = &p
			}
			if b.Weight != nil {
				w := int32(*b.Weight)
				br.Weight = &w
			}
			out = append(out, br)
		}
		return out
	}
	for _, r := range in.Routes {
		om := metav1.ObjectMeta{Namespace: r.NS, Name: r.Name, CreationTimestamp: metav1.Unix(1700000000+r.TS, 0)}
		if r.TCP {
			tr := &gatewayv1alpha2.TCPRoute{ObjectMeta: om}
			tr.Spec.ParentRefs = parents(r.Parents)
			for _, ru := range r.Rules {
				tr.Spec.Rules = append(tr.Spec.Rules, gatewayv1alpha2.TCPRouteRule{BackendRefs: backrefs(ru.Backends)})
			}
			objs = append(objs, tr)
			continue
		}
		hr := &gatewayv1.HTTPRoute{ObjectMeta: om}
		hr.Spec.ParentRefs = parents(r.Parents)
		for _, h := range r.Hostnames {
			hr.Spec.Hostnames = append(hr.Spec.Hostnames, gatewayv1.Hostname(h))
		}
		for _, ru := range r.Rules {
			rule := gatewayv1.HTTPRouteRule{}
			for _, m := range ru.Matches {
				hm := gatewayv1.HTTPRouteMatch{}
				if m.Path != nil {
					pm := &gatewayv1.HTTPPathMatch{Value: m.Path.Value}
					if m.Path.Type != nil {
						t := gatewayv1.PathMatchType(*m.Path.Type)
						pm.Type = &t
					}
					hm.Path = pm
				}
				for _, h := range m.Headers {
					hh := gatewayv1.HTTPHeaderMatch{Name: gatewayv1.HTTPHeaderName(h.Name), Value: h.Value}
					if h.Type != nil {
						t := gatewayv1.HeaderMatchType(*h.Type)
						hh.Type = &t
					}
					hm.Headers = append(hm.Headers, hh)
				}
				rule.Matches = append(rule.Matches, hm)
			}
			for _, b := range backrefs(ru.Backends) {
				rule.BackendRefs = append(rule.BackendRefs, gatewayv1.HTTPBackendRef{BackendRef: b})
			}
			hr.Spec.Rules = append(hr.Spec.Rules, rule)
		}
		switch versionOf(in, r.V) {
		case "v1beta1":
			objs = append(objs, (*gatewayv1beta1.HTTPRoute)(hr))
		case "v1alpha2":
			objs = append(objs, (*gatewayv1alpha2.HTTPRoute)(hr))
		default:
			objs = append(objs, hr)
		}
	}
	for _, s := range in.Services {
		svc := &api.Service{ObjectMeta: metav1.ObjectMeta{Namespace: s.NS, Name: s.Name}}
		for _, p := range s.Ports {
			sp := api.ServicePort{Name: p.Name, Port: int32(p.Port), Protocol: api.ProtocolTCP}
			if p.Target != nil {
				sp.TargetPort = intstr.FromInt(*p.Target)
			} else {
				sp.TargetPort = intstr.FromString("named")
			}
			svc.Spec.Ports = append(svc.Spec.Ports, sp)
		}
		objs = append(objs, svc)
		if s.Endpoints != nil {
			ep := &api.Endpoints{ObjectMeta: metav1.ObjectMeta{Namespace: s.NS, Name: s.Name}}
			for _, ss := range *s.Endpoints {
				sub := api.EndpointSubset{}
				for _, a := range ss.Addrs {
					sub.Addresses = append(sub.Addresses, api.EndpointAddress{IP: a})
				}
				for _, p := range ss.Ports {
					proto := api.ProtocolTCP
					if !p.TCP {
						proto = api.ProtocolUDP
					}
					sub.Ports = append(sub.Ports, api.EndpointPort{Name: p.Name, Port: int32(p.Port), Protocol: proto})
				}
				ep.Subsets = append(ep.Subsets, sub)
			}
			objs = append(objs, ep)
		}
	}
	return objs
}

type pathObs struct {
	Link    string `json:"link"`
	Backend string `json:"backend"`
}
type epObs struct {
	IP     string `json:"ip"`
	Port   int    `json:"port"`
	Weight int    `json:"weight"`
}
type backObs struct {
	ID        string  `json:"id"`
	Endpoints []epObs `json:"endpoints"`
}
type tcpObs struct {
	Port    int    `json:"port"`
	Backend string `json:"backend"`
}
type hpbObs struct {
	Host    string `json:"host"`
	Backend string `json:"backend"`
}
type observed struct {
	Kinds    map[string]string `json:"kinds"` // "http:<version>:ns/name" | "tcp:ns/name" -> Kind reported by the cache
	Paths    []pathObs         `json:"paths"`
	Backends []backObs         `json:"backends"`
	TCP      []tcpObs          `json:"tcp"`
	ModeTCP  []string          `json:"mode_tcp"`        // backends with ModeTCP
	Pass     []string          `json:"ssl_passthrough"` // hosts with ssl-passthrough
	HPB      []hpbObs          `json:"http_passthrough_backend"`
}

// run pushes the objects through the real cache facade and the real gateway converter, one sync
// per enabled API version as converters.Sync does.
func (e *env) run(in *clusterIn) *observed {
	b := fake.NewClientBuilder().WithScheme(e.scheme).WithObjects(objects(in)...)
	if in.Stamp {
		b = b.WithInterceptorFuncs(stamp(e.scheme))
	}
	e.swap.Client = b.Build()
	e.tr.ClearLinks()
	obs := &observed{Kinds: map[string]string{}, Paths: []pathObs{}, Backends: []backObs{}, TCP: []tcpObs{}, ModeTCP: []string{}, Pass: []string{}, HPB: []hpbObs{}}
	kind := func(o client.Object) string { return o.GetObjectKind().GroupVersionKind().Kind }
	if rl, err := e.cache.GetHTTPRouteList(); err == nil {
		for _, r := range rl {
			obs.Kinds["http:v1:"+r.Namespace+"/"+r.Name] = kind(r)
		}
	} else {
		panic(err)
	}
	if rl, err := e.cache.GetHTTPRouteB1List(); err == nil {
		for _, r := range rl {
			obs.Kinds["http:v1beta1:"+r.Namespace+"/"+r.Name] = kind(r)
		}
	} else {
		panic(err)
	}
	if rl, err := e.cache.GetHTTPRouteA2List(); err == nil {
		for _, r := range rl {
			obs.Kinds["http:v1alpha2:"+r.Namespace+"/"+r.Name] = kind(r)
		}
	} else {
		panic(err)
	}
	if rl, err := e.cache.GetTCPRouteList(); err == nil {
		for _, r := range rl {
			obs.Kinds["tcp:"+r.Namespace+"/"+r.Name] = kind(r)
		}
	} else {
		panic(err)
	}
	hconfig := haproxy.CreateInstance(nopLogger{}, haproxy.InstanceOptions{}).Config()
	opts := &convtypes.ConverterOptions{Cache: e.cache, Logger: nopLogger{}, Tracker: e.tr, HasTCPRouteA2: true, DynamicConfig: e.dyn}
	for _, v := range enabledVersions(in) {
		switch v {
		case "v1":
			opts.HasGatewayV1 = true
		case "v1beta1":
			opts.HasGatewayB1 = true
		case "v1alpha2":
			opts.HasGatewayA2 = true
		}
	}
	conv := gateway.NewGatewayConverter(opts, hconfig, &convtypes.ChangedObjects{}, nil)
	// converters.Sync
	if opts.HasGatewayV1 {
		conv.Sync(true, &gatewayv1.Gateway{})
	}
	if opts.HasGatewayB1 {
		conv.Sync(true, &gatewayv1beta1.Gateway{})
	}
	if opts.HasGatewayA2 {
		conv.Sync(true, &gatewayv1alpha2.Gateway{})
	}
	for _, h := range hconfig.Hosts().Items() {
		for _, p := range h.Paths {
			obs.Paths = append(obs.Paths, pathObs{string(p.Link.Hash()), p.Backend.ID})
		}
		if h.SSLPassthrough() {
			obs.Pass = append(obs.Pass, h.Hostname)
		}
		if h.HTTPPassthroughBackend != "" {
			obs.HPB = append(obs.HPB, hpbObs{h.Hostname, h.HTTPPassthroughBackend})
		}
	}
	sort.Slice(obs.Paths, func(i, j int) bool {
		if obs.Paths[i].Link != obs.Paths[j].Link {
			return obs.Paths[i].Link < obs.Paths[j].Link
		}
		return obs.Paths[i].Backend < obs.Paths[j].Backend
	})
	sort.Strings(obs.Pass)
	sort.Slice(obs.HPB, func(i, j int) bool { return obs.HPB[i].Host < obs.HPB[j].Host })
	for _, b := range hconfig.Backends().BuildSortedItems() {
		bo := backObs{ID: b.ID, Endpoints: []epObs{}}
		for _, ep := range b.Endpoints {
			bo.Endpoints = append(bo.Endpoints, epObs{ep.IP, ep.Port, ep.Weight})
		}
		obs.Backends = append(obs.Backends, bo)
		if b.ModeTCP {
			obs.ModeTCP = append(obs.ModeTCP, b.ID)
		}
	}
	for port, tp := range hconfig.TCPServices().Items() {
		if dh := tp.DefaultHost(); dh != nil && !dh.Backend.IsEmpty() {
			obs.TCP = append(obs.TCP, tcpObs{port, dh.Backend.Namespace + "_" + dh.Backend.Name + "_" + dh.Backend.Port})
		}
		for _, h := range tp.Hosts() {
			if !h.Backend.IsEmpty() {
				obs.TCP = append(obs.TCP, tcpObs{port, "host:" + h.Backend.Namespace + "_" + h.Backend.Name + "_" + h.Backend.Port})
			}
		}
	}
	sort.Slice(obs.TCP, func(i, j int) bool { return obs.TCP[i].Port < obs.TCP[j].Port })
	return obs
}
