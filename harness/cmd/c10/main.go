// c10: correspondence and oracle for C10 (Gateway API routes attach only where class, listener and
// namespace rules allow).  Generated object sets go through the real cache facade
// (services.VerifNewCache over a controller-runtime fake client) and the real gateway converter;
// hosts/paths/backends/TCP services of the haproxy model are compared with the Coq model
// (attach_impl, by vm_compute) and, independently, with a Go evaluation of the admission rules.
package main

import (
	"encoding/json"
	"fmt"
	"path/filepath"
	"sort"

	"verif/harness/lib/hx"
)

func canon(v interface{}) string {
	b, _ := json.Marshal(v)
	return string(b)
}

func corpus() []*clusterIn {
	same, all, sel := ps("Same"), ps("All"), ps("Selector")
	svc := func(ns, name string, n int) serviceIn {
		sub := subsetIn{Ports: []epPortIn{{Name: "http", Port: 8080, TCP: true}}}
		for i := 0; i < n; i++ {
			sub.Addrs = append(sub.Addrs, fmt.Sprintf("10.9.%d.%d", len(name), i+1))
		}
		return serviceIn{NS: ns, Name: name, Ports: []svcPortIn{{Name: "http", Port: 8080, Target: pi(8080)}}, Endpoints: &[]subsetIn{sub}}
	}
	classes := []classIn{{"haproxy", ourController}, {"other", "example.com/other"}}
	nss := []nsIn{{"a", [][2]string{{"env", "prod"}}}, {"b", [][2]string{{"env", "dev"}}}}
	rule := func(backs ...backendIn) ruleIn { return ruleIn{Matches: []matchIn{}, Backends: backs} }
	route := func(ns, name string, parents []parentIn, hosts []string, rules ...ruleIn) routeIn {
		return routeIn{NS: ns, Name: name, Parents: parents, Hostnames: hosts, Rules: rules}
	}
	lis := func(name string, kinds []kindIn, rn *routeNsIn) listenerIn {
		return listenerIn{Name: name, Port: 80, Protocol: "HTTP", Allowed: &allowedIn{Kinds: kinds, Namespaces: rn}}
	}
	var out []*clusterIn
	// the documented minimum; explicit kinds; foreign class; cross-namespace Same / All / Selector; sectionName; weights
	out = append(out, &clusterIn{Controller: ourController, Stamp: true, Classes: classes, Namespaces: nss,
		Gateways: []gatewayIn{{NS: "a", Name: "gw0", Class: "haproxy", Listeners: []listenerIn{lis("l0", []kindIn{{Kind: "HTTPRoute"}}, &routeNsIn{From: same})}}},
		Routes:   []routeIn{route("a", "r0", []parentIn{{Name: "gw0"}}, []string{"a.example"}, rule(backendIn{Name: "s0", Port: pi(8080)}))},
		Services: []serviceIn{svc("a", "s0", 2)}})
	out = append(out, &clusterIn{Controller: ourController, Stamp: true, Classes: classes, Namespaces: nss,
		Gateways: []gatewayIn{{NS: "a", Name: "gw0", Class: "other", Listeners: []listenerIn{lis("l0", []kindIn{}, &routeNsIn{From: all})}}},
		Routes:   []routeIn{route("a", "r0", []parentIn{{Name: "gw0"}}, []string{"a.example"}, rule(backendIn{Name: "s0", Port: pi(8080)}))},
		Services: []serviceIn{svc("a", "s0", 1)}})
	out = append(out, &clusterIn{Controller: ourController, Stamp: true, Classes: classes, Namespaces: nss,
		Gateways: []gatewayIn{{NS: "a", Name: "gw0", Class: "haproxy", Listeners: []listenerIn{
			lis("l0", []kindIn{}, &routeNsIn{From: same}),
			lis("l1", []kindIn{}, &routeNsIn{From: sel, Selector: &selectorIn{Labels: [][2]string{{"env", "dev"}}, Exprs: []exprIn{}}}),
			lis("l2", []kindIn{{Kind: "TCPRoute"}}, &routeNsIn{From: all})}}},
		Routes: []routeIn{
			route("b", "r0", []parentIn{{NS: ps("a"), Name: "gw0"}}, []string{"b.example"}, rule(backendIn{Name: "s0", Port: pi(8080), Weight: pi(5)}, backendIn{Name: "s1", Port: pi(8080), Weight: pi(7)})),
			route("b", "r1", []parentIn{{NS: ps("a"), Name: "gw0", Section: ps("l0")}}, []string{"c.example"}, rule(backendIn{Name: "s0", Port: pi(8080)})),
			route("a", "r2", []parentIn{{Name: "gw0", Section: ps("l1")}}, []string{"d.example"}, rule(backendIn{Name: "s0", Port: pi(8080)}))},
		Services: []serviceIn{svc("b", "s0", 8), svc("b", "s1", 11), svc("a", "s0", 1)}})
	// the bare fake client reports an empty Kind: explicit kinds reject every route (test-double artefact, model input)
	out = append(out, &clusterIn{Controller: ourController, Stamp: false, Classes: classes, Namespaces: nss,
		Gateways: []gatewayIn{{NS: "a", Name: "gw0", Class: "haproxy", Listeners: []listenerIn{lis("l0", []kindIn{{Kind: "HTTPRoute"}}, &routeNsIn{From: same})}}},
		Routes:   []routeIn{route("a", "r0", []parentIn{{Name: "gw0"}}, []string{"a.example"}, rule(backendIn{Name: "s0", Port: pi(8080)}))},
		Services: []serviceIn{svc("a", "s0", 2)}})
	for _, c := range out {
		for i := range c.Routes {
			if c.Routes[i].Hostnames == nil {
				c.Routes[i].Hostnames = []string{}
			}
		}
	}
	return out
}

func corpusFiles() []*clusterIn {
	var ins []*clusterIn
	files, _ := filepath.Glob("../corpus/C10/*.json")
	sort.Strings(files)
	for _, f := range files {
		in := &clusterIn{}
		hx.ReadReplay(f, in)
		ins = append(ins, in)
	}
	return ins
}

// oracleApplies: the admission rules are evaluated with the Kind the informer cache reports, on
// objects the API server would accept.
func oracleApplies(in *clusterIn) bool { return in.Stamp && !in.Malformed }

func main() {
	o := hx.Parse()
	rng := o.Rng()
	res := hx.NewResult("C10", "generated sets of GatewayClass (ours / foreign / missing), 1-3 Gateways with 1-3 listeners (hostname forms, allowedRoutes kinds and namespaces Same/All/Selector with matchLabels and matchExpressions, absent members), 1-4 HTTPRoutes and 0-2 TCPRoutes with parentRefs (group/kind/namespace/sectionName present, empty or absent), hostnames, rules with path/header matches and weighted backendRefs, Services/Endpoints and labelled Namespaces; non-trivial = at least one host/path rule or TCP service was produced; distinct by canonical JSON of the input")
	cw := hx.NewCaseWriter(o, res, "From HI Require Import Corr.Corr_C10.", "gcase", 150)
	var inputs []*clusterIn
	if o.Replay != "" {
		in := &clusterIn{}
		hx.ReadReplay(o.Replay, in)
		inputs = append(inputs, in)
	} else {
		inputs = append(inputs, corpus()...)
		inputs = append(inputs, corpusFiles()...)
		n := o.Count(1500, 60000)
		if o.Search {
			n = 40000
		}
		for i := 0; i < n; i++ {
			inputs = append(inputs, genCluster(rng))
		}
	}
	e := newEnv(filepath.Join(o.Out, "env"), ourController)
	for _, in := range inputs {
		in := in
		obs := e.run(in)
		res.Seen(canon(in), len(obs.Paths)+len(obs.TCP) > 0)
		res.Count(fmt.Sprintf("paths=%d", min(len(obs.Paths), 6)))
		res.Count(fmt.Sprintf("tcp=%d", min(len(obs.TCP), 3)))
		res.Count(fmt.Sprintf("backends=%d", min(len(obs.Backends), 5)))
		if !in.Stamp {
			res.Count("bare-fake-client(empty Kind)")
		}
		if in.Malformed {
			res.Count("malformed")
		}
		res.Sample(5, map[string]interface{}{"input": in, "observed": obs})
		if oracleApplies(in) {
			res.OracleChecks++
			if k, what := oracle(in, obs); k != "" {
				res.Count("oracle_fail_" + k)
				res.Fail(hx.Failure{Key: "C10/" + k, What: what, Input: in, Observed: obs})
			}
		}
		if !o.Search {
			cw.Add(func(id int) string { return coqCase(id, in, obs) }, in)
		}
	}
	cw.Flush()
	res.Write(o)
}
