// c10: correspondence and oracle for C10 (Gateway API routes attach only where class, listener and
// namespace rules allow).  Generated object sets go through the real cache facade
// (services.VerifNewCache over a controller-runtime fake client) and the real gateway converter;
// hosts/paths/backends/TCP services of the haproxy model are compared with the Coq model
// (attach_impl, by vm_compute) and, independently, with a Go evaluation of the admission rules.
package main

import (
	"encoding/json"
	"fmt"
	"path/filepath"
	"sort"

	"verif/harness/lib/hx"
)

func canon(v interface{}) string {
	b, _ := json.Marshal(v)
	return string(b)
}

func corpus() []*clusterIn {
	same, all, sel := ps("Same"), ps("All"), ps("Selector")
	svc := func(ns, name string, n int) serviceIn {
		sub := subsetIn{Ports: []epPortIn{{Name: "http", Port: 8080, TCP: true}}}
		for i := 0; i < n; i++ {
			sub.Addrs = append(sub.Addrs, fmt.Sprintf("10.9.%d.%d", len(name), i+1))
		}
		return serviceIn{NS: ns, Name: name, Ports: []svcPortIn{{Name: "http", Port: 8080, Target: pi(8080)}}, Endpoints: &[]subsetIn{sub}}
	}
	classes := []classIn{{Name: "haproxy", Controller: ourController}, {Name: "other", Controller: "example.com/other"}}
	nss := []nsIn{{"a", [][2]string{{"env", "prod"}}}, {"b", [][2]string{{"env", "dev"}}}}
	rule := func(backs ...backendIn) ruleIn { return ruleIn{Matches: []matchIn{}, Backends: backs} }
	route := func(ns, name string, parents []parentIn, hosts []string, rules ...ruleIn) routeIn {
		return routeIn{NS: ns, Name: name, Parents: parents, Hostnames: hosts, Rules: rules}
	}
	lis := func(name string, kinds []kindIn, rn *routeNsIn) listenerIn {
		return listenerIn{Name: name, Port: 80, Protocol: "HTTP", Allowed: &allowedIn{Kinds: kinds, Namespaces: rn}}
	}
	var out []*clusterIn
	// From=Selector with matchLabels AND matchExpressions: both parts must hold. Namespaces
	// a {env=prod,team=a}, b {env=prod,team=b}, c {team=a}; one listener per operator, one route
	// per (namespace, listener) so that every decision shows as its own host.
	{
		sel := ps("Selector")
		mk := func(name string, e exprIn) listenerIn {
			return listenerIn{Name: name, Port: 80, Protocol: "HTTP", Allowed: &allowedIn{Kinds: []kindIn{},
				Namespaces: &routeNsIn{From: sel, Selector: &selectorIn{Labels: [][2]string{{"env", "prod"}}, Exprs: []exprIn{e}}}}}
		}
		c := &clusterIn{Controller: ourController, Stamp: true, Classes: classes,
			Namespaces: []nsIn{{"a", [][2]string{{"env", "prod"}, {"team", "a"}}}, {"b", [][2]string{{"env", "prod"}, {"team", "b"}}}, {"c", [][2]string{{"team", "a"}}}},
			Gateways: []gatewayIn{{NS: "a", Name: "gw0", Class: "haproxy", Listeners: []listenerIn{
				mk("l0", exprIn{Key: "team", Op: "In", Values: []string{"a"}}),
				mk("l1", exprIn{Key: "team", Op: "NotIn", Values: []string{"a"}}),
				mk("l2", exprIn{Key: "zone", Op: "Exists", Values: []string{}}),
				mk("l3", exprIn{Key: "team", Op: "DoesNotExist", Values: []string{}})}}},
			Services: []serviceIn{svc("a", "s0", 1), svc("b", "s0", 1), svc("c", "s0", 1)}}
		for _, ns := range []string{"a", "b", "c"} {
			for i := 0; i < 4; i++ {
				c.Routes = append(c.Routes, route(ns, fmt.Sprintf("r%d", i), []parentIn{{NS: ps("a"), Name: "gw0", Section: ps(fmt.Sprintf("l%d", i))}},
					[]string{fmt.Sprintf("%s-l%d.example", ns, i)}, rule(backendIn{Name: "s0", Port: pi(8080)})))
			}
		}
		out = append(out, c)
	}
	// the documented minimum; explicit kinds; foreign class; cross-namespace Same / All / Selector; sectionName; weights
	out = append(out, &clusterIn{Controller: ourController, Stamp: true, Classes: classes, Namespaces: nss,
		Gateways: []gatewayIn{{NS: "a", Name: "gw0", Class: "haproxy", Listeners: []listenerIn{lis("l0", []kindIn{{Kind: "HTTPRoute"}}, &routeNsIn{From: same})}}},
		Routes:   []routeIn{route("a", "r0", []parentIn{{Name: "gw0"}}, []string{"a.example"}, rule(backendIn{Name: "s0", Port: pi(8080)}))},
		Services: []serviceIn{svc("a", "s0", 2)}})
	out = append(out, &clusterIn{Controller: ourController, Stamp: true, Classes: classes, Namespaces: nss,
		Gateways: []gatewayIn{{NS: "a", Name: "gw0", Class: "other", Listeners: []listenerIn{lis("l0", []kindIn{}, &routeNsIn{From: all})}}},
		Routes:   []routeIn{route("a", "r0", []parentIn{{Name: "gw0"}}, []string{"a.example"}, rule(backendIn{Name: "s0", Port: pi(8080)}))},
		Services: []serviceIn{svc("a", "s0", 1)}})
	out = append(out, &clusterIn{Controller: ourController, Stamp: true, Classes: classes, Namespaces: nss,
		Gateways: []gatewayIn{{NS: "a", Name: "gw0", Class: "haproxy", Listeners: []listenerIn{
			lis("l0", []kindIn{}, &routeNsIn{From: same}),
			lis("l1", []kindIn{}, &routeNsIn{From: sel, Selector: &selectorIn{Labels: [][2]string{{"env", "dev"}}, Exprs: []exprIn{}}}),
			lis("l2", []kindIn{{Kind: "TCPRoute"}}, &routeNsIn{From: all})}}},
		Routes: []routeIn{
			route("b", "r0", []parentIn{{NS: ps("a"), Name: "gw0"}}, []string{"b.example"}, rule(backendIn{Name: "s0", Port: pi(8080), Weight: pi(5)}, backendIn{Name: "s1", Port: pi(8080), Weight: pi(7)})),
			route("b", "r1", []parentIn{{NS: ps("a"), Name: "gw0", Section: ps("l0")}}, []string{"c.example"}, rule(backendIn{Name: "s0", Port: pi(8080)})),
			route("a", "r2", []parentIn{{Name: "gw0", Section: ps("l1")}}, []string{"d.example"}, rule(backendIn{Name: "s0", Port: pi(8080)}))},
		Services: []serviceIn{svc("b", "s0", 8), svc("b", "s1", 11), svc("a", "s0", 1)}})
	// the bare fake client reports an empty Kind: explicit kinds reject every route (test-double artefact, model input)
	out = append(out, &clusterIn{Controller: ourController, Stamp: false, Classes: classes, Namespaces: nss,
		Gateways: []gatewayIn{{NS: "a", Name: "gw0", Class: "haproxy", Listeners: []listenerIn{lis("l0", []kindIn{{Kind: "HTTPRoute"}}, &routeNsIn{From: same})}}},
		Routes:   []routeIn{route("a", "r0", []parentIn{{Name: "gw0"}}, []string{"a.example"}, rule(backendIn{Name: "s0", Port: pi(8080)}))},
		Services: []serviceIn{svc("a", "s0", 2)}})
	// a passthrough listener next to a plain one: the root path of the http route moves to HTTPPassthroughBackend
	pass := lis("l1", []kindIn{}, &routeNsIn{From: same})
	pass.Protocol, pass.Port, pass.TLS = "TLS", 443, &tlsIn{Mode: ps("Passthrough"), Certs: []string{}}
	out = append(out, &clusterIn{Controller: ourController, Stamp: true, Classes: classes, Namespaces: nss,
		Gateways: []gatewayIn{{NS: "a", Name: "gw0", Class: "haproxy", Listeners: []listenerIn{lis("l0", []kindIn{}, &routeNsIn{From: same}), pass}}},
		Routes: []routeIn{
			route("a", "r0", []parentIn{{Name: "gw0", Section: ps("l0")}}, []string{"a.example"}, rule(backendIn{Name: "s0", Port: pi(8080)})),
			route("a", "r1", []parentIn{{Name: "gw0", Section: ps("l1")}}, []string{"a.example"}, rule(backendIn{Name: "s1", Port: pi(8080)}))},
		Services: []serviceIn{svc("a", "s0", 1), svc("a", "s1", 2)}})
	// listener hostname against route hostnames (override documented by the project), wildcards on both sides
	hl := lis("l0", []kindIn{}, &routeNsIn{From: same})
	hl.Hostname = ps("*.example")
	out = append(out, &clusterIn{Controller: ourController, Stamp: true, Version: "v1beta1", Classes: classes, Namespaces: nss,
		Gateways: []gatewayIn{{NS: "a", Name: "gw0", Class: "haproxy", Listeners: []listenerIn{hl}}},
		Routes: []routeIn{
			route("a", "r0", []parentIn{{Name: "gw0"}}, []string{"a.example", "b.test"}, rule(backendIn{Name: "s0", Port: pi(8080)})),
			route("a", "r1", []parentIn{{Name: "gw0"}}, []string{}, rule(backendIn{Name: "s0", Port: pi(8080)}))},
		Services: []serviceIn{svc("a", "s0", 1)}})
	// the three API versions enabled, gateways and routes spread over them
	out = append(out, &clusterIn{Controller: ourController, Stamp: true, Version: "v1", Enabled: []string{"v1", "v1beta1", "v1alpha2"}, Namespaces: nss,
		Classes: []classIn{{Name: "haproxy", Controller: ourController, V: "v1"}, {Name: "haproxy", Controller: ourController, V: "v1beta1"}, {Name: "haproxy", Controller: ourController, V: "v1alpha2"}},
		Gateways: []gatewayIn{
			{NS: "a", Name: "gw0", Class: "haproxy", V: "v1", Listeners: []listenerIn{lis("l0", []kindIn{}, &routeNsIn{From: same})}},
			{NS: "a", Name: "gw0", Class: "haproxy", V: "v1alpha2", Listeners: []listenerIn{lis("l0", []kindIn{}, &routeNsIn{From: all})}}},
		Routes: []routeIn{
			{NS: "a", Name: "r0", V: "v1", Parents: []parentIn{{Name: "gw0"}}, Hostnames: []string{"a.example"}, Rules: []ruleIn{rule(backendIn{Name: "s0", Port: pi(8080)})}},
			{NS: "a", Name: "r1", V: "v1beta1", Parents: []parentIn{{Name: "gw0"}}, Hostnames: []string{"b.example"}, Rules: []ruleIn{rule(backendIn{Name: "s0", Port: pi(8080)})}},
			{NS: "a", Name: "r2", V: "v1alpha2", Parents: []parentIn{{Name: "gw0"}}, Hostnames: []string{"a.example"}, Rules: []ruleIn{rule(backendIn{Name: "s0", Port: pi(8080)})}}},
		Services: []serviceIn{svc("a", "s0", 1)}})
	for _, c := range out {
		for i := range c.Routes {
			if c.Routes[i].Hostnames == nil {
				c.Routes[i].Hostnames = []string{}
			}
		}
	}
	return out
}

func corpusFiles() []*clusterIn {
	var ins []*clusterIn
	files, _ := filepath.Glob("../corpus/C10/*.json")
	sort.Strings(files)
	for _, f := range files {
		in := &clusterIn{}
		hx.ReadReplay(f, in)
		ins = append(ins, in)
	}
	return ins
}

// oracleApplies: the admission rules are evaluated with the Kind the informer cache reports, on
// objects the API server would accept.
func oracleApplies(in *clusterIn) bool { return in.Stamp && !in.Malformed }

// servedTwice: every GatewayClass, Gateway and HTTPRoute also declared in a second API version,
// both versions enabled.
func servedTwice(in *clusterIn) *clusterIn {
	v1 := versionOf(in, "")
	v2 := "v1beta1"
	if v1 == "v1beta1" {
		v2 = "v1"
	}
	d := *in
	d.Enabled = []string{v1, v2}
	d.Classes, d.Gateways, d.Routes = nil, nil, nil
	for _, c := range in.Classes {
		c2 := c
		c2.V = v2
		d.Classes = append(d.Classes, c, c2)
	}
	for _, g := range in.Gateways {
		g2 := g
		g2.V = v2
		d.Gateways = append(d.Gateways, g, g2)
	}
	for _, r := range in.Routes {
		d.Routes = append(d.Routes, r)
		if !r.TCP {
			r2 := r
			r2.V = v2
			d.Routes = append(d.Routes, r2)
		}
	}
	return &d
}

func sameAttachment(a, b *observed) bool {
	x, y := *a, *b
	x.Kinds, y.Kinds = nil, nil
	return canon(x) == canon(y)
}

func main() {
	o := hx.Parse()
	rng := o.Rng()
	res := hx.NewResult("C10", "generated sets of GatewayClass (ours / foreign / missing), 1-3 Gateways with 1-3 listeners (hostname forms, allowedRoutes kinds and namespaces Same/All/Selector with matchLabels and matchExpressions, absent members), 1-4 HTTPRoutes and 0-2 TCPRoutes with parentRefs (group/kind/namespace/sectionName present, empty or absent), hostnames, rules with path/header matches and weighted backendRefs, Services/Endpoints and labelled Namespaces; non-trivial = at least one host/path rule or TCP service was produced; distinct by canonical JSON of the input")
	cw := hx.NewCaseWriter(o, res, "From HI Require Import Corr.Corr_C10.", "gcase", 150)
	var inputs []*clusterIn
	if o.Replay != "" {
		in := &clusterIn{}
		hx.ReadReplay(o.Replay, in)
		inputs = append(inputs, in)
	} else {
		inputs = append(inputs, corpus()...)
		inputs = append(inputs, corpusFiles()...)
		n := o.Count(1500, 60000)
		if o.Search {
			n = 40000
		}
		for i := 0; i < n; i++ {
			inputs = append(inputs, genCluster(rng))
		}
	}
	e := newEnv(filepath.Join(o.Out, "env"), ourController)
	for _, in := range inputs {
		in := in
		obs := e.run(in)
		res.Seen(canon(in), len(obs.Paths)+len(obs.TCP) > 0)
		res.Count(fmt.Sprintf("paths=%d", min(len(obs.Paths), 6)))
		res.Count(fmt.Sprintf("tcp=%d", min(len(obs.TCP), 3)))
		res.Count(fmt.Sprintf("backends=%d", min(len(obs.Backends), 5)))
		if !in.Stamp {
			res.Count("bare-fake-client(empty Kind)")
		}
		if in.Malformed {
			res.Count("malformed")
		}
		res.Sample(5, map[string]interface{}{"input": in, "observed": obs})
		if len(in.Enabled) > 1 {
			res.Count("versions=mixed")
		} else {
			res.Count("version=" + versionOf(in, ""))
		}
		if len(obs.Pass) > 0 {
			res.Count("ssl-passthrough-hosts")
		}
		if oracleApplies(in) {
			res.OracleChecks++
			if k, what := oracle(in, obs); k != "" {
				res.Count("oracle_fail_" + k)
				res.Fail(hx.Failure{Key: "C10/" + k, What: what, Input: in, Observed: obs})
			}
			for d := range expect(in).diverge {
				res.Count("project-docs-vs-gateway-api:" + d)
			}
			// the same objects declared through each API version must attach identically
			if len(in.Enabled) <= 1 {
				res.OracleChecks++
				for _, v := range []string{"v1", "v1beta1", "v1alpha2"} {
					if v == versionOf(in, "") {
						continue
					}
					alt := *in
					alt.Version = v
					o2 := e.run(&alt)
					if !sameAttachment(obs, o2) {
						res.Count("oracle_fail_version-differs")
						res.Fail(hx.Failure{Key: "C10/version-differs", What: fmt.Sprintf("declared in %s and in %s the same objects attach differently", versionOf(in, ""), v),
							Input: in, Observed: obs, Expected: o2})
						break
					}
				}
				// a real API server serves every object in all versions: with two versions enabled the
				// second sync reads the same objects again and must change nothing
				if !expect(in).hasPass {
					dup := servedTwice(in)
					o3 := e.run(dup)
					if !sameAttachment(obs, o3) {
						res.Count("oracle_fail_second-version-not-idempotent")
						res.Fail(hx.Failure{Key: "C10/second-version-not-idempotent", What: "the same objects read through two enabled API versions attach differently from one version",
							Input: dup, Observed: o3, Expected: obs})
					}
				}
			}
		}
		if !o.Search {
			cw.Add(func(id int) string { return coqCase(id, in, obs) }, in)
		}
	}
	cw.Flush()
	res.Write(o)
}
