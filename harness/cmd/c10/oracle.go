package main

import (
	"fmt"
	"sort"
	"strings"

	metav1 "k8s.io/apimachinery/pkg/apis/meta/v1"
	"k8s.io/apimachinery/pkg/labels"

	convutils "github.com/jcmoraisjr/haproxy-ingress/pkg/converters/utils"
)

// The oracle evaluates the Gateway API attachment rules named by the property directly on the
// input objects (no Coq model, no converter code; label selectors are evaluated by the
// apimachinery library) and compares with what the real converter produced.

const gwGroup = "gateway.networking.k8s.io"

func deref(p *string, d string) string {
	if p == nil || *p == "" {
		return d
	}
	return *p
}

func trueKind(r *routeIn) string {
	if r.TCP {
		return "TCPRoute"
	}
	return "HTTPRoute"
}

// parentGateway: the Gateway a parentRef designates, if it belongs to this controller.
func parentGateway(in *clusterIn, v string, r *routeIn, p *parentIn) *gatewayIn {
	if deref(p.Group, gwGroup) != gwGroup || deref(p.Kind, "Gateway") != "Gateway" {
		return nil
	}
	ns := deref(p.NS, r.NS)
	for i := range in.Gateways {
		g := &in.Gateways[i]
		if versionOf(in, g.V) != v {
			continue
		}
		if g.NS == ns && g.Name == p.Name {
			for _, c := range in.Classes {
				if versionOf(in, c.V) != v {
					continue
				}
				if c.Name == g.Class {
					if c.Controller == in.Controller {
						return g
					}
					return nil
				}
			}
			return nil
		}
	}
	return nil
}

// listenerAdmits: sectionName, allowedRoutes.kinds and allowedRoutes.namespaces.
func listenerAdmits(in *clusterIn, g *gatewayIn, l *listenerIn, r *routeIn, p *parentIn) bool {
	if p.Section != nil && *p.Section != l.Name {
		return false
	}
	if l.Allowed == nil || l.Allowed.Namespaces == nil || l.Allowed.Namespaces.From == nil {
		return false // cannot exist behind the CRD defaulting; admits nothing
	}
	// listener protocol vs route kind: the docs state that Port and Protocol are implemented for
	// TCPRoute (not for HTTPRoute): a TCPRoute does not attach through an HTTP, HTTPS, TLS or UDP listener
	if r.TCP && (l.Protocol == "HTTP" || l.Protocol == "HTTPS" || l.Protocol == "TLS" || l.Protocol == "UDP") {
		return false
	}
	if len(l.Allowed.Kinds) > 0 {
		ok := false
		for _, k := range l.Allowed.Kinds {
			if (k.Group == nil || *k.Group == gwGroup) && k.Kind == trueKind(r) {
				ok = true
			}
		}
		if !ok {
			return false
		}
	}
	switch *l.Allowed.Namespaces.From {
	case "All":
		return true
	case "Same":
		return r.NS == g.NS
	case "Selector":
		s := l.Allowed.Namespaces.Selector
		if s == nil {
			return false
		}
		ls := &metav1.LabelSelector{}
		if len(s.Labels) > 0 {
			ls.MatchLabels = map[string]string{}
			for _, kv := range s.Labels {
				ls.MatchLabels[kv[0]] = kv[1]
			}
		}
		for _, e := range s.Exprs {
			ls.MatchExpressions = append(ls.MatchExpressions, metav1.LabelSelectorRequirement{Key: e.Key, Operator: metav1.LabelSelectorOperator(e.Op), Values: e.Values})
		}
		sel, err := metav1.LabelSelectorAsSelector(ls)
		if err != nil {
			return false
		}
		for _, n := range in.Namespaces {
			if n.Name == r.NS {
				set := labels.Set{}
				for _, kv := range n.Labels {
					set[kv[0]] = kv[1]
				}
				return sel.Matches(set)
			}
		}
		return false
	}
	return false
}

type refUse struct {
	weight int
	addrs  []epObs // weight unset
}

// usableRefs: the backendRefs of a rule that designate an existing service port with an Endpoints object.
func usableRefs(in *clusterIn, ns string, refs []backendIn) []refUse {
	var out []refUse
	for _, b := range refs {
		if b.Port == nil {
			continue
		}
		var svc *serviceIn
		for i := range in.Services {
			if in.Services[i].NS == ns && in.Services[i].Name == b.Name {
				svc = &in.Services[i]
			}
		}
		if svc == nil || svc.Endpoints == nil {
			continue
		}
		var port *svcPortIn
		for i := range svc.Ports {
			if svc.Ports[i].Port == *b.Port {
				port = &svc.Ports[i]
				break
			}
		}
		if port == nil {
			for i := range svc.Ports {
				if svc.Ports[i].Target != nil && *svc.Ports[i].Target == *b.Port {
					port = &svc.Ports[i]
					break
				}
			}
		}
		if port == nil {
			continue
		}
		u := refUse{weight: 1}
		if b.Weight != nil {
			u.weight = *b.Weight
		}
		for _, ss := range *svc.Endpoints {
			for _, ep := range ss.Ports {
				if ep.TCP && (port.Name == "" || port.Name == ep.Name) {
					for _, a := range ss.Addrs {
						u.addrs = append(u.addrs, epObs{IP: a, Port: ep.Port})
					}
				}
			}
		}
		out = append(out, u)
	}
	return out
}

func hostnamesOf(l *listenerIn, r *routeIn) []string {
	// docs/configuration/gateway-api.md: a listener hostname other than empty or "*" overrides
	// the route's hostnames, without merging
	if l.Hostname != nil && *l.Hostname != "" && *l.Hostname != "*" {
		return []string{*l.Hostname}
	}
	if len(r.Hostnames) == 0 {
		return []string{"*"}
	}
	return r.Hostnames
}

func linkOf(host string, m *matchIn) string {
	if host == "" || host == "*" {
		host = "<default>"
	}
	path, typ := "/", "prefix"
	if m.Path != nil {
		if m.Path.Value != nil && *m.Path.Value != "" {
			path = *m.Path.Value
		}
		if m.Path.Type != nil {
			switch *m.Path.Type {
			case "Exact":
				typ = "exact"
			case "RegularExpression":
				typ = "regex"
			}
		}
	}
	s := host + "\n" + path + "\n" + typ
	for _, h := range m.Headers {
		s += "\nh:" + h.Name + ":" + h.Value
		if h.Type != nil && *h.Type == "RegularExpression" {
			s += "(regex)"
		}
	}
	return s
}

func sortedRoutes(in *clusterIn, v string, tcp bool) []*routeIn {
	var rs []*routeIn
	for i := range in.Routes {
		if in.Routes[i].TCP == tcp && (tcp || versionOf(in, in.Routes[i].V) == v) {
			rs = append(rs, &in.Routes[i])
		}
	}
	sort.SliceStable(rs, func(i, j int) bool {
		if rs[i].TS != rs[j].TS {
			return rs[i].TS < rs[j].TS
		}
		return rs[i].NS+"/"+rs[i].Name < rs[j].NS+"/"+rs[j].Name
	})
	return rs
}

func isPassthrough(l *listenerIn) bool {
	return l.TLS != nil && l.TLS.Mode != nil && *l.TLS.Mode == "Passthrough"
}

func hostName(h string) string {
	if h == "" || h == "*" {
		return "<default>"
	}
	return h
}

// specMatch: the Gateway API intersection of a listener hostname with one route hostname
// (a "*." prefix is a suffix match of at least one more label; the more specific name is kept).
func specMatch(l, r string) (string, bool) {
	if r == "" || r == "*" {
		return l, true
	}
	lw, rw := strings.HasPrefix(l, "*."), strings.HasPrefix(r, "*.")
	switch {
	case !lw && !rw:
		return r, l == r
	case lw && !rw:
		return r, strings.HasSuffix(r, l[1:]) && len(r) > len(l[1:])
	case !lw && rw:
		return l, strings.HasSuffix(l, r[1:]) && len(l) > len(r[1:])
	default:
		if strings.HasSuffix(r[1:], l[1:]) {
			return r, true
		}
		if strings.HasSuffix(l[1:], r[1:]) {
			return l, true
		}
		return "", false
	}
}

// specHostnames: the hostnames a route gets on a listener by the Gateway API text.
func specHostnames(l *listenerIn, r *routeIn) []string {
	if l.Hostname == nil || *l.Hostname == "" || *l.Hostname == "*" {
		if len(r.Hostnames) == 0 {
			return []string{"*"}
		}
		return r.Hostnames
	}
	if len(r.Hostnames) == 0 {
		return []string{*l.Hostname}
	}
	out := []string{}
	for _, h := range r.Hostnames {
		if m, ok := specMatch(*l.Hostname, h); ok {
			out = append(out, m)
		}
	}
	return out
}

type expectation struct {
	wantPath  map[string]string
	wantBack  map[string][]refUse
	wantTCP   map[int]string
	hostsOf   map[string]map[string]bool // backend id -> hosts it may serve
	passHosts map[string]bool            // hosts reachable through an admitting passthrough listener
	passBack  map[string]bool            // HTTP backends admitted through a passthrough listener
	hasPass   bool
	diverge   map[string]bool // where the project (by its docs) departs from the Gateway API text
}

// expect walks the admitted combinations in declaration order, one pass per enabled API version.
func expect(in *clusterIn) *expectation {
	e := &expectation{wantPath: map[string]string{}, wantBack: map[string][]refUse{}, wantTCP: map[int]string{},
		hostsOf: map[string]map[string]bool{}, passHosts: map[string]bool{}, passBack: map[string]bool{}, diverge: map[string]bool{}}
	for _, v := range enabledVersions(in) {
		for _, tcp := range []bool{false, true} {
			for _, r := range sortedRoutes(in, v, tcp) {
				for pi := range r.Parents {
					p := &r.Parents[pi]
					g := parentGateway(in, v, r, p)
					if g == nil {
						continue
					}
					for li := range g.Listeners {
						l := &g.Listeners[li]
						if !listenerAdmits(in, g, l, r, p) {
							continue
						}
						for i := range r.Rules {
							rule := &r.Rules[i]
							us := usableRefs(in, r.NS, rule.Backends)
							if len(us) == 0 {
								continue
							}
							if tcp {
								id := fmt.Sprintf("%s_%s__tcprule%d", r.NS, r.Name, i)
								e.wantBack[id] = us
								if _, ok := e.wantTCP[l.Port]; !ok {
									e.wantTCP[l.Port] = id
								}
								for lj := range g.Listeners {
									if lj != li && g.Listeners[lj].Port == l.Port {
										e.diverge["listener-port-conflict"] = true
									}
								}
								continue
							}
							id := fmt.Sprintf("%s_%s__rule%d", r.NS, r.Name, i)
							e.wantBack[id] = us
							if e.hostsOf[id] == nil {
								e.hostsOf[id] = map[string]bool{}
							}
							if isPassthrough(l) {
								e.hasPass = true
								e.passBack[id] = true
							}
							if l.Protocol != "HTTP" && l.Protocol != "HTTPS" {
								e.diverge["httproute-on-non-http-listener"] = true
							}
							if l.TLS != nil && !isPassthrough(l) {
								ok := len(l.TLS.Certs) > 0
								for _, c := range l.TLS.Certs {
									if c != "crt0" {
										ok = false
									}
								}
								if !ok {
									e.diverge["unresolved-certificate-ref-still-attached"] = true
								}
							}
							if fmt.Sprint(hostnamesOf(l, r)) != fmt.Sprint(specHostnames(l, r)) {
								e.diverge["hostname-not-intersected"] = true
							}
							ms := rule.Matches
							if len(ms) == 0 {
								ms = []matchIn{{}}
							}
							for _, h := range hostnamesOf(l, r) {
								e.hostsOf[id][hostName(h)] = true
								if isPassthrough(l) {
									e.passHosts[hostName(h)] = true
								}
							}
							for mi := range ms {
								for _, h := range hostnamesOf(l, r) {
									k := linkOf(h, &ms[mi])
									if _, ok := e.wantPath[k]; !ok {
										e.wantPath[k] = id
									}
								}
							}
						}
					}
				}
			}
		}
	}
	return e
}

func checkBackends(e *expectation, obs *observed) (string, string) {
	gotBack := map[string]bool{}
	for _, b := range obs.Backends {
		gotBack[b.ID] = true
		us, ok := e.wantBack[b.ID]
		if !ok {
			return "attached-not-admitted", fmt.Sprintf("backend %s exists but its rule is not admitted by any listener", b.ID)
		}
		cls := make([]*convutils.WeightCluster, len(us))
		for i, u := range us {
			cls[i] = &convutils.WeightCluster{Weight: u.weight, Length: len(u.addrs)}
		}
		convutils.RebalanceWeight(cls, 128)
		var want []string
		for i, u := range us {
			for _, a := range u.addrs {
				want = append(want, fmt.Sprintf("%s:%d w=%d", a.IP, a.Port, cls[i].Weight))
			}
			// C16 on the spot: zero exactly when configured zero, and in range
			if len(u.addrs) > 0 && ((cls[i].Weight == 0) != (u.weight == 0) || cls[i].Weight < 0 || cls[i].Weight > 256) {
				return "backend-servers", fmt.Sprintf("backend %s: configured weight %d became server weight %d", b.ID, u.weight, cls[i].Weight)
			}
		}
		var got []string
		for _, ep := range b.Endpoints {
			got = append(got, fmt.Sprintf("%s:%d w=%d", ep.IP, ep.Port, ep.Weight))
		}
		sort.Strings(want)
		sort.Strings(got)
		if strings.Join(want, " ") != strings.Join(got, " ") {
			return "backend-servers", fmt.Sprintf("backend %s has servers %v, its backendRefs give %v", b.ID, got, want)
		}
	}
	for id := range e.wantBack {
		if !gotBack[id] {
			return "admitted-not-attached", fmt.Sprintf("backend %s of an admitted rule is missing", id)
		}
	}
	return "", ""
}

func checkTCP(e *expectation, obs *observed) (string, string) {
	gotTCP := map[int]string{}
	for _, t := range obs.TCP {
		gotTCP[t.Port] = t.Backend
		if w, ok := e.wantTCP[t.Port]; !ok {
			return "attached-not-admitted", fmt.Sprintf("tcp service on port %d -> %s exists but no admitted TCPRoute rule produces it", t.Port, t.Backend)
		} else if w != t.Backend {
			return "wrong-owner", fmt.Sprintf("tcp service on port %d goes to %s, the first admitted declaration is %s", t.Port, t.Backend, w)
		}
	}
	for port, w := range e.wantTCP {
		if _, ok := gotTCP[port]; !ok {
			return "admitted-not-attached", fmt.Sprintf("admitted tcp service on port %d -> %s is missing", port, w)
		}
	}
	return "", ""
}

func oracle(in *clusterIn, obs *observed) (string, string) {
	e := expect(in)
	if k, w := checkBackends(e, obs); k != "" {
		return k, w
	}
	if k, w := checkTCP(e, obs); k != "" {
		return k, w
	}
	// a rule's backend is shared by all the listeners it is attached through, and tcp mode sticks to
	// it: a plain listener must not end up routing http to a tcp-mode backend, nor lose a root path
	// to HTTPPassthroughBackend (only read for ssl-passthrough hosts)
	for _, hb := range obs.HPB {
		if !contains(obs.Pass, hb.Host) {
			return "passthrough-mode-leaks-to-plain-listener", fmt.Sprintf("host %s is not ssl-passthrough but its root path to %s was moved to HTTPPassthroughBackend, where nothing reads it", hb.Host, hb.Backend)
		}
	}
	for _, p := range obs.Paths {
		host := strings.SplitN(p.Link, "\n", 2)[0]
		if contains(obs.ModeTCP, p.Backend) && !contains(obs.Pass, host) {
			return "passthrough-mode-leaks-to-plain-listener", fmt.Sprintf("host %s is not ssl-passthrough but %q goes to the tcp-mode backend %s", host, p.Link, p.Backend)
		}
	}
	for _, id := range obs.ModeTCP {
		if !strings.Contains(id, "__tcprule") && !e.passBack[id] {
			return "attached-not-admitted", fmt.Sprintf("backend %s is in tcp mode but no passthrough listener admits its route", id)
		}
	}
	for _, b := range obs.Backends {
		if strings.Contains(b.ID, "__tcprule") && !contains(obs.ModeTCP, b.ID) {
			return "admitted-not-attached", fmt.Sprintf("backend %s of a TCPRoute is not in tcp mode", b.ID)
		}
	}
	for _, h := range obs.Pass {
		if !e.passHosts[h] {
			return "attached-not-admitted", fmt.Sprintf("host %s is ssl-passthrough but no passthrough listener admits a route for it", h)
		}
	}
	for _, hb := range obs.HPB {
		if _, ok := e.wantBack[hb.Backend]; !ok || !e.passHosts[hb.Host] || !e.hostsOf[hb.Backend][hb.Host] {
			return "attached-not-admitted", fmt.Sprintf("host %s sends plain http to %s: not an admitted backend of a passthrough host", hb.Host, hb.Backend)
		}
	}
	if e.hasPass {
		// passthrough listeners: matches are dropped and root paths move; only "nothing for a
		// non-admitted combination" is checked on the host paths
		for _, p := range obs.Paths {
			host := strings.SplitN(p.Link, "\n", 2)[0]
			if _, ok := e.wantBack[p.Backend]; !ok || !e.hostsOf[p.Backend][host] {
				return "attached-not-admitted", fmt.Sprintf("host/path rule %q -> %s exists but no admitted listener gives that host to that rule", p.Link, p.Backend)
			}
		}
		return "", ""
	}
	if len(obs.Pass)+len(obs.HPB) > 0 {
		return "attached-not-admitted", "ssl-passthrough state without any admitting passthrough listener"
	}
	// nothing for a non-admitted combination; every admitted one present, owned by the first declaration
	gotPath := map[string]string{}
	for _, p := range obs.Paths {
		if _, dup := gotPath[p.Link]; dup {
			return "wrong-owner", fmt.Sprintf("host/path rule %q is declared twice", p.Link)
		}
		gotPath[p.Link] = p.Backend
		w, ok := e.wantPath[p.Link]
		if !ok {
			return "attached-not-admitted", fmt.Sprintf("host/path rule %q -> %s exists but no admitted (listener, rule, hostname, match) produces it", p.Link, p.Backend)
		}
		if w != p.Backend {
			return "wrong-owner", fmt.Sprintf("host/path rule %q goes to %s, the first admitted declaration in route order is %s", p.Link, p.Backend, w)
		}
	}
	for k, w := range e.wantPath {
		if _, ok := gotPath[k]; !ok {
			return "admitted-not-attached", fmt.Sprintf("admitted host/path rule %q -> %s is missing", k, w)
		}
	}
	return "", ""
}

func contains(l []string, s string) bool {
	for _, x := range l {
		if x == s {
			return true
		}
	}
	return false
}
