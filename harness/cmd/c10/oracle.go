package main

import (
	"fmt"
	"sort"
	"strings"

	metav1 "k8s.io/apimachinery/pkg/apis/meta/v1"
	"k8s.io/apimachinery/pkg/labels"

	convutils "github.com/jcmoraisjr/haproxy-ingress/pkg/converters/utils"
)

// The oracle evaluates the Gateway API attachment rules named by the property directly on the
// input objects (no Coq model, no converter code; label selectors are evaluated by the
// apimachinery library) and compares with what the real converter produced.

const gwGroup = "gateway.networking.k8s.io"

func deref(p *string, d string) string {
	if p == nil || *p == "" {
		return d
	}
	return *p
}

func trueKind(r *routeIn) string {
	if r.TCP {
		return "TCPRoute"
	}
	return "HTTPRoute"
}

// parentGateway: the Gateway a parentRef designates, if it belongs to this controller.
func parentGateway(in *clusterIn, r *routeIn, p *parentIn) *gatewayIn {
	if deref(p.Group, gwGroup) != gwGroup || deref(p.Kind, "Gateway") != "Gateway" {
		return nil
	}
	ns := deref(p.NS, r.NS)
	for i := range in.Gateways {
		g := &in.Gateways[i]
		if g.NS == ns && g.Name == p.Name {
			for _, c := range in.Classes {
				if c.Name == g.Class {
					if c.Controller == in.Controller {
						return g
					}
					return nil
				}
			}
			return nil
		}
	}
	return nil
}

// listenerAdmits: sectionName, allowedRoutes.kinds and allowedRoutes.namespaces.
func listenerAdmits(in *clusterIn, g *gatewayIn, l *listenerIn, r *routeIn, p *parentIn) bool {
	if p.Section != nil && *p.Section != l.Name {
		return false
	}
	if l.Allowed == nil || l.Allowed.Namespaces == nil || l.Allowed.Namespaces.From == nil {
		return false // cannot exist behind the CRD defaulting; admits nothing
	}
	if len(l.Allowed.Kinds) > 0 {
		ok := false
		for _, k := range l.Allowed.Kinds {
			if (k.Group == nil || *k.Group == gwGroup) && k.Kind == trueKind(r) {
				ok = true
			}
		}
		if !ok {
			return false
		}
	}
	switch *l.Allowed.Namespaces.From {
	case "All":
		return true
	case "Same":
		return r.NS == g.NS
	case "Selector":
		s := l.Allowed.Namespaces.Selector
		if s == nil {
			return false
		}
		ls := &metav1.LabelSelector{}
		if len(s.Labels) > 0 {
			ls.MatchLabels = map[string]string{}
			for _, kv := range s.Labels {
				ls.MatchLabels[kv[0]] = kv[1]
			}
		}
		for _, e := range s.Exprs {
			ls.MatchExpressions = append(ls.MatchExpressions, metav1.LabelSelectorRequirement{Key: e.Key, Operator: metav1.LabelSelectorOperator(e.Op), Values: e.Values})
		}
		sel, err := metav1.LabelSelectorAsSelector(ls)
		if err != nil {
			return false
		}
		for _, n := range in.Namespaces {
			if n.Name == r.NS {
				set := labels.Set{}
				for _, kv := range n.Labels {
					set[kv[0]] = kv[1]
				}
				return sel.Matches(set)
			}
		}
		return false
	}
	return false
}

type refUse struct {
	weight int
	addrs  []epObs // weight unset
}

// usableRefs: the backendRefs of a rule that designate an existing service port with an Endpoints object.
func usableRefs(in *clusterIn, ns string, refs []backendIn) []refUse {
	var out []refUse
	for _, b := range refs {
		if b.Port == nil {
			continue
		}
		var svc *serviceIn
		for i := range in.Services {
			if in.Services[i].NS == ns && in.Services[i].Name == b.Name {
				svc = &in.Services[i]
			}
		}
		if svc == nil || svc.Endpoints == nil {
			continue
		}
		var port *svcPortIn
		for i := range svc.Ports {
			if svc.Ports[i].Port == *b.Port {
				port = &svc.Ports[i]
				break
			}
		}
		if port == nil {
			for i := range svc.Ports {
				if svc.Ports[i].Target != nil && *svc.Ports[i].Target == *b.Port {
					port = &svc.Ports[i]
					break
				}
			}
		}
		if port == nil {
			continue
		}
		u := refUse{weight: 1}
		if b.Weight != nil {
			u.weight = *b.Weight
		}
		for _, ss := range *svc.Endpoints {
			for _, ep := range ss.Ports {
				if ep.TCP && (port.Name == "" || port.Name == ep.Name) {
					for _, a := range ss.Addrs {
						u.addrs = append(u.addrs, epObs{IP: a, Port: ep.Port})
					}
				}
			}
		}
		out = append(out, u)
	}
	return out
}

func hostnamesOf(l *listenerIn, r *routeIn) []string {
	// docs/configuration/gateway-api.md: a listener hostname other than empty or "*" overrides
	// the route's hostnames, without merging
	if l.Hostname != nil && *l.Hostname != "" && *l.Hostname != "*" {
		return []string{*l.Hostname}
	}
	if len(r.Hostnames) == 0 {
		return []string{"*"}
	}
	return r.Hostnames
}

func linkOf(host string, m *matchIn) string {
	if host == "" || host == "*" {
		host = "<default>"
	}
	path, typ := "/", "prefix"
	if m.Path != nil {
		if m.Path.Value != nil && *m.Path.Value != "" {
			path = *m.Path.Value
		}
		if m.Path.Type != nil {
			switch *m.Path.Type {
			case "Exact":
				typ = "exact"
			case "RegularExpression":
				typ = "regex"
			}
		}
	}
	s := host + "\n" + path + "\n" + typ
	for _, h := range m.Headers {
		s += "\nh:" + h.Name + ":" + h.Value
		if h.Type != nil && *h.Type == "RegularExpression" {
			s += "(regex)"
		}
	}
	return s
}

func sortedRoutes(in *clusterIn, tcp bool) []*routeIn {
	var rs []*routeIn
	for i := range in.Routes {
		if in.Routes[i].TCP == tcp {
			rs = append(rs, &in.Routes[i])
		}
	}
	sort.SliceStable(rs, func(i, j int) bool {
		if rs[i].TS != rs[j].TS {
			return rs[i].TS < rs[j].TS
		}
		return rs[i].NS+"/"+rs[i].Name < rs[j].NS+"/"+rs[j].Name
	})
	return rs
}

func oracle(in *clusterIn, obs *observed) (string, string) {
	// expected: link -> owner backend (first admitted declaration in route order), and the admitted backends
	wantPath := map[string]string{}
	wantBack := map[string][]refUse{}
	wantTCP := map[int]string{}
	for _, tcp := range []bool{false, true} {
		for _, r := range sortedRoutes(in, tcp) {
			for pi := range r.Parents {
				p := &r.Parents[pi]
				g := parentGateway(in, r, p)
				if g == nil {
					continue
				}
				for li := range g.Listeners {
					l := &g.Listeners[li]
					if !listenerAdmits(in, g, l, r, p) {
						continue
					}
					for i := range r.Rules {
						rule := &r.Rules[i]
						us := usableRefs(in, r.NS, rule.Backends)
						if len(us) == 0 {
							continue
						}
						if tcp {
							id := fmt.Sprintf("%s_%s__tcprule%d", r.NS, r.Name, i)
							wantBack[id] = us
							if _, ok := wantTCP[l.Port]; !ok {
								wantTCP[l.Port] = id
							}
							continue
						}
						id := fmt.Sprintf("%s_%s__rule%d", r.NS, r.Name, i)
						wantBack[id] = us
						ms := rule.Matches
						if len(ms) == 0 {
							ms = []matchIn{{}}
						}
						for mi := range ms {
							for _, h := range hostnamesOf(l, r) {
								k := linkOf(h, &ms[mi])
								if _, ok := wantPath[k]; !ok {
									wantPath[k] = id
								}
							}
						}
					}
				}
			}
		}
	}
	// nothing for a non-admitted combination; every admitted one present, owned by the first declaration
	gotPath := map[string]string{}
	for _, p := range obs.Paths {
		gotPath[p.Link] = p.Backend
		w, ok := wantPath[p.Link]
		if !ok {
			return "attached-not-admitted", fmt.Sprintf("host/path rule %q -> %s exists but no admitted (listener, rule, hostname, match) produces it", p.Link, p.Backend)
		}
		if w != p.Backend {
			return "wrong-owner", fmt.Sprintf("host/path rule %q goes to %s, the first admitted declaration in route order is %s", p.Link, p.Backend, w)
		}
	}
	for k, w := range wantPath {
		if _, ok := gotPath[k]; !ok {
			return "admitted-not-attached", fmt.Sprintf("admitted host/path rule %q -> %s is missing", k, w)
		}
	}
	gotTCP := map[int]string{}
	for _, t := range obs.TCP {
		gotTCP[t.Port] = t.Backend
		if w, ok := wantTCP[t.Port]; !ok {
			return "attached-not-admitted", fmt.Sprintf("tcp service on port %d -> %s exists but no admitted TCPRoute rule produces it", t.Port, t.Backend)
		} else if w != t.Backend {
			return "wrong-owner", fmt.Sprintf("tcp service on port %d goes to %s, the first admitted declaration is %s", t.Port, t.Backend, w)
		}
	}
	for port, w := range wantTCP {
		if _, ok := gotTCP[port]; !ok {
			return "admitted-not-attached", fmt.Sprintf("admitted tcp service on port %d -> %s is missing", port, w)
		}
	}
	// backends: exactly the admitted rules, with the rule's backendRefs as weighted servers
	gotBack := map[string]bool{}
	for _, b := range obs.Backends {
		gotBack[b.ID] = true
		us, ok := wantBack[b.ID]
		if !ok {
			return "attached-not-admitted", fmt.Sprintf("backend %s exists but its rule is not admitted by any listener", b.ID)
		}
		cls := make([]*convutils.WeightCluster, len(us))
		for i, u := range us {
			cls[i] = &convutils.WeightCluster{Weight: u.weight, Length: len(u.addrs)}
		}
		convutils.RebalanceWeight(cls, 128)
		var want []string
		for i, u := range us {
			for _, a := range u.addrs {
				want = append(want, fmt.Sprintf("%s:%d w=%d", a.IP, a.Port, cls[i].Weight))
			}
			// C16 on the spot: zero exactly when configured zero, and in range
			if len(u.addrs) > 0 && ((cls[i].Weight == 0) != (u.weight == 0) || cls[i].Weight < 0 || cls[i].Weight > 256) {
				return "backend-servers", fmt.Sprintf("backend %s: configured weight %d became server weight %d", b.ID, u.weight, cls[i].Weight)
			}
		}
		var got []string
		for _, e := range b.Endpoints {
			got = append(got, fmt.Sprintf("%s:%d w=%d", e.IP, e.Port, e.Weight))
		}
		sort.Strings(want)
		sort.Strings(got)
		if strings.Join(want, " ") != strings.Join(got, " ") {
			return "backend-servers", fmt.Sprintf("backend %s has servers %v, its backendRefs give %v", b.ID, got, want)
		}
	}
	for id := range wantBack {
		if !gotBack[id] {
			return "admitted-not-attached", fmt.Sprintf("backend %s of an admitted rule is missing", id)
		}
	}
	return "", ""
}
