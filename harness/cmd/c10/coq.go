package main

import (
	"fmt"
	"strings"

	"verif/harness/lib/hx"
)

func cOstr(p *string) string {
	if p == nil {
		return "None"
	}
	return "(Some " + hx.Str(*p) + ")"
}

func cStrs(l []string) string {
	items := make([]string, len(l))
	for i, s := range l {
		items[i] = hx.Str(s)
	}
	return hx.List(items)
}

func cPairs(l [][2]string) string {
	items := make([]string, len(l))
	for i, kv := range l {
		items[i] = hx.Tuple(hx.Str(kv[0]), hx.Str(kv[1]))
	}
	return hx.List(items)
}

func cOptZ(p *int) string {
	if p == nil {
		return "None"
	}
	return "(Some " + hx.Z(int64(*p)) + ")"
}

func cSelector(s *selectorIn) string {
	var ex []string
	for _, e := range s.Exprs {
		ex = append(ex, fmt.Sprintf("{| lr_key := %s; lr_op := %s; lr_values := %s |}", hx.Str(e.Key), hx.Str(e.Op), cStrs(e.Values)))
	}
	return fmt.Sprintf("{| sel_labels := %s; sel_exprs := %s |}", cPairs(s.Labels), hx.List(ex))
}

func cAllowed(a *allowedIn) string {
	if a == nil {
		return "None"
	}
	var ks []string
	for _, k := range a.Kinds {
		ks = append(ks, hx.Tuple(cOstr(k.Group), hx.Str(k.Kind)))
	}
	ns := "None"
	if a.Namespaces != nil {
		sel := "None"
		if a.Namespaces.Selector != nil {
			sel = "(Some " + cSelector(a.Namespaces.Selector) + ")"
		}
		ns = fmt.Sprintf("(Some {| rn_from := %s; rn_selector := %s |})", cOstr(a.Namespaces.From), sel)
	}
	return fmt.Sprintf("(Some {| al_kinds := %s; al_namespaces := %s |})", hx.List(ks), ns)
}

// cCluster prints the objects the sync of API version v reads: the GatewayClasses, Gateways and
// HTTPRoutes of that version, every TCPRoute, and the shared Services and Namespaces.
func cCluster(in *clusterIn, v string, obs *observed) string {
	var classes, gws, routes, svcs, nss []string
	for _, c := range in.Classes {
		if versionOf(in, c.V) != v {
			continue
		}
		classes = append(classes, fmt.Sprintf("{| gc_name := %s; gc_controller := %s |}", hx.Str(c.Name), hx.Str(c.Controller)))
	}
	for _, g := range in.Gateways {
		if versionOf(in, g.V) != v {
			continue
		}
		var ls []string
		for _, l := range g.Listeners {
			tls := "None"
			if l.TLS != nil {
				tls = "(Some " + cOstr(l.TLS.Mode) + ")"
			}
			ls = append(ls, fmt.Sprintf("{| l_name := %s; l_hostname := %s; l_port := %s; l_protocol := %s; l_tls := %s; l_allowed := %s |}",
				hx.Str(l.Name), cOstr(l.Hostname), hx.Z(int64(l.Port)), hx.Str(l.Protocol), tls, cAllowed(l.Allowed)))
		}
		gws = append(gws, fmt.Sprintf("{| g_ns := %s; g_name := %s; g_class := %s; g_listeners := %s |}",
			hx.Str(g.NS), hx.Str(g.Name), hx.Str(g.Class), hx.List(ls)))
	}
	for _, r := range in.Routes {
		if !r.TCP && versionOf(in, r.V) != v {
			continue
		}
		var ps, rules []string
		for _, p := range r.Parents {
			ps = append(ps, fmt.Sprintf("{| p_group := %s; p_kind := %s; p_ns := %s; p_name := %s; p_section := %s |}",
				cOstr(p.Group), cOstr(p.Kind), cOstr(p.NS), hx.Str(p.Name), cOstr(p.Section)))
		}
		for _, ru := range r.Rules {
			var ms, bs []string
			for _, m := range ru.Matches {
				path := "None"
				if m.Path != nil {
					path = "(Some " + hx.Tuple(cOstr(m.Path.Type), cOstr(m.Path.Value)) + ")"
				}
				var hs []string
				for _, h := range m.Headers {
					hs = append(hs, fmt.Sprintf("{| hh_name := %s; hh_value := %s; hh_type := %s |}", hx.Str(h.Name), hx.Str(h.Value), cOstr(h.Type)))
				}
				ms = append(ms, fmt.Sprintf("{| m_path := %s; m_headers := %s |}", path, hx.List(hs)))
			}
			for _, b := range ru.Backends {
				bs = append(bs, fmt.Sprintf("{| b_name := %s; b_port := %s; b_weight := %s |}", hx.Str(b.Name), cOptZ(b.Port), cOptZ(b.Weight)))
			}
			rules = append(rules, fmt.Sprintf("{| r_matches := %s; r_backends := %s |}", hx.List(ms), hx.List(bs)))
		}
		kk := "http:" + v + ":"
		if r.TCP {
			kk = "tcp:"
		}
		kind := obs.Kinds[kk+r.NS+"/"+r.Name]
		routes = append(routes, fmt.Sprintf("{| rt_tcp := %s; rt_kind := %s; rt_ns := %s; rt_name := %s; rt_ts := %s; rt_parents := %s; rt_hostnames := %s; rt_rules := %s |}",
			hx.Bool(r.TCP), hx.Str(kind), hx.Str(r.NS), hx.Str(r.Name), hx.Z(r.TS), hx.List(ps), cStrs(r.Hostnames), hx.List(rules)))
	}
	for _, s := range in.Services {
		var ports []string
		for _, p := range s.Ports {
			ports = append(ports, fmt.Sprintf("{| sp_name := %s; sp_port := %s; sp_target := %s |}", hx.Str(p.Name), hx.Z(int64(p.Port)), cOptZ(p.Target)))
		}
		eps := "None"
		if s.Endpoints != nil {
			var subs []string
			for _, ss := range *s.Endpoints {
				var pts []string
				for _, p := range ss.Ports {
					pts = append(pts, hx.Tuple(hx.Str(p.Name), hx.Z(int64(p.Port)), hx.Bool(p.TCP)))
				}
				subs = append(subs, fmt.Sprintf("{| ss_addrs := %s; ss_ports := %s |}", cStrs(ss.Addrs), hx.List(pts)))
			}
			eps = "(Some " + hx.List(subs) + ")"
		}
		svcs = append(svcs, fmt.Sprintf("{| sv_ns := %s; sv_name := %s; sv_ports := %s; sv_endpoints := %s |}", hx.Str(s.NS), hx.Str(s.Name), hx.List(ports), eps))
	}
	for _, n := range in.Namespaces {
		nss = append(nss, hx.Tuple(hx.Str(n.Name), cPairs(n.Labels)))
	}
	return fmt.Sprintf("{| c_controller := %s; c_classes := %s; c_gateways := %s; c_routes := %s; c_services := %s; c_namespaces := %s |}",
		hx.Str(in.Controller), hx.List(classes), hx.List(gws), hx.List(routes), hx.List(svcs), hx.List(nss))
}

// coqLink prints a PathLink hash (it holds newlines) as a concatenation.
func coqLink(s string) string {
	parts := strings.Split(s, "\n")
	out := make([]string, len(parts))
	for i, p := range parts {
		out[i] = hx.Str(p)
	}
	return "(String.concat nl " + hx.List(out) + ")"
}

func coqCase(id int, in *clusterIn, obs *observed) string {
	var cls, paths, backs, tcps, hpb []string
	for _, v := range enabledVersions(in) {
		cls = append(cls, cCluster(in, v, obs))
	}
	for _, p := range obs.Paths {
		paths = append(paths, hx.Tuple(coqLink(p.Link), hx.Str(p.Backend)))
	}
	for _, b := range obs.Backends {
		var eps []string
		for _, e := range b.Endpoints {
			eps = append(eps, hx.Tuple(hx.Str(e.IP), hx.Z(int64(e.Port)), hx.Z(int64(e.Weight))))
		}
		backs = append(backs, hx.Tuple(hx.Str(b.ID), hx.List(eps)))
	}
	for _, t := range obs.TCP {
		tcps = append(tcps, hx.Tuple(hx.Z(int64(t.Port)), hx.Str(t.Backend)))
	}
	for _, h := range obs.HPB {
		hpb = append(hpb, hx.Tuple(hx.Str(h.Host), hx.Str(h.Backend)))
	}
	return fmt.Sprintf("{| gid := %s; gcls := %s;\n   o_paths := %s; o_backs := %s; o_tcp := %s; o_modetcp := %s; o_pass := %s; o_hpb := %s |}",
		hx.N(id), hx.List(cls), hx.List(paths), hx.List(backs), hx.List(tcps), cStrs(obs.ModeTCP), cStrs(obs.Pass), hx.List(hpb))
}
