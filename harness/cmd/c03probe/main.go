package main

import (
	"fmt"
	"os"

	"k8s.io/apimachinery/pkg/util/intstr"

	"verif/harness/lib/cfgnorm"
	"verif/harness/lib/pipeline"
	"verif/harness/lib/world"
)

func main() {
	for _, strict := range []string{"false", "true"} {
		dir := "/verif/.work/c03probe/p"
		os.RemoveAll(dir)
		p := pipeline.New(pipeline.Options{Dir: dir, WatchWithoutClass: true})
		var objs []interface{}
		_ = objs
		s1 := world.Service("ns1", "svc1", world.SvcPort{Name: "http", Port: 80, TargetPort: intstr.FromInt(8080)})
		e1 := world.Endpoints("ns1", "svc1", world.EpPort{Name: "http", Port: 8080, Ready: []string{"10.0.0.1"}})
		s2 := world.Service("ns1", "svc2", world.SvcPort{Name: "http", Port: 80, TargetPort: intstr.FromInt(8080)})
		e2 := world.Endpoints("ns1", "svc2", world.EpPort{Name: "http", Port: 8080, Ready: []string{"10.0.0.2"}})
		s3 := world.Service("ns1", "svc3", world.SvcPort{Name: "http", Port: 80, TargetPort: intstr.FromInt(8080)})
		e3 := world.Endpoints("ns1", "svc3", world.EpPort{Name: "http", Port: 8080, Ready: []string{"10.0.0.3"}})
		ing := world.Ingress("ns1", "ing1", 10,
			world.IngRule{Host: "*.wild.example", Paths: []world.IngPath{
				{Path: "/app/sub", Type: "Exact", Service: "svc1", PortNum: 80},
				{Path: "/app", Type: "Prefix", Service: "svc2", PortNum: 80},
				{Path: "/App/deep", Type: "ImplementationSpecific", Service: "svc1", PortNum: 80}}},
			world.IngRule{Host: "a.wild.example", Paths: []world.IngPath{{Path: "/only", Type: "Prefix", Service: "svc3", PortNum: 80}}},
			world.IngRule{Host: "", Paths: []world.IngPath{{Path: "/", Type: "Prefix", Service: "svc3", PortNum: 80}}},
		)
		fmt.Println(p.Seed(p.GlobalConfigMap(map[string]string{"ssl-redirect": "false", "strict-host": strict}), s1, e1, s2, e2, s3, e3, ing), p.ConvLog.Take())
		nf, _ := cfgnorm.Load(p.Dir(), p.Prefix())
		f := nf.Frontend("_front_http")
		for _, l := range f.Lookups {
			fmt.Println(l.Var, l.Method, l.Lower, l.Cond, l.Entries)
		}
		for _, rq := range [][2]string{{"x.wild.example", "/app/sub"}, {"x.wild.example", "/appx"}, {"x.wild.example", "/app/sub/x"}, {"x.wild.example", "/APP/deep"}, {"x.wild.example", "/App/deep/1"},
			{"a.wild.example", "/only/1"}, {"a.wild.example", "/app"}, {"a.b.wild.example", "/app"}, {"wild.example", "/app"}, {"X.WILD.example:8080", "/app"}, {"x.wild.example", "/zzz"}} {
			r := cfgnorm.Route(nf, cfgnorm.Request{Scheme: "http", Host: rq[0], Path: rq[1]})
			fmt.Printf("strict=%s %-22s %-12s -> %s %s %v %v\n", strict, rq[0], rq[1], r.Verdict, r.Backend, r.ServerKeys(), r.Notes)
		}
		p.Close()
	}
}
