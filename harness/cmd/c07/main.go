// c07: exploration stub (replaced below by the full harness).
package main

import (
	"flag"
	"fmt"
	"math/rand"
	"os"
	"strings"

	"verif/harness/lib/c07"
	"verif/harness/lib/pipeline"
	"verif/harness/lib/world"
)

func main() {
	seed := flag.Int64("seed", 1, "")
	n := flag.Int("n", 20, "")
	dump := flag.Bool("dump", false, "")
	flag.Parse()
	rng := rand.New(rand.NewSource(*seed))
	kinds := map[string]int{}
	for i := 0; i < *n; i++ {
		o, h := c07.GenHistory(rng, 1+rng.Intn(4))
		dir := fmt.Sprintf("/verif/.work/c07x/p%d", i)
		os.RemoveAll(dir)
		p, err := pipeline.NewE(o.Pipeline(dir))
		if err != nil {
			panic(err)
		}
		for bi, b := range h {
			err := p.Apply(b)
			if err != nil {
				fmt.Println("apply error:", err)
				kinds["apply-error"]++
			}
			cfg, err := c07.Scan(p.Dir(), p.Prefix())
			if err != nil {
				panic(err)
			}
			fs := c07.Check(cfg)
			for _, f := range fs {
				kinds[f.Kind]++
			}
			if len(fs) > 0 {
				fmt.Printf("== history %d batch %d opt %+v\n", i, bi, o)
				for _, f := range fs {
					fmt.Println("   ", f.Kind, ":", f.What)
				}
				for bj, bb := range h[:bi+1] {
					var parts []string
					for _, c := range bb {
						parts = append(parts, c.Op.String()+" "+world.Key(c.Obj))
					}
					fmt.Printf("   batch %d: %s\n", bj, strings.Join(parts, "; "))
				}
			}
			if *dump && bi == len(h)-1 {
				b, _ := os.ReadFile(p.CfgDir() + "/haproxy.cfg")
				fmt.Println(string(b))
				fmt.Printf("%+v\n", cfg)
			}
		}
		p.Close()
	}
	fmt.Println(kinds)
}
