// c07: oracle and correspondence for C07 (every generated configuration is loadable).
//
// Oracle (no model): histories run through the REAL controller pipeline (lib/pipeline);
// after every reconciliation the files written are scanned RAW (lib/c07 Scan) into the
// reference structure and analysed (lib/c07 Check): dangling / duplicated backend
// references (use_backend, default_backend, map values, auth-intercept helper backends),
// userlists, map / crt-list / certificate files, server names / ids, use-server, path ids,
// auth-proxy ports. A failing history is shrunk (delta debugging) and keyed by its cause.
// The three generators of names / ids / ports are also driven directly on the real types
// (lib/c07 units.go) with their own direct oracles.
//
// Correspondence: every scanned structure is printed as a Coq term and the verified
// checker `wellformed` is evaluated on it inside Coq (it must agree with the Go analysis:
// true everywhere on a tree without findings); the generator models are compared with
// what the real types produced.
package main

import (
	"encoding/json"
	"flag"
	"fmt"
	"os"
	"path/filepath"
	"regexp"
	"sort"
	"strings"

	api "k8s.io/api/core/v1"

	hatypes "github.com/jcmoraisjr/haproxy-ingress/pkg/haproxy/types"

	"verif/harness/lib/c07"
	"verif/harness/lib/cfgnorm"
	"verif/harness/lib/fakehaproxy"
	"verif/harness/lib/hx"
	"verif/harness/lib/pipeline"
	"verif/harness/lib/world"
)

var workdir string
var wantTmpl bool
var dump *bool

// state is what was observed after one batch.
type state struct {
	cfg      *c07.Cfg
	findings []c07.Finding
	applyErr error
	scanErr  error
	tmpl     string // the observed model state as a Coq term (Model/TmplRefs.v tstate)
	stale    bool   // hosts were modified in place after the frontend maps were last built
	cmds     int    // socket mode: commands the controller sent to haproxy
	reloaded bool   // socket mode: a reload was asked for
}

var runSeq int

// run applies the history and returns the state after every batch. In socket mode the
// admin and master sockets are served by lib/fakehaproxy: dynamic updates are applied to
// its running state and, when the controller asks for a reload, the fake loads the
// written files as a new worker would (it refuses duplicated server names, as haproxy does).
func run(o c07.Opt, h [][]pipeline.Change, upto int) ([]state, error) {
	runSeq++
	dir := filepath.Join(workdir, fmt.Sprintf("p%d", runSeq))
	os.RemoveAll(dir)
	po := o.Pipeline(dir + "/p")
	var fake *fakehaproxy.Fake
	if o.Socket {
		if err := os.MkdirAll(dir+"/s", 0o755); err != nil {
			return nil, err
		}
		po.MasterSocket = dir + "/s/m.sock"
		po.AdminSocket = dir + "/s/a.sock"
		fake = fakehaproxy.New(po.Dir + "/etc/haproxy")
		socks, err := fakehaproxy.Serve(fake, po.AdminSocket, po.MasterSocket)
		if err != nil {
			return nil, err
		}
		defer socks.Close()
	}
	defer os.RemoveAll(dir)
	p, err := pipeline.NewE(po)
	if err != nil {
		return nil, err
	}
	defer p.Close()
	var out []state
	var lastMaps *hatypes.FrontendMaps
	hostsSnap := ""
	for i, b := range h {
		if upto >= 0 && i > upto {
			break
		}
		st := state{}
		before := p.Reloads()
		if fake != nil {
			fake.Begin(nil)
		}
		st.applyErr = p.Apply(b)
		st.cfg, st.scanErr = c07.Scan(p.Dir(), p.Prefix())
		if wantTmpl {
			// the hosts the frontend maps were last built from: the real code modifies hosts in
			// place without rebuilding them (known finding C01/ingress-default-backend-not-pretracked)
			cur := c07.TmplHosts(p.Config())
			if m := p.Config().Frontend().Maps; m != lastMaps || m == nil {
				lastMaps, hostsSnap = m, cur
			}
			st.stale = cur != hostsSnap
			st.tmpl = c07.TmplState(p.Config(), hostsSnap, p.Prefix())
		}
		if st.scanErr == nil {
			st.findings = c07.Check(st.cfg)
			// cross-check with the independent parser of lib/cfgnorm: whatever it calls a
			// problem (missing file, duplicated backend, stray line) must be a finding here
			if nf, err := cfgnorm.Load(p.Dir(), p.Prefix()); err == nil && len(nf.Problems) > 0 && len(st.findings) == 0 {
				st.findings = append(st.findings, c07.Finding{Kind: "cfgnorm-problem-missed-by-scan", What: strings.Join(nf.Problems, "; ")})
			}
		}
		if st.applyErr != nil {
			// the controller could not write the configuration at all
			msg := regexp.MustCompile(`/verif/[^ :]*|/proc/self/fd/\d+`).ReplaceAllString(st.applyErr.Error(), "")
			st.findings = append(st.findings, c07.Finding{Kind: "update-error", What: "the update failed: " + msg})
		}
		if fake != nil {
			ex, _ := fake.Snapshot()
			st.cmds = len(ex)
			st.reloaded = p.Reloads() > before
			if st.reloaded {
				// the reload queue would run the reload now
				if err := fake.Reload(); err != nil && len(st.findings) == 0 {
					st.findings = append(st.findings, c07.Finding{Kind: "reload-refused", What: "the (simulated) haproxy refused the written files: " + err.Error()})
				}
			}
		}
		out = append(out, st)
		if *dump && i == len(h)-1 {
			files, _ := filepath.Glob(filepath.Join(p.CfgDir(), "*.cfg"))
			for _, f := range files {
				b, _ := os.ReadFile(f)
				fmt.Printf("==== %s\n%s\n", f, strings.ReplaceAll(string(b), p.Prefix(), ""))
			}
			b, _ := json.MarshalIndent(st.cfg, "", " ")
			fmt.Printf("==== scanned\n%s\n", b)
		}
	}
	return out, nil
}

func describe(h [][]pipeline.Change) []string {
	var out []string
	for i, b := range h {
		var parts []string
		for _, c := range b {
			s := fmt.Sprintf("%s %s", c.Op, world.Key(c.Obj))
			if a := c.Obj.GetAnnotations(); len(a) > 0 && c.Op != pipeline.Delete {
				var ks []string
				for k, v := range a {
					ks = append(ks, strings.TrimPrefix(k, "haproxy-ingress.github.io/")+"="+v)
				}
				sort.Strings(ks)
				s += " {" + strings.Join(ks, ", ") + "}"
			}
			parts = append(parts, s)
		}
		out = append(out, fmt.Sprintf("batch %d: %s", i, strings.Join(parts, "; ")))
	}
	return out
}

var (
	reBackend = regexp.MustCompile(`\bns\d_[A-Za-z0-9-]+_[A-Za-z0-9]+\b`)
	reNum     = regexp.MustCompile(`\d+`)
)

// strictHost tells whether a global ConfigMap of the history sets strict-host=true.
func strictHost(h [][]pipeline.Change) bool {
	for _, b := range h {
		for _, c := range b {
			if cm, ok := c.Obj.(*api.ConfigMap); ok && cm.Data["strict-host"] == "true" {
				return true
			}
		}
	}
	return false
}

var reRootKey = regexp.MustCompile(`key \S+#/ names backend "(ns\d_[^"]+)"`)

// keyOf names the cause of a finding. The kind is the class of broken reference; the
// detail generalises names (backends, numbers) away so that the key is stable across
// seeds while two different causes never share a key.
func keyOf(f c07.Finding, strict bool) string {
	detail := ""
	switch f.Kind {
	case "dangling-map-backend":
		// which map family, and what kind of value
		m := regexp.MustCompile(`(_front_[a-z_]+?|_tcp_sni_\d+|_back_[^ ]*?)(__[a-z_0-9]+)?\.map`).FindStringSubmatch(f.What)
		if m != nil {
			detail = reNum.ReplaceAllString(m[1], "N")
		}
		if strict && strings.HasPrefix(detail, "_front_http") && reRootKey.MatchString(f.What) {
			// strict-host: SyncConfig points the root path of a host without one to the root
			// backend of the default host (or to the default backend) when the host is built
			// and never looks at it again
			return "C07/dangling-map-backend-strict-host-borrowed-root-backend-removed"
		}
		v := regexp.MustCompile(`names backend "([^"]*)"`).FindStringSubmatch(f.What)
		switch {
		case v == nil:
		case v[1] == "":
			detail += ":empty-value"
		case v[1] == "__":
			// BackendID.String() of an empty backend id
			detail += ":empty-backend-id"
		case reBackend.MatchString(v[1]):
			detail += ":service-backend"
		default:
			detail += ":" + reNum.ReplaceAllString(v[1], "N")
		}
	case "dangling-use-backend", "dangling-default-backend", "dangling-auth-backend", "duplicate-backend-section":
		w := strings.SplitN(f.What, ":", 2)[0] // "<kind> <section name>"
		w = reBackend.ReplaceAllString(w, "<backend>")
		detail = strings.ReplaceAll(reNum.ReplaceAllString(w, "N"), " ", "-")
	}
	if detail != "" {
		return "C07/" + f.Kind + ":" + detail
	}
	return "C07/" + f.Kind
}

func hasKey(fs []c07.Finding, key string, strict bool) (c07.Finding, bool) {
	for _, f := range fs {
		if keyOf(f, strict) == key {
			return f, true
		}
	}
	return c07.Finding{}, false
}

type genInput struct {
	Kind  string          `json:"kind"` // scenario | names | paths | auth
	Scen  *c07.Scenario   `json:"scenario,omitempty"`
	Names *c07.NamesInput `json:"names,omitempty"`
	Paths *c07.PathsInput `json:"paths,omitempty"`
	Auth  *c07.AuthInput  `json:"auth,omitempty"`
}

type scen struct {
	opt    c07.Opt
	h      [][]pipeline.Change
	origin string
}

func features(c *c07.Cfg, res *hx.Result) (nontrivial bool) {
	backs, dynvals := 0, 0
	vals := map[string]int{}
	for _, m := range c.Maps {
		vals[m.Name] = len(m.Entries)
	}
	for _, s := range c.Sections {
		if s.Kind == "backend" || s.Kind == "listen" {
			backs++
		}
		if len(s.Userlists) > 0 {
			res.Count("state_with_http_auth_userlist")
		}
		if len(s.AuthBack) > 0 {
			res.Count("state_with_auth_intercept_in_" + s.Kind)
		}
		if len(s.IDsUsed) > 0 {
			res.Count("state_with_path_id_acl")
		}
		if len(s.UseServer) > 0 {
			res.Count("state_with_use_server")
		}
		if s.Templates > 0 {
			res.Count("state_with_server_template")
		}
		for _, sv := range s.Servers {
			if sv.ID != 0 {
				res.Count("state_with_server_id")
				break
			}
		}
		for _, sv := range s.Servers {
			if !regexp.MustCompile(`^srv\d+$`).MatchString(sv.Name) && s.Kind == "backend" && !strings.HasPrefix(s.Name, "_") {
				res.Count("state_with_pod_or_ip_server_names")
				break
			}
		}
		if strings.HasPrefix(s.Name, "_front_tcp_") {
			res.Count("state_with_tcp_service_frontend")
			if len(s.CrtLists) > 0 {
				res.Count("state_with_tcp_service_frontend_tls")
			}
		}
		if strings.HasPrefix(s.Name, "_tcp_") {
			res.Count("state_with_tcp_configmap_listen")
		}
		if s.Name == "_front__tls" {
			res.Count("state_with_ssl_passthrough")
		}
		for _, d := range s.Default {
			if d == "_error404" {
				res.Count("default_backend=_error404")
			} else {
				res.Count("default_backend=service")
			}
			break
		}
		for _, d := range s.UseDyn {
			for _, m := range d.Maps {
				dynvals += vals[m]
			}
		}
		if len(s.Files) > 0 && s.Kind == "backend" {
			res.Count("state_with_backend_cert_files")
		}
	}
	if len(c.Resolvers) > 0 {
		res.Count("state_with_resolvers_section")
	}
	if len(c.AuthBinds) > 0 {
		res.Count(fmt.Sprintf("state_with_auth_proxy_binds=%d", len(c.AuthBinds)))
	}
	for _, cl := range c.CrtLists {
		if len(cl.Files) > 1 {
			res.Count("state_with_host_certificates_or_ca")
			break
		}
	}
	return backs >= 2 && dynvals >= 1
}

// writeCorpus stores the built-in minimal histories and generator cases in /verif/corpus/C07.
func writeCorpus() {
	dir := "/verif/corpus/C07"
	os.MkdirAll(dir, 0o755)
	put := func(name string, in genInput, note string) {
		b, err := json.MarshalIndent(map[string]interface{}{"property": "C07", "note": note, "input": in}, "", " ")
		if err != nil {
			panic(err)
		}
		if err := os.WriteFile(filepath.Join(dir, name+".json"), b, 0o644); err != nil {
			panic(err)
		}
	}
	for _, c := range c07.Corpus() {
		put(c.Name, genInput{Kind: "scenario", Scen: &c07.Scenario{Opt: c.Opt, History: world.EncodeHistory(c.H), Origin: "corpus"}}, strings.Join(describe(c.H), " / "))
	}
	put("20-names-pod-named-like-slot", genInput{Kind: "names", Names: &c07.NamesInput{Mode: "pod", Ops: []c07.EpOp{{IP: "10.0.0.1", Port: 8080, TargetRef: "ns1/srv002"}, {Empty: true}}}},
		"AddEndpoint(pod ns1/srv002) then AddEmptyEndpoint(): [srv002 srv002] before the repair of sanitizeName")
	put("21-names-pod-mixed", genInput{Kind: "names", Names: &c07.NamesInput{Mode: "pod", Ops: []c07.EpOp{{IP: "10.0.0.1", Port: 80, TargetRef: "ns1/srv002__2"}, {IP: "10.0.0.2", Port: 80, TargetRef: "ns1/srv002"}, {Empty: true}, {IP: "10.0.0.3", Port: 80, TargetRef: ""}, {IP: "10.0.0.4", Port: 80, TargetRef: "ns2/srv002"}}}},
		"pod names colliding with slot names and with the __n suffixes")
	put("22-auth-range-full", genInput{Kind: "auth", Auth: &c07.AuthInput{Ops: []c07.AuthOp{{Kind: "acquire", RangeStart: 14415, RangeEnd: 14416, Backend: "a"}, {Kind: "acquire", RangeStart: 14415, RangeEnd: 14416, Backend: "b"}, {Kind: "acquire", RangeStart: 14415, RangeEnd: 14416, Backend: "c"}, {Kind: "bytarget", Backends: []string{"a"}}, {Kind: "acquire", RangeStart: 14415, RangeEnd: 14416, Backend: "c"}, {Kind: "acquire", RangeStart: 14416, RangeEnd: 14416, Backend: "d"}, {Kind: "except", Used: []int{14416}}, {Kind: "acquire", RangeStart: 14410, RangeEnd: 14420, Backend: "d"}}}},
		"full range gives the error; a released port is handed out again; range changes")
}

func main() {
	wc := flag.Bool("write-corpus", false, "write the built-in corpus to /verif/corpus/C07 and exit")
	forceShrink := flag.Bool("shrink", false, "shrink the failing history also when replaying")
	dump = flag.Bool("dump", false, "print the configuration files written after the last batch of each history")
	o := hx.Parse()
	if *wc {
		writeCorpus()
		return
	}
	wantTmpl = !o.Search
	workdir = filepath.Join(o.Out, "scratch")
	os.MkdirAll(workdir, 0o755)
	defer os.RemoveAll(workdir)
	rng := o.Rng()
	res := hx.NewResult("C07", "oracle + checker: histories (corpus of past failures, a dedicated generator: missing services/secrets, services without endpoints, ssl-passthrough, basic/external/oauth auth, TCP services by annotation and ConfigMap, strict-host, absent/missing/deleted default backend, pod/ip server naming with pods named like empty slots, blue/green, server ids, per-path ACL features, secure backends, client certs, tiny auth-proxy ranges, shards; and lib/world Full() histories) through the real watchers+converter+instance; after EVERY reconciliation the written files are scanned raw and analysed (Go) and the structure is checked by `wellformed` inside Coq; plus direct runs of AddEndpoint/AddEmptyEndpoint, AddBackendPath, AcquireAuthBackendName/RemoveAuthBackend* on the real types compared with their models; non-trivial = a written configuration with at least two backend sections and one map value feeding a dynamic use_backend, or a generator case with at least 3 calls; distinct by canonical text of the scanned structure / of the calls")
	cw := hx.NewCaseWriter(o, res, "From HI Require Import Corr.Corr_C07.", "c07case", 12)

	var scens []scen
	var units []genInput
	if o.Replay != "" {
		var in genInput
		hx.ReadReplay(o.Replay, &in)
		if in.Kind == "" || in.Kind == "scenario" {
			if in.Scen == nil {
				// a bare scenario
				var sc c07.Scenario
				hx.ReadReplay(o.Replay, &sc)
				in.Scen = &sc
			}
			scens = append(scens, scen{in.Scen.Opt, world.DecodeHistory(in.Scen.History), "replay"})
		} else {
			units = append(units, in)
		}
	} else {
		files, _ := filepath.Glob("/verif/corpus/C07/*.json")
		sort.Strings(files)
		for _, f := range files {
			var in genInput
			hx.ReadReplay(f, &in)
			if in.Kind == "scenario" && in.Scen != nil {
				scens = append(scens, scen{in.Scen.Opt, world.DecodeHistory(in.Scen.History), "corpus:" + filepath.Base(f)})
			} else if in.Kind != "" {
				units = append(units, in)
			}
		}
		nDed := o.Count(200, 6000)
		nWorld := o.Count(60, 2000)
		if o.Search {
			nDed, nWorld = o.Count(800, 2500), o.Count(150, 500)
		}
		for i := 0; i < nDed; i++ {
			op, h := c07.GenHistory(rng, 1+rng.Intn(4))
			scens = append(scens, scen{op, h, "dedicated"})
		}
		for i := 0; i < nWorld; i++ {
			op := c07.Opt{}
			if i%2 == 0 {
				op.DefaultService = "ns1/svc1"
			}
			wc := world.Full()
			wc.TCP = i%3 != 2
			scens = append(scens, scen{op, world.GenHistory(rng, wc, 1+rng.Intn(4), 3), "world"})
		}
		nSplit := o.Count(40, 1500)
		if o.Search {
			nSplit = o.Count(300, 1000)
		}
		for i := 0; i < nSplit; i++ {
			op, h := c07.GenSplitTLS(rng)
			scens = append(scens, scen{op, h, "tcp-split-tls"})
		}
		nChurn := o.Count(120, 4000)
		if o.Search {
			nChurn = o.Count(300, 1000)
		}
		for i := 0; i < nChurn; i++ {
			op, h := c07.GenChurn(rng, 3+rng.Intn(6))
			scens = append(scens, scen{op, h, "churn-socket-mode"})
		}
		nUnit := o.Count(400, 20000)
		for i := 0; i < nUnit; i++ {
			switch i % 3 {
			case 0:
				in := c07.GenNames(rng)
				units = append(units, genInput{Kind: "names", Names: &in})
			case 1:
				in := c07.GenPaths(rng)
				units = append(units, genInput{Kind: "paths", Paths: &in})
			default:
				in := c07.GenAuth(rng)
				units = append(units, genInput{Kind: "auth", Auth: &in})
			}
		}
	}

	// ---- histories through the real pipeline ----
	// every state of the first maxCoq histories goes through the verified checker inside Coq
	maxCoq := o.Count(100000, 2500)
	reported := map[string]bool{}
	for si, sc := range scens {
		states, err := run(sc.opt, sc.h, -1)
		input := genInput{Kind: "scenario", Scen: &c07.Scenario{Opt: sc.opt, History: world.EncodeHistory(sc.h), Origin: sc.origin}}
		if err != nil {
			res.Fail(hx.Failure{Key: "C07/pipeline-setup-error", What: err.Error(), Input: input})
			continue
		}
		res.Count("histories_" + strings.SplitN(sc.origin, ":", 2)[0])
		res.Count(fmt.Sprintf("history_batches=%d", len(sc.h)))
		strict := strictHost(sc.h)
		var coqStates, tmplStates []string
		for bi, st := range states {
			res.OracleChecks++
			if st.applyErr != nil {
				res.Count("update_error")
			}
			if st.scanErr != nil {
				res.Fail(hx.Failure{Key: "C07/scan-error", What: st.scanErr.Error(), Input: input})
				continue
			}
			if sc.opt.Socket && bi > 0 {
				switch {
				case st.reloaded:
					res.Count("socket_mode_update=reload")
				case st.cmds > 0:
					res.Count("socket_mode_update=dynamic")
				default:
					res.Count("socket_mode_update=noop")
				}
			}
			canon, _ := json.Marshal(st.cfg)
			nt := features(st.cfg, res)
			res.Seen(string(canon), nt)
			if si < 3 && bi == len(states)-1 {
				res.Sample(5, map[string]interface{}{"origin": sc.origin, "options": sc.opt, "history": describe(sc.h), "written": st.cfg.Summary(), "findings": st.findings})
			}
			if !o.Search {
				coqStates = append(coqStates, hx.Tuple(st.cfg.Coq(), hx.Bool(len(st.findings) == 0)))
				tmplStates = append(tmplStates, c07.TmplCase(st.tmpl, st.cfg, len(st.findings) == 0 && !st.stale))
				if st.stale {
					res.Count("tmpl_state_hosts_modified_in_place_after_map_build")
				}
			}
			// findings: shrink the first history showing each cause
			seenHere := map[string]bool{}
			for _, f := range st.findings {
				key := keyOf(f, strict)
				res.Count("finding_" + f.Kind)
				if seenHere[key] {
					continue
				}
				seenHere[key] = true
				isCorpus := (strings.HasPrefix(sc.origin, "corpus") || sc.origin == "replay") && !*forceShrink
				if reported[key] && !isCorpus {
					continue
				}
				reported[key] = true
				h := sc.h[:bi+1]
				min := h
				if !isCorpus {
					min = world.Shrink(h, func(x [][]pipeline.Change) bool {
						sts, err := run(sc.opt, x, -1)
						if err != nil {
							return false
						}
						for _, s := range sts {
							if _, ok := hasKey(s.findings, key, strict); ok {
								return true
							}
						}
						return false
					}, 150)
				}
				what := f.What
				if sts, err := run(sc.opt, min, -1); err == nil {
					for _, s := range sts {
						if g, ok := hasKey(s.findings, key, strict); ok {
							what = g.What
							break
						}
					}
				}
				res.Fail(hx.Failure{Key: key, What: what + " — history: " + strings.Join(describe(min), " / "),
					Input:    genInput{Kind: "scenario", Scen: &c07.Scenario{Opt: sc.opt, History: world.EncodeHistory(min), Origin: sc.origin}},
					Observed: c07.Kinds(st.findings)})
			}
		}
		if !o.Search && len(coqStates) > 0 && si < maxCoq {
			cs := coqStates
			cw.Add(func(id int) string {
				return fmt.Sprintf("(CCfg %s %s)", hx.N(id), hx.List(cs))
			}, input)
			res.Count("coq_checked_configurations_total_states")
			res.Distribution["coq_checked_configurations_total_states"] += len(cs) - 1
			ts := tmplStates
			cw.Add(func(id int) string {
				return fmt.Sprintf("(CTmpl %s %s)", hx.N(id), hx.List(ts))
			}, input)
		}
	}

	// ---- the generators on the real types ----
	for ui, u := range units {
		res.OracleChecks++
		switch u.Kind {
		case "names":
			in := *u.Names
			obs := c07.RunNames(in)
			canon, _ := json.Marshal(in)
			res.Seen("names:"+string(canon), len(in.Ops) >= 3)
			res.Count("names_mode=" + in.Mode)
			if ui < 9 {
				res.Sample(8, map[string]interface{}{"names": in, "server_names": obs})
			}
			if d := c07.FirstDup(obs); d != "" {
				res.Count("names_duplicate")
				res.Fail(hx.Failure{Key: "C07/duplicate-server-name-AddEndpoint-" + in.Mode, What: fmt.Sprintf("server name %s generated twice: %v", d, obs), Input: u, Observed: obs})
			}
			if !o.Search {
				cw.Add(func(id int) string { return c07.CoqNames(id, in, obs) }, u)
			}
		case "paths":
			in := *u.Paths
			keys, obs := c07.RunPaths(in)
			canon, _ := json.Marshal(in)
			res.Seen("paths:"+string(canon), len(in.Ops) >= 3)
			res.Count(fmt.Sprintf("paths_over_99=%v", len(obs) > 99))
			var ids []string
			for _, p := range obs {
				ids = append(ids, p[1])
			}
			if d := c07.FirstDup(ids); d != "" {
				res.Fail(hx.Failure{Key: "C07/duplicate-path-id-AddBackendPath", What: fmt.Sprintf("path id %s generated twice", d), Input: u, Observed: obs})
			}
			if !o.Search {
				cw.Add(func(id int) string { return c07.CoqPaths(id, keys, obs) }, u)
			}
		case "auth":
			in := *u.Auth
			obs, problems := c07.RunAuth(in)
			canon, _ := json.Marshal(in)
			res.Seen("auth:"+string(canon), len(in.Ops) >= 3)
			for _, ob := range obs {
				if ob.Port < 0 {
					res.Count("auth_call_without_port")
				} else {
					res.Count("auth_call_port")
				}
			}
			if ui < 9 {
				res.Sample(8, map[string]interface{}{"auth": in, "trace": obs})
			}
			if len(problems) > 0 {
				res.Fail(hx.Failure{Key: "C07/auth-proxy-port-AcquireAuthBackendName", What: strings.Join(problems, "; "), Input: u, Observed: obs})
			}
			if !o.Search {
				cw.Add(func(id int) string { return c07.CoqAuth(id, in, obs) }, u)
			}
		}
	}
	cw.Flush()
	res.Write(o)
}
