package main

// More correspondence cases: CAlloc (Frontend.AcquireAuthBackendName driven directly),
// COAuth and CAlias (the real pipeline; the lookups of the updater / of WriteFrontendMaps
// compared with find_oauth / alias_owner of Model/Order.v on the hosts the real haproxy
// model holds).

import (
	"fmt"
	"math/rand"
	"path/filepath"
	"strings"

	api "k8s.io/api/core/v1"
	discoveryv1 "k8s.io/api/discovery/v1"
	"k8s.io/apimachinery/pkg/util/intstr"
	"sigs.k8s.io/controller-runtime/pkg/client"

	"github.com/jcmoraisjr/haproxy-ingress/pkg/converters/gateway"
	hatypes "github.com/jcmoraisjr/haproxy-ingress/pkg/haproxy/types"
	gatewayv1 "sigs.k8s.io/gateway-api/apis/v1"
	gatewayv1alpha2 "sigs.k8s.io/gateway-api/apis/v1alpha2"

	"verif/harness/lib/c06"
	"verif/harness/lib/cfgnorm"
	"verif/harness/lib/hx"
	"verif/harness/lib/world"
)

func genAlloc(rng *rand.Rand) (string, interface{}, bool) {
	capN := 1 + rng.Intn(4)
	backs := hatypes.CreateBackends(0)
	pool := []string{"s1", "s2", "s3", "s4", "s5"}
	f := &hatypes.Frontend{}
	f.AuthProxy.RangeStart = 14415
	f.AuthProxy.RangeEnd = 14415 + capN - 1
	var reqs, obs []string
	var jreq []string
	var jobs []bool
	denied := false
	for i, n := 0, 1+rng.Intn(8); i < n; i++ {
		name := pool[rng.Intn(len(pool))]
		b := backs.AcquireBackend("_auth", name, "80")
		_, err := f.AcquireAuthBackendName(b.BackendID())
		reqs = append(reqs, hx.Str(b.ID))
		obs = append(obs, hx.Bool(err == nil))
		jreq = append(jreq, b.ID)
		jobs = append(jobs, err == nil)
		if err != nil {
			denied = true
		}
	}
	return fmt.Sprintf("CAlloc @ID@ %s %s %s", hx.Nat(capN), hx.List(reqs), hx.List(obs)),
		map[string]interface{}{"ports": capN, "requests": jreq, "granted": jobs}, denied
}

func normHost(h string) string {
	if h == "" {
		return "<default>"
	}
	return h
}

// ---------------------------------------------------------------- COAuth

func genOAuth(rng *rand.Rand, i int) (string, interface{}, bool, error) {
	var objs []client.Object
	objs = append(objs, svcs("ns1", "svc1", "svc2", "svc3")...)
	objs = append(objs, svcs("ns2", "svc1", "svc2")...)
	hosts := []string{"a.example", "b.example", "sub.a.example", "alias.example", ""}
	perm := rng.Perm(len(world.IngressNames))
	k := 0
	// providers: hosts with a path that may be the oauth service
	for n := 1 + rng.Intn(3); k < n; k++ {
		ns := world.Namespaces[rng.Intn(2)]
		var rules []world.IngRule
		for j, m := 0, 1+rng.Intn(3); j < m; j++ {
			svc := []string{"svc1", "svc2"}[rng.Intn(2)]
			rules = append(rules, world.IngRule{Host: hosts[rng.Intn(len(hosts))], Paths: []world.IngPath{{
				Path: []string{"/oauth2", "/oauth2/", "/deny", "/oauth2x"}[rng.Intn(4)], Type: "Prefix", Service: svc,
				PortName: []string{"http", "admin"}[rng.Intn(2)]}}})
		}
		objs = append(objs, world.Ingress(ns, world.IngressNames[perm[k]], []int{10, 15, 15, 20}[rng.Intn(4)], rules...))
	}
	// consumers: paths protected with oauth
	type cons struct{ ns, host, path, prefix string }
	var consumers []cons
	for n := k + 1 + rng.Intn(2); k < n && k < len(perm); k++ {
		ns := world.Namespaces[rng.Intn(2)]
		host := hosts[rng.Intn(len(hosts))]
		path := fmt.Sprintf("/app%d", k)
		ing := world.Ingress(ns, world.IngressNames[perm[k]], []int{10, 15, 15, 20}[rng.Intn(4)],
			world.IngRule{Host: host, Paths: []world.IngPath{{Path: path, Type: "Prefix", Service: "svc1", PortNum: 80}}})
		ing.Annotations = ann("oauth", "oauth2_proxy")
		prefix := "/oauth2"
		if rng.Intn(3) == 0 {
			prefix = "/deny"
			ing.Annotations[c06.Prefixes[0]+"oauth-uri-prefix"] = []string{"/deny", "/deny/"}[rng.Intn(2)]
		}
		objs = append(objs, ing)
		consumers = append(consumers, cons{ns, normHost(host), path, prefix})
	}
	objs = c06.Stamp(objs)
	r := c06.Run{Dir: filepath.Join(workdir, "corr"), Opts: c06.Opts{WatchWithoutClass: true}, Objs: objs,
		Order: rng.Perm(len(objs)), ShuffleLists: i%2 == 1, Seed: int64(i)}
	res, err := c06.Exec(r, universe, true)
	if err != nil {
		return "", nil, false, err
	}
	defer res.Pipeline.Close()
	cfg := res.Pipeline.Config()
	var visit []string
	jvisit := map[string][]string{}
	candidates := 0
	hostsMap := cfg.Hosts().Items()
	for _, h := range hx.SortedKeys(hostsMap) {
		var paths []string
		for _, p := range hostsMap[h].Paths {
			paths = append(paths, hx.Tuple(hx.Str(p.Path()), hx.Str(p.Backend.Namespace), hx.Str(p.Backend.ID)))
			jvisit[h] = append(jvisit[h], p.Path()+" "+p.Backend.Namespace+" "+p.Backend.ID)
			if strings.HasPrefix(p.Path(), "/oauth2") || strings.HasPrefix(p.Path(), "/deny") {
				candidates++
			}
		}
		visit = append(visit, hx.Tuple(hx.Str(h), hx.List(paths)))
	}
	// a deterministic but arbitrary order of the hosts list handed to the model
	rng.Shuffle(len(visit), func(a, b int) { visit[a], visit[b] = visit[b], visit[a] })
	var queries []string
	var jq []string
	for _, c := range consumers {
		obs := "None"
		for _, b := range cfg.Backends().Items() {
			for _, p := range b.Paths {
				if p.Link.Hostname() == c.host && p.Path() == c.path {
					if !p.AuthExternal.AlwaysDeny && p.AuthExternal.Method == "HEAD" {
						obs = "(Some " + hx.Str(p.AuthExternal.AuthBackendName) + ")"
					}
				}
			}
		}
		queries = append(queries, hx.Tuple(hx.Str(c.host), hx.Str(c.ns), hx.Str(c.prefix), obs))
		jq = append(jq, fmt.Sprintf("%s%s ns=%s prefix=%s -> %s", c.host, c.path, c.ns, c.prefix, obs))
	}
	return fmt.Sprintf("COAuth @ID@ %s %s", hx.List(visit), hx.List(queries)),
		map[string]interface{}{"hosts": jvisit, "protected": jq}, candidates > 1, nil
}

// ---------------------------------------------------------------- CAlias

func genAlias(rng *rand.Rand, i int) (string, interface{}, bool, error) {
	hosts := []string{"a.example", "b.example", "sub.a.example", "redir.example", ""}
	aliases := []string{"alias.example", "al2.example", "b.example"}
	var objs []client.Object
	var names []string
	for j := range hosts {
		names = append(names, fmt.Sprintf("root%d", j))
	}
	objs = append(objs, svcs("ns1", names...)...)
	perm := rng.Perm(len(world.IngressNames))
	for k, n := 0, 1+rng.Intn(4); k < n; k++ {
		var rules []world.IngRule
		for j, m := 0, 1+rng.Intn(2); j < m; j++ {
			hi := rng.Intn(len(hosts))
			rules = append(rules, world.IngRule{Host: hosts[hi], Paths: []world.IngPath{{Path: "/", Type: "Prefix", Service: names[hi], PortNum: 80}}})
		}
		ing := world.Ingress("ns1", world.IngressNames[perm[k]], []int{10, 15, 15, 20}[rng.Intn(4)], rules...)
		if rng.Intn(4) > 0 {
			ing.Annotations = ann("server-alias", aliases[rng.Intn(len(aliases))])
		}
		objs = append(objs, ing)
	}
	objs = c06.Stamp(objs)
	r := c06.Run{Dir: filepath.Join(workdir, "corr"), Opts: c06.Opts{WatchWithoutClass: true}, Objs: objs,
		Order: rng.Perm(len(objs)), ShuffleLists: i%2 == 1, Seed: int64(i)}
	res, err := c06.Exec(r, universe, true)
	if err != nil {
		return "", nil, false, err
	}
	defer res.Pipeline.Close()
	nf, err := cfgnorm.Load(res.Pipeline.Dir(), res.Pipeline.Prefix())
	if err != nil {
		return "", nil, false, err
	}
	hostsMap := res.Pipeline.Config().Hosts().Items()
	var visit, roots []string
	jv := map[string]string{}
	claims := map[string]int{}
	for _, h := range hx.SortedKeys(hostsMap) {
		host := hostsMap[h]
		if h != "<default>" {
			visit = append(visit, hx.Tuple(hx.Str(h), hx.Str(host.Alias.AliasName)))
			if host.Alias.AliasName != "" {
				claims[host.Alias.AliasName]++
			}
		}
		jv[h] = host.Alias.AliasName
		for _, p := range host.FindPath("/") {
			if h != "<default>" {
				roots = append(roots, hx.Tuple(hx.Str(h), hx.Str(p.Backend.ID)))
			}
			break
		}
	}
	rng.Shuffle(len(visit), func(a, b int) { visit[a], visit[b] = visit[b], visit[a] })
	var queries []string
	jq := map[string]string{}
	shared := false
	for _, a := range aliases {
		if claims[a] > 1 {
			shared = true
		}
		rt := cfgnorm.Route(nf, cfgnorm.Request{Scheme: "http", Host: a, Path: "/"})
		obs := "None"
		// requests nobody answers for go to the default host / the 404 backend: not an owner
		if rt.Verdict == "backend" && rt.Vars["req.defaultbackend"] == "" && !strings.HasPrefix(rt.Backend, "_") {
			obs = "(Some " + hx.Str(rt.Backend) + ")"
		}
		queries = append(queries, hx.Tuple(hx.Str(a), obs))
		jq[a] = obs
	}
	return fmt.Sprintf("CAlias @ID@ %s %s %s", hx.List(visit), hx.List(roots), hx.List(queries)),
		map[string]interface{}{"host_alias": jv, "answers": jq}, shared, nil
}

// ---------------------------------------------------------------- CTcp

func genTcp(rng *rand.Rand, i int) (string, interface{}, bool, error) {
	var objs []client.Object
	objs = append(objs, svcs("ns1", "svc1", "svc2", "svc3", "svc4")...)
	keys := []string{"9000", "09000", "+9000", "9001", "009001", "9002", "x9", "90 00"}
	values := []string{"ns1/svc1:80", "ns1/svc2:80:PROXY", "ns1/svc3:9000::PROXY-V1", "ns1/svc4:80", "ns1/missing:80", "ns1/svc1:81", ""}
	valid := []string{"ns1/svc1:80", "ns1/svc2:80:PROXY", "ns1/svc3:9000::PROXY-V1", "ns1/svc4:80"}
	svcOf := map[string]string{"ns1_svc1": "ns1/svc1:80", "ns1_svc2": "ns1/svc2:80:PROXY", "ns1_svc3": "ns1/svc3:9000::PROXY-V1", "ns1_svc4": "ns1/svc4:80"}
	cm := &api.ConfigMap{}
	cm.Namespace, cm.Name = "ingress-controller", "tcp-services"
	cm.Data = map[string]string{}
	perm := rng.Perm(len(values))
	for j, n := 0, 1+rng.Intn(5); j < n; j++ {
		// a valid value is used by one key at most, so that the service names the key
		cm.Data[keys[rng.Intn(len(keys))]] = values[perm[j%len(perm)]]
	}
	used := map[string]int{}
	for _, v := range cm.Data {
		used[v]++
	}
	for k, v := range cm.Data {
		if used[v] > 1 && v != "" {
			delete(cm.Data, k)
			used[v]--
		}
	}
	objs = c06.Stamp(append(objs, cm))
	r := c06.Run{Dir: filepath.Join(workdir, "corr"), Opts: c06.Opts{WatchWithoutClass: true, TCPConfigMap: "ingress-controller/tcp-services"}, Objs: objs,
		Order: rng.Perm(len(objs)), ShuffleLists: i%2 == 1, Seed: int64(i)}
	res, err := c06.Exec(r, universe, true)
	if err != nil {
		return "", nil, false, err
	}
	defer res.Pipeline.Close()
	owner := map[int]string{}
	for _, b := range res.Pipeline.Config().TCPBackends().BuildSortedItems() {
		owner[b.Port] = svcOf[b.Name]
	}
	var queries []string
	jq := map[string]string{}
	for _, port := range []int{9000, 9001, 9002, 9} {
		obs := "None"
		if v, ok := owner[port]; ok {
			obs = "(Some " + hx.Str(v) + ")"
		}
		queries = append(queries, hx.Tuple(hx.Z(int64(port)), obs))
		jq[fmt.Sprint(port)] = obs
	}
	ports := map[string]int{}
	dup := false
	for k := range cm.Data {
		t := strings.TrimLeft(strings.TrimPrefix(k, "+"), "0")
		ports[t]++
		if ports[t] > 1 {
			dup = true
		}
	}
	return fmt.Sprintf("CTcp @ID@ %s %s %s", coqAnn(cm.Data), coqStrs(valid), hx.List(queries)),
		map[string]interface{}{"data": cm.Data, "owner_by_port": jq}, dup, nil
}

// ---------------------------------------------------------------- CRouteSort

var routeIdentities = append([][2]string{{"apps", "web"}, {"billing", "api"}, {"infra", "zz"}, {"z", "a"}, {"b", "a"}, {"apps", "api"}, {"billing", "web"}}, advIdentities...)

func genRouteSort(rng *rand.Rand, tcp bool) (string, interface{}, bool) {
	n := 2 + rng.Intn(7)
	seen := map[string]bool{}
	type ident struct {
		ns, name string
		stamp    int
	}
	var ids []ident
	for try := 0; len(ids) < n && try < 200; try++ {
		id := routeIdentities[rng.Intn(len(routeIdentities))]
		if seen[id[0]+"/"+id[1]] {
			continue
		}
		seen[id[0]+"/"+id[1]] = true
		ids = append(ids, ident{id[0], id[1], []int{15, 15, 15, 15, 20, 10}[rng.Intn(6)]})
	}
	var in, obs []string
	var jin [][3]interface{}
	for _, id := range ids {
		in = append(in, hx.Tuple(hx.Str(id.ns), hx.Str(id.name), hx.Z(world.Stamp(id.stamp).Unix())))
		jin = append(jin, [3]interface{}{id.ns, id.name, world.Stamp(id.stamp).Unix()})
	}
	if tcp {
		routes := make([]*gatewayv1alpha2.TCPRoute, len(ids))
		for i, id := range ids {
			routes[i] = &gatewayv1alpha2.TCPRoute{}
			routes[i].Namespace, routes[i].Name, routes[i].CreationTimestamp = id.ns, id.name, world.Stamp(id.stamp)
		}
		gateway.VerifSortTCPRoutes(routes)
		for _, r := range routes {
			obs = append(obs, r.Namespace+"/"+r.Name)
		}
	} else {
		routes := make([]*gatewayv1.HTTPRoute, len(ids))
		for i, id := range ids {
			routes[i] = &gatewayv1.HTTPRoute{}
			routes[i].Namespace, routes[i].Name, routes[i].CreationTimestamp = id.ns, id.name, world.Stamp(id.stamp)
		}
		gateway.VerifSortHTTPRoutes(routes)
		for _, r := range routes {
			obs = append(obs, r.Namespace+"/"+r.Name)
		}
	}
	return fmt.Sprintf("CRouteSort @ID@ %s %s %s", hx.Bool(tcp), hx.List(in), coqStrs(obs)),
		map[string]interface{}{"tcp": tcp, "routes": jin, "observed": obs}, true
}

// ---------------------------------------------------------------- CSlices

func genSlices(rng *rand.Rand, i int) (string, interface{}, bool, error) {
	svc := world.Service("ns1", "echo", world.SvcPort{Name: "http", Port: 80, TargetPort: intstr.FromInt(8080)},
		world.SvcPort{Name: "admin", Port: 9000, TargetPort: intstr.FromInt(9100)})
	ing := world.Ingress("ns1", "ing1", 10, world.IngRule{Host: "a.example", Paths: []world.IngPath{{Path: "/", Type: "Prefix", Service: "echo", PortNum: 80}}})
	objs := []client.Object{svc, ing}
	drain := rng.Intn(2) == 0
	if drain {
		cm := &api.ConfigMap{}
		cm.Namespace, cm.Name = "ingress-controller", "haproxy-ingress"
		cm.Data = map[string]string{"drain-support": "true"}
		objs = append(objs, cm)
	}
	slices := c06.GenSlices(rng, objs)
	objs = c06.Stamp(append(objs, slices...))
	r := c06.Run{Dir: filepath.Join(workdir, "corr"), Opts: c06.Opts{WatchWithoutClass: true, EndpointSlices: true}, Objs: objs,
		Order: rng.Perm(len(objs)), ShuffleLists: i%2 == 1, Seed: int64(i + 1)}
	res, err := c06.Exec(r, universe, true)
	if err != nil {
		return "", nil, false, err
	}
	defer res.Pipeline.Close()
	var cs []string
	var js []interface{}
	addrs := map[string]int{}
	for _, o := range slices {
		sl := o.(*discoveryv1.EndpointSlice)
		var ports, eps []string
		for _, p := range sl.Ports {
			ports = append(ports, hx.Tuple(hx.Str(*p.Name), hx.Z(int64(*p.Port))))
		}
		var jeps []string
		for _, e := range sl.Endpoints {
			rd := "None"
			if e.Conditions.Ready != nil {
				rd = "(Some " + hx.Bool(*e.Conditions.Ready) + ")"
			}
			eps = append(eps, hx.Tuple(hx.Str(e.Addresses[0]), rd))
			jeps = append(jeps, e.Addresses[0]+" "+rd)
			addrs[e.Addresses[0]]++
		}
		cs = append(cs, hx.Tuple(hx.List(ports), hx.List(eps)))
		js = append(js, map[string]interface{}{"name": sl.Name, "ports": len(sl.Ports), "endpoints": jeps})
	}
	obs := map[string]string{}
	for _, b := range res.Pipeline.Config().Backends().Items() {
		if b.Namespace != "ns1" || b.Name != "echo" {
			continue
		}
		for _, ep := range b.Endpoints {
			if ep.IsEmpty() || !ep.Enabled {
				continue
			}
			obs[fmt.Sprintf("%s:%d", ep.IP, ep.Port)] = "(Some " + hx.Bool(ep.Weight != 0) + ")"
		}
	}
	var queries []string
	dup := false
	for _, a := range hx.SortedKeys(addrs) {
		if addrs[a] > 1 {
			dup = true
		}
		for _, port := range []int{8080, 9100} {
			o, ok := obs[fmt.Sprintf("%s:%d", a, port)]
			if !ok {
				o = "None"
			}
			queries = append(queries, hx.Tuple(hx.Str(a), hx.Z(int64(port)), o))
		}
	}
	return fmt.Sprintf("CSlices @ID@ %s %s %s %s", hx.Bool(drain), hx.Str("http"), hx.List(cs), hx.List(queries)),
		map[string]interface{}{"drain": drain, "slices": js, "servers": obs}, dup, nil
}

func correspondence2(o *hx.Opts, rng *rand.Rand, res *hx.Result, add func(kind, term string, js interface{}, nontrivial bool)) {
	for i, n := 0, o.Count(160, 3000); i < n; i++ {
		t, js, nt := genRouteSort(rng, i%2 == 1)
		add("routesort", t, js, nt)
	}
	for i, n := 0, o.Count(200, 2000); i < n; i++ {
		t, js, nt := genAlloc(rng)
		add("alloc", t, js, nt)
	}
	for i, n := 0, o.Count(50, 800); i < n; i++ {
		t, js, nt, err := genOAuth(rng, i)
		if err != nil {
			res.Count("corr_oauth_error")
			res.Fail(hx.Failure{Key: "C06/update-error", What: "a pipeline of the correspondence failed: " + err.Error(), Input: js})
			continue
		}
		add("oauth", t, js, nt)
	}
	for i, n := 0, o.Count(50, 800); i < n; i++ {
		t, js, nt, err := genAlias(rng, i)
		if err != nil {
			res.Count("corr_alias_error")
			res.Fail(hx.Failure{Key: "C06/update-error", What: "a pipeline of the correspondence failed: " + err.Error(), Input: js})
			continue
		}
		add("alias", t, js, nt)
	}
	for i, n := 0, o.Count(60, 800); i < n; i++ {
		t, js, nt, err := genSlices(rng, i)
		if err != nil {
			res.Count("corr_slices_error")
			res.Fail(hx.Failure{Key: "C06/update-error", What: "a pipeline of the correspondence failed: " + err.Error(), Input: js})
			continue
		}
		add("slices", t, js, nt)
	}
	for i, n := 0, o.Count(40, 600); i < n; i++ {
		t, js, nt, err := genTcp(rng, i)
		if err != nil {
			res.Count("corr_tcp_error")
			res.Fail(hx.Failure{Key: "C06/update-error", What: "a pipeline of the correspondence failed: " + err.Error(), Input: js})
			continue
		}
		add("tcp", t, js, nt)
	}
}
