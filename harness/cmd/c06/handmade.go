package main

// Hand made corpus cases: small clusters on which an order dependence shows up with high
// probability (many claimants of one first-come-first-served resource).

import (
	"encoding/json"
	"fmt"
	"math/rand"
	"os"
	"path/filepath"

	api "k8s.io/api/core/v1"
	discoveryv1 "k8s.io/api/discovery/v1"
	networking "k8s.io/api/networking/v1"
	"k8s.io/apimachinery/pkg/util/intstr"
	"sigs.k8s.io/controller-runtime/pkg/client"
	gatewayv1 "sigs.k8s.io/gateway-api/apis/v1"
	gatewayv1alpha2 "sigs.k8s.io/gateway-api/apis/v1alpha2"

	"verif/harness/lib/c06"
	"verif/harness/lib/world"
)

func svcs(ns string, names ...string) []client.Object {
	var out []client.Object
	for i, n := range names {
		out = append(out, world.Service(ns, n, world.SvcPort{Name: "http", Port: 80, TargetPort: intstr.FromInt(8080)},
			world.SvcPort{Name: "admin", Port: 9000, TargetPort: intstr.FromInt(9100)}))
		out = append(out, world.Endpoints(ns, n, world.EpPort{Name: "http", Port: 8080, Ready: []string{fmt.Sprintf("10.1.%d.1", i)}},
			world.EpPort{Name: "admin", Port: 9100, Ready: []string{fmt.Sprintf("10.1.%d.2", i)}}))
	}
	return out
}

func ann(kv ...string) map[string]string {
	m := map[string]string{}
	for i := 0; i+1 < len(kv); i += 2 {
		m[c06.Prefixes[0]+kv[i]] = kv[i+1]
	}
	return m
}

func writeHandMade(dir string) {
	os.MkdirAll(dir, 0o755)
	opts := c06.Opts{WatchWithoutClass: true}
	write := func(name, note string, objs []client.Object) {
		opts := opts
		for _, o := range objs {
			if cm, ok := o.(*api.ConfigMap); ok && cm.Name == "tcp-services" {
				opts.TCPConfigMap = cm.Namespace + "/" + cm.Name
			}
		}
		c := ocase{objs: c06.Stamp(objs), opts: opts, runs: runsOf(name), note: note}
		b, _ := json.MarshalIndent(map[string]interface{}{"input": c.encode()}, "", " ")
		if err := os.WriteFile(filepath.Join(dir, name+".json"), b, 0o644); err != nil {
			panic(err)
		}
	}
	// (a) one redirect-from name claimed by the six hosts of two ingresses
	{
		objs := svcs("ns1", "svc1", "svc2")
		i1 := world.Ingress("ns1", "ing1", 10,
			world.IngRule{Host: "a.example", Paths: []world.IngPath{{Path: "/", Type: "Prefix", Service: "svc1", PortNum: 80}}},
			world.IngRule{Host: "b.example", Paths: []world.IngPath{{Path: "/", Type: "Prefix", Service: "svc1", PortNum: 80}}},
			world.IngRule{Host: "sub.a.example", Paths: []world.IngPath{{Path: "/", Type: "Prefix", Service: "svc1", PortNum: 80}}})
		i1.Annotations = ann("redirect-from", "redir.example", "redirect-from-regex", `^re[0-9]+\.example$`)
		i2 := world.Ingress("ns1", "ing2", 20,
			world.IngRule{Host: "alias.example", Paths: []world.IngPath{{Path: "/", Type: "Prefix", Service: "svc2", PortNum: 80}}},
			world.IngRule{Host: "redir2.example", Paths: []world.IngPath{{Path: "/", Type: "Prefix", Service: "svc2", PortNum: 80}}},
			world.IngRule{Host: "*.wild.example", Paths: []world.IngPath{{Path: "/", Type: "Prefix", Service: "svc2", PortNum: 80}}})
		i2.Annotations = ann("redirect-from", "redir.example", "redirect-from-regex", `^re[0-9]+\.example$`)
		write("10-redirect-from-six-hosts", "hand made: redirect-from=redir.example on six hosts of two ingresses; the oldest ingress' first host must win", append(objs, i1, i2))
	}
	// (b) oauth: four hosts of the namespace have an /oauth2 path, the protected host has none
	{
		objs := svcs("ns1", "svc1", "svc2", "svc3")
		p := world.Ingress("ns1", "ing1", 10,
			world.IngRule{Host: "a.example", Paths: []world.IngPath{{Path: "/oauth2", Type: "Prefix", Service: "svc1", PortName: "http"}}},
			world.IngRule{Host: "b.example", Paths: []world.IngPath{{Path: "/oauth2", Type: "Prefix", Service: "svc1", PortName: "admin"}}},
			world.IngRule{Host: "sub.a.example", Paths: []world.IngPath{{Path: "/oauth2", Type: "Prefix", Service: "svc2", PortName: "http"}}},
			world.IngRule{Host: "alias.example", Paths: []world.IngPath{{Path: "/oauth2", Type: "Prefix", Service: "svc2", PortName: "admin"}}})
		q := world.Ingress("ns1", "ing2", 20,
			world.IngRule{Host: "redir.example", Paths: []world.IngPath{{Path: "/app", Type: "Prefix", Service: "svc3", PortName: "http"}}})
		q.Annotations = ann("oauth", "oauth2_proxy")
		write("11-oauth-four-hosts", "hand made: oauth on redir.example/app, the namespace has four hosts with an /oauth2 path", append(objs, p, q))
	}
	// (c) auth proxy with a single port, three authentication services
	{
		objs := svcs("ns1", "svc1", "svc2", "svc3")
		cm := &api.ConfigMap{}
		cm.Namespace, cm.Name = "ingress-controller", "haproxy-ingress"
		cm.Data = map[string]string{"auth-proxy": "_front__auth:14415-14415"}
		objs = append(objs, cm)
		for i, h := range []string{"a.example", "b.example", "sub.a.example"} {
			ing := world.Ingress("ns1", fmt.Sprintf("ing%d", i+1), 10+i,
				world.IngRule{Host: h, Paths: []world.IngPath{{Path: "/app", Type: "Prefix", Service: fmt.Sprintf("svc%d", i+1), PortNum: 80}}})
			ing.Annotations = ann("auth-url", fmt.Sprintf("http://10.9.9.%d:8000/auth", i+1))
			objs = append(objs, ing)
		}
		write("12-auth-proxy-one-port", "hand made: auth-proxy range of one port, three ingresses with distinct auth-url: only the oldest may be served, the others are denied", objs)
	}
	// (d) one path with two match types on a host, next to hosts whose overlapping paths
	// ask for extra map files of both types in opposite orders
	{
		objs := svcs("ns1", "svc1", "svc2", "svc3")
		i1 := world.Ingress("ns1", "ing1", 10,
			world.IngRule{Host: "a.example", Paths: []world.IngPath{
				{Path: "/app/sub", Type: "Prefix", Service: "svc1", PortNum: 80},
				{Path: "/app", Type: "ImplementationSpecific", Service: "svc2", PortNum: 80}}},
			world.IngRule{Host: "sub.a.example", Paths: []world.IngPath{
				{Path: "/app/sub", Type: "ImplementationSpecific", Service: "svc1", PortNum: 80},
				{Path: "/app", Type: "Prefix", Service: "svc2", PortNum: 80}}},
			world.IngRule{Host: "alias.example", Paths: []world.IngPath{
				{Path: "/app/sub/deep", Type: "ImplementationSpecific", Service: "svc1", PortNum: 80},
				{Path: "/app/sub", Type: "Prefix", Service: "svc3", PortNum: 80},
				{Path: "/app", Type: "ImplementationSpecific", Service: "svc2", PortNum: 80}}})
		i2 := world.Ingress("ns1", "ing2", 10,
			world.IngRule{Host: "b.example", Paths: []world.IngPath{
				{Path: "/app/sub/", Type: "ImplementationSpecific", Service: "svc2", PortName: "admin"},
				{Path: "/", Type: "ImplementationSpecific", Service: "svc2", PortName: "admin"},
				{Path: "/apix", Type: "ImplementationSpecific", Service: "svc2", PortNum: 80},
				{Path: "/apix", Type: "Prefix", Service: "svc3", PortNum: 80},
				{Path: "/api", Type: "Prefix", Service: "svc1", PortNum: 80}}},
			world.IngRule{Host: "redir.example", Paths: []world.IngPath{
				{Path: "/apix", Type: "Prefix", Service: "svc1", PortNum: 80},
				{Path: "/apix", Type: "ImplementationSpecific", Service: "svc3", PortNum: 80},
				{Path: "/api", Type: "ImplementationSpecific", Service: "svc2", PortNum: 80},
				{Path: "/", Type: "Prefix", Service: "svc2", PortNum: 80}}})
		write("13-map-same-path-two-types", "hand made: /apix declared begin and prefix on two hosts, next to hosts with overlapping paths: the position of the extra map files decides who answers /apix",
			append(objs, i1, i2))
	}
	// (f) tcp-services ConfigMap: two keys that are the same port number
	{
		objs := svcs("ns1", "svc1", "svc2", "svc3")
		cm := &api.ConfigMap{}
		cm.Namespace, cm.Name = "ingress-controller", "tcp-services"
		cm.Data = map[string]string{"9000": "ns1/svc1:80", "09000": "ns1/svc2:80:PROXY", "+9000": "ns1/svc3:9000::PROXY-V1", "9001": "ns1/svc1:9000"}
		write("15-tcp-configmap-same-port", "hand made: the keys 9000, 09000 and +9000 of the tcp-services ConfigMap are one port number and name three services", append(objs, cm))
	}
	// (g) equal creation stamps, namespace + name colliding with different splits
	{
		var objs []client.Object
		for i, ns := range []string{"a", "ab", "abc"} {
			objs = append(objs, world.Service(ns, "svc1", world.SvcPort{Name: "http", Port: 80, TargetPort: intstr.FromInt(8080)}))
			objs = append(objs, world.Endpoints(ns, "svc1", world.EpPort{Name: "http", Port: 8080, Ready: []string{fmt.Sprintf("10.7.%d.1", i)}}))
			objs = append(objs, world.TLSSecret(ns, "tls-valid", "adv-"+ns+".example", 0))
		}
		for _, id := range [][3]string{{"a", "bc", "a.example"}, {"ab", "c", "a.example"}, {"abc", "c", "b.example"}, {"ab", "cc", "b.example"}, {"a", "bcc", "b.example"}} {
			ing := world.Ingress(id[0], id[1], 15,
				world.IngRule{Host: id[2], Paths: []world.IngPath{{Path: "/", Type: "Prefix", Service: "svc1", PortNum: 80}}})
			ing.Spec.TLS = []networking.IngressTLS{{Hosts: []string{id[2]}, SecretName: "tls-valid"}}
			ing.Annotations = ann("app-root", "/"+id[0]+"_"+id[1])
			objs = append(objs, ing)
		}
		write("16-sort-key-collision", "hand made: ingresses a/bc and ab/c (and abc/c, ab/cc, a/bcc) created in the same second conflict on host, path, TLS secret and app-root: namespace/name order must decide", objs)
	}
	// (h) gateway api: routes of one second whose namespace order is opposite to their name order
	{
		rng := rand.New(rand.NewSource(7))
		var objs []client.Object
		for try := 0; ; try++ {
			objs = c06.GenGatewaysAdversarial(rng, 3)
			h, t := 0, 0
			for _, o := range objs {
				switch o.(type) {
				case *gatewayv1.HTTPRoute:
					h++
				case *gatewayv1alpha2.TCPRoute:
					t++
				}
			}
			if h >= 2 && t >= 2 || try > 50 {
				break
			}
		}
		c := ocase{objs: c06.Stamp(objs), opts: c06.Opts{WatchWithoutClass: true, GatewayV1: true, TCPRouteA2: true}, runs: 12,
			note: "hand made: HTTPRoutes and TCPRoutes created in the same second (apps/web, billing/api, a/bc, ab/c ...) claim the same hostname + path + match / the same TCP listener through two gateways: creation time then namespace/name must decide"}
		b, _ := json.MarshalIndent(map[string]interface{}{"input": c.encode()}, "", " ")
		if err := os.WriteFile(filepath.Join(dir, "17-gateway-routes-same-second.json"), b, 0o644); err != nil {
			panic(err)
		}
	}
	// (i) EndpointSlices: one address listed by two slices with different readiness
	for _, drain := range []bool{false, true} {
		svc := world.Service("ns1", "echo", world.SvcPort{Name: "http", Port: 80, TargetPort: intstr.FromInt(8080)},
			world.SvcPort{Name: "admin", Port: 9000, TargetPort: intstr.FromInt(9100)})
		ing := world.Ingress("ns1", "ing1", 10, world.IngRule{Host: "a.example", Paths: []world.IngPath{{Path: "/", Type: "Prefix", Service: "echo", PortNum: 80}}})
		objs := []client.Object{svc, ing}
		tcp := api.ProtocolTCP
		mk := func(name string, stamp int, eps ...[2]string) {
			sl := &discoveryv1.EndpointSlice{}
			sl.Namespace, sl.Name = "ns1", name
			sl.Labels = map[string]string{"kubernetes.io/service-name": "echo"}
			sl.AddressType = discoveryv1.AddressTypeIPv4
			sl.CreationTimestamp = world.Stamp(stamp)
			hn, an := "http", "admin"
			hp, ap := int32(8080), int32(9100)
			sl.Ports = []discoveryv1.EndpointPort{{Name: &hn, Port: &hp, Protocol: &tcp}, {Name: &an, Port: &ap, Protocol: &tcp}}
			for _, e := range eps {
				ep := discoveryv1.Endpoint{Addresses: []string{e[0]}}
				switch e[1] {
				case "ready":
					t := true
					ep.Conditions.Ready = &t
				case "notready":
					f := false
					ep.Conditions.Ready = &f
				}
				sl.Endpoints = append(sl.Endpoints, ep)
			}
			objs = append(objs, sl)
		}
		mk("echo-zzzzz", 30, [2]string{"172.17.0.11", "ready"}, [2]string{"172.17.0.12", "notready"}, [2]string{"172.17.0.14", "notready"})
		mk("echo-bbbbb", 31, [2]string{"172.17.0.12", "ready"}, [2]string{"172.17.0.13", "ready"}, [2]string{"172.17.0.15", ""})
		mk("echo-aaaaa", 32, [2]string{"172.17.0.14", "ready"}, [2]string{"172.17.0.15", "notready"}, [2]string{"172.17.0.11", "ready"})
		name := "18-endpointslices-duplicate-address"
		if drain {
			name = "19-endpointslices-duplicate-address-drain"
			cm := &api.ConfigMap{}
			cm.Namespace, cm.Name = "ingress-controller", "haproxy-ingress"
			cm.Data = map[string]string{"drain-support": "true"}
			objs = append(objs, cm)
		}
		c := ocase{objs: c06.Stamp(objs), opts: c06.Opts{WatchWithoutClass: true, EndpointSlices: true}, runs: 10,
			note: "hand made: --enable-endpointslices-api, service ns1/echo with three slices that list 172.17.0.12, .14 and .15 twice with different ready conditions (and .11 twice ready): the servers must not depend on the order of the slice list"}
		b, _ := json.MarshalIndent(map[string]interface{}{"input": c.encode()}, "", " ")
		if err := os.WriteFile(filepath.Join(dir, name+".json"), b, 0o644); err != nil {
			panic(err)
		}
	}
	// (j) annotation names that differ from a configuration key only by letter case or "_"
	{
		objs := svcs("ns1", "svc1", "svc2", "svc3")
		for _, o := range objs {
			if svc, ok := o.(*api.Service); ok {
				svc.Annotations = map[string]string{
					c06.Prefixes[0] + "timeout-server": "5s", c06.Prefixes[0] + "Timeout-Server": "9s", c06.Prefixes[0] + "TIMEOUT-SERVER": "7s",
					c06.Prefixes[1] + "maxconn-server": "100", c06.Prefixes[1] + "MaxConn-Server": "200", c06.Prefixes[1] + "maxconn_server": "300",
				}
			}
		}
		for i, h := range []string{"a.example", "b.example", "sub.a.example"} {
			ing := world.Ingress("ns1", fmt.Sprintf("ing%d", i+1), 10+i,
				world.IngRule{Host: h, Paths: []world.IngPath{{Path: "/", Type: "Prefix", Service: fmt.Sprintf("svc%d", i+1), PortNum: 80}}})
			ing.Annotations = map[string]string{
				c06.Prefixes[1] + "balance-algorithm": "leastconn", c06.Prefixes[1] + "Balance-Algorithm": "roundrobin", c06.Prefixes[1] + "BALANCE-ALGORITHM": "first",
				c06.Prefixes[0] + "app-root": "/app", c06.Prefixes[0] + "App-Root": "/api", c06.Prefixes[0] + "APP-ROOT": "/apix",
				c06.Prefixes[0] + "ssl-redirect": "false", c06.Prefixes[0] + "SSL-Redirect": "true",
				"Ingress.kubernetes.io/limit-rps": "5", c06.Prefixes[1] + "limit_rps": "10",
			}
			objs = append(objs, ing)
		}
		write("20-annotation-names-case", "hand made: every ingress and service carries configuration keys twice or three times under names that differ only by letter case (or _ for -) with other values: annotation names are case sensitive, only the exact lower case name is a configuration key", objs)
	}
	// (e) one alias requested by four hosts, one of the ingresses also declares the alias as a host
	{
		objs := svcs("ns1", "svc1", "svc2", "svc3")
		i1 := world.Ingress("ns1", "ing1", 15,
			world.IngRule{Host: "a.example", Paths: []world.IngPath{{Path: "/", Type: "Prefix", Service: "svc1", PortNum: 80},
				{Path: "/app", Type: "ImplementationSpecific", Service: "svc1", PortNum: 80}, {Path: "/app/sub", Type: "Prefix", Service: "svc1", PortNum: 80}}},
			world.IngRule{Host: "b.example", Paths: []world.IngPath{{Path: "/", Type: "Prefix", Service: "svc2", PortNum: 80},
				{Path: "/app", Type: "Prefix", Service: "svc2", PortNum: 80}, {Path: "/app/sub", Type: "ImplementationSpecific", Service: "svc2", PortNum: 80}}})
		i1.Annotations = ann("server-alias", "alias.example", "server-alias-regex", `^al[0-9]+\.example$`)
		i2 := world.Ingress("ns1", "ing2", 15,
			world.IngRule{Host: "sub.a.example", Paths: []world.IngPath{{Path: "/", Type: "Prefix", Service: "svc3", PortNum: 80},
				{Path: "/app", Type: "ImplementationSpecific", Service: "svc3", PortNum: 80}, {Path: "/app/sub", Type: "Prefix", Service: "svc3", PortNum: 80}}},
			world.IngRule{Host: "redir.example", Paths: []world.IngPath{{Path: "/", Type: "Prefix", Service: "svc1", PortName: "admin"},
				{Path: "/app", Type: "Prefix", Service: "svc1", PortName: "admin"}, {Path: "/app/sub", Type: "ImplementationSpecific", Service: "svc1", PortName: "admin"}}})
		i2.Annotations = ann("server-alias", "alias.example", "server-alias-regex", `^al[0-9]+\.example$`)
		write("14-server-alias-four-hosts", "hand made: server-alias=alias.example (and one alias regex) requested by four hosts of two ingresses with equal creation stamps", append(objs, i1, i2))
	}
}

// runsOf: the cases that need a shuffled List answer to show up get more runs.
func runsOf(name string) int {
	if name >= "16" {
		return 12
	}
	if name >= "20" {
		return 12
	}
	return 8
}
