package main

import (
	"fmt"
	"math/rand"
	"os"
	"strings"

	"sigs.k8s.io/controller-runtime/pkg/client"

	"verif/harness/lib/c06"
	"verif/harness/lib/world"
)

var universe = c06.Universe()

func runs(objs []client.Object, k int, tag string) (bool, []string) {
	var first string
	for i := 0; i < k; i++ {
		dir := fmt.Sprintf("/verif/.work/c06x/%s%d", tag, i)
		os.RemoveAll(dir)
		r := c06.Run{Dir: dir, Opts: c06.Opts{WatchWithoutClass: true, DefaultService: "ns1/svc1"}, Objs: objs}
		if i > 0 {
			r.Order = rand.New(rand.NewSource(int64(i))).Perm(len(objs))
			r.ShuffleLists = i%2 == 1
			r.Seed = int64(i)
		}
		res, err := c06.Exec(r, universe, false)
		if err != nil {
			return true, []string{"error " + err.Error()}
		}
		if i == 0 {
			first = res.Canon
		} else if res.Canon != first {
			return true, c06.DiffCanon(first, res.Canon, 6)
		}
	}
	return false, nil
}

func main() {
	n := 200
	for seed := int64(1); seed <= int64(n); seed++ {
		rng := rand.New(rand.NewSource(seed))
		level := int(seed % 3)
		objs := c06.Stamp(c06.GenCluster(rng, world.Full(), level))
		bad, diff := runs(objs, 6, "r")
		if bad {
			fmt.Println("SEED", seed, "level", level, "objs", len(objs))
			for _, d := range diff {
				if len(d) > 300 {
					d = d[:300]
				}
				fmt.Println("   ", d)
			}
			m := world.ShrinkObjs(objs, func(x []client.Object) bool {
				for t := 0; t < 3; t++ {
					if b, _ := runs(x, 6, "s"); b {
						return true
					}
				}
				return false
			}, 150)
			var ks []string
			for _, o := range m {
				ks = append(ks, world.Key(o)+fmt.Sprint(o.GetAnnotations()))
			}
			fmt.Println("   shrunk:", strings.Join(ks, " ; "))
		}
	}
}
