// c06: oracle and correspondence for C06 (same cluster state, same behaviour, whatever the
// processing order).
//
// Oracle (no model): a generated cluster -- world.Full() plus conflict-prone annotations
// (lib/c06) -- is fed to k >= 6 independent fresh real pipelines in one process.  Run 0 gets
// the objects in generation order; every other run gets them in its own random event order,
// and every second run reads the cluster through a client whose List answers are shuffled
// (the fake client's tracker sorts them).  Go re-randomises every map iteration in each
// run.  The behaviours (lib/sem over a request universe, internal numbering erased) must
// all be equal.  Batch cases: the same base cluster, then ONE more batch of changes
// delivered in different event orders (events of one object keep their order), then the
// behaviours must be equal again (partial sync).  A difference is shrunk and classified.
//
// Correspondence: see corr.go.
package main

import (
	"encoding/json"
	"flag"
	"fmt"
	"math/rand"
	"os"
	"os/exec"
	"path/filepath"
	"reflect"
	"sort"
	"strconv"
	"strings"
	"sync"

	api "k8s.io/api/core/v1"
	discoveryv1 "k8s.io/api/discovery/v1"
	networking "k8s.io/api/networking/v1"
	"sigs.k8s.io/controller-runtime/pkg/client"
	gatewayv1 "sigs.k8s.io/gateway-api/apis/v1"
	gatewayv1alpha2 "sigs.k8s.io/gateway-api/apis/v1alpha2"

	"verif/harness/lib/c06"
	"verif/harness/lib/hx"
	"verif/harness/lib/pipeline"
	"verif/harness/lib/world"
)

var (
	workdir  string
	universe = c06.Universe()
	dumpDir  = flag.String("dump", "", "replay only: copy what every run wrote (etc/haproxy) below this directory")
	mkCorpus = flag.String("mkcorpus", "", "write the hand made corpus cases into this directory and exit")
	gwOnly   = flag.Bool("gwonly", false, "exploration: every generated case gets gateway api objects")
)

// input is one oracle case (also the replay format).
type input struct {
	Objs  []world.ObjJSON    `json:"objs"`            // the cluster, metadata included
	Batch []world.ChangeJSON `json:"batch,omitempty"` // one more batch, delivered in permuted event orders
	Opts  c06.Opts           `json:"opts"`
	Runs  int                `json:"runs,omitempty"` // number of independent pipelines (default 6)
	Note  string             `json:"note,omitempty"`
	// MapCase: a map builder level case (maporder.go) instead of a cluster
	MapCase []mapHost `json:"map_case,omitempty"`
}

type ocase struct {
	objs  []client.Object
	batch []pipeline.Change
	opts  c06.Opts
	runs  int
	note  string
}

func (c ocase) encode() input {
	in := input{Objs: c06.EncodeObjs(c.objs), Opts: c.opts, Runs: c.runs, Note: c.note}
	if len(c.batch) > 0 {
		in.Batch = world.EncodeHistory([][]pipeline.Change{c.batch})[0]
	}
	return in
}

func decode(in input) ocase {
	c := ocase{objs: c06.DecodeObjs(in.Objs), opts: in.Opts, runs: in.Runs, note: in.Note}
	if len(in.Batch) > 0 {
		c.batch = world.DecodeHistory([][]world.ChangeJSON{in.Batch})[0]
	}
	return c
}

// stampBatch gives the objects of a batch the metadata the API server would: the creation
// stamp and uid of the object they replace, a new resourceVersion, and a generation bumped
// when the spec differs.
func stampBatch(base []client.Object, batch []pipeline.Change) []pipeline.Change {
	cur := map[string]client.Object{}
	for _, o := range base {
		cur[world.Key(o)] = o
	}
	spec := func(o client.Object) interface{} {
		v := reflect.ValueOf(o)
		if v.Kind() == reflect.Ptr && v.Elem().Kind() == reflect.Struct {
			if f := v.Elem().FieldByName("Spec"); f.IsValid() {
				return f.Interface()
			}
		}
		return nil
	}
	out := make([]pipeline.Change, len(batch))
	for i, ch := range batch {
		o := ch.Obj.DeepCopyObject().(client.Object)
		k := world.Key(o)
		if ch.Op == pipeline.Delete {
			delete(cur, k)
			out[i] = pipeline.Change{Op: ch.Op, Obj: o}
			continue
		}
		o.SetResourceVersion(fmt.Sprint(200000 + i))
		if old, ok := cur[k]; ok {
			o.SetCreationTimestamp(old.GetCreationTimestamp())
			o.SetUID(old.GetUID())
			gen := old.GetGeneration()
			if !reflect.DeepEqual(spec(old), spec(o)) {
				gen++
			}
			o.SetGeneration(gen)
		} else {
			o = c06.Stamp([]client.Object{o})[0]
			o.SetResourceVersion(fmt.Sprint(200000 + i))
		}
		cur[k] = o
		out[i] = pipeline.Change{Op: ch.Op, Obj: o}
	}
	return out
}

// runAll executes the k runs of a case (concurrently) and returns the canonical behaviours.
func runAll(c ocase, tag string) ([]string, int, error) {
	k := c.runs
	if k < 6 {
		k = 6
	}
	canon := make([]string, k)
	errs := make([]error, k)
	lists := make([]int, k)
	var wg sync.WaitGroup
	sem := make(chan struct{}, 8)
	for i := 0; i < k; i++ {
		wg.Add(1)
		go func(i int) {
			defer wg.Done()
			sem <- struct{}{}
			defer func() { <-sem }()
			dir := filepath.Join(workdir, fmt.Sprintf("%s%d", tag, i))
			os.RemoveAll(dir)
			r := c06.Run{Dir: dir, Opts: c.opts, Objs: c.objs, Batch: c.batch}
			if i > 0 {
				rng := rand.New(rand.NewSource(int64(i)*7919 + int64(len(c.objs))))
				if len(c.batch) == 0 || i%3 == 0 {
					r.Order = rng.Perm(len(c.objs))
				}
				if len(c.batch) > 0 {
					r.BatchOrder = c06.PermKeepingKeys(rng, c.batch)
				}
				r.ShuffleLists = i%2 == 1
				r.Seed = int64(i)
			}
			res, err := c06.Exec(r, universe, *dumpDir != "")
			if err != nil {
				errs[i] = err
				return
			}
			if res.Pipeline != nil {
				dst := filepath.Join(*dumpDir, fmt.Sprintf("%s%d", tag, i))
				os.RemoveAll(dst)
				os.MkdirAll(dst, 0o755)
				exec.Command("cp", "-r", res.Pipeline.CfgDir(), dst).Run()
				os.WriteFile(filepath.Join(dst, "canon.json"), []byte(res.Canon), 0o644)
				os.WriteFile(filepath.Join(dst, "convlog.txt"), []byte(strings.Join(res.ConvLog, "\n")), 0o644)
				res.Pipeline.Close()
			}
			canon[i] = res.Canon
			lists[i] = res.Lists
		}(i)
	}
	wg.Wait()
	nl := 0
	for i := range errs {
		if errs[i] != nil {
			return nil, 0, fmt.Errorf("run %d: %v", i, errs[i])
		}
		nl += lists[i]
	}
	return canon, nl, nil
}

// diverges tells whether some run behaves differently from run 0.
func diverges(c ocase, tag string) (bool, []string, int, error) {
	canon, nl, err := runAll(c, tag)
	if err != nil {
		return false, nil, 0, err
	}
	for i := 1; i < len(canon); i++ {
		if canon[i] != canon[0] {
			return true, append([]string{fmt.Sprintf("run %d differs from run 0", i)}, c06.DiffCanon(canon[0], canon[i], 5)...), nl, nil
		}
	}
	return false, nil, nl, nil
}

// fails is the shrinker's predicate: map iteration is random, so several attempts.
func fails(c ocase, attempts int) bool {
	for t := 0; t < attempts; t++ {
		if d, _, _, err := diverges(c, "s"); err == nil && d {
			return true
		}
	}
	return false
}

func shrink(c ocase) ocase {
	if len(c.batch) > 0 {
		h := [][]pipeline.Change{nil, c.batch}
		for _, o := range c.objs {
			h[0] = append(h[0], pipeline.Change{Op: pipeline.Create, Obj: o})
		}
		m := world.Shrink(h, func(x [][]pipeline.Change) bool {
			if len(x) != 2 {
				return false // the base or the batch vanished: another kind of case
			}
			d := ocase{opts: c.opts, runs: c.runs, batch: x[1]}
			for _, ch := range x[0] {
				if ch.Op != pipeline.Create {
					return false
				}
				d.objs = append(d.objs, ch.Obj)
			}
			return fails(d, 3)
		}, 120)
		if len(m) == 2 {
			d := ocase{opts: c.opts, runs: c.runs, batch: m[1], note: c.note}
			for _, ch := range m[0] {
				d.objs = append(d.objs, ch.Obj)
			}
			return d
		}
		return c
	}
	objs := world.ShrinkObjs(c.objs, func(x []client.Object) bool {
		return fails(ocase{objs: x, opts: c.opts, runs: c.runs}, 3)
	}, 150)
	return ocase{objs: objs, opts: c.opts, runs: c.runs, note: c.note}
}

// ---------------------------------------------------------------- classification

func annValue(o client.Object, key string) (string, bool) {
	for _, p := range c06.Prefixes {
		if v, ok := o.GetAnnotations()[p+key]; ok {
			return v, true
		}
	}
	return "", false
}

func hostsOf(ing *networking.Ingress) []string {
	seen := map[string]bool{}
	var out []string
	add := func(h string) {
		if h == "" {
			h = "<default>"
		}
		if !seen[h] {
			seen[h] = true
			out = append(out, h)
		}
	}
	if ing.Spec.DefaultBackend != nil {
		add("")
	}
	for _, r := range ing.Spec.Rules {
		if r.HTTP != nil {
			add(r.Host)
		}
	}
	for _, t := range ing.Spec.TLS {
		for _, h := range t.Hosts {
			add(h)
		}
	}
	return out
}

// classify names the cause of a diverging case; unknown causes are keyed by what the case
// contains so that they are never mistaken for a known finding.
func classify(c ocase, diff []string) string {
	text := strings.Join(diff, "\n")
	var all []client.Object
	all = append(all, c.objs...)
	for _, ch := range c.batch {
		if ch.Op != pipeline.Delete {
			all = append(all, ch.Obj)
		}
	}
	// the same redirect-from / redirect-from-regex value claimed by two hosts
	for _, key := range []string{"redirect-from", "redirect-from-regex"} {
		claims := map[string]map[string]bool{}
		for _, o := range all {
			if ing, ok := o.(*networking.Ingress); ok {
				if v, ok := annValue(ing, key); ok && v != "" {
					if claims[v] == nil {
						claims[v] = map[string]bool{}
					}
					for _, h := range hostsOf(ing) {
						claims[v][h] = true
					}
				}
			}
		}
		for _, hs := range claims {
			if len(hs) > 1 && (strings.Contains(text, "redirdest") || strings.Contains(text, "redirect prefix") || strings.Contains(text, "redir")) {
				return "C06/redirect-from-duplicate"
			}
		}
	}
	// the same server alias requested by two hosts, or an alias that is also a hostname
	for _, key := range []string{"server-alias", "server-alias-regex"} {
		claims := map[string]map[string]bool{}
		hostnames := map[string]bool{}
		for _, o := range all {
			if ing, ok := o.(*networking.Ingress); ok {
				for _, h := range hostsOf(ing) {
					hostnames[h] = true
				}
				if v, ok := annValue(ing, key); ok && v != "" {
					if claims[v] == nil {
						claims[v] = map[string]bool{}
					}
					for _, h := range hostsOf(ing) {
						claims[v][h] = true
					}
				}
			}
		}
		for v, hs := range claims {
			if (len(hs) > 1 || hostnames[v]) && (strings.Contains(text, "alias") || strings.Contains(text, "\"backend\"") || strings.Contains(text, "hostbackend")) {
				return "C06/server-alias-duplicate"
			}
		}
	}
	// oauth: the backend of the /oauth2 path is looked for in every host of the namespace
	oauth := false
	for _, o := range all {
		if _, ok := annValue(o, "oauth"); ok {
			oauth = true
		}
	}
	if oauth && (strings.Contains(text, "/oauth2") || strings.Contains(text, "auth-intercept")) {
		return "C06/oauth-backend-lookup"
	}
	// auth proxy: more external authentication services than ports
	authURL := false
	for _, o := range all {
		if _, ok := annValue(o, "auth-url"); ok {
			authURL = true
		}
	}
	for _, o := range all {
		if cm, ok := o.(*api.ConfigMap); ok {
			if _, ok := cm.Data["auth-proxy"]; ok && authURL {
				return "C06/auth-proxy-range-exhausted"
			}
		}
	}
	// two annotation names of one object that only differ by letter case, "_" for "-" or blanks:
	// names are compared exactly, a reader that normalises them lets map iteration pick
	for _, o := range all {
		norm := map[string]string{}
		for k := range o.GetAnnotations() {
			n := strings.ReplaceAll(strings.ToLower(strings.ReplaceAll(k, " ", "")), "_", "-")
			if prev, ok := norm[n]; ok && prev != k && strings.Contains(k, "/") {
				return "C06/annotation-name-normalised"
			}
			norm[n] = k
		}
	}
	// ingresses of one creation stamp whose namespace and name concatenate to the same text
	// (a/bc and ab/c): the separator of the tie-break key of sortIngress decides
	var ings []*networking.Ingress
	for _, o := range all {
		if ing, ok := o.(*networking.Ingress); ok {
			ings = append(ings, ing)
		}
	}
	for i, x := range ings {
		for _, y := range ings[i+1:] {
			if x.CreationTimestamp.Equal(&y.CreationTimestamp) && x.Namespace != y.Namespace && x.Namespace+x.Name == y.Namespace+y.Name {
				return "C06/sort-ingress-key-collision"
			}
		}
	}
	// EndpointSlices: one address in two slices of a service
	if c.opts.EndpointSlices {
		addrs := map[string]map[string]bool{}
		for _, o := range all {
			if sl, ok := o.(*discoveryv1.EndpointSlice); ok {
				svc := sl.Namespace + "/" + sl.Labels["kubernetes.io/service-name"]
				for _, ep := range sl.Endpoints {
					for _, a := range ep.Addresses {
						k := svc + " " + a
						if addrs[k] == nil {
							addrs[k] = map[string]bool{}
						}
						addrs[k][sl.Name] = true
					}
				}
			}
		}
		for _, sls := range addrs {
			if len(sls) > 1 {
				return "C06/endpointslices-duplicate-address"
			}
		}
	}
	// gateway api: routes of one kind created in the same second in different namespaces
	if strings.Contains(text, "__rule") || strings.Contains(text, "_tcprule") {
		type rid struct{ kind, ns, name, stamp string }
		var routes []rid
		for _, o := range all {
			switch o.(type) {
			case *gatewayv1.HTTPRoute:
				routes = append(routes, rid{"http", o.GetNamespace(), o.GetName(), o.GetCreationTimestamp().String()})
			case *gatewayv1alpha2.TCPRoute:
				routes = append(routes, rid{"tcp", o.GetNamespace(), o.GetName(), o.GetCreationTimestamp().String()})
			}
		}
		for i, x := range routes {
			for _, y := range routes[i+1:] {
				if x.kind == y.kind && x.stamp == y.stamp && x.ns != y.ns {
					return "C06/gateway-route-tiebreak"
				}
			}
		}
	}
	// tcp-services ConfigMap: two keys that are one port number
	for _, o := range all {
		if cm, ok := o.(*api.ConfigMap); ok && cm.Name == "tcp-services" {
			ports := map[int]bool{}
			for k := range cm.Data {
				if n, err := strconv.Atoi(k); err == nil {
					if ports[n] {
						return "C06/tcp-configmap-same-port"
					}
					ports[n] = true
				}
			}
		}
	}
	// one path of a host declared with two match types: the position of the extra map
	// files, created while the hostnames of the map are visited, decides who answers
	types := map[string]map[string]bool{}
	for _, o := range all {
		if ing, ok := o.(*networking.Ingress); ok {
			for _, r := range ing.Spec.Rules {
				if r.HTTP == nil {
					continue
				}
				for _, p := range r.HTTP.Paths {
					t := "begin"
					if p.PathType != nil && (*p.PathType == networking.PathTypeExact || *p.PathType == networking.PathTypePrefix) {
						t = string(*p.PathType)
					} else if v, ok := annValue(ing, "path-type"); ok {
						t = v
					}
					k := r.Host + " " + p.Path
					if types[k] == nil {
						types[k] = map[string]bool{}
					}
					types[k][strings.ToLower(t)] = true
				}
			}
		}
	}
	for _, ts := range types {
		if len(ts) > 1 && (strings.Contains(text, "\"backend\"") || strings.Contains(text, "req.backend") || strings.Contains(text, "hostbackend")) {
			return "C06/map-extra-files-order"
		}
	}
	keys := map[string]bool{}
	for _, o := range all {
		for k := range o.GetAnnotations() {
			for _, p := range c06.Prefixes {
				k = strings.TrimPrefix(k, p)
			}
			keys[k] = true
		}
	}
	kind := "other"
	if strings.Contains(text, "\"req\"") || strings.Contains(text, "\"verdict\"") {
		kind = "route"
	} else if strings.Contains(text, "http-request") {
		kind = "rules"
	}
	shape := "cluster"
	if len(c.batch) > 0 {
		var parts []string
		for _, ch := range c.batch {
			parts = append(parts, ch.Op.String()+" "+world.KindOf(ch.Obj))
		}
		shape = "batch:" + strings.Join(parts, ",")
	}
	return "C06/unclassified[" + kind + "]:" + shape + ":" + strings.Join(hx.SortedKeys(keys), ",")
}

func describe(c ocase) string {
	var parts []string
	for _, o := range c.objs {
		s := world.Key(o)
		if a := o.GetAnnotations(); len(a) > 0 {
			var as []string
			for _, k := range hx.SortedKeys(a) {
				as = append(as, k+"="+a[k])
			}
			s += "{" + strings.Join(as, ", ") + "}"
		}
		if ing, ok := o.(*networking.Ingress); ok {
			s += fmt.Sprintf(" stamp=%d hosts=%v", ing.CreationTimestamp.Unix(), hostsOf(ing))
		}
		if sl, ok := o.(*discoveryv1.EndpointSlice); ok {
			var eps []string
			for _, ep := range sl.Endpoints {
				r := "ready?"
				if ep.Conditions.Ready != nil {
					r = fmt.Sprintf("ready=%v", *ep.Conditions.Ready)
				}
				eps = append(eps, strings.Join(ep.Addresses, ",")+" "+r)
			}
			s += fmt.Sprintf(" ports=%d [%s]", len(sl.Ports), strings.Join(eps, "; "))
		}
		if rt, ok := o.(*gatewayv1alpha2.TCPRoute); ok {
			s += fmt.Sprintf(" stamp=%d parents=%d", rt.CreationTimestamp.Unix(), len(rt.Spec.ParentRefs))
		}
		if rt, ok := o.(*gatewayv1.HTTPRoute); ok {
			s += fmt.Sprintf(" stamp=%d hostnames=%v rules=%d", rt.CreationTimestamp.Unix(), rt.Spec.Hostnames, len(rt.Spec.Rules))
		}
		parts = append(parts, s)
	}
	out := strings.Join(parts, "; ")
	if len(c.batch) > 0 {
		var bs []string
		for _, ch := range c.batch {
			bs = append(bs, ch.Op.String()+" "+world.Key(ch.Obj))
		}
		out += " || then one batch (any event order): " + strings.Join(bs, "; ")
	}
	return out
}

// ---------------------------------------------------------------- generation

func genCase(rng *rand.Rand, i int, withBatch bool) ocase {
	cfg := world.Full()
	level := i % 4 // 0: world only, 1 / 2: spiced, 3: dense
	c := ocase{opts: c06.Opts{WatchWithoutClass: true, DefaultService: "ns1/svc1"}, runs: 6}
	if i%5 == 4 {
		c.opts.BackendShards = 3
	}
	if i%7 == 6 {
		c.opts.WatchWithoutClass = false
	}
	objs := c06.GenCluster(rng, cfg, level)
	if i%6 == 3 || *gwOnly {
		// routes of one second with adversarial identities claiming the same things
		c.opts.GatewayV1, c.opts.TCPRouteA2 = true, true
		objs = append(objs, c06.GenGatewaysAdversarial(rng, 1+rng.Intn(3))...)
	} else if i%6 == 5 {
		// gateway api next to (or instead of most of) the ingresses
		c.opts.GatewayV1 = true
		objs = append(objs, c06.GenGateways(rng)...)
	}
	if i%5 == 2 {
		// ingresses created in the same second whose namespace / name stress the tie-break
		objs = append(objs, c06.GenAdversarial(rng, 2+rng.Intn(4))...)
	}
	if i%6 == 1 {
		// the endpoints come from EndpointSlices: 1..3 per service, overlapping addresses
		c.opts.EndpointSlices = true
		objs = append(objs, c06.GenSlices(rng, objs)...)
		if rng.Intn(2) == 0 {
			found := false
			for _, ob := range objs {
				if cm, ok := ob.(*api.ConfigMap); ok && cm.Namespace == "ingress-controller" && cm.Name == "haproxy-ingress" {
					if cm.Data == nil {
						cm.Data = map[string]string{}
					}
					cm.Data["drain-support"] = "true"
					found = true
				}
			}
			if !found {
				cm := &api.ConfigMap{}
				cm.Namespace, cm.Name = "ingress-controller", "haproxy-ingress"
				cm.Data = map[string]string{"drain-support": "true"}
				objs = append(objs, cm)
			}
		}
	}
	// the generators may name the same object twice (services of the adversarial
	// namespaces): one object per key, the first one
	seenKeys := map[string]bool{}
	uniq := objs[:0:0]
	for _, ob := range objs {
		if k := world.Key(ob); !seenKeys[k] {
			seenKeys[k] = true
			uniq = append(uniq, ob)
		}
	}
	c.objs = c06.Stamp(uniq)
	if withBatch {
		if level > 0 {
			cfg.HostPool, cfg.PathPool = c06.Hosts, c06.Paths
		}
		st := world.NewState(c.objs)
		c.batch = stampBatch(c.objs, world.GenBatch(rng, cfg, st, 4))
	}
	return c
}

func main() {
	o := hx.Parse()
	if *mkCorpus != "" {
		writeHandMade(*mkCorpus)
		return
	}
	workdir = filepath.Join(o.Out, "scratch")
	os.MkdirAll(workdir, 0o755)
	defer os.RemoveAll(workdir)
	rng := o.Rng()
	res := hx.NewResult("C06", "oracle: generated clusters (world.Full(): <=7 ingresses sharing 5+3 hosts, 11 paths, 4 services x 3 namespaces, tls, classes, ConfigMap, pods, equal creation stamps; two thirds with conflict-prone annotations: both annotation prefixes, host wide keys on several ingresses / hosts, redirect-from, alias, external auth, oauth, basic auth, auth-tls, ssl-passthrough, tcp, strict-host; one case in four dense: 4 hosts x 5 paths, 2-6 such annotations per ingress; one case in six with Gateway API v1 objects: 1-2 Gateways, 1-5 HTTPRoutes of two namespaces sharing hostnames and paths) fed to 6 independent fresh real pipelines in permuted event orders, half of them with shuffled List answers; batch cases add one batch of 1..4 changes delivered in permuted event orders (partial sync); behaviours (lib/sem) must be equal. correspondence: real sortIngress / readConfigKeys / Mapper / AcquireAuthBackendName driven directly, converter+updater+instance through the pipeline (app-root and redirect-from per host, oauth backend lookup, server-alias owner) vs coq/Model/Order.v. non-trivial = >= 2 ingresses sharing a host or a backend; distinct by cluster text")
	cw := hx.NewCaseWriter(o, res, "From HI Require Import Corr.Corr_C06.", "ccase", 250)

	var cases []ocase
	var isCorpus []bool
	var mapCases [][]mapHost
	if o.Replay != "" {
		var in input
		hx.ReadReplay(o.Replay, &in)
		if in.MapCase != nil {
			mapOrderOracle(rng, res, [][]mapHost{in.MapCase}, 0)
			res.Write(o)
			return
		}
		cases = append(cases, decode(in))
		isCorpus = append(isCorpus, true)
	} else {
		files, _ := filepath.Glob("/verif/corpus/C06/*.json")
		sort.Strings(files)
		for _, f := range files {
			var in input
			hx.ReadReplay(f, &in)
			cases = append(cases, decode(in))
			isCorpus = append(isCorpus, true)
		}
		nCluster := o.Count(26, 800)
		nBatch := o.Count(12, 400)
		if o.Search {
			nCluster, nBatch = o.Count(400, 1500), o.Count(150, 700)
		}
		for i := 0; i < nCluster; i++ {
			cases = append(cases, genCase(rng, i, false))
			isCorpus = append(isCorpus, false)
		}
		for i := 0; i < nBatch; i++ {
			cases = append(cases, genCase(rng, i, true))
			isCorpus = append(isCorpus, false)
		}
	}

	seenKeys := map[string]bool{}
	for ci, c := range cases {
		canon, _ := json.Marshal(c.encode())
		nIng, shared := 0, false
		hostUse := map[string]int{}
		for _, ob := range c.objs {
			if ing, ok := ob.(*networking.Ingress); ok {
				nIng++
				for _, h := range hostsOf(ing) {
					hostUse[h]++
					if hostUse[h] > 1 {
						shared = true
					}
				}
			}
		}
		res.Seen(string(canon), nIng >= 2 && shared)
		res.Count(fmt.Sprintf("oracle_ingresses=%d", nIng))
		if len(c.batch) > 0 {
			res.Count("oracle_batch_case")
			for _, ch := range c.batch {
				res.Count("oracle_batch_" + ch.Op.String() + "_" + world.KindOf(ch.Obj))
			}
		} else {
			res.Count("oracle_cluster_case")
		}
		for _, ob := range c.objs {
			for k := range ob.GetAnnotations() {
				for _, p := range c06.Prefixes {
					if strings.HasPrefix(k, p) {
						res.Count("oracle_ann_" + strings.TrimPrefix(k, p))
					}
				}
			}
		}
		if ci < 2 || (len(c.batch) > 0 && len(res.Samples) < 3) {
			res.Sample(4, map[string]interface{}{"oracle_case": describe(c), "runs": max(6, c.runs)})
		}
		res.OracleChecks++
		d, diff, nl, err := diverges(c, "r")
		if err != nil {
			res.Count("oracle_harness_error")
			res.Fail(hx.Failure{Key: "C06/update-error", What: "a pipeline failed: " + err.Error(), Input: c.encode()})
			continue
		}
		res.Distribution["oracle_shuffled_list_calls"] += nl
		if !d {
			continue
		}
		res.Count("oracle_fail")
		pre := classify(c, diff)
		if seenKeys[pre] && !isCorpus[ci] && !strings.Contains(pre, "unclassified") {
			res.Count("oracle_fail_same_key_not_shrunk")
			continue
		}
		m := c
		if !isCorpus[ci] {
			m = shrink(c)
		}
		md := diff
		for t := 0; t < 4; t++ {
			if dd, df, _, err := diverges(m, "r"); err == nil && dd {
				md = df
				break
			}
		}
		key := classify(m, md)
		if !seenKeys[key] || isCorpus[ci] {
			seenKeys[key] = true
			res.Fail(hx.Failure{Key: key, What: "independent fresh controllers fed the same cluster in different orders behave differently: " + describe(m),
				Input: m.encode(), Observed: md})
		}
	}

	if o.Replay == "" {
		mapOrderOracle(rng, res, mapCases, o.Count(40, 1500))
	}
	if !o.Search && o.Replay == "" {
		correspondence(o, rng, res, cw)
	}
	cw.Flush()
	res.Write(o)
}
