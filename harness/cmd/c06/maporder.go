package main

// Map builder level oracle (no model): hostnames with ONE entry each, every one with its own
// header filter (plain host, wildcard host, alias: they can match the same request), are
// added to a real HostsMap in the same order and MatchFiles() is built several times; Go
// visits its maps in another order on every build, the list of match files (file name,
// method, header condition, entries) must be the same every time: HAProxy consults the files
// in that order, so it decides who answers a request carrying the headers of two of them.

import (
	"fmt"
	"math/rand"
	"strings"

	hatypes "github.com/jcmoraisjr/haproxy-ingress/pkg/haproxy/types"

	"verif/harness/lib/hx"
)

type mapHost struct {
	Host    string      `json:"host"`
	Path    string      `json:"path"`
	Match   string      `json:"match"`
	Headers [][2]string `json:"headers,omitempty"`
	Target  string      `json:"target"`
}

func buildMatchFiles(hostsIn []mapHost) string {
	hosts := hatypes.CreateHosts()
	backs := hatypes.CreateBackends(0)
	m := hatypes.CreateMaps(hatypes.DefaultMatchOrder).AddMap("/maps/_front_http_host.map")
	for _, h := range hostsIn {
		link := hatypes.CreateHostPathLink(h.Host, h.Path, hatypes.MatchType(h.Match))
		var hdr hatypes.HTTPHeaderMatch
		for _, kv := range h.Headers {
			hdr = append(hdr, hatypes.HTTPMatch{Name: kv[0], Value: kv[1]})
		}
		if len(hdr) > 0 {
			link = link.WithHeadersMatch(hdr)
		}
		host := hosts.AcquireHost(h.Host)
		host.AddLink(backs.AcquireBackend("ns1", h.Target, "8080"), link)
		if p := host.FindPathWithLink(link); p != nil {
			m.AddHostnamePathMapping(h.Host, p, "ns1_"+h.Target+"_8080")
		} else {
			panic("c06: path not found after AddLink")
		}
	}
	var out []string
	for _, f := range m.MatchFiles() {
		var es []string
		for _, e := range f.Values() {
			es = append(es, e.Key+"="+e.Value)
		}
		out = append(out, fmt.Sprintf("%s %s %v [%s]", f.Filename(), f.Method(), f.Headers(), strings.Join(es, " ")))
	}
	return strings.Join(out, "\n")
}

// mapOrderCheck builds the case `builds` times; it returns the two differing file lists.
func mapOrderCheck(hostsIn []mapHost, builds int) (bool, string, string) {
	first := buildMatchFiles(hostsIn)
	for i := 1; i < builds; i++ {
		if next := buildMatchFiles(hostsIn); next != first {
			return true, first, next
		}
	}
	return false, "", ""
}

func genMapCase(rng *rand.Rand) []mapHost {
	names := []string{"a.example", "*.example", "alias.example", "b.example", "sub.a.example", "*.a.example", "c.example", "d.example"}
	hdrs := [][2]string{{"X-Env", "blue"}, {"X-Tenant", "t1"}, {"X-Env", "green"}, {"X-Canary", "1"}, {"X-Zone", "z"}, {"X-User", "u"}}
	n := 2 + rng.Intn(5)
	perm := rng.Perm(len(names))
	var out []mapHost
	for i := 0; i < n; i++ {
		h := mapHost{Host: names[perm[i]], Path: "/", Match: []string{"prefix", "begin", "exact"}[rng.Intn(3)], Target: fmt.Sprintf("svc%d", i+1)}
		if rng.Intn(5) > 0 {
			h.Headers = [][2]string{hdrs[(i+rng.Intn(2))%len(hdrs)]}
		}
		out = append(out, h)
	}
	if rng.Intn(3) == 0 {
		// a hostname with two entries next to the single-entry ones
		out = append(out, mapHost{Host: out[0].Host, Path: "/app", Match: "prefix", Target: "svc9", Headers: [][2]string{{"X-Other", "o"}}})
	}
	return out
}

func mapOrderOracle(rng *rand.Rand, res *hx.Result, cases [][]mapHost, n int) {
	cases = append(cases,
		[]mapHost{{Host: "a.example", Path: "/", Match: "prefix", Headers: [][2]string{{"X-Env", "blue"}}, Target: "svc1"},
			{Host: "*.example", Path: "/", Match: "prefix", Headers: [][2]string{{"X-Tenant", "t1"}}, Target: "svc2"},
			{Host: "alias.example", Path: "/", Match: "prefix", Headers: [][2]string{{"X-Zone", "z"}}, Target: "svc3"},
			{Host: "b.example", Path: "/", Match: "begin", Headers: [][2]string{{"X-User", "u"}}, Target: "svc4"}})
	for i := 0; i < n; i++ {
		cases = append(cases, genMapCase(rng))
	}
	reported := false
	for i, c := range cases {
		filtered := 0
		for _, h := range c {
			if len(h.Headers) > 0 {
				filtered++
			}
		}
		res.Seen("map:"+fmt.Sprint(c), filtered >= 2)
		res.Count("oracle_map_case")
		res.OracleChecks++
		if i == 0 {
			res.Sample(6, map[string]interface{}{"oracle_map_case": c, "builds": 12})
		}
		if bad, a, b := mapOrderCheck(c, 12); bad && !reported {
			reported = true
			res.Fail(hx.Failure{Key: "C06/map-filter-files-order",
				What:     "MatchFiles() of the same entries, added in the same order, lists the match files in another order from one build to the next (the files are consulted in that order: a request carrying the headers of two of them is answered by the first)",
				Input:    input{MapCase: c, Note: "map builder level case"},
				Observed: []string{a, b}})
		}
	}
}
