package main

import (
	"math/rand"

	"verif/harness/lib/hx"
)

func correspondence(o *hx.Opts, rng *rand.Rand, res *hx.Result, cw *hx.CaseWriter) {}
