package main

// Correspondence of coq/Model/Order.v (and sort_ings of Model/Conv.v) with the real code:
//   CSort   ingress.sortIngress (hook VerifSortIngress) on shuffled lists with equal stamps;
//   CKeys   converter.readConfigKeys (hook VerifReadConfigKeys) with one to three annotation
//           prefixes, the same key under several prefixes with distinct values;
//   CMapper annotations.Mapper driven directly: AddAnnotations calls from several sources on
//           several paths (validated / normalised / rejected values), then Get, GetConfig().Get
//           and the conflicts of every call;
//   CHosts  the real pipeline (watchers, converter, updater): ingresses sharing hosts, with
//           app-root / redirect-from / redirect-from-regex under both prefixes, equal creation
//           stamps, tls-only hosts; observed per host: RootRedirect, RedirectHost,
//           RedirectHostRegex of the haproxy model after the full sync.

import (
	"fmt"
	"math/rand"
	"path/filepath"
	"sort"
	"strings"

	networking "k8s.io/api/networking/v1"
	"k8s.io/apimachinery/pkg/util/intstr"
	"sigs.k8s.io/controller-runtime/pkg/client"

	ingress "github.com/jcmoraisjr/haproxy-ingress/pkg/converters/ingress"
	"github.com/jcmoraisjr/haproxy-ingress/pkg/converters/ingress/annotations"
	convtypes "github.com/jcmoraisjr/haproxy-ingress/pkg/converters/types"
	hatypes "github.com/jcmoraisjr/haproxy-ingress/pkg/haproxy/types"

	"verif/harness/lib/c06"
	"verif/harness/lib/hx"
	"verif/harness/lib/pipeline"
	"verif/harness/lib/world"
)

func coqAnn(m map[string]string) string {
	var items []string
	for _, k := range hx.SortedKeys(m) {
		items = append(items, hx.Tuple(hx.Str(k), hx.Str(m[k])))
	}
	return hx.List(items)
}

func coqStrs(l []string) string {
	items := make([]string, len(l))
	for i, s := range l {
		items[i] = hx.Str(s)
	}
	return hx.List(items)
}

// ---------------------------------------------------------------- CSort

type sortIn struct {
	Ings     [][3]interface{} `json:"ings"` // ns, name, stamp
	Observed []string         `json:"observed"`
}

// advIdentities are namespace/name pairs that stress the tie-break key namespace + "/" + name:
// concatenations that collide with different splits (a/bc, ab/c, abc/c vs ab/cc ...), one
// namespace a prefix of another (so that the separator decides), differences only around
// the separator, names sorting opposite to their namespaces, upper / lower case.
var advIdentities = [][2]string{
	{"a", "bc"}, {"ab", "c"}, {"a", "b"}, {"ab", "cc"}, {"abc", "c"}, {"a", "bcc"},
	{"a", "z"}, {"ab", "a"}, {"a-b", "c"}, {"a", "b-c"}, {"a.b", "c"}, {"a", "b.c"},
	{"b", "a"}, {"a", "b0"}, {"a0", "b"}, {"A", "bc"}, {"a", "Bc"}, {"aB", "c"}, {"ns1", "ing1"}, {"ns", "1ing1"},
}

func genSort(rng *rand.Rand) (string, interface{}, bool) {
	n := 2 + rng.Intn(8)
	adversarial := rng.Intn(2) == 0
	seen := map[string]bool{}
	var ings []*networking.Ingress
	for try := 0; len(ings) < n && try < 200; try++ {
		ns, name := world.Namespaces[rng.Intn(3)], world.IngressNames[rng.Intn(7)]
		if rng.Intn(6) == 0 {
			name = name + "x" // one name a prefix of another
		}
		if adversarial {
			id := advIdentities[rng.Intn(len(advIdentities))]
			ns, name = id[0], id[1]
		}
		if seen[ns+"/"+name] {
			continue
		}
		seen[ns+"/"+name] = true
		ing := &networking.Ingress{}
		ing.Namespace, ing.Name = ns, name
		stamps := []int{10, 15, 15, 15, 20, 20, 7}
		if adversarial {
			stamps = []int{15, 15, 15, 15, 20}
		}
		ing.CreationTimestamp = world.Stamp(stamps[rng.Intn(len(stamps))])
		ings = append(ings, ing)
	}
	var in []string
	js := sortIn{}
	for _, i := range ings {
		in = append(in, hx.Tuple(hx.Str(i.Namespace), hx.Str(i.Name), hx.Z(i.CreationTimestamp.Unix())))
		js.Ings = append(js.Ings, [3]interface{}{i.Namespace, i.Name, i.CreationTimestamp.Unix()})
	}
	ingress.VerifSortIngress(ings)
	equalStamps := false
	for k, i := range ings {
		js.Observed = append(js.Observed, i.Namespace+"/"+i.Name)
		if k > 0 && ings[k-1].CreationTimestamp == i.CreationTimestamp {
			equalStamps = true
		}
	}
	return fmt.Sprintf("CSort @ID@ %s %s", hx.List(in), coqStrs(js.Observed)), js, equalStamps
}

// ---------------------------------------------------------------- CKeys

var prefixSets = [][]string{
	{"haproxy-ingress.github.io", "ingress.kubernetes.io"},
	{"ingress.kubernetes.io", "haproxy-ingress.github.io"},
	{"a.io", "a.io/x"},
	{"a.io/x", "a.io"},
	{"haproxy-ingress.github.io"},
	{"a.io", "b.io", "a.io/x"},
}

func genKeys(rng *rand.Rand) (string, interface{}, bool) {
	prefixes := prefixSets[rng.Intn(len(prefixSets))]
	pool := append([]string{"other.io", "kubernetes.io"}, prefixes...)
	keys := []string{"app-root", "redirect-from", "k", "x/k", "x/app-root", "ssl-redirect"}
	ann := map[string]string{}
	for i, n := 0, rng.Intn(7); i < n; i++ {
		ann[pool[rng.Intn(len(pool))]+"/"+keys[rng.Intn(len(keys))]] = []string{"1", "2", "3", ""}[rng.Intn(4)]
	}
	if rng.Intn(5) == 0 {
		ann["plain"] = "v"
		ann[prefixes[0]] = "noslash"
	}
	// names a normalising reader would identify with one of the above: letter case of the key
	// or of the prefix, "_" for "-", blanks around the key -- the code compares names exactly,
	// so each of them is a key of its own (or no key at all), with its own value
	normalised := false
	if rng.Intn(2) == 0 {
		for _, name := range hx.SortedKeys(ann) {
			i := strings.Index(name, "/")
			if i < 0 || rng.Intn(2) == 0 {
				continue
			}
			pre, key := name[:i], name[i+1:]
			if key == "" {
				continue
			}
			vs := []string{pre + "/" + strings.ToUpper(key), pre + "/" + strings.ToUpper(key[:1]) + key[1:],
				pre + "/" + strings.ReplaceAll(key, "-", "_"), pre + "/ " + key, pre + "/" + key + " ",
				strings.ToUpper(pre[:1]) + pre[1:] + "/" + key, strings.ToUpper(pre) + "/" + key, pre + "//" + key}
			v := vs[rng.Intn(len(vs))]
			if _, ok := ann[v]; !ok {
				ann[v] = ann[name] + "x"
				normalised = true
			}
		}
	}
	out := ingress.VerifReadConfigKeys(prefixes, ann)
	// non-trivial: some key offered by two prefixes with distinct values
	clash := false
	for k1, v1 := range ann {
		for k2, v2 := range ann {
			for _, p1 := range prefixes {
				for _, p2 := range prefixes {
					if p1 != p2 && strings.HasPrefix(k1, p1+"/") && strings.HasPrefix(k2, p2+"/") &&
						strings.TrimPrefix(k1, p1+"/") == strings.TrimPrefix(k2, p2+"/") && v1 != v2 {
						clash = true
					}
				}
			}
		}
	}
	return fmt.Sprintf("CKeys @ID@ %s %s %s", coqStrs(prefixes), coqAnn(ann), coqAnn(out)),
		map[string]interface{}{"prefixes": prefixes, "annotations": ann, "observed": out}, clash || normalised
}

// ---------------------------------------------------------------- CMapper

var mapperValues = map[string][]string{
	"hsts":              {"true", "false", "T", "1", "0", "maybe", "TRUE", "tRuE", ""},
	"ssl-redirect":      {"true", "false", "F", "x"},
	"hsts-max-age":      {"10", "010", "+5", "-3", "x", "", "0", "-0"},
	"balance-algorithm": {"leastconn", "first", "roundrobin"},
	"timeout-server":    {"5s", "9s"},
	"app-root":          {"/a", "/b"},
}

type mapperSource struct{ kind, ns, name string }

func (s mapperSource) String() string { return s.kind + " " + s.ns + "/" + s.name }

func genMapper(rng *rand.Rand) (string, interface{}, bool) {
	defaults := map[string]string{"balance-algorithm": "roundrobin", "hsts-max-age": "15768000", "timeout-server": "50s"}
	sources := []mapperSource{{"Service", "ns1", "svc1"}, {"Ingress", "ns1", "ing1"}, {"Ingress", "ns1", "ing2"}, {"Ingress", "ns2", "ing1"}}
	type plink struct {
		name string
		link *hatypes.PathLink
	}
	paths := []plink{
		{"a.example|/|prefix", hatypes.CreateHostPathLink("a.example", "/", hatypes.MatchPrefix)},
		{"a.example|/app|exact", hatypes.CreateHostPathLink("a.example", "/app", hatypes.MatchExact)},
		{"b.example|/|begin", hatypes.CreateHostPathLink("b.example", "/", hatypes.MatchBegin)},
	}
	keyPool := hx.SortedKeys(mapperValues)
	mapper := annotations.NewMapBuilder(&pipeline.Logger{}, defaults).NewMapper()
	var calls, conflicts []string
	var jcalls []interface{}
	anyConflict := false
	for i, n := 0, 1+rng.Intn(7); i < n; i++ {
		src := sources[rng.Intn(len(sources))]
		p := paths[rng.Intn(len(paths))]
		ann := map[string]string{}
		for j, m := 0, rng.Intn(5); j < m; j++ {
			k := keyPool[rng.Intn(len(keyPool))]
			ann[k] = mapperValues[k][rng.Intn(len(mapperValues[k]))]
		}
		cf := mapper.AddAnnotations(&annotations.Source{Namespace: src.ns, Name: src.name, Type: convtypes.ResourceType(src.kind)}, p.link, ann)
		sort.Strings(cf)
		if len(cf) > 0 {
			anyConflict = true
		}
		calls = append(calls, hx.Tuple(hx.Str(src.String()), hx.Str(p.name), coqAnn(ann)))
		conflicts = append(conflicts, coqStrs(cf))
		jcalls = append(jcalls, map[string]interface{}{"source": src.String(), "path": p.name, "annotations": ann, "conflicts": cf})
	}
	srcOf := func(cv *annotations.ConfigValue) string {
		if cv.Source == nil {
			return "None"
		}
		return "(Some " + hx.Str(string(cv.Source.Type)+" "+cv.Source.FullName()) + ")"
	}
	var gets, pgets []string
	jget := map[string]string{}
	for _, k := range append(keyPool, "unknown-key") {
		cv := mapper.Get(k)
		gets = append(gets, hx.Tuple(hx.Str(k), hx.Tuple(srcOf(cv), hx.Str(cv.Value))))
		jget[k] = srcOf(cv) + " " + cv.Value
		for _, p := range paths {
			pv := mapper.GetConfig(p.link).Get(k)
			pgets = append(pgets, hx.Tuple(hx.Str(p.name), hx.Str(k), hx.Tuple(srcOf(pv), hx.Str(pv.Value))))
			jget[p.name+" "+k] = srcOf(pv) + " " + pv.Value
		}
	}
	return fmt.Sprintf("CMapper @ID@ %s %s %s %s %s", coqAnn(defaults), hx.List(calls), hx.List(gets), hx.List(pgets), hx.List(conflicts)),
		map[string]interface{}{"defaults": defaults, "calls": jcalls, "answers": jget}, anyConflict
}

// ---------------------------------------------------------------- CHosts

var hostsPool = []string{"a.example", "b.example", "c.example", "d.example", ""}

func genHostsCluster(rng *rand.Rand) []client.Object {
	var objs []client.Object
	for _, ns := range world.Namespaces[:2] {
		for _, s := range world.ServiceNames[:3] {
			objs = append(objs, world.Service(ns, s, world.SvcPort{Name: "http", Port: 80, TargetPort: intstr.FromInt(8080)}))
			objs = append(objs, world.Endpoints(ns, s, world.EpPort{Name: "http", Port: 8080, Ready: []string{"10.0.0.1"}}))
		}
	}
	adversarial := rng.Intn(3) == 0
	advPerm := rng.Perm(10) // lower case identities of the namespaces a, ab, abc, a-b
	if adversarial {
		for _, ns := range []string{"a", "ab", "abc", "a-b"} {
			for _, s := range world.ServiceNames[:3] {
				objs = append(objs, world.Service(ns, s, world.SvcPort{Name: "http", Port: 80, TargetPort: intstr.FromInt(8080)}))
			}
		}
	}
	n := 1 + rng.Intn(5)
	perm := rng.Perm(len(world.IngressNames))
	for k := 0; k < n; k++ {
		ns := world.Namespaces[rng.Intn(2)]
		var rules []world.IngRule
		for i, m := 0, rng.Intn(4); i < m; i++ {
			r := world.IngRule{Host: hostsPool[rng.Intn(len(hostsPool))]}
			for j, q := 0, 1+rng.Intn(2); j < q; j++ {
				r.Paths = append(r.Paths, world.IngPath{Path: []string{"/", "/a", "/b"}[rng.Intn(3)], Type: "Prefix",
					Service: world.ServiceNames[rng.Intn(3)], PortNum: 80})
			}
			rules = append(rules, r)
		}
		ing := world.Ingress(ns, world.IngressNames[perm[k]], []int{10, 15, 15, 15, 20}[rng.Intn(5)], rules...)
		if adversarial {
			id := advIdentities[advPerm[k]]
			ing.Namespace, ing.Name = id[0], id[1]
			ing.CreationTimestamp = world.Stamp(15)
		}
		if rng.Intn(3) == 0 {
			t := networking.IngressTLS{}
			for j, m := 0, 1+rng.Intn(2); j < m; j++ {
				if h := hostsPool[rng.Intn(len(hostsPool))]; h != "" {
					t.Hosts = append(t.Hosts, h)
				}
			}
			ing.Spec.TLS = append(ing.Spec.TLS, t)
		}
		ann := map[string]string{}
		for _, a := range [][]string{{"app-root", "/x", "/y"}, {"redirect-from", "r1.example", "r2.example"},
			{"redirect-from-regex", `^r[0-9]\.example$`, `^s[0-9]\.example$`}, {"balance-algorithm", "leastconn"}} {
			switch rng.Intn(5) {
			case 0:
				ann[c06.Prefixes[0]+a[0]] = a[1+rng.Intn(len(a)-1)]
			case 1:
				ann[c06.Prefixes[1]+a[0]] = a[1+rng.Intn(len(a)-1)]
			case 2:
				ann[c06.Prefixes[0]+a[0]] = a[1+rng.Intn(len(a)-1)]
				ann[c06.Prefixes[1]+a[0]] = a[1+rng.Intn(len(a)-1)]
			}
		}
		if len(ann) > 0 {
			ing.Annotations = ann
		}
		objs = append(objs, ing)
	}
	return c06.Stamp(objs)
}

func genHosts(rng *rand.Rand, i int) (string, interface{}, bool, error) {
	objs := genHostsCluster(rng)
	r := c06.Run{Dir: filepath.Join(workdir, "corr"), Opts: c06.Opts{WatchWithoutClass: true}, Objs: objs,
		Order: rng.Perm(len(objs)), ShuffleLists: i%2 == 1, Seed: int64(i)}
	res, err := c06.Exec(r, universe, true)
	if err != nil {
		return "", nil, false, err
	}
	defer res.Pipeline.Close()
	hosts := res.Pipeline.Config().Hosts().Items()
	var obs []string
	jobs := map[string]interface{}{}
	for _, h := range hx.SortedKeys(hosts) {
		host := hosts[h]
		obs = append(obs, hx.Tuple(hx.Str(h), hx.Tuple(hx.Str(host.RootRedirect), hx.Tuple(hx.Str(host.Redirect.RedirectHost), hx.Str(host.Redirect.RedirectHostRegex)))))
		jobs[h] = []string{host.RootRedirect, host.Redirect.RedirectHost, host.Redirect.RedirectHostRegex}
	}
	var ings []string
	var jings []interface{}
	claims := map[string]map[string]bool{}
	shared := false
	for _, idx := range r.Order {
		ing, ok := objs[idx].(*networking.Ingress)
		if !ok {
			continue
		}
		var rules, tls []string
		for _, rule := range ing.Spec.Rules {
			rules = append(rules, hx.Tuple(hx.Str(rule.Host), hx.Nat(len(rule.HTTP.Paths))))
		}
		for _, t := range ing.Spec.TLS {
			for _, h := range t.Hosts {
				tls = append(tls, hx.Str(h))
			}
		}
		ings = append(ings, fmt.Sprintf("{| hn_ns := %s; hn_name := %s; hn_stamp := %s; hn_rules := %s; hn_tls := %s; hn_ann := %s |}",
			hx.Str(ing.Namespace), hx.Str(ing.Name), hx.Z(ing.CreationTimestamp.Unix()), hx.List(rules), hx.List(tls), coqAnn(ing.Annotations)))
		jings = append(jings, map[string]interface{}{"name": ing.Namespace + "/" + ing.Name, "stamp": ing.CreationTimestamp.Unix(),
			"hosts": hostsOf(ing), "annotations": ing.Annotations})
		for _, key := range []string{"redirect-from", "redirect-from-regex", "app-root"} {
			if v, ok := annValue(ing, key); ok {
				for _, h := range hostsOf(ing) {
					if claims[key+"="+v] == nil {
						claims[key+"="+v] = map[string]bool{}
					}
					claims[key+"="+v][h] = true
					if len(claims[key+"="+v]) > 1 {
						shared = true
					}
				}
			}
		}
	}
	return fmt.Sprintf("CHosts @ID@ %s %s %s", coqStrs([]string{"haproxy-ingress.github.io", "ingress.kubernetes.io"}), hx.List(ings), hx.List(obs)),
		map[string]interface{}{"ingresses_in_api_order": jings, "observed_hosts": jobs}, shared, nil
}

// ---------------------------------------------------------------- driver

func correspondence(o *hx.Opts, rng *rand.Rand, res *hx.Result, cw *hx.CaseWriter) {
	add := func(kind, term string, js interface{}, nontrivial bool) {
		res.Seen(kind+":"+term, nontrivial)
		res.Count("corr_" + kind)
		if res.Distribution["corr_"+kind] <= 1 {
			res.Sample(8, map[string]interface{}{"corr_" + kind: js})
		}
		cw.Add(func(id int) string { return strings.Replace(term, "@ID@", hx.N(id), 1) }, map[string]interface{}{"kind": kind, "case": js})
	}
	for i, n := 0, o.Count(240, 3000); i < n; i++ {
		t, js, nt := genSort(rng)
		add("sort", t, js, nt)
	}
	for i, n := 0, o.Count(300, 4000); i < n; i++ {
		t, js, nt := genKeys(rng)
		add("keys", t, js, nt)
	}
	for i, n := 0, o.Count(300, 4000); i < n; i++ {
		t, js, nt := genMapper(rng)
		add("mapper", t, js, nt)
	}
	for i, n := 0, o.Count(100, 1500); i < n; i++ {
		t, js, nt, err := genHosts(rng, i)
		if err != nil {
			res.Count("corr_hosts_error")
			res.Fail(hx.Failure{Key: "C06/update-error", What: "a pipeline of the correspondence failed: " + err.Error(), Input: js})
			continue
		}
		add("hosts", t, js, nt)
	}
	correspondence2(o, rng, res, add)
}
