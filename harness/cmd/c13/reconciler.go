package main

// Reconciler cases: EVERY producer of reconciliation requests of the new controller on the
// reconciler's real queue and real IngressReconcilerRateLimiter (hook
// reconciler.VerifNewReconcilerQueue: same constructors as SetupWithManager, fake clock),
// in virtual time:
//   - watcher notifications through the real handlers (partial: Ingress, Secret, generic
//     events; full: Gateway API objects; rejected by the predicates: Pod create),
//   - IngressReconciler.leaderChanged(true / false),
//   - the outcome of Reconcile as controller-runtime handles it: error -> AddRateLimited,
//     RequeueAfter (what Reconcile really returns on failure: ReloadRetry) -> Forget +
//     AddAfter, success -> Forget; then Done.
// The worker is played by the harness. Items: 0 = rparam{fullsync:false}, 1 = {true}.
// The model sees every request that must go through the limiter as `Arrive item`, whatever
// its source, and the direct AddAfter as `Retry item d`.

import (
	"context"
	"errors"
	"fmt"
	"math/rand"
	"time"

	api "k8s.io/api/core/v1"
	networking "k8s.io/api/networking/v1"
	metav1 "k8s.io/apimachinery/pkg/apis/meta/v1"
	clocktesting "k8s.io/utils/clock/testing"
	"sigs.k8s.io/controller-runtime/pkg/client"
	gatewayv1 "sigs.k8s.io/gateway-api/apis/v1"
	gatewayv1alpha2 "sigs.k8s.io/gateway-api/apis/v1alpha2"
	gatewayv1beta1 "sigs.k8s.io/gateway-api/apis/v1beta1"

	"github.com/jcmoraisjr/haproxy-ingress/pkg/controller/config"
	"github.com/jcmoraisjr/haproxy-ingress/pkg/controller/reconciler"
)

type rrun struct {
	*qrun
	requests [][3]int64 // instant, needs a full run (1/0), index of the step
	readies  []int64    // instants at which an item became ready for the worker
	bypassAt int64      // instant of the first direct AddAfter (-1: none)
	problem  string
}

var rSources = []string{"ingress", "ingress", "secret", "gateway", "gateway", "generic", "rejected", "leader", "leader", "leader", "unleader"}

func genReconciler(rng *rand.Rand) qinput {
	in := qinput{Reconciler: true, Kind: kReconcil, Items: 2}
	in.Rate = qRates[rng.Intn(len(qRates))]
	in.WaitNs = qWaits[rng.Intn(len(qWaits))]
	delta := int64(time.Duration(float64(time.Second) / in.Rate))
	in.RetryNs = []int64{30 * ms, delta / 2 / ms * ms, delta + 50*ms}[rng.Intn(3)] // on the 1 ms grid
	maxD := delta / 3
	if rng.Intn(5) == 0 {
		maxD = 0
	}
	n := 3 + rng.Intn(12)
	for i := 0; i < n; i++ {
		var g int64
		switch rng.Intn(6) {
		case 0:
			g = 0
		case 1:
			g = ms * rng.Int63n(30)
		case 2:
			g = delta + ms*(rng.Int63n(40)-20)
		case 3:
			g = ms * rng.Int63n(delta/ms+1)
		case 4:
			g = delta*2 + in.WaitNs + ms*rng.Int63n(50)
		case 5:
			g = in.WaitNs + ms*(rng.Int63n(20)-10)
		}
		if g < 0 {
			g = 0
		}
		in.Gaps = append(in.Gaps, g)
		in.Sources = append(in.Sources, rSources[rng.Intn(len(rSources))])
		in.Ties = append(in.Ties, rng.Intn(3))
		d := int64(0)
		if maxD > 0 {
			d = ms * rng.Int63n(maxD/ms+1)
		}
		in.Durations = append(in.Durations, d)
		switch r := rng.Intn(12); {
		case r == 0:
			in.Outcomes = append(in.Outcomes, "err")
		case r == 1:
			in.Outcomes = append(in.Outcomes, "requeue")
		default:
			in.Outcomes = append(in.Outcomes, "ok")
		}
	}
	return in
}

func rcorpus() []qinput {
	return []qinput{
		// leadership acquired 100 ms after a full reconciliation was released (rate 2/s, wait 50 ms):
		// the leader's full sync must wait for the end of the time frame (550 ms), not run at 150 ms
		{Reconciler: true, Kind: kReconcil, Rate: 2, WaitNs: 50 * ms, Items: 2, RetryNs: 300 * ms,
			Gaps: []int64{0, 150 * ms, 900 * ms}, Sources: []string{"gateway", "leader", "ingress"}, Durations: []int64{10 * ms}, Outcomes: []string{"ok"}, Ties: []int{0, 0, 0}},
		// leadership acquired while a full sync is scheduled: coalesced into it
		{Reconciler: true, Kind: kReconcil, Rate: 2, WaitNs: 50 * ms, Items: 2, RetryNs: 300 * ms,
			Gaps: []int64{0, 100 * ms, 20 * ms, 10 * ms}, Sources: []string{"ingress", "gateway", "leader", "unleader"}, Durations: []int64{10 * ms}, Outcomes: []string{"ok"}, Ties: []int{0, 0, 0, 0}},
		// failing reconciliations: error and RequeueAfter
		{Reconciler: true, Kind: kReconcil, Rate: 4, WaitNs: 20 * ms, Items: 2, RetryNs: 100 * ms,
			Gaps: []int64{0, 400 * ms, 600 * ms}, Sources: []string{"ingress", "gateway", "secret"}, Durations: []int64{20 * ms}, Outcomes: []string{"err", "ok", "requeue", "ok"}, Ties: []int{0, 0, 0}},
	}
}

var errReconcile = errors.New("reconcile failed (harness)")

func runReconciler(in qinput) *rrun {
	lin := input{Kind: kReconcil, Rate: in.Rate, WaitNs: in.WaitNs}
	q := &qrun{in: in, vlast: farPast}
	r := &rrun{qrun: q, bypassAt: -1}
	r.delta = int64(time.Duration(float64(time.Second) / in.Rate))
	r.base = time.Unix(1700000000, 0)
	r.fc = clocktesting.NewFakeClock(r.base)
	r.tw = &twin{wait: map[int]*wentry{}, dirty: map[int]bool{}}
	_ = lin
	cfg := &config.Config{RateLimitUpdate: in.Rate, WaitBeforeUpdate: time.Duration(in.WaitNs), ReloadRetry: time.Duration(in.RetryNs), HasGatewayV1: true}
	vw := reconciler.VerifNewWatchers(context.Background(), cfg, allValid{})
	b2i := func(b bool) int {
		if b {
			return 1
		}
		return 0
	}
	v := reconciler.VerifNewReconcilerQueue(context.Background(), cfg, vw, r.fc, func(fullsync bool, inner func() time.Duration) time.Duration {
		return r.consult(b2i(fullsync), inner)
	})
	defer r.release(v.ShutDown)
	r.l = &limiter{rl: v.Limiter(), delta: r.delta, wait: in.WaitNs}
	r.lenFn = v.Len

	di, oi, ti, seq := 0, 0, 0, 0
	nextDur := func() int64 {
		d := int64(0)
		if len(in.Durations) > 0 {
			d = in.Durations[di%len(in.Durations)]
			di++
		}
		return d
	}
	nextOutcome := func() string {
		o := "ok"
		if len(in.Outcomes) > 0 {
			o = in.Outcomes[oi%len(in.Outcomes)]
			oi++
		}
		return o
	}
	prevLen := 0
	noteReady := func(t int64) {
		n := v.Len()
		for k := prevLen; k < n; k++ {
			r.readies = append(r.readies, t)
		}
		prevLen = n
	}
	noteAdd := func(t int64, item int, d int64) {
		if d <= 0 {
			r.tw.add(item)
		} else {
			r.tw.insert(item, t+d)
		}
	}
	rec := func(ev qevent, item int) {
		n := r.await(0)
		r.events = append(r.events, ev)
		r.obs = append(r.obs, qobs{Len: n, Item: item})
		if ev.Ev == "arrive" || ev.Ev == "forget" {
			r.obs[len(r.obs)-1].Last = r.lastObs()
		}
	}
	// finish calls the hook's Finish (controller-runtime's handling of the outcome) with the
	// limiter's `last` set for the current virtual instant, and keeps whatever the limiter's
	// Forget -- called inside -- did to it
	finish := func(at int64, full bool, requeue time.Duration, err error) {
		r.mu.Lock()
		vl := r.vlast
		r.mu.Unlock()
		after := vl
		if err == nil {
			after = r.l.around(vl, at, func() { v.Finish(full, requeue, err) })
		} else {
			v.Finish(full, requeue, err)
			return
		}
		if after != vl {
			r.mu.Lock()
			r.vlast = snap(after)
			r.mu.Unlock()
		}
	}
	get := func(t int64) {
		r.setTime(t)
		quiesce()
		got := -1
		if v.Len() > 0 {
			full, _ := v.Get()
			got = b2i(full)
		}
		dur := nextDur()
		if len(r.tw.fifo) > 0 {
			i := r.tw.fifo[0]
			r.tw.fifo = r.tw.fifo[1:]
			delete(r.tw.dirty, i)
		}
		r.tw.proc, r.tw.pitem, r.tw.pend = true, got, t+dur
		if got >= 0 {
			r.runs = append(r.runs, [2]int64{int64(got), t})
		} else if r.stuck == "" {
			r.stuck = fmt.Sprintf("at %s a reconciliation was due but the real queue was empty", dur2(t))
		}
		rec(qevent{T: t, Ev: "get", D: dur}, got)
		prevLen = v.Len()
	}
	// the worker takes whatever the REAL queue holds as soon as it is idle
	serve := func(t int64) {
		quiesce()
		noteReady(t)
		if !r.tw.proc && v.Len() > 0 && r.stuck == "" {
			get(t)
		}
	}
	internal := func(kind string, item int, at int64) {
		switch kind {
		case "fire":
			r.tw.pop(item)
			r.tw.now = at
			r.tw.add(item)
			r.setTime(at)
			rec(qevent{T: at, Ev: "fire", Item: item}, -1)
			if k, _, at2, ok := r.tw.due(); ok && k == "fire" && at2 <= at {
				r.obs[len(r.obs)-1].Len = -1
				return
			}
			serve(at)
		case "get":
			serve(at)
			if !r.tw.proc && r.stuck == "" {
				r.stuck = fmt.Sprintf("at %s a reconciliation was due but the real queue was empty", dur2(at))
			}
		case "done":
			r.setTime(at)
			out := nextOutcome()
			if out == "err" && r.vlast != farPast && (at == r.vlast || at == r.vlast+r.delta) {
				out = "ok"
			}
			i := r.tw.pitem
			calls := r.whenCalls
			switch out {
			case "err":
				finish(at, i == 1, 0, errReconcile)
				if r.whenCalls != calls {
					noteAdd(at, i, r.lastD)
				}
				r.requests = append(r.requests, [3]int64{at, int64(i), -1})
				r.events = append(r.events, qevent{T: at, Ev: "arrive", Item: i})
				r.obs = append(r.obs, qobs{Len: -1, Item: -1, Last: r.lastObs()})
			case "requeue":
				finish(at, i == 1, time.Duration(in.RetryNs), nil)
				r.events = append(r.events, qevent{T: at, Ev: "forget", Item: i})
				r.obs = append(r.obs, qobs{Len: -1, Item: -1, Last: r.lastObs()})
				noteAdd(at, i, in.RetryNs)
				if r.bypassAt < 0 {
					r.bypassAt = at
				}
				r.requests = append(r.requests, [3]int64{at, int64(i), -1})
				r.events = append(r.events, qevent{T: at, Ev: "retry", Item: i, D: in.RetryNs})
				r.obs = append(r.obs, qobs{Len: -1, Item: -1})
			default:
				finish(at, i == 1, 0, nil)
				r.events = append(r.events, qevent{T: at, Ev: "forget", Item: i})
				r.obs = append(r.obs, qobs{Len: -1, Item: -1, Last: r.lastObs()})
			}
			r.tw.proc = false
			if r.tw.dirty[i] {
				r.tw.fifo = append(r.tw.fifo, i)
			}
			rec(qevent{T: at, Ev: "done"}, -1)
			serve(at)
		}
	}

	t := int64(0)
	for k, gap := range in.Gaps {
		t += gap
		for r.vlast != farPast && (t == r.vlast || t == r.vlast+r.delta) {
			t += ms
		}
		tie := 0
		if ti < len(in.Ties) {
			tie = in.Ties[ti]
			ti++
		}
		for {
			for steps := 0; steps < 1000 && r.stuck == ""; steps++ {
				kind, item, at, ok := r.tw.due()
				if !ok || at > t {
					break
				}
				if at == t && kind != "fire" {
					if tie <= 0 {
						break
					}
					tie--
				}
				internal(kind, item, at)
			}
			if r.stuck == "" && r.vlast != farPast && (t == r.vlast || t == r.vlast+r.delta) {
				t += ms
				continue
			}
			break
		}
		if r.stuck != "" {
			break
		}
		src := "ingress"
		if k < len(in.Sources) {
			src = in.Sources[k]
		}
		r.setTime(t)
		seq++
		name := fmt.Sprintf("o%04d", seq)
		meta := metav1.ObjectMeta{Namespace: "ns1", Name: name}
		calls, lenBefore := r.whenCalls, v.Len()
		request, item := false, 0
		switch src {
		case "ingress":
			request = v.Fire("create", nil, &networking.Ingress{ObjectMeta: meta}) > 0
		case "secret":
			o := &api.Secret{ObjectMeta: meta}
			request = v.Fire("update", o, o) > 0
		case "generic":
			request = v.Fire("generic", nil, &api.Secret{ObjectMeta: meta}) > 0
		case "gateway":
			request, item = v.Fire("create", nil, &gatewayv1.Gateway{ObjectMeta: meta}) > 0, 1
		case "rejected":
			request = v.Fire("create", nil, &api.Pod{ObjectMeta: meta}) > 0
		case "leader":
			request, item = v.Running(), 1
			v.LeaderChanged(true)
		case "unleader":
			v.LeaderChanged(false)
		}
		quiesce()
		if !request {
			if r.whenCalls != calls || v.Len() != lenBefore {
				r.problem = fmt.Sprintf("step %d (%s at %s) is not a request for a reconciliation but the queue was given one", k, src, dur2(t))
			}
			continue
		}
		if r.whenCalls != calls {
			noteAdd(t, r.lastItem, r.lastD)
		}
		r.requests = append(r.requests, [3]int64{t, int64(item), int64(k)})
		rec(qevent{T: t, Ev: "arrive", Item: item}, -1)
		serve(t)
	}
	for steps := 0; steps < 1000 && r.stuck == ""; steps++ {
		kind, item, at, ok := r.tw.due()
		if !ok {
			break
		}
		internal(kind, item, at)
	}
	serve(r.vnow)
	return r
}

// allValid is the IsValidResource of these cases: every object belongs to this controller.
type allValid struct{}

func (allValid) IsValidGatewayA2(*gatewayv1alpha2.Gateway) bool           { return true }
func (allValid) IsValidGatewayClassA2(*gatewayv1alpha2.GatewayClass) bool { return true }
func (allValid) IsValidGatewayB1(*gatewayv1beta1.Gateway) bool            { return true }
func (allValid) IsValidGatewayClassB1(*gatewayv1beta1.GatewayClass) bool  { return true }
func (allValid) IsValidGateway(*gatewayv1.Gateway) bool                   { return true }
func (allValid) IsValidGatewayClass(*gatewayv1.GatewayClass) bool         { return true }
func (allValid) IsValidIngress(*networking.Ingress) bool                  { return true }
func (allValid) IsValidIngressClass(*networking.IngressClass) bool        { return true }

// roracle judges the release instants of ALL items, whatever asked for them:
//   - two instants at which an item became ready for the worker are the same instant or at
//     least 1/rate-limit-update apart (up to the first direct AddAfter retry, which bypasses the
//     limiter by design);
//   - every request is followed by a reconciliation starting at or after it, a full one when
//     the request needs a full sync (Gateway API object, leadership acquired);
//   - nothing asks for a reconciliation that is not a request (leadership lost, rejected events).
func roracle(r *rrun) (key, what string) {
	if r.problem != "" {
		return "unexpected-request", r.problem
	}
	for i := 1; i < len(r.readies); i++ {
		a, b := r.readies[i-1], r.readies[i]
		if r.bypassAt >= 0 && b >= r.bypassAt {
			break
		}
		if b != a && b-a < r.delta {
			return "spacing", fmt.Sprintf("items were released to the worker at %s and %s, %s apart; 1/rate-limit-update is %s", dur(a), dur(b), dur(b-a), dur(r.delta))
		}
	}
	for _, rq := range r.requests {
		ok := false
		for _, x := range r.runs {
			if x[1] >= rq[0] && (rq[1] == 0 || x[0] == 1) {
				ok = true
			}
		}
		if !ok {
			kind := "a"
			if rq[1] == 1 {
				kind = "a full"
			}
			return "dropped", fmt.Sprintf("the request at %s was not followed by %s reconciliation", dur(rq[0]), kind)
		}
	}
	if r.stuck != "" {
		return "stuck", r.stuck
	}
	return "", ""
}

var _ client.Object = (*api.Pod)(nil)
