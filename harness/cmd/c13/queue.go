package main

// Queue cases: the REAL client-go rate-limiting queue (on a fake clock) fed by the REAL
// limiter (driven in virtual time through the hook), with the single worker played by the
// harness: it takes an item as soon as one is queued and it is idle, and gives it back
// after a chosen callback duration. All instants are multiples of 1 ms, so what the limiter
// returns (which carries the sub-millisecond instant of its own clock read) is snapped to the
// millisecond grid.
//
// A small twin of the queue bookkeeping exists here ONLY to generate histories the model
// accepts (an internal event exactly when it is due) and to know what to wait for after the
// fake clock moved (the waiting loop of client-go is a goroutine); verdicts come from Coq
// (Corr_C13.qcase_ok) and from the direct oracle below.

import (
	"fmt"
	"math/rand"
	"runtime"
	"strings"
	"sync"
	"time"

	k8swq "k8s.io/client-go/util/workqueue"
	clocktesting "k8s.io/utils/clock/testing"

	"verif/harness/lib/hx"
)

type qevent struct {
	T    int64  `json:"t"`
	Ev   string `json:"ev"` // arrive | fire | get | done
	Item int    `json:"item,omitempty"`
	D    int64  `json:"d,omitempty"` // get: callback duration
}

type qobs struct {
	Len  int    `json:"len"`            // queue.Len() after the event
	Item int    `json:"item"`           // get: the item handed over, else -1
	Last *int64 `json:"last,omitempty"` // after a When (arrive) or a Forget: the limiter's `last`, virtual ns
}

// qinput is a replayable queue scenario: the setting and the arrivals / durations; the
// internal events are derived (they happen when due).
type qinput struct {
	Kind       string  `json:"kind"`
	IntervalNs int64   `json:"interval_ns"`
	Rate       float64 `json:"rate"`
	WaitNs     int64   `json:"wait_ns"`
	Items      int     `json:"items"`
	// Script: arrivals as (gap to wait after the previous arrival, item); between arrivals the
	// internal events run when due. Durations are consumed by successive hand-overs.
	Gaps      []int64 `json:"gaps_ns"`
	Who       []int   `json:"who"`
	Durations []int64 `json:"durations_ns"`
	// Ties: for an arrival falling on the instant of due internal events, how many of those
	// happen before it (consumed in order).
	Ties []int `json:"ties"`
	// Wrapper: drive the real WorkQueue (New/Start/Add/process) instead of the bare client-go
	// queue; Fails: which callbacks return an error (consumed by successive hand-overs).
	Wrapper bool   `json:"wrapper,omitempty"`
	Fails   []bool `json:"fails,omitempty"`
	// Reconciler: drive the reconciler's own queue with all its producers of requests:
	// Sources per arrival (ingress | secret | generic | gateway | rejected | leader | unleader),
	// Outcomes of successive reconciliations (ok | err | requeue), RetryNs = ReloadRetry.
	Reconciler bool     `json:"reconciler,omitempty"`
	Sources    []string `json:"sources,omitempty"`
	Outcomes   []string `json:"outcomes,omitempty"`
	RetryNs    int64    `json:"retry_ns,omitempty"`
}

type wentry struct {
	deadline int64
	seq      int
}

type twin struct {
	now   int64
	wait  map[int]*wentry
	heap  []int // the items of `wait` in the order of client-go's waitForPriorityQueue (container/heap, at most two entries)
	fifo  []int
	dirty map[int]bool
	proc  bool
	pitem int
	pend  int64
	seq   int
}

// insert is delaying_queue.go insert(): one entry per item, the earliest deadline wins; the
// position in the heap follows container/heap (Push: append + up; Fix: up / down), which
// for at most two entries means: the second one goes to the root only when strictly earlier.
func (tw *twin) insert(item int, deadline int64) {
	if e, ok := tw.wait[item]; ok {
		if deadline < e.deadline {
			e.deadline = deadline
			if len(tw.heap) == 2 && tw.heap[1] == item && deadline < tw.wait[tw.heap[0]].deadline {
				tw.heap[0], tw.heap[1] = tw.heap[1], tw.heap[0]
			}
		}
		return
	}
	tw.seq++
	tw.wait[item] = &wentry{deadline: deadline, seq: tw.seq}
	tw.heap = append(tw.heap, item)
	if n := len(tw.heap); n == 2 && deadline < tw.wait[tw.heap[0]].deadline {
		tw.heap[0], tw.heap[1] = tw.heap[1], tw.heap[0]
	}
}

// pop removes the entry of an item that fired (always the root).
func (tw *twin) pop(item int) {
	delete(tw.wait, item)
	for k, x := range tw.heap {
		if x == item {
			tw.heap = append(tw.heap[:k], tw.heap[k+1:]...)
			break
		}
	}
}

func (tw *twin) add(i int) {
	if tw.dirty[i] {
		return
	}
	tw.dirty[i] = true
	if tw.proc && tw.pitem == i {
		return
	}
	tw.fifo = append(tw.fifo, i)
}

// due returns the next internal event: kind, item, instant; ok=false when nothing is due.
// Timers go first among the events of one instant: the real waiting loop fires as soon as
// the (fake) clock shows the deadline, whatever the harness meant to do at that instant.
func (tw *twin) due() (kind string, item int, at int64, ok bool) {
	if len(tw.heap) > 0 {
		kind, item, at, ok = "fire", tw.heap[0], tw.wait[tw.heap[0]].deadline, true
	}
	if tw.proc {
		if !ok || tw.pend < at {
			kind, item, at, ok = "done", tw.pitem, tw.pend, true
		}
	} else if len(tw.fifo) > 0 {
		if !ok || tw.now < at {
			kind, item, at, ok = "get", tw.fifo[0], tw.now, true
		}
	}
	return
}

type qrun struct {
	in          qinput
	delta       int64
	l           *limiter
	vlast       int64
	vnow        int64
	fc          *clocktesting.FakeClock
	base        time.Time
	q           k8swq.TypedRateLimitingInterface[int]
	tw          *twin
	events      []qevent
	obs         []qobs
	grants      [][3]int64 // item, arrival, grant
	runs        [][2]int64 // item, start
	lastD       int64
	stuck       string
	mu          sync.Mutex
	whenCalls   int
	forgetCalls int
	lastItem    int
	lenFn       func() int // reconciler cases: the queue lives behind the hook
	adds        [][2]int64 // wrapper cases: item, instant of WorkQueue.Add / of a failed callback
}

// When is the limiter handed to client-go: the real limiter seen from the current virtual instant.
func (r *qrun) When(item int) time.Duration { return r.consult(item, nil) }

// consult runs the real limiter once, seen from the current virtual instant; inner, when
// given, is the real When to call (the reconciler hook hands it over per item).
func (r *qrun) consult(item int, inner func() time.Duration) time.Duration {
	r.mu.Lock()
	defer r.mu.Unlock()
	r.whenCalls++
	r.lastItem = item
	if inner != nil {
		r.l.when = inner
	}
	st := r.l.call(r.vlast, r.vnow)
	if st.Width > int64(maxWidth) && r.stuck == "" {
		r.stuck = "clock bracket wider than 200us"
	}
	g := snap(r.vnow + st.Delay)
	r.vlast = snap(st.After)
	if st.After == farPast {
		r.vlast = farPast
	}
	d := g - r.vnow
	if st.Delay <= 0 {
		d = st.Delay
		g = r.vnow
	}
	r.lastD = d
	r.grants = append(r.grants, [3]int64{int64(item), r.vnow, g})
	return time.Duration(d)
}

// release shuts the queue down and lets the fake clock tick once more: client-go's
// updateUnfinishedWorkLoop only notices the shutdown on a tick of its ticker, which on a fake
// clock never comes by itself (the goroutine would stay for the rest of the run).
func (r *qrun) release(shutdown func()) {
	shutdown()
	r.fc.Step(2 * time.Second)
}

// Forget is the limiter handed to client-go forwarding to the REAL limiter's Forget, seen
// from the current virtual instant; whatever it does to `last` is kept (snapped to the grid).
func (r *qrun) Forget(int) {
	r.mu.Lock()
	defer r.mu.Unlock()
	r.forgetCalls++
	if r.l.forget != nil {
		if v := r.l.around(r.vlast, r.vnow, r.l.forget); v != r.vlast {
			r.vlast = snap(v)
		}
	}
}

// lastObs is the limiter's `last` now, for the observation of an arrive / forget event.
func (r *qrun) lastObs() *int64 {
	r.mu.Lock()
	defer r.mu.Unlock()
	v := r.vlast
	return &v
}
func (r *qrun) NumRequeues(int) int { return 0 }

func snap(x int64) int64 {
	if x >= 0 {
		return (x + ms/2) / ms * ms
	}
	return -((-x + ms/2) / ms * ms)
}

// quiesce waits until the waiting loop of the delaying queue is blocked in its select again,
// i.e. it has consumed what AddAfter sent and handled the timers the fake clock fired (both
// make the goroutine runnable before returning to the caller). Model-free synchronisation.
var stackBuf = make([]byte, 1<<20) // goroutine dumps (single driver goroutine)

func quiesce() {
	buf := stackBuf
	for i := 0; i < 200000; i++ {
		n := runtime.Stack(buf, true)
		found, ok := false, true
		for _, g := range strings.Split(string(buf[:n]), "\n\n") {
			if !strings.Contains(g, "waitingLoop") {
				continue
			}
			found = true
			hdr := g
			if j := strings.Index(g, "\n"); j >= 0 {
				hdr = g[:j]
			}
			if !strings.Contains(hdr, "[select") {
				ok = false
			}
		}
		if found && ok {
			return
		}
		time.Sleep(10 * time.Microsecond)
	}
}

func (r *qrun) await(int) int {
	quiesce()
	if r.lenFn != nil {
		return r.lenFn()
	}
	return r.q.Len()
}

func (r *qrun) setTime(t int64) {
	r.vnow = t
	r.tw.now = t
	r.fc.SetTime(r.base.Add(time.Duration(t)))
}

func (r *qrun) record(ev qevent, item int) {
	n := r.await(0)
	r.events = append(r.events, ev)
	r.obs = append(r.obs, qobs{Len: n, Item: item})
	if ev.Ev == "arrive" || ev.Ev == "forget" {
		r.obs[len(r.obs)-1].Last = r.lastObs()
	}
	if ev.Ev == "get" && item < 0 && r.stuck == "" {
		r.stuck = fmt.Sprintf("at %s an item was due to be handed over but the real queue was empty", dur(ev.T))
	}
}

func (r *qrun) arrive(t int64, item int) {
	r.setTime(t)
	r.q.AddRateLimited(item)
	d := r.lastD
	if d <= 0 {
		r.tw.add(item)
	} else {
		r.tw.insert(item, t+d)
	}
	r.record(qevent{T: t, Ev: "arrive", Item: item}, -1)
}

func (r *qrun) internal(kind string, item int, at int64, dur int64) {
	switch kind {
	case "fire":
		r.tw.pop(item)
		r.tw.now = at
		r.tw.add(item)
		r.setTime(at)
		r.record(qevent{T: at, Ev: "fire", Item: item}, -1)
		// the real waiting loop pops every ready entry in one go: between two timers of the
		// same instant there is nothing to observe
		if k, _, at2, ok := r.tw.due(); ok && k == "fire" && at2 <= at {
			r.obs[len(r.obs)-1].Len = -1
		}
	case "get":
		r.setTime(at)
		got := -1
		if r.await(len(r.tw.fifo)) > 0 {
			it, _ := r.q.Get()
			got = it
		}
		i := r.tw.fifo[0]
		r.tw.fifo = r.tw.fifo[1:]
		delete(r.tw.dirty, i)
		r.tw.proc, r.tw.pitem, r.tw.pend = true, i, at+dur
		if got >= 0 {
			r.tw.pitem = got // give back what was really taken
			r.runs = append(r.runs, [2]int64{int64(got), at})
		}
		r.record(qevent{T: at, Ev: "get", D: dur}, got)
	case "done":
		// the worker's protocol after a successful callback: Forget, then Done
		r.setTime(at)
		r.q.Forget(r.tw.pitem)
		r.record(qevent{T: at, Ev: "forget", Item: r.tw.pitem}, -1)
		r.obs[len(r.obs)-1].Len = -1
		r.q.Done(r.tw.pitem)
		i := r.tw.pitem
		r.tw.proc = false
		if r.tw.dirty[i] {
			r.tw.fifo = append(r.tw.fifo, i)
		}
		r.record(qevent{T: at, Ev: "done"}, -1)
	}
}

func runQueue(in qinput) *qrun {
	lin := input{Kind: in.Kind, IntervalNs: in.IntervalNs, Rate: in.Rate, WaitNs: in.WaitNs}
	r := &qrun{in: in, l: newLimiter(lin), vlast: farPast}
	r.delta = r.l.delta
	r.base = time.Unix(1700000000, 0)
	r.fc = clocktesting.NewFakeClock(r.base)
	r.q = k8swq.NewTypedRateLimitingQueueWithConfig[int](r, k8swq.TypedRateLimitingQueueConfig[int]{Clock: r.fc})
	defer r.release(r.q.ShutDown)
	r.tw = &twin{wait: map[int]*wentry{}, dirty: map[int]bool{}}
	di, ti := 0, 0
	nextDur := func() int64 {
		d := int64(0)
		if len(in.Durations) > 0 {
			d = in.Durations[di%len(in.Durations)]
			di++
		}
		return d
	}
	t := int64(0)
	for k, gap := range in.Gaps {
		t += gap
		// keep the arrival 1 ms away from the two branch boundaries of the limiter, and never
		// on the instant of a timer that has not fired yet (the real waiting loop fires as soon
		// as the clock shows that instant: no control over the order)
		for r.vlast != farPast && (t == r.vlast || t == r.vlast+r.delta) {
			t += ms
		}
		tie := 0
		if ti < len(in.Ties) {
			tie = in.Ties[ti]
			ti++
		}
		// everything due before t, every timer due at t, and `tie` of the other events due at t
		for steps := 0; steps < 1000 && r.stuck == ""; steps++ {
			kind, item, at, ok := r.tw.due()
			if !ok || at > t {
				break
			}
			if at == t && kind != "fire" {
				if tie <= 0 {
					break
				}
				tie--
			}
			dur := int64(0)
			if kind == "get" {
				dur = nextDur()
			}
			r.internal(kind, item, at, dur)
		}
		if r.stuck != "" {
			break
		}
		who := 0
		if in.Items > 1 && k < len(in.Who) {
			who = in.Who[k] % in.Items
		}
		r.arrive(t, who)
	}
	// drain: everything that is due eventually happens
	for steps := 0; steps < 1000 && r.stuck == ""; steps++ {
		kind, item, at, ok := r.tw.due()
		if !ok {
			break
		}
		dur := int64(0)
		if kind == "get" {
			dur = nextDur()
		}
		r.internal(kind, item, at, dur)
	}
	return r
}

// qoracle checks the property on what the real limiter + queue did (single kind of item and
// callbacks shorter than the interval): hand-overs at least an interval apart, every
// notification followed by a hand-over no later than its grant.
func qoracle(r *qrun, maxD int64) (key, what string) {
	if r.stuck != "" {
		return "stuck", r.stuck
	}
	perKind := map[int64][]int64{}
	for _, x := range r.runs {
		perKind[x[0]] = append(perKind[x[0]], x[1])
	}
	if r.in.Items == 1 && maxD < r.delta {
		for _, rs := range perKind {
			for i := 1; i < len(rs); i++ {
				if rs[i]-rs[i-1] < r.delta {
					return "spacing", fmt.Sprintf("hand-overs at %s and %s are %s apart, interval %s", dur(rs[i-1]), dur(rs[i]), dur(rs[i]-rs[i-1]), dur(r.delta))
				}
			}
		}
	}
	// no notification dropped (any number of kinds): a hand-over of the item at or after the arrival
	for _, g := range r.grants {
		ok := false
		for _, s := range perKind[g[0]] {
			if s >= g[1] && (s <= g[2] || r.in.Items > 1 || maxD >= r.delta) {
				ok = true
			}
		}
		if !ok {
			return "dropped", fmt.Sprintf("notification of item %d at %s (grant %s) was not followed by a hand-over in time", g[0], dur(g[1]), dur(g[2]))
		}
	}
	return "", ""
}

// minSameKindGap: smallest distance between two hand-overs of the same item.
func minSameKindGap(r *qrun) int64 {
	perKind := map[int64][]int64{}
	for _, x := range r.runs {
		perKind[x[0]] = append(perKind[x[0]], x[1])
	}
	min := int64(1<<62 - 1)
	for _, rs := range perKind {
		for i := 1; i < len(rs); i++ {
			if rs[i]-rs[i-1] < min {
				min = rs[i] - rs[i-1]
			}
		}
	}
	return min
}

var qIntervals = []int64{100 * ms, 250 * ms, 400 * ms, 1000 * ms, 2000 * ms}
var qRates = []float64{0.5, 1, 2, 4, 5, 8, 10}
var qWaits = []int64{0, 20 * ms, 200 * ms, 50 * ms, 300 * ms}

func genQueue(rng *rand.Rand) qinput {
	in := qinput{Items: 1}
	if rng.Intn(2) == 0 {
		in.Kind = kReload
		in.IntervalNs = qIntervals[rng.Intn(len(qIntervals))]
	} else {
		in.Kind = kReconcil
		in.Rate = qRates[rng.Intn(len(qRates))]
		in.WaitNs = qWaits[rng.Intn(len(qWaits))]
		if rng.Intn(2) == 0 {
			in.Items = 2
		}
	}
	delta := newLimiter(input{Kind: in.Kind, IntervalNs: in.IntervalNs, Rate: in.Rate, WaitNs: in.WaitNs}).delta
	maxD := delta * 3 / 4
	switch rng.Intn(6) {
	case 0:
		maxD = delta * 2 // callbacks longer than the interval: outside the theorems, inside the model
	case 1:
		maxD = 0
	}
	n := 3 + rng.Intn(12)
	for i := 0; i < n; i++ {
		var g int64
		switch rng.Intn(6) {
		case 0:
			g = 0
		case 1:
			g = ms * rng.Int63n(30)
		case 2:
			g = delta + ms*(rng.Int63n(40)-20)
		case 3:
			g = ms * rng.Int63n(delta/ms+1)
		case 4:
			g = delta*2 + in.WaitNs + ms*rng.Int63n(50)
		case 5:
			g = in.WaitNs + ms*(rng.Int63n(20)-10)
		}
		if g < 0 {
			g = 0
		}
		in.Gaps = append(in.Gaps, g)
		in.Who = append(in.Who, rng.Intn(2))
		in.Ties = append(in.Ties, rng.Intn(3))
		d := int64(0)
		if maxD > 0 {
			d = ms * rng.Int63n(maxD/ms+1)
		}
		in.Durations = append(in.Durations, d)
	}
	return in
}

func qcorpus() []qinput {
	return []qinput{
		// reloads that take time with requests arriving while they run (interval 600 ms, reload
		// 150 ms, requests at 0, 80 ms, 650 ms): the worker calls the limiter's Forget after each
		// reload; a Forget that moves `last` lets the third reload start 151 ms after the second
		{Kind: kReload, IntervalNs: 600 * ms, Items: 1, Gaps: []int64{0, 80 * ms, 570 * ms}, Durations: []int64{150 * ms}, Ties: []int{0, 0, 0}},
		// the two-kinds scenario of Proofs/Queue.v two_kinds_history (interval 2 s, wait 200 ms, callbacks 500 ms)
		{Kind: kReconcil, Rate: 0.5, WaitNs: 200 * ms, Items: 2, Gaps: []int64{0, 100 * ms, 900 * ms}, Who: []int{0, 1, 1}, Durations: []int64{500 * ms}, Ties: []int{0, 0, 0}},
		{Kind: kReload, IntervalNs: 400 * ms, Items: 1, Gaps: []int64{0, 40 * ms, 380 * ms, 10 * ms, 500 * ms}, Durations: []int64{30 * ms}, Ties: []int{0, 0, 2, 0, 1}},
		{Kind: kReconcil, Rate: 0.5, WaitNs: 200 * ms, Items: 1, Gaps: []int64{0, 100 * ms, 150 * ms, 1900 * ms, 6850 * ms}, Durations: []int64{500 * ms, 300 * ms}, Ties: []int{0, 0, 0, 0, 0}},
	}
}

func coqQCase(id int, r *qrun, maxD int64) string {
	var evs, obs []string
	for k, e := range r.events {
		var ev string
		switch e.Ev {
		case "arrive":
			ev = fmt.Sprintf("Arrive %s", hx.Nat(e.Item))
		case "fire":
			ev = fmt.Sprintf("Fire %s", hx.Nat(e.Item))
		case "get":
			ev = fmt.Sprintf("Get %s", hx.Z(e.D))
		case "done":
			ev = "Done"
		case "retry":
			ev = fmt.Sprintf("Retry %s %s", hx.Nat(e.Item), hx.Z(e.D))
		case "forget":
			ev = fmt.Sprintf("Forget %s", hx.Nat(e.Item))
		}
		evs = append(evs, hx.Tuple(hx.Z(e.T), ev))
		o := r.obs[k]
		lst := "None"
		if o.Last != nil {
			lst = "(Some " + hx.Z(*o.Last) + ")"
		}
		obs = append(obs, hx.Tuple(hx.Z(int64(o.Len)), hx.Opt(o.Item >= 0, hx.Nat(o.Item)), lst))
	}
	return fmt.Sprintf("QC {| qid := %s; qreload := %s; qdelta := %s; qwait := %s; qD := %s; qevents := %s; qobs := %s |}",
		hx.N(id), hx.Bool(r.in.Kind == kReload), hx.Z(r.delta), hx.Z(r.in.WaitNs), hx.Z(maxD), hx.List(evs), hx.List(obs))
}

func maxDur(in qinput) int64 {
	m := int64(0)
	for _, d := range in.Durations {
		if d > m {
			m = d
		}
	}
	return m
}
