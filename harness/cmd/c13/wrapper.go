package main

// Wrapper cases: the REAL pkg/utils/workqueue.WorkQueue (New / Start / Add / process) in
// virtual time. workqueue.New builds its client-go queue on the real clock and offers no
// way to inject one, so the harness replaces the private `queue` field (reflect + unsafe,
// the field the hook VerifQueue reads) by the same kind of queue built on a fake clock and fed by
// the real limiter seen from the virtual instant (as in queue.go). The worker is the real
// process() goroutine started by Start(ctx); the callback is the harness's: it reports that
// it started and blocks until the harness, at the virtual instant start + duration, lets it
// return nil or an error.
//
// Protocol mapped on the events of Model/Queue.v: WorkQueue.Add = Arrive; the worker's
// Get is observed as the start of the callback; a callback returning nil (Forget + Done) =
// Done; a callback returning an error (AddRateLimited + Done) = Arrive then Done at the same
// instant.

import (
	"context"
	"errors"
	"fmt"
	"math/rand"
	"reflect"
	"runtime"
	"strings"
	"sync"
	"time"
	"unsafe"

	k8swq "k8s.io/client-go/util/workqueue"
	clocktesting "k8s.io/utils/clock/testing"

	"github.com/jcmoraisjr/haproxy-ingress/pkg/utils/workqueue"
)

// settle waits until the waiting loop of the delaying queue is blocked in its select and every
// worker (a goroutine inside WorkQueue.process) is blocked too: in Get (sync.Cond.Wait) or in
// the harness callback (select / chan receive).
func settle() bool {
	buf := stackBuf
	for i := 0; i < 300000; i++ {
		n := runtime.Stack(buf, true)
		loops, ok := 0, true
		for _, g := range strings.Split(string(buf[:n]), "\n\n") {
			isLoop := strings.Contains(g, "waitingLoop")
			isWorker := strings.Contains(g, ").process(")
			if !isLoop && !isWorker {
				continue
			}
			if isLoop {
				loops++
			}
			hdr := g
			if j := strings.Index(g, "\n"); j >= 0 {
				hdr = g[:j]
			}
			if isLoop && !strings.Contains(hdr, "[select") {
				ok = false
			}
			if isWorker && !(strings.Contains(hdr, "[select") || strings.Contains(hdr, "[chan receive") || strings.Contains(hdr, "[sync.Cond.Wait")) {
				ok = false
			}
		}
		if loops > 0 && ok {
			return true
		}
		time.Sleep(10 * time.Microsecond)
	}
	return false
}

// setQueue replaces the private client-go queue of a WorkQueue.
func setQueue(wq *workqueue.WorkQueue[int], q k8swq.TypedRateLimitingInterface[int]) {
	f := reflect.ValueOf(wq).Elem().FieldByName("queue")
	if !f.IsValid() {
		panic("WorkQueue has no field named queue")
	}
	reflect.NewAt(f.Type(), unsafe.Pointer(f.UnsafeAddr())).Elem().Set(reflect.ValueOf(q))
	if workqueue.VerifQueue(wq) != q {
		panic("could not replace the queue of the WorkQueue")
	}
}

var errCallback = errors.New("callback failed (harness)")

func runWrapper(in qinput) *qrun {
	lin := input{Kind: in.Kind, IntervalNs: in.IntervalNs, Rate: in.Rate, WaitNs: in.WaitNs}
	r := &qrun{in: in, l: newLimiter(lin), vlast: farPast}
	r.delta = r.l.delta
	r.base = time.Unix(1700000000, 0)
	r.fc = clocktesting.NewFakeClock(r.base)
	r.q = k8swq.NewTypedRateLimitingQueueWithConfig[int](r, k8swq.TypedRateLimitingQueueConfig[int]{Clock: r.fc})
	r.tw = &twin{wait: map[int]*wentry{}, dirty: map[int]bool{}}

	started := make(chan int, 16)
	release := make(chan error)
	ctx, cancel := context.WithCancel(context.Background())
	wq := workqueue.New[int](func(ctx context.Context, item int) error {
		started <- item
		select {
		case err := <-release:
			return err
		case <-ctx.Done():
			return nil
		}
	}, r)
	workqueue.VerifQueue(wq).ShutDown() // the real-clock queue New built
	setQueue(wq, r.q)
	done := make(chan struct{})
	go func() { _ = wq.Start(ctx); close(done) }()
	defer func() {
		cancel()
		select {
		case <-done:
		case <-time.After(5 * time.Second):
		}
		r.release(func() {})
	}()

	di, fi, ti := 0, 0, 0
	nextDur := func() int64 {
		d := int64(0)
		if len(in.Durations) > 0 {
			d = in.Durations[di%len(in.Durations)]
			di++
		}
		return d
	}
	nextFail := func() bool {
		f := false
		if len(in.Fails) > 0 {
			f = in.Fails[fi%len(in.Fails)]
			fi++
		}
		return f
	}
	rec := func(ev qevent, item int, observeLen bool) {
		n := -1
		if observeLen {
			n = r.q.Len()
		}
		r.events = append(r.events, ev)
		r.obs = append(r.obs, qobs{Len: n, Item: item})
		if ev.Ev == "arrive" || ev.Ev == "forget" {
			r.obs[len(r.obs)-1].Last = r.lastObs()
		}
	}
	// bookkeeping of one AddRateLimited answered with delay r.lastD at instant t
	noteAdd := func(t int64, item int) {
		d := r.lastD
		if d <= 0 {
			r.tw.add(item)
		} else {
			r.tw.insert(item, t+d)
		}
	}
	getDue := func() bool { return !r.tw.proc && len(r.tw.fifo) > 0 }
	// handOver: the worker is expected to have started the callback of the head of the queue
	handOver := func(t int64) {
		settle()
		got := -1
		select {
		case got = <-started:
		case <-time.After(2 * time.Second):
		}
		dur := nextDur()
		i := r.tw.fifo[0]
		r.tw.fifo = r.tw.fifo[1:]
		delete(r.tw.dirty, i)
		r.tw.proc, r.tw.pitem, r.tw.pend = true, i, t+dur
		if got >= 0 {
			r.tw.pitem = got
			r.runs = append(r.runs, [2]int64{int64(got), t})
		} else if r.stuck == "" {
			r.stuck = fmt.Sprintf("at %s item %d was due to be handed to the callback but the worker did not start it", dur2(t), i)
		}
		settle()
		rec(qevent{T: t, Ev: "get", D: dur}, got, true)
	}
	spurious := func(t int64) {
		// a callback started although nothing was due
		select {
		case got := <-started:
			if r.stuck == "" {
				r.stuck = fmt.Sprintf("at %s the callback of item %d started although nothing was due", dur2(t), got)
			}
			r.runs = append(r.runs, [2]int64{int64(got), t})
			r.tw.proc, r.tw.pitem, r.tw.pend = true, got, t
			rec(qevent{T: t, Ev: "get", D: 0}, got, false)
		default:
		}
	}
	after := func(t int64, ev qevent) {
		settle()
		if getDue() {
			rec(ev, -1, false)
			handOver(t)
		} else {
			rec(ev, -1, true)
			spurious(t)
		}
	}
	internal := func(kind string, item int, at int64) {
		switch kind {
		case "fire":
			r.tw.pop(item)
			r.tw.now = at
			r.tw.add(item)
			r.setTime(at)
			if k, _, at2, ok := r.tw.due(); ok && k == "fire" && at2 <= at {
				settle()
				rec(qevent{T: at, Ev: "fire", Item: item}, -1, false)
				return
			}
			after(at, qevent{T: at, Ev: "fire", Item: item})
		case "get":
			handOver(at)
		case "done":
			r.setTime(at)
			fail := nextFail()
			if fail && r.vlast != farPast && (at == r.vlast || at == r.vlast+r.delta) {
				fail = false // keep the limiter 1 ms away from its branch boundaries
			}
			i := r.tw.pitem
			calls := r.whenCalls
			if fail {
				release <- errCallback
			} else {
				release <- nil
			}
			settle()
			if fail {
				// process: AddRateLimited(item), then the deferred Done(item)
				if r.whenCalls != calls {
					noteAdd(at, i)
				}
				r.adds = append(r.adds, [2]int64{int64(i), at})
				rec(qevent{T: at, Ev: "arrive", Item: i}, -1, false)
			} else {
				// process: Forget(item), then the deferred Done(item)
				rec(qevent{T: at, Ev: "forget", Item: i}, -1, false)
			}
			r.tw.proc = false
			if r.tw.dirty[i] {
				r.tw.fifo = append(r.tw.fifo, i)
			}
			after(at, qevent{T: at, Ev: "done"})
		}
	}

	t := int64(0)
	for k, gap := range in.Gaps {
		t += gap
		for r.vlast != farPast && (t == r.vlast || t == r.vlast+r.delta) {
			t += ms
		}
		tie := 0
		if ti < len(in.Ties) {
			tie = in.Ties[ti]
			ti++
		}
		for {
			// everything due before t, every timer due at t, and `tie` of the other events due at t
			for steps := 0; steps < 1000 && r.stuck == ""; steps++ {
				kind, item, at, ok := r.tw.due()
				if !ok || at > t {
					break
				}
				if at == t && kind != "fire" {
					if tie <= 0 {
						break
					}
					tie--
				}
				internal(kind, item, at)
			}
			// a failed callback in between may have moved the limiter: stay off its boundaries
			if r.stuck == "" && r.vlast != farPast && (t == r.vlast || t == r.vlast+r.delta) {
				t += ms
				continue
			}
			break
		}
		if r.stuck != "" {
			break
		}
		who := 0
		if in.Items > 1 && k < len(in.Who) {
			who = in.Who[k] % in.Items
		}
		r.setTime(t)
		calls := r.whenCalls
		wq.Add(who) // the real WorkQueue.Add
		r.adds = append(r.adds, [2]int64{int64(who), t})
		if r.whenCalls != calls {
			noteAdd(t, who)
		}
		after(t, qevent{T: t, Ev: "arrive", Item: who})
	}
	for steps := 0; steps < 1000 && r.stuck == ""; steps++ {
		kind, item, at, ok := r.tw.due()
		if !ok {
			break
		}
		internal(kind, item, at)
	}
	// nothing else may start
	settle()
	spurious(r.vnow)
	return r
}

func dur2(ns int64) string { return time.Duration(ns).String() }

// woracle: every WorkQueue.Add (and every re-queue after a failed callback) is followed by a
// start of the callback of that item at or after it; callbacks of one item are at least an
// interval apart when there is one kind of item and callbacks are shorter than the interval.
func woracle(r *qrun, maxD int64) (key, what string) {
	perKind := map[int64][]int64{}
	for _, x := range r.runs {
		perKind[x[0]] = append(perKind[x[0]], x[1])
	}
	for _, a := range r.adds {
		ok := false
		for _, s := range perKind[a[0]] {
			if s >= a[1] {
				ok = true
			}
		}
		if !ok {
			return "dropped", fmt.Sprintf("item %d added at %s was never handed to the callback afterwards (callback starts of that item: %v)", a[0], dur(a[1]), durs(perKind[a[0]]))
		}
	}
	// bounded wait: the callback starts no later than max(wait, interval) after the request,
	// plus the callbacks the single worker may still have to finish
	bound := r.delta
	if r.in.WaitNs > bound {
		bound = r.in.WaitNs
	}
	bound += int64(r.in.Items) * maxD
	for _, a := range r.adds {
		ok := false
		for _, s := range perKind[a[0]] {
			if s >= a[1] && s <= a[1]+bound {
				ok = true
			}
		}
		if !ok && maxD < r.delta {
			return "bounded-wait", fmt.Sprintf("item %d added at %s was handed to the callback later than %s afterwards (callback starts: %v)", a[0], dur(a[1]), dur(bound), durs(perKind[a[0]]))
		}
	}
	if r.in.Items == 1 && maxD < r.delta {
		for _, rs := range perKind {
			for i := 1; i < len(rs); i++ {
				if rs[i]-rs[i-1] < r.delta {
					return "spacing", fmt.Sprintf("callbacks started at %s and %s, %s apart, interval %s", dur(rs[i-1]), dur(rs[i]), dur(rs[i]-rs[i-1]), dur(r.delta))
				}
			}
		}
	}
	if r.stuck != "" {
		return "stuck", r.stuck
	}
	return "", ""
}

func durs(xs []int64) []string {
	out := []string{}
	for _, x := range xs {
		out = append(out, dur(x))
	}
	return out
}

func genWrapper(rng *rand.Rand) qinput {
	in := genQueue(rng)
	in.Wrapper = true
	for range in.Durations {
		in.Fails = append(in.Fails, rng.Intn(5) == 0)
	}
	// arrivals while a callback runs are the point: bias some gaps to fall inside callbacks
	for i := range in.Gaps {
		if rng.Intn(3) == 0 && in.Durations[i] > 2*ms {
			in.Gaps[i] = ms * (1 + rng.Int63n(in.Durations[i]/ms))
		}
	}
	return in
}

func wcorpus() []qinput {
	return []qinput{
		// the same through the wrapper: Get -> callback (150 ms) -> Forget -> Done
		{Wrapper: true, Kind: kReload, IntervalNs: 600 * ms, Items: 1, Gaps: []int64{0, 80 * ms, 570 * ms}, Durations: []int64{150 * ms}, Ties: []int{0, 0, 0}},
		// a reload request arriving while a reload is running must lead to another reload:
		// interval 300 ms, callback 150 ms, requests at 0 and 80 ms -> reloads at 0 and 300 ms
		{Wrapper: true, Kind: kReload, IntervalNs: 300 * ms, Items: 1, Gaps: []int64{0, 80 * ms}, Durations: []int64{150 * ms}, Ties: []int{0, 0}},
		// right after the callback returned, bursts, a failing callback
		{Wrapper: true, Kind: kReload, IntervalNs: 300 * ms, Items: 1, Gaps: []int64{0, 151 * ms, 1 * ms, 1 * ms, 400 * ms, 20 * ms}, Durations: []int64{150 * ms, 10 * ms}, Fails: []bool{false, true, false}, Ties: []int{0, 0, 0, 0, 0, 0}},
		// two kinds, the second notified while the first runs
		{Wrapper: true, Kind: kReconcil, Rate: 2, WaitNs: 20 * ms, Items: 2, Gaps: []int64{0, 30 * ms, 10 * ms, 300 * ms, 700 * ms}, Who: []int{0, 1, 0, 1, 0}, Durations: []int64{100 * ms}, Fails: []bool{false, false, true}, Ties: []int{0, 0, 0, 0, 0}},
	}
}

// ---------------------------------------------------------------- real time, quick tier

type rtScenario struct {
	Name     string   `json:"name"`
	Interval int64    `json:"interval_ms"`
	Callback int64    `json:"callback_ms"`
	Adds     [][2]int `json:"adds_ms_item"`
	FailRuns int      `json:"failing_callbacks"` // the first n callbacks return an error
	RemoveAt int      `json:"remove_at_ms"`      // -1: no Remove; else Remove(item 7), which is never added
	limiter  func() k8swq.TypedRateLimiter[int]
}

type rtResult struct {
	Scenario rtScenario `json:"scenario"`
	Starts   [][2]int64 `json:"callback_starts_item_ms"`
	Problem  string     `json:"problem,omitempty"`
	Key      string     `json:"-"`
}

// realTimeWrapper runs a few short scenarios on the UNTOUCHED wrapper (workqueue.New with the
// queue it builds itself, real clock, Start(ctx)), concurrently. Assertions do not depend on
// fine timing: every Add is followed by a callback start (looked at well after
// 3 x (interval + callback)), callbacks of one item never overlap, there are no more runs
// than adds + failed callbacks, and only a spacing below half the interval is a failure.
func realTimeWrapper() []rtResult {
	scs := []rtScenario{
		{Name: "add during a running callback", Interval: 300, Callback: 150, Adds: [][2]int{{0, 0}, {80, 0}}, RemoveAt: -1,
			limiter: func() k8swq.TypedRateLimiter[int] {
				return anyLimiter{workqueue.ReloadHAProxyRateLimiter(300 * time.Millisecond)}
			}},
		{Name: "burst and add right after the callback returned", Interval: 200, Callback: 30, Adds: [][2]int{{0, 0}, {5, 0}, {10, 0}, {40, 0}}, RemoveAt: -1,
			limiter: func() k8swq.TypedRateLimiter[int] {
				return anyLimiter{workqueue.ReloadHAProxyRateLimiter(200 * time.Millisecond)}
			}},
		{Name: "two kinds", Interval: 200, Callback: 50, Adds: [][2]int{{0, 0}, {10, 1}, {100, 1}}, RemoveAt: -1,
			limiter: func() k8swq.TypedRateLimiter[int] {
				return workqueue.IngressReconcilerRateLimiter[int](5, 20*time.Millisecond)
			}},
		{Name: "callback returning an error is re-queued", Interval: 150, Callback: 10, Adds: [][2]int{{0, 0}}, FailRuns: 1, RemoveAt: -1,
			limiter: func() k8swq.TypedRateLimiter[int] {
				return anyLimiter{workqueue.ReloadHAProxyRateLimiter(150 * time.Millisecond)}
			}},
		{Name: "Remove of an item that is not queued", Interval: 100, Callback: 10, Adds: [][2]int{{20, 0}, {30, 0}}, RemoveAt: 0,
			limiter: func() k8swq.TypedRateLimiter[int] {
				return anyLimiter{workqueue.ReloadHAProxyRateLimiter(100 * time.Millisecond)}
			}},
	}
	out := make([]rtResult, len(scs))
	var wg sync.WaitGroup
	for k := range scs {
		wg.Add(1)
		go func(k int) {
			defer wg.Done()
			out[k] = runRT(scs[k])
		}(k)
	}
	wg.Wait()
	return out
}

// anyLimiter adapts the reload limiter (items of type any) to int items.
type anyLimiter struct{ rl k8swq.TypedRateLimiter[any] }

func (a anyLimiter) When(int) time.Duration { return a.rl.When(nil) }
func (a anyLimiter) Forget(int)             {}
func (a anyLimiter) NumRequeues(int) int    { return 0 }

func runRT(sc rtScenario) rtResult {
	res := rtResult{Scenario: sc}
	var mu sync.Mutex
	type run struct {
		item       int
		start, end time.Duration
	}
	var runs []run
	var begin time.Time
	nrun := 0
	wq := workqueue.New[int](func(ctx context.Context, item int) error {
		mu.Lock()
		idx := len(runs)
		runs = append(runs, run{item: item, start: time.Since(begin), end: -1})
		nrun++
		fail := nrun <= sc.FailRuns
		mu.Unlock()
		time.Sleep(time.Duration(sc.Callback) * time.Millisecond)
		mu.Lock()
		runs[idx].end = time.Since(begin)
		mu.Unlock()
		if fail {
			return errCallback
		}
		return nil
	}, sc.limiter())
	ctx, cancel := context.WithCancel(context.Background())
	done := make(chan struct{})
	begin = time.Now()
	go func() { _ = wq.Start(ctx); close(done) }()
	type add struct {
		item int
		at   time.Duration
	}
	var adds []add
	if sc.RemoveAt >= 0 {
		time.Sleep(time.Until(begin.Add(time.Duration(sc.RemoveAt) * time.Millisecond)))
		wq.Remove(7)
	}
	for _, a := range sc.Adds {
		time.Sleep(time.Until(begin.Add(time.Duration(a[0]) * time.Millisecond)))
		adds = append(adds, add{item: a[1], at: time.Since(begin)})
		wq.Add(a[1])
	}
	wait := 3 * time.Duration(sc.Interval+sc.Callback) * time.Millisecond
	if wait < 600*time.Millisecond {
		wait = 600 * time.Millisecond
	}
	time.Sleep(wait)
	cancel()
	select {
	case <-done:
	case <-time.After(3 * time.Second):
	}
	mu.Lock()
	defer mu.Unlock()
	for _, r := range runs {
		res.Starts = append(res.Starts, [2]int64{int64(r.item), r.start.Milliseconds()})
	}
	for _, a := range adds {
		ok := false
		for _, r := range runs {
			if r.item == a.item && r.start >= a.at-time.Millisecond {
				ok = true
			}
		}
		if !ok {
			res.Key, res.Problem = "dropped", fmt.Sprintf("item %d added at %s was not handed to the callback within %s afterwards", a.item, a.at.Round(time.Millisecond), wait)
			return res
		}
	}
	if len(runs) > len(adds)+sc.FailRuns {
		res.Key, res.Problem = "too-many-runs", fmt.Sprintf("%d callbacks for %d adds and %d failed callbacks", len(runs), len(adds), sc.FailRuns)
		return res
	}
	last := map[int]run{}
	for _, r := range runs {
		if p, ok := last[r.item]; ok {
			if p.end < 0 || r.start < p.end {
				res.Key, res.Problem = "overlap", fmt.Sprintf("callbacks of item %d overlap: one started at %s before the previous one returned", r.item, r.start.Round(time.Millisecond))
				return res
			}
			if r.start-p.start < time.Duration(sc.Interval)*time.Millisecond/2 {
				res.Key, res.Problem = "gross-spacing", fmt.Sprintf("callbacks of item %d started %s apart, interval %dms", r.item, (r.start-p.start).Round(time.Millisecond), sc.Interval)
				return res
			}
		}
		last[r.item] = r
	}
	return res
}
