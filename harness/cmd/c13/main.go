// c13: correspondence and oracle for C13 (rate limits: min spacing, coalescing,
// bounded wait, nothing dropped).
//
// The two limiters of pkg/utils/workqueue are functions of (last - now). They are
// driven here in VIRTUAL time: before every call the hook sets `last` to
// now0 + (virtual last - virtual arrival), the REAL When is called, and `last` is
// read back. Everything is kept in absolute virtual nanoseconds; the only unknown
// is the instant of the clock read inside When, which lies in the bracket
// [now0, now1] of two clock reads around the call (retried when wider than 200us).
package main

import (
	"context"
	"flag"
	"fmt"
	"math/rand"
	"sort"
	"sync"
	"time"

	k8swq "k8s.io/client-go/util/workqueue"

	"github.com/jcmoraisjr/haproxy-ingress/pkg/utils/workqueue"

	"verif/harness/lib/hx"
)

const (
	ms        = int64(time.Millisecond)
	farPast   = -(int64(1) << 62) // stands for the zero time.Time of a fresh limiter
	tol       = ms                // oracle tolerance, > 2 * bracket
	maxWidth  = 200 * time.Microsecond
	awayFrom  = ms // offsets are kept this far from the branch boundaries
	maxTries  = 20000
	kReload   = "reload"
	kReconcil = "reconciler"
)

// input is one replayable scenario: a limiter setting and the arrival instants.
type input struct {
	Kind       string  `json:"kind"`        // reload | reconciler
	IntervalNs int64   `json:"interval_ns"` // reload: --reload-interval
	Rate       float64 `json:"rate"`        // reconciler: --rate-limit-update
	WaitNs     int64   `json:"wait_ns"`     // reconciler: --wait-before-update
	Arrivals   []int64 `json:"arrivals_ns"` // virtual instants, non-decreasing
}

// step is what was observed for one arrival, in absolute virtual nanoseconds.
type step struct {
	Before int64 `json:"last_before"` // value of `last` set through the hook (farPast = zero time)
	Lo     int64 `json:"now_lo"`      // virtual instant of the clock read before the call
	Width  int64 `json:"width"`       // clock read after the call minus the one before
	Delay  int64 `json:"delay"`       // what When returned
	After  int64 `json:"last_after"`  // value of `last` read back
}

type limiter struct {
	rl     any
	when   func() time.Duration
	forget func() // the real Forget of the limiter (nil: called by somebody else, see around)
	delta  int64  // the interval the property speaks about
	wait   int64
}

// around runs f (something that calls the real limiter's Forget, or nothing) with `last` set
// as seen from virtual instant a, and returns the virtual `last` afterwards: unchanged when f
// left the field alone, else what f wrote, seen from a.
func (l *limiter) around(vlast, a int64, f func()) int64 {
	now0 := time.Now()
	set := time.Time{}
	if vlast != farPast {
		set = now0.Add(time.Duration(vlast - a))
	}
	workqueue.VerifLimiterSetLast(l.rl, set)
	f()
	last, _ := workqueue.VerifLimiterLast(l.rl)
	if last.Equal(set) {
		return vlast
	}
	if last.IsZero() {
		return farPast
	}
	return a + int64(last.Sub(now0))
}

func newLimiter(in input) *limiter {
	switch in.Kind {
	case kReload:
		rl := workqueue.ReloadHAProxyRateLimiter(time.Duration(in.IntervalNs))
		return &limiter{rl: rl, when: func() time.Duration { return rl.When(nil) }, forget: func() { rl.Forget(nil) }, delta: in.IntervalNs}
	case kReconcil:
		rl := workqueue.IngressReconcilerRateLimiter[bool](in.Rate, time.Duration(in.WaitNs))
		return &limiter{rl: rl, when: func() time.Duration { return rl.When(false) }, forget: func() { rl.Forget(false) },
			delta: int64(time.Duration(float64(time.Second) / in.Rate)), wait: in.WaitNs}
	}
	panic("unknown kind " + in.Kind)
}

var bracketRetries, bracketGiveUps int

// call runs the real When once with `last` = vlast seen from virtual instant a.
func (l *limiter) call(vlast, a int64) step {
	for try := 0; ; try++ {
		now0 := time.Now()
		if vlast == farPast {
			workqueue.VerifLimiterSetLast(l.rl, time.Time{})
		} else {
			workqueue.VerifLimiterSetLast(l.rl, now0.Add(time.Duration(vlast-a)))
		}
		d := l.when()
		now1 := time.Now()
		last, ok := workqueue.VerifLimiterLast(l.rl)
		if !ok {
			panic("hook does not know this limiter")
		}
		w := now1.Sub(now0)
		if w > maxWidth && try < maxTries {
			bracketRetries++
			if try%100 == 99 {
				time.Sleep(time.Millisecond) // a loaded machine: let it breathe
			}
			continue
		}
		if w > maxWidth {
			bracketGiveUps++
		}
		after := farPast
		if !last.IsZero() {
			after = a + int64(last.Sub(now0))
		}
		return step{Before: vlast, Lo: a, Width: int64(w), Delay: int64(d), After: after}
	}
}

// probeDelta reads the limiter's interval behaviourally: with `last` 1 ms in the past
// the limiter is inside the interval and schedules at last + delta.
func (l *limiter) probeDelta() int64 {
	now0 := time.Now()
	set := now0.Add(-time.Millisecond)
	workqueue.VerifLimiterSetLast(l.rl, set)
	l.when()
	last, _ := workqueue.VerifLimiterLast(l.rl)
	return int64(last.Sub(set))
}

func abs(x int64) int64 {
	if x < 0 {
		return -x
	}
	return x
}

// drive replays the arrivals in virtual time. Arrivals closer than 1 ms to a branch
// boundary (last = now, last + delta = now) are pushed 2 ms later, together with all
// the following ones, so that the outcome cannot depend on the sub-millisecond instant of the
// clock read inside When. It returns the arrivals actually used and the observations.
func drive(in input) (used []int64, steps []step, delta int64) {
	l := newLimiter(in)
	delta = l.delta
	vlast := farPast
	shift := int64(0)
	prev := int64(-1 << 62)
	for _, a0 := range in.Arrivals {
		a := a0 + shift
		if a < prev {
			a = prev
		}
		for vlast != farPast && (abs(vlast-a) < awayFrom || abs(vlast+delta-a) < awayFrom) {
			a += 2 * ms
			shift += 2 * ms
		}
		st := l.call(vlast, a)
		if st.Width > int64(maxWidth) {
			return nil, nil, delta // machine too loaded for a 200us bracket: drop the sequence
		}
		used = append(used, a)
		steps = append(steps, st)
		vlast = st.After
		prev = a
	}
	return
}

// oracle checks the property on the observed grants only (no model):
// spacing, coalescing, bounded wait.
func oracle(in input, used []int64, steps []step, delta int64) (key, what string) {
	have := false
	var cur int64 // latest distinct grant
	for k, st := range steps {
		a := used[k]
		g := a + st.Delay
		if g < a-tol {
			return "grant-in-the-past", fmt.Sprintf("arrival %d at %s got a grant %s before it", k, dur(a), dur(g))
		}
		if have && a < cur-tol && abs(g-cur) > tol {
			return "coalesce", fmt.Sprintf("arrival %d at %s came while the run at %s was pending but was granted %s", k, dur(a), dur(cur), dur(g))
		}
		bound := a + in.WaitNs
		if have && cur+delta > bound {
			bound = cur + delta
		}
		if g > bound+tol {
			return "bounded-wait", fmt.Sprintf("arrival %d at %s granted %s, later than max(wait, remaining interval) = %s", k, dur(a), dur(g), dur(bound))
		}
		if have && abs(g-cur) > tol && g < cur+delta-tol {
			return "spacing", fmt.Sprintf("runs granted at %s and %s are %s apart, interval is %s (arrival %d at %s)", dur(cur), dur(g), dur(g-cur), dur(delta), k, dur(a))
		}
		if !have || abs(g-cur) > tol {
			cur = g
			have = true
		}
	}
	return "", ""
}

func dur(ns int64) string { return time.Duration(ns).String() }

// ---------------------------------------------------------------- generator

var intervalPool = []int64{400 * ms, 100 * ms, 250 * ms, 1000 * ms, 2000 * ms, 5000 * ms, 37 * ms, 1500 * ms, 30000 * ms}
var ratePool = []float64{0.5, 0.5, 1, 2, 3, 7, 10, 0.05, 0.3, 6, 0.7, 9.9}
var waitPool = []int64{200 * ms, 200 * ms, 0, 1 * ms, 50 * ms, 500 * ms, 1000 * ms, 3 * ms}

func genSetting(rng *rand.Rand) input {
	in := input{}
	if rng.Intn(2) == 0 {
		in.Kind = kReload
		if rng.Intn(4) == 0 {
			in.IntervalNs = 5*ms + rng.Int63n(3000*ms)
		} else {
			in.IntervalNs = intervalPool[rng.Intn(len(intervalPool))]
		}
	} else {
		in.Kind = kReconcil
		if rng.Intn(3) == 0 {
			in.Rate = 0.05 + rng.Float64()*9.95
		} else {
			in.Rate = ratePool[rng.Intn(len(ratePool))]
		}
		if rng.Intn(4) == 0 {
			in.WaitNs = rng.Int63n(1500 * ms)
		} else {
			in.WaitNs = waitPool[rng.Intn(len(waitPool))]
		}
	}
	return in
}

// genArrivals produces arrival patterns relative to the interval: bursts, arrivals just
// before / just after where a run would be scheduled, idle gaps longer than the interval.
func genArrivals(rng *rand.Rand, delta, wait int64) ([]int64, []string) {
	n := 2 + rng.Intn(14)
	var out []int64
	var tags []string
	t := rng.Int63n(50 * ms)
	for len(out) < n {
		switch rng.Intn(7) {
		case 0: // burst
			tags = append(tags, "burst")
			for i, m := 0, 2+rng.Intn(4); i < m; i++ {
				out = append(out, t)
				t += rng.Int63n(5 * ms)
			}
		case 1: // idle gap longer than the interval
			tags = append(tags, "idle")
			t += delta + wait + 2*ms + rng.Int63n(2*delta+1)
			out = append(out, t)
		case 2: // just after a multiple of the interval since the previous arrival
			tags = append(tags, "just-after")
			t += delta + ms + rng.Int63n(20*ms)
			out = append(out, t)
		case 3: // just before
			tags = append(tags, "just-before")
			if delta > 25*ms {
				t += delta - ms - rng.Int63n(20*ms)
			} else {
				t += delta / 2
			}
			out = append(out, t)
		case 4: // shortly after the previous one
			tags = append(tags, "short")
			t += ms + rng.Int63n(60*ms)
			out = append(out, t)
		case 5: // a fraction of the interval
			tags = append(tags, "fraction")
			t += rng.Int63n(delta + 1)
			out = append(out, t)
		case 6: // around wait
			tags = append(tags, "around-wait")
			t += wait + rng.Int63n(41*ms) - 20*ms
			if len(out) > 0 && t < out[len(out)-1] {
				t = out[len(out)-1]
			}
			out = append(out, t)
		}
	}
	return out, tags
}

// corpus: past failures first. The first one is the historical witness of
// reloadHAProxy.When not recording the scheduled time (interval 400 ms, arrivals at
// 0, 40 ms, 420 ms => runs granted at 400 ms and 420 ms).
func corpus() []input {
	return []input{
		{Kind: kReload, IntervalNs: 400 * ms, Arrivals: []int64{0, 40 * ms, 420 * ms}},
		{Kind: kReload, IntervalNs: 400 * ms, Arrivals: []int64{0, 40 * ms, 420 * ms, 430 * ms, 900 * ms}},
		{Kind: kReload, IntervalNs: 1000 * ms, Arrivals: []int64{0, 10 * ms, 20 * ms, 1005 * ms, 1010 * ms, 1990 * ms, 2015 * ms}},
		{Kind: kReconcil, Rate: 0.5, WaitNs: 200 * ms, Arrivals: []int64{0, 100 * ms, 250 * ms, 2150 * ms, 2250 * ms, 9000 * ms}},
		{Kind: kReconcil, Rate: 10, WaitNs: 200 * ms, Arrivals: []int64{0, 150 * ms, 250 * ms, 290 * ms, 310 * ms, 1000 * ms}},
		{Kind: kReconcil, Rate: 3, WaitNs: 0, Arrivals: []int64{0, 10 * ms, 340 * ms, 350 * ms, 2000 * ms}},
	}
}

// ---------------------------------------------------------------- Coq printing

func coqCase(id int, in input, delta int64, steps []step) string {
	var ss []string
	for _, s := range steps {
		ss = append(ss, fmt.Sprintf("{| s_before := %s; s_lo := %s; s_width := %s; s_delay := %s; s_after := %s |}",
			hx.Z(s.Before), hx.Z(s.Lo), hx.Z(s.Width), hx.Z(s.Delay), hx.Z(s.After)))
	}
	return fmt.Sprintf("LC {| lid := %s; lreload := %s; ldelta := %s; lwait := %s; lsteps := %s |}",
		hx.N(id), hx.Bool(in.Kind == kReload), hx.Z(delta), hx.Z(in.WaitNs), hx.List(ss))
}

// ---------------------------------------------------------------- main

var twoKindsFail = flag.Bool("two-kinds-as-failure", false, "report the per-kind spacing of the two-kinds reconciler queue as an oracle failure (key C13/queue/reconciler/two-kinds-spacing)")

var replayRealTime bool
var secTime = map[string]float64{}

func main() {
	o := hx.Parse()
	rng := o.Rng()
	res := hx.NewResult("C13", "limiter settings (reload intervals 5ms..30s; reconciler rates 0.05..10/s incl. non-integer-ns intervals, waits 0..1.5s) x arrival patterns (bursts, just before / after a scheduled run, idle gaps > interval, fractions) of 2..20 arrivals driven through the real When in virtual time; non-trivial = at least one arrival was rate limited or coalesced (a positive delay other than the initial wait); distinct by canonical text of setting + arrivals")
	cw := hx.NewCaseWriter(o, res, "From HI Require Import Corr.Corr_C13.", "ccase", 500)

	var inputs []input
	var qinputs []qinput
	if o.Replay != "" {
		var probe struct {
			Gaps     []int64 `json:"gaps_ns"`
			RealTime bool    `json:"realtime"`
		}
		hx.ReadReplay(o.Replay, &probe)
		if probe.RealTime {
			replayRealTime = true // the real-time scenarios are fixed: run them all again
		} else if probe.Gaps != nil {
			var qin qinput
			hx.ReadReplay(o.Replay, &qin)
			qinputs = append(qinputs, qin)
		} else {
			var in input
			hx.ReadReplay(o.Replay, &in)
			inputs = append(inputs, in)
		}
	} else {
		inputs = append(inputs, corpus()...)
		n := o.Count(1500, 20000)
		if o.Search {
			n = o.Count(20000, 300000)
		}
		for i := 0; i < n; i++ {
			in := genSetting(rng)
			l := newLimiter(in)
			arr, tags := genArrivals(rng, l.delta, l.wait)
			in.Arrivals = arr
			for _, t := range tags {
				res.Count("pattern=" + t)
			}
			inputs = append(inputs, in)
		}
		qinputs = append(qinputs, qcorpus()...)
		nq := 400
		if o.Thorough() || o.Search {
			nq = 2000
		}
		if o.N > 0 {
			nq = o.N / 4
		}
		for i := 0; i < nq; i++ {
			qinputs = append(qinputs, genQueue(rng))
		}
		qinputs = append(qinputs, rcorpus()...)
		for i := 0; i < nq/2; i++ {
			qinputs = append(qinputs, genReconciler(rng))
		}
		qinputs = append(qinputs, wcorpus()...)
		for i := 0; i < nq/2; i++ {
			qinputs = append(qinputs, genWrapper(rng))
		}
	}

	for _, in := range inputs {
		l := newLimiter(in)
		// the interval the limiter really uses, read behaviourally
		if pd := l.probeDelta(); pd != l.delta {
			// not a property failure by itself (internal state); it shows up as a spacing
			// failure and as a correspondence mismatch. Counted for the evidence.
			res.Count("probed_interval_differs_from_setting")
		}
		used, steps, delta := drive(in)
		if used == nil {
			res.Count("dropped: clock bracket wider than 200us")
			continue
		}
		run := in
		run.Arrivals = used
		limited := false
		for _, s := range steps {
			if s.Delay > 0 && !(s.Before == farPast || s.Delay == in.WaitNs) {
				limited = true
			}
		}
		res.Seen(fmt.Sprint(run), limited)
		res.Count("kind=" + in.Kind)
		res.Count(fmt.Sprintf("arrivals=%02d", len(used)/4*4))
		if limited {
			res.Count("rate-limited=yes")
		} else {
			res.Count("rate-limited=no")
		}
		var grants []string
		for k, s := range steps {
			grants = append(grants, dur(used[k]+s.Delay))
		}
		res.Sample(5, map[string]interface{}{"input": run, "interval": dur(delta), "grants": grants})
		res.OracleChecks++
		if k, what := oracle(run, used, steps, delta); k != "" {
			res.Count("oracle_fail_" + k)
			res.Fail(hx.Failure{Key: "C13/" + in.Kind + "/" + k, What: what, Input: run, Observed: grants})
		}
		if !o.Search {
			run, steps, delta := run, steps, delta
			cw.Add(func(id int) string { return coqCase(id, run, delta, steps) }, run)
		}
	}
	// the untouched wrapper in real time (short, lenient); run before the virtual-time cases,
	// whose synchronisation looks at every worker goroutine of the process; its failures are
	// reported after theirs (which are deterministic and replayable step by step)
	var rts []rtResult
	if o.Replay == "" || replayRealTime {
		rts = realTimeWrapper()
		res.Extra["wrapper_real_time_scenarios"] = rts
	}

	// queue scenarios: real limiter + real client-go queue on a fake clock
	twoKindsShort, twoKindsRuns := 0, 0
	var twoKindsSample interface{}
	for _, qin := range qinputs {
		var r *qrun
		var rr *rrun
		t0case := time.Now()
		if qin.Reconciler {
			rr = runReconciler(qin)
			r = rr.qrun
		} else if qin.Wrapper {
			r = runWrapper(qin)
		} else {
			r = runQueue(qin)
		}
		secTime[map[bool]string{true: "reconciler", false: "queue"}[qin.Reconciler]+map[bool]string{true: "+wrapper", false: ""}[qin.Wrapper]] += time.Since(t0case).Seconds()
		md := maxDur(qin)
		nontrivial := len(r.runs) >= 2
		res.Seen(fmt.Sprint(qin), nontrivial)
		if qin.Reconciler {
			res.Count("reconciler queue with all producers")
			for _, src := range qin.Sources {
				res.Count("reconciler source=" + src)
			}
			if rr.bypassAt >= 0 {
				res.Count("reconciler: a RequeueAfter retry happened")
			}
		} else if qin.Wrapper {
			res.Count("wrapper (WorkQueue.New/Start/Add/process) kind=" + qin.Kind + fmt.Sprintf(" items=%d", qin.Items))
			fails := 0
			for _, e := range r.events {
				if e.Ev == "arrive" {
					fails++
				}
			}
			if fails > len(qin.Gaps) {
				res.Count("wrapper: a callback failed and was re-queued")
			}
		} else {
			res.Count("queue kind=" + qin.Kind + fmt.Sprintf(" items=%d", qin.Items))
		}
		if md >= r.delta {
			res.Count("queue callbacks >= interval")
		} else {
			res.Count("queue callbacks < interval")
		}
		res.Count(fmt.Sprintf("queue events=%02d", len(r.events)/10*10))
		if r.stuck == "clock bracket wider than 200us" {
			res.Count("dropped: clock bracket wider than 200us")
			continue
		}
		if r.stuck != "" {
			res.Count("queue stuck")
		}
		res.OracleChecks++
		if qin.Reconciler {
			if k, what := roracle(rr); k != "" {
				res.Count("oracle_fail_reconciler_" + k)
				res.Fail(hx.Failure{Key: "C13/reconciler/" + k, What: what, Input: qin, Observed: map[string]interface{}{"requests(instant,full,step)": rr.requests, "released_to_worker_at": rr.readies, "reconciliations(item,start)": r.runs, "events": r.events}})
			}
		} else if qin.Wrapper {
			if k, what := woracle(r, md); k != "" {
				res.Count("oracle_fail_wrapper_" + k)
				res.Fail(hx.Failure{Key: "C13/wrapper/" + qin.Kind + "/" + k, What: what, Input: qin, Observed: map[string]interface{}{"adds(item,instant)": r.adds, "callback_starts(item,instant)": r.runs, "events": r.events}})
			}
		} else if r.stuck == "" {
			if k, what := qoracle(r, md); k != "" {
				res.Count("oracle_fail_queue_" + k)
				res.Fail(hx.Failure{Key: "C13/queue/" + qin.Kind + "/" + k, What: what, Input: qin, Observed: map[string]interface{}{"runs": r.runs, "grants": r.grants}})
			}
			// two kinds sharing limiter and worker: spacing per kind below the interval is the
			// modelled consequence of the design (C13_queue_runs_spaced_refuted); evidence, or a
			// failure when asked for with --two-kinds-as-failure
			if qin.Items == 2 && md < r.delta {
				twoKindsRuns++
				if g := minSameKindGap(r); g < r.delta {
					twoKindsShort++
					what := fmt.Sprintf("two reconciliations of the same kind %s apart, interval %s: both kinds were granted the same instant and the single worker ran them back to back", dur(g), dur(r.delta))
					if twoKindsSample == nil {
						twoKindsSample = map[string]interface{}{"input": qin, "what": what, "runs(item,start)": r.runs, "grants(item,arrival,grant)": r.grants}
					}
					if *twoKindsFail || o.Replay != "" {
						res.Fail(hx.Failure{Key: "C13/queue/reconciler/two-kinds-spacing", What: what, Input: qin, Observed: map[string]interface{}{"runs": r.runs, "grants": r.grants}})
					}
				}
			}
		}
		if len(res.Samples) < 7 && len(r.events) > 6 {
			res.Samples = append(res.Samples, map[string]interface{}{"queue_input": qin, "events": r.events, "observed": r.obs})
		}
		if !o.Search {
			r, md := r, md
			cw.Add(func(id int) string { return coqQCase(id, r, md) }, qin)
		}
	}
	for _, rt := range rts {
		res.OracleChecks++
		res.Count("wrapper real-time scenario")
		if rt.Problem != "" {
			res.Fail(hx.Failure{Key: "C13/wrapper-realtime/" + rt.Key, What: rt.Scenario.Name + ": " + rt.Problem, Input: map[string]interface{}{"realtime": true, "scenario": rt.Scenario}, Observed: rt.Starts})
		}
	}
	cw.Flush()
	res.Extra["bracket_retries"] = bracketRetries
	res.Extra["seconds_in_virtual_time_cases"] = secTime
	res.Extra["bracket_give_ups"] = bracketGiveUps
	res.Extra["two_kinds_cases_with_short_callbacks"] = twoKindsRuns
	res.Extra["two_kinds_cases_with_same_kind_spacing_below_interval"] = twoKindsShort
	if twoKindsSample != nil {
		res.Extra["two_kinds_sample"] = twoKindsSample
	}

	if o.Thorough() && o.Replay == "" {
		realTime(res)
	}
	res.Write(o)
}

// ---------------------------------------------------------------- real time (thorough tier, evidence only)

// realTime runs workqueue.New with the real limiters and real clock; it records the
// spacing of the callbacks. Wall-clock dependent: evidence only, except when a spacing is
// below half the interval, which no scheduling latency explains.
func realTime(res *hx.Result) {
	type rt struct {
		Name     string   `json:"name"`
		Interval string   `json:"interval"`
		Adds     []string `json:"adds"`
		Runs     []string `json:"runs"`
		MinGap   string   `json:"min_gap"`
		Dropped  bool     `json:"dropped"`
	}
	var out []rt
	one := func(name string, rl k8swq.TypedRateLimiter[any], interval time.Duration, adds []time.Duration, cb time.Duration) {
		var mu sync.Mutex
		var runs []time.Duration
		var start time.Time
		q := workqueue.New(func(ctx context.Context, item any) error {
			mu.Lock()
			runs = append(runs, time.Since(start))
			mu.Unlock()
			time.Sleep(cb)
			return nil
		}, rl)
		ctx, cancel := context.WithCancel(context.Background())
		done := make(chan struct{})
		go func() { _ = q.Start(ctx); close(done) }()
		start = time.Now()
		for _, a := range adds {
			time.Sleep(time.Until(start.Add(a)))
			q.Add(nil)
		}
		time.Sleep(2*interval + 100*time.Millisecond)
		cancel()
		<-done
		mu.Lock()
		defer mu.Unlock()
		r := rt{Name: name, Interval: interval.String()}
		for _, a := range adds {
			r.Adds = append(r.Adds, a.String())
		}
		min := time.Duration(1 << 62)
		for i, x := range runs {
			r.Runs = append(r.Runs, x.Round(time.Millisecond).String())
			if i > 0 && x-runs[i-1] < min {
				min = x - runs[i-1]
			}
		}
		if len(runs) > 1 {
			r.MinGap = min.Round(time.Millisecond).String()
		}
		// every add is followed by a run start
		last := adds[len(adds)-1]
		r.Dropped = len(runs) == 0 || runs[len(runs)-1] < last-5*time.Millisecond
		out = append(out, r)
		res.OracleChecks++
		if len(runs) > 1 && min < interval/2 {
			res.Fail(hx.Failure{Key: "C13/realtime/gross-spacing", What: fmt.Sprintf("%s: real-time callbacks %s apart with interval %s", name, min, interval), Input: r})
		}
		if r.Dropped {
			res.Fail(hx.Failure{Key: "C13/realtime/dropped", What: name + ": the last notification was not followed by a run", Input: r})
		}
	}
	d := func(xs ...int) []time.Duration {
		var o []time.Duration
		for _, x := range xs {
			o = append(o, time.Duration(x)*time.Millisecond)
		}
		return o
	}
	one("reload 200ms", workqueue.ReloadHAProxyRateLimiter(200*time.Millisecond), 200*time.Millisecond, d(0, 20, 210, 215, 500, 1000), 10*time.Millisecond)
	one("reload 150ms burst", workqueue.ReloadHAProxyRateLimiter(150*time.Millisecond), 150*time.Millisecond, d(0, 5, 10, 15, 160, 170, 180, 330), 20*time.Millisecond)
	one("reconciler 10/s wait 20ms", workqueue.IngressReconcilerRateLimiter[any](10, 20*time.Millisecond), 100*time.Millisecond, d(0, 5, 30, 110, 115, 400), 10*time.Millisecond)
	one("reconciler 5/s wait 50ms", workqueue.IngressReconcilerRateLimiter[any](5, 50*time.Millisecond), 200*time.Millisecond, d(0, 10, 60, 240, 260, 700), 30*time.Millisecond)
	sort.Slice(out, func(i, j int) bool { return out[i].Name < out[j].Name })
	res.Extra["real_time_runs"] = out
}
