// c03: correspondence and oracle for C03 (requests reach exactly the ready endpoints that
// Ingress and Service designate).
//
// For each generated cluster the REAL pipeline (lib/pipeline) writes haproxy.cfg + maps;
// cfgnorm.Route evaluates a request set ("declared hosts/paths and their neighbours", both
// schemes) on the written files. Two independent checks:
//   - correspondence: (projected cluster, requests, observed server sets) go to Coq where
//     Model/Route.v's route_impl must give the same sets (Corr/Corr_C03.v);
//   - oracle (no model): spec.go re-implements the property's reading directly on the
//     Kubernetes objects and is compared with the observed sets.
package main

import (
	"encoding/json"
	"fmt"
	"math/rand"
	"os"
	"path/filepath"
	"sort"
	"strings"

	api "k8s.io/api/core/v1"
	networking "k8s.io/api/networking/v1"
	"k8s.io/apimachinery/pkg/util/intstr"
	"sigs.k8s.io/controller-runtime/pkg/client"

	"verif/harness/lib/cfgnorm"
	"verif/harness/lib/hx"
	"verif/harness/lib/pipeline"
	"verif/harness/lib/world"
)

// Req is one request.
type Req struct {
	HTTPS bool   `json:"https"`
	Host  string `json:"host"`
	Path  string `json:"path"`
}

// Input is one replayable case.
type Input struct {
	DefaultService    string `json:"default_service,omitempty"`
	WatchWithoutClass bool   `json:"watch_without_class"`
	Drain             bool   `json:"drain"`
	Strict            bool   `json:"strict_host,omitempty"` // global strict-host
	// SSLRedirect leaves ssl-redirect at its default (true): http requests of a rule whose
	// host has TLS are redirected to https. Such inputs are judged by the oracle only (the
	// Coq model describes plain routing).
	SSLRedirect bool            `json:"ssl_redirect,omitempty"`
	Objects     []world.ObjJSON `json:"objects"`
	// Steps: batches of changes applied one after the other after the initial cluster (real
	// watchers -> partial syncs -> HAProxyUpdate); the oracle and the model are applied to the
	// rendered state after every step.
	Steps    [][]world.ChangeJSON `json:"steps,omitempty"`
	Requests []Req                `json:"requests"`
	Note     string               `json:"note,omitempty"`
}

var hostPool = []string{"a.example", "b.example", "sub.a.example", "c.example", "", "*.a.example", "*.wild.example", "x.wild.example"}

func genCfg() world.Config {
	return world.Config{MaxIngresses: 7, Classes: true, TLS: true, DefaultBackend: true, NotReady: true,
		Pods: true, PortClash: true, EqualStamps: true, PathTypes: true, HostPool: hostPool}
}

func gen(rng *rand.Rand, search bool) Input {
	cfg := genCfg()
	objs := world.GenCluster(rng, cfg)
	in := Input{WatchWithoutClass: rng.Intn(4) > 0, Drain: rng.Intn(2) == 0, SSLRedirect: rng.Intn(8) == 0, Strict: rng.Intn(4) == 0}
	switch rng.Intn(6) {
	case 0:
		in.DefaultService = "ns1/svc1"
	case 1:
		in.DefaultService = "ns1/svc4"
	case 2:
		in.DefaultService = "ns2/svc3"
	}
	if search && rng.Intn(6) == 0 {
		// two ports of one service sharing the target port, with different endpoints
		svc := world.Service("ns1", "svc2", world.SvcPort{Name: "http", Port: 80, TargetPort: intstr.FromInt(8080)},
			world.SvcPort{Name: "admin", Port: 9001, TargetPort: intstr.FromInt(8080)})
		ep := world.Endpoints("ns1", "svc2", world.EpPort{Name: "http", Port: 8080, Ready: []string{"10.9.0.1"}},
			world.EpPort{Name: "admin", Port: 8080, Ready: []string{"10.9.0.2"}})
		objs = replaceObj(objs, svc)
		objs = replaceObj(objs, ep)
	}
	objs = addPods(rng, objs)
	in.Objects = world.EncodeObjs(objs)
	in.Requests = genRequests(rng, objs)
	if rng.Intn(5) < 2 {
		// a history: drain-support on in 3 of 4
		in.Drain = rng.Intn(4) > 0
		in.WatchWithoutClass = true
		in.Steps = world.EncodeHistory(genSteps(rng, objs, 1+rng.Intn(3)))
	}
	return in
}

// genSteps generates n steps that keep ingresses and classes as they are and change what a
// running cluster changes all the time: readiness flips with an unchanged address set,
// scale up / down, terminating flips of pods, Endpoints deleted / re-created, service port
// changes (port order, targetPort). Each step is one batch of 1..2 changes.
func genSteps(rng *rand.Rand, objs []client.Object, n int) [][]pipeline.Change {
	st := world.NewState(objs)
	var steps [][]pipeline.Change
	for len(steps) < n {
		var batch []pipeline.Change
		for k, m := 0, 1+rng.Intn(2); k < m; k++ {
			if ch := genStepChange(rng, st); ch != nil {
				batch = append(batch, *ch)
				st.Apply([]pipeline.Change{*ch})
			}
		}
		if len(batch) == 0 {
			break
		}
		steps = append(steps, batch)
	}
	return steps
}

// genIngressStep: an ingress is created, replaced or deleted. The new content is one of: only
// host-less rules; only a tls block; a rule of a host that (probably) exists already; only
// spec.defaultBackend; a generated ingress. Valid for the controller without a class
// (inputs with histories always watch ingresses without class).
func genIngressStep(rng *rand.Rand, ings []*networking.Ingress) *pipeline.Change {
	cfg := genCfg()
	cfg.Classes = false
	name := world.IngressNames[rng.Intn(len(world.IngressNames))]
	ns := world.Namespaces[0]
	if rng.Intn(4) == 0 {
		ns = world.Namespaces[rng.Intn(len(world.Namespaces))]
	}
	var old *networking.Ingress
	for _, i := range ings {
		if i.Namespace == ns && i.Name == name {
			old = i
		}
	}
	if old != nil && rng.Intn(4) == 0 {
		return &pipeline.Change{Op: pipeline.Delete, Obj: old}
	}
	path := func() world.IngPath { return world.GenPath(rng, cfg) }
	var ing *networking.Ingress
	switch rng.Intn(6) {
	case 0, 1: // only host-less rules
		ing = world.Ingress(ns, name, 40+rng.Intn(20), world.IngRule{Host: "", Paths: []world.IngPath{path(), path()}})
	case 2: // tls only
		ing = world.Ingress(ns, name, 40+rng.Intn(20))
		ing.Spec.TLS = []networking.IngressTLS{{Hosts: []string{hostPool[rng.Intn(4)]}, SecretName: world.SecretNames[rng.Intn(len(world.SecretNames))]}}
	case 3: // a declared host, most likely one that exists already
		ing = world.Ingress(ns, name, 5+rng.Intn(60), world.IngRule{Host: hostPool[rng.Intn(4)], Paths: []world.IngPath{path(), path()}})
	case 4: // only spec.defaultBackend
		ing = world.Ingress(ns, name, 5+rng.Intn(60))
		p := path()
		b := world.Backend(p.Service, p.PortName, p.PortNum)
		ing.Spec.DefaultBackend = &b
	default:
		ing = world.GenIngress(rng, cfg, rng.Intn(len(world.IngressNames)))
		ing.Namespace, ing.Name = ns, name
	}
	if old != nil {
		ing.CreationTimestamp = old.CreationTimestamp
		return &pipeline.Change{Op: pipeline.Update, Obj: ing}
	}
	return &pipeline.Change{Op: pipeline.Create, Obj: ing}
}

func genStepChange(rng *rand.Rand, st *world.State) *pipeline.Change {
	cur := st.Objects()
	var eps []*api.Endpoints
	var pods []*api.Pod
	var svcs []*api.Service
	for _, o := range cur {
		switch x := o.(type) {
		case *api.Endpoints:
			eps = append(eps, x)
		case *api.Pod:
			pods = append(pods, x)
		case *api.Service:
			svcs = append(svcs, x)
		}
	}
	var ings []*networking.Ingress
	for _, o := range cur {
		if x, ok := o.(*networking.Ingress); ok {
			ings = append(ings, x)
		}
	}
	if rng.Intn(3) == 0 {
		if ch := genIngressStep(rng, ings); ch != nil {
			return ch
		}
	}
	for try := 0; try < 20; try++ {
		switch k := rng.Intn(10); {
		case k < 5 && len(eps) > 0: // readiness flip, same address set
			e := eps[rng.Intn(len(eps))].DeepCopy()
			if len(e.Subsets) == 0 {
				continue
			}
			ss := &e.Subsets[rng.Intn(len(e.Subsets))]
			if len(ss.Addresses) > 0 && (len(ss.NotReadyAddresses) == 0 || rng.Intn(2) == 0) {
				i := rng.Intn(len(ss.Addresses))
				ss.NotReadyAddresses = append(ss.NotReadyAddresses, ss.Addresses[i])
				ss.Addresses = append(ss.Addresses[:i:i], ss.Addresses[i+1:]...)
			} else if len(ss.NotReadyAddresses) > 0 {
				i := rng.Intn(len(ss.NotReadyAddresses))
				ss.Addresses = append(ss.Addresses, ss.NotReadyAddresses[i])
				ss.NotReadyAddresses = append(ss.NotReadyAddresses[:i:i], ss.NotReadyAddresses[i+1:]...)
			} else {
				continue
			}
			return &pipeline.Change{Op: pipeline.Update, Obj: e}
		case k < 7 && len(eps) > 0: // scale up / down, or the Endpoints object goes away
			e := eps[rng.Intn(len(eps))].DeepCopy()
			if rng.Intn(8) == 0 {
				return &pipeline.Change{Op: pipeline.Delete, Obj: e}
			}
			if len(e.Subsets) == 0 {
				continue
			}
			ss := &e.Subsets[rng.Intn(len(e.Subsets))]
			if len(ss.Addresses) > 0 && rng.Intn(2) == 0 {
				ss.Addresses = ss.Addresses[:len(ss.Addresses)-1]
			} else {
				ss.Addresses = append(ss.Addresses, api.EndpointAddress{IP: fmt.Sprintf("10.210.%d.%d", rng.Intn(3), 1+rng.Intn(200))})
			}
			return &pipeline.Change{Op: pipeline.Update, Obj: e}
		case k < 9 && len(pods) > 0: // terminating flip
			p := pods[rng.Intn(len(pods))].DeepCopy()
			if p.DeletionTimestamp == nil {
				t := world.Stamp(100000)
				p.DeletionTimestamp = &t
				p.Finalizers = []string{"verif/hold"}
			} else if rng.Intn(3) == 0 {
				return &pipeline.Change{Op: pipeline.Delete, Obj: p}
			} else {
				p.DeletionTimestamp = nil
			}
			return &pipeline.Change{Op: pipeline.Update, Obj: p}
		case len(svcs) > 0: // service port change
			s := svcs[rng.Intn(len(svcs))].DeepCopy()
			if len(s.Spec.Ports) > 1 && rng.Intn(2) == 0 {
				s.Spec.Ports[0], s.Spec.Ports[1] = s.Spec.Ports[1], s.Spec.Ports[0]
			} else if len(s.Spec.Ports) > 0 && s.Spec.Ports[0].TargetPort.IntValue() > 0 {
				s.Spec.Ports[0].TargetPort = intstr.FromInt(s.Spec.Ports[0].TargetPort.IntValue() + 1)
			} else {
				continue
			}
			return &pipeline.Change{Op: pipeline.Update, Obj: s}
		}
	}
	return nil
}

// addPods adds, for about half of the services that have Endpoints, pods whose
// PodIP + container port equal (a) a READY address of the service's Endpoints (the window
// before the endpoints controller drops a terminating pod), (b) a not-ready address, (c) no
// address at all; terminating or not; selected by the service or by ANOTHER service of the
// namespace. Container ports are named "web" with the endpoint's port number, so that both
// numeric targetPorts and the named targetPort "web" (svc3) resolve (FindContainerPort).
func addPods(rng *rand.Rand, objs []client.Object) []client.Object {
	eps := map[string]*api.Endpoints{}
	for _, o := range objs {
		if e, ok := o.(*api.Endpoints); ok {
			eps[e.Namespace+"/"+e.Name] = e
		}
	}
	n := 0
	for _, o := range objs {
		svc, ok := o.(*api.Service)
		if !ok || rng.Intn(2) == 0 {
			continue
		}
		e := eps[svc.Namespace+"/"+svc.Name]
		if e == nil {
			continue
		}
		for _, ss := range e.Subsets {
			if len(ss.Ports) == 0 {
				continue
			}
			port := int(ss.Ports[0].Port)
			var cands []string
			for _, a := range ss.Addresses {
				cands = append(cands, a.IP)
			}
			for _, a := range ss.NotReadyAddresses {
				cands = append(cands, a.IP)
			}
			cands = append(cands, fmt.Sprintf("10.200.%d.%d", n/200, n%200+1))
			for k, m := 0, 1+rng.Intn(2); k < m; k++ {
				n++
				ipaddr := cands[rng.Intn(len(cands))]
				app := svc.Name
				if rng.Intn(5) == 0 {
					app = world.ServiceNames[rng.Intn(len(world.ServiceNames))] // maybe another service's pod
				}
				pod := world.Pod(svc.Namespace, fmt.Sprintf("%s-t%d", svc.Name, n), app, ipaddr, port, rng.Intn(4) > 0)
				objs = append(objs, pod)
			}
		}
	}
	return objs
}

func replaceObj(objs []client.Object, o client.Object) []client.Object {
	for i := range objs {
		if world.Key(objs[i]) == world.Key(o) {
			objs[i] = o
			return objs
		}
	}
	return append(objs, o)
}

func swapCase(s string) string {
	b := []byte(s)
	for i, c := range b {
		switch {
		case c >= 'a' && c <= 'z':
			b[i] = c - 32
		case c >= 'A' && c <= 'Z':
			b[i] = c + 32
		}
	}
	return string(b)
}

// genRequests: declared hosts x (declared paths and their neighbours), both schemes.
func genRequests(rng *rand.Rand, objs []client.Object) []Req {
	hosts := map[string]bool{"unknown.example": true}
	paths := map[string]bool{"/": true, "/zzz": true}
	for _, o := range objs {
		ing, ok := o.(*networking.Ingress)
		if !ok {
			continue
		}
		for _, r := range ing.Spec.Rules {
			if strings.HasPrefix(r.Host, "*.") {
				// a wildcard host: one label, two labels, the apex
				hosts["sub"+r.Host[1:]] = true
				hosts["a.b"+r.Host[1:]] = true
				hosts[r.Host[2:]] = true
			} else if r.Host != "" {
				hosts[r.Host] = true
			}
			if r.HTTP == nil {
				continue
			}
			for _, p := range r.HTTP.Paths {
				pp := p.Path
				if pp == "" {
					pp = "/"
				}
				paths[pp] = true
				paths[pp+"x"] = true
				paths[strings.TrimSuffix(pp, "/")+"/x"] = true
				if strings.HasSuffix(pp, "/") && len(pp) > 1 {
					paths[strings.TrimSuffix(pp, "/")] = true
				} else {
					paths[pp+"/"] = true
				}
				paths[swapCase(pp)] = true
			}
		}
		for _, t := range ing.Spec.TLS {
			for _, h := range t.Hosts {
				if strings.HasPrefix(h, "*.") {
					hosts["sub"+h[1:]] = true
				} else {
					hosts[h] = true
				}
			}
		}
	}
	hs := hx.SortedKeys(hosts)
	ps := hx.SortedKeys(paths)
	var all []Req
	for _, h := range hs {
		for _, p := range ps {
			all = append(all, Req{false, h, p}, Req{true, h, p})
		}
	}
	rng.Shuffle(len(all), func(i, j int) { all[i], all[j] = all[j], all[i] })
	if len(all) > 36 {
		all = all[:36]
	}
	// host normalisation: port and case
	if len(hs) > 1 {
		h := hs[rng.Intn(len(hs))]
		all = append(all, Req{false, strings.ToUpper(h) + ":8080", ps[rng.Intn(len(ps))]})
	}
	sort.Slice(all, func(i, j int) bool {
		a, b := all[i], all[j]
		if a.Host != b.Host {
			return a.Host < b.Host
		}
		if a.Path != b.Path {
			return a.Path < b.Path
		}
		return !a.HTTPS && b.HTTPS
	})
	return all
}

// Observed is what the written configuration does with one request.
type Observed struct {
	NotFound bool     `json:"not_found,omitempty"`
	Servers  []string `json:"servers"` // sorted "ip:port" / "ip:port:w0"
	Verdict  string   `json:"verdict"`
	Backend  string   `json:"backend,omitempty"`
}

type runResult struct {
	chains   [3][]cfgnorm.Lookup // rendered lookup chains: http host map, https host map, default-host map
	defback  string              // default_backend of _front_http
	backends []string            // names of the rendered backend sections
	objs     []client.Object
	valid    map[string]bool // ingress ns/name -> IsValidIngress
	observed []Observed
	routes   []cfgnorm.RouteResult
	problems []string
}

var runSeq int

// run returns one result per stage: stage 0 = the initial cluster (a full sync), stage i =
// after step i of the history (whatever the real code decides: partial syncs, no reload ...).
func run(o *hx.Opts, in Input) []runResult {
	runSeq++
	dir := filepath.Join(o.Out, "pipe", fmt.Sprintf("p%d", runSeq))
	p := pipeline.New(pipeline.Options{Dir: dir, WatchWithoutClass: in.WatchWithoutClass, DefaultService: in.DefaultService})
	defer p.Close()
	objs := world.DecodeObjs(in.Objects)
	data := map[string]string{}
	if !in.SSLRedirect {
		data["ssl-redirect"] = "false" // plain routing also on port 80
	}
	if in.Drain {
		data["drain-support"] = "true"
	}
	if in.Strict {
		data["strict-host"] = "true"
	}
	all := append([]client.Object{p.GlobalConfigMap(data)}, objs...)
	err := p.Seed(all...)
	stages := []runResult{observe(p, in, objs, err)}
	state := world.NewState(objs)
	for _, step := range world.DecodeHistory(in.Steps) {
		err := p.Apply(step)
		state.Apply(step)
		stages = append(stages, observe(p, in, state.Objects(), err))
	}
	return stages
}

// c01DefaultBackendCause: is the observation what the current cluster gives when the
// spec.defaultBackend of the ingresses created / updated / deleted by the steps so far is read in
// another of its historical states (absent, or as it was before a step)?
func c01DefaultBackendCause(in Input, si int, rr runResult, rq Req, ob Observed) string {
	hist := world.DecodeHistory(in.Steps)
	// versions of the touched ingresses: name -> list of defaultBackend values seen (nil = none)
	type ver = *networking.IngressBackend
	versions := map[string][]ver{}
	for _, o := range world.DecodeObjs(in.Objects) {
		if ing, ok := o.(*networking.Ingress); ok {
			versions[ing.Namespace+"/"+ing.Name] = []ver{ing.Spec.DefaultBackend}
		}
	}
	touched := map[string]bool{}
	for _, step := range hist[:si] {
		for _, ch := range step {
			ing, ok := ch.Obj.(*networking.Ingress)
			if !ok {
				continue
			}
			k := ing.Namespace + "/" + ing.Name
			touched[k] = true
			if ch.Op == pipeline.Delete {
				versions[k] = append(versions[k], nil)
			} else {
				versions[k] = append(versions[k], ing.Spec.DefaultBackend)
			}
		}
	}
	any := false
	for k := range touched {
		for _, v := range versions[k] {
			if v != nil {
				any = true
			}
		}
	}
	if !any {
		return ""
	}
	// try: every touched ingress with each of its historical defaultBackend values (small product, capped)
	keys := hx.SortedKeys(touched)
	var try func(i int, objs []client.Object, budget *int) bool
	try = func(i int, objs []client.Object, budget *int) bool {
		if *budget <= 0 {
			return false
		}
		if i == len(keys) {
			*budget--
			alt := rr
			alt.objs = objs
			return specCluster(in, alt).route(rq).agreesB(ob)
		}
		seen := map[string]bool{}
		for _, v := range append([]ver{nil}, versions[keys[i]]...) {
			sig := fmt.Sprint(v == nil)
			if v != nil && v.Service != nil {
				sig = v.Service.Name + fmt.Sprint(v.Service.Port)
			}
			if seen[sig] {
				continue
			}
			seen[sig] = true
			var next []client.Object
			found := false
			for _, o := range objs {
				if ing, ok := o.(*networking.Ingress); ok && ing.Namespace+"/"+ing.Name == keys[i] {
					c := ing.DeepCopy()
					c.Spec.DefaultBackend = v
					next = append(next, c)
					found = true
				} else {
					next = append(next, o)
				}
			}
			if !found && v != nil {
				// the ingress is gone now but its default backend may still be configured
				ns, name, _ := strings.Cut(keys[i], "/")
				g := world.Ingress(ns, name, 1)
				g.Spec.DefaultBackend = v
				next = append(next, g)
				alt := rr
				alt.valid = map[string]bool{}
				for k2, b := range rr.valid {
					alt.valid[k2] = b
				}
				alt.valid[keys[i]] = true
				rrCopy := alt
				rrCopy.objs = next
				if i+1 == len(keys) {
					*budget--
					if specCluster(in, rrCopy).route(rq).agreesB(ob) {
						return true
					}
					continue
				}
			}
			if try(i+1, next, budget) {
				return true
			}
		}
		return false
	}
	budget := 64
	if try(0, rr.objs, &budget) {
		return "ingress-default-backend-not-pretracked"
	}
	return ""
}

// observe reads what is on disk now and routes the requests through it.
func observe(p *pipeline.Pipeline, in Input, objs []client.Object, applyErr error) runResult {
	res := runResult{objs: objs, valid: map[string]bool{}}
	if applyErr != nil {
		res.problems = append(res.problems, "HAProxyUpdate: "+applyErr.Error())
		return res
	}
	for _, ob := range objs {
		if ing, ok := ob.(*networking.Ingress); ok {
			res.valid[ing.Namespace+"/"+ing.Name] = p.IsValidIngress(ing)
		}
	}
	nf, err := cfgnorm.Load(p.Dir(), p.Prefix())
	if err != nil {
		res.problems = append(res.problems, "cfgnorm: "+err.Error())
		return res
	}
	res.problems = append(res.problems, nf.Problems...)
	for _, b := range nf.Backends {
		res.backends = append(res.backends, b.Name)
	}
	// the map files as rendered, in the order of the lookup chains of the rendered frontends
	if f := nf.Frontend("_front_http"); f != nil {
		res.defback = f.DefaultBackend
		for _, lk := range f.Lookups {
			switch lk.Var {
			case "req.backend":
				res.chains[0] = append(res.chains[0], lk)
			case "req.defaultbackend":
				res.chains[2] = append(res.chains[2], lk)
			}
		}
	}
	if f := nf.Frontend("_front_https"); f != nil {
		var def []cfgnorm.Lookup
		for _, lk := range f.Lookups {
			switch lk.Var {
			case "req.hostbackend":
				res.chains[1] = append(res.chains[1], lk)
			case "req.defaultbackend":
				def = append(def, lk)
			}
		}
		if fmt.Sprint(lookupFiles(def)) != fmt.Sprint(lookupFiles(res.chains[2])) || f.DefaultBackend != res.defback {
			res.problems = append(res.problems, "the two frontends differ in the default-host chain or the default_backend")
		}
	}
	if os.Getenv("C03_DEBUG") != "" {
		fmt.Println(nf.Text())
		for _, l := range p.ConvLog.Take() {
			fmt.Println("conv:", l)
		}
	}
	for _, rq := range in.Requests {
		scheme := "http"
		if rq.HTTPS {
			scheme = "https"
		}
		r := cfgnorm.Route(nf, cfgnorm.Request{Scheme: scheme, Host: rq.Host, Path: rq.Path})
		ob := Observed{Verdict: r.Verdict, Backend: r.Backend, Servers: []string{}}
		switch r.Verdict {
		case "backend":
			ob.Servers = append(ob.Servers, r.ServerKeys()...)
			sort.Strings(ob.Servers)
		case "404":
			ob.NotFound = true
		case "redirect":
			if !strings.Contains(r.Detail, "redirect scheme https") {
				ob.Verdict = "redirect:" + r.Detail
			}
		}
		if os.Getenv("C03_DEBUG") != "" {
			fmt.Printf("route %v -> %s %s %v\n", rq, r.Verdict, r.Backend, r.ServerKeys())
		}
		if len(r.Notes) > 0 {
			res.problems = append(res.problems, fmt.Sprintf("evaluator notes for %v: %v", rq, r.Notes))
		}
		res.observed = append(res.observed, ob)
		res.routes = append(res.routes, r)
	}
	return res
}

func lookupFiles(ls []cfgnorm.Lookup) []string {
	var out []string
	for _, l := range ls {
		out = append(out, l.File+" "+l.Method)
	}
	return out
}

// ---------------------------------------------------------------- Coq terms

func coqChain(ls []cfgnorm.Lookup) string {
	var files []string
	for _, l := range ls {
		meth := map[string]string{"str": "mS", "beg": "mB", "dir": "mD", "reg": "mR"}[l.Method]
		if meth == "" {
			meth = "mR"
		}
		var kvs []string
		for _, e := range l.Entries {
			kvs = append(kvs, hx.Tuple(hx.Str(e.Key), hx.Str(e.Value)))
		}
		files = append(files, hx.Tuple(meth, hx.Bool(l.Lower), hx.List(kvs)))
	}
	return hx.List(files)
}

func coqPortRef(name string, number int32) string {
	pr := specPortRef(name, number)
	return fmt.Sprintf("(PR %s %s)", hx.Str(pr.Str), hx.Opt(pr.HasNum, hx.Z(int64(pr.Num))))
}

func coqPType(t *networking.PathType) string {
	switch specPathType(t) {
	case ptExact:
		return "Exact"
	case ptPrefix:
		return "Prefix"
	}
	return "Begin"
}

func coqPairs(m map[string]string) string {
	var items []string
	for _, k := range hx.SortedKeys(m) {
		items = append(items, hx.Tuple(hx.Str(k), hx.Str(m[k])))
	}
	return hx.List(items)
}

func coqStrs(ss []string) string {
	var items []string
	for _, s := range ss {
		items = append(items, hx.Str(s))
	}
	return hx.List(items)
}

func coqCluster(in Input, rr runResult) string {
	var ings, svcs, eps, pods []string
	for _, ob := range rr.objs {
		switch o := ob.(type) {
		case *networking.Ingress:
			def := "None"
			if b := o.Spec.DefaultBackend; b != nil && b.Service != nil {
				def = fmt.Sprintf("(Some (%s, %s))", hx.Str(b.Service.Name), coqPortRef(b.Service.Port.Name, b.Service.Port.Number))
			}
			var rules []string
			for _, r := range o.Spec.Rules {
				if r.HTTP == nil {
					continue
				}
				var paths []string
				for _, p := range r.HTTP.Paths {
					if p.Backend.Service == nil {
						continue
					}
					paths = append(paths, fmt.Sprintf("IP %s %s %s %s", hx.Str(p.Path), coqPType(p.PathType), hx.Str(p.Backend.Service.Name),
						coqPortRef(p.Backend.Service.Port.Name, p.Backend.Service.Port.Number)))
				}
				rules = append(rules, fmt.Sprintf("IR %s %s", hx.Str(r.Host), hx.List(paths)))
			}
			var tls []string
			for _, t := range o.Spec.TLS {
				tls = append(tls, t.Hosts...)
			}
			ings = append(ings, fmt.Sprintf("ING %s %s %s %s %s %s %s", hx.Z(o.CreationTimestamp.Unix()), hx.Str(o.Namespace), hx.Str(o.Name),
				hx.Bool(rr.valid[o.Namespace+"/"+o.Name]), def, hx.List(rules), coqStrs(tls)))
		case *api.Service:
			var ports []string
			for _, p := range o.Spec.Ports {
				ports = append(ports, fmt.Sprintf("SP %s %s %s %s %s", hx.Str(p.Name), hx.Z(int64(p.Port)), hx.Str(p.TargetPort.String()),
					hx.Z(int64(p.TargetPort.IntValue())), hx.Str(string(p.Protocol))))
			}
			svcs = append(svcs, fmt.Sprintf("SVC %s %s %s %s", hx.Str(o.Namespace), hx.Str(o.Name), hx.List(ports), coqPairs(o.Spec.Selector)))
		case *api.Endpoints:
			var sss []string
			for _, ss := range o.Subsets {
				var ports, ready, notready []string
				for _, p := range ss.Ports {
					ports = append(ports, fmt.Sprintf("EPP %s %s %s", hx.Str(p.Name), hx.Z(int64(p.Port)), hx.Bool(p.Protocol == api.ProtocolTCP)))
				}
				for _, a := range ss.Addresses {
					ready = append(ready, hx.Str(a.IP))
				}
				for _, a := range ss.NotReadyAddresses {
					notready = append(notready, hx.Str(a.IP))
				}
				sss = append(sss, fmt.Sprintf("SS %s %s %s", hx.List(ports), hx.List(ready), hx.List(notready)))
			}
			eps = append(eps, fmt.Sprintf("EP %s %s %s", hx.Str(o.Namespace), hx.Str(o.Name), hx.List(sss)))
		case *api.Pod:
			var cps []string
			for _, c := range o.Spec.Containers {
				for _, p := range c.Ports {
					cps = append(cps, fmt.Sprintf("CP %s %s %s", hx.Str(p.Name), hx.Str(string(p.Protocol)), hx.Z(int64(p.ContainerPort))))
				}
			}
			pods = append(pods, fmt.Sprintf("POD %s %s %s %s %s", hx.Str(o.Namespace), coqPairs(o.Labels), hx.Str(o.Status.PodIP),
				hx.Bool(specTerminating(o)), hx.List(cps)))
		}
	}
	def := "None"
	if in.DefaultService != "" {
		ns, name, _ := strings.Cut(in.DefaultService, "/")
		def = fmt.Sprintf("(Some (%s, %s))", hx.Str(ns), hx.Str(name))
	}
	return fmt.Sprintf("(CL %s\n  %s\n  %s\n  %s %s %s)", hx.List(ings), hx.List(svcs), hx.List(eps), hx.List(pods), def, hx.Bool(in.Drain))
}

func coqObs(ob Observed) string {
	if ob.NotFound {
		return "ONotFound"
	}
	var items []string
	for _, s := range ob.Servers {
		drain := strings.HasSuffix(s, ":w0")
		s = strings.TrimSuffix(s, ":w0")
		i := strings.LastIndex(s, ":")
		var port int64
		fmt.Sscanf(s[i+1:], "%d", &port)
		items = append(items, hx.Tuple(hx.Str(s[:i]), hx.Z(port), hx.Bool(drain)))
	}
	return "(OServe " + hx.List(items) + ")"
}

func coqCase(id int, in Input, rr runResult) string {
	var reqs []string
	for i, rq := range in.Requests {
		reqs = append(reqs, hx.Tuple(fmt.Sprintf("RQ %s %s %s", hx.Bool(rq.HTTPS), hx.Str(rq.Host), hx.Str(rq.Path)), coqObs(rr.observed[i]),
			hx.Str(rr.observed[i].Backend)))
	}
	defback := "None"
	if rr.defback != "" && rr.defback != "_error404" {
		defback = "(Some " + hx.Str(rr.defback) + ")"
	}
	return fmt.Sprintf("{| cid := %s; ccl := %s; cstrict := %s;\n  chttp := %s;\n  chttps := %s;\n  cdefault := %s;\n  cdefback := %s; cbackends := %s;\n  creqs := %s |}",
		hx.N(id), coqCluster(in, rr), hx.Bool(in.Strict), coqChain(rr.chains[0]), coqChain(rr.chains[1]), coqChain(rr.chains[2]), defback, coqStrs(rr.backends), hx.List(reqs))
}

// ---------------------------------------------------------------- corpus

func corpus() []Input {
	mk := func(note string, def string, drain bool, reqs []Req, objs ...client.Object) Input {
		return Input{DefaultService: def, WatchWithoutClass: true, Drain: drain, Objects: world.EncodeObjs(objs), Requests: reqs, Note: note}
	}
	root := []Req{{false, "a.example", "/"}, {false, "a.example", "/b"}, {true, "a.example", "/"}, {false, "unknown.example", "/"}}
	var out []Input
	// the Ingress names Service port NUMBER 8080 (p1 -> pods' 9090); p2 (port 80) has targetPort 8080
	out = append(out, mk("service port number equal to another port's targetPort", "", false, root,
		world.Service("ns1", "svc4", world.SvcPort{Name: "p2", Port: 80, TargetPort: intstr.FromInt(8080)}, world.SvcPort{Name: "p1", Port: 8080, TargetPort: intstr.FromInt(9090)}),
		world.Endpoints("ns1", "svc4", world.EpPort{Name: "p1", Port: 9090, Ready: []string{"10.0.0.1"}}, world.EpPort{Name: "p2", Port: 8080, Ready: []string{"10.0.0.2"}}),
		world.Ingress("ns1", "ing1", 10, world.IngRule{Host: "a.example", Paths: []world.IngPath{{Path: "/", Type: "Prefix", Service: "svc4", PortNum: 8080}}})))
	// the Ingress names Service port NAME "web"; port "a" has targetPort "web"
	out = append(out, mk("service port name equal to another port's targetPort name", "", false, root,
		world.Service("ns1", "svc4", world.SvcPort{Name: "a", Port: 80, TargetPort: intstr.FromString("web")}, world.SvcPort{Name: "web", Port: 81, TargetPort: intstr.FromInt(9090)}),
		world.Endpoints("ns1", "svc4", world.EpPort{Name: "a", Port: 8080, Ready: []string{"10.0.0.2"}}, world.EpPort{Name: "web", Port: 9090, Ready: []string{"10.0.0.1"}}),
		world.Ingress("ns1", "ing1", 10, world.IngRule{Host: "a.example", Paths: []world.IngPath{{Path: "/", Type: "Prefix", Service: "svc4", PortName: "web"}}})))
	// two ports sharing the target port, endpoints differ: one backend section for both
	out = append(out, mk("two service ports share the target port but not the endpoints", "", false, root,
		world.Service("ns1", "svc1", world.SvcPort{Name: "a", Port: 80, TargetPort: intstr.FromInt(8080)}, world.SvcPort{Name: "b", Port: 81, TargetPort: intstr.FromInt(8080)}),
		world.Endpoints("ns1", "svc1", world.EpPort{Name: "a", Port: 8080, Ready: []string{"10.0.0.1"}}, world.EpPort{Name: "b", Port: 8080, Ready: []string{"10.0.0.2"}}),
		world.Ingress("ns1", "ing1", 10, world.IngRule{Host: "a.example", Paths: []world.IngPath{{Path: "/a", Type: "Prefix", Service: "svc1", PortNum: 80}, {Path: "/b", Type: "Prefix", Service: "svc1", PortNum: 81}}})))
	// first-created ingress wins a duplicated path; the younger one keeps its other path; drain
	ing1 := world.Ingress("ns1", "ing1", 20, world.IngRule{Host: "a.example", Paths: []world.IngPath{{Path: "/", Type: "Prefix", Service: "svc1", PortNum: 80}, {Path: "/b", Type: "Exact", Service: "svc1", PortName: "http"}}})
	ing2 := world.Ingress("ns1", "ing2", 10, world.IngRule{Host: "a.example", Paths: []world.IngPath{{Path: "/", Type: "Prefix", Service: "svc2", PortNum: 80}}})
	ing2.Spec.TLS = []networking.IngressTLS{{Hosts: []string{"a.example"}}}
	out = append(out, mk("duplicated path: the older ingress wins; not-ready endpoint under drain-support", "ns1/svc2", true, root,
		world.Service("ns1", "svc1", world.SvcPort{Name: "http", Port: 80, TargetPort: intstr.FromInt(8080)}),
		world.Endpoints("ns1", "svc1", world.EpPort{Name: "http", Port: 8080, Ready: []string{"10.0.0.1"}, NotReady: []string{"10.0.0.3"}}),
		world.Service("ns1", "svc2", world.SvcPort{Name: "http", Port: 80, TargetPort: intstr.FromInt(8080)}),
		world.Endpoints("ns1", "svc2", world.EpPort{Name: "http", Port: 8080, Ready: []string{"10.0.0.2"}, NotReady: []string{"10.0.0.4"}}),
		world.Pod("ns1", "svc2-pod1", "svc2", "10.0.0.9", 8080, true),
		ing1, ing2))
	// drain-support: a terminating pod that the Endpoints object still lists as ready must be drained;
	// numeric and named targetPort; a terminating pod of another service and a running pod change nothing
	out = append(out, mk("terminating pods still listed as ready addresses (drain-support on)", "", true,
		[]Req{{false, "a.example", "/"}, {false, "a.example", "/n"}},
		world.Service("ns1", "svc1", world.SvcPort{Name: "http", Port: 80, TargetPort: intstr.FromInt(8080)}),
		world.Endpoints("ns1", "svc1", world.EpPort{Name: "http", Port: 8080, Ready: []string{"10.0.0.1", "10.0.0.2", "10.0.0.5"}, NotReady: []string{"10.0.0.3"}}),
		world.Service("ns1", "svc3", world.SvcPort{Name: "", Port: 80, TargetPort: intstr.FromString("web")}),
		world.Endpoints("ns1", "svc3", world.EpPort{Name: "", Port: 8002, Ready: []string{"10.0.1.1", "10.0.1.2"}}),
		world.Pod("ns1", "svc1-t1", "svc1", "10.0.0.2", 8080, true),
		world.Pod("ns1", "svc1-t2", "svc1", "10.0.0.3", 8080, true),
		world.Pod("ns1", "svc1-t3", "svc1", "10.0.0.9", 8080, true),
		world.Pod("ns1", "svc1-r1", "svc1", "10.0.0.1", 8080, false),
		world.Pod("ns1", "svc2-t1", "svc2", "10.0.0.5", 8080, true),
		world.Pod("ns1", "svc3-t1", "svc3", "10.0.1.2", 8002, true),
		world.Ingress("ns1", "ing1", 10, world.IngRule{Host: "a.example", Paths: []world.IngPath{
			{Path: "/", Type: "Prefix", Service: "svc1", PortNum: 80}, {Path: "/n", Type: "Prefix", Service: "svc3", PortNum: 80}}})))
	// history: readiness flips with an unchanged address set under drain-support (ready -> not ready -> ready)
	{
		svc := world.Service("ns1", "svc1", world.SvcPort{Name: "http", Port: 80, TargetPort: intstr.FromInt(8080)})
		ep0 := world.Endpoints("ns1", "svc1", world.EpPort{Name: "http", Port: 8080, Ready: []string{"10.0.0.1", "10.0.0.2"}})
		ep1 := world.Endpoints("ns1", "svc1", world.EpPort{Name: "http", Port: 8080, Ready: []string{"10.0.0.1"}, NotReady: []string{"10.0.0.2"}})
		h := mk("history: an address moves to notReadyAddresses and back, same address set (drain-support on)", "", true,
			[]Req{{false, "a.example", "/"}},
			svc, ep0,
			world.Ingress("ns1", "ing1", 10, world.IngRule{Host: "a.example", Paths: []world.IngPath{{Path: "/", Type: "Prefix", Service: "svc1", PortNum: 80}}}))
		h.Steps = world.EncodeHistory([][]pipeline.Change{{{Op: pipeline.Update, Obj: ep1}}, {{Op: pipeline.Update, Obj: ep0}}})
		out = append(out, h)
	}
	// wildcard host: one label / two labels / apex / upper case / port; exact sibling host with fall
	// through; the four deviations of the regex rendering (witness of C03_wildcard_full_spec_refuted)
	{
		objs := []client.Object{
			world.Service("ns1", "svc1", world.SvcPort{Name: "http", Port: 80, TargetPort: intstr.FromInt(8080)}),
			world.Endpoints("ns1", "svc1", world.EpPort{Name: "http", Port: 8080, Ready: []string{"10.0.0.1"}}),
			world.Service("ns1", "svc2", world.SvcPort{Name: "http", Port: 80, TargetPort: intstr.FromInt(8080)}),
			world.Endpoints("ns1", "svc2", world.EpPort{Name: "http", Port: 8080, Ready: []string{"10.0.0.2"}}),
			world.Service("ns1", "svc3", world.SvcPort{Name: "http", Port: 80, TargetPort: intstr.FromInt(8080)}),
			world.Endpoints("ns1", "svc3", world.EpPort{Name: "http", Port: 8080, Ready: []string{"10.0.0.3"}}),
			world.Ingress("ns1", "ing1", 10,
				world.IngRule{Host: "*.wild.example", Paths: []world.IngPath{
					{Path: "/app/sub", Type: "Exact", Service: "svc1", PortNum: 80},
					{Path: "/app", Type: "Prefix", Service: "svc2", PortNum: 80},
					{Path: "/Beg", Type: "ImplementationSpecific", Service: "svc1", PortNum: 80},
					{Path: "/dir/", Type: "Prefix", Service: "svc1", PortNum: 80}}},
				world.IngRule{Host: "a.wild.example", Paths: []world.IngPath{{Path: "/only", Type: "Prefix", Service: "svc3", PortNum: 80}}},
				world.IngRule{Host: "", Paths: []world.IngPath{{Path: "/", Type: "Prefix", Service: "svc3", PortNum: 80}}}),
		}
		reqs := []Req{{false, "sub.wild.example", "/app/x"}, {false, "SUB.Wild.Example:8080", "/app"}, {false, "a.b.wild.example", "/app"},
			{false, "wild.example", "/app"}, {false, "a.wild.example", "/only/1"}, {false, "a.wild.example", "/app"}, {true, "sub.wild.example", "/app"},
			{false, "sub.wild.example", "/app/sub"}, {false, "sub.wild.example", "/appx"}, {false, "sub.wild.example", "/dir"}, {false, "sub.wild.example", "/beg/1"}}
		out = append(out, mk("wildcard host *.wild.example with the exact sibling a.wild.example (strict-host off)", "", false, reqs, objs...))
		s := mk("wildcard host *.wild.example with the exact sibling a.wild.example (strict-host on)", "", false, reqs, objs...)
		s.Strict = true
		out = append(out, s)
	}
	// history with strict-host: host b.example only has /only, so SyncConfig gives it a ("/", begin) path
	// bound to the default host's root backend ns1_svc1_8080; then svc1's targetPort changes (backend
	// id becomes ns1_svc1_8081): is b.example's strict path rebuilt by the partial sync?
	{
		svcA := world.Service("ns1", "svc1", world.SvcPort{Name: "http", Port: 80, TargetPort: intstr.FromInt(8080)})
		svcA2 := world.Service("ns1", "svc1", world.SvcPort{Name: "http", Port: 80, TargetPort: intstr.FromInt(8081)})
		h := mk("history, strict-host: the default host's root service changes its targetPort", "ns1/svc3", false,
			[]Req{{false, "b.example", "/zzz"}, {false, "b.example", "/only/1"}, {false, "unknown.example", "/zzz"}},
			svcA, world.Endpoints("ns1", "svc1", world.EpPort{Name: "http", Port: 8080, Ready: []string{"10.0.0.1"}}),
			world.Service("ns1", "svc2", world.SvcPort{Name: "http", Port: 80, TargetPort: intstr.FromInt(8080)}),
			world.Endpoints("ns1", "svc2", world.EpPort{Name: "http", Port: 8080, Ready: []string{"10.0.0.2"}}),
			world.Service("ns1", "svc3", world.SvcPort{Name: "http", Port: 80, TargetPort: intstr.FromInt(8080)}),
			world.Endpoints("ns1", "svc3", world.EpPort{Name: "http", Port: 8080, Ready: []string{"10.0.0.3"}}),
			world.Ingress("ns1", "ing1", 10, world.IngRule{Host: "", Paths: []world.IngPath{{Path: "/", Type: "Prefix", Service: "svc1", PortNum: 80}}}),
			world.Ingress("ns1", "ing2", 11, world.IngRule{Host: "b.example", Paths: []world.IngPath{{Path: "/only", Type: "Prefix", Service: "svc2", PortNum: 80}}}))
		h.Strict = true
		h.Steps = world.EncodeHistory([][]pipeline.Change{{{Op: pipeline.Update, Obj: svcA2}}})
		out = append(out, h)
	}
	// history: the default host exists (ing1 "" /app -> svc1); ing2 with ONLY a host-less rule towards a
	// service the default host does not use yet is created by a partial sync
	{
		h := mk("history: an ingress with only a host-less rule is added while the default host exists", "", false,
			[]Req{{false, "other.example", "/app/x"}, {false, "other.example", "/api"}, {false, "other.example", "/zzz"}},
			world.Service("ns1", "svc1", world.SvcPort{Name: "http", Port: 80, TargetPort: intstr.FromInt(8080)}),
			world.Endpoints("ns1", "svc1", world.EpPort{Name: "http", Port: 8080, Ready: []string{"10.0.0.1"}}),
			world.Service("ns1", "svc2", world.SvcPort{Name: "http", Port: 80, TargetPort: intstr.FromInt(8080)}),
			world.Endpoints("ns1", "svc2", world.EpPort{Name: "http", Port: 8080, Ready: []string{"10.0.0.2"}}),
			world.Ingress("ns1", "ing1", 10, world.IngRule{Host: "", Paths: []world.IngPath{{Path: "/app", Type: "Prefix", Service: "svc1", PortNum: 80}}}))
		ing2 := world.Ingress("ns1", "ing2", 20, world.IngRule{Host: "", Paths: []world.IngPath{
			{Path: "/app/x", Type: "Prefix", Service: "svc2", PortNum: 80}, {Path: "/api", Type: "Prefix", Service: "svc2", PortNum: 80}}})
		h.Steps = world.EncodeHistory([][]pipeline.Change{{{Op: pipeline.Create, Obj: ing2}}})
		out = append(out, h)
	}
	// full sync: an older ingress declares the default host's root as Exact, a newer ingress has
	// spec.defaultBackend: its ("/", begin) path of the default host is another (host, path, type) and must
	// be there: other.example/x reaches svc2 through the default host, "/" exactly reaches svc1
	{
		old := world.Ingress("ns1", "ing1", 10, world.IngRule{Host: "", Paths: []world.IngPath{{Path: "/", Type: "Exact", Service: "svc1", PortNum: 80}}})
		young := world.Ingress("ns1", "ing2", 20)
		b := world.Backend("svc2", "", 80)
		young.Spec.DefaultBackend = &b
		out = append(out, mk("default host: older Exact / and a newer ingress with spec.defaultBackend", "", false,
			[]Req{{false, "other.example", "/x"}, {false, "other.example", "/"}, {true, "other.example", "/x"}, {false, "a.example", "/app"}},
			world.Service("ns1", "svc1", world.SvcPort{Name: "http", Port: 80, TargetPort: intstr.FromInt(8080)}),
			world.Endpoints("ns1", "svc1", world.EpPort{Name: "http", Port: 8080, Ready: []string{"10.0.0.1"}}),
			world.Service("ns1", "svc2", world.SvcPort{Name: "http", Port: 80, TargetPort: intstr.FromInt(8080)}),
			world.Endpoints("ns1", "svc2", world.EpPort{Name: "http", Port: 8080, Ready: []string{"10.0.0.2"}}),
			old, young))
	}
	// witness of C03_maps_agree_refuted: /api ImplementationSpecific and /api Prefix on one host (plus / Prefix).
	// The request /api is ambiguous (left unjudged: C04 leaves the order of equal-length rules
	// unspecified); the real maps answer the begin rule (svc1), like the model of the generator.
	out = append(out, mk("tie: /api begin and /api prefix on one host (witness of C03_maps_agree_refuted)", "", false,
		[]Req{{false, "a.example", "/api"}, {false, "a.example", "/api/x"}, {false, "a.example", "/other"}},
		world.Service("ns1", "svc1", world.SvcPort{Name: "http", Port: 80, TargetPort: intstr.FromInt(8080)}),
		world.Endpoints("ns1", "svc1", world.EpPort{Name: "http", Port: 8080, Ready: []string{"10.0.0.1"}}),
		world.Service("ns1", "svc2", world.SvcPort{Name: "http", Port: 80, TargetPort: intstr.FromInt(8080)}),
		world.Endpoints("ns1", "svc2", world.EpPort{Name: "http", Port: 8080, Ready: []string{"10.0.0.2"}}),
		world.Ingress("ns1", "ing1", 10, world.IngRule{Host: "a.example", Paths: []world.IngPath{
			{Path: "/api", Type: "ImplementationSpecific", Service: "svc1", PortNum: 80},
			{Path: "/api", Type: "Prefix", Service: "svc2", PortNum: 80},
			{Path: "/", Type: "Prefix", Service: "svc2", PortNum: 80}}})))
	// --default-backend-service whose service is otherwise only used by a TLS host, ssl-redirect on
	tlsIng := world.Ingress("ns1", "ing1", 10, world.IngRule{Host: "t.example", Paths: []world.IngPath{{Path: "/", Type: "Prefix", Service: "svc1", PortNum: 80}}})
	tlsIng.Spec.TLS = []networking.IngressTLS{{Hosts: []string{"t.example"}}}
	red := mk("default backend service only used by a TLS host: plain http request of an unknown host", "ns1/svc1", false,
		[]Req{{false, "unknown.example", "/x"}, {true, "unknown.example", "/x"}, {false, "t.example", "/x"}, {true, "t.example", "/x"}},
		world.Service("ns1", "svc1", world.SvcPort{Name: "http", Port: 80, TargetPort: intstr.FromInt(8080)}),
		world.Endpoints("ns1", "svc1", world.EpPort{Name: "http", Port: 8080, Ready: []string{"10.0.0.1"}}),
		tlsIng)
	red.SSLRedirect = true
	out = append(out, red)
	return out
}

// loadCorpusDir reads past failures stored as replay files in /verif/corpus/C03 (files named
// builtin-*.json are copies of corpus() kept for readers and are skipped).
func loadCorpusDir() []Input {
	var out []Input
	files, _ := filepath.Glob("/verif/corpus/C03/*.json")
	sort.Strings(files)
	for _, f := range files {
		if strings.HasPrefix(filepath.Base(f), "builtin-") {
			continue
		}
		b, err := os.ReadFile(f)
		if err != nil {
			continue
		}
		var doc struct {
			Input Input `json:"input"`
		}
		if json.Unmarshal(b, &doc) == nil && len(doc.Input.Objects) > 0 {
			out = append(out, doc.Input)
		}
	}
	return out
}

// ---------------------------------------------------------------- main

func main() {
	o := hx.Parse()
	rng := o.Rng()
	if d := os.Getenv("C03_DUMP_CORPUS"); d != "" {
		for i, in := range corpus() {
			b, _ := json.MarshalIndent(map[string]interface{}{"property": "C03", "what": in.Note, "input": in}, "", " ")
			_ = os.WriteFile(filepath.Join(d, fmt.Sprintf("builtin-%02d.json", i+1)), b, 0o644)
		}
	}
	res := hx.NewResult("C03", "generated clusters over shared pools (3 namespaces, 4 hosts + the default host, 9 paths with case / trailing-slash variants, 4 services x 2 ports incl. a port-number/targetPort clash, ready / not-ready endpoints, terminating pods, tls blocks, default backends, valid and invalid ingress classes, equal creation stamps), each with up to 37 requests over declared hosts/paths and neighbours, both schemes; 2 in 5 inputs continue as a HISTORY of 1..3 incremental steps through the real watchers (readiness flips with an unchanged address set, scale up/down, terminating flips, Endpoints deleted, service port order / targetPort changes; drain-support on in 3 of 4) and are judged again after every step; non-trivial = at least two declarations of one host or a duplicated (host,path,type); distinct by the canonical JSON of objects+requests")
	cw := hx.NewCaseWriter(o, res, "From HI Require Import Corr.Corr_C03.", "rcase", 25)
	var inputs []Input
	if o.Replay != "" {
		var in Input
		hx.ReadReplay(o.Replay, &in)
		inputs = append(inputs, in)
	} else {
		inputs = append(inputs, corpus()...)
		inputs = append(inputs, loadCorpusDir()...)
		n := o.Count(230, 2000)
		for i := 0; i < n; i++ {
			inputs = append(inputs, gen(rng, o.Search))
		}
	}
	for _, in := range inputs {
		stages := run(o, in)
		canon, _ := json.Marshal(in)
		res.Count(fmt.Sprintf("steps=%d", len(in.Steps)))
		for si, rr := range stages {
			stage := ""
			if si > 0 {
				stage = fmt.Sprintf(" [after step %d of %d]", si, len(in.Steps))
				res.Count("stages_after_a_step")
			}
			cl := specCluster(in, rr)
			nontrivial := cl.nontrivial()
			res.Seen(fmt.Sprintf("%s#%d", canon, si), nontrivial)
			res.Count(fmt.Sprintf("ingresses=%d", len(cl.ings)))
			res.Count(fmt.Sprintf("valid_ingresses=%d", cl.validCount()))
			res.Count(fmt.Sprintf("requests=%d", len(in.Requests)))
			if nontrivial {
				res.Count("nontrivial")
			}
			for _, p := range rr.problems {
				res.Count("problem")
				res.Fail(hx.Failure{Key: "C03/evaluator-problem", What: p + stage, Input: in})
			}
			if len(rr.observed) != len(in.Requests) {
				continue
			}
			// oracle: the property read directly on the objects as they are now
			fails := 0
			c01skips := 0
			staleStrict := false
			var keptReqs []Req
			var keptObs []Observed
			for i, rq := range in.Requests {
				exp := cl.route(rq)
				ob := rr.observed[i]
				if which := cl.wildSituation(rq); which != "" {
					// documented regex reading of wildcard hosts differing from the declared path type: counted, not judged against the type
					bucket := "documented-wildcard-regex:" + which
					res.Count(bucket)
					if _, seen := res.Extra[bucket]; !seen {
						res.Extra[bucket] = map[string]interface{}{"request": rq, "observed": ob, "expected_by_regex_reading": exp, "note": in.Note, "reproduce": "corpus/C03: builtin case 'wildcard host *.wild.example with the exact sibling a.wild.example'"}
					}
				}
				if exp.Ambiguous {
					res.Count("skipped_ambiguous_" + map[bool]string{true: "wildcard_overlap", false: "prefix_begin_tie"}[strings.HasPrefix(exp.Via, "wildcard host")])
					continue
				}
				keptReqs = append(keptReqs, rq)
				keptObs = append(keptObs, ob)
				res.OracleChecks++
				res.Count("verdict_" + ob.Verdict)
				res.Count("expect_" + exp.Kind)
				if !exp.agreesB(ob) && si > 0 {
					// C01/ingress-default-backend-not-pretracked (known): the spec.defaultBackend of an ingress
					// added or updated by a partial sync is not applied (or an older one stays) until a full
					// sync (servers, or only the backend section when two sections hold the same servers). Left unjudged only when the observation is exactly what the cluster gives with the
					// default-backend declarations of the ingresses touched by the steps taken as absent / as before.
					if cause := c01DefaultBackendCause(in, si, rr, rq, ob); cause != "" {
						res.Count("unjudged_known_C01:" + cause)
						keptReqs = keptReqs[:len(keptReqs)-1]
						keptObs = keptObs[:len(keptObs)-1]
						c01skips++
						continue
					}
				}
				if ok, what := exp.agrees(ob); !ok {
					fails++
					if fails <= 3 {
						key := cl.classify(rq, exp, ob)
						if si > 0 && in.Strict && strings.Contains(exp.Via, "strict-host") && key == "route-mismatch" {
							key = "strict-host-path-stale-after-partial-sync"
							staleStrict = true
						} else if si > 0 && key == "route-mismatch" {
							key = "route-mismatch-after-incremental-step"
						}
						res.Count("oracle_fail_" + key)
						res.Fail(hx.Failure{Key: "C03/" + key, What: fmt.Sprintf("%s%s request %v: %s", in.Note, stage, rq, what), Input: in,
							Observed: ob, Expected: exp})
					}
				}
			}
			if si == 0 {
				res.Sample(5, map[string]interface{}{"note": in.Note, "default_service": in.DefaultService, "drain": in.Drain,
					"objects": len(in.Objects), "steps": len(in.Steps), "requests": len(in.Requests), "first_request": in.Requests[0], "observed": rr.observed[0]})
			}
			if staleStrict {
				// the known partial-sync defect of strict-host paths (reported by the oracle above): the
				// Coq model describes the state a full sync of the current cluster renders, this stage is
				// not fed to it
				res.Count("stage_not_modelled_stale_strict_host_path")
			}
			if c01skips > 0 {
				// the Coq model describes a full sync of the current cluster: a stage touched by the known
				// C01 partial-sync defect is judged by the oracle on the other requests only
				res.Count("stage_not_modelled_known_C01")
			}
			if !o.Search && len(keptReqs) > 0 && !in.SSLRedirect && !staleStrict && c01skips == 0 {
				in, rr := in, rr
				judged := in
				judged.Requests = keptReqs
				rr.observed = keptObs
				cw.Add(func(id int) string { return coqCase(id, judged, rr) }, in)
			}
		}
	}
	cw.Flush()
	os.RemoveAll(filepath.Join(o.Out, "pipe"))
	res.Write(o)
}
