package main

// The property read directly on the Kubernetes objects (no Coq model, no converter code):
// which servers a request must reach.
//
//   - valid ingresses in (creationTimestamp, namespace/name) order; inside an ingress
//     spec.defaultBackend (= default host, "/", begin) and then the rule paths in order;
//   - a declaration counts when its Service exists and has the port the rule names (by
//     name, else by number, else - documented legacy - by targetPort); the first counting
//     declaration of a (host, path, type) wins;
//   - the request's host first (https: only hosts named by a tls block), inside a host the
//     exact path, else the longest matching prefix/begin path (prefix before begin when
//     equal, then the first declared); else the default host the same way; else
//     --default-backend-service (first port); else 404;
//   - servers = ready endpoints of that service port; with drain-support also not-ready
//     addresses and terminating pods, as weight-0 servers.

import (
	"fmt"
	"sort"
	"strconv"
	"strings"

	api "k8s.io/api/core/v1"
	networking "k8s.io/api/networking/v1"
)

type ptype int

const (
	ptExact ptype = iota
	ptPrefix
	ptBegin
)

func specPathType(t *networking.PathType) ptype {
	if t != nil {
		switch *t {
		case networking.PathTypeExact:
			return ptExact
		case networking.PathTypePrefix:
			return ptPrefix
		}
	}
	return ptBegin // ImplementationSpecific: the controller's path-type default
}

type portRef struct {
	Str    string
	HasNum bool
	Num    int32
}

func specPortRef(name string, number int32) portRef {
	s := name
	if s == "" {
		s = strconv.Itoa(int(number))
	}
	pr := portRef{Str: s}
	if n, err := strconv.ParseInt(s, 10, 0); err == nil {
		pr.HasNum, pr.Num = true, int32(n)
	}
	return pr
}

func specTerminating(p *api.Pod) bool {
	return p.DeletionTimestamp != nil && p.Status.Reason != "NodeLost" && p.Status.PodIP != ""
}

type sdecl struct {
	Default bool   `json:"default_host,omitempty"`
	Host    string `json:"host,omitempty"`
	Path    string `json:"path"`
	Type    ptype  `json:"type"`
	NS      string `json:"ns"`
	Svc     string `json:"svc"`
	Port    portRef
	Ingress string `json:"ingress"`
	// Strict: the "/" begin path strict-host adds to a host; Root says where it leads:
	// nil = the default backend (or 404), else the default host's first "/" declaration
	Strict bool   `json:"strict,omitempty"`
	Root   *sdecl `json:"-"`
}

func (d sdecl) key() string {
	h := "H:" + d.Host
	if d.Default {
		h = "D"
	}
	return fmt.Sprintf("%s\n%s\n%d", h, d.Path, d.Type)
}

type specCl struct {
	ings      []*networking.Ingress // all, for statistics
	sorted    []*networking.Ingress // valid, ordered
	services  map[string]*api.Service
	endpoints map[string]*api.Endpoints
	pods      []*api.Pod
	def       string
	drain     bool
	strict    bool
	hosts     map[string]bool // Host objects that exist: hosts of rules and of tls blocks ("" = default host)
	sslRedir  bool
	valid     map[string]bool
	effective []sdecl
	tls       map[string]bool
	dupKeys   bool
}

func specCluster(in Input, rr runResult) *specCl {
	c := &specCl{services: map[string]*api.Service{}, endpoints: map[string]*api.Endpoints{}, def: in.DefaultService,
		drain: in.Drain, strict: in.Strict, hosts: map[string]bool{}, sslRedir: in.SSLRedirect, valid: rr.valid, tls: map[string]bool{}}
	for _, ob := range rr.objs {
		switch o := ob.(type) {
		case *networking.Ingress:
			c.ings = append(c.ings, o)
			if rr.valid[o.Namespace+"/"+o.Name] {
				c.sorted = append(c.sorted, o)
			}
		case *api.Service:
			c.services[o.Namespace+"/"+o.Name] = o
		case *api.Endpoints:
			c.endpoints[o.Namespace+"/"+o.Name] = o
		case *api.Pod:
			c.pods = append(c.pods, o)
		}
	}
	sort.SliceStable(c.sorted, func(i, j int) bool {
		a, b := c.sorted[i], c.sorted[j]
		if !a.CreationTimestamp.Equal(&b.CreationTimestamp) {
			return a.CreationTimestamp.Before(&b.CreationTimestamp)
		}
		return a.Namespace+"/"+a.Name < b.Namespace+"/"+b.Name
	})
	claimed := map[string]bool{}
	seen := map[string]bool{}
	for _, ing := range c.sorted {
		var ds []sdecl
		name := ing.Namespace + "/" + ing.Name
		if b := ing.Spec.DefaultBackend; b != nil && b.Service != nil {
			ds = append(ds, sdecl{Default: true, Path: "/", Type: ptBegin, NS: ing.Namespace, Svc: b.Service.Name,
				Port: specPortRef(b.Service.Port.Name, b.Service.Port.Number), Ingress: name})
		}
		for _, r := range ing.Spec.Rules {
			if r.HTTP == nil {
				continue
			}
			c.hosts[r.Host] = true
			for _, p := range r.HTTP.Paths {
				if p.Backend.Service == nil {
					continue
				}
				path := p.Path
				if path == "" {
					path = "/"
				}
				ds = append(ds, sdecl{Default: r.Host == "", Host: r.Host, Path: path, Type: specPathType(p.PathType), NS: ing.Namespace,
					Svc: p.Backend.Service.Name, Port: specPortRef(p.Backend.Service.Port.Name, p.Backend.Service.Port.Number), Ingress: name})
			}
		}
		for _, d := range ds {
			if seen[d.key()] {
				c.dupKeys = true
			}
			seen[d.key()] = true
			if _, sp := c.namedPort(d); sp == nil {
				continue
			}
			if claimed[d.key()] {
				continue
			}
			claimed[d.key()] = true
			c.effective = append(c.effective, d)
		}
		for _, t := range ing.Spec.TLS {
			for _, h := range t.Hosts {
				c.tls[h] = true
				c.hosts[h] = true
			}
		}
	}
	if c.strict {
		// strict-host: every host without a ("/", begin) path gets one, bound to the default host's
		// first "/" path, else to the default backend
		var root *sdecl
		for i := range c.effective {
			if c.effective[i].Default {
				c.hosts[""] = true
				if root == nil && c.effective[i].Path == "/" {
					root = &c.effective[i]
				}
			}
		}
		n := len(c.effective)
		for _, h := range sortedKeys(c.hosts) {
			has := false
			for _, d := range c.effective[:n] {
				if d.Default == (h == "") && d.Host == h && d.Path == "/" && d.Type == ptBegin {
					has = true
				}
			}
			if !has {
				c.effective = append(c.effective, sdecl{Default: h == "", Host: h, Path: "/", Type: ptBegin, Strict: true, Root: root, Ingress: "<strict-host>"})
			}
		}
	}
	return c
}

func sortedKeys(m map[string]bool) []string {
	out := make([]string, 0, len(m))
	for k := range m {
		out = append(out, k)
	}
	sort.Strings(out)
	return out
}

// isWild / wildMatches: "*.suffix" matches one non-empty label without '.' followed by .suffix
func isWild(h string) bool { return strings.HasPrefix(h, "*.") }

func wildMatches(h, reqhost string) bool {
	if !isWild(h) {
		return false
	}
	i := strings.Index(reqhost, ".")
	return i > 0 && reqhost[i:] == asciiLower(h[1:])
}

func (c *specCl) validCount() int { return len(c.sorted) }

func (c *specCl) nontrivial() bool {
	if c.dupKeys {
		return true
	}
	perHost := map[string]int{}
	for _, d := range c.effective {
		h := d.Host
		if d.Default {
			h = "<default>"
		}
		perHost[h]++
		if perHost[h] >= 2 {
			return true
		}
	}
	return false
}

// namedPort: "the Service port named by the Ingress rule".
func (c *specCl) namedPort(d sdecl) (*api.Service, *api.ServicePort) {
	svc := c.services[d.NS+"/"+d.Svc]
	if svc == nil {
		return nil, nil
	}
	for i := range svc.Spec.Ports {
		if svc.Spec.Ports[i].Name == d.Port.Str {
			return svc, &svc.Spec.Ports[i]
		}
	}
	if d.Port.HasNum {
		for i := range svc.Spec.Ports {
			if svc.Spec.Ports[i].Port == d.Port.Num {
				return svc, &svc.Spec.Ports[i]
			}
		}
	}
	for i := range svc.Spec.Ports { // legacy: addressed by its targetPort
		if svc.Spec.Ports[i].TargetPort.String() == d.Port.Str {
			return svc, &svc.Spec.Ports[i]
		}
	}
	return svc, nil
}

// legacyPort is the lookup order of the unrepaired FindServicePort (only used to classify a failure).
func legacyPort(svc *api.Service, pr portRef) *api.ServicePort {
	for i := range svc.Spec.Ports {
		if svc.Spec.Ports[i].Name == pr.Str || svc.Spec.Ports[i].TargetPort.String() == pr.Str {
			return &svc.Spec.Ports[i]
		}
	}
	if pr.HasNum {
		for i := range svc.Spec.Ports {
			if svc.Spec.Ports[i].Port == pr.Num {
				return &svc.Spec.Ports[i]
			}
		}
	}
	return nil
}

func stripSlashes(s string) string {
	for strings.HasSuffix(s, "/") {
		s = s[:len(s)-1]
	}
	return s
}

func pathMatches(t ptype, declared, requested string) bool {
	switch t {
	case ptExact:
		return declared == requested
	case ptPrefix:
		p := stripSlashes(declared)
		return requested == p || strings.HasPrefix(requested, p+"/")
	}
	return strings.HasPrefix(asciiLower(requested), asciiLower(declared))
}

func asciiLower(s string) string {
	b := []byte(s)
	for i, c := range b {
		if c >= 'A' && c <= 'Z' {
			b[i] = c + 32
		}
	}
	return string(b)
}

func better(a, b sdecl) bool {
	if a.Type == ptExact || b.Type == ptExact {
		return a.Type == ptExact && b.Type != ptExact
	}
	if len(a.Path) != len(b.Path) {
		return len(a.Path) > len(b.Path)
	}
	return a.Type == ptPrefix && b.Type != ptPrefix
}

func best(ds []sdecl) *sdecl {
	var b *sdecl
	for i := range ds {
		if b == nil || better(ds[i], *b) {
			b = &ds[i]
		}
	}
	return b
}

// tie: the winner is not exact and another candidate of the same length has the other type.
func tie(ds []sdecl, b *sdecl) bool {
	if b.Type == ptExact {
		return false
	}
	for _, d := range ds {
		if d.Type != ptExact && d.Type != b.Type && len(d.Path) == len(b.Path) {
			return true
		}
	}
	return false
}

// Expect is what the property demands for one request.
type Expect struct {
	// Ambiguous: two candidates of the deciding tier have the same declared length, one prefix
	// and one begin (e.g. /app Prefix and /app ImplementationSpecific on one host). Which one
	// answers is left unspecified (C04: "equal length => unspecified"); such requests are not judged.
	Ambiguous bool     `json:"ambiguous,omitempty"`
	Kind      string   `json:"kind"`              // "servers" | "404" | "redirect"
	Backend   string   `json:"backend,omitempty"` // id of the backend section that must answer ("" = not stated)
	Servers   []string `json:"servers"`
	Via       string   `json:"via"`
	Decl      *sdecl   `json:"decl,omitempty"`
}

func (c *specCl) route(rq Req) Expect {
	host := rq.Host
	if i := strings.Index(host, ":"); i >= 0 {
		host = host[:i]
	}
	host = asciiLower(host)
	var own, wild, def []sdecl
	for _, d := range c.effective {
		if !d.Default && isWild(d.Host) {
			// documented: "Wildcard hostnames ... match incoming requests using the regex path type,
			// even if the path itself has a distinct one" - case sensitive, implicit ^, no ending $
			if wildMatches(d.Host, host) && (!rq.HTTPS || c.tls[d.Host]) && codeMatches(d, rq.Path) {
				wild = append(wild, d)
			}
			continue
		}
		if !pathMatches(d.Type, d.Path, rq.Path) {
			continue
		}
		if d.Default {
			def = append(def, d)
		} else if asciiLower(d.Host) == host && (!rq.HTTPS || c.tls[d.Host]) {
			own = append(own, d)
		}
	}
	for _, tier := range []struct {
		ds  []sdecl
		via string
	}{{own, "host"}, {wild, "wildcard host"}, {def, "default host"}} {
		if len(tier.ds) == 0 {
			continue
		}
		var d *sdecl
		ambiguous := false
		if tier.via == "wildcard host" {
			// no precedence between overlapping regex paths is documented: judged only when every
			// matching rule of the wildcard host leads to the same backend
			d = &tier.ds[0]
			for i := range tier.ds {
				if c.backendOf(tier.ds[i]) != c.backendOf(*d) {
					ambiguous = true
				}
			}
		} else {
			d = best(tier.ds)
			ambiguous = tie(tier.ds, d)
		}
		if c.sslRedir && !rq.HTTPS && tier.via != "default host" && c.tls[d.Host] && !d.Strict {
			// ssl-redirect (default true): plain http of a rule whose host has TLS goes to https
			return Expect{Kind: "redirect", Servers: []string{}, Via: tier.via, Decl: d, Ambiguous: ambiguous}
		}
		e := c.serve(d, tier.via)
		e.Ambiguous = ambiguous
		return e
	}
	if c.def != "" {
		if svc := c.services[c.def]; svc != nil && len(svc.Spec.Ports) > 0 {
			return Expect{Kind: "servers", Servers: c.servers(svc, &svc.Spec.Ports[0]), Via: "default backend", Backend: backendID(svc, &svc.Spec.Ports[0])}
		}
	}
	return Expect{Kind: "404", Servers: []string{}, Via: "404", Backend: "_error404"}
}

// backendOf names the backend section a declaration leads to.
func (c *specCl) backendOf(d sdecl) string {
	if d.Strict {
		if d.Root != nil {
			return c.backendOf(*d.Root)
		}
		return "<strict-host default>"
	}
	svc, sp := c.namedPort(d)
	if sp == nil {
		return "<none>"
	}
	return svc.Namespace + "/" + svc.Name + ":" + sp.TargetPort.String()
}

// serve: the servers a selected declaration designates (a strict-host path leads to the default
// host's root declaration, else to the default backend, else to 404).
func backendID(svc *api.Service, sp *api.ServicePort) string {
	return svc.Namespace + "_" + svc.Name + "_" + sp.TargetPort.String()
}

// agreesB: servers and, when stated, the backend section
func (e Expect) agreesB(ob Observed) bool {
	ok, _ := e.agrees(ob)
	return ok && (e.Backend == "" || ob.Verdict == "redirect" || e.Backend == ob.Backend)
}

func (c *specCl) serve(d *sdecl, via string) Expect {
	if d.Strict {
		if d.Root != nil {
			svc, sp := c.namedPort(*d.Root)
			return Expect{Kind: "servers", Servers: c.servers(svc, sp), Via: via + " (strict-host root)", Decl: d, Backend: backendID(svc, sp)}
		}
		if c.def != "" {
			if svc := c.services[c.def]; svc != nil && len(svc.Spec.Ports) > 0 {
				return Expect{Kind: "servers", Servers: c.servers(svc, &svc.Spec.Ports[0]), Via: via + " (strict-host default backend)", Decl: d, Backend: backendID(svc, &svc.Spec.Ports[0])}
			}
		}
		return Expect{Kind: "404", Servers: []string{}, Via: via + " (strict-host 404)", Decl: d, Backend: "_error404"}
	}
	svc, sp := c.namedPort(*d)
	return Expect{Kind: "servers", Servers: c.servers(svc, sp), Via: via, Decl: d, Backend: backendID(svc, sp)}
}

// servers: ready endpoints of the port; with drain-support not-ready and terminating ones at weight 0.
func (c *specCl) servers(svc *api.Service, sp *api.ServicePort) []string {
	ep := c.endpoints[svc.Namespace+"/"+svc.Name]
	out := []string{}
	if ep == nil {
		return out
	}
	ready, drain := map[string]bool{}, map[string]bool{}
	for _, ss := range ep.Subsets {
		for _, p := range ss.Ports {
			if p.Protocol != api.ProtocolTCP || (sp.Name != "" && sp.Name != p.Name) {
				continue
			}
			for _, a := range ss.Addresses {
				ready[fmt.Sprintf("%s:%d", a.IP, p.Port)] = true
			}
			for _, a := range ss.NotReadyAddresses {
				drain[fmt.Sprintf("%s:%d", a.IP, p.Port)] = true
			}
		}
	}
	if c.drain {
		for _, pod := range c.pods {
			if pod.Namespace != svc.Namespace || !specTerminating(pod) {
				continue
			}
			sel := true
			for k, v := range svc.Spec.Selector {
				if pod.Labels[k] != v {
					sel = false
				}
			}
			if !sel {
				continue
			}
			port := sp.TargetPort.IntValue()
			if port <= 0 {
				port = 0
				for _, ct := range pod.Spec.Containers {
					for _, cp := range ct.Ports {
						if port == 0 && cp.Protocol == sp.Protocol && cp.Name == sp.TargetPort.String() {
							port = int(cp.ContainerPort)
						}
					}
				}
			}
			if port > 0 {
				drain[fmt.Sprintf("%s:%d", pod.Status.PodIP, port)] = true
			}
		}
	}
	for t := range ready {
		if !(c.drain && drain[t]) {
			out = append(out, t)
		}
	}
	if c.drain {
		for t := range drain {
			out = append(out, t+":w0")
		}
	}
	sort.Strings(out)
	return out
}

func (e Expect) agrees(ob Observed) (bool, string) {
	if e.Kind == "redirect" {
		if ob.Verdict == "redirect" {
			return true, ""
		}
		return false, fmt.Sprintf("expected a redirect to https (%s), observed %s %s %v", e.Via, ob.Verdict, ob.Backend, ob.Servers)
	}
	if e.Kind == "404" {
		if ob.NotFound {
			return true, ""
		}
		return false, fmt.Sprintf("expected 404, observed %s %s %v", ob.Verdict, ob.Backend, ob.Servers)
	}
	if ob.Verdict != "backend" {
		return false, fmt.Sprintf("expected servers %v (%s), observed verdict %s %s", e.Servers, e.Via, ob.Verdict, ob.Backend)
	}
	if strings.Join(e.Servers, ",") != strings.Join(ob.Servers, ",") {
		return false, fmt.Sprintf("expected servers %v (%s), observed %v in backend %s", e.Servers, e.Via, ob.Servers, ob.Backend)
	}
	return true, ""
}

// classify names the cause of a failure (the key known_findings.json is matched against).
// pathRegex / codeWild: how the code matches on a wildcard host (one regex key per path in the
// regex file, longest key first); only used to name the cause of a failure.
func pathRegex(d sdecl) string {
	switch d.Type {
	case ptExact:
		return d.Path + "$"
	case ptPrefix:
		if strings.HasSuffix(d.Path, "/") {
			return d.Path
		}
		return d.Path + "(/.*)?"
	}
	return d.Path
}

func codeMatches(d sdecl, path string) bool {
	if d.Type == ptExact {
		return d.Path == path
	}
	return strings.HasPrefix(path, d.Path)
}

// wildSituation: for a request decided on a wildcard host, in which documented way the regex
// reading differs from what the declared path types would mean on a plain host ("" = it does not).
// Only counted in the evidence (documented-wildcard-regex:<which>), never a failure.
func (c *specCl) wildSituation(rq Req) string {
	host := rq.Host
	if i := strings.Index(host, ":"); i >= 0 {
		host = host[:i]
	}
	host = asciiLower(host)
	var code, spec []sdecl
	for _, d := range c.effective {
		if d.Default {
			continue
		}
		if !isWild(d.Host) {
			if asciiLower(d.Host) == host && (!rq.HTTPS || c.tls[d.Host]) && pathMatches(d.Type, d.Path, rq.Path) {
				return "" // decided by the exact host
			}
			continue
		}
		if !wildMatches(d.Host, host) || (rq.HTTPS && !c.tls[d.Host]) {
			continue
		}
		if codeMatches(d, rq.Path) {
			code = append(code, d)
		}
		if pathMatches(d.Type, d.Path, rq.Path) {
			spec = append(spec, d)
		}
	}
	if len(code) == 0 && len(spec) == 0 {
		return ""
	}
	in := func(ds []sdecl, d sdecl) bool {
		for _, x := range ds {
			if x.key() == d.key() {
				return true
			}
		}
		return false
	}
	for _, d := range code {
		if !in(spec, d) && d.Type == ptPrefix {
			return "prefix-not-on-element-boundary"
		}
	}
	for _, d := range spec {
		if !in(code, d) && d.Type == ptBegin {
			return "begin-case-sensitive"
		}
	}
	for _, d := range spec {
		if !in(code, d) && d.Type == ptPrefix {
			return "prefix-trailing-slash"
		}
	}
	// same rules match: does the longest regex belong to the rule exact / longest would pick?
	if len(code) > 1 {
		first := code[0]
		for _, d := range code[1:] {
			a, b := pathRegex(d), pathRegex(first)
			if len(a) > len(b) || (len(a) == len(b) && a < b) {
				first = d
			}
		}
		if b := best(spec); b != nil && c.backendOf(*b) != c.backendOf(first) {
			return "regex-length-precedence"
		}
	}
	return ""
}

func (c *specCl) classify(rq Req, exp Expect, ob Observed) string {

	if exp.Kind == "servers" && ob.Verdict == "backend" {
		want := map[string]bool{}
		for _, t := range exp.Servers {
			want[t] = true
		}
		for _, t := range ob.Servers {
			if !strings.HasSuffix(t, ":w0") && !want[t] && want[t+":w0"] {
				return "not-ready-or-terminating-endpoint-not-drained"
			}
			if strings.HasSuffix(t, ":w0") && !c.drain {
				return "draining-server-without-drain-support"
			}
		}
	}
	if ob.Verdict == "redirect" && exp.Kind == "servers" && exp.Via == "default backend" {
		return "default-backend-ssl-redirect"
	}
	if exp.Decl != nil {
		if svc, sp := c.namedPort(*exp.Decl); sp != nil {
			for i := range svc.Spec.Ports {
				q := &svc.Spec.Ports[i]
				if q.Name != sp.Name && q.TargetPort.String() == sp.TargetPort.String() &&
					strings.Join(c.servers(svc, q), ",") != strings.Join(c.servers(svc, sp), ",") {
					return "shared-targetport-backend"
				}
			}
		}
	}
	// any declaration whose legacy port lookup differs from the port the rule names
	for _, ing := range c.sorted {
		check := func(ns string, b *networking.IngressBackend) bool {
			if b == nil || b.Service == nil {
				return false
			}
			svc := c.services[ns+"/"+b.Service.Name]
			if svc == nil {
				return false
			}
			pr := specPortRef(b.Service.Port.Name, b.Service.Port.Number)
			_, named := c.namedPort(sdecl{NS: ns, Svc: b.Service.Name, Port: pr})
			legacy := legacyPort(svc, pr)
			return named != nil && legacy != nil && named.Name != legacy.Name
		}
		if check(ing.Namespace, ing.Spec.DefaultBackend) {
			return "service-port-targetport-precedence"
		}
		for _, r := range ing.Spec.Rules {
			if r.HTTP == nil {
				continue
			}
			for i := range r.HTTP.Paths {
				if check(ing.Namespace, &r.HTTP.Paths[i].Backend) {
					return "service-port-targetport-precedence"
				}
			}
		}
	}
	if strings.HasPrefix(exp.Via, "wildcard host") {
		return "wildcard-host-mismatch"
	}
	return "route-mismatch"
}
