// Rendering of the match files through the real templates.
//
// The property speaks about the generated map files and the order in which the
// configuration consults them, so the observation is taken from disk:
//   - renderMaps writes the MatchFiles() of a map builder exactly as config.go writeMaps
//     does (template.Config.WriteOutput of rootfs/etc/templates/map/map.tmpl) and reads
//     the files back;
//   - instEnv drives a real haproxy.Instance (CreateInstance, ParseTemplates, Config
//     filled with hosts/paths/backends, HAProxyUpdate into a scratch directory with a stub
//     reload queue) and reads the lookup chain of `req.backend` from the rendered
//     haproxy.cfg (which file, map_str/map_beg/map_dir, lower or not, in which order) and
//     the map files the chain names.
//
// Paths are relative to the output directory (the process chdir()s there): the map
// writer derives file names by replacing the first '.' of the whole path.
package main

import (
	"bufio"
	"context"
	"fmt"
	"os"
	"path/filepath"
	"regexp"
	"sort"
	"strings"
	"time"

	"github.com/jcmoraisjr/haproxy-ingress/pkg/haproxy"
	hatemplate "github.com/jcmoraisjr/haproxy-ingress/pkg/haproxy/template"
	hatypes "github.com/jcmoraisjr/haproxy-ingress/pkg/haproxy/types"
	types_helper "github.com/jcmoraisjr/haproxy-ingress/pkg/types/helper_test"
	"github.com/jcmoraisjr/haproxy-ingress/pkg/utils"
)

// repoRoot is /repo, or the scratch copy named by VERIF_REPO when the checks are tried
// against a copy of the repository.
func repoRoot() string {
	if r := os.Getenv("VERIF_REPO"); r != "" {
		return r
	}
	return "/repo"
}

func must(err error) {
	if err != nil {
		panic(err)
	}
}

// readMapFile returns the key/value lines of a rendered map file, in file order.
func readMapFile(name string) [][2]string {
	f, err := os.Open(name)
	must(err)
	defer f.Close()
	var out [][2]string
	sc := bufio.NewScanner(f)
	for sc.Scan() {
		line := sc.Text()
		if strings.HasPrefix(line, "#") || strings.TrimSpace(line) == "" {
			continue
		}
		// HAProxy: the key is the first word, the value the rest of the line
		k, v := line, ""
		if i := strings.IndexAny(line, " \t"); i >= 0 {
			k, v = line[:i], strings.TrimLeft(line[i:], " \t")
		}
		out = append(out, [2]string{k, v})
	}
	must(sc.Err())
	return out
}

// ---------------------------------------------------------------- map template alone

type mapRenderer struct {
	tmpl *hatemplate.Config
	dir  string
	seq  int
}

func newMapRenderer() *mapRenderer {
	r := &mapRenderer{tmpl: hatemplate.CreateConfig(), dir: "maps_direct"}
	must(os.MkdirAll(r.dir, 0o755))
	must(r.tmpl.NewTemplate("map.tmpl", repoRoot()+"/rootfs/etc/templates/map/map.tmpl", "", 0, 2048))
	return r
}

// basename of the next map builder
func (r *mapRenderer) next() string {
	r.seq++
	return fmt.Sprintf("%s/hosts.map", r.dir)
}

// render does what config.go writeMaps does for one map and reads the files back.
func (r *mapRenderer) render(hm *hatypes.HostsMap) []fileObs {
	var files []fileObs
	for _, mf := range hm.MatchFiles() {
		must(r.tmpl.WriteOutput(mf.Values(), mf.Filename()))
		files = append(files, fileObs{Name: filepath.Base(mf.Filename()), Method: mf.Method(), Lower: mf.Lower(), Entries: readMapFile(mf.Filename())})
	}
	return files
}

// ---------------------------------------------------------------- whole instance

type nullLogger struct{ errs []string }

func (l *nullLogger) InfoV(v int, msg string, args ...interface{}) {}
func (l *nullLogger) Info(msg string, args ...interface{})         {}
func (l *nullLogger) Warn(msg string, args ...interface{})         {}
func (l *nullLogger) Error(msg string, args ...interface{}) {
	l.errs = append(l.errs, fmt.Sprintf(msg, args...))
}
func (l *nullLogger) Fatal(msg string, args ...interface{}) {
	l.errs = append(l.errs, fmt.Sprintf(msg, args...))
}

type reloadStub struct{ n int }

func (q *reloadStub) Add(item interface{})                       { q.n++ }
func (q *reloadStub) AddAfter(item interface{}, d time.Duration) { q.n++ }
func (q *reloadStub) Remove(item interface{})                    {}
func (q *reloadStub) Start(context.Context) error                { return nil }

type instEnv struct {
	inst    haproxy.Instance
	log     *nullLogger
	timer   *utils.Timer
	cfgDir  string
	mapsDir string
}

func newInstEnv() *instEnv {
	e := &instEnv{log: &nullLogger{}, cfgDir: "inst/cfg", mapsDir: "inst/maps"}
	for _, d := range []string{e.cfgDir, e.mapsDir, e.cfgDir + "/errorfiles", e.cfgDir + "/lua"} {
		must(os.MkdirAll(d, 0o755))
	}
	metrics := types_helper.NewMetricsMock()
	e.inst = haproxy.CreateInstance(e.log, haproxy.InstanceOptions{
		HAProxyCfgDir:  e.cfgDir,
		HAProxyMapsDir: e.mapsDir,
		RootFSPrefix:   repoRoot() + "/rootfs",
		Metrics:        metrics,
		ReloadQueue:    &reloadStub{},
	})
	must(e.inst.ParseTemplates())
	e.timer = utils.NewTimer(metrics.ControllerProcTime)
	return e
}

var chainRe = regexp.MustCompile(`^\s*http-request set-var\(req\.backend\) var\(req\.base\)(,lower)?,map_(\w+)\(([^)]+)\)(.*)$`)

type chainStep struct {
	File   string
	Method string
	Lower  bool
	Guard  string // what follows the converter chain on the line
}

// readChain returns the `set-var(req.backend)` lookups of the first frontend of the
// rendered configuration that has some (the plain HTTP one), in configuration order.
func readChain(cfgFile string) []chainStep {
	b, err := os.ReadFile(cfgFile)
	must(err)
	var out []chainStep
	started := false
	for _, line := range strings.Split(string(b), "\n") {
		m := chainRe.FindStringSubmatch(line)
		if m == nil {
			if started && (strings.HasPrefix(line, "frontend ") || strings.HasPrefix(line, "backend ") || strings.HasPrefix(line, "listen ")) {
				break
			}
			continue
		}
		started = true
		out = append(out, chainStep{File: m[3], Method: m[2], Lower: m[1] != "", Guard: strings.TrimSpace(m[4])})
	}
	return out
}

// run feeds the rules to the Config of the instance as the converters do (one backend
// per rule, so that the backend ID names the rule), runs HAProxyUpdate, and returns
//   - the calls that reached the map builder (from the in-memory entries, in host order),
//   - the in-memory MatchFiles() of the HTTP host map,
//   - the files as rendered: the chain of haproxy.cfg with the entries of each map file,
//   - a description of a broken chain ("" when the chain is the expected if-not-found chain).
func (e *instEnv) run(in input) obs {
	var mem, rendered []fileObs
	var chainProblem string
	cfg := e.inst.Config()
	cfg.Clear()
	g := cfg.Global()
	g.AdminSocket = "/var/run/haproxy.sock"
	g.Bind.HTTPBind = ":80"
	g.Bind.HTTPSBind = ":443"
	g.MaxConn = 2000
	g.Stats.Port = 1936
	g.Healthz.Port = 10253
	g.Timeout.Client = "50s"
	g.Timeout.Connect = "5s"
	g.Timeout.Server = "50s"
	g.UseHTX = true
	g.MatchOrder = nil
	for _, o := range in.Order {
		g.MatchOrder = append(g.MatchOrder, matchType(o))
	}
	cfg.Frontend().DefaultCrtFile = "/ssl/default.pem"
	cfg.Frontend().DefaultCrtHash = "0"
	idx := map[*hatypes.HostPath]fed{}
	perHost := map[string]int{}
	for i, r := range in.Rules {
		b := cfg.Backends().AcquireBackend("ns", fmt.Sprintf("t%d", i), "8080")
		b.AcquireEndpoint("10.0.0.1", 8080, "")
		hp := cfg.Hosts().AcquireHost(r.Host).AddPath(b, r.Path, matchType(r.Type))
		idx[hp] = fed{Rule: i, Order: perHost[r.Host], Target: b.ID}
		perHost[r.Host]++
	}
	// the calls config.go WriteFrontendMaps makes: hosts sorted, paths in host.Paths order
	var seq []fed
	for _, h := range cfg.Hosts().BuildSortedItems() {
		for _, hp := range h.Paths {
			seq = append(seq, idx[hp])
		}
	}
	e.log.errs = nil
	if err := e.inst.HAProxyUpdate(e.timer); err != nil {
		panic(fmt.Sprintf("HAProxyUpdate: %v %v", err, e.log.errs))
	}
	maps := cfg.Frontend().Maps
	if maps == nil || maps.HTTPHostMap == nil {
		panic("no frontend maps after the update")
	}
	for _, mf := range maps.HTTPHostMap.MatchFiles() {
		fo := fileObs{Name: filepath.Base(mf.Filename()), Method: mf.Method(), Lower: mf.Lower()}
		for _, v := range mf.Values() {
			fo.Entries = append(fo.Entries, [2]string{v.Key, v.Value})
		}
		mem = append(mem, fo)
	}
	chain := readChain(e.cfgDir + "/haproxy.cfg")
	for i, st := range chain {
		rendered = append(rendered, fileObs{Name: filepath.Base(st.File), Method: st.Method, Lower: st.Lower, Entries: readMapFile(st.File)})
		want := "if !{ var(req.backend) -m found }"
		if i == 0 {
			want = ""
		}
		if st.Guard != want && chainProblem == "" {
			chainProblem = fmt.Sprintf("lookup %d of req.backend (%s) is guarded by %q, expected %q", i, filepath.Base(st.File), st.Guard, want)
		}
	}
	return obs{seq: seq, mem: mem, rendered: rendered, chain: chainProblem, viaInst: true}
}

// curRuleOf: backend ID -> rule index of the converter case being judged (nil otherwise)
var curRuleOf map[string]int

// targetRule maps a map value back to the index of the rule: "t12" (map builder driven
// directly) or the backend ID "ns_t12_8080" (through the instance).
func targetRule(v string) int {
	if curRuleOf != nil {
		if i, ok := curRuleOf[v]; ok {
			return i
		}
		return -1
	}
	v = strings.TrimPrefix(v, "ns_")
	v = strings.TrimSuffix(v, "_8080")
	n := -1
	fmt.Sscanf(v, "t%d", &n)
	return n
}

// sameFiles tells whether two observations agree file by file (method, lower flag,
// ordered key/value list) and describes the first difference otherwise.
func sameFiles(mem, rendered []fileObs) string {
	if len(mem) != len(rendered) {
		var a, b []string
		for _, f := range mem {
			a = append(a, f.Name)
		}
		for _, f := range rendered {
			b = append(b, f.Name)
		}
		return fmt.Sprintf("MatchFiles() has %v, the configuration consults %v", a, b)
	}
	for i := range mem {
		m, r := mem[i], rendered[i]
		if m.Name != r.Name || m.Method != r.Method || m.Lower != r.Lower || strings.Join(m.Headers, "|") != strings.Join(r.Headers, "|") {
			return fmt.Sprintf("file %d: MatchFiles() says %s method=%s lower=%v headers=%v, rendered %s method=%s lower=%v headers=%v", i, m.Name, m.Method, m.Lower, m.Headers, r.Name, r.Method, r.Lower, r.Headers)
		}
		if len(m.Entries) != len(r.Entries) {
			missing := diffEntries(m.Entries, r.Entries)
			return fmt.Sprintf("file %s: %d entries in MatchFiles().Values(), %d lines rendered; not rendered: %v", m.Name, len(m.Entries), len(r.Entries), missing)
		}
		for j := range m.Entries {
			if m.Entries[j] != r.Entries[j] {
				return fmt.Sprintf("file %s line %d: Values() has %v, rendered %v", m.Name, j, m.Entries[j], r.Entries[j])
			}
		}
	}
	return ""
}

func diffEntries(a, b [][2]string) [][2]string {
	have := map[[2]string]int{}
	for _, e := range b {
		have[e]++
	}
	var out [][2]string
	for _, e := range a {
		if have[e] > 0 {
			have[e]--
		} else {
			out = append(out, e)
		}
	}
	sort.Slice(out, func(i, j int) bool { return out[i][0] < out[j][0] })
	return out
}
