// Rule sets declared the way users declare them — Gateway API HTTPRoutes or Ingress
// resources — converted by the REAL converters and rendered by the real instance
// (verif/harness/lib/pipeline: fake client, real watchers, cache, tracker,
// converters.NewConverter(..).Sync(), haproxy.CreateInstance + ParseTemplates +
// HAProxyUpdate). The observation is taken from the rendered haproxy.cfg (lookup chain of
// req.backend with its conditions) and from the map files on disk.
package main

import (
	"fmt"
	"os"
	"path/filepath"
	"regexp"
	"strings"

	networking "k8s.io/api/networking/v1"
	metav1 "k8s.io/apimachinery/pkg/apis/meta/v1"
	"k8s.io/apimachinery/pkg/util/intstr"
	"sigs.k8s.io/controller-runtime/pkg/client"
	gatewayv1 "sigs.k8s.io/gateway-api/apis/v1"

	"verif/harness/lib/pipeline"
	"verif/harness/lib/world"
)

const annPrefix = "haproxy-ingress.github.io/"

// splitHeader: "Name:value" of a rule
func splitHeader(h string) (string, string) {
	n, v, _ := strings.Cut(h, ":")
	return n, v
}

// gatewayObjects: one HTTPRoute per (host, in order of first appearance), one rule per
// input rule, all attached to one Gateway listener; every rule sends to the same service
// (the haproxy backend is named after route and rule index).
func gatewayObjects(in input) (objs []client.Object, ruleOf map[string]int) {
	ruleOf = map[string]int{}
	objs = append(objs, &gatewayv1.GatewayClass{ObjectMeta: metav1.ObjectMeta{Name: "gwc"},
		Spec: gatewayv1.GatewayClassSpec{ControllerName: "haproxy-ingress.github.io/controller"}})
	from := gatewayv1.NamespacesFromSame
	objs = append(objs, &gatewayv1.Gateway{ObjectMeta: metav1.ObjectMeta{Namespace: "ns1", Name: "gw"},
		Spec: gatewayv1.GatewaySpec{GatewayClassName: "gwc", Listeners: []gatewayv1.Listener{{Name: "http", Port: 80, Protocol: gatewayv1.HTTPProtocolType,
			AllowedRoutes: &gatewayv1.AllowedRoutes{Namespaces: &gatewayv1.RouteNamespaces{From: &from}}}}}})
	objs = append(objs, world.Service("ns1", "s0", world.SvcPort{Name: "http", Port: 8080, TargetPort: intstr.FromInt(8080)}))
	objs = append(objs, world.Endpoints("ns1", "s0", world.EpPort{Name: "http", Port: 8080, Ready: []string{"10.0.0.1"}}))
	port := gatewayv1.PortNumber(8080)
	routeIdx := map[string]int{}
	var routes []*gatewayv1.HTTPRoute
	for i, r := range in.Rules {
		ri, ok := routeIdx[r.Host]
		if !ok {
			ri = len(routes)
			routeIdx[r.Host] = ri
			routes = append(routes, &gatewayv1.HTTPRoute{ObjectMeta: metav1.ObjectMeta{Namespace: "ns1", Name: fmt.Sprintf("r%d", ri)},
				Spec: gatewayv1.HTTPRouteSpec{
					CommonRouteSpec: gatewayv1.CommonRouteSpec{ParentRefs: []gatewayv1.ParentReference{{Name: "gw"}}},
					Hostnames:       []gatewayv1.Hostname{gatewayv1.Hostname(r.Host)},
				}})
		}
		rt := routes[ri]
		pt := gatewayv1.PathMatchPathPrefix
		if r.Type == "exact" {
			pt = gatewayv1.PathMatchExact
		}
		path := r.Path
		m := gatewayv1.HTTPRouteMatch{Path: &gatewayv1.HTTPPathMatch{Type: &pt, Value: &path}}
		if r.Header != "" {
			n, v := splitHeader(r.Header)
			m.Headers = []gatewayv1.HTTPHeaderMatch{{Name: gatewayv1.HTTPHeaderName(n), Value: v}}
		}
		ruleOf[fmt.Sprintf("ns1_r%d__rule%d", ri, len(rt.Spec.Rules))] = i
		rt.Spec.Rules = append(rt.Spec.Rules, gatewayv1.HTTPRouteRule{
			Matches: []gatewayv1.HTTPRouteMatch{m},
			BackendRefs: []gatewayv1.HTTPBackendRef{{BackendRef: gatewayv1.BackendRef{
				BackendObjectReference: gatewayv1.BackendObjectReference{Name: "s0", Port: &port}}}},
		})
	}
	for _, rt := range routes {
		objs = append(objs, rt)
	}
	return objs, ruleOf
}

// ingressObjects: one service per rule (the haproxy backend is named after the service);
// rules without header in ingress "a-plain", the rules of each header in an ingress of
// their own carrying the http-header-match annotation. begin = ImplementationSpecific
// (path-type begin is the default of the annotation).
func ingressObjects(in input) (objs []client.Object, ruleOf map[string]int) {
	ruleOf = map[string]int{}
	groups := map[string][]world.IngRule{}
	var names []string
	for i, r := range in.Rules {
		svc := fmt.Sprintf("s%d", i)
		objs = append(objs, world.Service("ns1", svc, world.SvcPort{Name: "http", Port: 8080, TargetPort: intstr.FromInt(8080)}))
		objs = append(objs, world.Endpoints("ns1", svc, world.EpPort{Name: "http", Port: 8080, Ready: []string{"10.0.0.1"}}))
		ruleOf[fmt.Sprintf("ns1_%s_8080", svc)] = i
		t := map[string]string{"exact": "Exact", "prefix": "Prefix", "begin": "ImplementationSpecific"}[r.Type]
		if _, ok := groups[r.Header]; !ok {
			names = append(names, r.Header)
		}
		groups[r.Header] = append(groups[r.Header], world.IngRule{Host: r.Host, Paths: []world.IngPath{{Path: r.Path, Type: t, Service: svc, PortNum: 8080}}})
	}
	for gi, h := range names {
		name := "a-plain"
		if h != "" {
			name = fmt.Sprintf("b-hdr%d", gi)
		}
		ing := world.Ingress("ns1", name, 10+gi, groups[h]...)
		if h != "" {
			n, v := splitHeader(h)
			ing.Annotations = map[string]string{annPrefix + "http-header-match": n + ": " + v}
		}
		objs = append(objs, ing)
	}
	return objs, ruleOf
}

var convSeq int

var chainLineRe = regexp.MustCompile(`^\s*http-request set-var\(req\.backend\) var\(req\.base\)(,lower)?,map_(\w+)\(([^)]+)\)(.*)$`)
var hdrCondRe = regexp.MustCompile(`^\{ hdr\(([^)]+)\)( -m reg)? -- (.*?) \}\s*`)

// parseGuard splits what follows the converters on a chain line: the optional
// if-not-found guard and the header conditions; rest is what could not be read.
func parseGuard(g string) (notFound bool, headers []string, rest string) {
	g = strings.TrimSpace(g)
	if g == "" {
		return false, nil, ""
	}
	if !strings.HasPrefix(g, "if ") {
		return false, nil, g
	}
	g = strings.TrimSpace(g[3:])
	const nf = "!{ var(req.backend) -m found }"
	if strings.HasPrefix(g, nf) {
		notFound = true
		g = strings.TrimSpace(g[len(nf):])
	}
	for {
		m := hdrCondRe.FindStringSubmatch(g)
		if m == nil {
			break
		}
		v := strings.Trim(m[3], `"'`)
		h := m[1] + ":" + v
		if m[2] != "" {
			h += "(regex)"
		}
		headers = append(headers, h)
		g = g[len(m[0]):]
	}
	return notFound, headers, strings.TrimSpace(g)
}

// readChainFull reads the lookup chain of req.backend of the first frontend that has one.
func readChainFull(cfgFile string, realPath func(string) string) (steps []fileObs, problem string) {
	b, err := os.ReadFile(cfgFile)
	must(err)
	started := false
	for _, line := range strings.Split(string(b), "\n") {
		m := chainLineRe.FindStringSubmatch(line)
		if m == nil {
			if started && (strings.HasPrefix(line, "frontend ") || strings.HasPrefix(line, "backend ") || strings.HasPrefix(line, "listen ")) {
				break
			}
			continue
		}
		started = true
		nf, hdrs, rest := parseGuard(m[4])
		i := len(steps)
		if problem == "" {
			if rest != "" {
				problem = fmt.Sprintf("lookup %d of req.backend (%s): condition %q not understood", i, filepath.Base(m[3]), rest)
			} else if nf != (i > 0) {
				problem = fmt.Sprintf("lookup %d of req.backend (%s): if-not-found guard present=%v, expected %v", i, filepath.Base(m[3]), nf, i > 0)
			}
		}
		steps = append(steps, fileObs{Name: filepath.Base(m[3]), Method: m[2], Lower: m[1] != "", Headers: hdrs, Entries: readMapFile(realPath(m[3]))})
	}
	return steps, problem
}

// runConverted declares the rules as Gateway API or Ingress objects and lets the real
// controller pipeline convert and render them.
func runConverted(in input, baseDir string) obs {
	convSeq++
	dir := fmt.Sprintf("%s/conv/p%d", baseDir, convSeq%8)
	os.RemoveAll(dir)
	p, err := pipeline.NewE(pipeline.Options{Dir: dir, HasGatewayV1: in.Source == "gateway", WatchWithoutClass: true})
	must(err)
	defer p.Close()
	var objs []client.Object
	var ruleOf map[string]int
	if in.Source == "gateway" {
		objs, ruleOf = gatewayObjects(in)
	} else {
		objs, ruleOf = ingressObjects(in)
	}
	ostr := strings.Join(in.Order, ",")
	if in.OrderStr != nil {
		ostr = *in.OrderStr
	}
	objs = append(objs, p.GlobalConfigMap(map[string]string{"path-type-order": ostr}))
	var batch []pipeline.Change
	for _, o := range objs {
		batch = append(batch, pipeline.Change{Op: pipeline.Create, Obj: o})
	}
	if err := p.Apply(batch); err != nil {
		panic(fmt.Sprintf("pipeline: %v", err))
	}
	ob := obs{viaInst: true, conv: true}
	cfg := p.Config()
	// the entries the converter produced, in the order config.go hands them to the map builder
	for _, h := range cfg.Hosts().BuildSortedItems() {
		for _, hp := range h.Paths {
			ri, ok := ruleOf[hp.Backend.ID]
			if !ok {
				ob.chain = fmt.Sprintf("host %s path %s: unexpected backend %q", h.Hostname, hp.Path(), hp.Backend.ID)
				continue
			}
			ob.seq = append(ob.seq, fed{Rule: ri, Order: ri, Target: hp.Backend.ID})
			ob.targets = append(ob.targets, hp.Backend.ID)
		}
	}
	ob.ruleOf = ruleOf
	ob.order = []string{}
	for _, m := range cfg.Global().MatchOrder {
		ob.order = append(ob.order, string(m))
	}
	if maps := cfg.Frontend().Maps; maps != nil && maps.HTTPHostMap != nil {
		for _, mf := range maps.HTTPHostMap.MatchFiles() {
			fo := fileObs{Name: filepath.Base(mf.Filename()), Method: mf.Method(), Lower: mf.Lower()}
			for _, h := range mf.Headers() {
				s := h.Name + ":" + h.Value
				if h.Regex {
					s += "(regex)"
				}
				fo.Headers = append(fo.Headers, s)
			}
			for _, v := range mf.Values() {
				fo.Entries = append(fo.Entries, [2]string{v.Key, v.Value})
			}
			ob.memAll = append(ob.memAll, fo)
		}
	}
	var problem string
	ob.renderedAll, problem = readChainFull(p.CfgDir()+"/haproxy.cfg", p.RealPath)
	if ob.chain == "" {
		ob.chain = problem
	}
	for _, f := range ob.memAll {
		if len(f.Headers) == 0 {
			ob.mem = append(ob.mem, f)
		}
	}
	for _, f := range ob.renderedAll {
		if len(f.Headers) == 0 {
			ob.rendered = append(ob.rendered, f)
		}
	}
	return ob
}

var _ = networking.PathTypeExact
