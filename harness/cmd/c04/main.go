// c04: correspondence and oracle for C04 (path precedence in the generated maps).
//
// The real code is fed with rule sets (see run and render.go: a real haproxy.Instance
// with Config + HAProxyUpdate, or the map builder written with the real map template),
// the generated map files are read back from disk in the order the rendered
// configuration consults them, compared with MatchFiles() (Method/Lower/Values), and
//   - the direct oracle looks every request of a boundary-closed request set up in the
//     observed files with HAProxy's str/beg/dir semantics (transcribed below, no Coq
//     model involved) and compares with the property's specification;
//   - every rule set is written as a Coq case: inside Coq the Gallina model `rebuild`
//     must reproduce the observed files and the verified checker `layout_ok` must
//     accept them (which settles "for all requests" by theorem C04_layout_ok_sound).
package main

import (
	"encoding/json"
	"fmt"
	"math/rand"
	"os"
	"path/filepath"
	"sort"
	"strings"

	hatypes "github.com/jcmoraisjr/haproxy-ingress/pkg/haproxy/types"

	"verif/harness/lib/hx"
)

// ---------------------------------------------------------------- input

type ruleIn struct {
	Host string `json:"host"`
	Path string `json:"path"`
	Type string `json:"type"` // exact | prefix | begin
	// Header "Name:value": the rule only applies to requests carrying the header (Gateway
	// API header match, http-header-match annotation). Only in the converter streams.
	Header string `json:"header,omitempty"`
}

type input struct {
	Order []string `json:"order"` // path-type-order (a permutation of exact,prefix,begin,regex)
	Rules []ruleIn `json:"rules"` // declaration order; target of rule i is "t<i>"
	// Direct: HostPath values built by hand as the package tests do (order field 0),
	// inserted in declaration order. Otherwise the rules go through
	// Hosts.AcquireHost/Host.AddPath and are inserted host by host in the order of
	// host.Paths, as pkg/haproxy/config.go does.
	Direct bool `json:"direct"`
	// Malformed: the input leaves the guard of the property (paths with "//", '#', '?',
	// no leading slash, upper-case hosts). The implementation must not crash, must keep
	// every rule, and the model must still reproduce the files; the precedence oracle
	// and the checker are not applied.
	Malformed bool `json:"malformed,omitempty"`
	// Source "gateway" / "ingress": the rules are declared as Gateway API HTTPRoutes /
	// Ingress resources, converted by the real converter and rendered by the real
	// controller pipeline (conv.go). "" = the Config or the map builder is filled directly.
	Source string `json:"source,omitempty"`
	// OrderStr: converter streams only, the value of the path-type-order key of the global
	// ConfigMap as written by the user (valid permutations, case variants, blanks, and
	// invalid lists). It goes through the real configuration code; Order is then ignored
	// and the order the code hands to the map builder is observed.
	OrderStr *string `json:"order_str,omitempty"`
}

// fed is one AddHostnamePathMapping call, in call order.
type fed struct {
	Rule   int    // index into Rules
	Order  int    // value of the private HostPath.order field (declaration index inside the host, 0 in direct mode)
	Target string // the value handed to the map builder ("t<i>", or the backend ID "ns_t<i>_8080" through the instance)
}

type fileObs struct {
	Name    string      `json:"name"`
	Method  string      `json:"method"`
	Lower   bool        `json:"lower"`
	Headers []string    `json:"headers,omitempty"` // header conditions of the lookup ("Name:value")
	Entries [][2]string `json:"entries"`
}

func matchType(s string) hatypes.MatchType {
	switch s {
	case "exact":
		return hatypes.MatchExact
	case "prefix":
		return hatypes.MatchPrefix
	case "begin":
		return hatypes.MatchBegin
	case "regex":
		return hatypes.MatchRegex
	}
	panic("unknown match type " + s)
}

// observation of one run of the real code
type obs struct {
	seq      []fed     // the AddHostnamePathMapping calls, in call order
	mem      []fileObs // MatchFiles() in memory: Method/Lower/Values
	rendered []fileObs // what was written: the map files read back, in the order the configuration consults them
	chain    string    // a defect of the lookup chain of the rendered haproxy.cfg ("" = none; only through the instance)
	viaInst  bool
	// converter streams: mem / rendered hold the lookups without header condition,
	// memAll / renderedAll every lookup; ruleOf maps a backend ID to the rule index
	conv        bool
	memAll      []fileObs
	renderedAll []fileObs
	ruleOf      map[string]int
	targets     []string
	order       []string // Global.MatchOrder after the real configuration code (converter streams)
}

func memFiles(hm *hatypes.HostsMap) []fileObs {
	var files []fileObs
	for _, mf := range hm.MatchFiles() {
		fo := fileObs{Name: filepath.Base(mf.Filename()), Method: mf.Method(), Lower: mf.Lower()}
		for _, e := range mf.Values() {
			fo.Entries = append(fo.Entries, [2]string{e.Key, e.Value})
		}
		files = append(files, fo)
	}
	return files
}

// run drives the real code.
//   - Direct: the map builder alone, HostPath values made by hand, files written with the
//     real map template as config.go writeMaps does;
//   - otherwise (and inside the guard): a real haproxy.Instance, Config filled through
//     Hosts.AcquireHost / Host.AddPath / Backends.AcquireBackend, HAProxyUpdate; the lookup
//     chain is read from the rendered haproxy.cfg and the map files it names from disk;
//   - malformed, not direct: Hosts + map builder + map template (no instance).
func run(in input, mr *mapRenderer, ie *instEnv, outDir string) obs {
	if in.Source != "" {
		return runConverted(in, outDir)
	}
	if !in.Direct && !in.Malformed {
		return ie.run(in)
	}
	var order []hatypes.MatchType
	for _, o := range in.Order {
		order = append(order, matchType(o))
	}
	hm := hatypes.CreateMaps(order).AddMap(mr.next())
	var seq []fed
	if in.Direct {
		for i, r := range in.Rules {
			hp := &hatypes.HostPath{Link: hatypes.CreateHostPathLink(r.Host, r.Path, matchType(r.Type))}
			hm.AddHostnamePathMapping(r.Host, hp, fmt.Sprintf("t%d", i))
			seq = append(seq, fed{Rule: i, Order: 0, Target: fmt.Sprintf("t%d", i)})
		}
	} else {
		hosts := hatypes.CreateHosts()
		idx := map[*hatypes.HostPath]fed{}
		perHost := map[string]int{}
		for i, r := range in.Rules {
			h := hosts.AcquireHost(r.Host)
			hp := h.AddPath(nil, r.Path, matchType(r.Type))
			idx[hp] = fed{Rule: i, Order: perHost[r.Host], Target: fmt.Sprintf("t%d", i)}
			perHost[r.Host]++
		}
		for _, h := range hosts.BuildSortedItems() {
			for _, hp := range h.Paths {
				f := idx[hp]
				hm.AddHostnamePathMapping(h.Hostname, hp, fmt.Sprintf("t%d", f.Rule))
				seq = append(seq, f)
			}
		}
	}
	return obs{seq: seq, mem: memFiles(hm), rendered: mr.render(hm)}
}

// ---------------------------------------------------------------- HAProxy matching (transcription of pattern.c)

func isDelim(c byte) bool { return c == '/' || c == '?' }

// asciiLower is HAProxy's `lower` converter (tolower per byte, C locale).
func asciiLower(s string) string {
	b := []byte(s)
	for i, c := range b {
		if c >= 'A' && c <= 'Z' {
			b[i] = c + 32
		}
	}
	return string(b)
}

// matchWord transcribes match_word() with the delimiters of pat_match_dir ('/', '?').
func matchWord(pat, s string) bool {
	ps, pl := 0, len(pat)
	for pl > 0 && isDelim(pat[ps]) {
		pl--
		ps++
	}
	for pl > 0 && isDelim(pat[ps+pl-1]) {
		pl--
	}
	if pl > len(s) || pl == 0 {
		return false
	}
	p := pat[ps : ps+pl]
	may := true
	end := len(s) - pl
	for c := 0; c <= end; c++ {
		if isDelim(s[c]) {
			may = true
			continue
		}
		if !may {
			continue
		}
		if s[c] == p[0] && s[c:c+pl] == p && (c == end || isDelim(s[c+pl])) {
			return true
		}
		may = false
	}
	return false
}

type hit struct {
	file, idx int
	key, val  string
}

// lookup returns the entry HAProxy selects: files in emitted order, first file that
// has a match wins; inside a file str is exact, dir is scanned in file order, beg is
// scanned in file order (tree=false) or answers the longest pattern (tree=true,
// prefix tree of recent versions).
func lookup(files []fileObs, sample string, tree bool) *hit {
	for fi, f := range files {
		s := sample
		if f.Lower {
			s = asciiLower(s)
		}
		var best *hit
		for ei, e := range f.Entries {
			var m bool
			switch f.Method {
			case "str":
				m = e[0] == s
			case "beg":
				m = strings.HasPrefix(s, e[0])
			case "dir":
				m = matchWord(e[0], s)
			default:
				panic("unexpected method " + f.Method)
			}
			if !m {
				continue
			}
			if best == nil || (tree && f.Method == "beg" && len(e[0]) > len(best.key)) {
				best = &hit{fi, ei, e[0], e[1]}
			}
			if !(tree && f.Method == "beg") {
				break
			}
		}
		if best != nil {
			return best
		}
	}
	return nil
}

// ---------------------------------------------------------------- specification (property text)

func applies(r ruleIn, host, path string) bool {
	if strings.ToLower(r.Host) != asciiLower(host) {
		return false
	}
	switch r.Type {
	case "exact":
		return path == r.Path
	case "prefix":
		q := strings.TrimRight(r.Path, "/")
		return path == q || strings.HasPrefix(path, q+"/")
	case "begin":
		return strings.HasPrefix(asciiLower(path), asciiLower(r.Path))
	}
	return false
}

// acceptable returns the indices of the rules the property allows to answer.
func acceptable(rules []ruleIn, host, path string) []int {
	var exact, other []int
	maxlen := -1
	for i, r := range rules {
		if r.Header != "" || !applies(r, host, path) {
			continue
		}
		if r.Type == "exact" {
			exact = append(exact, i)
			continue
		}
		if len(r.Path) > maxlen {
			maxlen = len(r.Path)
			other = nil
		}
		if len(r.Path) == maxlen {
			other = append(other, i)
		}
	}
	if len(exact) > 0 {
		return exact
	}
	return other
}

// ---------------------------------------------------------------- requests

func swapCase(s string) string {
	b := []byte(s)
	for i, c := range b {
		if c >= 'A' && c <= 'Z' {
			b[i] = c + 32
		} else if c >= 'a' && c <= 'z' {
			b[i] = c - 32
		}
	}
	return string(b)
}

func requestPaths(rules []ruleIn) []string {
	seen := map[string]bool{}
	var out []string
	add := func(p string) {
		if p == "" || p[0] != '/' || seen[p] {
			return
		}
		seen[p] = true
		out = append(out, p)
	}
	add("/")
	add("/zzz")
	for _, r := range rules {
		p := r.Path
		for _, v := range []string{p, strings.ToLower(p), strings.ToUpper(p), swapCase(p), strings.TrimRight(p, "/")} {
			add(v)
			add(v + "/")
			add(v + "/x")
			add(v + "/x/y")
			add(v + "x")
			add(v + "1")
			add(v + "X/")
			add(v + "//")
		}
		for i := 1; i < len(p); i++ {
			add(p[:i])
			add(p[:i] + "/")
		}
	}
	return out
}

func requestHosts(rules []ruleIn) []string {
	seen := map[string]bool{}
	var out []string
	for _, r := range rules {
		for _, h := range []string{r.Host, strings.ToLower(r.Host)} {
			if !seen[h] {
				seen[h] = true
				out = append(out, h)
			}
		}
	}
	for _, h := range []string{"other.local", "x"} {
		if !seen[h] {
			out = append(out, h)
		}
	}
	// a host built from another one: catches a pattern of one host matching inside another
	if len(out) > 0 {
		h := out[0] + out[0]
		if !seen[h] {
			out = append(out, h)
		}
	}
	return out
}

// ---------------------------------------------------------------- oracle

type keyed struct {
	host, kpath, typ string
}

func keyedOf(r ruleIn) keyed {
	k := keyed{host: strings.ToLower(r.Host), kpath: r.Path, typ: r.Type}
	if r.Type == "begin" {
		k.kpath = strings.ToLower(r.Path)
	}
	return k
}

// overlapsCode is the predicate of maps.go `overlaps` as it was before the repair
// (case sensitive), on the paths as stored in the entries.
func overlapsCode(a, b keyed) bool {
	return a.typ != b.typ && a.kpath != b.kpath && a.typ != "exact" && b.typ != "exact" &&
		strings.HasPrefix(a.kpath, b.kpath)
}

func fileOf(files []fileObs, rule int) int {
	for fi, f := range files {
		for _, e := range f.Entries {
			if targetRule(e[1]) == rule {
				return fi
			}
		}
	}
	return -1
}

// classify names the cause of a wrong answer: `got` answered, `want` should have.
func classify(in input, files []fileObs, got, want int) string {
	g, w := in.Rules[got], in.Rules[want]
	kg, kw := keyedOf(g), keyedOf(w)
	if kg.host != kw.host {
		return "cross-host"
	}
	if w.Type == "exact" {
		return "exact-not-first"
	}
	if g.Type != w.Type && g.Type != "exact" {
		ci := strings.HasPrefix(strings.ToLower(w.Path), strings.ToLower(g.Path))
		if ci && !overlapsCode(kw, kg) && strings.ToLower(w.Path) != strings.ToLower(g.Path) {
			// nested only when case is ignored: the case-sensitive overlap test missed the pair
			return "overlap-case"
		}
		if overlapsCode(kw, kg) {
			// the pair was seen as overlapping, so `got` was told to stay behind the file of
			// `want` (_upper). It is still in an earlier file: look for the later, shorter
			// entry of the host that also overlaps `got`, sits in a file before the one of
			// `want` and so moved the mark backwards.
			fg, fw := fileOf(files, got), fileOf(files, want)
			if fg >= 0 && fw >= 0 && fg < fw {
				for i, x := range in.Rules {
					kx := keyedOf(x)
					if i == got || i == want || kx.host != kg.host {
						continue
					}
					fx := fileOf(files, i)
					if overlapsCode(kx, kg) && kx.kpath < kw.kpath && fx >= 0 && fx < fw && fx <= fg {
						return "upper-overwrite"
					}
				}
			}
		}
	}
	return "precedence"
}

type verdict struct {
	key, what string
	obs, exp  interface{}
}

func oracle(in input, files []fileObs) *verdict {
	// every rule without header condition must be present exactly once in the files that
	// are consulted unconditionally
	for i, r := range in.Rules {
		if r.Header != "" {
			continue
		}
		n := 0
		for _, f := range files {
			for _, e := range f.Entries {
				if targetRule(e[1]) == i {
					n++
				}
			}
		}
		if n != 1 {
			return &verdict{"C04/lost-rule", fmt.Sprintf("rule %d (%v) appears %d times in the match files", i, r, n), files, nil}
		}
	}
	if in.Malformed {
		return nil
	}
	paths := requestPaths(in.Rules)
	for _, host := range requestHosts(in.Rules) {
		for _, path := range paths {
			sample := asciiLower(host) + "#" + path
			acc := acceptable(in.Rules, host, path)
			for _, tree := range []bool{false, true} {
				h := lookup(files, sample, tree)
				if h == nil && len(acc) == 0 {
					continue
				}
				req := fmt.Sprintf("request host=%q path=%q (beg %s)", host, path, map[bool]string{false: "scanned in order", true: "longest pattern"}[tree])
				if h == nil {
					return &verdict{"C04/no-answer", fmt.Sprintf("%s: no map entry answers, rule %v applies", req, in.Rules[acc[0]]), nil, in.Rules[acc[0]]}
				}
				got := targetRule(h.val)
				if len(acc) == 0 {
					k := "spurious-answer"
					if strings.ToLower(in.Rules[got].Host) != asciiLower(host) {
						k = "cross-host"
					}
					return &verdict{"C04/" + k, fmt.Sprintf("%s: answered by %v (file %s, key %q) although no rule of the host applies", req, in.Rules[got], files[h.file].Name, h.key), in.Rules[got], nil}
				}
				ok := false
				for _, a := range acc {
					if a == got {
						ok = true
					}
				}
				if !ok {
					want := acc[0]
					return &verdict{"C04/" + classify(in, files, got, want),
						fmt.Sprintf("%s: answered by %v (file %s) but %v must win; files: %s", req, in.Rules[got], files[h.file].Name, in.Rules[want], showFiles(files)),
						in.Rules[got], in.Rules[want]}
				}
			}
		}
	}
	return nil
}

// oracleFiltered judges requests that carry the header of a rule with a header match
// (converter streams). all = every lookup of the chain with its header conditions.
//   - a rule with a header match sits in exactly one lookup conditioned on that header;
//   - a request with the header whose path a filtered rule of that header matches is
//     answered by such a rule;
//   - a request with the header that no filtered rule matches falls through to the
//     unconditional lookups: exact first, then the longest declared path.
func oracleFiltered(in input, all []fileObs) *verdict {
	headers := map[string]bool{}
	for i, r := range in.Rules {
		if r.Header == "" {
			continue
		}
		headers[r.Header] = true
		n, bad := 0, ""
		for _, f := range all {
			for _, e := range f.Entries {
				if targetRule(e[1]) == i {
					n++
					if len(f.Headers) != 1 || f.Headers[0] != r.Header {
						bad = fmt.Sprintf("in lookup %s conditioned on %v", f.Name, f.Headers)
					}
				}
			}
		}
		if n != 1 || bad != "" {
			return &verdict{"C04/filtered-rule-misplaced", fmt.Sprintf("rule %d (%v) with a header match appears %d times %s", i, r, n, bad), all, nil}
		}
	}
	paths := requestPaths(in.Rules)
	for hdr := range headers {
		var visible []fileObs
		for _, f := range all {
			if len(f.Headers) == 0 || (len(f.Headers) == 1 && f.Headers[0] == hdr) {
				visible = append(visible, f)
			}
		}
		for _, host := range requestHosts(in.Rules) {
			for _, path := range paths {
				var filt []int
				for i, r := range in.Rules {
					if r.Header == hdr && applies(r, host, path) {
						filt = append(filt, i)
					}
				}
				acc := acceptable(in.Rules, host, path)
				h := lookup(visible, asciiLower(host)+"#"+path, false)
				req := fmt.Sprintf("request host=%q path=%q with header %s", host, path, hdr)
				if len(filt) > 0 {
					ok := false
					if h != nil {
						for _, i := range filt {
							if targetRule(h.val) == i {
								ok = true
							}
						}
					}
					if !ok {
						return &verdict{"C04/filtered-rule-skipped", fmt.Sprintf("%s: rule %v with that header match applies but the answer is %v; files: %s", req, in.Rules[filt[0]], h, showFiles(visible)), h, in.Rules[filt[0]]}
					}
					continue
				}
				if h == nil && len(acc) == 0 {
					continue
				}
				ok := false
				if h != nil {
					for _, a := range acc {
						if targetRule(h.val) == a {
							ok = true
						}
					}
				}
				if !ok {
					return &verdict{"C04/filtered-fallthrough", fmt.Sprintf("%s: no rule with that header applies, the unconditional rules allow %v but the answer is %v; files: %s", req, acc, h, showFiles(visible)), h, nil}
				}
			}
		}
	}
	return nil
}

func showFiles(files []fileObs) string {
	var parts []string
	for _, f := range files {
		var ks []string
		for _, e := range f.Entries {
			ks = append(ks, e[0])
		}
		parts = append(parts, f.Name+"["+strings.Join(ks, " ")+"]")
	}
	return strings.Join(parts, " ")
}

// ---------------------------------------------------------------- generators

var pathPool = []string{
	"/", "/a", "/a/", "/a/b", "/a/b/", "/a/b/c", "/a/b/c/d", "/A", "/A/", "/A/b", "/a/B", "/A/B/c",
	"/ab", "/a/bc", "/ap", "/app", "/app/", "/app1", "/App", "/APP", "/app/sub", "/App/sub", "/APP/sub",
	"/app/sub/x", "/App/Sub/x", "/a/x", "/a/x/y", "/a/x/z", "/b", "/b/a", "/a/b/C", "/a/b/c/", "/x",
}
var hostPool = []string{"h", "g", "hh", "h.g", "d.local", "a"}
var typePool = []string{"exact", "prefix", "prefix", "prefix", "begin", "begin", "begin"}

func permutations(xs []string) [][]string {
	if len(xs) <= 1 {
		return [][]string{append([]string{}, xs...)}
	}
	var out [][]string
	for i := range xs {
		rest := append(append([]string{}, xs[:i]...), xs[i+1:]...)
		for _, p := range permutations(rest) {
			out = append(out, append([]string{xs[i]}, p...))
		}
	}
	return out
}

var allOrders = permutations([]string{"exact", "prefix", "begin", "regex"})

func pickHosts(rng *rand.Rand, n int) []string {
	p := rng.Perm(len(hostPool))
	var hs []string
	for i := 0; i < n; i++ {
		hs = append(hs, hostPool[p[i]])
	}
	return hs
}

// genRandom: 1..3 hosts (sometimes 4), up to 8 rules each, paths from the closed pool.
// wide (search mode only, no Coq cases): up to 5 hosts and 16 rules per host, which
// takes sort.Slice out of its insertion-sort range.
func genRandom(rng *rand.Rand, wide bool) input {
	in := input{Order: allOrders[rng.Intn(len(allOrders))], Direct: rng.Intn(3) == 0}
	nh := 1 + rng.Intn(3)
	if rng.Intn(12) == 0 {
		nh = 4
	}
	maxRules := 8
	if wide && rng.Intn(3) == 0 {
		nh = 1 + rng.Intn(5)
		maxRules = 16
	}
	hs := pickHosts(rng, nh)
	// a sub-pool makes nesting likely
	sub := make([]string, 0, 10)
	for _, i := range rng.Perm(len(pathPool))[:6+rng.Intn(8)] {
		sub = append(sub, pathPool[i])
	}
	seen := map[string]bool{}
	var per [][]ruleIn
	for _, h := range hs {
		n := 1 + rng.Intn(maxRules)
		var rs []ruleIn
		for i := 0; i < n; i++ {
			r := ruleIn{Host: h, Path: sub[rng.Intn(len(sub))], Type: typePool[rng.Intn(len(typePool))]}
			k := keyedOf(r)
			id := k.host + " " + k.kpath + " " + k.typ
			if seen[id] {
				continue
			}
			seen[id] = true
			rs = append(rs, r)
		}
		per = append(per, rs)
	}
	// interleave the hosts' declarations
	for {
		var live []int
		for i, rs := range per {
			if len(rs) > 0 {
				live = append(live, i)
			}
		}
		if len(live) == 0 {
			break
		}
		i := live[rng.Intn(len(live))]
		in.Rules = append(in.Rules, per[i][0])
		per[i] = per[i][1:]
	}
	return in
}

// genChain: nested chains with alternating non-exact types over two or three hosts, the
// shape on which the priority files of several hosts interact.
func genChain(rng *rand.Rand) input {
	in := input{Order: allOrders[rng.Intn(len(allOrders))], Direct: rng.Intn(4) == 0}
	segs := []string{"a", "b", "c", "x", "y", "z", "A", "B"}
	hs := pickHosts(rng, 2+rng.Intn(2))
	seen := map[string]bool{}
	for _, h := range hs {
		nchains := 1 + rng.Intn(2)
		for c := 0; c < nchains; c++ {
			depth := 1 + rng.Intn(4)
			p := ""
			if rng.Intn(3) == 0 {
				r := ruleIn{Host: h, Path: "/", Type: []string{"prefix", "begin"}[rng.Intn(2)]}
				k := keyedOf(r)
				if id := k.host + " " + k.kpath + " " + k.typ; !seen[id] {
					seen[id] = true
					in.Rules = append(in.Rules, r)
				}
			}
			for d := 0; d < depth; d++ {
				p += "/" + segs[rng.Intn(len(segs))]
				if rng.Intn(5) == 0 {
					continue
				}
				r := ruleIn{Host: h, Path: p, Type: []string{"prefix", "begin", "prefix", "begin", "exact"}[rng.Intn(5)]}
				k := keyedOf(r)
				id := k.host + " " + k.kpath + " " + k.typ
				if seen[id] {
					continue
				}
				seen[id] = true
				in.Rules = append(in.Rules, r)
			}
		}
	}
	if len(in.Rules) == 0 {
		in.Rules = append(in.Rules, ruleIn{Host: hs[0], Path: "/", Type: "prefix"})
	}
	rng.Shuffle(len(in.Rules), func(i, j int) { in.Rules[i], in.Rules[j] = in.Rules[j], in.Rules[i] })
	return in
}

var weirdPaths = []string{"//", "/a//", "/a///", "/a//b", "/a#b", "/a?b", "/a/#", "a", "a/b", "/A//B/", "/a/?x", "/%41", "/a//B"}
var weirdHosts = []string{"H", "Hh.G", "D.local", "g"}

// genMalformed: mostly pool paths with some paths outside the guard; host names may be
// upper-case (distinct after lower-casing).
func genMalformed(rng *rand.Rand) input {
	in := input{Order: allOrders[rng.Intn(len(allOrders))], Direct: rng.Intn(2) == 0, Malformed: true}
	p := rng.Perm(len(weirdHosts))
	nh := 1 + rng.Intn(3)
	seen := map[string]bool{}
	for i := 0; i < nh; i++ {
		h := weirdHosts[p[i]]
		n := 1 + rng.Intn(7)
		for j := 0; j < n; j++ {
			path := pathPool[rng.Intn(len(pathPool))]
			if rng.Intn(3) == 0 {
				path = weirdPaths[rng.Intn(len(weirdPaths))]
			}
			r := ruleIn{Host: h, Path: path, Type: typePool[rng.Intn(len(typePool))]}
			k := keyedOf(r)
			id := k.host + " " + k.kpath + " " + k.typ
			if seen[id] {
				continue
			}
			seen[id] = true
			in.Rules = append(in.Rules, r)
		}
	}
	rng.Shuffle(len(in.Rules), func(i, j int) { in.Rules[i], in.Rules[j] = in.Rules[j], in.Rules[i] })
	return in
}

// expectedOrder: what the documentation and the validation promise for a path-type-order
// value: the list as given when it names each of the four types once (lower case, no
// blanks), otherwise it is refused with a warning and the default order is used.
func expectedOrder(v string) []string {
	def := []string{"exact", "prefix", "begin", "regex"}
	parts := strings.Split(v, ",")
	if len(parts) != 4 {
		return def
	}
	seen := map[string]bool{}
	for _, p := range parts {
		if (p != "exact" && p != "prefix" && p != "begin" && p != "regex") || seen[p] {
			return def
		}
		seen[p] = true
	}
	return parts
}

// genOrderStr: mostly the 24 valid lists, otherwise case variants, blanks and invalid
// lists (a type missing, a type twice, an unknown word, empty, trailing comma).
func genOrderStr(rng *rand.Rand) string {
	perm := append([]string{}, allOrders[rng.Intn(len(allOrders))]...)
	switch rng.Intn(24) {
	case 0: // one type missing
		i := rng.Intn(4)
		perm = append(perm[:i], perm[i+1:]...)
	case 1: // exact missing
		var p []string
		for _, t := range perm {
			if t != "exact" {
				p = append(p, t)
			}
		}
		perm = p
	case 2: // a type twice
		perm[rng.Intn(4)] = perm[rng.Intn(4)]
	case 3: // unknown word
		perm[rng.Intn(4)] = []string{"glob", "exactly", "", "str"}[rng.Intn(4)]
	case 4:
		return []string{"", ",", "exact", "regex,exact"}[rng.Intn(4)]
	case 5: // trailing / leading comma
		if rng.Intn(2) == 0 {
			return strings.Join(perm, ",") + ","
		}
		return "," + strings.Join(perm, ",")
	case 6: // case variant
		i := rng.Intn(4)
		perm[i] = strings.ToUpper(perm[i][:1]) + perm[i][1:]
	case 7: // blanks
		return strings.Join(perm, []string{", ", " ,"}[rng.Intn(2)])
	case 8: // five entries
		perm = append(perm, perm[rng.Intn(4)])
	}
	return strings.Join(perm, ",")
}

var headerPool = []string{"X-Env:canary", "X-Env:beta", "X-Ver:2"}

// genConverted: a rule set declared as Gateway API HTTPRoutes (Exact / PathPrefix) or as
// Ingress resources (Exact / Prefix / ImplementationSpecific = begin), about one rule in
// five with a header match.
func genConverted(rng *rand.Rand, source string) input {
	var base input
	if rng.Intn(2) == 0 {
		base = genChain(rng)
	} else {
		base = genRandom(rng, false)
	}
	ostr := genOrderStr(rng)
	in := input{Order: expectedOrder(ostr), Source: source, OrderStr: &ostr}
	seen := map[string]bool{}
	withHeaders := rng.Intn(2) == 0
	for _, r := range base.Rules {
		if source == "gateway" && r.Type == "begin" {
			r.Type = []string{"prefix", "exact", "prefix", ""}[rng.Intn(3)]
		}
		if withHeaders && rng.Intn(4) == 0 {
			r.Header = headerPool[rng.Intn(len(headerPool))]
		}
		k := keyedOf(r)
		id := k.host + " " + k.kpath + " " + k.typ + " " + r.Header
		// the converters refuse a redeclared (host, path, type, headers); begin keys also
		// collide when they only differ in case
		if seen[id] || seen[k.host+" "+r.Path+" "+r.Type+" "+r.Header] {
			continue
		}
		seen[id] = true
		in.Rules = append(in.Rules, r)
	}
	return in
}

// corpus: past failures and hand-made boundary cases, always run first.
func corpus() []input {
	def := []string{"exact", "prefix", "begin", "regex"}
	var out []input
	// DESIGN §8 item 8 (i): case-sensitive overlap test, begin nested under a prefix rule
	out = append(out, input{Order: []string{"exact", "begin", "prefix", "regex"}, Rules: []ruleIn{
		{"h", "/App/sub", "prefix", ""}, {"h", "/app", "begin", ""}}})
	out = append(out, input{Order: def, Rules: []ruleIn{
		{"h", "/app/sub", "begin", ""}, {"h", "/App", "prefix", ""}}})
	// DESIGN §8 item 8 (ii): _upper overwritten (two hosts)
	out = append(out, input{Order: def, Rules: []ruleIn{
		{"g", "/a/b/c", "prefix", ""}, {"g", "/a/b", "begin", ""}, {"g", "/a", "prefix", ""},
		{"h", "/a/x/y", "begin", ""}, {"h", "/a/x", "prefix", ""}, {"h", "/a/b/c", "prefix", ""}, {"h", "/a", "begin", ""}, {"h", "/", "prefix", ""}}})
	// boundaries of the property text
	out = append(out, input{Order: def, Rules: []ruleIn{
		{"h", "/app", "prefix", ""}, {"h", "/app1", "exact", ""}, {"h", "/app/", "begin", ""}, {"h", "/App", "begin", ""}, {"g", "/app", "exact", ""}, {"g", "/", "begin", ""}}})
	out = append(out, input{Order: []string{"regex", "begin", "prefix", "exact"}, Rules: []ruleIn{
		{"h", "/", "prefix", ""}, {"h", "/a", "begin", ""}, {"h", "/a/", "prefix", ""}, {"h", "/a/b", "exact", ""}, {"h", "/a/b", "begin", ""}, {"hh", "/a", "prefix", ""}}})
	for i := range out {
		out = append(out, input{Order: out[i].Order, Rules: out[i].Rules, Direct: true})
	}
	// rule sets declared through the Gateway API: a prefix path sorting before the exact
	// one, and two hosts sharing the map (the exact file has to stay the first lookup);
	// the same through Ingress resources; and with header matches
	gw1 := []ruleIn{{Host: "c.local", Path: "/app/sub/x", Type: "prefix"}, {Host: "c.local", Path: "/app/sub", Type: "exact"}, {Host: "c.local", Path: "/app", Type: "prefix"}}
	gw2 := []ruleIn{{Host: "a.local", Path: "/", Type: "prefix"}, {Host: "b.local", Path: "/app", Type: "exact"}, {Host: "b.local", Path: "/", Type: "prefix"}}
	gw3 := []ruleIn{{Host: "c.local", Path: "/app", Type: "prefix", Header: "X-Env:canary"}, {Host: "c.local", Path: "/app/sub", Type: "exact"}, {Host: "c.local", Path: "/app", Type: "prefix"}, {Host: "c.local", Path: "/app/sub", Type: "exact", Header: "X-Env:canary"}}
	for _, rs := range [][]ruleIn{gw1, gw2, gw3} {
		out = append(out, input{Order: def, Rules: rs, Source: "gateway"}, input{Order: []string{"regex", "begin", "prefix", "exact"}, Rules: rs, Source: "ingress"})
	}
	// path-type-order lists the validation has to refuse (default order used)
	for _, v := range []string{"prefix,begin,regex", "begin,exact,regex", "exact,prefix,begin,regex,", "Exact,prefix,begin,regex"} {
		v := v
		out = append(out, input{Order: expectedOrder(v), OrderStr: &v, Source: "ingress", Rules: []ruleIn{
			{"h", "/app", "exact", ""}, {"h", "/app", "prefix", ""}, {"h", "/", "begin", ""}, {"g", "/app/sub", "exact", ""}}})
	}
	return out
}

// ---------------------------------------------------------------- Coq printing

func coqType(t string) string {
	return map[string]string{"exact": "Exact", "prefix": "Prefix", "begin": "Begin", "regex": "Regex"}[t]
}

func coqMeth(m string) string {
	return map[string]string{"str": "MStr", "beg": "MBeg", "dir": "MDir", "reg": "MReg"}[m]
}

func coqCase(id int, in input, order []string, seq []fed, files []fileObs) string {
	var ord, ents, fs []string
	for _, o := range order {
		ord = append(ord, coqType(o))
	}
	for _, f := range seq {
		r := in.Rules[f.Rule]
		if r.Header != "" {
			// entries with a header match are outside the Coq model (see Corr_C04.v): the model
			// and the checker get the entries and the lookups without header condition
			continue
		}
		ents = append(ents, hx.Tuple(hx.Str(r.Host), hx.Str(r.Path), coqType(r.Type), hx.N(f.Order), hx.Str(f.Target)))
	}
	for _, f := range files {
		var es []string
		for _, e := range f.Entries {
			es = append(es, hx.Tuple(hx.Str(e[0]), hx.Str(e[1])))
		}
		fs = append(fs, hx.Tuple(coqMeth(f.Method), hx.Bool(f.Lower), hx.List(es)))
	}
	return fmt.Sprintf("{| cid := %s; corder := %s; cfed := %s; cfiles := %s; cstrict := %s |}", hx.N(id), hx.List(ord), hx.List(ents), hx.List(fs), hx.Bool(!in.Malformed))
}

// ---------------------------------------------------------------- main

func main() {
	o := hx.Parse()
	rng := o.Rng()
	res := hx.NewResult("C04", "rule sets of 1..4 hosts sharing one map, up to 8 rules per host, types exact/prefix/begin, paths from a pool closed under prefixes, sub-directories and case variants (plus nested chains with alternating types), all 24 path-type orders, HostPath built through Host.AddPath or by hand; non-trivial = at least two non-exact rules of one host of different types nested in each other (ignoring case); distinct by canonical text of the input")
	cw := hx.NewCaseWriter(o, res, "From HI Require Import Corr.Corr_C04.", "c04case", 250)
	if abs, err := filepath.Abs(o.Out); err == nil {
		o.Out = abs
	}
	if err := os.Chdir(o.Out); err != nil {
		panic(err)
	}
	mr := newMapRenderer()
	ie := newInstEnv()
	var inputs []input
	if o.Replay != "" {
		var in input
		hx.ReadReplay(o.Replay, &in)
		inputs = append(inputs, in)
	} else {
		inputs = append(inputs, corpus()...)
		// stored failures of earlier runs
		if fs, err := filepath.Glob("/verif/corpus/C04/*.json"); err == nil {
			sort.Strings(fs)
			for _, f := range fs {
				var in input
				hx.ReadReplay(f, &in)
				if len(in.Rules) > 0 {
					inputs = append(inputs, in)
				}
			}
		}
		n := o.Count(1500, 20000)
		if o.Search {
			n = o.Count(20000, 150000)
		}
		for i := 0; i < n; i++ {
			if i%5 == 0 {
				inputs = append(inputs, genConverted(rng, []string{"gateway", "ingress"}[(i/5)%2]))
			} else if i%10 == 9 {
				inputs = append(inputs, genMalformed(rng))
			} else if i%3 == 2 {
				inputs = append(inputs, genChain(rng))
			} else {
				inputs = append(inputs, genRandom(rng, o.Search))
			}
		}
	}
	for _, in := range inputs {
		ob := run(in, mr, ie, o.Out)
		curRuleOf = ob.ruleOf
		if ob.memAll == nil && ob.renderedAll == nil {
			ob.memAll, ob.renderedAll = ob.mem, ob.rendered
		}
		seq, files := ob.seq, ob.rendered
		nested := false
		for i, a := range in.Rules {
			for j, b := range in.Rules {
				if i != j && strings.ToLower(a.Host) == strings.ToLower(b.Host) && a.Type != b.Type && a.Type != "exact" && b.Type != "exact" &&
					len(a.Path) > len(b.Path) && strings.HasPrefix(strings.ToLower(a.Path), strings.ToLower(b.Path)) {
					nested = true
				}
			}
		}
		hostset := map[string]bool{}
		for _, r := range in.Rules {
			hostset[strings.ToLower(r.Host)] = true
		}
		b, _ := json.Marshal(in)
		res.Seen(string(b), nested && !in.Malformed)
		res.Count(fmt.Sprintf("hosts=%d", len(hostset)))
		res.Count(fmt.Sprintf("files=%d", len(files)))
		res.Count(fmt.Sprintf("rules=%02d-%02d", len(in.Rules)/4*4, len(in.Rules)/4*4+3))
		res.Count("order=" + strings.Join(in.Order, ","))
		res.Count(fmt.Sprintf("direct=%v", in.Direct))
		res.Count(fmt.Sprintf("malformed=%v", in.Malformed))
		res.Sample(5, map[string]interface{}{"input": in, "files": ob.renderedAll})
		res.Count(fmt.Sprintf("through_instance=%v", ob.viaInst))
		res.Count("source=" + map[string]string{"": "direct-fill", "gateway": "gateway-converter", "ingress": "ingress-converter"}[in.Source])
		res.OracleChecks++
		// the property is about the files as generated: what was written must be what
		// MatchFiles() holds, and the configuration must consult the files one after the
		// other until one answers; the request level oracle then runs on the rendered files
		if in.OrderStr != nil {
			res.Count("order_str_valid=" + fmt.Sprint(strings.Join(expectedOrder(*in.OrderStr), ",") == *in.OrderStr))
		}
		if in.OrderStr != nil && strings.Join(ob.order, ",") != strings.Join(expectedOrder(*in.OrderStr), ",") {
			res.Count("oracle_fail_C04/path-type-order")
			res.Fail(hx.Failure{Key: "C04/path-type-order", What: fmt.Sprintf("path-type-order %q: the map builder got the order %v, expected %v (a list that does not name each of exact, prefix, begin, regex once is refused and the default order used)", *in.OrderStr, ob.order, expectedOrder(*in.OrderStr)), Input: in, Observed: ob.order, Expected: expectedOrder(*in.OrderStr)})
		} else if d := sameFiles(ob.memAll, ob.renderedAll); d != "" {
			res.Count("oracle_fail_C04/rendered-map-differs")
			res.Fail(hx.Failure{Key: "C04/rendered-map-differs", What: "the generated map files differ from MatchFiles(): " + d, Input: in, Observed: ob.renderedAll, Expected: ob.memAll})
		} else if ob.chain != "" {
			res.Count("oracle_fail_C04/lookup-chain")
			res.Fail(hx.Failure{Key: "C04/lookup-chain", What: ob.chain, Input: in, Observed: ob.rendered})
		} else if v := oracle(in, files); v != nil {
			res.Count("oracle_fail_" + v.key)
			res.Fail(hx.Failure{Key: v.key, What: v.what, Input: in, Observed: v.obs, Expected: v.exp})
		} else if v := oracleFiltered(in, ob.renderedAll); v != nil {
			res.Count("oracle_fail_" + v.key)
			res.Fail(hx.Failure{Key: v.key, What: v.what, Input: in, Observed: v.obs, Expected: v.exp})
		}
		if !o.Search {
			in, seq, files := in, seq, files
			order := in.Order
			if ob.order != nil {
				order = ob.order
			}
			cw.Add(func(id int) string { return coqCase(id, in, order, seq, files) }, in)
		}
	}
	cw.Flush()
	res.Write(o)
}
