package main

import (
	"fmt"
	"os"
	"os/exec"

	"verif/harness/lib/pipeline"
)

func debugHistory(dir string, m [][]pipeline.Change) {
	p := pipeline.New(pipeline.Options{Dir: dir + "/dbg", WatchWithoutClass: true, DefaultService: "ns1/svc1"})
	defer p.Close()
	for i, b := range m {
		err := p.Apply(b)
		for _, r := range p.Last.Runs {
			fmt.Printf("batch %d err=%v links=%v add=%d upd=%d del=%d full=%v\n", i, err, r.Changed.Links, len(r.Changed.IngressesAdd), len(r.Changed.IngressesUpd), len(r.Changed.IngressesDel), r.Changed.NeedFullSync)
		}
		if db := p.Config().Backends().DefaultBackend; db != nil {
			_, inItems := p.Config().Backends().Items()[db.ID]
			fmt.Printf("   DefaultBackend=%s inItems=%v\n", db.ID, inItems)
		} else {
			fmt.Println("   DefaultBackend=nil")
		}
		for _, l := range p.ConvLog.Take() {
			fmt.Println("   conv:", l)
		}
		for _, l := range p.HALog.Take() {
			fmt.Println("   ha:", l)
		}
	}
	if pat := os.Getenv("GREP"); pat != "" {
		out, _ := exec.Command("sh", "-c", "grep -rn -E '"+pat+"' "+p.CfgDir()+"/*.cfg | cut -c1-220").CombinedOutput()
		fmt.Println(string(out))
	}
}
